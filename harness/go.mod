module verif/harness

go 1.24.0

replace github.com/arr-ai/arrai => /repo

replace github.com/spf13/afero => github.com/anz-bank/afero v1.2.4

require (
	github.com/arr-ai/arrai v0.0.0
	github.com/arr-ai/hash v1.1.0
	github.com/arr-ai/wbnf v0.38.0
	github.com/sirupsen/logrus v1.9.4
	github.com/spf13/afero v1.11.0
)

require (
	github.com/arr-ai/frozen v1.11.0 // indirect
	github.com/cpuguy83/go-md2man/v2 v2.0.4 // indirect
	github.com/davecgh/go-spew v1.1.1 // indirect
	github.com/go-errors/errors v1.5.1 // indirect
	github.com/iancoleman/strcase v0.3.0 // indirect
	github.com/mattn/go-isatty v0.0.20 // indirect
	github.com/mohae/deepcopy v0.0.0-20170929034955-c48cc78d4826 // indirect
	github.com/pkg/errors v0.9.1 // indirect
	github.com/pmezard/go-difflib v1.0.0 // indirect
	github.com/richardlehane/mscfb v1.0.4 // indirect
	github.com/richardlehane/msoleps v1.0.3 // indirect
	github.com/russross/blackfriday/v2 v2.1.0 // indirect
	github.com/stretchr/testify v1.10.0 // indirect
	github.com/urfave/cli/v2 v2.2.0 // indirect
	github.com/xuri/efp v0.0.0-20240408161823-9ad904a10d6d // indirect
	github.com/xuri/excelize/v2 v2.8.1 // indirect
	github.com/xuri/nfp v0.0.0-20240318013403-ab9948c2c4a7 // indirect
	golang.org/x/crypto v0.48.0 // indirect
	golang.org/x/net v0.50.0 // indirect
	golang.org/x/sys v0.41.0 // indirect
	golang.org/x/text v0.34.0 // indirect
	google.golang.org/protobuf v1.34.2 // indirect
	gopkg.in/yaml.v3 v3.0.1 // indirect
)
