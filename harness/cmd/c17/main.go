// harness for C17: drives a real engine (engine.Start and its exported API) through a history of
// Update / Observe / cancel / Hangup calls issued from client goroutines, every call under a watchdog,
// and prints the replies and the per-observer callback logs canonically (format: lean/Arrai/C17/Gen.lean).
//
// It is deliberately dumb: issue the calls, record what the callbacks were told, print.
package main

import (
	"context"
	"errors"
	"fmt"
	"hash/fnv"
	"io"
	"math/rand"
	"runtime"
	"strconv"
	"strings"
	"sync"
	"sync/atomic"
	"time"

	"github.com/sirupsen/logrus"

	"github.com/arr-ai/arrai/engine"
	"github.com/arr-ai/arrai/rel"
	"github.com/arr-ai/arrai/syntax"

	"verif/harness/hlib"
)

// watchdog bounds every API call: a call that has not returned by then is reported as "T" (the engine
// loop is blocked) and nothing more is issued.
const watchdog = 2 * time.Second

type op struct {
	client int
	kind   byte   // U O C H
	src    string // U, O
	script string // O
	mode   byte   // O: L F N E
	target int    // C: ordinal of the observation
	obs    *observer
}

type observer struct {
	mu       sync.Mutex
	ordinal  int
	mode     byte
	script   string
	inClose  int // onclose calls the observation's own cancel function this many times
	calls    int
	log      []string
	cancel   func()
	stopping *atomic.Bool
	closed   chan struct{}
	once     sync.Once
}

func (o *observer) onupdate(v rel.Value) error {
	o.mu.Lock()
	o.log = append(o.log, "v"+hlib.Canon(v))
	act := byte('o')
	if o.calls < len(o.script) {
		act = o.script[o.calls]
	}
	o.calls++
	cancel := o.cancel
	o.mu.Unlock()
	switch act {
	case 'e':
		return errors.New("observer refuses the value")
	case 'p':
		panic("observer panics")
	case 'r', 'R':
		if cancel != nil {
			cancel() // from inside the callback, i.e. on the engine's goroutine
			if act == 'R' {
				cancel()
			}
		}
	}
	return nil
}

func (o *observer) onclose(err error) {
	o.mu.Lock()
	switch {
	case err != nil:
		o.log = append(o.log, "e")
	case o.stopping.Load():
		o.log = append(o.log, "s")
	default:
		o.log = append(o.log, "c")
	}
	cancel := o.cancel
	o.mu.Unlock()
	if cancel != nil {
		for i := 0; i < o.inClose; i++ {
			cancel() // from inside onclose, on the engine's goroutine
		}
	}
	o.once.Do(func() { close(o.closed) })
}

func (o *observer) snapshot() []string {
	o.mu.Lock()
	defer o.mu.Unlock()
	return append([]string{}, o.log...)
}

func render(mode byte, log []string, allowed map[string]bool) string {
	vals := []string{}
	shape := true
	for i, t := range log {
		if strings.HasPrefix(t, "v") {
			vals = append(vals, t[1:])
		} else if i != len(log)-1 {
			shape = false
		}
	}
	inc := true
	prev := 0
	for i, v := range vals {
		n, err := strconv.Atoi(v)
		if err != nil || n < 0 || (i > 0 && n <= prev) {
			inc = false
			break
		}
		prev = n
	}
	wf := "0"
	if shape && inc {
		wf = "1"
	}
	end := "-"
	if len(log) > 0 && !strings.HasPrefix(log[len(log)-1], "v") {
		end = log[len(log)-1]
	}
	last := "-"
	if len(vals) > 0 {
		last = vals[len(vals)-1]
	}
	switch mode {
	case 'F':
		return fmt.Sprintf("n=%d,last=%s,wf=%s,end=%s", len(vals), last, wf, end)
	case 'N':
		return fmt.Sprintf("n=%d,wf=%s,end=%s", len(vals), wf, end)
	case 'E':
		return fmt.Sprintf("wf=%s,end=%s", wf, end)
	case 'C':
		chain := strings.Join(vals, ",")
		if allowed[chain] {
			chain = "ok"
		}
		return fmt.Sprintf("chain=%s,end=%s", chain, end)
	}
	return strings.Join(log, ",")
}

// gate holds the evaluations of one round of a "race" case until all of them have started or gateWait has
// passed: evaluations that the engine allows to overlap do overlap.  It changes timing only.
const gateWait = 30 * time.Millisecond

type gate struct {
	mu      sync.Mutex
	n       int
	arrived int
	all     chan struct{}
}

func newGate(n int) *gate { return &gate{n: n, all: make(chan struct{})} }

func (g *gate) arrive() {
	g.mu.Lock()
	g.arrived++
	if g.arrived == g.n {
		close(g.all)
	}
	g.mu.Unlock()
	select {
	case <-g.all:
	case <-time.After(gateWait):
	}
}

// gatedExpr is the wrapped expression, evaluated after passing the gate.
type gatedExpr struct {
	rel.Expr
	g *gate
}

func (x gatedExpr) Eval(ctx context.Context, local rel.Scope) (rel.Value, error) {
	x.g.arrive()
	return x.Expr.Eval(ctx, local)
}

// a client is one goroutine; its calls are handed to it one at a time
type client struct{ work chan func() }

func newClient() *client {
	c := &client{work: make(chan func())}
	go func() {
		for f := range c.work {
			f()
		}
	}()
	return c
}

// call runs f on the client's goroutine; false = not finished within the watchdog period.
func (c *client) call(f func()) bool {
	done := make(chan struct{})
	t := time.NewTimer(watchdog)
	defer t.Stop()
	select {
	case c.work <- func() { f(); close(done) }:
	case <-t.C:
		return false
	}
	select {
	case <-done:
		return true
	case <-t.C:
		return false
	}
}

func parse(fields []string) ([]*op, []*observer, int, string) {
	var ops []*op
	var obs []*observer
	maxClient := 0
	for _, f := range fields {
		p := strings.SplitN(f, " ", 3)
		if len(p) < 2 {
			return nil, nil, 0, "bad op " + f
		}
		c, err := strconv.Atoi(p[0])
		if err != nil {
			return nil, nil, 0, "bad client " + f
		}
		if c > maxClient {
			maxClient = c
		}
		o := &op{client: c, kind: p[1][0]}
		switch o.kind {
		case 'U':
			o.src = p[2]
		case 'O':
			q := strings.SplitN(p[2], " ", 3)
			o.script, o.mode, o.src = q[0], q[1][0], q[2]
			inClose := 0
			if k := strings.IndexByte(o.script, '/'); k >= 0 {
				inClose, _ = strconv.Atoi(o.script[k+1:])
				o.script = o.script[:k]
			}
			if o.script == "-" {
				o.script = ""
			}
			o.obs = &observer{ordinal: len(obs) + 1, mode: o.mode, script: o.script, inClose: inClose, closed: make(chan struct{})}
			obs = append(obs, o.obs)
		case 'C':
			o.target, _ = strconv.Atoi(p[2])
		case 'H':
		default:
			return nil, nil, 0, "bad op " + f
		}
		ops = append(ops, o)
	}
	return ops, obs, maxClient, ""
}

func runEngine(payload []string) string {
	par := payload[0] == "par" || payload[0] == "race"
	fields := payload[1:]
	allowed := map[string]bool{}
	var roundStart []int // "race": index of the first operation of every round
	if payload[0] == "race" {
		for _, c := range strings.Split(payload[1], ";") {
			allowed[c] = true
		}
		fields = nil
		for _, f := range payload[2:] {
			if f == "B" {
				roundStart = append(roundStart, len(fields))
			} else {
				fields = append(fields, f)
			}
		}
	}
	ops, observers, maxClient, bad := parse(fields)
	if bad != "" {
		return "harness-error:" + bad
	}
	ctx := hlib.NewCtx()
	exprs := make([]rel.Expr, len(ops))
	for i, o := range ops {
		if o.kind == 'U' || o.kind == 'O' {
			e, err := syntax.Compile(ctx, syntax.NoPath, o.src)
			if err != nil {
				return "harness-error:compile:" + o.src
			}
			exprs[i] = e
		}
	}
	failing, err := syntax.Compile(ctx, syntax.NoPath, "1(2)")
	if err != nil {
		return "harness-error:compile barrier"
	}
	var stopping atomic.Bool
	for _, o := range observers {
		o.stopping = &stopping
	}

	eng := engine.Start()
	clients := make([]*client, maxClient+1)
	for i := range clients {
		clients[i] = newClient()
	}
	defer func() {
		for _, c := range clients {
			// nobody sends any more; a client stuck in a blocked call never returns to its work loop, the others end here
			close(c.work)
		}
	}()

	// one API call, on its client's goroutine, under the watchdog
	issue := func(i int) string {
		o := ops[i]
		res := "."
		ok := clients[o.client].call(func() {
			switch o.kind {
			case 'U':
				if eng.Update(exprs[i]) == nil {
					res = "1"
				} else {
					res = "0"
				}
			case 'O':
				cancel := eng.Observe(exprs[i], o.obs.onupdate, o.obs.onclose)
				o.obs.mu.Lock()
				o.obs.cancel = cancel
				o.obs.mu.Unlock()
			case 'C':
				var cancel func()
				if o.target >= 1 && o.target <= len(observers) {
					t := observers[o.target-1]
					t.mu.Lock()
					cancel = t.cancel
					t.mu.Unlock()
				}
				if cancel != nil {
					cancel()
				}
			case 'H':
				eng.Hangup()
			}
		})
		if !ok {
			return "T"
		}
		return res
	}

	chars := make([]strings.Builder, maxClient+1)
	var seqChars strings.Builder
	aborted := false
	record := func(c int, ch string) {
		chars[c].WriteString(ch)
		seqChars.WriteString(ch)
	}

	if !par {
		for i := range ops {
			ch := issue(i)
			record(ops[i].client, ch)
			if ch == "T" {
				aborted = true
				break
			}
		}
	} else {
		i := 0
		for ; i < len(ops) && ops[i].client == 0; i++ {
			ch := issue(i)
			record(0, ch)
			if ch == "T" {
				aborted = true
				break
			}
		}
		if !aborted && roundStart != nil {
			for r, from := range roundStart {
				to := len(ops)
				if r+1 < len(roundStart) {
					to = roundStart[r+1]
				}
				g := newGate(to - from)
				for j := from; j < to; j++ {
					exprs[j] = gatedExpr{exprs[j], g}
				}
				start := make(chan struct{})
				res := make([]string, to-from)
				var wg sync.WaitGroup
				for j := from; j < to; j++ {
					wg.Add(1)
					go func(j int) {
						defer wg.Done()
						<-start
						res[j-from] = issue(j)
					}(j)
				}
				close(start) // all calls of the round are made together
				wg.Wait()    // the next round starts after every call of this one has returned
				for j := from; j < to; j++ {
					chars[ops[j].client].WriteString(res[j-from])
					if res[j-from] == "T" {
						aborted = true
					}
				}
				if aborted {
					break
				}
			}
		} else if !aborted {
			h := fnv.New64a()
			h.Write([]byte(strings.Join(payload, "\t")))
			seed := int64(h.Sum64())
			var wg sync.WaitGroup
			var anyT atomic.Bool
			for c := 1; c <= maxClient; c++ {
				wg.Add(1)
				go func(c int) {
					defer wg.Done()
					rng := rand.New(rand.NewSource(seed + int64(c)))
					for j := i; j < len(ops); j++ {
						if ops[j].client != c {
							continue
						}
						switch rng.Intn(4) {
						case 0:
							runtime.Gosched()
						case 1:
							time.Sleep(time.Duration(rng.Intn(200)) * time.Microsecond)
						}
						ch := issue(j)
						chars[c].WriteString(ch) // only this goroutine writes chars[c]
						if ch == "T" {
							anyT.Store(true)
							return
						}
					}
				}(c)
			}
			wg.Wait()
			aborted = anyT.Load()
		}
	}

	if !aborted {
		// barrier: a failing Update can only be received once the previous arm has finished, and its own arm
		// makes no callback; after it returns no callback is in flight.
		if !clients[0].call(func() { _ = eng.Update(failing) }) {
			record(0, "T")
			aborted = true
		}
	}
	if !aborted {
		stopping.Store(true)
		if !clients[0].call(func() { eng.Stop() }) {
			record(0, "T")
			aborted = true
		}
	}
	if !aborted {
		// Stop's deferred closeAllWatchers runs after the rendezvous: wait for the observers it closes
		deadline := time.After(watchdog)
	wait:
		for _, o := range observers {
			o.mu.Lock()
			subscribed := o.cancel != nil
			o.mu.Unlock()
			if !subscribed {
				continue
			}
			select {
			case <-o.closed:
			case <-deadline:
				break wait
			}
		}
	}

	var sb strings.Builder
	if par {
		for c := 0; c <= maxClient; c++ {
			if c > 0 {
				sb.WriteString(";")
			}
			fmt.Fprintf(&sb, "R%d=%s", c, chars[c].String())
		}
	} else {
		sb.WriteString("R=" + seqChars.String())
	}
	for _, o := range observers {
		fmt.Fprintf(&sb, "|%d:%s", o.ordinal, render(o.mode, o.snapshot(), allowed))
	}
	return sb.String()
}

func init() {
	logrus.SetOutput(io.Discard)
	logrus.SetLevel(logrus.PanicLevel)
	hlib.Register("engine", runEngine)
}

func main() { hlib.Main() }
