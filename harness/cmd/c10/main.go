// harness for C10 ("every program ends in a value or an error, never a crash or a hang").
//
// A fatal stack overflow or a runaway allocation kills the process and a hang blocks a worker,
// so this harness never evaluates fuzzed source in the process that reads the case file:
//
//	supervisor (default mode): reads the cases, keeps a pool of child processes (this same
//	  binary with C10_CHILD=1), hands each child ONE case at a time and waits for its answer.
//	  A child that dies        -> observable "crash:<first fatal/panic line of its stderr>", child replaced.
//	  A child that says timeout -> observable "timeout", child killed and replaced (the runaway
//	  goroutine cannot be stopped from inside).
//	  A child that does not answer within timeout+grace -> "timeout", killed and replaced.
//	child: hlib.Main() with one worker; address space and goroutine stack are bounded
//	  (RLIMIT_AS from C10_AS_MB, debug.SetMaxStack from C10_MAXSTACK_MB, GOMEMLIMIT from the env).
//
// Operation "outcome": payload[0] = arr.ai source.  Compiles and evaluates it the way the hosts do
// (syntax.EvalWithScope, safe standard library bound to //, in-memory file systems), then renders
// the value the way the CLI/shell report it (String, Repr, and a full enumeration).  Observable:
// "value" | "error"; a panic becomes panic:<first arrai frame>:<msg> (hlib), see above for the rest.
package main

import (
	"bufio"
	"context"
	"encoding/hex"
	"fmt"
	"io"
	"os"
	"os/exec"
	"regexp"
	"runtime"
	"runtime/debug"
	"strconv"
	"strings"
	"sync"
	"syscall"
	"time"

	"github.com/spf13/afero"

	"github.com/arr-ai/arrai/pkg/arraictx"
	"github.com/arr-ai/arrai/pkg/ctxfs"
	"github.com/arr-ai/arrai/syntax"

	"verif/harness/hlib"
)

func envInt(name string, def int) int {
	if s := os.Getenv(name); s != "" {
		if n, err := strconv.Atoi(s); err == nil {
			return n
		}
	}
	return def
}

// ---------------------------------------------------------------------------- child

func newCtx() context.Context {
	ctx := arraictx.InitRunCtx(context.Background())
	ctx = ctxfs.SourceFsOnto(ctx, afero.NewMemMapFs())
	ctx = ctxfs.RuntimeFsOnto(ctx, afero.NewMemMapFs())
	return ctx
}

func outcome(p []string) string {
	v, err := syntax.EvalWithScope(newCtx(), "", p[0], syntax.SafeStdScope())
	if err != nil {
		_ = err.Error() // the hosts print it
		return "error"
	}
	// what the hosts do with a value: print it
	_ = v.String()
	_ = fmt.Sprintf("%v", v) // fu.Repr, as arrai.OutputValue and the shell do
	_ = hlib.Canon(v)
	return "value"
}

// survive: like outcome, but the observable does not distinguish a value from an error.
func survive(p []string) string {
	outcome(p)
	return "ok"
}

// surviveb: payload[0] = hex of arbitrary bytes offered as source text.
func surviveb(p []string) string {
	b, err := hex.DecodeString(p[0])
	if err != nil {
		return "harness-error:bad hex"
	}
	outcome([]string{string(b)})
	return "ok"
}

func childMain() {
	if mb := envInt("C10_AS_MB", 0); mb > 0 {
		lim := syscall.Rlimit{Cur: uint64(mb) << 20, Max: uint64(mb) << 20}
		_ = syscall.Setrlimit(syscall.RLIMIT_AS, &lim)
	}
	if mb := envInt("C10_MAXSTACK_MB", 0); mb > 0 {
		debug.SetMaxStack(mb << 20)
	}
	syntax.SafeStdScope() // pay for the standard library before the first case is timed
	hlib.Main()
}

// ---------------------------------------------------------------------------- supervisor

type child struct {
	cmd    *exec.Cmd
	in     io.WriteCloser
	out    *bufio.Reader
	errBuf *tailBuf
}

type tailBuf struct {
	mu sync.Mutex
	b  []byte
}

func (t *tailBuf) Write(p []byte) (int, error) {
	t.mu.Lock()
	defer t.mu.Unlock()
	t.b = append(t.b, p...)
	if len(t.b) > 1<<16 {
		// keep the head (the fatal error line comes first) and the tail
		t.b = append(t.b[:1<<15], t.b[len(t.b)-(1<<14):]...)
	}
	return len(p), nil
}

func (t *tailBuf) String() string {
	t.mu.Lock()
	defer t.mu.Unlock()
	return string(t.b)
}

func startChild() (*child, error) {
	cmd := exec.Command(os.Args[0])
	cmd.Env = append(os.Environ(), "C10_CHILD=1", "HARNESS_WORKERS=1")
	in, err := cmd.StdinPipe()
	if err != nil {
		return nil, err
	}
	out, err := cmd.StdoutPipe()
	if err != nil {
		return nil, err
	}
	eb := &tailBuf{}
	cmd.Stderr = eb
	if err := cmd.Start(); err != nil {
		return nil, err
	}
	return &child{cmd: cmd, in: in, out: bufio.NewReaderSize(out, 1<<20), errBuf: eb}, nil
}

func (c *child) kill() {
	_ = c.in.Close()
	_ = c.cmd.Process.Kill()
	_, _ = c.cmd.Process.Wait()
}

var fatalRE = regexp.MustCompile(`(?m)^(fatal error: .*|runtime: goroutine stack exceeds .*|panic: .*|signal: .*)$`)

func crashText(c *child) string {
	// give the dying process a moment to finish writing its stderr
	done := make(chan struct{})
	go func() { _ = c.cmd.Wait(); close(done) }()
	select {
	case <-done:
	case <-time.After(5 * time.Second):
		_ = c.cmd.Process.Kill()
	}
	s := c.errBuf.String()
	if m := fatalRE.FindString(s); m != "" {
		if strings.HasPrefix(m, "runtime: goroutine stack exceeds") {
			return "crash:fatal error: stack overflow"
		}
		return "crash:" + m
	}
	if st := c.cmd.ProcessState; st != nil {
		return "crash:" + st.String()
	}
	return "crash:unknown"
}

type answer struct {
	line string
	err  error
}

// ask sends one case line to the child and waits for its one answer line.
func (c *child) ask(line string, wait time.Duration) (string, bool) {
	if _, err := io.WriteString(c.in, line+"\n"); err != nil {
		return "", false
	}
	ch := make(chan answer, 1)
	go func() {
		s, err := c.out.ReadString('\n')
		ch <- answer{s, err}
	}()
	select {
	case a := <-ch:
		if a.err != nil {
			return "", false
		}
		return strings.TrimRight(a.line, "\n"), true
	case <-time.After(wait):
		return "\x00timeout", true
	}
}

func supervisorMain() {
	workers := envInt("C10_PROCS", runtime.NumCPU())
	timeoutMs := envInt("HARNESS_TIMEOUT_MS", 10000)
	wait := time.Duration(timeoutMs)*time.Millisecond + 5*time.Second

	lines := make(chan string, 1024)
	var mu sync.Mutex
	out := bufio.NewWriterSize(os.Stdout, 1<<20)
	emit := func(id, res string) {
		mu.Lock()
		fmt.Fprintf(out, "%s\t%s\n", id, res)
		out.Flush()
		mu.Unlock()
	}
	var wg sync.WaitGroup
	for i := 0; i < workers; i++ {
		wg.Add(1)
		go func() {
			defer wg.Done()
			var c *child
			defer func() {
				if c != nil {
					c.kill()
				}
			}()
			for line := range lines {
				id := line
				if k := strings.IndexByte(line, '\t'); k >= 0 {
					id = line[:k]
				}
				if c == nil {
					var err error
					if c, err = startChild(); err != nil {
						emit(id, "harness-error:cannot start child: "+err.Error())
						c = nil
						continue
					}
				}
				ans, alive := c.ask(line, wait)
				switch {
				case !alive:
					emit(id, crashText(c))
					c.kill()
					c = nil
				case ans == "\x00timeout":
					emit(id, "timeout")
					c.kill()
					c = nil
				default:
					k := strings.IndexByte(ans, '\t')
					if k < 0 || ans[:k] != id {
						emit(id, "harness-error:unexpected answer "+strconv.Quote(ans))
						c.kill()
						c = nil
						continue
					}
					emit(id, ans[k+1:])
					if ans[k+1:] == "timeout" {
						c.kill()
						c = nil
					}
				}
			}
		}()
	}
	sc := bufio.NewScanner(os.Stdin)
	sc.Buffer(make([]byte, 1<<20), 1<<26)
	for sc.Scan() {
		if strings.Count(sc.Text(), "\t") >= 5 {
			lines <- sc.Text()
		}
	}
	close(lines)
	wg.Wait()
	out.Flush()
}

func main() {
	if os.Getenv("C10_CHILD") == "1" {
		hlib.Register("outcome", outcome)
		hlib.Register("survive", survive)
		hlib.Register("surviveb", surviveb)
		childMain()
		return
	}
	supervisorMain()
}
