// harness for C10 ("every program ends in a value or an error, never a crash or a hang").
//
// A fatal stack overflow or a runaway allocation kills the process and a hang blocks a worker,
// so this harness never evaluates fuzzed source in the process that reads the case file:
//
//	supervisor (default mode): reads the cases, keeps a pool of child processes (this same
//	  binary with C10_CHILD=1); each child executes ONE case at a time, in order (a small window
//	  of further cases is already in its pipe); the first unanswered case is the one to blame.
//	  A child that dies        -> observable "crash:<first fatal/panic line of its stderr>", child replaced.
//	  A child that says timeout (or does not answer within timeout+grace) is killed (the runaway
//	  goroutine cannot be stopped from inside) and the case is tried once more, alone in a fresh
//	  child with C10_RETRY_FACTOR (4) times the limit; only a second timeout is reported as
//	  "timeout" (a loaded machine must not produce false hangs).
//	child: hlib.Main() with one worker; address space and goroutine stack are bounded
//	  (RLIMIT_AS from C10_AS_MB, debug.SetMaxStack from C10_MAXSTACK_MB, GOMEMLIMIT from the env).
//
// Operation "outcome": payload[0] = arr.ai source.  Compiles and evaluates it the way the hosts do
// (syntax.EvalWithScope, safe standard library bound to //, in-memory file systems), then renders
// the value the way the CLI/shell report it (String, Repr, and a full enumeration).  Observable:
// "value" | "error"; a panic becomes panic:<first arrai frame>:<msg> (hlib), see above for the rest.
package main

import (
	"bufio"
	"context"
	"encoding/hex"
	"fmt"
	"io"
	"os"
	"os/exec"
	"regexp"
	"runtime"
	"runtime/debug"
	"strconv"
	"strings"
	"sync"
	"sync/atomic"
	"syscall"
	"time"

	"github.com/spf13/afero"

	"github.com/arr-ai/arrai/pkg/arraictx"
	"github.com/arr-ai/arrai/pkg/ctxfs"
	"github.com/arr-ai/arrai/syntax"

	"verif/harness/hlib"
)

func envInt(name string, def int) int {
	if s := os.Getenv(name); s != "" {
		if n, err := strconv.Atoi(s); err == nil {
			return n
		}
	}
	return def
}

// ---------------------------------------------------------------------------- child

func newCtx() context.Context {
	ctx := arraictx.InitRunCtx(context.Background())
	ctx = ctxfs.SourceFsOnto(ctx, afero.NewMemMapFs())
	ctx = ctxfs.RuntimeFsOnto(ctx, afero.NewMemMapFs())
	return ctx
}

func outcome(p []string) string {
	v, err := syntax.EvalWithScope(newCtx(), "", p[0], syntax.SafeStdScope())
	if err != nil {
		// the hosts print it (logrus %v, the shell, log.Fatalf): rendering is part of reporting the error,
		// and it happens inside the timed region, so a blow-up of the message shows as a timeout
		_ = err.Error()
		_ = fmt.Sprintf("%v", err)
		_ = fmt.Sprintf("%+v", err)
		return "error"
	}
	// what the hosts do with a value: print it
	_ = v.String()
	_ = fmt.Sprintf("%v", v) // fu.Repr, as arrai.OutputValue and the shell do
	_ = hlib.Canon(v)
	return "value"
}

// survive: like outcome, but the observable does not distinguish a value from an error.
func survive(p []string) string {
	outcome(p)
	return "ok"
}

// surviveb: payload[0] = hex of arbitrary bytes offered as source text.
func surviveb(p []string) string {
	b, err := hex.DecodeString(p[0])
	if err != nil {
		return "harness-error:bad hex"
	}
	outcome([]string{string(b)})
	return "ok"
}

func childMain() {
	if mb := envInt("C10_AS_MB", 0); mb > 0 {
		lim := syscall.Rlimit{Cur: uint64(mb) << 20, Max: uint64(mb) << 20}
		_ = syscall.Setrlimit(syscall.RLIMIT_AS, &lim)
	}
	if mb := envInt("C10_MAXSTACK_MB", 0); mb > 0 {
		debug.SetMaxStack(mb << 20)
	}
	syntax.SafeStdScope() // pay for the standard library before the first case is timed
	hlib.Main()
}

// ---------------------------------------------------------------------------- supervisor

type child struct {
	cmd     *exec.Cmd
	in      io.WriteCloser
	answers chan string // one line per answered case; closed when the child's stdout ends
	errBuf  *tailBuf
}

type tailBuf struct {
	mu sync.Mutex
	b  []byte
}

func (t *tailBuf) Write(p []byte) (int, error) {
	t.mu.Lock()
	defer t.mu.Unlock()
	t.b = append(t.b, p...)
	if len(t.b) > 1<<16 {
		// keep the head (the fatal error line comes first) and the tail
		t.b = append(t.b[:1<<15], t.b[len(t.b)-(1<<14):]...)
	}
	return len(p), nil
}

func (t *tailBuf) String() string {
	t.mu.Lock()
	defer t.mu.Unlock()
	return string(t.b)
}

// startChild starts a child; slow > 1 multiplies the child's per-case time limit (used for the
// one retry of a case that timed out, so that a loaded machine does not produce false hangs).
func startChild(slow int) (*child, error) {
	cmd := exec.Command(os.Args[0])
	cmd.Env = append(os.Environ(), "C10_CHILD=1", "HARNESS_WORKERS=1")
	if slow > 1 {
		cmd.Env = append(cmd.Env, "HARNESS_TIMEOUT_MS="+strconv.Itoa(slow*envInt("HARNESS_TIMEOUT_MS", 10000)))
	}
	in, err := cmd.StdinPipe()
	if err != nil {
		return nil, err
	}
	out, err := cmd.StdoutPipe()
	if err != nil {
		return nil, err
	}
	eb := &tailBuf{}
	cmd.Stderr = eb
	if err := cmd.Start(); err != nil {
		return nil, err
	}
	c := &child{cmd: cmd, in: in, answers: make(chan string, 64), errBuf: eb}
	go func() {
		r := bufio.NewReaderSize(out, 1<<20)
		for {
			s, err := r.ReadString('\n')
			if err != nil {
				close(c.answers)
				return
			}
			c.answers <- strings.TrimRight(s, "\n")
		}
	}()
	return c, nil
}

func (c *child) kill() {
	_ = c.in.Close()
	_ = c.cmd.Process.Kill()
	go func() { _ = c.cmd.Wait() }()
}

var fatalRE = regexp.MustCompile(`(?m)^(fatal error: .*|runtime: goroutine stack exceeds .*|panic: .*|signal: .*)$`)

func crashText(c *child) string {
	// give the dying process a moment to finish writing its stderr
	done := make(chan struct{})
	go func() { _ = c.cmd.Wait(); close(done) }()
	select {
	case <-done:
	case <-time.After(5 * time.Second):
		_ = c.cmd.Process.Kill()
	}
	s := c.errBuf.String()
	if m := fatalRE.FindString(s); m != "" {
		if strings.HasPrefix(m, "runtime: goroutine stack exceeds") {
			return "crash:fatal error: stack overflow"
		}
		return "crash:" + m
	}
	if st := c.cmd.ProcessState; st != nil {
		return "crash:" + st.String()
	}
	return "crash:unknown"
}

type job struct {
	id, line string
	good     bool // class "good": a timeout is double-checked before it is reported
}

// worker owns one child at a time and keeps up to `window` cases in flight in it (the child
// answers them in order, one at a time).  The first unanswered case is the one being executed:
// it gets the blame for a crash or a timeout, the others go back to the worker's own queue.
// timeouts counts the cases reported as timeout; beyond maxTimeouts the run is cut short: every
// remaining case is answered "skipped:too-many-timeouts" without being executed (a tree on which
// most syntax errors hang would otherwise keep the supervisor busy for days).
var (
	timeouts    int64
	maxTimeouts int64
)

func tripped() bool { return atomic.LoadInt64(&timeouts) > maxTimeouts }

type worker struct {
	lines       <-chan string
	emit        func(id, res string)
	window      int
	wait        time.Duration
	retryFactor int
}

// alone runs one case in a fresh child with the time limit multiplied by slow.
func (w *worker) alone(j job, slow int) string {
	c, err := startChild(slow)
	if err != nil {
		return "harness-error:cannot start child: " + err.Error()
	}
	defer c.kill()
	if _, err := io.WriteString(c.in, j.line+"\n"); err != nil {
		return crashText(c)
	}
	select {
	case ans, ok := <-c.answers:
		if !ok {
			return crashText(c)
		}
		if k := strings.IndexByte(ans, '\t'); k >= 0 && ans[:k] == j.id {
			return ans[k+1:]
		}
		return "harness-error:unexpected answer " + strconv.Quote(ans)
	case <-time.After(time.Duration(slow) * w.wait):
		return "timeout"
	}
}

// retry runs a case that timed out once more, alone, with a more generous limit.
func (w *worker) retry(j job) string {
	res := "timeout"
	// a case of a known-finding class is not retried: its timeout cannot raise a false alarm
	if j.good && !tripped() {
		res = w.alone(j, w.retryFactor)
	}
	if res == "timeout" {
		atomic.AddInt64(&timeouts, 1)
	}
	return res
}

func (w *worker) run() {
	var c *child
	var queue, pending []job // queue: to be sent (again); pending: sent to c, unanswered
	drop := func() {
		if c != nil {
			c.kill()
			c = nil
		}
		queue = append(pending[min(1, len(pending)):], queue...)
		pending = nil
	}
	defer func() {
		if c != nil {
			c.kill()
		}
	}()
	open := true
	for {
		// top up the window
		for len(pending) < w.window {
			var j job
			if len(queue) > 0 {
				j, queue = queue[0], queue[1:]
			} else if !open {
				break
			} else if len(pending) == 0 {
				line, ok := <-w.lines
				if !ok {
					open = false
					break
				}
				j = mkJob(line)
			} else {
				select {
				case line, ok := <-w.lines:
					if !ok {
						open = false
					} else {
						j = mkJob(line)
					}
				default:
				}
				if j.id == "" {
					break
				}
			}
			if c == nil {
				var err error
				if c, err = startChild(1); err != nil {
					c = nil
					w.emit(j.id, "harness-error:cannot start child: "+err.Error())
					continue
				}
			}
			pending = append(pending, j)
			if _, err := io.WriteString(c.in, j.line+"\n"); err != nil {
				break // the child is gone; the read below notices
			}
		}
		if len(pending) == 0 {
			if !open && len(queue) == 0 {
				return
			}
			continue
		}
		if tripped() {
			for _, j := range append(pending, queue...) {
				w.emit(j.id, "skipped:too-many-timeouts")
			}
			pending, queue = nil, nil
			if c != nil {
				c.kill()
				c = nil
			}
			for line := range w.lines {
				w.emit(mkJob(line).id, "skipped:too-many-timeouts")
			}
			return
		}
		head := pending[0]
		select {
		case ans, ok := <-c.answers:
			switch {
			case !ok:
				res := crashText(c)
				drop()
				w.emit(head.id, res)
			default:
				k := strings.IndexByte(ans, '\t')
				if k < 0 || ans[:k] != head.id {
					drop()
					w.emit(head.id, "harness-error:unexpected answer "+strconv.Quote(ans))
				} else if ans[k+1:] == "timeout" {
					drop()
					w.emit(head.id, w.retry(head))
				} else {
					pending = pending[1:]
					w.emit(head.id, ans[k+1:])
				}
			}
		case <-time.After(w.wait):
			drop()
			w.emit(head.id, w.retry(head))
		}
	}
}

func mkJob(line string) job {
	f := strings.SplitN(line, "\t", 3)
	return job{id: f[0], line: line, good: len(f) < 2 || f[1] == "good"}
}

func supervisorMain() {
	procs := envInt("C10_PROCS", runtime.NumCPU())
	timeoutMs := envInt("HARNESS_TIMEOUT_MS", 10000)
	maxTimeouts = int64(envInt("C10_MAX_TIMEOUTS", 40))

	lines := make(chan string, 1024)
	var mu sync.Mutex
	out := bufio.NewWriterSize(os.Stdout, 1<<20)
	emit := func(id, res string) {
		mu.Lock()
		fmt.Fprintf(out, "%s\t%s\n", id, res)
		out.Flush()
		mu.Unlock()
	}
	var wg sync.WaitGroup
	for i := 0; i < procs; i++ {
		wg.Add(1)
		go func() {
			defer wg.Done()
			(&worker{
				lines:       lines,
				emit:        emit,
				window:      envInt("C10_WINDOW", 16),
				wait:        time.Duration(timeoutMs)*time.Millisecond + 10*time.Second,
				retryFactor: envInt("C10_RETRY_FACTOR", 4),
			}).run()
		}()
	}
	sc := bufio.NewScanner(os.Stdin)
	sc.Buffer(make([]byte, 1<<20), 1<<26)
	for sc.Scan() {
		if strings.Count(sc.Text(), "\t") >= 5 {
			lines <- sc.Text()
		}
	}
	close(lines)
	wg.Wait()
	out.Flush()
}

func main() {
	if os.Getenv("C10_CHILD") == "1" {
		hlib.Register("outcome", outcome)
		hlib.Register("survive", survive)
		hlib.Register("surviveb", surviveb)
		childMain()
		return
	}
	supervisorMain()
}
