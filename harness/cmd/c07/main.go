// harness for C07: "evaluation is deterministic across processes and hash seeds".
//
// op "run":   payload[0] = arr.ai program. Observable (three parts separated by newlines):
//
//	canon(value)            hlib.Canon: the value's meaning, computed with Enumerators + Go string sort
//	fu.Repr(value)          the printed text (`%v`, what //str.repr and the CLI print)
//	OutputValue(value)      the bytes the CLI writes for it (pkg/arrai/out.go, no --out)
//
// or "error". payload[1] = "xN" (optional): the program is evaluated N times in this process (parsed and evaluated
// afresh each time); if the observables are not all identical the result is "unstable" followed by two of them
// (a Go map is ranged over in a different order each time: an order dependence can show inside one process).
// The same batch is run by lib/props_c07.py in N fresh processes (each draws its own hash
// seeds at start-up); the observables must be byte-identical across processes and equal to the
// model's prediction.
//
// op "seeds": the hash seeds this process drew (github.com/arr-ai/hash GetSeeds), recorded as evidence.
package main

import (
	"bytes"
	"fmt"
	"strconv"
	"strings"

	"github.com/arr-ai/hash"

	"github.com/arr-ai/arrai/pkg/arrai"
	"github.com/arr-ai/arrai/pkg/fu"

	"verif/harness/hlib"
)

func init() {
	runOnce := func(src string) string {
		v, err := hlib.EvalSrc(src)
		if err != nil {
			return "error"
		}
		var out bytes.Buffer
		if err := arrai.OutputValue(hlib.NewCtx(), v, &out, ""); err != nil {
			return "error:output"
		}
		return hlib.Canon(v) + "\n" + fu.Repr(v) + "\n" + out.String()
	}
	hlib.Register("run", func(p []string) string {
		first := runOnce(p[0])
		n := 1
		if len(p) > 1 && strings.HasPrefix(p[1], "x") {
			if k, err := strconv.Atoi(p[1][1:]); err == nil && k > 1 && k <= 16 {
				n = k
			}
		}
		for i := 1; i < n; i++ {
			if again := runOnce(p[0]); again != first {
				return "unstable\n" + first + "\n---\n" + again
			}
		}
		return first
	})
	hlib.Register("seeds", func(p []string) string {
		a, h := hash.GetSeeds()
		return fmt.Sprintf("aes=%x hashkey=%x", a, h)
	})
}

func main() { hlib.Main() }
