// harness for C07: "evaluation is deterministic across processes and hash seeds".
//
// op "run":   payload[0] = arr.ai program. Observable (three parts separated by newlines):
//
//	canon(value)            hlib.Canon: the value's meaning, computed with Enumerators + Go string sort
//	fu.Repr(value)          the printed text (`%v`, what //str.repr and the CLI print)
//	OutputValue(value)      the bytes the CLI writes for it (pkg/arrai/out.go, no --out)
//
// or "error". The same batch is run by lib/props_c07.py in N fresh processes (each draws its own hash
// seeds at start-up); the observables must be byte-identical across processes and equal to the
// model's prediction.
//
// op "seeds": the hash seeds this process drew (github.com/arr-ai/hash GetSeeds), recorded as evidence.
package main

import (
	"bytes"
	"fmt"

	"github.com/arr-ai/hash"

	"github.com/arr-ai/arrai/pkg/arrai"
	"github.com/arr-ai/arrai/pkg/fu"

	"verif/harness/hlib"
)

func init() {
	hlib.Register("run", func(p []string) string {
		v, err := hlib.EvalSrc(p[0])
		if err != nil {
			return "error"
		}
		var out bytes.Buffer
		if err := arrai.OutputValue(hlib.NewCtx(), v, &out, ""); err != nil {
			return "error:output"
		}
		return hlib.Canon(v) + "\n" + fu.Repr(v) + "\n" + out.String()
	})
	hlib.Register("seeds", func(p []string) string {
		a, h := hash.GetSeeds()
		return fmt.Sprintf("aes=%x hashkey=%x", a, h)
	})
}

func main() { hlib.Main() }
