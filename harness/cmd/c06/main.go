// harness for C06: "< is a strict total order consistent with =, and sorting follows it".
//
// op "cmp":  payload = 2..8 arr.ai sources. All are evaluated in this process; the observable is
//
//	P01=<ops>/<dir>;P02=...;ord=i,j,..;rank=r0,r1,..;max=i;min=i;print=ok|na|FAIL;
//	ordk=..;order=..;orderd=..;rank2=rk/rm,..;maxk=i;mink=i;prd=ok|FAIL;prr=ok|FAIL;laws=ok|FAIL:<law>
//
//	<ops> = the seven answers of arr.ai's own operators  a<b b<a a=b a<=b a>b a>=b a!=b  (0/1),
//	        obtained by evaluating the compiled expression `[v0 < v1, ...]` with A, B bound to v0, v1
//	<dir> = rel.Value.Less(a,b) Less(b,a) Equal(a,b) called directly
//	ord   = `{A, B, ...} orderby .` as positions of the inputs (first input with the same canon)
//	rank  = `{|v| (A), (B), ...} rank (r: .v)`: the rank given to each input
//	max/min = `{A, B, ...} max .` / `min .` as an input position
//	print = the printed text of the set {A, B, ...} lists its members in the pairwise `<` order
//	        (only for sets printed member by member: GenericSet and UnionSet; otherwise "na")
//	ordk  = `{|k, i| (A, 0), (B, 1), ...} orderby .k` (key expression), order/orderd = `order \a \b a < b` / `a > b`,
//	rank2 = rank with two ranking attributes (the key; i % 2 with many ties), maxk/mink = `max .k` / `min .k`,
//	prd/prr = a dictionary keyed by / a relation over the inputs prints its entries/rows in the `<` order
//	laws  = irreflexivity, trichotomy, transitivity, derived operators, ops=direct, orderby/rank/max/min
//	        consistent with pairwise `<` — decided here from the implementation's answers alone.
//
// op "laws": same evaluation, observable = only the laws= field (used for inputs the model does not
// predict, e.g. fractional numbers).
//
// op "pool": payload = N sources; all pairs and triples are compared directly (no parser in the loop);
// observable = N rows of N characters (< > = or ? when not exactly one holds) followed by ;laws=...
//
// Matching of results to inputs uses hlib.Canon (Enumerator walks + Go string sort), never Less/Equal.
package main

import (
	"fmt"
	"sort"
	"strconv"
	"strings"
	"sync"

	"github.com/arr-ai/arrai/pkg/arraictx"
	"github.com/arr-ai/arrai/pkg/fu"
	"github.com/arr-ai/arrai/rel"
	"github.com/arr-ai/arrai/syntax"

	"verif/harness/hlib"
)

// templates: arr.ai expressions over the free names v0..v3, compiled once and evaluated with the
// already evaluated inputs bound in the scope (the parser is by far the slowest part of a run).
var templates sync.Map

func evalTemplate(src string, vals []rel.Value) (rel.Value, error) {
	var expr rel.Expr
	if e, ok := templates.Load(src); ok {
		expr = e.(rel.Expr)
	} else {
		e, err := syntax.Compile(hlib.NewCtx(), "", src)
		if err != nil {
			return nil, err
		}
		templates.Store(src, e)
		expr = e
	}
	scope := rel.Scope{}
	for i, v := range vals {
		scope = scope.With(varName(i), v)
	}
	return expr.Eval(arraictx.ContextWithIsCompiling(hlib.NewCtx(), false), scope)
}

func b2s(b bool) string {
	if b {
		return "1"
	}
	return "0"
}

// evalAll evaluates all sources with one parse: the array literal [A, B, ...] (parsing dominates the run time).
func evalAll(srcs []string) ([]rel.Value, string) {
	v, err := hlib.EvalSrc("[" + strings.Join(srcs, ", ") + "]")
	if err != nil {
		return nil, "error"
	}
	a, ok := v.(rel.Array)
	if !ok || len(a.Values()) != len(srcs) {
		return nil, "error:shape"
	}
	vals := make([]rel.Value, len(srcs))
	for i, x := range a.Values() {
		if x == nil {
			return nil, "error:hole"
		}
		vals[i] = x
	}
	return vals, ""
}

func varName(i int) string { return "v" + strconv.Itoa(i) }

func vars(n int, format string) string {
	parts := make([]string, n)
	for i := range parts {
		parts[i] = fmt.Sprintf(format, varName(i))
	}
	return strings.Join(parts, ", ")
}

func indexOf(canons []string, c string) int {
	for i, d := range canons {
		if d == c {
			return i
		}
	}
	return -1
}

// arrayItems returns the items of an array value (or of the empty set).
func arrayItems(v rel.Value) ([]rel.Value, bool) {
	switch a := v.(type) {
	case rel.Array:
		return a.Values(), true
	case rel.EmptySet:
		return nil, true
	case rel.Set:
		if !a.IsTrue() {
			return nil, true
		}
	}
	return nil, false
}

type report struct {
	fields []string
	fails  []string
}

func (r *report) fail(law string) {
	if len(r.fails) < 3 {
		r.fails = append(r.fails, law)
	}
}

func (r *report) laws() string {
	if len(r.fails) == 0 {
		return "laws=ok"
	}
	return "laws=FAIL:" + strings.Join(r.fails, ",")
}

func compare(srcs []string) *report {
	r := &report{}
	vals, e := evalAll(srcs)
	if e != "" {
		r.fields = append(r.fields, e)
		r.fails = append(r.fails, e)
		return r
	}
	n := len(vals)
	canons := make([]string, n)
	for i, v := range vals {
		canons[i] = hlib.Canon(v)
	}

	// pairwise, direct
	lt := make([][]bool, n)
	eq := make([][]bool, n)
	for i := range vals {
		lt[i] = make([]bool, n)
		eq[i] = make([]bool, n)
		for j := range vals {
			lt[i][j] = vals[i].Less(vals[j])
			eq[i][j] = vals[i].Equal(vals[j])
		}
	}
	for i := 0; i < n; i++ {
		if lt[i][i] {
			r.fail(fmt.Sprintf("irrefl(%d)", i))
		}
		if !eq[i][i] {
			r.fail(fmt.Sprintf("eq-refl(%d)", i))
		}
		for j := 0; j < n; j++ {
			if i == j {
				continue
			}
			cnt := 0
			for _, b := range []bool{lt[i][j], eq[i][j], lt[j][i]} {
				if b {
					cnt++
				}
			}
			if cnt != 1 {
				r.fail(fmt.Sprintf("trichotomy(%d,%d)", i, j))
			}
			if eq[i][j] != eq[j][i] {
				r.fail(fmt.Sprintf("eq-sym(%d,%d)", i, j))
			}
			if eq[i][j] != (canons[i] == canons[j]) {
				r.fail(fmt.Sprintf("eq-vs-canon(%d,%d)", i, j))
			}
			for k := 0; k < n; k++ {
				if lt[i][j] && lt[j][k] && !lt[i][k] {
					r.fail(fmt.Sprintf("trans(%d,%d,%d)", i, j, k))
				}
				// < respects = on both sides
				if eq[i][j] && (lt[i][k] != lt[j][k] || lt[k][i] != lt[k][j]) {
					r.fail(fmt.Sprintf("respects(%d,%d,%d)", i, j, k))
				}
			}
		}
	}

	// pairwise, through arr.ai's operators
	for i := 0; i < n; i++ {
		for j := i + 1; j < n; j++ {
			ops := "error"
			if v, err := evalTemplate("[v0 < v1, v1 < v0, v0 = v1, v0 <= v1, v0 > v1, v0 >= v1, v0 != v1]",
				[]rel.Value{vals[i], vals[j]}); err == nil {
				if items, ok := arrayItems(v); ok {
					// an array of booleans: false is the empty set, i.e. a hole-free array cannot hold it —
					// arr.ai arrays keep `false` as an item, so all seven are present.
					bits := make([]byte, 0, 7)
					for _, it := range items {
						if it != nil && it.IsTrue() {
							bits = append(bits, '1')
						} else {
							bits = append(bits, '0')
						}
					}
					ops = string(bits)
				}
			}
			dir := b2s(lt[i][j]) + b2s(lt[j][i]) + b2s(eq[i][j])
			r.fields = append(r.fields, fmt.Sprintf("P%d%d=%s/%s", i, j, ops, dir))
			want := b2s(lt[i][j]) + b2s(lt[j][i]) + b2s(eq[i][j]) + b2s(!lt[j][i]) + b2s(lt[j][i]) + b2s(!lt[i][j]) + b2s(!eq[i][j])
			if ops != want {
				r.fail(fmt.Sprintf("derived-ops(%d,%d)", i, j))
			}
		}
	}

	// the expected order of the distinct inputs, from pairwise < alone (insertion by counting)
	distinct := []int{}
	for i := range vals {
		if indexOf(canons, canons[i]) == i {
			distinct = append(distinct, i)
		}
	}
	smaller := func(i int) int { // number of distinct inputs strictly below input i
		c := 0
		for _, j := range distinct {
			if lt[j][i] {
				c++
			}
		}
		return c
	}
	expected := append([]int{}, distinct...)
	sort.SliceStable(expected, func(x, y int) bool { return smaller(expected[x]) < smaller(expected[y]) })

	// orderby
	ord := "error"
	if v, err := evalTemplate("{"+vars(n, "%s")+"} orderby .", vals); err == nil {
		if items, ok := arrayItems(v); ok {
			parts := make([]string, len(items))
			okOrder := len(items) == len(expected)
			for k, it := range items {
				idx := -1
				if it != nil {
					idx = indexOf(canons, hlib.Canon(it))
				}
				parts[k] = strconv.Itoa(idx)
				if okOrder && idx != expected[k] {
					okOrder = false
				}
			}
			ord = strings.Join(parts, ",")
			if !okOrder {
				r.fail("orderby")
			}
		}
	}
	if ord == "error" {
		r.fail("orderby-error")
	}
	r.fields = append(r.fields, "ord="+ord)

	// rank
	rank := "error"
	if v, err := evalTemplate("{|v| "+vars(n, "(%s)")+"} rank (r: .v)", vals); err == nil {
		if s, ok := v.(rel.Set); ok {
			ranks := make([]string, n)
			for i := range ranks {
				ranks[i] = "?"
			}
			for e := s.Enumerator(); e.MoveNext(); {
				t, ok := e.Current().(rel.Tuple)
				if !ok {
					continue
				}
				val, has1 := t.Get("v")
				rk, has2 := t.Get("r")
				if !has1 || !has2 {
					continue
				}
				c := hlib.Canon(val)
				for i := range vals {
					if canons[i] == c {
						ranks[i] = hlib.Canon(rk)
					}
				}
			}
			rank = strings.Join(ranks, ",")
			for i := range vals {
				if ranks[i] != strconv.Itoa(smaller(i)) {
					r.fail(fmt.Sprintf("rank(%d)", i))
				}
			}
		}
	}
	if rank == "error" {
		r.fail("rank-error")
	}
	r.fields = append(r.fields, "rank="+rank)

	// max / min
	for _, op := range []string{"max", "min"} {
		res := "error"
		if v, err := evalTemplate("{"+vars(n, "%s")+"} "+op+" .", vals); err == nil {
			idx := indexOf(canons, hlib.Canon(v))
			res = strconv.Itoa(idx)
			want := expected[len(expected)-1]
			if op == "min" {
				want = expected[0]
			}
			if idx != want {
				r.fail(op)
			}
		} else {
			r.fail(op + "-error")
		}
		r.fields = append(r.fields, op+"="+res)
	}

	// printed order of the members of {A, B, ...}
	pr := "error"
	if v, err := evalTemplate("{"+vars(n, "%s")+"}", vals); err == nil {
		switch v.(type) {
		case rel.GenericSet, rel.UnionSet:
			parts := make([]string, len(expected))
			for k, i := range expected {
				parts[k] = fu.Repr(vals[i])
			}
			if fu.Repr(v) == "{"+strings.Join(parts, ", ")+"}" {
				pr = "ok"
			} else {
				pr = "FAIL"
				r.fail("print-order")
			}
		default:
			pr = "na"
		}
	}
	r.fields = append(r.fields, "print="+pr)

	// ---- every other client of the order, over the distinct inputs d0..d(m-1) (position p in `distinct`)
	m := len(distinct)
	dvals := make([]rel.Value, m)
	for p, i := range distinct {
		dvals[p] = vals[i]
	}
	pos := map[int]int{} // input index -> expected position
	for k, i := range expected {
		pos[i] = k
	}
	idxList := func(v rel.Value, err error, item func(rel.Value) int) (string, []int) {
		if err != nil {
			return "error", nil
		}
		items, ok := arrayItems(v)
		if !ok {
			return "error", nil
		}
		parts := make([]string, len(items))
		got := make([]int, len(items))
		for k, it := range items {
			got[k] = -1
			if it != nil {
				got[k] = item(it)
			}
			parts[k] = strconv.Itoa(got[k])
		}
		return strings.Join(parts, ","), got
	}
	sameOrder := func(got []int, want []int) bool {
		if len(got) != len(want) {
			return false
		}
		for k := range got {
			if got[k] != want[k] {
				return false
			}
		}
		return true
	}
	byCanon := func(it rel.Value) int { return indexOf(canons, hlib.Canon(it)) }
	rows := make([]string, m)
	for p := range rows {
		rows[p] = fmt.Sprintf("(%s, %d)", varName(p), p)
	}
	relKI := "{|k, i| " + strings.Join(rows, ", ") + "}"
	byI := func(it rel.Value) int {
		if t, ok := it.(rel.Tuple); ok {
			if iv, has := t.Get("i"); has {
				if n, ok := iv.(rel.Number); ok && int(n) >= 0 && int(n) < m {
					return distinct[int(n)]
				}
			}
		}
		return -1
	}
	// orderby with a key expression over a relation
	{
		v, err := evalTemplate(relKI+" orderby .k", dvals)
		txt, got := idxList(v, err, byI)
		if !sameOrder(got, expected) {
			r.fail("orderby-key")
		}
		r.fields = append(r.fields, "ordk="+txt)
	}
	// order with an explicit comparison function, both directions
	{
		v, err := evalTemplate("{"+vars(n, "%s")+"} order \\a \\b a < b", vals)
		txt, got := idxList(v, err, byCanon)
		if !sameOrder(got, expected) {
			r.fail("order<")
		}
		r.fields = append(r.fields, "order="+txt)
		rev := make([]int, len(expected))
		for k := range expected {
			rev[k] = expected[len(expected)-1-k]
		}
		v, err = evalTemplate("{"+vars(n, "%s")+"} order \\a \\b a > b", vals)
		txt, got = idxList(v, err, byCanon)
		if !sameOrder(got, rev) {
			r.fail("order>")
		}
		r.fields = append(r.fields, "orderd="+txt)
	}
	// rank with two ranking attributes: the key, and a coarse one with many ties (i % 2)
	{
		res := "error"
		if v, err := evalTemplate(relKI+" rank (rk: .k, rm: .i % 2)", dvals); err == nil {
			if s, ok := v.(rel.Set); ok {
				out := make([]string, m)
				for p := range out {
					out[p] = "?"
				}
				for e := s.Enumerator(); e.MoveNext(); {
					t, ok := e.Current().(rel.Tuple)
					if !ok {
						continue
					}
					iv, h1 := t.Get("i")
					rk, h2 := t.Get("rk")
					rm, h3 := t.Get("rm")
					if !h1 || !h2 || !h3 {
						continue
					}
					if nn, ok := iv.(rel.Number); ok && int(nn) >= 0 && int(nn) < m {
						out[int(nn)] = hlib.Canon(rk) + "/" + hlib.Canon(rm)
					}
				}
				res = strings.Join(out, ",")
				evens := (m + 1) / 2
				for p, i := range distinct {
					wantRm := 0
					if p%2 == 1 {
						wantRm = evens
					}
					if out[p] != strconv.Itoa(pos[i])+"/"+strconv.Itoa(wantRm) {
						r.fail(fmt.Sprintf("rank2(%d)", i))
					}
				}
			}
		}
		if res == "error" {
			r.fail("rank2-error")
		}
		r.fields = append(r.fields, "rank2="+res)
	}
	// max / min with a key expression
	for _, op := range []string{"max", "min"} {
		res := "error"
		if v, err := evalTemplate(relKI+" "+op+" .k", dvals); err == nil {
			idx := byCanon(v)
			res = strconv.Itoa(idx)
			want := expected[len(expected)-1]
			if op == "min" {
				want = expected[0]
			}
			if idx != want {
				r.fail(op + "-key")
			}
		} else {
			r.fail(op + "-key-error")
		}
		r.fields = append(r.fields, op+"k="+res)
	}
	// printed order of dictionary entries and of relation rows
	{
		ents := make([]string, m)
		for p := range ents {
			ents[p] = fmt.Sprintf("%s: %d", varName(p), p)
		}
		res := "error"
		if v, err := evalTemplate("{"+strings.Join(ents, ", ")+"}", dvals); err == nil {
			parts := make([]string, m)
			for k, i := range expected {
				p := 0
				for q, j := range distinct {
					if j == i {
						p = q
					}
				}
				parts[k] = fu.Repr(vals[i]) + ": " + strconv.Itoa(p)
			}
			if fu.Repr(v) == "{"+strings.Join(parts, ", ")+"}" {
				res = "ok"
			} else {
				res = "FAIL"
				r.fail("print-dict")
			}
		} else {
			r.fail("print-dict-error")
		}
		r.fields = append(r.fields, "prd="+res)
		res = "error"
		if v, err := evalTemplate("{|k| "+vars(m, "(%s)")+"}", dvals); err == nil {
			parts := make([]string, m)
			for k, i := range expected {
				parts[k] = "(" + fu.Repr(vals[i]) + ")"
			}
			if fu.Repr(v) == "{|k| "+strings.Join(parts, ", ")+"}" {
				res = "ok"
			} else {
				res = "FAIL"
				r.fail("print-rel")
			}
		} else {
			r.fail("print-rel-error")
		}
		r.fields = append(r.fields, "prr="+res)
	}
	return r
}

func pool(srcs []string) string {
	vals, e := evalAll(srcs)
	if e != "" {
		return e
	}
	n := len(vals)
	canons := make([]string, n)
	for i, v := range vals {
		canons[i] = hlib.Canon(v)
	}
	lt := make([][]bool, n)
	rows := make([]string, n)
	r := &report{}
	for i := range vals {
		lt[i] = make([]bool, n)
		for j := range vals {
			lt[i][j] = vals[i].Less(vals[j])
		}
	}
	for i := range vals {
		row := make([]byte, n)
		for j := range vals {
			eq := vals[i].Equal(vals[j])
			c := byte('?')
			switch {
			case lt[i][j] && !eq && !lt[j][i]:
				c = '<'
			case !lt[i][j] && eq && !lt[j][i]:
				c = '='
			case !lt[i][j] && !eq && lt[j][i]:
				c = '>'
			default:
				r.fail(fmt.Sprintf("trichotomy(%d,%d)", i, j))
			}
			if eq != (canons[i] == canons[j]) {
				r.fail(fmt.Sprintf("eq-vs-canon(%d,%d)", i, j))
			}
			row[j] = c
		}
		rows[i] = string(row)
	}
	for i := 0; i < n; i++ {
		for j := 0; j < n; j++ {
			if !lt[i][j] {
				continue
			}
			for k := 0; k < n; k++ {
				if lt[j][k] && !lt[i][k] {
					r.fail(fmt.Sprintf("trans(%d,%d,%d)", i, j, k))
				}
			}
		}
	}
	return strings.Join(rows, "\n") + ";" + r.laws()
}

func init() {
	hlib.Register("cmp", func(p []string) string {
		r := compare(p)
		return strings.Join(append(r.fields, r.laws()), ";")
	})
	hlib.Register("laws", func(p []string) string { return compare(p).laws() })
	hlib.Register("pool", pool)
}

func main() { hlib.Main() }
