// harness for C05: the shared "eval" operation plus "call", which reports the error CLASS of a
// call (no value / more than one value / anything else) without ever looking at a message.
package main

import (
	"reflect"
	"strconv"

	"github.com/arr-ai/arrai/rel"

	"verif/harness/hlib"
)

// classify: the class of the error returned for `coll(arg)`.
//   - error:noreturn  the evaluator returned a rel.NoReturnError for the call itself
//   - error:toomany   some other error although collection and argument evaluate and CallAll
//     delivers at least two distinct values
//   - error:other     everything else
func classify(err error, collSrc, argSrc string) string {
	// BinExpr.Eval wraps the error of the call exactly once.
	if ce, ok := err.(rel.ContextErr); ok {
		if _, is := ce.NextErr().(rel.NoReturnError); is {
			return "error:noreturn"
		}
	}
	if _, is := err.(rel.NoReturnError); is {
		return "error:noreturn"
	}
	coll, err1 := hlib.EvalSrc(collSrc)
	arg, err2 := hlib.EvalSrc(argSrc)
	if err1 != nil || err2 != nil {
		return "error:other"
	}
	set, ok := coll.(rel.Set)
	if !ok {
		return "error:other"
	}
	b := rel.NewSetBuilder()
	if err := set.CallAll(hlib.NewCtx(), arg, b); err != nil {
		return "error:other"
	}
	all, err := b.Finish()
	if err != nil {
		return "error:other"
	}
	seen := map[string]bool{}
	for e := all.Enumerator(); e.MoveNext(); {
		seen[hlib.Canon(e.Current())] = true
	}
	if len(seen) >= 2 {
		return "error:toomany"
	}
	return "error:other"
}

func init() {
	// call: payload[0] = collection source, payload[1] = argument source
	hlib.Register("call", func(p []string) string {
		v, err := hlib.EvalSrc("(" + p[0] + ")(" + p[1] + ")")
		if err != nil {
			return classify(err, p[0], p[1])
		}
		return hlib.Canon(v)
	})
}

// relShape reports the physical column that holds `@` in a rel.Relation ("at=0", "at=1", …),
// read from its unexported heading (attrs) and projector (p); "notrel" for any other value.
func relShape(v rel.Value) string {
	r, ok := v.(rel.Relation)
	if !ok {
		return "notrel"
	}
	rv := reflect.ValueOf(r)
	attrs, p := rv.FieldByName("attrs"), rv.FieldByName("p")
	if !attrs.IsValid() || !p.IsValid() || attrs.Len() != p.Len() {
		return "unknown-layout"
	}
	for i := 0; i < attrs.Len(); i++ {
		if attrs.Index(i).String() == "@" {
			return "at=" + strconv.FormatInt(p.Index(i).Int(), 10)
		}
	}
	return "no-at"
}

func init() {
	// relshape: payload[0] = source of a collection
	hlib.Register("relshape", func(p []string) string {
		v, err := hlib.EvalSrc(p[0])
		if err != nil {
			return "error"
		}
		return relShape(v)
	})
}

func main() { hlib.Main() }
