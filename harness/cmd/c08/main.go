// harness for C08: `meta` evaluates two or three arr.ai programs related by a documented rewrite
// in one process and reports whether their canonical observables agree.
//
//	payload   : src1, src2 [, src3]
//	observable: "same:<canon|error>" when every program gives the same observable,
//	            "diff:<obs1>|<obs2>[|<obs3>]" otherwise.
//
// `agree` is the same without a predicted value: "agree" when every program gives the same observable,
// "diff:…" otherwise (used for operators outside the Lean model).
//
// A panic inside one program is reported as that program's observable (`panic:<frame>`), so that the
// other programs of the tuple are still evaluated.
package main

import (
	"fmt"
	"strings"

	"verif/harness/hlib"
)

func evalOne(src string) (res string) {
	defer func() {
		if p := recover(); p != nil {
			res = "panic:" + hlib.FirstFrame() + ":" + strings.SplitN(fmt.Sprint(p), "\n", 2)[0]
		}
	}()
	v, err := hlib.EvalSrc(src)
	if err != nil {
		return "error"
	}
	return hlib.Canon(v)
}

func init() {
	hlib.Register("meta", func(p []string) string {
		obs := make([]string, len(p))
		same := true
		for i, src := range p {
			obs[i] = evalOne(src)
			if obs[i] != obs[0] {
				same = false
			}
		}
		if same && len(obs) > 0 {
			return "same:" + obs[0]
		}
		return "diff:" + strings.Join(obs, "|")
	})
}

func init() {
	hlib.Register("agree", func(p []string) string {
		obs := make([]string, len(p))
		same := true
		for i, src := range p {
			obs[i] = evalOne(src)
			if obs[i] != obs[0] {
				same = false
			}
		}
		if same && len(obs) > 0 && !strings.HasPrefix(obs[0], "panic") {
			return "agree"
		}
		return "diff:" + strings.Join(obs, "|")
	})
}

func main() { hlib.Main() }
