// harness for C01: only the shared "eval" operation is needed (programs of the set-algebra
// family; observable = hlib.Canon of the result, computed with Enumerators only).
package main

import "verif/harness/hlib"

func main() { hlib.Main() }
