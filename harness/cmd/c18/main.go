// harness for C18: sandboxed evaluation.
//
// op "c18": payload = programSrc, mode, cfgSrc, then (file name, file content) pairs.
//   direct     syntax.EvalWithScope(ctx, "", programSrc, syntax.SafeStdScope())
//   evaluator  syntax.EvaluateExpr(ctx, "", programSrc)   where programSrc = //eval.evaluator(cfg).eval("…")
//   outside    like evaluator; the program also calls the sandbox's result at top level
// Source and runtime file systems are one recording MemMapFs holding the given files.
// Observable: ok|names=<sorted names of the native functions reachable from the result through tuples and
// closure environments>|reads=<sorted names of the files opened>|confined=<yes|no>   or   fail|reads=…
// (errors and panics are both `fail`).  `confined` is computed here, independently of the model: every
// reachable native derives from one reachable from what the sandbox was given, and (evaluator modes) files
// were opened only if the file function was given.  Dangerous natives are never called by generated programs.
package main

import (
	"context"
	"os"
	"reflect"
	"sort"
	"strings"
	"sync"
	"unsafe"

	"github.com/spf13/afero"

	"github.com/arr-ai/arrai/pkg/arraictx"
	"github.com/arr-ai/arrai/pkg/ctxfs"
	"github.com/arr-ai/arrai/rel"
	"github.com/arr-ai/arrai/syntax"

	"verif/harness/hlib"
)

type recFs struct {
	afero.Fs
	mu    sync.Mutex
	reads map[string]bool
}

func (r *recFs) note(name string) {
	r.mu.Lock()
	r.reads[strings.TrimPrefix(name, "./")] = true
	r.mu.Unlock()
}

func (r *recFs) Open(name string) (afero.File, error) {
	r.note(name)
	return r.Fs.Open(name)
}

func (r *recFs) OpenFile(name string, flag int, perm os.FileMode) (afero.File, error) {
	r.note(name)
	return r.Fs.OpenFile(name, flag, perm)
}

func (r *recFs) list() string {
	r.mu.Lock()
	defer r.mu.Unlock()
	out := make([]string, 0, len(r.reads))
	for n := range r.reads {
		out = append(out, n)
	}
	sort.Strings(out)
	return strings.Join(out, ",")
}

// unexported reads the unexported field `name` of the struct value v.
func unexported(v interface{}, name string) interface{} {
	rv := reflect.ValueOf(v)
	cp := reflect.New(rv.Type()).Elem()
	cp.Set(rv)
	f := cp.FieldByName(name)
	return reflect.NewAt(f.Type(), unsafe.Pointer(f.UnsafeAddr())).Elem().Interface()
}

type walker struct {
	names map[string]bool
	nodes int
}

func (w *walker) scope(s rel.Scope) {
	for e := s.Enumerator(); e.MoveNext(); {
		_, expr := e.Current()
		if v, ok := expr.(rel.Value); ok {
			w.value(v)
		}
	}
}

func (w *walker) value(v rel.Value) {
	w.nodes++
	if w.nodes > 2000000 {
		return
	}
	switch t := v.(type) {
	case *rel.NativeFunction:
		w.names[strings.TrimSuffix(strings.TrimPrefix(t.Name(), "⦑"), "⦒")] = true
	case rel.Closure:
		w.scope(unexported(t, "scope").(rel.Scope))
	case rel.ExprClosure:
		w.scope(unexported(t, "scope").(rel.Scope))
	case rel.Tuple:
		for e := t.Enumerator(); e.MoveNext(); {
			_, val := e.Current()
			w.value(val)
		}
	}
}

func namesOf(vs ...rel.Value) []string {
	w := &walker{names: map[string]bool{}}
	for _, v := range vs {
		if v != nil {
			w.value(v)
		}
	}
	out := make([]string, 0, len(w.names))
	for n := range w.names {
		out = append(out, n)
	}
	sort.Strings(out)
	return out
}

// baseName: post$3 -> post, expand4 -> expand (the library member a native derives from).
func baseName(s string) string {
	if i := strings.Index(s, "$"); i >= 0 {
		s = s[:i]
	}
	return strings.TrimRight(s, "0123456789")
}

func run(p []string) (res string) {
	prog, mode, cfgSrc := p[0], p[1], p[2]
	mem := afero.NewMemMapFs()
	for i := 3; i+1 < len(p); i += 2 {
		if err := afero.WriteFile(mem, p[i], []byte(p[i+1]), 0o644); err != nil {
			return "harness-error:" + err.Error()
		}
	}
	fs := &recFs{Fs: mem, reads: map[string]bool{}}
	newCtx := func(f afero.Fs) context.Context {
		ctx := arraictx.InitRunCtx(context.Background())
		ctx = ctxfs.SourceFsOnto(ctx, f)
		return ctxfs.RuntimeFsOnto(ctx, f)
	}
	defer func() {
		if r := recover(); r != nil {
			res = "fail|reads=" + fs.list()
		}
	}()

	var allowed []string
	var v rel.Value
	var err error
	strict := mode != "direct"
	if !strict {
		lib, _ := syntax.SafeStdScope().Get("//")
		allowed = namesOf(lib.(rel.Value))
		v, err = syntax.EvalWithScope(newCtx(fs), "", prog, syntax.SafeStdScope())
	} else {
		// what the sandbox is given: the configuration, evaluated on its own (and not recorded)
		cfg, cerr := syntax.EvaluateExpr(newCtx(mem), "", cfgSrc)
		if cerr != nil {
			return "harness-error:config:" + strings.SplitN(cerr.Error(), "\n", 2)[0]
		}
		t, ok := cfg.(rel.Tuple)
		if !ok {
			return "harness-error:config is not a tuple"
		}
		var lib, scope rel.Value
		if l, has := t.Get("stdlib"); has {
			lib = l
		} else {
			l, _ := syntax.SafeStdScope().Get("//")
			lib = l.(rel.Value)
		}
		if s, has := t.Get("scope"); has {
			scope = s
		}
		allowed = namesOf(lib, scope)
		v, err = syntax.EvaluateExpr(newCtx(fs), "", prog)
	}
	if err != nil {
		return "fail|reads=" + fs.list()
	}
	names := namesOf(v)
	bases := map[string]bool{}
	for _, a := range allowed {
		bases[baseName(a)] = true
	}
	if bases["eval"] {
		// holding the evaluator function is holding the safe library (its default `//`)
		lib, _ := syntax.SafeStdScope().Get("//")
		for _, a := range namesOf(lib.(rel.Value)) {
			bases[baseName(a)] = true
		}
	}
	confined := true
	for _, n := range names {
		if !bases[baseName(n)] {
			confined = false
		}
	}
	reads := fs.list()
	if strict && reads != "" && !bases["file"] {
		confined = false
	}
	c := "yes"
	if !confined {
		c = "no"
	}
	return "ok|names=" + strings.Join(names, ",") + "|reads=" + reads + "|confined=" + c
}

func init() { hlib.Register("c18", run) }

func main() { hlib.Main() }
