// harness for C02: equality is extensional; equal values are interchangeable.
//
// op "pair": payload = [source of a, source of b, source of a context function f ("" = none), flags]
//
//	Both programs are evaluated in this process, bound to `a` and `b`, and the real evaluator answers
//	  e  a = b            q  b = a            s  {a} = {b}         c  {a, b} count      d  {a: 1}(b)
//	  r  repr(a) = repr(b) (fmt %v, what //str.repr prints)        l  a < b      g  b < a
//	  f  f(a) = f(b)      F  canon(f(a)) = canon(f(b))  (both failing counts as equal)
//	Only the letters present in flags are evaluated; the others print "-".
//	observable: eq=..;qe=..;set=..;cnt=..;dict=..;repr=..;lt=..;gt=..;ctx=..;ctxden=..|canon(a)|canon(b)
//
// op "rep": payload = [source of a, source of b]; observable: goRep(a)|goRep(b) — the concrete Go
//
//	representation (type name, offset, length, holes/count, read by reflection from outside the package).
//	Used as drift information only.
package main

import (
	"fmt"
	"reflect"
	"sort"
	"strings"

	"github.com/arr-ai/arrai/rel"
	"github.com/arr-ai/arrai/syntax"

	"verif/harness/hlib"
)

func truth(v rel.Value, err error) string {
	if err != nil {
		return "error"
	}
	if n, ok := v.(rel.Number); ok {
		return hlib.Canon(n)
	}
	if s, ok := v.(rel.Set); ok {
		if !s.IsTrue() {
			return "false"
		}
		if hlib.Canon(v) == "{()}" {
			return "true"
		}
	}
	return hlib.Canon(v)
}

func intField(v reflect.Value, name string) string {
	f := v.FieldByName(name)
	if !f.IsValid() {
		return "?"
	}
	switch f.Kind() {
	case reflect.Int, reflect.Int64, reflect.Int32:
		return fmt.Sprint(f.Int())
	case reflect.Slice:
		return fmt.Sprint(f.Len())
	}
	return "?"
}

// goRep describes the concrete representation of v (one level).
func goRep(v rel.Value) string {
	if v == nil {
		return "nil"
	}
	rv := reflect.ValueOf(v)
	name := rel.ValueTypeAsString(v)
	if rv.Kind() == reflect.Ptr {
		rv = rv.Elem()
	}
	t := rv.Type().Name()
	switch t {
	case "String":
		return "String(off=" + intField(rv, "offset") + ",len=" + intField(rv, "s") + ",holes=" + intField(rv, "holes") + ")"
	case "Bytes":
		return "Bytes(off=" + intField(rv, "offset") + ",len=" + intField(rv, "b") + ")"
	case "Array":
		return "Array(off=" + intField(rv, "offset") + ",len=" + intField(rv, "values") + ",count=" + intField(rv, "count") + ")"
	case "Relation":
		r := v.(rel.Relation)
		names := append([]string{}, r.AttrsName()...)
		sort.Strings(names)
		return "Relation(" + strings.Join(names, ",") + ";n=" + fmt.Sprint(r.Count()) + ")"
	case "UnionSet":
		m := rv.FieldByName("m")
		_ = m
		// bucket names are not reachable by reflection without unsafe; report the member count only
		return "UnionSet(n=" + fmt.Sprint(v.(rel.Set).Count()) + ")"
	case "GenericSet", "Dict":
		return t + "(n=" + fmt.Sprint(v.(rel.Set).Count()) + ")"
	case "GenericTuple":
		return "GenericTuple(n=" + fmt.Sprint(v.(rel.Tuple).Count()) + ")"
	case "":
		return name
	}
	return t
}

func init() {
	hlib.Register("pair", func(p []string) string {
		ctx := hlib.NewCtx()
		va, err := syntax.EvaluateExpr(ctx, "", p[0])
		if err != nil {
			return "errA"
		}
		vb, err := syntax.EvaluateExpr(ctx, "", p[1])
		if err != nil {
			return "errB"
		}
		flags := "eqscdrlgfF"
		if len(p) > 3 {
			flags = p[3]
		}
		scope := rel.Scope{}.With("a", va).With("b", vb)
		ev := func(src string) string {
			return truth(syntax.EvalWithScope(ctx, "", src, scope))
		}
		on := func(c string, f func() string) string {
			if strings.Contains(flags, c) {
				return f()
			}
			return "-"
		}
		out := []string{
			"eq=" + on("e", func() string { return ev("a = b") }),
			"qe=" + on("q", func() string { return ev("b = a") }),
			"set=" + on("s", func() string { return ev("{a} = {b}") }),
			"cnt=" + on("c", func() string { return ev("{a, b} count") }),
			"dict=" + on("d", func() string { return ev("{a: 1}(b)") }),
			"repr=" + on("r", func() string { return fmt.Sprint(fmt.Sprintf("%v", va) == fmt.Sprintf("%v", vb)) }),
			"lt=" + on("l", func() string { return ev("a < b") }),
			"gt=" + on("g", func() string { return ev("b < a") }),
		}
		cx, cd := "-", "-"
		if len(p) > 2 && p[2] != "" && (strings.Contains(flags, "f") || strings.Contains(flags, "F")) {
			fv, err := syntax.EvaluateExpr(ctx, "", p[2])
			if err != nil {
				cx, cd = "errF", "errF"
			} else {
				sc := scope.With("f", fv)
				fa, ea := syntax.EvalWithScope(ctx, "", "f(a)", sc)
				fb, eb := syntax.EvalWithScope(ctx, "", "f(b)", sc)
				switch {
				case ea != nil && eb != nil:
					cx, cd = "true", "true"
				case ea != nil || eb != nil:
					cx, cd = "false", "false"
				default:
					if strings.Contains(flags, "f") {
						cx = truth(syntax.EvalWithScope(ctx, "", "x = y", rel.Scope{}.With("x", fa).With("y", fb)))
					}
					if strings.Contains(flags, "F") {
						cd = fmt.Sprint(hlib.Canon(fa) == hlib.Canon(fb))
					}
				}
			}
		}
		out = append(out, "ctx="+cx, "ctxden="+cd)
		return strings.Join(out, ";") + "|" + hlib.Canon(va) + "|" + hlib.Canon(vb)
	})
	hlib.Register("rep", func(p []string) string {
		ctx := hlib.NewCtx()
		va, err := syntax.EvaluateExpr(ctx, "", p[0])
		if err != nil {
			return "errA"
		}
		vb, err := syntax.EvaluateExpr(ctx, "", p[1])
		if err != nil {
			return "errB"
		}
		return goRep(va) + "|" + goRep(vb)
	})
}

func main() {
	// compile the standard library once, before the per-case timeout applies
	_, _ = hlib.EvalSrc("//str.upper('a')")
	hlib.Main()
}
