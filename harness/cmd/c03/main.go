// harness for C03 (values are immutable).
//
// op "hist": payload[0] = mode ("strict" | "loose:<i>,<j>,…" = the values whose CONTENT is not reported: they are
// known to be computed wrongly for reasons of other properties; their stability is still checked),
// payload[1..] = steps.  Step k defines value vK:
//
//	"<api> ## <arr.ai expression over v0..v(K-1)>"
//
// <api> is "-" (evaluate the expression with v0.. bound in a scope) or a direct call of the rel Go API:
//
//	r  K OFF c…    a root built through the constructors: rel.NewOffsetString([]rune(string), OFF) /
//	               rel.NewOffsetBytes / rel.NewOffsetArray(OFF, …) — elements appended one by one as the
//	               literal's evaluator does ("_" = hole)
//	w  I K AT N    vI.With(tuple)     K = S|B|A: (@:AT,@char:N) | (@:AT,@byte:N) | (@:AT,@item:N)
//	wo I K AT N    vI.Without(tuple)  (as NewWithoutExpr: an untrue result is None)
//	cat I J        rel.Concatenate(vI, vJ)
//	un I J         rel.Union(vI, vJ)
//	rr n,…;v,…;…   a relation built by rel.NewSet from generic tuples (names; then one row per field)
//	j OP I J       the join expression node of OP (<&> <-> -&- --- -&> <&- --> <--) evaluated on vI, vJ
//	tw I n=v,…     vI.With(rel.NewTuple(…));   two I n=v,…   vI.Without(…)
//
// Path A runs the steps one by one.  After EVERY step the canonical text (hlib.Canon: Enumerator walks only)
// of EVERY earlier value is recomputed and compared with the snapshot taken when that value was created
// (for a rel.Relation also its heading, the names slice in its own order), and the value is observed through the OPERATORS
// a program can apply to it (`v = lit`, `lit = v`, `{v, lit} count`, `v count`, `//str.repr(v)` against an independent
// value `lit` with the same members, rebuilt at creation): the answers must be those recorded at creation, and an
// untainted value must equal its `lit` from the start.  After every step the new value is also COMPARED with every earlier
// one (results discarded): comparisons may fill caches, i.e. they are operations of the history too.
// Path B evaluates the whole history as ONE nested-let arr.ai program `let v0 = e0; let v1 = e1; … [v0, …, vN]`
// and compares each element with path A's creation-time snapshot.
//
// Observable:  stable | changed:v<K>@<step>   ;prog=ok | prog=diff:v<K> | prog=error | prog=skipped
//              then ";" + the creation-time canon of every value ("error" for a failed step, "_" for a tainted one).
//              (if only tainted steps failed there is no program to compare: reported as prog=ok)
//
// op "histshare": same payload; runs path A and reports, from the slice headers of the rel.String / rel.Bytes /
// rel.Array values (read with reflect; no hook in /repo), the first two live values whose backing arrays overlap
// while one of them has len < cap — the precondition of the aliasing defect:  noshare | share:v<I>~v<J>.
package main

import (
	"fmt"
	"reflect"
	"strconv"
	"strings"

	"github.com/arr-ai/arrai/pkg/fu"
	"github.com/arr-ai/arrai/rel"
	"github.com/arr-ai/arrai/syntax"
	"github.com/arr-ai/wbnf/parser"

	"verif/harness/hlib"
)

type hist struct {
	vals  []rel.Value // nil = the step failed
	snaps []string
	heads []string // the heading (NamesSlice, in its own order) of a rel.Relation at creation: part of the value
	lits  []rel.Value // an independent value with the same members, rebuilt member by member at creation
	probe []string    // the answers of the operator probes at creation
	taint map[int]bool
	srcs  []string
	first string // first stability violation
}

func tupleFor(kind string, at int, n int) rel.Value {
	switch kind {
	case "S":
		return rel.NewStringCharTuple(at, rune(n))
	case "B":
		return rel.NewBytesByteTuple(at, byte(n))
	default:
		return rel.NewArrayItemTuple(at, rel.NewNumber(float64(n)))
	}
}

func (h *hist) operand(s string) (rel.Set, bool) {
	i, err := strconv.Atoi(s)
	if err != nil || i < 0 || i >= len(h.vals) || h.vals[i] == nil {
		return nil, false
	}
	set, ok := h.vals[i].(rel.Set)
	return set, ok
}

var joinCtors = map[string]func(parser.Scanner, rel.Expr, rel.Expr) rel.Expr{
	"<&>": rel.NewJoinExpr, "<->": rel.NewComposeExpr, "-&-": rel.NewJoinCommonExpr, "---": rel.NewJoinExistsExpr,
	"-&>": rel.NewRightMatchExpr, "<&-": rel.NewLeftMatchExpr, "-->": rel.NewRightResidueExpr, "<--": rel.NewLeftResidueExpr,
}

func tupleOfFields(spec string) rel.Value {
	var attrs []rel.Attr
	for _, kv := range strings.Split(spec, ",") {
		p := strings.SplitN(kv, "=", 2)
		n, _ := strconv.Atoi(p[1])
		attrs = append(attrs, rel.NewAttr(p[0], rel.NewNumber(float64(n))))
	}
	return rel.NewTuple(attrs...)
}

func (h *hist) runAPI(api string) (v rel.Value, ok bool) {
	f := strings.Fields(api)
	switch f[0] {
	case "rr":
		if len(f) != 2 {
			return nil, false
		}
		parts := strings.Split(f[1], ";")
		names := strings.Split(parts[0], ",")
		var tuples []rel.Value
		for _, row := range parts[1:] {
			var attrs []rel.Attr
			for i, c := range strings.Split(row, ",") {
				n, _ := strconv.Atoi(c)
				attrs = append(attrs, rel.NewAttr(names[i], rel.NewNumber(float64(n))))
			}
			tuples = append(tuples, rel.NewTuple(attrs...))
		}
		set, err := rel.NewSet(tuples...)
		if err != nil {
			return nil, false
		}
		return set, true
	case "j":
		if len(f) != 4 {
			return nil, false
		}
		a, ok1 := h.operand(f[2])
		b, ok2 := h.operand(f[3])
		ctor := joinCtors[f[1]]
		if !ok1 || !ok2 || ctor == nil {
			return nil, false
		}
		r, err := ctor(*parser.NewScanner(""), a, b).Eval(hlib.NewCtx(), rel.Scope{})
		if err != nil {
			return nil, false
		}
		return r, true
	case "tw", "two":
		if len(f) != 3 {
			return nil, false
		}
		x, ok := h.operand(f[1])
		if !ok {
			return nil, false
		}
		t := tupleOfFields(f[2])
		if f[0] == "tw" {
			return x.With(t), true
		}
		if s := x.Without(t); s.IsTrue() {
			return s, true
		}
		return rel.None, true
	case "r":
		if len(f) < 3 {
			return nil, false
		}
		off, _ := strconv.Atoi(f[2])
		switch f[1] {
		case "S":
			var rs []rune
			for _, c := range f[3:] {
				n, _ := strconv.Atoi(c)
				rs = append(rs, rune(n))
			}
			return rel.NewOffsetString([]rune(string(rs)), off), true
		case "B":
			var bs []byte
			for _, c := range f[3:] {
				n, _ := strconv.Atoi(c)
				bs = append(bs, byte(n))
			}
			return rel.NewOffsetBytes(bs, off), true
		default:
			var vs []rel.Value
			for _, c := range f[3:] {
				if c == "_" {
					vs = append(vs, nil)
					continue
				}
				n, _ := strconv.Atoi(c)
				vs = append(vs, rel.NewNumber(float64(n)))
			}
			return rel.NewOffsetArray(off, vs...), true
		}
	case "w", "wo":
		if len(f) != 5 {
			return nil, false
		}
		x, ok := h.operand(f[1])
		if !ok {
			return nil, false
		}
		at, _ := strconv.Atoi(f[3])
		n, _ := strconv.Atoi(f[4])
		t := tupleFor(f[2], at, n)
		if f[0] == "w" {
			return x.With(t), true
		}
		if s := x.Without(t); s.IsTrue() {
			return s, true
		}
		return rel.None, true
	case "cat", "un":
		if len(f) != 3 {
			return nil, false
		}
		a, ok1 := h.operand(f[1])
		b, ok2 := h.operand(f[2])
		if !ok1 || !ok2 {
			return nil, false
		}
		if f[0] == "un" {
			return rel.Union(a, b), true
		}
		r, err := rel.Concatenate(a, b)
		if err != nil {
			return nil, false
		}
		return r, true
	}
	return nil, false
}

func (h *hist) runStep(step string) {
	api, src := "-", step
	if i := strings.Index(step, " ## "); i >= 0 {
		api, src = step[:i], step[i+4:]
	}
	h.srcs = append(h.srcs, src)
	var v rel.Value
	func() {
		defer func() {
			if p := recover(); p != nil {
				v = nil
			}
		}()
		if api != "-" {
			if r, ok := h.runAPI(api); ok {
				v = r
			}
			return
		}
		scope := rel.Scope{}
		for i, x := range h.vals {
			if x != nil {
				scope = scope.With("v"+strconv.Itoa(i), x)
			}
		}
		r, err := syntax.EvalWithScope(hlib.NewCtx(), "", src, scope)
		if err == nil {
			v = r
		}
	}()
	k := len(h.vals)
	h.vals = append(h.vals, v)
	if v == nil {
		h.snaps = append(h.snaps, "error")
	} else {
		h.snaps = append(h.snaps, hlib.Canon(v))
	}
	h.heads = append(h.heads, heading(v))
	var lit rel.Value
	if v != nil {
		lit = rebuild(v)
	}
	h.lits = append(h.lits, lit)
	h.probe = append(h.probe, probes(v, lit))
	// a value must compare equal to an independent value with the same members — from its creation on
	// (tainted values are known to be in a representation that other properties' defects leave non-canonical)
	if v != nil && lit != nil && !h.taint[k] && h.first == "" {
		if want := "eq=true,qe=true,pair=1"; !strings.HasPrefix(h.probe[k], want) {
			h.first = fmt.Sprintf("probe:v%d@%d(%s)", k, k, h.probe[k])
		}
	}
	// comparisons are operations too (they may fill caches): compare the new value with every earlier one, both ways
	for j := 0; j < k; j++ {
		if v != nil && h.vals[j] != nil {
			func() {
				defer func() { _ = recover() }()
				_ = v.Equal(h.vals[j])
				_ = h.vals[j].Equal(v)
			}()
		}
	}
	// stability of every earlier value
	for j := 0; j < k; j++ {
		if h.vals[j] == nil {
			continue
		}
		if now := hlib.Canon(h.vals[j]); now != h.snaps[j] && h.first == "" {
			h.first = fmt.Sprintf("changed:v%d@%d(was %s now %s)", j, k, h.snaps[j], now)
		}
		if now := heading(h.vals[j]); now != h.heads[j] && h.first == "" {
			h.first = fmt.Sprintf("changed:v%d@%d(heading was %s now %s)", j, k, h.heads[j], now)
		}
		if now := probes(h.vals[j], h.lits[j]); now != h.probe[j] && h.first == "" {
			h.first = fmt.Sprintf("changed:v%d@%d(probes were %s now %s)", j, k, h.probe[j], now)
		}
	}
}

// heading reads the names slice of a Relation (the tuples an Enumerator yields are built from a map cached at
// construction and would not show a heading that was overwritten in place; later joins use the slice).
func heading(v rel.Value) string {
	if r, ok := v.(rel.Relation); ok {
		return strings.Join(r.AttrsName(), ",")
	}
	return ""
}

// rebuild makes an independent value with the same members: numbers as they are, tuples attribute by attribute, sets member
// by member through rel.NewSet (so a set of char tuples comes back as a String, a set of generic tuples as a Relation, …).
func rebuild(v rel.Value) (out rel.Value) {
	defer func() {
		if recover() != nil {
			out = nil
		}
	}()
	switch x := v.(type) {
	case rel.Number:
		return x
	case rel.Tuple:
		var attrs []rel.Attr
		for e := x.Enumerator(); e.MoveNext(); {
			n, val := e.Current()
			r := rebuild(val)
			if r == nil {
				return nil
			}
			attrs = append(attrs, rel.NewAttr(n, r))
		}
		return rel.NewTuple(attrs...)
	case rel.Set:
		if hlib.IsFn(v) {
			return nil
		}
		var ms []rel.Value
		for e := x.Enumerator(); e.MoveNext(); {
			r := rebuild(e.Current())
			if r == nil {
				return nil
			}
			ms = append(ms, r)
		}
		s, err := rel.NewSet(ms...)
		if err != nil {
			return nil
		}
		return s
	}
	return nil
}

// probes observes a value through the operators a program can apply to it: `v = lit`, `lit = v`, `{v, lit} count`,
// `v count`, `//str.repr(v)` (the rel functions behind them).
func probes(v, lit rel.Value) (out string) {
	if v == nil || lit == nil {
		return "-"
	}
	defer func() {
		if p := recover(); p != nil {
			out = "panic"
		}
	}()
	pair := -1
	if s, err := rel.NewSet(v, lit); err == nil {
		pair = s.Count()
	}
	count := -1
	if s, ok := v.(rel.Set); ok {
		count = s.Count()
	}
	return fmt.Sprintf("eq=%v,qe=%v,pair=%d,count=%d,repr=%s", v.Equal(lit), lit.Equal(v), pair, count, fu.Repr(v))
}

func runHist(p []string) *hist {
	h := &hist{taint: taintOf(p[0])}
	for _, s := range p[1:] {
		h.runStep(s)
	}
	return h
}

func (h *hist) program() string {
	var sb strings.Builder
	names := make([]string, len(h.srcs))
	for i, s := range h.srcs {
		names[i] = "v" + strconv.Itoa(i)
		fmt.Fprintf(&sb, "let %s = %s;\n", names[i], s)
	}
	sb.WriteString("[" + strings.Join(names, ", ") + "]")
	return sb.String()
}

func taintOf(mode string) map[int]bool {
	t := map[int]bool{}
	if strings.HasPrefix(mode, "loose:") {
		for _, f := range strings.Split(mode[6:], ",") {
			if i, err := strconv.Atoi(f); err == nil {
				t[i] = true
			}
		}
	}
	return t
}

func (h *hist) pathB(taint map[int]bool) string {
	failed, excused := false, true
	for i, v := range h.vals {
		if v == nil {
			failed = true
			excused = excused && taint[i]
		}
	}
	if failed {
		if excused {
			return "prog=ok"
		}
		return "prog=skipped"
	}
	v, err := hlib.EvalSrc(h.program())
	if err != nil {
		return "prog=error"
	}
	arr, ok := v.(rel.Array)
	if !ok || len(arr.Values()) != len(h.vals) {
		return "prog=diff:shape"
	}
	for k, x := range arr.Values() {
		if x == nil || hlib.Canon(x) != h.snaps[k] {
			return "prog=diff:v" + strconv.Itoa(k)
		}
	}
	return "prog=ok"
}

type hdr struct {
	lo, hi uintptr // [lo, hi) = the backing array from the slice's first element to its capacity
	spare  bool
}

func header(v rel.Value) (hdr, bool) {
	var f reflect.Value
	rv := reflect.ValueOf(v)
	switch v.(type) {
	case rel.String:
		f = rv.FieldByName("s")
	case rel.Bytes:
		f = rv.FieldByName("b")
	case rel.Array:
		f = rv.FieldByName("values")
	default:
		return hdr{}, false
	}
	if !f.IsValid() || f.Kind() != reflect.Slice || f.Cap() == 0 {
		return hdr{}, false
	}
	lo := f.Pointer()
	return hdr{lo, lo + uintptr(f.Cap())*f.Type().Elem().Size(), f.Len() < f.Cap()}, true
}

func init() {
	hlib.Register("hist", func(p []string) string {
		h := runHist(p)
		out := "stable"
		if h.first != "" {
			out = h.first
		}
		taint := taintOf(p[0])
		out += ";" + h.pathB(taint)
		shown := make([]string, len(h.snaps))
		for i, s := range h.snaps {
			if taint[i] {
				s = "_"
			}
			shown[i] = s
		}
		return out + ";" + strings.Join(shown, ";")
	})
	hlib.Register("histshare", func(p []string) string {
		h := runHist(p)
		var hs []hdr
		var idx []int
		for i, v := range h.vals {
			if v == nil {
				continue
			}
			if x, ok := header(v); ok {
				hs = append(hs, x)
				idx = append(idx, i)
			}
		}
		for i := range hs {
			for j := i + 1; j < len(hs); j++ {
				if hs[i].lo < hs[j].hi && hs[j].lo < hs[i].hi && (hs[i].spare || hs[j].spare) {
					return fmt.Sprintf("share:v%d~v%d", idx[i], idx[j])
				}
			}
		}
		return "noshare"
	})
}

func main() { hlib.Main() }
