// harness for C16: local imports over an in-memory file system with a recording wrapper.
//
// Operations
//
//	imp    payload: mainPath, source, modLevel ("-" = no go.mod)
//	       The fixed directory chain /, /tmp, /tmp/vc16, /tmp/vc16/a, … /tmp/vc16/a/a/a/a/a/a (levels 0..8)
//	       has a marker script "a.arrai" with content <level> at EVERY level; go.mod at modLevel.
//	       observable: open=<sorted, cleaned absolute paths opened>|out=<canon | error>
//	fsrun  payload: mainPath, source, path1, content1, path2, content2, …
//	       observable: open=<sorted, cleaned absolute paths opened>|out=<canon | error>
//	fsseq  payload: share, k, main1, src1, …, maink, srck, path1, content1, …   k evaluations sharing ONE context
//	       (root cache; share=1: also the import cache) over one file system; observable: the fsrun observables
//	       of the k evaluations joined by " ;; "
//	pathfn payload: s, t    observable: Go's path.Clean/filepath.Clean/Join/Dir/Base/Ext/Abs on them
//
// The process changes its working directory once, at start, to /tmp/vc16/a/a/a (the model's `cwd`).
package main

import (
	"fmt"
	"os"
	"path"
	"path/filepath"
	"sort"
	"strconv"
	"strings"
	"sync"

	"github.com/spf13/afero"

	"github.com/arr-ai/arrai/pkg/ctxfs"
	"github.com/arr-ai/arrai/pkg/importcache"
	"github.com/arr-ai/arrai/syntax"

	"verif/harness/hlib"
)

const cwd = "/tmp/vc16/a/a/a"

var cwdErr error

// recFs records the names handed to Open/OpenFile (absolute, cleaned); everything else is delegated.
type recFs struct {
	afero.Fs
	mu     sync.Mutex
	opened map[string]bool
}

func (r *recFs) note(name string) {
	abs, err := filepath.Abs(name)
	if err != nil {
		abs = "abs-error:" + name
	}
	r.mu.Lock()
	r.opened[abs] = true
	r.mu.Unlock()
}

func (r *recFs) Open(name string) (afero.File, error) {
	r.note(name)
	return r.Fs.Open(name)
}

func (r *recFs) OpenFile(name string, flag int, perm os.FileMode) (afero.File, error) {
	r.note(name)
	return r.Fs.OpenFile(name, flag, perm)
}

func (r *recFs) list() string {
	r.mu.Lock()
	defer r.mu.Unlock()
	out := make([]string, 0, len(r.opened))
	for p := range r.opened {
		out = append(out, p)
	}
	sort.Strings(out)
	return strings.Join(out, ",")
}

func levelDir(l int) string {
	switch l {
	case 0:
		return "/"
	case 1:
		return "/tmp"
	}
	return "/tmp/vc16" + strings.Repeat("/a", l-2)
}

func run(fs afero.Fs, mainPath, source string) (string, *recFs) {
	rec := &recFs{Fs: fs, opened: map[string]bool{}}
	ctx := ctxfs.SourceFsOnto(hlib.NewCtx(), rec)
	v, err := syntax.EvaluateExpr(ctx, mainPath, source)
	if err != nil {
		return "error", rec
	}
	return hlib.Canon(v), rec
}

func write(fs afero.Fs, p, content string) {
	if err := afero.WriteFile(fs, p, []byte(content), 0o644); err != nil {
		panic(err)
	}
}

func init() {
	if err := os.MkdirAll(cwd, 0o755); err != nil {
		cwdErr = err
	} else if err := os.Chdir(cwd); err != nil {
		cwdErr = err
	}

	hlib.Register("imp", func(p []string) string {
		if cwdErr != nil {
			return "harness-error:" + cwdErr.Error()
		}
		fs := afero.NewMemMapFs()
		for l := 0; l <= 8; l++ {
			write(fs, path.Join(levelDir(l), "a.arrai"), strconv.Itoa(l))
		}
		if p[2] != "-" {
			l, err := strconv.Atoi(p[2])
			if err != nil {
				return "harness-error:" + err.Error()
			}
			write(fs, path.Join(levelDir(l), "go.mod"), "module m\n")
		}
		out, rec := run(fs, p[0], p[1])
		return "open=" + rec.list() + "|out=" + out
	})

	hlib.Register("fsrun", func(p []string) string {
		if cwdErr != nil {
			return "harness-error:" + cwdErr.Error()
		}
		fs := afero.NewMemMapFs()
		for i := 2; i+1 < len(p); i += 2 {
			write(fs, p[i], p[i+1])
		}
		out, rec := run(fs, p[0], p[1])
		return "open=" + rec.list() + "|out=" + out
	})

	// fsseq: several evaluations over ONE file system sharing ONE context (root cache; with share=1 also the
	// import cache).  payload: share, k, main1, src1, …, maink, srck, path1, content1, …
	// observable: the per-evaluation observables of fsrun joined by " ;; "
	hlib.Register("fsseq", func(p []string) string {
		if cwdErr != nil {
			return "harness-error:" + cwdErr.Error()
		}
		k, err := strconv.Atoi(p[1])
		if err != nil || len(p) < 2+2*k {
			return "harness-error:bad payload"
		}
		fs := afero.NewMemMapFs()
		for i := 2 + 2*k; i+1 < len(p); i += 2 {
			write(fs, p[i], p[i+1])
		}
		rec := &recFs{Fs: fs, opened: map[string]bool{}}
		ctx := ctxfs.SourceFsOnto(hlib.NewCtx(), rec)
		if p[0] == "1" {
			ctx = importcache.WithNewImportCache(ctx)
		}
		outs := []string{}
		for j := 0; j < k; j++ {
			rec.mu.Lock()
			rec.opened = map[string]bool{}
			rec.mu.Unlock()
			out := "error"
			if v, err := syntax.EvaluateExpr(ctx, p[2+2*j], p[3+2*j]); err == nil {
				out = hlib.Canon(v)
			}
			outs = append(outs, "open="+rec.list()+"|out="+out)
		}
		return strings.Join(outs, " ;; ")
	})

	hlib.Register("pathfn", func(p []string) string {
		if cwdErr != nil {
			return "harness-error:" + cwdErr.Error()
		}
		s, t := p[0], p[1]
		abs, err := filepath.Abs(s)
		if err != nil {
			abs = "error"
		}
		return fmt.Sprintf("clean=%s|fclean=%s|join=%s|dir=%s|base=%s|ext=%s|abs=%s",
			path.Clean(s), filepath.Clean(s), filepath.Join(s, t), filepath.Dir(s), filepath.Base(s), filepath.Ext(s), abs)
	})
}

func main() { hlib.Main() }
