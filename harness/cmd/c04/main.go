// harness for C04: the shared "eval" plus "evalc" (canon of the value and, for sets, "#" + Count()).
package main

import (
	"strconv"

	"github.com/arr-ai/arrai/rel"

	"verif/harness/hlib"
)

func init() {
	// evalc: payload[0] = arr.ai source; observable = canon(value)#count | "error"
	hlib.Register("evalc", func(p []string) string {
		v, err := hlib.EvalSrc(p[0])
		if err != nil {
			return "error"
		}
		if s, ok := v.(rel.Set); ok && !hlib.IsFn(v) {
			return hlib.Canon(v) + "#" + strconv.Itoa(s.Count())
		}
		return hlib.Canon(v)
	})
}

func main() { hlib.Main() }
