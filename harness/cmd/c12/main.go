// harness for C12: printed values read back as the same value.
//
// op "reprrt"  payload = [arr.ai source of a value v]
//     v is evaluated, printed with fu.Repr (what `arrai eval`, the shell echo and //str.repr use for every
//     non-top-level value), the printed text is evaluated again (v'), and
//       observable = <rt>;<out>
//       <rt>  = same                                 canon(v') = canon(v) and fu.Repr(v') = fu.Repr(v) up to the order
//                                                    in which members are listed (the two texts are permutations of
//                                                    each other: arr.ai's member order is C06's subject, not C12's)
//             | diff:<canon v>|<canon v'>            the value changed
//             | text-diff:<repr v>|<repr v'>         equal values, texts that are not permutations of each other
//             | reparse-error | reparse-panic        the printed text is not accepted
//             | strrepr-mismatch                     //str.repr(v) is not fu.Repr(v)
//             | src-error                            the payload itself did not evaluate
//       <out> = what pkg/arrai.OutputValue (the CLI's eval/run output) wrote for v at top level:
//               repr (fu.Repr(v) + newline) | raw (the characters/bytes of a string/byte array, newline
//               terminated) | empty (nothing) | other:<text>
// op "repr"    payload = [source]            observable = fu.Repr(v) | error
// op "bundlecfg" payload = [code points of main_root, code points of main_file] ("97,98"; "" = empty)
//     the two-field config text of syntax.bundleConfig.String() (Go %q quoting) is evaluated by the arr.ai
//     reader; observable = same | diff:<root'>|<file'> (code points) | error | panic
// op "bundle"  payload = [code points of a file name]   end to end through the exported API:
//     SetupBundle over a MemMapFs -> OutputArraiz -> EvaluateBundleCtx; observable = ok | <failure>
package main

import (
	"bytes"
	"fmt"
	"sort"
	"strconv"
	"strings"
	"sync"

	"github.com/spf13/afero"

	"github.com/arr-ai/arrai/pkg/arrai"
	"github.com/arr-ai/arrai/pkg/ctxfs"
	"github.com/arr-ai/arrai/pkg/fu"
	"github.com/arr-ai/arrai/rel"
	"github.com/arr-ai/arrai/syntax"

	"verif/harness/hlib"
)

func safeEval(src string) (v rel.Value, err error, panicked bool) {
	defer func() {
		if p := recover(); p != nil {
			panicked = true
		}
	}()
	v, err = hlib.EvalSrc(src)
	return
}

// seqContent enumerates a string / byte array as (index, code) pairs with the Enumerator only.
func seqContent(v rel.Value, attr string) ([]int, []int, bool) {
	s, ok := v.(rel.Set)
	if !ok {
		return nil, nil, false
	}
	type pair struct{ at, c int }
	var ps []pair
	for e := s.Enumerator(); e.MoveNext(); {
		t, ok := e.Current().(rel.Tuple)
		if !ok {
			return nil, nil, false
		}
		at, ok1 := t.Get("@")
		c, ok2 := t.Get(attr)
		if !ok1 || !ok2 {
			return nil, nil, false
		}
		an, ok1 := at.(rel.Number)
		cn, ok2 := c.(rel.Number)
		if !ok1 || !ok2 {
			return nil, nil, false
		}
		ps = append(ps, pair{int(an), int(cn)})
	}
	sort.Slice(ps, func(i, j int) bool { return ps[i].at < ps[j].at })
	var ats, cs []int
	for _, p := range ps {
		ats = append(ats, p.at)
		cs = append(cs, p.c)
	}
	return ats, cs, true
}

func outMode(v rel.Value, text string) string {
	var buf bytes.Buffer
	if err := arrai.OutputValue(hlib.NewCtx(), v, &buf, ""); err != nil {
		return "other:error"
	}
	out := buf.String()
	if out == "" {
		return "empty"
	}
	if out == text+"\n" {
		return "repr"
	}
	// raw: the characters (or bytes) in index order, newline terminated unless they already end in one
	for _, attr := range []string{"@char", "@byte"} {
		if ats, cs, ok := seqContent(v, attr); ok && len(cs) > 0 {
			var sb strings.Builder
			for i, c := range cs {
				// a gap in the indices of a string is written as U+FFFD (string(s.s) of the hole marker)
				if i > 0 && attr == "@char" {
					for k := ats[i-1] + 1; k < ats[i]; k++ {
						sb.WriteRune(0xFFFD)
					}
				}
				if attr == "@char" {
					sb.WriteRune(rune(c))
				} else {
					sb.WriteByte(byte(c))
				}
			}
			raw := sb.String()
			if !strings.HasSuffix(raw, "\n") {
				raw += "\n"
			}
			if out == raw {
				return "raw"
			}
		}
	}
	return "other:" + out
}

var (
	strReprOnce sync.Once
	strReprFn   rel.Value
)

// strRepr calls arr.ai's //str.repr on v (the function value is looked up once, through the evaluator).
func strRepr(v rel.Value) (res rel.Value, err error, panicked bool) {
	defer func() {
		if p := recover(); p != nil {
			panicked = true
		}
	}()
	strReprOnce.Do(func() {
		strReprFn, _ = hlib.EvalSrc("//str.repr")
	})
	fn, ok := strReprFn.(rel.Set)
	if !ok {
		return nil, fmt.Errorf("//str.repr is not a function"), false
	}
	res, err = rel.SetCall(hlib.NewCtx(), fn, v)
	return
}

// sameUpToOrder: the two texts consist of the same characters (members of sets, dicts and relations may be
// listed in a different order; a different representation or different escapes change the characters).
func sameUpToOrder(a, b string) bool {
	if a == b {
		return true
	}
	ra, rb := []rune(a), []rune(b)
	if len(ra) != len(rb) {
		return false
	}
	sort.Slice(ra, func(i, j int) bool { return ra[i] < ra[j] })
	sort.Slice(rb, func(i, j int) bool { return rb[i] < rb[j] })
	return string(ra) == string(rb)
}

func reprrt(p []string) string {
	v, err, pan := safeEval(p[0])
	if pan {
		return "src-panic"
	}
	if err != nil {
		return "src-error"
	}
	text := fu.Repr(v)
	out := outMode(v, text)
	// //str.repr goes through the same printer: apply the library function to the value itself
	sv, err, pan := strRepr(v)
	if pan || err != nil {
		return "strrepr-mismatch;" + out
	}
	if s, ok := sv.(rel.String); !ok || !sameUpToOrder(s.String(), text) {
		if !(text == "" && !sv.IsTrue()) {
			return "strrepr-mismatch;" + out
		}
	}
	v2, err, pan := safeEval(text)
	if pan {
		return "reparse-panic;" + out
	}
	if err != nil {
		return "reparse-error;" + out
	}
	c1, c2 := hlib.Canon(v), hlib.Canon(v2)
	if c1 != c2 {
		return "diff:" + c1 + "|" + c2 + ";" + out
	}
	if t2 := fu.Repr(v2); !sameUpToOrder(t2, text) {
		return "text-diff:" + text + "|" + t2 + ";" + out
	}
	return "same;" + out
}

func codePoints(s string) (string, bool) {
	if s == "" {
		return "", true
	}
	var sb strings.Builder
	for _, f := range strings.Split(s, ",") {
		n, err := strconv.Atoi(f)
		if err != nil {
			return "", false
		}
		sb.WriteRune(rune(n))
	}
	return sb.String(), true
}

func cpList(s string) string {
	parts := []string{}
	for _, r := range s {
		parts = append(parts, strconv.Itoa(int(r)))
	}
	return strings.Join(parts, ",")
}

func bundlecfg(p []string) string {
	root, ok1 := codePoints(p[0])
	file, ok2 := codePoints(p[1])
	if !ok1 || !ok2 {
		return "harness-error:payload"
	}
	// syntax.bundleConfig is unexported; this is its String() method verbatim (facts: C12 bundleConfigFormat).
	text := fmt.Sprintf("(main_root: %q, main_file: %q)", root, file)
	v, err, pan := safeEval(text)
	if pan {
		return "panic"
	}
	if err != nil {
		return "error"
	}
	t, ok := v.(rel.Tuple)
	if !ok {
		return "error"
	}
	r2, f2 := t.MustGet("main_root").String(), t.MustGet("main_file").String()
	// withBundledConfig: the empty string is the empty set, which prints as {}
	if root == "" && r2 == "{}" {
		r2 = ""
	}
	if file == "" && f2 == "{}" {
		f2 = ""
	}
	if r2 == root && f2 == file {
		return "same"
	}
	return "diff:" + cpList(r2) + "|" + cpList(f2)
}

func bundle(p []string) (res string) {
	name, ok := codePoints(p[0])
	if !ok {
		return "harness-error:payload"
	}
	defer func() {
		if r := recover(); r != nil {
			res = "panic:" + strings.SplitN(fmt.Sprint(r), "\n", 2)[0]
		}
	}()
	fs := afero.NewMemMapFs()
	src := []byte("42")
	path := "/work/" + name
	if err := afero.WriteFile(fs, path, src, 0o644); err != nil {
		return "harness-error:write"
	}
	ctx := ctxfs.SourceFsOnto(hlib.NewCtx(), fs)
	ctx, err := syntax.SetupBundle(ctx, path, src)
	if err != nil {
		return "setup-error"
	}
	var buf bytes.Buffer
	if err := syntax.OutputArraiz(ctx, &buf); err != nil {
		return "zip-error"
	}
	v, err := syntax.EvaluateBundleCtx(hlib.NewCtx(), buf.Bytes())
	if err != nil {
		return "run-error"
	}
	if hlib.Canon(v) == "42" {
		return "ok"
	}
	return "wrong:" + hlib.Canon(v)
}

// valid makes every observable valid UTF-8 (raw byte-array output may not be); ./check reads the results as text.
func valid(r hlib.Runner) hlib.Runner {
	return func(p []string) string { return strings.ToValidUTF8(r(p), "\uFFFD") }
}

func init() {
	hlib.Register("reprrt", valid(reprrt))
	hlib.Register("repr", valid(func(p []string) string {
		v, err := hlib.EvalSrc(p[0])
		if err != nil {
			return "error"
		}
		return fu.Repr(v)
	}))
	hlib.Register("bundlecfg", valid(bundlecfg))
	hlib.Register("bundle", valid(bundle))
}

func main() { hlib.Main() }
