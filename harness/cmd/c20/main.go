// harness for C20: runs test.RunTests over a directory layout built on an afero MemMapFs.
//
// op "runtests": payload[0] = target path handed to RunTests, then pairs (path, content):
// a path ending in "/" is an (empty) directory to create, anything else a file.
// Observable (canonical text, one item per line):
//
//	<verdict>                       pass | fail | error:nofiles | error:file:<path> | error:walk
//	<file>|<leaf path>|<OUTCOME>    one per reported result, sorted (PASS, FAIL, INVALID, SKIP)
//	failed=F invalid=I ignored=G passed=P total=T      (only when a report was written)
//
// The verdict is the error returned by RunTests, classified by its fixed prefix only; the
// result lines and the counts are parsed back from the report RunTests wrote.
package main

import (
	"bytes"
	"context"
	"os"
	"path/filepath"
	"regexp"
	"sort"
	"strings"

	"github.com/spf13/afero"

	"github.com/arr-ai/arrai/pkg/ctxfs"
	"github.com/arr-ai/arrai/pkg/ctxrootcache"
	"github.com/arr-ai/arrai/pkg/test"

	"verif/harness/hlib"
)

var (
	resultRe  = regexp.MustCompile(`^\x1b\[38;5;255;\d+;1m(.{4})\x1b\[0m  (.*)$`)
	headerRe  = regexp.MustCompile(`^=======  (.*) \([0-9,]+ms\)$`)
	failedRe  = regexp.MustCompile(`([0-9,]+) failed, `)
	invalidRe = regexp.MustCompile(`([0-9,]+) invalid, `)
	ignoredRe = regexp.MustCompile(`([0-9,]+) ignored, `)
	passedRe  = regexp.MustCompile(`([0-9,]+) passed of ([0-9,]+) total tests\.`)
)

var labels = map[string]string{"PASS": "PASS", "FAIL": "FAIL", " ?? ": "INVALID", "SKIP": "SKIP"}

func num(re *regexp.Regexp, s string, group int) string {
	m := re.FindStringSubmatch(s)
	if m == nil {
		return "0"
	}
	return strings.ReplaceAll(m[group], ",", "")
}

func classify(err error) string {
	if err == nil {
		return "pass"
	}
	msg := err.Error()
	switch {
	case strings.HasPrefix(msg, "test run "):
		return "fail"
	case strings.HasPrefix(msg, "no test files"):
		return "error:nofiles"
	case strings.HasPrefix(msg, "failed compiling tests file '"), strings.HasPrefix(msg, "failed evaluating tests file '"):
		rest := msg[strings.Index(msg, "'")+1:]
		if i := strings.Index(rest, "'"); i >= 0 {
			rest = rest[:i]
		}
		return "error:file:" + rest
	}
	return "error:walk"
}

func parseReport(report string) []string {
	var lines []string
	file := ""
	summary := ""
	inSummary := false
	for _, line := range strings.Split(report, "\n") {
		switch {
		case line == "=======  Summary":
			inSummary = true
		case inSummary && passedRe.MatchString(line):
			summary = "failed=" + num(failedRe, line, 1) + " invalid=" + num(invalidRe, line, 1) +
				" ignored=" + num(ignoredRe, line, 1) + " passed=" + num(passedRe, line, 1) +
				" total=" + num(passedRe, line, 2)
		case headerRe.MatchString(line):
			file = headerRe.FindStringSubmatch(line)[1]
		case resultRe.MatchString(line):
			m := resultRe.FindStringSubmatch(line)
			lines = append(lines, file+"|"+strings.TrimRight(m[2], " ")+"|"+labels[m[1]])
		}
	}
	sort.Strings(lines)
	if summary != "" {
		lines = append(lines, summary)
	}
	return lines
}

func runTests(p []string) string {
	fs := afero.NewMemMapFs()
	for i := 1; i+1 < len(p); i += 2 {
		name, content := p[i], p[i+1]
		if strings.HasSuffix(name, "/") {
			if err := fs.MkdirAll(strings.TrimSuffix(name, "/"), 0o755); err != nil {
				return "harness-error:" + err.Error()
			}
			continue
		}
		if err := fs.MkdirAll(filepath.Dir(name), 0o755); err != nil {
			return "harness-error:" + err.Error()
		}
		if err := afero.WriteFile(fs, name, []byte(content), 0o644); err != nil {
			return "harness-error:" + err.Error()
		}
	}
	ctx := ctxrootcache.WithRootCache(ctxfs.SourceFsOnto(context.Background(), fs))
	buf := &bytes.Buffer{}
	err := test.RunTests(ctx, buf, p[0])
	out := append([]string{classify(err)}, parseReport(buf.String())...)
	return strings.Join(out, "\n")
}

func init() {
	// Report prints file names relative to the working directory, RunTests("") walks it.
	if err := os.Chdir("/"); err != nil {
		panic(err)
	}
	hlib.Register("runtests", runTests)
}

func main() { hlib.Main() }
