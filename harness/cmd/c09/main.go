// harness for C09: only the shared "eval" operation is needed.
package main

import "verif/harness/hlib"

func main() { hlib.Main() }
