// harness for C11 (concurrent evaluation is race-free and gives serial results).
//
//	conc  label, N, iterations, shared-value source, program…
//	      The shared value is built once and bound to `s`; every program is compiled once.  First a single
//	      goroutine evaluates the programs over a private copy of the shared value (the serial results).  Then N
//	      goroutines, released together, evaluate the SAME compiled expressions over the SAME shared value (so the
//	      first use of every lazily initialised cache inside it happens concurrently) `iterations` times, each
//	      in a rotated order, and canonicalise what they get.
//	      observable: the serial results joined by " ; " if every goroutine got them, else the first mismatch.
//	first label, N, program
//	      N goroutines, released together, compile and evaluate the program from source.  Placed first in the case
//	      stream, so in a fresh process this is the first use of the standard-library scope (syntax.StdScope,
//	      FixFuncs, the embedded-file cache), made concurrently.
//	      observable: the common result, or the first differing pair.
//	impc  label, keys of the callers (comma separated), per-key outcome scripts of add ("k=evn…", ';' separated)
//	      N goroutines call importcache.GetOrAddFromCache on one shared cache; the i-th call of add for a key
//	      returns a value (v), an error (e) or (nil, nil) (n) as scripted (v after the script ends).
//	      observable: per key the sorted results of its callers (v<i> / e<i> / nil, i = attempt number), or
//	      hang:<callers stuck> if for 8 s no caller returned and no add call started or finished.
//	impx  label
//	      the cross-wait of known finding KF-import-cross-wait, forced: caller A adds key a and, inside add, asks
//	      for key b; caller B adds key b and, inside add, asks for key a; both adds wait until both keys are in
//	      flight.  observable: "returned" if both callers come back (with a value or an error), else hang:<n>.
//
// With C11_MARK=1 every operation brackets its work by "@@C11 begin/end <label>" lines on stderr, so that the
// race detector's reports (also on stderr) can be attributed to the case that was running.
//
// It is deliberately dumb: run, canonicalise, print.
package main

import (
	"context"
	"fmt"
	"os"
	"sort"
	"strconv"
	"strings"
	"sync"
	"sync/atomic"
	"time"

	"github.com/arr-ai/arrai/pkg/arraictx"
	"github.com/arr-ai/arrai/pkg/importcache"
	"github.com/arr-ai/arrai/rel"
	"github.com/arr-ai/arrai/syntax"

	"verif/harness/hlib"
)

var mark = os.Getenv("C11_MARK") == "1"

func bracket(label string) func() {
	if !mark {
		return func() {}
	}
	fmt.Fprintf(os.Stderr, "@@C11 begin %s\n", label)
	return func() { fmt.Fprintf(os.Stderr, "@@C11 end %s\n", label) }
}

func evalIn(ctx context.Context, e rel.Expr, shared rel.Value) (out string) {
	defer func() {
		if p := recover(); p != nil {
			out = "panic:" + hlib.FirstFrame() + ":" + strings.SplitN(fmt.Sprint(p), "\n", 2)[0]
		}
	}()
	v, err := e.Eval(ctx, rel.EmptyScope.With("s", shared))
	if err != nil {
		return "error"
	}
	return hlib.Canon(v)
}

func conc(p []string) string {
	if len(p) < 5 {
		return "harness-error:conc-arity"
	}
	defer bracket(p[0])()
	n, _ := strconv.Atoi(p[1])
	iters, _ := strconv.Atoi(p[2])
	sharedSrc, progs := p[3], p[4:]
	ctx := arraictx.InitRunCtx(context.Background())

	build := func() (rel.Value, []rel.Expr, string) {
		sv, err := syntax.EvaluateExpr(ctx, "", sharedSrc)
		if err != nil {
			return nil, nil, "shared-error"
		}
		exprs := make([]rel.Expr, len(progs))
		for i, src := range progs {
			e, err := syntax.Compile(ctx, "", src)
			if err != nil {
				return nil, nil, "compile-error:" + strconv.Itoa(i)
			}
			exprs[i] = e
		}
		return sv, exprs, ""
	}

	// serial reference, on private copies
	sv, exprs, bad := build()
	if bad != "" {
		return bad
	}
	serial := make([]string, len(progs))
	for i, e := range exprs {
		serial[i] = evalIn(ctx, e, sv)
	}

	// concurrent run on fresh shared copies: every lazy cache inside them is still cold
	sv, exprs, bad = build()
	if bad != "" {
		return bad
	}
	var (
		mu       sync.Mutex
		mismatch []string
		wg       sync.WaitGroup
		release  = make(chan struct{})
	)
	for g := 0; g < n; g++ {
		wg.Add(1)
		go func(g int) {
			defer wg.Done()
			<-release
			for it := 0; it < iters; it++ {
				for k := range exprs {
					i := (g + k + it) % len(exprs)
					got := evalIn(ctx, exprs[i], sv)
					if got != serial[i] {
						mu.Lock()
						mismatch = append(mismatch, fmt.Sprintf("mismatch:p%d:%s", i, clip(got)))
						mu.Unlock()
					}
				}
			}
		}(g)
	}
	close(release)
	wg.Wait()
	if len(mismatch) > 0 {
		sort.Strings(mismatch)
		return mismatch[0]
	}
	return strings.Join(serial, " ; ")
}

func first(p []string) string {
	if len(p) < 3 {
		return "harness-error:first-arity"
	}
	defer bracket(p[0])()
	n, _ := strconv.Atoi(p[1])
	results := make([]string, n)
	var wg sync.WaitGroup
	release := make(chan struct{})
	for g := 0; g < n; g++ {
		wg.Add(1)
		go func(g int) {
			defer wg.Done()
			defer func() {
				if r := recover(); r != nil {
					results[g] = "panic:" + hlib.FirstFrame() + ":" + strings.SplitN(fmt.Sprint(r), "\n", 2)[0]
				}
			}()
			<-release
			v, err := hlib.EvalSrc(p[2])
			if err != nil {
				results[g] = "error"
				return
			}
			results[g] = hlib.Canon(v)
		}(g)
	}
	close(release)
	wg.Wait()
	for g := 1; g < n; g++ {
		if results[g] != results[0] {
			return "mismatch:" + clip(results[0]) + " vs " + clip(results[g])
		}
	}
	return results[0]
}

func clip(s string) string {
	if len(s) > 120 {
		return s[:120] + "…"
	}
	return s
}

func impc(p []string) string {
	if len(p) < 3 {
		return "harness-error:impc-arity"
	}
	defer bracket(p[0])()
	var keys []int
	for _, k := range strings.Split(p[1], ",") {
		if k == "" {
			continue
		}
		n, _ := strconv.Atoi(k)
		keys = append(keys, n)
	}
	scripts := map[int]string{}
	for _, kv := range strings.Split(p[2], ";") {
		if i := strings.Index(kv, "="); i > 0 {
			n, _ := strconv.Atoi(kv[:i])
			scripts[n] = kv[i+1:]
		}
	}
	ctx := importcache.WithNewImportCache(context.Background())
	attempts := map[int]*int32{}
	for _, k := range keys {
		if attempts[k] == nil {
			attempts[k] = new(int32)
		}
	}
	results := make([]string, len(keys))
	var progress int64 // bumped whenever an add call starts or ends and whenever a caller returns
	done := make(chan int, len(keys))
	release := make(chan struct{})
	for c, k := range keys {
		go func(c, k int) {
			<-release
			mine := -1
			v, err := importcache.GetOrAddFromCache(ctx, "key"+strconv.Itoa(k), func() (rel.Expr, error) {
				i := int(atomic.AddInt32(attempts[k], 1)) - 1
				mine = i
				atomic.AddInt64(&progress, 1)
				defer atomic.AddInt64(&progress, 1)
				time.Sleep(300 * time.Microsecond) // give the other callers time to queue up behind the in-flight marker
				o := byte('v')
				if s := scripts[k]; i < len(s) {
					o = s[i]
				}
				switch o {
				case 'e':
					return nil, fmt.Errorf("add %d of key %d failed", i, k)
				case 'n':
					return nil, nil
				}
				return rel.NewNumber(float64(i)), nil
			})
			switch {
			case err != nil:
				results[c] = "e" + strconv.Itoa(mine)
			case v == nil:
				results[c] = "nil"
			default:
				results[c] = "v" + hlib.Canon(v.(rel.Value))
			}
			done <- c
		}(c, k)
	}
	close(release)
	// A lost wake-up leaves callers asleep for ever.  It is told apart from a slow (overloaded) machine by
	// progress: as long as add calls start or finish, or callers return, nobody is declared stuck.
	returned := 0
	last, idle := atomic.LoadInt64(&progress), 0
	tick := time.NewTicker(500 * time.Millisecond)
	defer tick.Stop()
	for returned < len(keys) {
		select {
		case <-done:
			returned++
			idle = 0
		case <-tick.C:
			if now := atomic.LoadInt64(&progress); now != last {
				last, idle = now, 0
			} else if idle++; idle >= 16 {
				return "hang:" + strconv.Itoa(len(keys)-returned)
			}
		}
	}
	per := map[int][]string{}
	for c, k := range keys {
		per[k] = append(per[k], results[c])
	}
	ks := make([]int, 0, len(per))
	for k := range per {
		ks = append(ks, k)
	}
	sort.Ints(ks)
	parts := []string{}
	for _, k := range ks {
		sort.Strings(per[k])
		parts = append(parts, strconv.Itoa(k)+":["+strings.Join(per[k], ",")+"]")
	}
	return strings.Join(parts, ";")
}

func impx(p []string) string {
	if len(p) < 1 {
		return "harness-error:impx-arity"
	}
	defer bracket(p[0])()
	ctx := importcache.WithNewImportCache(context.Background())
	var inflight sync.WaitGroup
	inflight.Add(2)
	done := make(chan struct{}, 2)
	call := func(mine, other string) {
		_, _ = importcache.GetOrAddFromCache(ctx, mine, func() (rel.Expr, error) {
			inflight.Done()
			inflight.Wait() // both keys carry the in-flight marker now
			return importcache.GetOrAddFromCache(ctx, other, func() (rel.Expr, error) { return rel.NewNumber(1), nil })
		})
		done <- struct{}{}
	}
	go call("a", "b")
	go call("b", "a")
	returned := 0
	timeout := time.After(2 * time.Second)
	for returned < 2 {
		select {
		case <-done:
			returned++
		case <-timeout:
			return "hang:" + strconv.Itoa(2-returned)
		}
	}
	return "returned"
}

func init() {
	hlib.Register("conc", conc)
	hlib.Register("first", first)
	hlib.Register("impc", impc)
	hlib.Register("impx", impx)
}

func main() { hlib.Main() }
