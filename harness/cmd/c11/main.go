// harness for C11 (concurrent evaluation is race-free and gives serial results).
//
//	conc  label, N, iterations, shared-value source, program…
//	      The shared value is built once and bound to `s`; every program is compiled once.  First a single
//	      goroutine evaluates the programs over a private copy of the shared value (the serial results).  Then N
//	      goroutines, released together, evaluate the SAME compiled expressions over the SAME shared value (so the
//	      first use of every lazily initialised cache inside it happens concurrently) `iterations` times, each
//	      in a rotated order, and canonicalise what they get.
//	      observable: the serial results joined by " ; " if every goroutine got them, else the first mismatch.
//	fresh label, N, stdin chunks (hex, '|' separated, may be empty), warm-up program (may be empty), program
//	      Concurrent FIRST use in a fresh process.  The harness starts itself as a child process (C11_CHILD=1)
//	      whose stdin is a pipe; the child releases N goroutines together, each compiles and evaluates the program
//	      from source — so every lazily initialised piece of state behind it is cold: the standard-library scope,
//	      FixFuncs, the embedded-file cache, the implicit decoder and import cache (programs may import ./d.json
//	      and ./m.arrai, which the child creates in a temporary module), and stdin's read-once (`//os.stdin`).
//	      With a warm-up program every goroutine first evaluates that and waits for the others, so that all of them
//	      reach the program proper within microseconds of each other (used for `//os.stdin`: all goroutines must be
//	      inside the first read before any input arrives).  Once the child reports that the goroutines are released,
//	      the parent writes the chunks to the pipe with small delays and closes it.  A second child with ONE goroutine gives the serial result (skipped under the
//	      race detector, where start-up takes half a minute: the goroutines are then compared with each other and
//	      ./check compares with the specified result).
//	      observable: the serial result if every goroutine got exactly it, else the first differing result.
//	impc  label, keys of the callers (comma separated), per-key outcome scripts of add ("k=evn…", ';' separated)
//	      N goroutines call importcache.GetOrAddFromCache on one shared cache; the i-th call of add for a key
//	      returns a value (v), an error (e) or (nil, nil) (n) as scripted (v after the script ends).
//	      observable: per key the sorted results of its callers (v<i> / e<i> / nil, i = attempt number), or
//	      hang:<callers stuck> if for 8 s no caller returned and no add call started or finished.
//	impx  label
//	      the cross-wait of known finding KF-import-cross-wait, forced: caller A adds key a and, inside add, asks
//	      for key b; caller B adds key b and, inside add, asks for key a; both adds wait until both keys are in
//	      flight.  observable: "returned" if both callers come back (with a value or an error), else hang:<n>.
//
// With C11_MARK=1 every operation brackets its work by "@@C11 begin/end <label>" lines on stderr, so that the
// race detector's reports (also on stderr) can be attributed to the case that was running.
//
// It is deliberately dumb: run, canonicalise, print.
package main

import (
	"bufio"
	"context"
	"encoding/hex"
	"fmt"
	"os"
	"os/exec"
	"path/filepath"
	"sort"
	"strconv"
	"strings"
	"sync"
	"sync/atomic"
	"time"

	"github.com/arr-ai/arrai/pkg/arraictx"
	"github.com/arr-ai/arrai/pkg/importcache"
	"github.com/arr-ai/arrai/rel"
	"github.com/arr-ai/arrai/syntax"

	"verif/harness/hlib"
)

var mark = os.Getenv("C11_MARK") == "1"

func bracket(label string) func() {
	if !mark {
		return func() {}
	}
	fmt.Fprintf(os.Stderr, "@@C11 begin %s\n", label)
	return func() { fmt.Fprintf(os.Stderr, "@@C11 end %s\n", label) }
}

func evalIn(ctx context.Context, e rel.Expr, shared rel.Value) (out string) {
	defer func() {
		if p := recover(); p != nil {
			out = "panic:" + hlib.FirstFrame() + ":" + strings.SplitN(fmt.Sprint(p), "\n", 2)[0]
		}
	}()
	v, err := e.Eval(ctx, rel.EmptyScope.With("s", shared))
	if err != nil {
		return "error"
	}
	return hlib.Canon(v)
}

func conc(p []string) string {
	if len(p) < 5 {
		return "harness-error:conc-arity"
	}
	defer bracket(p[0])()
	n, _ := strconv.Atoi(p[1])
	iters, _ := strconv.Atoi(p[2])
	sharedSrc, progs := p[3], p[4:]
	ctx := arraictx.InitRunCtx(context.Background())

	build := func() (rel.Value, []rel.Expr, string) {
		sv, err := syntax.EvaluateExpr(ctx, "", sharedSrc)
		if err != nil {
			return nil, nil, "shared-error"
		}
		exprs := make([]rel.Expr, len(progs))
		for i, src := range progs {
			e, err := syntax.Compile(ctx, "", src)
			if err != nil {
				return nil, nil, "compile-error:" + strconv.Itoa(i)
			}
			exprs[i] = e
		}
		return sv, exprs, ""
	}

	// serial reference, on private copies
	sv, exprs, bad := build()
	if bad != "" {
		return bad
	}
	serial := make([]string, len(progs))
	for i, e := range exprs {
		serial[i] = evalIn(ctx, e, sv)
	}

	// concurrent run on fresh shared copies: every lazy cache inside them is still cold
	sv, exprs, bad = build()
	if bad != "" {
		return bad
	}
	var (
		mu       sync.Mutex
		mismatch []string
		wg       sync.WaitGroup
		release  = make(chan struct{})
	)
	for g := 0; g < n; g++ {
		wg.Add(1)
		go func(g int) {
			defer wg.Done()
			<-release
			for it := 0; it < iters; it++ {
				for k := range exprs {
					i := (g + k + it) % len(exprs)
					got := evalIn(ctx, exprs[i], sv)
					if got != serial[i] {
						mu.Lock()
						mismatch = append(mismatch, fmt.Sprintf("mismatch:p%d:%s", i, clip(got)))
						mu.Unlock()
					}
				}
			}
		}(g)
	}
	close(release)
	wg.Wait()
	if len(mismatch) > 0 {
		sort.Strings(mismatch)
		return mismatch[0]
	}
	return strings.Join(serial, " ; ")
}

// ---- fresh: concurrent first use in a child process

func childMain() {
	n, _ := strconv.Atoi(os.Getenv("C11_CHILD_N"))
	src, warm := os.Getenv("C11_CHILD_SRC"), os.Getenv("C11_CHILD_WARM")
	dir, err := os.MkdirTemp("", "c11child")
	if err != nil {
		fmt.Println("r\tharness-error:tempdir")
		return
	}
	defer os.RemoveAll(dir)
	_ = os.WriteFile(filepath.Join(dir, "go.mod"), []byte("module c11child\n"), 0o600)
	_ = os.WriteFile(filepath.Join(dir, "d.json"), []byte(`{"a": [1, 2], "b": 3}`), 0o600)
	_ = os.WriteFile(filepath.Join(dir, "m.arrai"), []byte("(x: 1, y: {2, 3})"), 0o600)
	results := make([]string, n)
	var wg, warmed sync.WaitGroup
	release, release2 := make(chan struct{}), make(chan struct{})
	ctx := arraictx.InitRunCtx(context.Background())
	for g := 0; g < n; g++ {
		wg.Add(1)
		warmed.Add(1)
		go func(g int) {
			defer wg.Done()
			defer func() {
				if r := recover(); r != nil {
					results[g] = "panic:" + hlib.FirstFrame() + ":" + strings.SplitN(fmt.Sprint(r), "\n", 2)[0]
				}
			}()
			<-release
			if warm != "" {
				_, _ = syntax.EvaluateExpr(ctx, filepath.Join(dir, "warm.arrai"), warm)
			}
			warmed.Done()
			<-release2
			v, err := syntax.EvaluateExpr(ctx, filepath.Join(dir, "main.arrai"), src)
			if err != nil {
				results[g] = "error"
				return
			}
			results[g] = hlib.Canon(v)
		}(g)
	}
	close(release)
	warmed.Wait()
	close(release2)
	fmt.Println("ready")
	wg.Wait()
	for _, r := range results {
		fmt.Println("r\t" + strings.NewReplacer("\\", "\\\\", "\n", "\\n", "\t", "\\t").Replace(r))
	}
}

// runChild starts the harness as a child, feeds its stdin in chunks once it is ready, and returns the goroutines' results.
func runChild(n int, chunks [][]byte, warm, src string) ([]string, string) {
	exe, err := os.Executable()
	if err != nil {
		return nil, "harness-error:executable"
	}
	cmd := exec.Command(exe)
	cmd.Env = append(os.Environ(), "C11_CHILD=1", "C11_CHILD_N="+strconv.Itoa(n), "C11_CHILD_SRC="+src, "C11_CHILD_WARM="+warm)
	cmd.Stderr = os.Stderr
	in, err := cmd.StdinPipe()
	if err != nil {
		return nil, "harness-error:stdin-pipe"
	}
	out, err := cmd.StdoutPipe()
	if err != nil {
		return nil, "harness-error:stdout-pipe"
	}
	if err := cmd.Start(); err != nil {
		return nil, "harness-error:start"
	}
	timer := time.AfterFunc(10*time.Minute, func() { _ = cmd.Process.Kill() })
	defer timer.Stop()
	var results []string
	sc := bufio.NewScanner(out)
	sc.Buffer(make([]byte, 1<<20), 1<<26)
	for sc.Scan() {
		line := sc.Text()
		switch {
		case line == "ready":
			go func() {
				if len(chunks) > 0 {
					time.Sleep(40 * time.Millisecond) // let every goroutine reach its read of the pipe
				}
				for _, c := range chunks {
					time.Sleep(3 * time.Millisecond)
					if _, err := in.Write(c); err != nil {
						break
					}
				}
				time.Sleep(2 * time.Millisecond)
				_ = in.Close()
			}()
		case strings.HasPrefix(line, "r\t"):
			results = append(results, strings.NewReplacer("\\\\", "\\", "\\n", "\n", "\\t", "\t").Replace(line[2:]))
		}
	}
	if err := cmd.Wait(); err != nil && len(results) != n {
		return results, "child-failed:" + clip(err.Error())
	}
	if len(results) != n {
		return results, "child-incomplete:" + strconv.Itoa(len(results))
	}
	return results, ""
}

func fresh(p []string) string {
	if len(p) < 5 {
		return "harness-error:fresh-arity"
	}
	defer bracket(p[0])()
	n, _ := strconv.Atoi(p[1])
	var chunks [][]byte
	for _, h := range strings.Split(p[2], "|") {
		if h == "" {
			continue
		}
		b, err := hex.DecodeString(h)
		if err != nil {
			return "harness-error:hex"
		}
		chunks = append(chunks, b)
	}
	got, bad := runChild(n, chunks, p[3], p[4])
	if bad != "" {
		return bad
	}
	want := got[0]
	if !mark { // not under the race detector: a second fresh process, one goroutine, gives the serial result
		serial, bad := runChild(1, chunks, p[3], p[4])
		if bad != "" {
			return "serial-" + bad
		}
		want = serial[0]
	}
	for _, r := range got {
		if r != want {
			return "mismatch:" + clip(r) + " instead of " + clip(want)
		}
	}
	return want
}

func clip(s string) string {
	if len(s) > 120 {
		return s[:120] + "…"
	}
	return s
}

func impc(p []string) string {
	if len(p) < 3 {
		return "harness-error:impc-arity"
	}
	defer bracket(p[0])()
	var keys []int
	for _, k := range strings.Split(p[1], ",") {
		if k == "" {
			continue
		}
		n, _ := strconv.Atoi(k)
		keys = append(keys, n)
	}
	scripts := map[int]string{}
	for _, kv := range strings.Split(p[2], ";") {
		if i := strings.Index(kv, "="); i > 0 {
			n, _ := strconv.Atoi(kv[:i])
			scripts[n] = kv[i+1:]
		}
	}
	ctx := importcache.WithNewImportCache(context.Background())
	attempts := map[int]*int32{}
	for _, k := range keys {
		if attempts[k] == nil {
			attempts[k] = new(int32)
		}
	}
	results := make([]string, len(keys))
	var progress int64 // bumped whenever an add call starts or ends and whenever a caller returns
	done := make(chan int, len(keys))
	release := make(chan struct{})
	for c, k := range keys {
		go func(c, k int) {
			<-release
			mine := -1
			v, err := importcache.GetOrAddFromCache(ctx, "key"+strconv.Itoa(k), func() (rel.Expr, error) {
				i := int(atomic.AddInt32(attempts[k], 1)) - 1
				mine = i
				atomic.AddInt64(&progress, 1)
				defer atomic.AddInt64(&progress, 1)
				time.Sleep(300 * time.Microsecond) // give the other callers time to queue up behind the in-flight marker
				o := byte('v')
				if s := scripts[k]; i < len(s) {
					o = s[i]
				}
				switch o {
				case 'e':
					return nil, fmt.Errorf("add %d of key %d failed", i, k)
				case 'n':
					return nil, nil
				}
				return rel.NewNumber(float64(i)), nil
			})
			switch {
			case err != nil:
				results[c] = "e" + strconv.Itoa(mine)
			case v == nil:
				results[c] = "nil"
			default:
				results[c] = "v" + hlib.Canon(v.(rel.Value))
			}
			done <- c
		}(c, k)
	}
	close(release)
	// A lost wake-up leaves callers asleep for ever.  It is told apart from a slow (overloaded) machine by
	// progress: as long as add calls start or finish, or callers return, nobody is declared stuck.
	returned := 0
	last, idle := atomic.LoadInt64(&progress), 0
	tick := time.NewTicker(500 * time.Millisecond)
	defer tick.Stop()
	for returned < len(keys) {
		select {
		case <-done:
			returned++
			idle = 0
		case <-tick.C:
			if now := atomic.LoadInt64(&progress); now != last {
				last, idle = now, 0
			} else if idle++; idle >= 16 {
				return "hang:" + strconv.Itoa(len(keys)-returned)
			}
		}
	}
	per := map[int][]string{}
	for c, k := range keys {
		per[k] = append(per[k], results[c])
	}
	ks := make([]int, 0, len(per))
	for k := range per {
		ks = append(ks, k)
	}
	sort.Ints(ks)
	parts := []string{}
	for _, k := range ks {
		sort.Strings(per[k])
		parts = append(parts, strconv.Itoa(k)+":["+strings.Join(per[k], ",")+"]")
	}
	return strings.Join(parts, ";")
}

func impx(p []string) string {
	if len(p) < 1 {
		return "harness-error:impx-arity"
	}
	defer bracket(p[0])()
	ctx := importcache.WithNewImportCache(context.Background())
	var inflight sync.WaitGroup
	inflight.Add(2)
	done := make(chan struct{}, 2)
	call := func(mine, other string) {
		_, _ = importcache.GetOrAddFromCache(ctx, mine, func() (rel.Expr, error) {
			inflight.Done()
			inflight.Wait() // both keys carry the in-flight marker now
			return importcache.GetOrAddFromCache(ctx, other, func() (rel.Expr, error) { return rel.NewNumber(1), nil })
		})
		done <- struct{}{}
	}
	go call("a", "b")
	go call("b", "a")
	returned := 0
	timeout := time.After(2 * time.Second)
	for returned < 2 {
		select {
		case <-done:
			returned++
		case <-timeout:
			return "hang:" + strconv.Itoa(2-returned)
		}
	}
	return "returned"
}

func init() {
	hlib.Register("conc", conc)
	hlib.Register("fresh", fresh)
	hlib.Register("impc", impc)
	hlib.Register("impx", impx)
}

func main() {
	if os.Getenv("C11_CHILD") != "" {
		childMain()
		return
	}
	hlib.Main()
}
