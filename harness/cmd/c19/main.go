// harness for C19: `--out` writes exactly the described tree, or changes nothing.
//
// op "out": payload = [arr.ai source of the result value, --out flag value, initial tree, fault indices]
//   initial tree : ";"-separated entries  D<abs path>  |  F<abs path>=<hex bytes>
//   fault indices: ","-separated 0-based indices of file-system calls that must fail ("" = none)
//   observable   : <ok|error>|<snapshot>            when no fault fired
//                  error|fault                      when a fault fired and the command failed
//                  ok|fault-swallowed|<snapshot>    when a fault fired and the command reported success
//   The real code runs on an afero MemMapFs behind two thin layers: strictFs (POSIX preconditions of
//   Mkdir/Create that MemMapFs lacks) and faultFs (fails the k-th call).
//   snapshot     : every path of the MemMapFs except the root, sorted, same entry syntax as the initial tree
//                  (an entry whose parent is missing or is not a directory is prefixed with "!orphan:")
package main

import (
	"context"
	"encoding/hex"
	"errors"
	"os"
	"path"
	"reflect"
	"sort"
	"strconv"
	"strings"
	"time"

	"github.com/spf13/afero"

	"github.com/arr-ai/arrai/pkg/arrai"
	"github.com/arr-ai/arrai/pkg/ctxfs"
	"github.com/arr-ai/arrai/syntax"

	"verif/harness/hlib"
)

var errInjected = errors.New("injected I/O error")

// faultFs fails the k-th call (for every k in faults) of any Fs or File operation, before it has any effect.
type faultFs struct {
	base   afero.Fs
	n      int
	faults map[int]bool
	fired  bool
}

func (f *faultFs) tick() error {
	k := f.n
	f.n++
	if f.faults[k] {
		f.fired = true
		return errInjected
	}
	return nil
}

func (f *faultFs) Name() string { return "faultFs" }
func (f *faultFs) Create(name string) (afero.File, error) {
	if err := f.tick(); err != nil {
		return nil, err
	}
	file, err := f.base.Create(name)
	if err != nil {
		return nil, err
	}
	return &faultFile{File: file, fs: f}, nil
}
func (f *faultFs) Mkdir(name string, perm os.FileMode) error {
	if err := f.tick(); err != nil {
		return err
	}
	return f.base.Mkdir(name, perm)
}
func (f *faultFs) MkdirAll(p string, perm os.FileMode) error {
	if err := f.tick(); err != nil {
		return err
	}
	return f.base.MkdirAll(p, perm)
}
func (f *faultFs) Open(name string) (afero.File, error) {
	if err := f.tick(); err != nil {
		return nil, err
	}
	file, err := f.base.Open(name)
	if err != nil {
		return nil, err
	}
	return &faultFile{File: file, fs: f}, nil
}
func (f *faultFs) OpenFile(name string, flag int, perm os.FileMode) (afero.File, error) {
	if err := f.tick(); err != nil {
		return nil, err
	}
	file, err := f.base.OpenFile(name, flag, perm)
	if err != nil {
		return nil, err
	}
	return &faultFile{File: file, fs: f}, nil
}
func (f *faultFs) Remove(name string) error {
	if err := f.tick(); err != nil {
		return err
	}
	return f.base.Remove(name)
}
func (f *faultFs) RemoveAll(p string) error {
	if err := f.tick(); err != nil {
		return err
	}
	return f.base.RemoveAll(p)
}
func (f *faultFs) Rename(o, n string) error {
	if err := f.tick(); err != nil {
		return err
	}
	return f.base.Rename(o, n)
}
func (f *faultFs) Stat(name string) (os.FileInfo, error) {
	if err := f.tick(); err != nil {
		return nil, err
	}
	return f.base.Stat(name)
}
func (f *faultFs) Chmod(name string, mode os.FileMode) error {
	if err := f.tick(); err != nil {
		return err
	}
	return f.base.Chmod(name, mode)
}
func (f *faultFs) Chtimes(name string, a, m time.Time) error {
	if err := f.tick(); err != nil {
		return err
	}
	return f.base.Chtimes(name, a, m)
}

type faultFile struct {
	afero.File
	fs *faultFs
}

func (f *faultFile) Write(b []byte) (int, error) {
	if err := f.fs.tick(); err != nil {
		return 0, err
	}
	return f.File.Write(b)
}
func (f *faultFile) WriteString(s string) (int, error) {
	if err := f.fs.tick(); err != nil {
		return 0, err
	}
	return f.File.WriteString(s)
}
func (f *faultFile) WriteAt(b []byte, off int64) (int, error) {
	if err := f.fs.tick(); err != nil {
		return 0, err
	}
	return f.File.WriteAt(b, off)
}
func (f *faultFile) Truncate(n int64) error {
	if err := f.fs.tick(); err != nil {
		return err
	}
	return f.File.Truncate(n)
}
func (f *faultFile) Sync() error {
	if err := f.fs.tick(); err != nil {
		return err
	}
	return f.File.Sync()
}
func (f *faultFile) Close() error {
	if err := f.fs.tick(); err != nil {
		f.File.Close() // release the handle; the caller only sees the injected error
		return err
	}
	return f.File.Close()
}

// strictFs adds to MemMapFs the preconditions a real file system enforces and MemMapFs does not:
// Mkdir and Create need an existing parent directory, Create refuses to overwrite a directory.
// (MemMapFs creates missing parents implicitly and lets Create replace a directory, orphaning its content.)
type strictFs struct{ afero.Fs }

func (s strictFs) parentIsDir(name string) error {
	fi, err := s.Fs.Stat(path.Dir(path.Clean(name)))
	if err != nil {
		return &os.PathError{Op: "open", Path: name, Err: os.ErrNotExist}
	}
	if !fi.IsDir() {
		return &os.PathError{Op: "open", Path: name, Err: errors.New("not a directory")}
	}
	return nil
}
func (s strictFs) Mkdir(name string, perm os.FileMode) error {
	if err := s.parentIsDir(name); err != nil {
		return err
	}
	return s.Fs.Mkdir(name, perm)
}
func (s strictFs) Create(name string) (afero.File, error) {
	if err := s.parentIsDir(name); err != nil {
		return nil, err
	}
	if fi, err := s.Fs.Stat(name); err == nil && fi.IsDir() {
		return nil, &os.PathError{Op: "open", Path: name, Err: errors.New("is a directory")}
	}
	return s.Fs.Create(name)
}

func buildFs(tree string) (afero.Fs, error) {
	fs := afero.NewMemMapFs()
	if tree == "" {
		return fs, nil
	}
	for _, e := range strings.Split(tree, ";") {
		if e == "" {
			continue
		}
		switch e[0] {
		case 'D':
			if err := fs.MkdirAll(e[1:], 0755); err != nil {
				return nil, err
			}
		case 'F':
			i := strings.Index(e, "=")
			if i < 0 {
				return nil, errors.New("bad tree entry " + e)
			}
			b, err := hex.DecodeString(e[i+1:])
			if err != nil {
				return nil, err
			}
			if err := afero.WriteFile(fs, e[1:i], b, 0644); err != nil {
				return nil, err
			}
		default:
			return nil, errors.New("bad tree entry " + e)
		}
	}
	return fs, nil
}

// snapshot lists every path the MemMapFs holds (read from its map, so entries that a directory
// walk would not reach are listed too).
func snapshot(fs afero.Fs) string {
	keys := []string{}
	data := reflect.ValueOf(fs).Elem().FieldByName("data")
	if data.IsValid() && data.Kind() == reflect.Map {
		for _, k := range data.MapKeys() {
			keys = append(keys, k.String())
		}
	}
	sort.Strings(keys)
	isDir := map[string]bool{"/": true}
	for _, k := range keys {
		if fi, err := fs.Stat(k); err == nil && fi.IsDir() {
			isDir[k] = true
		}
	}
	out := []string{}
	for _, k := range keys {
		if k == "/" {
			continue
		}
		var e string
		if isDir[k] {
			e = "D" + k
		} else {
			b, err := afero.ReadFile(fs, k)
			if err != nil {
				e = "F" + k + "=!unreadable"
			} else {
				e = "F" + k + "=" + hex.EncodeToString(b)
			}
		}
		if !isDir[path.Dir(k)] {
			e = "!orphan:" + e
		}
		out = append(out, e)
	}
	sort.Strings(out)
	return strings.Join(out, ";")
}

func runOut(p []string) string {
	if len(p) < 4 {
		return "harness-error:payload"
	}
	src, outFlag, tree, faultSpec := p[0], p[1], p[2], p[3]
	base, err := buildFs(tree)
	if err != nil {
		return "harness-error:tree:" + err.Error()
	}
	ffs := &faultFs{base: strictFs{base}, faults: map[int]bool{}}
	if faultSpec != "" {
		for _, s := range strings.Split(faultSpec, ",") {
			k, err := strconv.Atoi(s)
			if err != nil {
				return "harness-error:faults"
			}
			ffs.faults[k] = true
		}
	}
	ctx := ctxfs.RuntimeFsOnto(hlib.NewCtx(), afero.Fs(ffs))
	val, err := syntax.EvaluateExpr(ctx, "", src)
	if err != nil {
		return "harness-error:eval:" + strings.SplitN(err.Error(), "\n", 2)[0]
	}
	err = arrai.OutputValue(context.Context(ctx), val, nil, outFlag)
	outcome := "ok"
	if err != nil {
		outcome = "error"
	}
	if ffs.fired {
		if err != nil {
			return "error|fault"
		}
		return "ok|fault-swallowed|" + snapshot(base)
	}
	return outcome + "|" + snapshot(base)
}

func init() { hlib.Register("out", runOut) }

func main() { hlib.Main() }
