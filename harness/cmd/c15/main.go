// harness for C15: evaluate a script from its source tree, bundle it, run the bundle.
//
// Operation
//
//	bundle payload: cwd1, cwd2, mainArg, path1, content1, path2, content2, …
//	  cwd1, cwd2  two existing working directories (created at start: /tmp/vc15/w1, /tmp/vc15/w1/sub/w2)
//	  mainArg     the main script as given on the command line (absolute, or relative to cwd1)
//	  files       the source tree (absolute paths) for an afero.MemMapFs
//	  steps       (1) in cwd1: evaluate mainArg over the source tree (as `arrai run` does)
//	              (2) in cwd1: bundle.BundledScripts (as `arrai bundle` does)
//	              (3) in cwd1 and in cwd2: syntax.EvaluateBundleCtx over the bytes, with the source file
//	                  system replaced by an EMPTY recording file system
//	  observable  src=<canon|error>|bundle=<ok|error>|run1=<canon|error|panic>|run2=…|outside=<paths read
//	              outside the archive>|zip=<sorted entries of the archive>
//
// The working directory is process-wide state: run with HARNESS_WORKERS=1.
package main

import (
	"archive/zip"
	"bytes"
	"os"
	"path/filepath"
	"sort"
	"strings"
	"sync"

	"github.com/spf13/afero"

	"github.com/arr-ai/arrai/pkg/bundle"
	"github.com/arr-ai/arrai/pkg/ctxfs"
	"github.com/arr-ai/arrai/rel"
	"github.com/arr-ai/arrai/syntax"

	"verif/harness/hlib"
)

var dirs = []string{"/tmp/vc15/w1", "/tmp/vc15/w1/sub/w2"}

var initErr error

// recFs records the names handed to Open/OpenFile/Stat (absolute, cleaned).
type recFs struct {
	afero.Fs
	mu   sync.Mutex
	seen map[string]bool
}

func (r *recFs) note(name string) {
	abs, err := filepath.Abs(name)
	if err != nil {
		abs = "abs-error:" + name
	}
	r.mu.Lock()
	r.seen[abs] = true
	r.mu.Unlock()
}

func (r *recFs) Open(name string) (afero.File, error) {
	r.note(name)
	return r.Fs.Open(name)
}

func (r *recFs) OpenFile(name string, flag int, perm os.FileMode) (afero.File, error) {
	r.note(name)
	return r.Fs.OpenFile(name, flag, perm)
}

func (r *recFs) Stat(name string) (os.FileInfo, error) {
	r.note(name)
	return r.Fs.Stat(name)
}

func (r *recFs) list() []string {
	r.mu.Lock()
	defer r.mu.Unlock()
	out := make([]string, 0, len(r.seen))
	for p := range r.seen {
		out = append(out, p)
	}
	sort.Strings(out)
	return out
}

func outcome(v rel.Value, err error) string {
	if err != nil {
		return "error"
	}
	return hlib.Canon(v)
}

func runBundle(buf []byte, outside map[string]bool) (res string) {
	defer func() {
		if p := recover(); p != nil {
			res = "panic"
		}
	}()
	empty := &recFs{Fs: afero.NewMemMapFs(), seen: map[string]bool{}}
	ctx := ctxfs.SourceFsOnto(hlib.NewCtx(), empty)
	ctx = ctxfs.RuntimeFsOnto(ctx, empty)
	v, err := syntax.EvaluateBundleCtx(ctx, buf)
	for _, p := range empty.list() {
		outside[p] = true
	}
	return outcome(v, err)
}

func init() {
	for _, d := range dirs {
		if err := os.MkdirAll(d, 0o755); err != nil {
			initErr = err
		}
	}

	hlib.Register("bundle", func(p []string) string {
		if initErr != nil {
			return "harness-error:" + initErr.Error()
		}
		cwd1, cwd2, mainArg := p[0], p[1], p[2]
		mem := afero.NewMemMapFs()
		for i := 3; i+1 < len(p); i += 2 {
			if err := afero.WriteFile(mem, p[i], []byte(p[i+1]), 0o644); err != nil {
				return "harness-error:" + err.Error()
			}
		}
		if err := os.Chdir(cwd1); err != nil {
			return "harness-error:" + err.Error()
		}
		// (1) from source
		var src string
		{
			ctx := ctxfs.SourceFsOnto(hlib.NewCtx(), mem)
			buf, err := afero.ReadFile(mem, mainArg)
			if err != nil {
				src = "error"
			} else {
				src = outcome(syntax.EvaluateExpr(ctx, mainArg, string(buf)))
			}
		}
		// (2) bundle
		var zbuf bytes.Buffer
		bctx := ctxfs.SourceFsOnto(hlib.NewCtx(), mem)
		if err := bundle.BundledScripts(bctx, mainArg, &zbuf); err != nil {
			return "src=" + src + "|bundle=error|run1=error|run2=error|outside=|zip="
		}
		names := []string{}
		if zr, err := zip.NewReader(bytes.NewReader(zbuf.Bytes()), int64(zbuf.Len())); err == nil {
			for _, f := range zr.File {
				names = append(names, f.Name)
			}
		} else {
			names = append(names, "unreadable")
		}
		sort.Strings(names)
		// (3) run the bundle from two working directories
		outside := map[string]bool{}
		run1 := runBundle(zbuf.Bytes(), outside)
		run2 := "harness-error:chdir"
		if err := os.Chdir(cwd2); err == nil {
			run2 = runBundle(zbuf.Bytes(), outside)
		}
		outs := make([]string, 0, len(outside))
		for o := range outside {
			outs = append(outs, o)
		}
		sort.Strings(outs)
		return "src=" + src + "|bundle=ok|run1=" + run1 + "|run2=" + run2 + "|outside=" + strings.Join(outs, ",") +
			"|zip=" + strings.Join(names, ",")
	})
}

func main() { hlib.Main() }
