// harness for C13 (data codecs).  Besides the shared "eval" operation:
//
//	law     payload[0] = arr.ai source evaluating to a tuple (l: x, r: y)
//	        -> "ok" when Canon(x) == Canon(y), "diff:<x>|<y>" otherwise, "error" on an evaluation error.
//	        Used for implementation-side laws that need no model (float stream, //bits on large integers).
//	wire    payload[0] = arr.ai source of a data value v
//	        -> Canon(UnmarshalFromJSON(MarshalToJSON(v))) | "error"   (what an observer receives)
//	wiredoc payload[0] = JSON text
//	        -> Canon(UnmarshalFromJSON(text)) | "error"
//	pin     payload[0] = arr.ai program (typically dec(enc(x))), payload[1] = arr.ai source of the expected value
//	        -> "rejected" when the program is an error, "same" when Canon(result) == Canon(expected)
//	        (NaN is compared as NaN, -0 as 0), "changed:<result>" otherwise.  States laws of the form
//	        "encode(x) is an error or decode(encode(x)) = x" for values outside the Lean model (non-finite numbers).
//	wirenf  payload[0] = arr.ai source of a value -> "rejected" (MarshalToJSON/UnmarshalFromJSON panics or errors),
//	        "same" or "changed:<result>"
package main

import (
	"fmt"

	"github.com/arr-ai/arrai/rel"

	"verif/harness/hlib"
)

func clip(s string) string {
	if len(s) > 300 {
		return s[:300] + "..."
	}
	return s
}

func init() {
	hlib.Register("law", func(p []string) string {
		v, err := hlib.EvalSrc(p[0])
		if err != nil {
			return "error"
		}
		t, ok := v.(rel.Tuple)
		if !ok {
			return "harness-error:not-a-tuple"
		}
		l, hasL := t.Get("l")
		r, hasR := t.Get("r")
		if !hasL || !hasR {
			return "harness-error:no-l-r"
		}
		cl, cr := hlib.Canon(l), hlib.Canon(r)
		if cl == cr {
			return "ok"
		}
		return "diff:" + clip(cl) + "|" + clip(cr)
	})
	hlib.Register("wire", func(p []string) string {
		v, err := hlib.EvalSrc(p[0])
		if err != nil {
			return "harness-error:source:" + err.Error()
		}
		j := rel.MarshalToJSON(v)
		v2, err := rel.UnmarshalFromJSON(j)
		if err != nil {
			return "error"
		}
		return hlib.Canon(v2)
	})
	hlib.Register("wiredoc", func(p []string) string {
		v, err := rel.UnmarshalFromJSON([]byte(p[0]))
		if err != nil {
			return "error"
		}
		return hlib.Canon(v)
	})
}

func init() {
	hlib.Register("pin", func(p []string) string {
		want, err := hlib.EvalSrc(p[1])
		if err != nil {
			return "harness-error:expected:" + err.Error()
		}
		got, err := hlib.EvalSrc(p[0])
		if err != nil {
			return "rejected"
		}
		if hlib.Canon(got) == hlib.Canon(want) {
			return "same"
		}
		return "changed:" + clip(hlib.Canon(got))
	})
	hlib.Register("wirenf", func(p []string) (res string) {
		v, err := hlib.EvalSrc(p[0])
		if err != nil {
			return "harness-error:source:" + err.Error()
		}
		defer func() {
			if r := recover(); r != nil {
				_ = fmt.Sprint(r)
				res = "rejected"
			}
		}()
		v2, err := rel.UnmarshalFromJSON(rel.MarshalToJSON(v))
		if err != nil {
			return "rejected"
		}
		if hlib.Canon(v2) == hlib.Canon(v) {
			return "same"
		}
		return "changed:" + clip(hlib.Canon(v2))
	})
}

func main() { hlib.Main() }
