// harness for C13 (data codecs).  Besides the shared "eval" operation:
//
//	law     payload[0] = arr.ai source evaluating to a tuple (l: x, r: y)
//	        -> "ok" when Canon(x) == Canon(y), "diff:<x>|<y>" otherwise, "error" on an evaluation error.
//	        Used for implementation-side laws that need no model (float stream, //bits on large integers).
//	wire    payload[0] = arr.ai source of a data value v
//	        -> Canon(UnmarshalFromJSON(MarshalToJSON(v))) | "error"   (what an observer receives)
//	wiredoc payload[0] = JSON text
//	        -> Canon(UnmarshalFromJSON(text)) | "error"
package main

import (
	"github.com/arr-ai/arrai/rel"

	"verif/harness/hlib"
)

func clip(s string) string {
	if len(s) > 300 {
		return s[:300] + "..."
	}
	return s
}

func init() {
	hlib.Register("law", func(p []string) string {
		v, err := hlib.EvalSrc(p[0])
		if err != nil {
			return "error"
		}
		t, ok := v.(rel.Tuple)
		if !ok {
			return "harness-error:not-a-tuple"
		}
		l, hasL := t.Get("l")
		r, hasR := t.Get("r")
		if !hasL || !hasR {
			return "harness-error:no-l-r"
		}
		cl, cr := hlib.Canon(l), hlib.Canon(r)
		if cl == cr {
			return "ok"
		}
		return "diff:" + clip(cl) + "|" + clip(cr)
	})
	hlib.Register("wire", func(p []string) string {
		v, err := hlib.EvalSrc(p[0])
		if err != nil {
			return "harness-error:source:" + err.Error()
		}
		j := rel.MarshalToJSON(v)
		v2, err := rel.UnmarshalFromJSON(j)
		if err != nil {
			return "error"
		}
		return hlib.Canon(v2)
	})
	hlib.Register("wiredoc", func(p []string) string {
		v, err := rel.UnmarshalFromJSON([]byte(p[0]))
		if err != nil {
			return "error"
		}
		return hlib.Canon(v)
	})
}

func main() { hlib.Main() }
