package hlib

import (
	"context"
	"math"
	"sort"
	"strconv"
	"strings"

	"github.com/arr-ai/arrai/pkg/arraictx"
	"github.com/arr-ai/arrai/rel"
	"github.com/arr-ai/arrai/syntax"
)

func IsFn(v rel.Value) bool {
	switch v.(type) {
	case rel.Closure, rel.ExprClosure, *rel.NativeFunction:
		return true
	}
	return false
}

func canonNum(f float64) string {
	if f == math.Trunc(f) && math.Abs(f) < 1e15 {
		return strconv.FormatInt(int64(f), 10)
	}
	return strconv.FormatFloat(f, 'g', -1, 64)
}

// Canon computes the denotation of v as text using only Enumerator walks and Go's string sort.
func Canon(v rel.Value) string {
	if v == nil {
		return "<nil>"
	}
	if IsFn(v) {
		return "fn"
	}
	switch v := v.(type) {
	case rel.Number:
		return canonNum(float64(v))
	case rel.Tuple:
		parts := []string{}
		for e := v.Enumerator(); e.MoveNext(); {
			name, val := e.Current()
			parts = append(parts, name+":"+Canon(val))
		}
		sort.Strings(parts)
		return "(" + strings.Join(parts, ",") + ")"
	case rel.Set:
		parts := []string{}
		for e := v.Enumerator(); e.MoveNext(); {
			parts = append(parts, Canon(e.Current()))
		}
		sort.Strings(parts)
		out := parts[:0]
		for i, p := range parts {
			if i == 0 || p != parts[i-1] {
				out = append(out, p)
			}
		}
		return "{" + strings.Join(out, ",") + "}"
	}
	return "<?" + rel.ValueTypeAsString(v) + ">"
}

func NewCtx() context.Context {
	return arraictx.InitRunCtx(context.Background())
}

func EvalSrc(src string) (rel.Value, error) {
	return syntax.EvaluateExpr(NewCtx(), "", src)
}

func init() {
	// eval: payload[0] = arr.ai source; observable = canon(value) | "error"
	Register("eval", func(p []string) string {
		v, err := EvalSrc(p[0])
		if err != nil {
			return "error"
		}
		return Canon(v)
	})
}
