// harness: executes cases produced by the Lean driver against the real arr-ai/arrai code.
//
// stdin : one case per line, tab separated: id, class, kind, stratum, model, spec, payload...
// stdout: one line per case: id <TAB> observable
//
// It is deliberately dumb: execute, canonicalise, print.  Canonicalisation never uses
// arr.ai's own Less/Equal/Count/Has (they are under test).
package hlib

import (
	"bufio"
	"fmt"
	"os"
	"runtime"
	"strconv"
	"strings"
	"sync"
	"time"
)

// Runner executes one case and returns its observable.
type Runner func(payload []string) string

var runners = map[string]Runner{}

// Register adds a harness operation.
func Register(kind string, r Runner) { runners[kind] = r }

func unesc(s string) string {
	if !strings.Contains(s, "\\") {
		return s
	}
	var sb strings.Builder
	for i := 0; i < len(s); i++ {
		if s[i] == '\\' && i+1 < len(s) {
			i++
			switch s[i] {
			case 't':
				sb.WriteByte('\t')
			case 'n':
				sb.WriteByte('\n')
			case 'r':
				sb.WriteByte('\r')
			default:
				sb.WriteByte(s[i])
			}
		} else {
			sb.WriteByte(s[i])
		}
	}
	return sb.String()
}

func esc(s string) string {
	r := strings.NewReplacer("\\", "\\\\", "\t", "\\t", "\n", "\\n", "\r", "\\r")
	return r.Replace(s)
}

// firstFrame extracts the innermost arr-ai/arrai frame of the current panic's stack.
// FirstFrame extracts the innermost arr-ai/arrai frame of the current stack.
func FirstFrame() string {
	buf := make([]byte, 1<<16)
	buf = buf[:runtime.Stack(buf, false)]
	for _, line := range strings.Split(string(buf), "\n") {
		line = strings.TrimSpace(line)
		if strings.HasPrefix(line, "github.com/arr-ai/arrai/") {
			if i := strings.LastIndex(line, "("); i > 0 {
				line = line[:i]
			}
			return strings.TrimPrefix(line, "github.com/arr-ai/arrai/")
		}
	}
	return "?"
}

func runOne(kind string, payload []string, timeout time.Duration) (res string) {
	r, ok := runners[kind]
	if !ok {
		return "harness-error:unknown-kind:" + kind
	}
	done := make(chan string, 1)
	go func() {
		defer func() {
			if p := recover(); p != nil {
				done <- "panic:" + FirstFrame() + ":" + strings.SplitN(fmt.Sprint(p), "\n", 2)[0]
			}
		}()
		done <- r(payload)
	}()
	select {
	case s := <-done:
		return s
	case <-time.After(timeout):
		return "timeout"
	}
}

// Main reads cases from stdin and prints "id<TAB>observable" lines.
func Main() {
	workers := runtime.NumCPU()
	timeout := 10 * time.Second
	if s := os.Getenv("HARNESS_TIMEOUT_MS"); s != "" {
		if n, err := strconv.Atoi(s); err == nil {
			timeout = time.Duration(n) * time.Millisecond
		}
	}
	if s := os.Getenv("HARNESS_WORKERS"); s != "" {
		if n, err := strconv.Atoi(s); err == nil && n > 0 {
			workers = n
		}
	}
	type job struct {
		id, kind string
		payload  []string
	}
	jobs := make(chan job, 1024)
	var mu sync.Mutex
	out := bufio.NewWriterSize(os.Stdout, 1<<20)
	var wg sync.WaitGroup
	for i := 0; i < workers; i++ {
		wg.Add(1)
		go func() {
			defer wg.Done()
			for j := range jobs {
				res := runOne(j.kind, j.payload, timeout)
				mu.Lock()
				fmt.Fprintf(out, "%s\t%s\n", j.id, esc(res))
				out.Flush()
				mu.Unlock()
			}
		}()
	}
	sc := bufio.NewScanner(os.Stdin)
	sc.Buffer(make([]byte, 1<<20), 1<<26)
	for sc.Scan() {
		f := strings.Split(sc.Text(), "\t")
		if len(f) < 6 {
			continue
		}
		payload := make([]string, 0, len(f)-6)
		for _, p := range f[6:] {
			payload = append(payload, unesc(p))
		}
		jobs <- job{id: f[0], kind: f[2], payload: payload}
	}
	close(jobs)
	wg.Wait()
	out.Flush()
}
