package main

import (
	"context"
	"math"
	"sort"
	"strconv"
	"strings"

	"github.com/arr-ai/arrai/pkg/arraictx"
	"github.com/arr-ai/arrai/rel"
	"github.com/arr-ai/arrai/syntax"
)

func isFn(v rel.Value) bool {
	switch v.(type) {
	case rel.Closure, rel.ExprClosure, *rel.NativeFunction:
		return true
	}
	return false
}

func canonNum(f float64) string {
	if f == math.Trunc(f) && math.Abs(f) < 1e15 {
		return strconv.FormatInt(int64(f), 10)
	}
	return strconv.FormatFloat(f, 'g', -1, 64)
}

// canon computes the denotation of v as text using only Enumerator walks and Go's string sort.
func canon(v rel.Value) string {
	if v == nil {
		return "<nil>"
	}
	if isFn(v) {
		return "fn"
	}
	switch v := v.(type) {
	case rel.Number:
		return canonNum(float64(v))
	case rel.Tuple:
		parts := []string{}
		for e := v.Enumerator(); e.MoveNext(); {
			name, val := e.Current()
			parts = append(parts, name+":"+canon(val))
		}
		sort.Strings(parts)
		return "(" + strings.Join(parts, ",") + ")"
	case rel.Set:
		parts := []string{}
		for e := v.Enumerator(); e.MoveNext(); {
			parts = append(parts, canon(e.Current()))
		}
		sort.Strings(parts)
		out := parts[:0]
		for i, p := range parts {
			if i == 0 || p != parts[i-1] {
				out = append(out, p)
			}
		}
		return "{" + strings.Join(out, ",") + "}"
	}
	return "<?" + rel.ValueTypeAsString(v) + ">"
}

func newCtx() context.Context {
	return arraictx.InitRunCtx(context.Background())
}

func evalSrc(src string) (rel.Value, error) {
	return syntax.EvaluateExpr(newCtx(), "", src)
}

func init() {
	// eval: payload[0] = arr.ai source; observable = canon(value) | "error"
	register("eval", func(p []string) string {
		v, err := evalSrc(p[0])
		if err != nil {
			return "error"
		}
		return canon(v)
	})
}
