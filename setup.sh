#!/bin/sh
# Build the framework from files on disk only (offline).
set -e
cd "$(dirname "$0")"
export GOFLAGS=-mod=mod GOPROXY=off
mkdir -p .build evidence
(cd lean && lake build)
(cd extract && go build -o ../.build/extract .)
cp /repo/go.sum harness/go.sum
(cd harness && go build -tags verif -o ../.build/harness .)
echo setup ok
