#!/bin/sh
# Build the framework from files on disk only (offline): Lean proofs + drivers, fact extractor, Go harness binaries.
set -e
cd "$(dirname "$0")"
export GOFLAGS=-mod=mod GOPROXY=off
mkdir -p .build evidence
# facts are regenerated from /repo by every check; make sure a copy exists for the first lake build
(cd extract && go build -o ../.build/extract .)
.build/extract /repo .build/Generated.setup.lean .build/facts.json >/dev/null
cmp -s .build/Generated.setup.lean lean/Arrai/Facts/Generated.lean || cp .build/Generated.setup.lean lean/Arrai/Facts/Generated.lean
props=$(ls lib/props_c*.py | sed 's/.*props_c\([0-9]*\)\.py/\1/')
targets=""
for n in $props; do targets="$targets Arrai.Proofs.C$n driver-c$n"; done
(cd lean && lake build $targets)
cp /repo/go.sum harness/go.sum
for n in $props; do
  (cd harness && go build -tags verif -o ../.build/harness-c$n ./cmd/c$n)
done
echo setup ok
