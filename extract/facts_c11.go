// facts for C11 (concurrent evaluation is race-free): the table `lazyState`.
//
// Purely syntactic (go/ast, no type information).  Two kinds of rows:
//
//	state    : a package-level variable, or a field of a struct reached through a pointer receiver /
//	           pointer parameter, that is assigned in a function body (i.e. after construction), with the
//	           synchronisation that lexically encloses every such write and every read:
//	             once:<expr>   inside the function literal passed to <expr>.Do(...)
//	             mutex:<expr>  between <expr>.Lock() and <expr>.Unlock() (or with `defer <expr>.Unlock()`)
//	             rmutex:<expr> same with RLock/RUnlock (reads only)
//	             after:<expr>  (reads) after a statement <expr>.Do(...) of the same function
//	             none
//	           Only types that are shared by design are listed: the struct declares a sync.* field, or it is
//	           reachable as an arr.ai value / expression (it has a method named Eval, Kind or Hash).  Builders,
//	           enumerators and parser state are goroutine-confined helpers and are not listed.
//	captured : a variable declared outside a function literal and assigned (or mutated through a
//	           Put/Add/Append/Write call) inside it, where the literal may run on another goroutine: it is
//	           started with `go`, or passed (directly or through a local variable) to a call named
//	           Where/SetMap/MapMap/Reduce/Reduce2/SetGroupBy/Merge/NewMapFromKeys (the callback-taking
//	           operations of the frozen library and arr.ai's wrappers around them).
package main

import (
	"fmt"
	"go/ast"
	"go/token"
	"sort"
	"strings"
)

func init() { registerFacts("C11", factsC11) }

var c11Pkgs = []string{"rel", "syntax", "pkg/importcache", "pkg/deprecate", "pkg/ctxfs", "pkg/ctxrootcache"}

var c11Callees = map[string]bool{"Where": true, "SetMap": true, "MapMap": true, "Reduce": true, "Reduce2": true,
	"SetGroupBy": true, "Merge": true, "NewMapFromKeys": true}

var c11Mutators = map[string]bool{"Put": true, "Add": true, "Append": true, "Write": true, "WriteString": true,
	"Store": true, "Set": true, "Remove": true}

type c11Access struct {
	loc    string // pkg.Type.field | pkg.var
	fn     string // enclosing function
	write  bool
	guards string // "+"-joined sorted guards, "" = none
}

// c11Compute: a call that produces (part of) a value stored into a mutex-guarded location, and whether the
// mutex guarding the store was held while that call was made.
type c11Compute struct {
	loc, fn, callee string
	held            bool
}

// c11Prod: what a local variable was computed from (calls with the locks held at that point, other locals).
type c11Prod struct {
	calls []c11Call
	deps  []string
}

type c11Call struct {
	callee string
	held   []string
}

type c11Captured struct {
	fn, callee, name, guards string
}

type c11Pkg struct {
	name      string
	pkgVars   map[string]bool
	shared    map[string]bool            // struct type names considered shared
	fields    map[string]map[string]bool // type -> field names
	fieldUniq map[string]string          // field name -> the only shared type declaring it ("" if ambiguous)
	initOnly  map[string]bool            // functions called from package-level initialisers / init() and from nowhere else
	acc       []c11Access
	capt      []c11Captured
	comp      []c11Compute
}

func c11BaseName(t ast.Expr) (string, bool) {
	ptr := false
	for {
		switch x := t.(type) {
		case *ast.StarExpr:
			ptr = true
			t = x.X
			continue
		case *ast.IndexExpr:
			t = x.X
			continue
		case *ast.Ident:
			return x.Name, ptr
		}
		return "", ptr
	}
}

func c11Collect(name string, files []*ast.File) *c11Pkg {
	p := &c11Pkg{name: name, pkgVars: map[string]bool{}, shared: map[string]bool{}, fields: map[string]map[string]bool{},
		fieldUniq: map[string]string{}}
	hasSync := map[string]bool{}
	for _, f := range files {
		for _, d := range f.Decls {
			switch d := d.(type) {
			case *ast.GenDecl:
				for _, sp := range d.Specs {
					switch sp := sp.(type) {
					case *ast.ValueSpec:
						if d.Tok == token.VAR {
							for _, n := range sp.Names {
								if n.Name != "_" {
									p.pkgVars[n.Name] = true
								}
							}
						}
					case *ast.TypeSpec:
						st, ok := sp.Type.(*ast.StructType)
						if !ok {
							continue
						}
						fs := map[string]bool{}
						for _, fl := range st.Fields.List {
							ts := src(fl.Type)
							if strings.HasPrefix(ts, "sync.") || strings.HasPrefix(ts, "*sync.") {
								hasSync[sp.Name.Name] = true
							}
							for _, n := range fl.Names {
								fs[n.Name] = true
							}
						}
						p.fields[sp.Name.Name] = fs
					}
				}
			case *ast.FuncDecl:
				if d.Recv != nil && len(d.Recv.List) == 1 {
					switch d.Name.Name {
					case "Eval", "Kind", "Hash", "Bind":
						if tn, _ := c11BaseName(d.Recv.List[0].Type); tn != "" {
							p.shared[tn] = true
						}
					}
				}
			}
		}
	}
	for t := range hasSync {
		p.shared[t] = true
	}
	for t := range p.shared {
		if _, isStruct := p.fields[t]; !isStruct {
			delete(p.shared, t)
		}
	}
	// functions that run during package initialisation only
	inInit, elsewhere := map[string]bool{}, map[string]bool{}
	calls := func(n ast.Node, into map[string]bool) {
		ast.Inspect(n, func(n ast.Node) bool {
			if c, ok := n.(*ast.CallExpr); ok {
				if id, ok := c.Fun.(*ast.Ident); ok {
					into[id.Name] = true
				}
			}
			return true
		})
	}
	for _, f := range files {
		for _, d := range f.Decls {
			switch d := d.(type) {
			case *ast.GenDecl:
				if d.Tok == token.VAR {
					calls(d, inInit)
				}
			case *ast.FuncDecl:
				if d.Body == nil {
					continue
				}
				if d.Recv == nil && d.Name.Name == "init" {
					calls(d.Body, inInit)
				} else {
					calls(d.Body, elsewhere)
				}
			}
		}
	}
	p.initOnly = map[string]bool{}
	for f := range inInit {
		if !elsewhere[f] {
			p.initOnly[f] = true
		}
	}
	cnt := map[string][]string{}
	for t := range p.shared {
		for f := range p.fields[t] {
			cnt[f] = append(cnt[f], t)
		}
	}
	for f, ts := range cnt {
		if len(ts) == 1 {
			p.fieldUniq[f] = ts[0]
		}
	}
	return p
}

// c11Fn is the per-function walking state.
type c11Fn struct {
	p       *c11Pkg
	name    string
	ptrVars map[string]string // identifier -> struct type of a receiver / parameter (T or *T)
	valVars map[string]bool   // those of them passed by value: only writes through an index reach shared memory
	initFn  bool              // the function is called from package initialisers only
	locals  map[string]bool
	doneDo  []string // once expressions whose Do(...) statement has already been passed in this function
	prod    map[string][]c11Prod
}

func c11Strip(e ast.Expr) ast.Expr {
	for {
		switch x := e.(type) {
		case *ast.IndexExpr:
			e = x.X
		case *ast.SliceExpr:
			e = x.X
		case *ast.StarExpr:
			e = x.X
		case *ast.ParenExpr:
			e = x.X
		default:
			return e
		}
	}
}

// loc resolves an expression to a shared location name, or "".
func (fn *c11Fn) loc(e ast.Expr) string {
	e = c11Strip(e)
	switch x := e.(type) {
	case *ast.Ident:
		if fn.p.pkgVars[x.Name] && !fn.locals[x.Name] {
			return fn.p.name + "." + x.Name
		}
	case *ast.SelectorExpr:
		// innermost selector chain: find root
		base := c11Strip(x.X)
		if id, ok := base.(*ast.Ident); ok {
			if t, ok := fn.ptrVars[id.Name]; ok && fn.p.shared[t] && fn.p.fields[t][x.Sel.Name] {
				return fn.p.name + "." + t + "." + x.Sel.Name
			}
			if fn.p.pkgVars[id.Name] && !fn.locals[id.Name] {
				if t := fn.p.fieldUniq[x.Sel.Name]; t != "" {
					return fn.p.name + "." + t + "." + x.Sel.Name
				}
				return fn.p.name + "." + id.Name
			}
			return ""
		}
		// a.b.c : a write to c of whatever a.b is; resolve by unique field name, else the inner location
		if t := fn.p.fieldUniq[x.Sel.Name]; t != "" {
			return fn.p.name + "." + t + "." + x.Sel.Name
		}
		return fn.loc(x.X)
	}
	return ""
}

func c11Guards(held []string) string {
	s := append([]string{}, held...)
	sort.Strings(s)
	out := s[:0]
	for i, g := range s {
		if i == 0 || g != s[i-1] {
			out = append(out, g)
		}
	}
	return strings.Join(out, "+")
}

func c11SyncCall(s ast.Stmt) (recv, method string) {
	var call *ast.CallExpr
	switch x := s.(type) {
	case *ast.ExprStmt:
		call, _ = x.X.(*ast.CallExpr)
	}
	if call == nil {
		return "", ""
	}
	sel, ok := call.Fun.(*ast.SelectorExpr)
	if !ok {
		return "", ""
	}
	switch sel.Sel.Name {
	case "Lock", "Unlock", "RLock", "RUnlock":
		return c11Short(sel.X), sel.Sel.Name
	}
	return "", ""
}

// c11Short names a sync object by its last selector component (t.cachedNamesOnce -> cachedNamesOnce).
func c11Short(e ast.Expr) string {
	switch x := e.(type) {
	case *ast.SelectorExpr:
		return x.Sel.Name
	case *ast.Ident:
		return x.Name
	}
	return strings.Join(strings.Fields(src(e)), "")
}

func c11Remove(held []string, g string) []string {
	out := []string{}
	for _, h := range held {
		if h != g {
			out = append(out, h)
		}
	}
	return out
}

// walkStmts processes a statement list sequentially, tracking held locks.
func (fn *c11Fn) walkStmts(list []ast.Stmt, held []string, lit *c11Lit) []string {
	for _, s := range list {
		if r, m := c11SyncCall(s); m != "" {
			switch m {
			case "Lock":
				held = append(held, "mutex:"+r)
			case "RLock":
				held = append(held, "rmutex:"+r)
			case "Unlock":
				held = c11Remove(held, "mutex:"+r)
			case "RUnlock":
				held = c11Remove(held, "rmutex:"+r)
			}
			continue
		}
		held = fn.walkStmt(s, held, lit)
	}
	return held
}

// c11Lit is the innermost function literal that may run on another goroutine.
type c11Lit struct {
	callee string
	inner  map[string]bool // names declared inside the literal
}

func (fn *c11Fn) record(e ast.Expr, write bool, held []string) {
	if l := fn.loc(e); l != "" {
		if id := fn.rootIdent(e); write && id != nil && fn.valVars[id.Name] {
			if _, viaIndex := e.(*ast.IndexExpr); !viaIndex {
				return // assignment to a field of a by-value copy
			}
		}
		h := append([]string{}, held...)
		if fn.initFn {
			h = append(h, "init")
		}
		if !write {
			for _, d := range fn.doneDo {
				h = append(h, "after:"+d)
			}
		}
		fn.p.acc = append(fn.p.acc, c11Access{loc: l, fn: fn.name, write: write, guards: c11Guards(h)})
	}
}

func (fn *c11Fn) rootIdent(e ast.Expr) *ast.Ident {
	for {
		e = c11Strip(e)
		switch x := e.(type) {
		case *ast.SelectorExpr:
			e = x.X
		case *ast.Ident:
			return x
		default:
			return nil
		}
	}
}

var c11Builtins = map[string]bool{"len": true, "cap": true, "make": true, "new": true, "append": true, "copy": true,
	"delete": true, "panic": true, "string": true, "int": true, "float64": true, "byte": true, "rune": true}

// c11Producers lists the calls and the identifiers an expression is computed from (function literals are opaque).
func c11Producers(e ast.Expr, held []string) c11Prod {
	var p c11Prod
	ast.Inspect(e, func(n ast.Node) bool {
		switch x := n.(type) {
		case *ast.FuncLit:
			return false
		case *ast.CallExpr:
			name := strings.Join(strings.Fields(src(x.Fun)), "")
			if !c11Builtins[name] {
				p.calls = append(p.calls, c11Call{callee: name, held: append([]string{}, held...)})
			}
		case *ast.Ident:
			p.deps = append(p.deps, x.Name)
		}
		return true
	})
	return p
}

func (fn *c11Fn) noteProd(name string, rhs ast.Expr, held []string) {
	if name == "_" || rhs == nil {
		return
	}
	if fn.prod == nil {
		fn.prod = map[string][]c11Prod{}
	}
	fn.prod[name] = append(fn.prod[name], c11Producers(rhs, held))
}

// stored records, for a store into a shared location made under a mutex, every call the stored value was
// computed from (through local variables, transitively) and whether that mutex was held during the call.
func (fn *c11Fn) stored(lhs, rhs ast.Expr, held []string) {
	l := fn.loc(lhs)
	if l == "" || rhs == nil {
		return
	}
	var mutexes []string
	for _, h := range held {
		if strings.HasPrefix(h, "mutex:") {
			mutexes = append(mutexes, h)
		}
	}
	if len(mutexes) == 0 {
		return
	}
	seen := map[string]bool{}
	var visit func(p c11Prod)
	visit = func(p c11Prod) {
		for _, c := range p.calls {
			ok := true
			for _, m := range mutexes {
				has := false
				for _, h := range c.held {
					if h == m {
						has = true
					}
				}
				ok = ok && has
			}
			fn.p.comp = append(fn.p.comp, c11Compute{loc: l, fn: fn.name, callee: c.callee, held: ok})
		}
		for _, d := range p.deps {
			if !seen[d] {
				seen[d] = true
				for _, q := range fn.prod[d] {
					visit(q)
				}
			}
		}
	}
	visit(c11Producers(rhs, held))
}

func (fn *c11Fn) write(e ast.Expr, held []string, lit *c11Lit) {
	fn.record(e, true, held)
	if lit != nil {
		if id := fn.rootIdent(e); id != nil && id.Name != "_" && !lit.inner[id.Name] && !fn.p.pkgVars[id.Name] {
			name := id.Name
			if _, isSel := c11Strip(e).(*ast.SelectorExpr); isSel {
				name = strings.Join(strings.Fields(src(c11Strip(e))), "")
			}
			fn.p.capt = append(fn.p.capt, c11Captured{fn: fn.name, callee: lit.callee, name: name, guards: c11Guards(held)})
		}
	}
	// index / selector sub-expressions of the left-hand side are reads
	switch x := e.(type) {
	case *ast.IndexExpr:
		fn.walkExpr(x.Index, held, lit)
	}
}

func (fn *c11Fn) declare(lit *c11Lit, names ...*ast.Ident) {
	for _, n := range names {
		if n == nil {
			continue
		}
		fn.locals[n.Name] = true
		if lit != nil {
			lit.inner[n.Name] = true
		}
	}
}

func (fn *c11Fn) walkStmt(s ast.Stmt, held []string, lit *c11Lit) []string {
	switch x := s.(type) {
	case nil:
	case *ast.BlockStmt:
		fn.walkStmts(x.List, append([]string{}, held...), lit)
	case *ast.AssignStmt:
		for _, r := range x.Rhs {
			fn.walkExpr(r, held, lit)
		}
		for i, l := range x.Lhs {
			var rhs ast.Expr
			if len(x.Rhs) == len(x.Lhs) {
				rhs = x.Rhs[i]
			} else if len(x.Rhs) == 1 {
				rhs = x.Rhs[0]
			}
			if id, ok := l.(*ast.Ident); ok && (x.Tok == token.DEFINE || fn.locals[id.Name]) {
				fn.noteProd(id.Name, rhs, held)
			}
			if x.Tok == token.DEFINE {
				if id, ok := l.(*ast.Ident); ok {
					fn.declare(lit, id)
				}
				continue
			}
			fn.stored(l, rhs, held)
			fn.write(l, held, lit)
		}
	case *ast.IncDecStmt:
		fn.write(x.X, held, lit)
	case *ast.ExprStmt:
		fn.walkExpr(x.X, held, lit)
	case *ast.DeclStmt:
		if gd, ok := x.Decl.(*ast.GenDecl); ok {
			for _, sp := range gd.Specs {
				if vs, ok := sp.(*ast.ValueSpec); ok {
					fn.declare(lit, vs.Names...)
					for i, v := range vs.Values {
						fn.walkExpr(v, held, lit)
						if i < len(vs.Names) {
							fn.noteProd(vs.Names[i].Name, v, held)
						}
					}
				}
			}
		}
	case *ast.ReturnStmt:
		for _, r := range x.Results {
			fn.walkExpr(r, held, lit)
		}
	case *ast.IfStmt:
		h := append([]string{}, held...)
		h = fn.walkStmt(x.Init, h, lit)
		fn.walkExpr(x.Cond, h, lit)
		fn.walkStmts(x.Body.List, append([]string{}, h...), lit)
		fn.walkStmt(x.Else, append([]string{}, h...), lit)
	case *ast.ForStmt:
		h := append([]string{}, held...)
		h = fn.walkStmt(x.Init, h, lit)
		fn.walkExpr(x.Cond, h, lit)
		fn.walkStmt(x.Post, h, lit)
		fn.walkStmts(x.Body.List, h, lit)
	case *ast.RangeStmt:
		fn.walkExpr(x.X, held, lit)
		for _, kv := range []ast.Expr{x.Key, x.Value} {
			if kv == nil {
				continue
			}
			if x.Tok == token.DEFINE {
				if id, ok := kv.(*ast.Ident); ok {
					fn.declare(lit, id)
				}
			} else {
				fn.write(kv, held, lit)
			}
		}
		fn.walkStmts(x.Body.List, append([]string{}, held...), lit)
	case *ast.SwitchStmt:
		h := append([]string{}, held...)
		h = fn.walkStmt(x.Init, h, lit)
		fn.walkExpr(x.Tag, h, lit)
		fn.walkStmt(x.Body, h, lit)
	case *ast.TypeSwitchStmt:
		h := append([]string{}, held...)
		h = fn.walkStmt(x.Init, h, lit)
		h = fn.walkStmt(x.Assign, h, lit)
		fn.walkStmt(x.Body, h, lit)
	case *ast.CaseClause:
		for _, e := range x.List {
			fn.walkExpr(e, held, lit)
		}
		fn.walkStmts(x.Body, append([]string{}, held...), lit)
	case *ast.SelectStmt:
		fn.walkStmt(x.Body, held, lit)
	case *ast.CommClause:
		fn.walkStmt(x.Comm, held, lit)
		fn.walkStmts(x.Body, append([]string{}, held...), lit)
	case *ast.SendStmt:
		fn.walkExpr(x.Chan, held, lit)
		fn.walkExpr(x.Value, held, lit)
	case *ast.LabeledStmt:
		return fn.walkStmt(x.Stmt, held, lit)
	case *ast.DeferStmt:
		// `defer X.Unlock()` keeps X held to the end of the function: nothing to do.
		if sel, ok := x.Call.Fun.(*ast.SelectorExpr); ok && (sel.Sel.Name == "Unlock" || sel.Sel.Name == "RUnlock") {
			return held
		}
		fn.walkExpr(x.Call, held, lit)
	case *ast.GoStmt:
		if fl, ok := x.Call.Fun.(*ast.FuncLit); ok {
			fn.walkLit(fl, nil, &c11Lit{callee: "go", inner: map[string]bool{}})
			for _, a := range x.Call.Args {
				fn.walkExpr(a, held, lit)
			}
		} else {
			fn.walkExpr(x.Call, held, lit)
		}
	}
	return held
}

func (fn *c11Fn) walkLit(fl *ast.FuncLit, held []string, lit *c11Lit) {
	if lit != nil {
		for _, f := range fl.Type.Params.List {
			fn.declare(lit, f.Names...)
		}
		if fl.Type.Results != nil {
			for _, f := range fl.Type.Results.List {
				fn.declare(lit, f.Names...)
			}
		}
	} else {
		for _, f := range fl.Type.Params.List {
			fn.declare(nil, f.Names...)
		}
	}
	fn.walkStmts(fl.Body.List, append([]string{}, held...), lit)
}

// localLit finds the function literal last assigned to a local identifier (mapper := func…; frozen.SetMap(keys, mapper)).
func c11LocalLits(body *ast.BlockStmt) map[string][]*ast.FuncLit {
	out := map[string][]*ast.FuncLit{}
	ast.Inspect(body, func(n ast.Node) bool {
		switch x := n.(type) {
		case *ast.AssignStmt:
			for i, l := range x.Lhs {
				if id, ok := l.(*ast.Ident); ok && i < len(x.Rhs) {
					if fl, ok := x.Rhs[i].(*ast.FuncLit); ok {
						out[id.Name] = append(out[id.Name], fl)
					}
				}
			}
		case *ast.ValueSpec:
			for i, id := range x.Names {
				if i < len(x.Values) {
					if fl, ok := x.Values[i].(*ast.FuncLit); ok {
						out[id.Name] = append(out[id.Name], fl)
					}
				}
			}
		}
		return true
	})
	return out
}

var c11CurLits map[string][]*ast.FuncLit
var c11ConcLits map[*ast.FuncLit]string

func (fn *c11Fn) walkExpr(e ast.Expr, held []string, lit *c11Lit) {
	switch x := e.(type) {
	case nil:
	case *ast.FuncLit:
		if callee, ok := c11ConcLits[x]; ok {
			inner := map[string]bool{}
			fn.walkLit(x, nil, &c11Lit{callee: callee, inner: inner})
			return
		}
		// an ordinary closure: runs on the caller's goroutine as far as syntax can tell; it inherits the
		// enclosing concurrent literal (its own declarations are added to that literal's)
		fn.walkLit(x, held, lit)
		if lit == nil {
			// declarations inside must not leak as locals that shadow package variables: acceptable imprecision
			_ = lit
		}
	case *ast.CallExpr:
		// once.Do(func(){…})
		if sel, ok := x.Fun.(*ast.SelectorExpr); ok && sel.Sel.Name == "Do" && len(x.Args) == 1 {
			if fl, ok := x.Args[0].(*ast.FuncLit); ok {
				g := c11Short(sel.X)
				fn.walkStmts(fl.Body.List, append(append([]string{}, held...), "once:"+g), lit)
				fn.doneDo = append(fn.doneDo, g)
				return
			}
		}
		// delete(m, k) writes m
		if id, ok := x.Fun.(*ast.Ident); ok && id.Name == "delete" && len(x.Args) == 2 {
			fn.write(x.Args[0], held, lit)
			fn.walkExpr(x.Args[1], held, lit)
			return
		}
		if sel, ok := x.Fun.(*ast.SelectorExpr); ok {
			// mutation of a captured object through a method
			if lit != nil && c11Mutators[sel.Sel.Name] {
				if id, ok := sel.X.(*ast.Ident); ok && !lit.inner[id.Name] && !fn.p.pkgVars[id.Name] && fn.locals[id.Name] {
					fn.p.capt = append(fn.p.capt, c11Captured{fn: fn.name, callee: lit.callee,
						name: id.Name + "." + sel.Sel.Name + "()", guards: c11Guards(held)})
				}
			}
			fn.walkExpr(sel.X, held, lit)
		} else {
			fn.walkExpr(x.Fun, held, lit)
		}
		for _, a := range x.Args {
			fn.walkExpr(a, held, lit)
		}
	case *ast.SelectorExpr:
		fn.record(x, false, held)
		fn.walkExpr(x.X, held, lit)
	case *ast.Ident:
		fn.record(x, false, held)
	case *ast.IndexExpr:
		fn.walkExpr(x.X, held, lit)
		fn.walkExpr(x.Index, held, lit)
	case *ast.SliceExpr:
		fn.walkExpr(x.X, held, lit)
		fn.walkExpr(x.Low, held, lit)
		fn.walkExpr(x.High, held, lit)
		fn.walkExpr(x.Max, held, lit)
	case *ast.StarExpr:
		fn.walkExpr(x.X, held, lit)
	case *ast.ParenExpr:
		fn.walkExpr(x.X, held, lit)
	case *ast.UnaryExpr:
		fn.walkExpr(x.X, held, lit)
	case *ast.BinaryExpr:
		fn.walkExpr(x.X, held, lit)
		fn.walkExpr(x.Y, held, lit)
	case *ast.KeyValueExpr:
		fn.walkExpr(x.Value, held, lit)
	case *ast.CompositeLit:
		for _, el := range x.Elts {
			fn.walkExpr(el, held, lit)
		}
	case *ast.TypeAssertExpr:
		fn.walkExpr(x.X, held, lit)
	}
}

// c11MarkConcurrent finds the function literals of a body that may run on other goroutines.
func c11MarkConcurrent(body *ast.BlockStmt) map[*ast.FuncLit]string {
	local := c11LocalLits(body)
	out := map[*ast.FuncLit]string{}
	ast.Inspect(body, func(n ast.Node) bool {
		call, ok := n.(*ast.CallExpr)
		if !ok {
			return true
		}
		name := ""
		switch f := call.Fun.(type) {
		case *ast.SelectorExpr:
			name = f.Sel.Name
		case *ast.IndexExpr: // generic instantiation frozen.SetMap[T, U](…)
			if s, ok := f.X.(*ast.SelectorExpr); ok {
				name = s.Sel.Name
			}
		}
		if !c11Callees[name] {
			return true
		}
		for _, a := range call.Args {
			switch a := a.(type) {
			case *ast.FuncLit:
				out[a] = name
			case *ast.Ident:
				for _, fl := range local[a.Name] {
					out[fl] = name
				}
			}
		}
		return true
	})
	return out
}

// c11GuardSets renders a set of "+"-joined guard combinations as a Lean List (List (String × String)).
func c11GuardSets(m map[string]bool) string {
	ks := make([]string, 0, len(m))
	for k := range m {
		ks = append(ks, k)
	}
	sort.Strings(ks)
	sets := []string{}
	for _, k := range ks {
		items := []string{}
		if k != "" {
			for _, g := range strings.Split(k, "+") {
				kind, name := g, ""
				if i := strings.Index(g, ":"); i >= 0 {
					kind, name = g[:i], g[i+1:]
				}
				items = append(items, "("+leanStr(kind)+", "+leanStr(name)+")")
			}
		}
		sets = append(sets, "["+strings.Join(items, ", ")+"]")
	}
	return "[" + strings.Join(sets, ", ") + "]"
}

func factsC11(repo string, pkgs map[string][]*ast.File) (string, map[string]interface{}) {
	type row struct {
		kind, loc     string
		wg, rg        map[string]bool
		writers, bare map[string]bool
	}
	rows := map[string]*row{}
	comps := map[[4]string]bool{}
	get := func(kind, loc string) *row {
		k := kind + "\x00" + loc
		if rows[k] == nil {
			rows[k] = &row{kind: kind, loc: loc, wg: map[string]bool{}, rg: map[string]bool{}, writers: map[string]bool{},
				bare: map[string]bool{}}
		}
		return rows[k]
	}
	for _, pn := range c11Pkgs {
		files := pkgs[pn]
		p := c11Collect(pn, files)
		for _, f := range files {
			for _, d := range f.Decls {
				fd, ok := d.(*ast.FuncDecl)
				if !ok || fd.Body == nil {
					continue
				}
				fn := &c11Fn{p: p, name: recvName(fd) + fd.Name.Name, ptrVars: map[string]string{}, valVars: map[string]bool{},
					locals: map[string]bool{}, initFn: p.initOnly[fd.Name.Name] && fd.Recv == nil}
				add := func(fl *ast.FieldList) {
					if fl == nil {
						return
					}
					for _, fld := range fl.List {
						tn, ptr := c11BaseName(fld.Type)
						for _, n := range fld.Names {
							fn.locals[n.Name] = true
							if tn != "" {
								fn.ptrVars[n.Name] = tn
								if !ptr {
									fn.valVars[n.Name] = true
								}
							}
						}
					}
				}
				add(fd.Recv)
				add(fd.Type.Params)
				add(fd.Type.Results)
				// locals that shadow package variables
				ast.Inspect(fd.Body, func(n ast.Node) bool {
					switch x := n.(type) {
					case *ast.AssignStmt:
						if x.Tok == token.DEFINE {
							for _, l := range x.Lhs {
								if id, ok := l.(*ast.Ident); ok {
									fn.locals[id.Name] = true
								}
							}
						}
					case *ast.ValueSpec:
						for _, id := range x.Names {
							fn.locals[id.Name] = true
						}
					case *ast.RangeStmt:
						if x.Tok == token.DEFINE {
							for _, kv := range []ast.Expr{x.Key, x.Value} {
								if id, ok := kv.(*ast.Ident); ok {
									fn.locals[id.Name] = true
								}
							}
						}
					case *ast.FuncLit:
						for _, fld := range x.Type.Params.List {
							for _, id := range fld.Names {
								fn.locals[id.Name] = true
							}
						}
					}
					return true
				})
				c11ConcLits = c11MarkConcurrent(fd.Body)
				fn.walkStmts(fd.Body.List, nil, nil)
			}
		}
		// ---- state rows: locations with at least one write after construction
		written := map[string]bool{}
		for _, a := range p.acc {
			if a.write {
				written[a.loc] = true
			}
		}
		for _, a := range p.acc {
			if !written[a.loc] {
				continue
			}
			r := get("state", a.loc)
			if a.write {
				r.wg[a.guards] = true
				r.writers[a.fn] = true
			} else {
				r.rg[a.guards] = true
				if a.guards == "" {
					r.bare[a.fn] = true
				}
			}
		}
		// ---- compute rows
		for _, c := range p.comp {
			comps[[4]string{c.loc, c.fn, c.callee, fmt.Sprint(c.held)}] = true
		}
		// ---- captured rows
		for _, c := range p.capt {
			r := get("captured", pn+"."+c.fn+"/"+c.callee+":"+c.name)
			r.wg[c.guards] = true
			r.writers[c.fn] = true
		}
	}
	keys := make([]string, 0, len(rows))
	for k := range rows {
		keys = append(keys, k)
	}
	sort.Slice(keys, func(i, j int) bool {
		a, b := rows[keys[i]], rows[keys[j]]
		if a.kind != b.kind {
			return a.kind > b.kind // state first
		}
		return a.loc < b.loc
	})
	strs := func(m map[string]bool) []string {
		s := make([]string, 0, len(m))
		for k := range m {
			s = append(s, k)
		}
		sort.Strings(s)
		return s
	}
	var b strings.Builder
	b.WriteString("/-- (kind, location, guard sets of the writes, guard sets of the reads ([] = an unguarded read), writers) -/\n")
	b.WriteString("def lazyState : List (String × String × List (List (String × String)) × List (List (String × String)) × List String) := [\n")
	js := []map[string]interface{}{}
	for i, k := range keys {
		r := rows[k]
		sep := ","
		if i == len(keys)-1 {
			sep = ""
		}
		ws := []string{}
		for _, w := range strs(r.writers) {
			ws = append(ws, leanStr(w))
		}
		fmt.Fprintf(&b, "  (%s, %s, %s, %s, [%s])%s\n", leanStr(r.kind), leanStr(r.loc), c11GuardSets(r.wg), c11GuardSets(r.rg),
			strings.Join(ws, ", "), sep)
		js = append(js, map[string]interface{}{"kind": r.kind, "location": r.loc, "writeGuards": strs(r.wg),
			"readGuards": strs(r.rg), "writers": strs(r.writers), "unguardedReaders": strs(r.bare)})
	}
	b.WriteString("]\n\n")
	ckeys := make([][4]string, 0, len(comps))
	for k := range comps {
		ckeys = append(ckeys, k)
	}
	sort.Slice(ckeys, func(i, j int) bool {
		for x := 0; x < 4; x++ {
			if ckeys[i][x] != ckeys[j][x] {
				return ckeys[i][x] < ckeys[j][x]
			}
		}
		return false
	})
	b.WriteString("/-- (mutex-guarded location, storing function, a call its stored value is computed from, whether the mutex that\n")
	b.WriteString("guards the store is held during that call) -/\n")
	b.WriteString("def lazyCompute : List (String × String × String × Bool) := [\n")
	cjs := []map[string]interface{}{}
	for i, k := range ckeys {
		sep := ","
		if i == len(ckeys)-1 {
			sep = ""
		}
		fmt.Fprintf(&b, "  (%s, %s, %s, %s)%s\n", leanStr(k[0]), leanStr(k[1]), leanStr(k[2]), k[3], sep)
		cjs = append(cjs, map[string]interface{}{"location": k[0], "function": k[1], "call": k[2], "lockHeld": k[3] == "true"})
	}
	b.WriteString("]\n")
	return b.String(), map[string]interface{}{"lazyState": js, "lazyCompute": cjs}
}
