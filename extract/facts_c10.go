// facts for C10: the inventory of places where the Go code can bring the process down on purpose
// or by an unchecked conversion:
//
//	panic   every call of the builtin panic(...)
//	assert  every type assertion x.(T) whose failure is not observed (no ", ok" form, not a type switch)
//	must    every call of a function or method whose name starts with Must/must
//
// per function ("pkgdir.Recv.Func"; function literals count for the enclosing declaration; package
// level initialisers count for "pkgdir.<init>"), in rel/, syntax/, engine/, translate/, tools/,
// pkg/*, cmd/arrai.  The full list (kind + normalised text) goes to facts.json ("c10PanicSites");
// Lean only gets a compact summary that `decide` can compare quickly:
//
//	panicSites : List (Nat × Nat)      (crc32 of the function name, panics*1000000 + asserts*1000 + musts), sorted
//	panicSiteTotals : List (Nat × Nat) (crc32 of the package directory, same encoding)
//
// No semantics here: collect, normalise, sort.
package main

import (
	"fmt"
	"go/ast"
	"hash/crc32"
	"os"
	"path/filepath"
	"sort"
	"strings"
)

type c10Site struct {
	Func string `json:"func"`
	Kind string `json:"kind"`
	Text string `json:"text"`
}

type c10Count struct{ panics, asserts, musts int }

func (c c10Count) code() int { return c.panics*1000000 + c.asserts*1000 + c.musts }

func c10Dirs(repo string) []string {
	dirs := []string{"rel", "syntax", "engine", "translate", "tools", "cmd/arrai"}
	for _, root := range []string{"pkg", "tools", "translate"} {
		entries, err := os.ReadDir(filepath.Join(repo, root))
		if err != nil {
			continue
		}
		for _, e := range entries {
			if e.IsDir() {
				dirs = append(dirs, root+"/"+e.Name())
			}
		}
	}
	sort.Strings(dirs)
	return dirs
}

func c10Norm(n ast.Node) string {
	s := strings.Join(strings.Fields(src(n)), " ")
	if len(s) > 160 {
		s = s[:160]
	}
	return s
}

func c10Collect(dir string, files []*ast.File) []c10Site {
	var out []c10Site
	for _, f := range files {
		for _, decl := range f.Decls {
			name := dir + ".<init>"
			var body ast.Node = decl
			if fd, ok := decl.(*ast.FuncDecl); ok {
				if fd.Body == nil {
					continue
				}
				name = dir + "." + recvName(fd) + fd.Name.Name
				body = fd.Body
			}
			// type assertions whose outcome is checked: v, ok := x.(T) / v, ok = x.(T) / var v, ok = x.(T)
			checked := map[*ast.TypeAssertExpr]bool{}
			ast.Inspect(body, func(n ast.Node) bool {
				switch s := n.(type) {
				case *ast.AssignStmt:
					if len(s.Lhs) == 2 && len(s.Rhs) == 1 {
						if ta, ok := s.Rhs[0].(*ast.TypeAssertExpr); ok {
							checked[ta] = true
						}
					}
				case *ast.ValueSpec:
					if len(s.Names) == 2 && len(s.Values) == 1 {
						if ta, ok := s.Values[0].(*ast.TypeAssertExpr); ok {
							checked[ta] = true
						}
					}
				}
				return true
			})
			ast.Inspect(body, func(n ast.Node) bool {
				switch x := n.(type) {
				case *ast.CallExpr:
					fn := ""
					switch f := x.Fun.(type) {
					case *ast.Ident:
						fn = f.Name
					case *ast.SelectorExpr:
						fn = f.Sel.Name
					}
					switch {
					case fn == "panic":
						if _, isIdent := x.Fun.(*ast.Ident); isIdent {
							out = append(out, c10Site{name, "panic", c10Norm(x)})
						}
					case strings.HasPrefix(fn, "Must") || strings.HasPrefix(fn, "must"):
						out = append(out, c10Site{name, "must", c10Norm(x)})
					}
				case *ast.TypeAssertExpr:
					if x.Type != nil && !checked[x] {
						out = append(out, c10Site{name, "assert", c10Norm(x)})
					}
				}
				return true
			})
		}
	}
	return out
}

func init() {
	registerFacts("C10", func(repo string, pkgs map[string][]*ast.File) (string, map[string]interface{}) {
		var sites []c10Site
		perFunc := map[string]*c10Count{}
		perDir := map[string]*c10Count{}
		var dirs []string
		for _, d := range c10Dirs(repo) {
			files, ok := pkgs[d]
			if !ok {
				files = parseDir(filepath.Join(repo, d))
			}
			if len(files) == 0 {
				continue
			}
			dirs = append(dirs, d)
			perDir[d] = &c10Count{}
			for _, s := range c10Collect(d, files) {
				sites = append(sites, s)
				c := perFunc[s.Func]
				if c == nil {
					c = &c10Count{}
					perFunc[s.Func] = c
				}
				for _, k := range []*c10Count{c, perDir[d]} {
					switch s.Kind {
					case "panic":
						k.panics++
					case "assert":
						k.asserts++
					case "must":
						k.musts++
					}
				}
			}
		}
		sort.Slice(sites, func(i, j int) bool {
			a, b := sites[i], sites[j]
			if a.Func != b.Func {
				return a.Func < b.Func
			}
			if a.Kind != b.Kind {
				return a.Kind < b.Kind
			}
			return a.Text < b.Text
		})
		type row struct {
			h    uint32
			name string
			code int
		}
		table := func(m map[string]*c10Count) []row {
			rows := make([]row, 0, len(m))
			for n, c := range m {
				rows = append(rows, row{crc32.ChecksumIEEE([]byte(n)), n, c.code()})
			}
			sort.Slice(rows, func(i, j int) bool {
				if rows[i].h != rows[j].h {
					return rows[i].h < rows[j].h
				}
				return rows[i].name < rows[j].name
			})
			return rows
		}
		var b strings.Builder
		emit := func(def string, rows []row) {
			fmt.Fprintf(&b, "def %s : List (Nat × Nat) := [\n", def)
			for i, r := range rows {
				sep := ","
				if i == len(rows)-1 {
					sep = ""
				}
				fmt.Fprintf(&b, "  (%d, %d)%s  -- %s\n", r.h, r.code, sep, r.name)
			}
			b.WriteString("]\n\n")
		}
		funcRows := table(perFunc)
		emit("panicSites", funcRows)
		emit("panicSiteTotals", table(perDir))
		byFunc := map[string]interface{}{}
		for _, r := range funcRows {
			c := perFunc[r.name]
			byFunc[r.name] = map[string]int{"crc32": int(r.h), "panic": c.panics, "assert": c.asserts, "must": c.musts}
		}
		return b.String(), map[string]interface{}{
			"c10PanicSites":     sites,
			"c10PanicSiteFuncs": byFunc,
			"c10PanicSiteDirs":  dirs,
		}
	})
}
