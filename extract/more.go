package main

import "go/ast"

type extraFacts struct {
	lean string
	json map[string]interface{}
}

// extractMore: further tables, added property by property.
func extractMore(repo string, pkgs map[string][]*ast.File) extraFacts {
	return extraFacts{lean: "", json: map[string]interface{}{}}
}
