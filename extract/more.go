package main

import (
	"go/ast"
	"sort"
)

type extraFacts struct {
	lean string
	json map[string]interface{}
}

// factFn contributes Lean `def`s (text appended inside `namespace Arrai.Facts.Generated`) and JSON entries.
type factFn func(repo string, pkgs map[string][]*ast.File) (lean string, js map[string]interface{})

var factFns = map[string]factFn{}

// registerFacts is called from init() of per-property files facts_cXX.go (one file per property).
func registerFacts(name string, f factFn) { factFns[name] = f }

func extractMore(repo string, pkgs map[string][]*ast.File) extraFacts {
	names := make([]string, 0, len(factFns))
	for n := range factFns {
		names = append(names, n)
	}
	sort.Strings(names)
	out := extraFacts{json: map[string]interface{}{}}
	for _, n := range names {
		l, j := factFns[n](repo, pkgs)
		out.lean += "/- facts: " + n + " -/\n" + l + "\n"
		for k, v := range j {
			out.json[k] = v
		}
	}
	return out
}
