// C12 facts: the tables and shapes the printer / string-literal reader model is written against.
//   rel/value_repr.go        reprEscapes table, the branch order of reprEscape, reprOffset's format
//   syntax/parse_string.go   case labels + actions of parseArraiStringFragment, number(...) arguments,
//                            what number returns, the loop header
//   rel/value_set_bytes.go   byte set of renderableBytesRE
//   rel/value_tuple.go       character classes of LexerNamePat / identRE
//   syntax/arrai.wbnf        STR / NUM / IDENT token regexes
//   syntax/bundle.go         the format string of bundleConfig.String
//   pkg/arrai/out.go         the type switch of OutputValue
//   rel/value_number.go      the length thresholds of formatFloat64 and the verb of Number.String
//   rel/*.go                 the string literals of every Format method (printer punctuation)
// No semantics: collect, normalise, print.
package main

import (
	"fmt"
	"go/ast"
	"go/token"
	"os"
	"path/filepath"
	"regexp"
	"sort"
	"strconv"
	"strings"
)

func c12FindFunc(files []*ast.File, recv, name string) *ast.FuncDecl {
	for _, f := range files {
		for _, d := range f.Decls {
			if fd, ok := d.(*ast.FuncDecl); ok && fd.Name.Name == name && strings.TrimSuffix(recvName(fd), ".") == recv {
				return fd
			}
		}
	}
	return nil
}

func c12FindVar(files []*ast.File, name string) ast.Expr {
	for _, f := range files {
		for _, d := range f.Decls {
			gd, ok := d.(*ast.GenDecl)
			if !ok || gd.Tok != token.VAR {
				continue
			}
			for _, sp := range gd.Specs {
				vs := sp.(*ast.ValueSpec)
				for i, n := range vs.Names {
					if n.Name == name && i < len(vs.Values) {
						return vs.Values[i]
					}
				}
			}
		}
	}
	return nil
}

func c12Norm(s string) string { return strings.Join(strings.Fields(s), " ") }

func c12Nats(xs []int) string {
	parts := make([]string, len(xs))
	for i, x := range xs {
		parts[i] = strconv.Itoa(x)
	}
	return "[" + strings.Join(parts, ", ") + "]"
}

func c12Strs(xs []string) string {
	parts := make([]string, len(xs))
	for i, x := range xs {
		parts[i] = leanStr(x)
	}
	return "[" + strings.Join(parts, ", ") + "]"
}

// charLit returns the code of a Go character literal such as '\a' or 'x'.
func c12CharLit(e ast.Expr) (int, bool) {
	bl, ok := e.(*ast.BasicLit)
	if !ok || bl.Kind != token.CHAR {
		return 0, false
	}
	s, err := strconv.Unquote(bl.Value)
	if err != nil {
		return 0, false
	}
	r := []rune(s)
	if len(r) != 1 {
		return 0, false
	}
	return int(r[0]), true
}

func c12StrLit(e ast.Expr) (string, bool) {
	bl, ok := e.(*ast.BasicLit)
	if !ok || bl.Kind != token.STRING {
		return "", false
	}
	s, err := strconv.Unquote(bl.Value)
	return s, err == nil
}

func c12IntLit(e ast.Expr) (int, bool) {
	bl, ok := e.(*ast.BasicLit)
	if !ok || bl.Kind != token.INT {
		return 0, false
	}
	n, err := strconv.Atoi(bl.Value)
	return n, err == nil
}

// expandClass expands the inside of a regexp bracket expression (no negation) into a sorted byte list.
func c12ExpandClass(body string) []int {
	var items []int
	rs := []rune(body)
	next := func(i int) (int, int) { // code, new index
		if rs[i] != '\\' {
			return int(rs[i]), i + 1
		}
		i++
		switch rs[i] {
		case 'a':
			return 7, i + 1
		case 'f':
			return 12, i + 1
		case 'n':
			return 10, i + 1
		case 'r':
			return 13, i + 1
		case 't':
			return 9, i + 1
		case 'v':
			return 11, i + 1
		case 'x':
			n, _ := strconv.ParseInt(string(rs[i+1:i+3]), 16, 32)
			return int(n), i + 3
		}
		return int(rs[i]), i + 1
	}
	seen := map[int]bool{}
	for i := 0; i < len(rs); {
		lo, j := next(i)
		hi := lo
		if j+1 < len(rs) && rs[j] == '-' {
			hi, j = next(j + 1)
		}
		for c := lo; c <= hi; c++ {
			if !seen[c] {
				seen[c] = true
				items = append(items, c)
			}
		}
		i = j
	}
	sort.Ints(items)
	return items
}

var c12ClassRE = regexp.MustCompile(`\[((?:\\.|[^\]\\])*)\]`)

// classesOf returns the pattern with every bracket expression replaced by [] and the expanded classes in order.
func c12ClassesOf(pat string) (string, [][]int) {
	var classes [][]int
	shape := c12ClassRE.ReplaceAllStringFunc(pat, func(m string) string {
		classes = append(classes, c12ExpandClass(m[1:len(m)-1]))
		return "[]"
	})
	return shape, classes
}

func c12WbnfToken(repo, name string) string {
	buf, err := os.ReadFile(filepath.Join(repo, "syntax", "arrai.wbnf"))
	if err != nil {
		return "<unreadable>"
	}
	lines := strings.Split(string(buf), "\n")
	for i, l := range lines {
		if strings.HasPrefix(l, name) && strings.HasPrefix(strings.TrimSpace(strings.TrimPrefix(l, name)), "->") {
			text := l
			for j := i + 1; j < len(lines) && !strings.Contains(text, ";"); j++ {
				text += " " + lines[j]
			}
			return c12Norm(text)
		}
	}
	return "<missing>"
}

func init() {
	registerFacts("C12", func(repo string, pkgs map[string][]*ast.File) (string, map[string]interface{}) {
		var b strings.Builder
		js := map[string]interface{}{}

		// ---- reprEscapes: escapes['\a'] = []byte(`\a`)
		type esc struct {
			c  int
			bs []int
		}
		var escs []esc
		size := 0
		if v := c12FindVar(pkgs["rel"], "reprEscapes"); v != nil {
			ast.Inspect(v, func(n ast.Node) bool {
				switch n := n.(type) {
				case *ast.CallExpr:
					if id, ok := n.Fun.(*ast.Ident); ok && id.Name == "make" && len(n.Args) == 2 {
						if k, ok := c12IntLit(n.Args[1]); ok {
							size = k
						}
					}
				case *ast.AssignStmt:
					if len(n.Lhs) == 1 && len(n.Rhs) == 1 {
						ix, ok := n.Lhs[0].(*ast.IndexExpr)
						if !ok {
							return true
						}
						c, ok := c12CharLit(ix.Index)
						if !ok {
							return true
						}
						call, ok := n.Rhs[0].(*ast.CallExpr)
						if !ok || len(call.Args) != 1 {
							return true
						}
						s, ok := c12StrLit(call.Args[0])
						if !ok {
							return true
						}
						var bs []int
						for _, x := range []byte(s) {
							bs = append(bs, int(x))
						}
						escs = append(escs, esc{c, bs})
					}
				}
				return true
			})
		}
		sort.Slice(escs, func(i, j int) bool { return escs[i].c < escs[j].c })
		parts := []string{}
		for _, e := range escs {
			parts = append(parts, fmt.Sprintf("(%d, %s)", e.c, c12Nats(e.bs)))
		}
		fmt.Fprintf(&b, "def c12_reprEscapes : List (Nat × List Nat) := [%s]\n", strings.Join(parts, ", "))
		fmt.Fprintf(&b, "def c12_reprEscapesSize : Nat := %d\n", size)

		// ---- reprEscape: the if / else-if chain inside the range loop: (condition, action)
		var branches []string
		if fd := c12FindFunc(pkgs["rel"], "", "reprEscape"); fd != nil {
			ast.Inspect(fd.Body, func(n ast.Node) bool {
				rs, ok := n.(*ast.RangeStmt)
				if !ok {
					return true
				}
				branches = append(branches, "range "+c12Norm(src(rs.X)))
				var walk func(s ast.Stmt)
				walk = func(s ast.Stmt) {
					switch s := s.(type) {
					case *ast.IfStmt:
						cond := c12Norm(src(s.Cond))
						if s.Init != nil {
							cond = c12Norm(src(s.Init)) + "; " + cond
						}
						branches = append(branches, "if "+cond+" => "+c12Norm(src(s.Body)))
						if s.Else != nil {
							walk(s.Else)
						}
					case *ast.BlockStmt:
						branches = append(branches, "else => "+c12Norm(src(s)))
					}
				}
				for _, st := range rs.Body.List {
					walk(st)
				}
				return false
			})
		}
		fmt.Fprintf(&b, "def c12_reprEscapeBranches : List String := %s\n", c12Strs(branches))
		for _, fn := range []string{"reprOffset", "reprStr", "reprString"} {
			body := "<missing>"
			if fd := c12FindFunc(pkgs["rel"], "", fn); fd != nil {
				body = c12Norm(src(fd.Body))
			}
			fmt.Fprintf(&b, "def c12_%s : String := %s\n", fn, leanStr(body))
		}

		// ---- parseArraiStringFragment
		type ec struct {
			c    int
			kind string
			args []int
		}
		var cases []ec
		deflt, numberRet, numberParse, loopHdr, numberParams := "<missing>", "<missing>", "<missing>", "<missing>", "<missing>"
		var guards []string
		if fd := c12FindFunc(pkgs["syntax"], "", "parseArraiStringFragment"); fd != nil {
			// every `if` of the function, in source order: the bounds / error guards
			ast.Inspect(fd.Body, func(n ast.Node) bool {
				if is, ok := n.(*ast.IfStmt); ok {
					guards = append(guards, c12Norm(src(is.Cond)))
				}
				return true
			})
			ast.Inspect(fd.Body, func(n ast.Node) bool {
				switch n := n.(type) {
				case *ast.AssignStmt:
					// number := func(i, size, base, bits int) int { ... }
					if len(n.Lhs) == 1 && len(n.Rhs) == 1 {
						if id, ok := n.Lhs[0].(*ast.Ident); ok && id.Name == "number" {
							if fl, ok := n.Rhs[0].(*ast.FuncLit); ok {
								numberParams = c12Norm(src(fl.Type))
								var rets []string
								ast.Inspect(fl.Body, func(m ast.Node) bool {
									switch m := m.(type) {
									case *ast.ReturnStmt:
										// the index handed back to the loop (first result), every return in source order
										if len(m.Results) >= 1 {
											rets = append(rets, c12Norm(src(m.Results[0])))
											numberRet = strings.Join(rets, " | ")
										}
									case *ast.CallExpr:
										if strings.HasPrefix(c12Norm(src(m.Fun)), "strconv.") {
											numberParse = c12Norm(src(m))
										}
									}
									return true
								})
								return false
							}
						}
					}
				case *ast.ForStmt:
					loopHdr = c12Norm(src(n.Init)) + "; " + c12Norm(src(n.Cond)) + "; " + c12Norm(src(n.Post))
				case *ast.SwitchStmt:
					if c12Norm(src(n.Tag)) != "s[i]" {
						return true
					}
					for _, st := range n.Body.List {
						cc := st.(*ast.CaseClause)
						if cc.List == nil {
							deflt = c12Norm(src(&ast.BlockStmt{List: cc.Body}))
							continue
						}
						kind, args := "other:"+c12Norm(src(&ast.BlockStmt{List: cc.Body})), []int(nil)
						if len(cc.Body) == 1 {
							switch s := cc.Body[0].(type) {
							case *ast.AssignStmt: // i = number(i+1, 2, 16, 8)
								if call, ok := s.Rhs[0].(*ast.CallExpr); ok && c12Norm(src(s.Lhs[0])) == "i" && c12Norm(src(call.Fun)) == "number" {
									kind = "number"
									switch c12Norm(src(call.Args[0])) {
									case "i":
										args = append(args, 0)
									case "i + 1", "i+1":
										args = append(args, 1)
									default:
										kind = "other:" + c12Norm(src(s))
									}
									for _, a := range call.Args[1:] {
										if k, ok := c12IntLit(a); ok {
											args = append(args, k)
										} else {
											kind = "other:" + c12Norm(src(s))
										}
									}
								}
							case *ast.ExprStmt:
								if call, ok := s.X.(*ast.CallExpr); ok && len(call.Args) == 1 {
									switch c12Norm(src(call.Fun)) {
									case "sb.WriteByte":
										if c, ok := c12CharLit(call.Args[0]); ok {
											kind, args = "byte", []int{c}
										}
									case "sb.WriteString":
										if c12Norm(src(call.Args[0])) == "indent" {
											kind, args = "indent", []int{}
										}
									}
								}
							}
						}
						for _, l := range cc.List {
							if c, ok := c12CharLit(l); ok {
								cases = append(cases, ec{c, kind, args})
							} else {
								cases = append(cases, ec{-1, "label:" + c12Norm(src(l)), nil})
							}
						}
					}
					return false
				}
				return true
			})
		}
		sort.SliceStable(cases, func(i, j int) bool { return cases[i].c < cases[j].c })
		parts = parts[:0]
		others := []string{}
		for _, e := range cases {
			c := e.c
			if c < 0 {
				c = 1 << 30
			}
			code, ok := map[string]int{"number": 1, "byte": 2, "indent": 3}[e.kind]
			if !ok {
				others = append(others, fmt.Sprintf("%d: %s", c, e.kind))
			}
			parts = append(parts, fmt.Sprintf("(%d, %d, %s)", c, code, c12Nats(e.args)))
		}
		// action codes: 1 = i = number(i+args[0], args[1], args[2], args[3]); 2 = sb.WriteByte(args[0]); 3 = sb.WriteString(indent); 0 = other
		fmt.Fprintf(&b, "def c12_escapeCases : List (Nat × Nat × List Nat) := [\n  %s]\n", strings.Join(parts, ",\n  "))
		fmt.Fprintf(&b, "def c12_escapeOther : List String := %s\n", c12Strs(others))
		fmt.Fprintf(&b, "def c12_escapeDefault : String := %s\n", leanStr(deflt))
		fmt.Fprintf(&b, "def c12_numberParams : String := %s\n", leanStr(numberParams))
		fmt.Fprintf(&b, "def c12_numberParse : String := %s\n", leanStr(numberParse))
		fmt.Fprintf(&b, "def c12_numberReturn : String := %s\n", leanStr(numberRet))
		fmt.Fprintf(&b, "def c12_fragmentLoop : String := %s\n", leanStr(loopHdr))
		fmt.Fprintf(&b, "def c12_fragmentGuards : List String := %s\n", c12Strs(guards))

		// ---- renderableBytesRE, LexerNamePat / identRE
		pat := "<missing>"
		if v := c12FindVar(pkgs["rel"], "renderableBytesRE"); v != nil {
			if call, ok := v.(*ast.CallExpr); ok && len(call.Args) == 1 {
				if s, ok := c12StrLit(call.Args[0]); ok {
					pat = s
				}
			}
		}
		shape, classes := c12ClassesOf(pat)
		fmt.Fprintf(&b, "def c12_renderableShape : String := %s\n", leanStr(shape))
		rb := []int{}
		if len(classes) == 1 {
			rb = classes[0]
		}
		fmt.Fprintf(&b, "def c12_renderableBytes : List Nat := %s\n", c12Nats(rb))

		namePat := "<missing>"
		if v := c12FindVar(pkgs["rel"], "LexerNamePat"); v != nil {
			if s, ok := c12StrLit(v); ok {
				namePat = s
			}
		}
		identExpr := "<missing>"
		if v := c12FindVar(pkgs["rel"], "identRE"); v != nil {
			identExpr = c12Norm(src(v))
		}
		shape, classes = c12ClassesOf(namePat)
		fmt.Fprintf(&b, "def c12_identRE : String := %s\n", leanStr(identExpr))
		fmt.Fprintf(&b, "def c12_namePatShape : String := %s\n", leanStr(shape))
		for len(classes) < 2 {
			classes = append(classes, []int{})
		}
		fmt.Fprintf(&b, "def c12_identStart : List Nat := %s\n", c12Nats(classes[0]))
		fmt.Fprintf(&b, "def c12_identRest : List Nat := %s\n", c12Nats(classes[1]))
		tnr := "<missing>"
		if fd := c12FindFunc(pkgs["rel"], "", "TupleNameRepr"); fd != nil {
			tnr = c12Norm(src(fd.Body))
		}
		fmt.Fprintf(&b, "def c12_tupleNameRepr : String := %s\n", leanStr(tnr))

		// ---- grammar tokens
		for _, t := range []string{"STR", "NUM", "IDENT", "names"} {
			fmt.Fprintf(&b, "def c12_wbnf_%s : String := %s\n", t, leanStr(c12WbnfToken(repo, t)))
		}

		// ---- bundleConfig.String, OutputValue, formatFloat64, Number.String
		bcf := "<missing>"
		if fd := c12FindFunc(pkgs["syntax"], "bundleConfig", "String"); fd != nil {
			bcf = c12Norm(src(fd.Body))
		}
		fmt.Fprintf(&b, "def c12_bundleConfigString : String := %s\n", leanStr(bcf))
		var outCases []string
		if fd := c12FindFunc(pkgs["pkg/arrai"], "", "OutputValue"); fd != nil {
			ast.Inspect(fd.Body, func(n ast.Node) bool {
				ts, ok := n.(*ast.TypeSwitchStmt)
				if !ok {
					return true
				}
				for _, st := range ts.Body.List {
					cc := st.(*ast.CaseClause)
					label := "default"
					if cc.List != nil {
						ls := []string{}
						for _, l := range cc.List {
							ls = append(ls, c12Norm(src(l)))
						}
						label = strings.Join(ls, ",")
					}
					outCases = append(outCases, label+" => "+c12Norm(src(&ast.BlockStmt{List: cc.Body})))
				}
				return false
			})
		}
		fmt.Fprintf(&b, "def c12_outputValueCases : List String := %s\n", c12Strs(outCases))
		var lens []int
		if fd := c12FindFunc(pkgs["rel"], "", "formatFloat64"); fd != nil {
			ast.Inspect(fd.Body, func(n ast.Node) bool {
				if be, ok := n.(*ast.BinaryExpr); ok && be.Op == token.LSS && strings.HasPrefix(c12Norm(src(be.X)), "len(") {
					if k, ok := c12IntLit(be.Y); ok {
						lens = append(lens, k)
					}
				}
				return true
			})
		}
		fmt.Fprintf(&b, "def c12_formatFloatLens : List Nat := %s\n", c12Nats(lens))
		ns := "<missing>"
		if fd := c12FindFunc(pkgs["rel"], "Number", "String"); fd != nil {
			ns = c12Norm(src(fd.Body))
		}
		fmt.Fprintf(&b, "def c12_numberString : String := %s\n", leanStr(ns))

		// ---- printer punctuation: string literals of the Format methods, in source order
		type fm struct{ recv, name string }
		var fmts []string
		for _, m := range []fm{{"Array", "Format"}, {"Bytes", "Format"}, {"Dict", "Format"}, {"GenericSet", "Format"},
			{"UnionSet", "Format"}, {"Relation", "Format"}, {"GenericTuple", "Format"}, {"String", "Format"},
			{"ArrayItemTuple", "Format"}, {"BytesByteTuple", "Format"}, {"DictEntryTuple", "Format"},
			{"StringCharTuple", "Format"}, {"", "reprOrderableSet"}, {"", "reprEscape"}, {"", "reprOffset"}} {
			lits := []string{}
			if fd := c12FindFunc(pkgs["rel"], m.recv, m.name); fd != nil {
				ast.Inspect(fd.Body, func(n ast.Node) bool {
					if bl, ok := n.(*ast.BasicLit); ok && bl.Kind == token.STRING {
						if s, err := strconv.Unquote(bl.Value); err == nil {
							lits = append(lits, s)
						}
					}
					return true
				})
			} else {
				lits = append(lits, "<missing>")
			}
			fmts = append(fmts, m.recv+"."+m.name+": "+strings.Join(lits, " ¦ "))
		}
		fmt.Fprintf(&b, "def c12_formatLiterals : List String := [\n  %s]\n", strings.Join(func() []string {
			out := make([]string, len(fmts))
			for i, s := range fmts {
				out[i] = leanStr(s)
			}
			return out
		}(), ",\n  "))
		consts := []string{}
		for _, c := range []string{"sTrue", "sFalse", "sEmptySet", "negateTag"} {
			consts = append(consts, c+"="+c12ConstStr(pkgs["rel"], c))
		}
		fmt.Fprintf(&b, "def c12_consts : List String := %s\n", c12Strs(consts))

		js["c12_escapeCases"] = len(cases)
		js["c12_reprEscapes"] = len(escs)
		return b.String(), js
	})
}

func c12ConstStr(files []*ast.File, name string) string {
	for _, f := range files {
		for _, d := range f.Decls {
			gd, ok := d.(*ast.GenDecl)
			if !ok || (gd.Tok != token.CONST && gd.Tok != token.VAR) {
				continue
			}
			for _, sp := range gd.Specs {
				vs := sp.(*ast.ValueSpec)
				for i, n := range vs.Names {
					if n.Name == name && i < len(vs.Values) {
						if s, ok := c12StrLit(vs.Values[i]); ok {
							return s
						}
						return c12Norm(src(vs.Values[i]))
					}
				}
			}
		}
	}
	return "<missing>"
}
