package main

// C18 facts: the attribute paths of the Go standard library tuples (safe tuple, what StdScope adds,
// what is merged on top), the arr.ai wrapper scripts that run on top of them (read from the embedded
// bundles, which is what the interpreter executes), and every call site through which source text is
// evaluated or a scope is reset — with its enclosing function.  No semantics: collect, normalise, sort.

import (
	"archive/zip"
	"fmt"
	"go/ast"
	"go/token"
	"io"
	"path/filepath"
	"regexp"
	"sort"
	"strconv"
	"strings"
)

type c18Leaf struct {
	Path []string
	Kind string
}

type c18x struct {
	funcs  map[string]*ast.FuncDecl
	consts map[string]string
	vars   map[string]ast.Expr
}

func c18Index(files []*ast.File) *c18x {
	x := &c18x{funcs: map[string]*ast.FuncDecl{}, consts: map[string]string{}, vars: map[string]ast.Expr{}}
	for _, f := range files {
		for _, d := range f.Decls {
			switch d := d.(type) {
			case *ast.FuncDecl:
				if d.Recv == nil {
					x.funcs[d.Name.Name] = d
				}
			case *ast.GenDecl:
				for _, sp := range d.Specs {
					vs, ok := sp.(*ast.ValueSpec)
					if !ok {
						continue
					}
					for i, n := range vs.Names {
						if i >= len(vs.Values) {
							continue
						}
						if d.Tok == token.CONST {
							if bl, ok := vs.Values[i].(*ast.BasicLit); ok && bl.Kind == token.STRING {
								if s, err := strconv.Unquote(bl.Value); err == nil {
									x.consts[n.Name] = s
								}
							}
						} else if d.Tok == token.VAR {
							x.vars[n.Name] = vs.Values[i]
						}
					}
				}
			}
		}
	}
	return x
}

func c18Norm(n ast.Node) string {
	s := strings.Join(strings.Fields(src(n)), " ")
	if len(s) > 60 {
		s = s[:60] + "…"
	}
	return s
}

func callName(c *ast.CallExpr) string {
	switch f := c.Fun.(type) {
	case *ast.Ident:
		return f.Name
	case *ast.SelectorExpr:
		if id, ok := f.X.(*ast.Ident); ok {
			return id.Name + "." + f.Sel.Name
		}
		return "?." + f.Sel.Name
	}
	return "?"
}

func (x *c18x) str(e ast.Expr, env map[string]ast.Expr) string {
	switch e := e.(type) {
	case *ast.BasicLit:
		if e.Kind == token.STRING {
			if s, err := strconv.Unquote(e.Value); err == nil {
				return s
			}
		}
		return e.Value
	case *ast.Ident:
		if v, ok := env[e.Name]; ok {
			return x.str(v, nil)
		}
		if s, ok := x.consts[e.Name]; ok {
			return s
		}
		return "?" + e.Name
	}
	return "?" + c18Norm(e)
}

func prefix(name string, ls []c18Leaf) []c18Leaf {
	out := make([]c18Leaf, 0, len(ls))
	for _, l := range ls {
		out = append(out, c18Leaf{append([]string{name}, l.Path...), l.Kind})
	}
	return out
}

// singleReturn gives the expression of a function whose body ends in `return <expr>`.
func singleReturn(fd *ast.FuncDecl) ast.Expr {
	if fd == nil || fd.Body == nil || len(fd.Body.List) == 0 {
		return nil
	}
	if r, ok := fd.Body.List[len(fd.Body.List)-1].(*ast.ReturnStmt); ok && len(r.Results) == 1 {
		return r.Results[0]
	}
	return nil
}

func bindParams(fd *ast.FuncDecl, args []ast.Expr, env map[string]ast.Expr) map[string]ast.Expr {
	out := map[string]ast.Expr{}
	i := 0
	for _, fl := range fd.Type.Params.List {
		for _, n := range fl.Names {
			if i < len(args) {
				a := args[i]
				if id, ok := a.(*ast.Ident); ok {
					if v, ok := env[id.Name]; ok {
						a = v
					}
				}
				out[n.Name] = a
			}
			i++
		}
	}
	return out
}

// attr lists the leaves built by an expression of type rel.Attr.
func (x *c18x) attr(e ast.Expr, env map[string]ast.Expr, depth int) []c18Leaf {
	c, ok := e.(*ast.CallExpr)
	if !ok || depth > 12 {
		return []c18Leaf{{[]string{"?" + c18Norm(e)}, "unknown"}}
	}
	name := callName(c)
	arg0 := func() string {
		if len(c.Args) == 0 {
			return "?"
		}
		return x.str(c.Args[0], env)
	}
	switch name {
	case "rel.NewTupleAttr":
		kids := x.attrs(c.Args[1:], c.Ellipsis != token.NoPos, env, depth+1)
		if len(kids) == 0 {
			return []c18Leaf{{[]string{arg0()}, "emptytuple"}}
		}
		return prefix(arg0(), kids)
	case "rel.NewNativeFunctionAttr", "newFloatFuncAttr":
		return []c18Leaf{{[]string{arg0()}, "native"}}
	case "createFunc2Attr":
		return []c18Leaf{{[]string{arg0()}, "native2"}}
	case "createFunc3Attr":
		return []c18Leaf{{[]string{arg0()}, "native3"}}
	case "createNestedFuncAttr":
		return []c18Leaf{{[]string{arg0()}, "nested" + x.str(c.Args[1], env)}}
	case "rel.NewFloatAttr", "rel.NewStringAttr", "rel.NewBoolAttr", "rel.NewIntAttr":
		return []c18Leaf{{[]string{arg0()}, "data"}}
	case "rel.NewAttr":
		if len(c.Args) == 2 {
			return prefix(arg0(), x.value(c.Args[1], env, depth+1))
		}
	}
	if fd, ok := x.funcs[name]; ok {
		if r := singleReturn(fd); r != nil {
			return x.attr(r, bindParams(fd, c.Args, env), depth+1)
		}
	}
	return []c18Leaf{{[]string{"?" + c18Norm(e)}, "unknown"}}
}

// attrs lists the leaves of an argument list of rel.Attr expressions; a trailing `f()...` is expanded
// through the `append(a, <attr>)` statements of f.
func (x *c18x) attrs(args []ast.Expr, ellipsis bool, env map[string]ast.Expr, depth int) []c18Leaf {
	var out []c18Leaf
	for i, a := range args {
		if ellipsis && i == len(args)-1 {
			if c, ok := a.(*ast.CallExpr); ok {
				if fd, ok := x.funcs[callName(c)]; ok && fd.Body != nil {
					ast.Inspect(fd.Body, func(n ast.Node) bool {
						if _, isLit := n.(*ast.FuncLit); isLit {
							return false
						}
						if ap, ok := n.(*ast.CallExpr); ok && callName(ap) == "append" && len(ap.Args) >= 2 {
							for _, el := range ap.Args[1:] {
								out = append(out, x.attr(el, env, depth+1)...)
							}
							return false
						}
						return true
					})
					continue
				}
			}
			out = append(out, c18Leaf{[]string{"?" + c18Norm(a) + "..."}, "unknown"})
			continue
		}
		out = append(out, x.attr(a, env, depth+1)...)
	}
	return out
}

// value lists the leaves of an expression of type rel.Value (path relative to the value).
func (x *c18x) value(e ast.Expr, env map[string]ast.Expr, depth int) []c18Leaf {
	if depth > 12 {
		return []c18Leaf{{nil, "value:" + c18Norm(e)}}
	}
	switch e := e.(type) {
	case *ast.CallExpr:
		switch callName(e) {
		case "rel.NewTuple":
			kids := x.attrs(e.Args, e.Ellipsis != token.NoPos, env, depth+1)
			if len(kids) == 0 {
				return []c18Leaf{{nil, "emptytuple"}}
			}
			return kids
		case "rel.NewNativeFunction":
			return []c18Leaf{{nil, "native:" + x.str(e.Args[0], env)}}
		case "createFunc2":
			return []c18Leaf{{nil, "native2:" + x.str(e.Args[0], env)}}
		case "createFunc3":
			return []c18Leaf{{nil, "native3:" + x.str(e.Args[0], env)}}
		case "mustCreateNestedFunc":
			return []c18Leaf{{nil, "nested" + x.str(e.Args[1], env) + ":" + x.str(e.Args[0], env)}}
		case "mustParseLit":
			return []c18Leaf{{nil, "arrai:" + x.str(e.Args[0], env)}}
		}
	case *ast.Ident:
		if v, ok := env[e.Name]; ok {
			return x.value(v, nil, depth+1)
		}
		if v, ok := x.vars[e.Name]; ok {
			return x.value(v, nil, depth+1)
		}
	}
	return []c18Leaf{{nil, "value:" + c18Norm(e)}}
}

func sortLeaves(ls []c18Leaf) {
	sort.SliceStable(ls, func(i, j int) bool {
		return strings.Join(ls[i].Path, "\x00") < strings.Join(ls[j].Path, "\x00")
	})
}

func leanLeaves(name string, ls []c18Leaf) string {
	var b strings.Builder
	fmt.Fprintf(&b, "def %s : List (List String × String) := [\n", name)
	for i, l := range ls {
		segs := make([]string, len(l.Path))
		for k, s := range l.Path {
			segs[k] = leanStr(s)
		}
		sep := ","
		if i == len(ls)-1 {
			sep = ""
		}
		fmt.Fprintf(&b, "  ([%s], %s)%s\n", strings.Join(segs, ", "), leanStr(l.Kind), sep)
	}
	b.WriteString("]\n\n")
	return b.String()
}

// assignedCalls finds, among the statements of a function body (function literals excluded), the calls
// named `want` and returns them in source order.
func assignedCalls(body ast.Node, want string, intoLits bool) []*ast.CallExpr {
	var out []*ast.CallExpr
	ast.Inspect(body, func(n ast.Node) bool {
		if _, isLit := n.(*ast.FuncLit); isLit && !intoLits {
			return false
		}
		if c, ok := n.(*ast.CallExpr); ok && callName(c) == want {
			out = append(out, c)
			return false
		}
		return true
	})
	return out
}

var c18CommentRE = regexp.MustCompile(`(?m)^\s*#.*$`)

func normArrai(s string) string {
	return strings.Join(strings.Fields(c18CommentRE.ReplaceAllString(s, "")), " ")
}

func bundleFile(path, suffix string) string {
	r, err := zip.OpenReader(path)
	if err != nil {
		return "?missing bundle " + filepath.Base(path)
	}
	defer r.Close()
	for _, f := range r.File {
		if strings.HasSuffix(f.Name, suffix) {
			rc, err := f.Open()
			if err != nil {
				return "?unreadable"
			}
			defer rc.Close()
			b, _ := io.ReadAll(rc)
			return string(b)
		}
	}
	return "?not in bundle"
}

var c18PkgRefRE = regexp.MustCompile(`//(\{[^}]*\}|[a-z_][a-z_0-9]*(\.[a-z_][a-z_0-9]*)*)`)

type c18Site struct {
	Fn, What string
	N      int
}

func isEmptyScopeExpr(e ast.Expr) bool {
	switch strings.Join(strings.Fields(src(e)), "") {
	case "rel.EmptyScope", "EmptyScope", "rel.Scope{}", "Scope{}":
		return true
	}
	return false
}

var c18Watched = map[string]string{
	"StdScope": "StdScope()", "syntax.StdScope": "StdScope()",
	"SafeStdScope": "SafeStdScope()", "syntax.SafeStdScope": "SafeStdScope()",
	"SafeStdScopeTuple": "SafeStdScopeTuple()", "syntax.SafeStdScopeTuple": "SafeStdScopeTuple()",
	"EvaluateExpr": "EvaluateExpr", "syntax.EvaluateExpr": "EvaluateExpr",
	"EvalWithScope": "EvalWithScope", "syntax.EvalWithScope": "EvalWithScope",
	"contextualEval": "contextualEval",
	"baseScope":      "baseScope", "withSandbox": "withSandbox", "isSandboxed": "isSandboxed",
	"withStdlibInEffect": "withStdlibInEffect",
	"exec.Command":       "exec.Command", "http.Get": "http.Get", "http.Post": "http.Post",
	"http.NewRequest": "http.NewRequest", "afero.ReadFile": "afero.ReadFile",
	"os.ReadFile": "os.ReadFile", "ioutil.ReadFile": "ioutil.ReadFile", "os.Open": "os.Open",
	"os.Getenv": "os.Getenv", "filepath.Walk": "filepath.Walk", "os.Getwd": "os.Getwd",
}

func c18Sites(pkgs map[string][]*ast.File, dirs []string) []c18Site {
	count := map[[2]string]int{}
	for _, d := range dirs {
		for _, f := range pkgs[d] {
			for _, decl := range f.Decls {
				fd, ok := decl.(*ast.FuncDecl)
				if !ok || fd.Body == nil {
					continue
				}
				fn := d + "." + recvName(fd) + fd.Name.Name
				ast.Inspect(fd.Body, func(n ast.Node) bool {
					switch n := n.(type) {
					case *ast.CallExpr:
						name := callName(n)
						if w, ok := c18Watched[name]; ok {
							count[[2]string{fn, w}]++
						}
						if sel, ok := n.Fun.(*ast.SelectorExpr); ok {
							if sel.Sel.Name == "Eval" && len(n.Args) == 2 {
								if isEmptyScopeExpr(n.Args[1]) {
									count[[2]string{fn, "Eval(EmptyScope)"}]++
								} else if d == "syntax" {
									count[[2]string{fn, "Eval(" + c18Norm(n.Args[1]) + ")"}]++
								}
							}
							if sel.Sel.Name == "Do" && strings.Contains(src(sel.X), "http.") {
								count[[2]string{fn, "http.Client.Do"}]++
							}
						}
					case *ast.CompositeLit:
						t := strings.Join(strings.Fields(src(n.Type)), "")
						if t == "[]rel.Scope" {
							count[[2]string{fn, "[]rel.Scope{…}"}]++
						}
					}
					return true
				})
			}
		}
	}
	var out []c18Site
	for k, n := range count {
		out = append(out, c18Site{k[0], k[1], n})
	}
	sort.Slice(out, func(i, j int) bool {
		if out[i].Fn != out[j].Fn {
			return out[i].Fn < out[j].Fn
		}
		return out[i].What < out[j].What
	})
	return out
}

func init() {
	registerFacts("C18", func(repo string, pkgs map[string][]*ast.File) (string, map[string]interface{}) {
		x := c18Index(pkgs["syntax"])
		var b strings.Builder
		js := map[string]interface{}{}

		// ---- the Go tuple built by SafeStdScopeTuple, and what it merges on top of the wrapped result
		var safeGo, safeMerged, unsafeOnly []c18Leaf
		if fd := x.funcs["SafeStdScopeTuple"]; fd != nil {
			tuples := assignedCalls(fd.Body, "rel.NewTuple", false)
			if len(tuples) > 0 {
				safeGo = x.value(tuples[0], nil, 0)
			}
			for _, m := range assignedCalls(fd.Body, "rel.MergeTuples", false) {
				if len(m.Args) == 2 {
					safeMerged = append(safeMerged, x.value(m.Args[1], nil, 0)...)
				}
			}
		}
		// ---- what StdScope merges on top of the safe tuple
		stdScopeBase := "?"
		if fd := x.funcs["StdScope"]; fd != nil {
			for _, m := range assignedCalls(fd.Body, "rel.MergeTuples", true) {
				if len(m.Args) == 2 {
					stdScopeBase = c18Norm(m.Args[0])
					unsafeOnly = append(unsafeOnly, x.value(m.Args[1], nil, 0)...)
				}
			}
		}
		sortLeaves(safeGo)
		sortLeaves(safeMerged)
		sortLeaves(unsafeOnly)
		b.WriteString(leanLeaves("c18SafeGo", safeGo))
		b.WriteString(leanLeaves("c18SafeMerged", safeMerged))
		b.WriteString(leanLeaves("c18UnsafeOnly", unsafeOnly))
		fmt.Fprintf(&b, "def c18StdScopeBase : String := %s\n\n", leanStr(stdScopeBase))

		// ---- the arr.ai wrappers (from the embedded bundles) and the // references of every bundled script
		embed := filepath.Join(repo, "syntax", "embed")
		safeW := normArrai(bundleFile(filepath.Join(embed, "stdlib-safe.arraiz"), "/stdlib-safe.arrai"))
		unsafeW := normArrai(bundleFile(filepath.Join(embed, "stdlib-unsafe.arraiz"), "/stdlib-unsafe.arrai"))
		fmt.Fprintf(&b, "def c18SafeWrapper : String := %s\n\n", leanStr(safeW))
		fmt.Fprintf(&b, "def c18UnsafeWrapper : String := %s\n\n", leanStr(unsafeW))
		refs := map[string]bool{}
		if r, err := zip.OpenReader(filepath.Join(embed, "stdlib-safe.arraiz")); err == nil {
			for _, f := range r.File {
				if !strings.HasSuffix(f.Name, ".arrai") || strings.HasSuffix(f.Name, "config.arrai") {
					continue
				}
				rc, err := f.Open()
				if err != nil {
					continue
				}
				data, _ := io.ReadAll(rc)
				rc.Close()
				for _, m := range c18PkgRefRE.FindAllString(c18CommentRE.ReplaceAllString(string(data), ""), -1) {
					refs[filepath.Base(f.Name)+": "+m] = true
				}
			}
			r.Close()
		}
		var refList []string
		for r := range refs {
			refList = append(refList, r)
		}
		sort.Strings(refList)
		b.WriteString("def c18WrapperPkgRefs : List String := [")
		for i, r := range refList {
			if i > 0 {
				b.WriteString(", ")
			}
			b.WriteString(leanStr(r))
		}
		b.WriteString("]\n\n")

		// ---- call sites through which source is evaluated, a scope is reset, or the outside world is reached
		all := map[string][]*ast.File{}
		dirs := []string{}
		for d, fs := range pkgs {
			all[d] = fs
			dirs = append(dirs, d)
		}
		for _, d := range []string{"pkg/shell", "cmd/arrai", "pkg/arrai", "pkg/test", "internal/runtime"} {
			if _, ok := all[d]; !ok {
				all[d] = parseDir(filepath.Join(repo, d))
				dirs = append(dirs, d)
			}
		}
		sort.Strings(dirs)
		sites := c18Sites(all, dirs)
		b.WriteString("def c18Sites : List (String × String × Nat) := [\n")
		for i, s := range sites {
			sep := ","
			if i == len(sites)-1 {
				sep = ""
			}
			fmt.Fprintf(&b, "  (%s, %s, %d)%s\n", leanStr(s.Fn), leanStr(s.What), s.N, sep)
		}
		b.WriteString("]\n")

		js["c18SafeGo"] = safeGo
		js["c18SafeMerged"] = safeMerged
		js["c18UnsafeOnly"] = unsafeOnly
		js["c18Sites"] = sites
		js["c18WrapperPkgRefs"] = refList
		return b.String(), js
	})
}
