// facts for C03: the inventory of WRITE SITES in rel/*.go and syntax/std_seq*.go.
//
// A write site is `x[i] = v` (also `x[i] op= v`, `x[i]++`), `append(x, …)` or `copy(x, …)`.
// The destination `x` is stripped of index/slice/paren/star wrappers down to its root expression and
// classified by a simple walk of the enclosing function (go/ast only, no types):
//
//	fresh : the root is a local identifier all of whose definitions in the function are a `make`, a composite
//	        literal, a conversion `[]T(…)`/`T(…)`-free allocation (`append(make…)`, `append([]T{…}, …)`), a `nil`
//	        `var` declaration, or a self-append `x = append(x, …)`; or the root is itself such an expression;
//	        or the root is a selector `a.f` that is assigned such an expression on every path we can see
//	        (`a.f = make(…)` somewhere in the function and never anything else)
//	param : the root is (a field of) a parameter or the receiver
//	field : the root is a selector on something else (a local struct value, a call result)
//	local : a local identifier with some other definition (call result, range variable, …)
//
//	call  : the root is the result of a call (`append(x.values(), …)`): safe only if the CALLEE returns a slice of its own
//
// Emitted: `c03_nonfresh` (every site that is not `fresh`, with file, function, site text, class),
// `c03_summary` (number of sites per file and class), and `c03_callees`: for every function in rel/ and
// syntax/std_seq*.go whose result a write site's destination comes from (class `call`, or a `local` defined by a call),
// plus a fixed list of slice-returning helpers the heap model relies on or that hand out a value's own slice,
// the classification of EVERY return statement ("fresh" when all are; otherwise `class:expr` per return) — so that a
// callee that starts returning its receiver's slice (e.g. `return pv.v`) changes its row.
package main

import (
	"fmt"
	"go/ast"
	"go/token"
	"path/filepath"
	"sort"
	"strings"
)

type c03Site struct {
	file, fn, site, class string
}

func c03StripRoot(e ast.Expr) ast.Expr {
	for {
		switch x := e.(type) {
		case *ast.IndexExpr:
			e = x.X
		case *ast.SliceExpr:
			e = x.X
		case *ast.ParenExpr:
			e = x.X
		case *ast.StarExpr:
			e = x.X
		default:
			return e
		}
	}
}

// c03FreshExpr: does this expression evaluate to newly allocated storage?
func c03FreshExpr(e ast.Expr, self string) bool {
	switch x := e.(type) {
	case *ast.CompositeLit:
		return true
	case *ast.ParenExpr:
		return c03FreshExpr(x.X, self)
	case *ast.SliceExpr:
		return c03FreshExpr(x.X, self) // a window of fresh storage is fresh
	case *ast.Ident:
		return x.Name == "nil" || (self != "" && x.Name == self)
	case *ast.CallExpr:
		if id, ok := x.Fun.(*ast.Ident); ok {
			switch id.Name {
			case "make", "new":
				return true
			case "append":
				return len(x.Args) > 0 && c03FreshExpr(x.Args[0], self)
			}
		}
		// conversions that copy: []rune(s), []byte(s)
		if at, ok := x.Fun.(*ast.ArrayType); ok && at.Len == nil && len(x.Args) == 1 {
			return true
		}
	}
	return false
}

func c03Params(fd *ast.FuncDecl) map[string]bool {
	ps := map[string]bool{}
	add := func(fl *ast.FieldList) {
		if fl == nil {
			return
		}
		for _, f := range fl.List {
			for _, n := range f.Names {
				ps[n.Name] = true
			}
		}
	}
	add(fd.Recv)
	add(fd.Type.Params)
	add(fd.Type.Results)
	return ps
}

func c03Classify(root ast.Expr, fd *ast.FuncDecl) string {
	if c03FreshExpr(root, "") {
		return "fresh"
	}
	params := c03Params(fd)
	// every definition of `name` (identifier or selector text) in the function
	defsOf := func(name string) (defs []ast.Expr, other bool) {
		ast.Inspect(fd.Body, func(n ast.Node) bool {
			switch s := n.(type) {
			case *ast.FuncLit:
				// closures may capture and redefine; look inside too
				return true
			case *ast.AssignStmt:
				for i, l := range s.Lhs {
					if strings.Join(strings.Fields(src(l)), "") != name {
						continue
					}
					if len(s.Rhs) == len(s.Lhs) {
						defs = append(defs, s.Rhs[i])
					} else {
						other = true // multi-value call result
					}
				}
			case *ast.ValueSpec:
				for i, id := range s.Names {
					if id.Name != name {
						continue
					}
					if len(s.Values) == 0 {
						defs = append(defs, ast.NewIdent("nil"))
					} else if len(s.Values) == len(s.Names) {
						defs = append(defs, s.Values[i])
					} else {
						other = true
					}
				}
			case *ast.RangeStmt:
				for _, kv := range []ast.Expr{s.Key, s.Value} {
					if kv != nil && strings.Join(strings.Fields(src(kv)), "") == name {
						other = true
					}
				}
			}
			return true
		})
		return
	}
	allFresh := func(name string) bool {
		defs, other := defsOf(name)
		if other || len(defs) == 0 {
			return false
		}
		for _, d := range defs {
			if !c03FreshExpr(d, name) {
				return false
			}
		}
		return true
	}
	switch r := root.(type) {
	case *ast.CallExpr:
		return "call"
	case *ast.Ident:
		if allFresh(r.Name) {
			return "fresh"
		}
		if params[r.Name] {
			return "param"
		}
		return "local"
	case *ast.SelectorExpr:
		name := strings.Join(strings.Fields(src(r)), "")
		if allFresh(name) {
			return "fresh"
		}
		base := c03StripRoot(r.X)
		for {
			if s, ok := base.(*ast.SelectorExpr); ok {
				base = c03StripRoot(s.X)
				continue
			}
			break
		}
		if id, ok := base.(*ast.Ident); ok && params[id.Name] {
			return "param"
		}
		return "field"
	}
	return "local"
}

func c03Short(e ast.Expr) string {
	s := strings.Join(strings.Fields(src(e)), "")
	if len(s) > 40 {
		s = s[:40]
	}
	return s
}

// c03CalleeName: the function or method name a call expression invokes (no types: the bare name)
func c03CalleeName(e ast.Expr) string {
	call, ok := e.(*ast.CallExpr)
	if !ok {
		return ""
	}
	switch f := call.Fun.(type) {
	case *ast.Ident:
		return f.Name
	case *ast.SelectorExpr:
		return f.Sel.Name
	}
	return ""
}

// slice-returning helpers the heap model assumes return storage of their own, and accessors that hand out a value's slice
var c03FixedCallees = []string{
	"values", "clone", "minus", "intersect", "GetSorted", "compose", "getIndices", "tupleToValues", "mapper",
	"Values", "Bytes", "AttrsName", "asString", "asBytes", "asArray",
}

var c03Builtins = map[string]bool{"append": true, "make": true, "copy": true, "len": true, "cap": true, "new": true}

func init() {
	registerFacts("C03", func(repo string, pkgs map[string][]*ast.File) (string, map[string]interface{}) {
		var sites []c03Site
		tracked := map[string]bool{}
		for _, n := range c03FixedCallees {
			tracked[n] = true
		}
		scan := func(pkg string, keep func(base string) bool) {
			for _, f := range pkgs[pkg] {
				file := filepath.Base(fset.Position(f.Pos()).Filename)
				if !keep(file) {
					continue
				}
				for _, decl := range f.Decls {
					fd, ok := decl.(*ast.FuncDecl)
					if !ok || fd.Body == nil {
						continue
					}
					fn := recvName(fd) + fd.Name.Name
					add := func(kind string, dst ast.Expr) {
						root := c03StripRoot(dst)
						class := c03Classify(root, fd)
						sites = append(sites, c03Site{pkg + "/" + file, fn, kind + " " + c03Short(dst), class})
						// which callee does the safety of this write depend on?
						if class == "call" {
							if n := c03CalleeName(root); n != "" && !c03Builtins[n] {
								tracked[n] = true
							}
						}
						if id, ok := root.(*ast.Ident); ok && class == "local" {
							ast.Inspect(fd.Body, func(n ast.Node) bool {
								if as, ok := n.(*ast.AssignStmt); ok && len(as.Lhs) == len(as.Rhs) {
									for i, l := range as.Lhs {
										if li, ok := l.(*ast.Ident); ok && li.Name == id.Name {
											if cn := c03CalleeName(c03StripRoot(as.Rhs[i])); cn != "" && !c03Builtins[cn] {
												tracked[cn] = true
											}
										}
									}
								}
								return true
							})
						}
					}
					ast.Inspect(fd.Body, func(n ast.Node) bool {
						switch s := n.(type) {
						case *ast.AssignStmt:
							if s.Tok == token.DEFINE {
								return true
							}
							for _, l := range s.Lhs {
								if ix, ok := l.(*ast.IndexExpr); ok {
									add("store", ix)
								}
							}
						case *ast.IncDecStmt:
							if ix, ok := s.X.(*ast.IndexExpr); ok {
								add("store", ix)
							}
						case *ast.CallExpr:
							if id, ok := s.Fun.(*ast.Ident); ok && len(s.Args) > 0 {
								if id.Name == "append" || id.Name == "copy" {
									add(id.Name, s.Args[0])
								}
							}
						}
						return true
					})
				}
			}
		}
		scan("rel", func(string) bool { return true })
		scan("syntax", func(b string) bool { return strings.HasPrefix(b, "std_seq") })
		sort.SliceStable(sites, func(i, j int) bool {
			a, b := sites[i], sites[j]
			if a.file != b.file {
				return a.file < b.file
			}
			if a.fn != b.fn {
				return a.fn < b.fn
			}
			return a.site < b.site
		})
		var b strings.Builder
		b.WriteString("def c03_nonfresh : List (String × String × String × String) := [\n")
		first := true
		summary := map[string]int{}
		var nonfresh [][]string
		for _, s := range sites {
			summary[s.file+" "+s.class]++
			if s.class == "fresh" {
				continue
			}
			if !first {
				b.WriteString(",\n")
			}
			first = false
			fmt.Fprintf(&b, "  (%s, %s, %s, %s)", leanStr(s.file), leanStr(s.fn), leanStr(s.site), leanStr(s.class))
			nonfresh = append(nonfresh, []string{s.file, s.fn, s.site, s.class})
		}
		b.WriteString("\n]\n\n")
		keys := make([]string, 0, len(summary))
		for k := range summary {
			keys = append(keys, k)
		}
		sort.Strings(keys)
		b.WriteString("def c03_summary : List (String × Nat) := [\n")
		for i, k := range keys {
			sep := ","
			if i == len(keys)-1 {
				sep = ""
			}
			fmt.Fprintf(&b, "  (%s, %d)%s\n", leanStr(k), summary[k], sep)
		}
		b.WriteString("]\n\n")

		// ---- callees: classification of every return statement
		type calleeRow struct{ file, fn, verdict string }
		var callees []calleeRow
		scanCallees := func(pkg string, keep func(base string) bool) {
			for _, f := range pkgs[pkg] {
				file := filepath.Base(fset.Position(f.Pos()).Filename)
				if !keep(file) {
					continue
				}
				for _, decl := range f.Decls {
					fd, ok := decl.(*ast.FuncDecl)
					if !ok || fd.Body == nil || !tracked[fd.Name.Name] || fd.Type.Results == nil {
						continue
					}
					var rets []string
					allFresh := true
					var walk func(n ast.Node) bool
					walk = func(n ast.Node) bool {
						switch x := n.(type) {
						case *ast.FuncLit:
							return false // returns of closures are not returns of the callee
						case *ast.ReturnStmt:
							for _, r := range x.Results {
								class := c03Classify(c03StripRoot(r), fd)
								if class != "fresh" {
									allFresh = false
								}
								rets = append(rets, class+":"+c03Short(r))
							}
						}
						return true
					}
					ast.Inspect(fd.Body, walk)
					verdict := "fresh"
					if !allFresh || len(rets) == 0 {
						sort.Strings(rets)
						verdict = strings.Join(rets, "; ")
					}
					callees = append(callees, calleeRow{pkg + "/" + file, recvName(fd) + fd.Name.Name, verdict})
				}
			}
		}
		scanCallees("rel", func(string) bool { return true })
		scanCallees("syntax", func(b string) bool { return strings.HasPrefix(b, "std_seq") })
		sort.SliceStable(callees, func(i, j int) bool {
			if callees[i].file != callees[j].file {
				return callees[i].file < callees[j].file
			}
			return callees[i].fn < callees[j].fn
		})
		b.WriteString("def c03_callees : List (String × String × String) := [\n")
		var calleesJS [][]string
		for i, c := range callees {
			sep := ","
			if i == len(callees)-1 {
				sep = ""
			}
			fmt.Fprintf(&b, "  (%s, %s, %s)%s\n", leanStr(c.file), leanStr(c.fn), leanStr(c.verdict), sep)
			calleesJS = append(calleesJS, []string{c.file, c.fn, c.verdict})
		}
		b.WriteString("]\n")
		// ---- reference fields shared by struct copy ("copy constructors")
		b.WriteString("\n")
		refLean, refJS := c03CopyCtors(pkgs)
		b.WriteString(refLean)
		return b.String(), map[string]interface{}{"c03_nonfresh": nonfresh, "c03_summary": summary, "c03_callees": calleesJS,
			"c03_copyCtors": refJS}
	})
}

// c03RefKind: is this field type a reference that a struct copy SHARES (pointer, map, slice, func, chan, sync.*)?
func c03RefKind(t ast.Expr) string {
	switch x := t.(type) {
	case *ast.StarExpr:
		return "ptr"
	case *ast.MapType:
		return "map"
	case *ast.ArrayType:
		if x.Len == nil {
			return "slice"
		}
	case *ast.FuncType:
		return "func"
	case *ast.ChanType:
		return "chan"
	case *ast.SelectorExpr:
		if id, ok := x.X.(*ast.Ident); ok && id.Name == "sync" {
			return "sync." + x.Sel.Name
		}
	}
	return ""
}

// c03CopyCtors: for every struct type of rel/ that some function derives a new value of by COPYING an existing one
// (`x := r; x.f = …; return x`, or `r.f = …; return r` on a value receiver / value parameter), the reference fields of the
// struct and, per such function, which fields it assigns and which reference fields it leaves shared with the original.
func c03CopyCtors(pkgs map[string][]*ast.File) (string, map[string]interface{}) {
	type field struct{ name, kind string }
	structs := map[string][]field{}
	// named types of rel/ whose underlying type is itself a reference (type NamesSlice []string, …)
	named := map[string]string{}
	for _, f := range pkgs["rel"] {
		for _, decl := range f.Decls {
			if gd, ok := decl.(*ast.GenDecl); ok && gd.Tok == token.TYPE {
				for _, sp := range gd.Specs {
					ts := sp.(*ast.TypeSpec)
					if k := c03RefKind(ts.Type); k != "" {
						named[ts.Name.Name] = k
					}
				}
			}
		}
	}
	for _, f := range pkgs["rel"] {
		for _, decl := range f.Decls {
			gd, ok := decl.(*ast.GenDecl)
			if !ok || gd.Tok != token.TYPE {
				continue
			}
			for _, sp := range gd.Specs {
				ts := sp.(*ast.TypeSpec)
				st, ok := ts.Type.(*ast.StructType)
				if !ok {
					continue
				}
				var fs []field
				for _, fl := range st.Fields.List {
					k := c03RefKind(fl.Type)
					if id, ok := fl.Type.(*ast.Ident); ok && k == "" {
						k = named[id.Name]
					}
					if k == "" {
						continue
					}
					if len(fl.Names) == 0 {
						fs = append(fs, field{strings.Join(strings.Fields(src(fl.Type)), ""), k})
					}
					for _, n := range fl.Names {
						fs = append(fs, field{n.Name, k})
					}
				}
				structs[ts.Name.Name] = fs
			}
		}
	}
	typeName := func(t ast.Expr) (string, bool) { // (name, isValue)
		if id, ok := t.(*ast.Ident); ok {
			return id.Name, true
		}
		return "", false
	}
	type ctor struct{ typ, fn, assigned, shared string }
	var ctors []ctor
	for _, f := range pkgs["rel"] {
		file := filepath.Base(fset.Position(f.Pos()).Filename)
		_ = file
		for _, decl := range f.Decls {
			fd, ok := decl.(*ast.FuncDecl)
			if !ok || fd.Body == nil {
				continue
			}
			// value-typed struct variables in scope: receiver, parameters, and locals `x := <such a variable>`
			vars := map[string]string{}
			addFL := func(fl *ast.FieldList) {
				if fl == nil {
					return
				}
				for _, p := range fl.List {
					if tn, isVal := typeName(p.Type); isVal {
						if _, isStruct := structs[tn]; isStruct {
							for _, n := range p.Names {
								vars[n.Name] = tn
							}
						}
					}
				}
			}
			addFL(fd.Recv)
			addFL(fd.Type.Params)
			ast.Inspect(fd.Body, func(n ast.Node) bool {
				if as, ok := n.(*ast.AssignStmt); ok && as.Tok == token.DEFINE && len(as.Lhs) == len(as.Rhs) {
					for i, l := range as.Lhs {
						if li, ok := l.(*ast.Ident); ok {
							if ri, ok := as.Rhs[i].(*ast.Ident); ok {
								if tn, has := vars[ri.Name]; has {
									vars[li.Name] = tn
								}
							}
						}
					}
				}
				return true
			})
			assigned := map[string]map[string]bool{}
			returned := map[string]bool{}
			ast.Inspect(fd.Body, func(n ast.Node) bool {
				switch x := n.(type) {
				case *ast.AssignStmt:
					for _, l := range x.Lhs {
						if se, ok := l.(*ast.SelectorExpr); ok {
							if id, ok := se.X.(*ast.Ident); ok {
								if _, has := vars[id.Name]; has {
									if assigned[id.Name] == nil {
										assigned[id.Name] = map[string]bool{}
									}
									assigned[id.Name][se.Sel.Name] = true
								}
							}
						}
					}
				case *ast.IncDecStmt:
					if se, ok := x.X.(*ast.SelectorExpr); ok {
						if id, ok := se.X.(*ast.Ident); ok {
							if _, has := vars[id.Name]; has {
								if assigned[id.Name] == nil {
									assigned[id.Name] = map[string]bool{}
								}
								assigned[id.Name][se.Sel.Name] = true
							}
						}
					}
				case *ast.ReturnStmt:
					for _, r := range x.Results {
						if id, ok := r.(*ast.Ident); ok {
							returned[id.Name] = true
						}
					}
				}
				return true
			})
			for v, fs := range assigned {
				if !returned[v] {
					continue
				}
				tn := vars[v]
				var as, sh []string
				for n := range fs {
					as = append(as, n)
				}
				for _, rf := range structs[tn] {
					if !fs[rf.name] {
						sh = append(sh, rf.name+":"+rf.kind)
					}
				}
				sort.Strings(as)
				sort.Strings(sh)
				ctors = append(ctors, ctor{tn, recvName(fd) + fd.Name.Name, strings.Join(as, ","), strings.Join(sh, ",")})
			}
		}
	}
	sort.Slice(ctors, func(i, j int) bool {
		if ctors[i].typ != ctors[j].typ {
			return ctors[i].typ < ctors[j].typ
		}
		if ctors[i].fn != ctors[j].fn {
			return ctors[i].fn < ctors[j].fn
		}
		return ctors[i].assigned < ctors[j].assigned
	})
	var b strings.Builder
	b.WriteString("def c03_copyCtors : List (String × String × String × String) := [\n")
	var js [][]string
	for i, c := range ctors {
		sep := ","
		if i == len(ctors)-1 {
			sep = ""
		}
		fmt.Fprintf(&b, "  (%s, %s, %s, %s)%s\n", leanStr(c.typ), leanStr(c.fn), leanStr(c.assigned), leanStr(c.shared), sep)
		js = append(js, []string{c.typ, c.fn, c.assigned, c.shared})
	}
	b.WriteString("]\n")
	return b.String(), map[string]interface{}{"rows": js}
}
