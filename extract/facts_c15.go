// facts for C15/C16: which functions on the import / bundle path touch the outside world directly.
//
//	c15_direct_io : every call `os.X(…)`, `ioutil.X(…)`, `http.X(…)`, `exec.X(…)` (X not a pure predicate such as
//	                os.IsNotExist) in the files that implement imports, bundling and the source file system,
//	                as (package.function, callee), sorted.  Everything else reads through ctxfs.SourceFsFrom(ctx).
//	c15_guarded   : for every function of package syntax that calls http.Get or retrieveModule: does its body
//	                start with `if isRunningBundle(ctx) { … return … }` (so that a running bundle never gets there)?
package main

import (
	"fmt"
	"go/ast"
	"path/filepath"
	"sort"
	"strings"
)

var c15Files = map[string]map[string]bool{
	"syntax":           {"import.go": true, "bundle.go": true, "gomod.go": true, "eval.go": true, "compile.go": true},
	"pkg/bundle":       {"bundle.go": true},
	"pkg/ctxfs":        {"ctxfs.go": true, "ctxzip.go": true},
	"pkg/importcache":  {"import_cache.go": true},
	"pkg/ctxrootcache": {"ctxrootcache.go": true},
	"tools":            {"file_util.go": true},
}

var c15Pure = map[string]bool{"os.IsNotExist": true, "os.IsPermission": true, "os.IsExist": true}

func init() {
	registerFacts("C15", func(repo string, pkgs map[string][]*ast.File) (string, map[string]interface{}) {
		type pair struct{ fn, callee string }
		var io []pair
		var guarded []pair
		pkgNames := make([]string, 0, len(c15Files))
		for p := range c15Files {
			pkgNames = append(pkgNames, p)
		}
		sort.Strings(pkgNames)
		for _, p := range pkgNames {
			for _, f := range pkgs[p] {
				base := filepath.Base(fset.Position(f.Pos()).Filename)
				if !c15Files[p][base] {
					continue
				}
				for _, d := range f.Decls {
					fd, ok := d.(*ast.FuncDecl)
					if !ok || fd.Body == nil {
						continue
					}
					name := p + "." + recvName(fd) + fd.Name.Name
					reachesNet := false
					ast.Inspect(fd.Body, func(n ast.Node) bool {
						c, ok := n.(*ast.CallExpr)
						if !ok {
							return true
						}
						switch fun := c.Fun.(type) {
						case *ast.SelectorExpr:
							if id, ok := fun.X.(*ast.Ident); ok {
								callee := id.Name + "." + fun.Sel.Name
								switch id.Name {
								case "os", "ioutil", "http", "exec":
									if !c15Pure[callee] {
										io = append(io, pair{name, callee})
									}
								}
								if callee == "http.Get" {
									reachesNet = true
								}
							}
						case *ast.Ident:
							if fun.Name == "retrieveModule" {
								reachesNet = true
							}
						}
						return true
					})
					if reachesNet && p == "syntax" && fd.Name.Name != "retrieveModule" {
						g := "false"
						if len(fd.Body.List) > 0 {
							if is, ok := fd.Body.List[0].(*ast.IfStmt); ok {
								cond := strings.Join(strings.Fields(src(is.Cond)), " ")
								endsInReturn := false
								if n := len(is.Body.List); n > 0 {
									_, endsInReturn = is.Body.List[n-1].(*ast.ReturnStmt)
								}
								if cond == "isRunningBundle(ctx)" && endsInReturn {
									g = "true"
								}
							}
						}
						guarded = append(guarded, pair{name, g})
					}
				}
			}
		}
		sort.Slice(io, func(i, j int) bool {
			if io[i].fn != io[j].fn {
				return io[i].fn < io[j].fn
			}
			return io[i].callee < io[j].callee
		})
		sort.Slice(guarded, func(i, j int) bool { return guarded[i].fn < guarded[j].fn })
		var b strings.Builder
		b.WriteString("def c15_direct_io : List (String × String) := [")
		js1 := []interface{}{}
		for i, x := range io {
			if i > 0 {
				b.WriteString(", ")
			}
			fmt.Fprintf(&b, "(%s, %s)", leanStr(x.fn), leanStr(x.callee))
			js1 = append(js1, []string{x.fn, x.callee})
		}
		b.WriteString("]\n")
		b.WriteString("def c15_guarded : List (String × Bool) := [")
		js2 := []interface{}{}
		for i, x := range guarded {
			if i > 0 {
				b.WriteString(", ")
			}
			fmt.Fprintf(&b, "(%s, %s)", leanStr(x.fn), x.callee)
			js2 = append(js2, []string{x.fn, x.callee})
		}
		b.WriteString("]\n")
		return b.String(), map[string]interface{}{"c15_direct_io": js1, "c15_guarded": js2}
	})
}
