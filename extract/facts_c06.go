// facts for C06: how the comparison operators of syntax/compile.go (table compareOps) are derived
// from rel.Value.Less / Equal.  For each of < <= > >= = != the text of the value returned by the
// operator's function literal (e.g. "!b.Less(a)") is extracted.
package main

import (
	"fmt"
	"go/ast"
	"go/token"
	"sort"
	"strconv"
	"strings"
)

func init() {
	registerFacts("C06", func(repo string, pkgs map[string][]*ast.File) (string, map[string]interface{}) {
		wanted := map[string]bool{"<": true, "<=": true, ">": true, ">=": true, "=": true, "!=": true}
		var entries []kv
		for _, f := range pkgs["syntax"] {
			for _, decl := range f.Decls {
				gd, ok := decl.(*ast.GenDecl)
				if !ok || gd.Tok != token.VAR {
					continue
				}
				for _, sp := range gd.Specs {
					vs := sp.(*ast.ValueSpec)
					if len(vs.Names) != 1 || vs.Names[0].Name != "compareOps" || len(vs.Values) != 1 {
						continue
					}
					cl, ok := vs.Values[0].(*ast.CompositeLit)
					if !ok {
						continue
					}
					for _, el := range cl.Elts {
						kve, ok := el.(*ast.KeyValueExpr)
						if !ok {
							continue
						}
						bl, ok := kve.Key.(*ast.BasicLit)
						if !ok || bl.Kind != token.STRING {
							continue
						}
						op, _ := strconv.Unquote(bl.Value)
						if !wanted[op] {
							continue
						}
						text := "?"
						if fl, ok := kve.Value.(*ast.FuncLit); ok && len(fl.Body.List) == 1 {
							if rs, ok := fl.Body.List[0].(*ast.ReturnStmt); ok && len(rs.Results) >= 1 {
								text = strings.Join(strings.Fields(src(rs.Results[0])), " ")
							}
						}
						entries = append(entries, kv{op, text})
					}
				}
			}
		}
		sort.Slice(entries, func(i, j int) bool { return entries[i].K < entries[j].K })
		var b strings.Builder
		b.WriteString("def c06_compareOps : List (String × String) := [\n")
		for i, e := range entries {
			sep := ","
			if i == len(entries)-1 {
				sep = ""
			}
			fmt.Fprintf(&b, "  (%s, %s)%s\n", leanStr(e.K), leanStr(e.V), sep)
		}
		b.WriteString("]\n")
		return b.String(), map[string]interface{}{"c06_compareOps": entries}
	})
}
