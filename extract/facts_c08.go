package main

// C08 facts: the precedence tower of rule `expr` in syntax/arrai.wbnf.
//
// The rule is a stack of alternatives separated by `>` (loosest first).  For every level the
// extractor emits one list of strings: the class the grammar marks the level with (the first of
// arrow / binop / rbinop / unop / mergeop / compare / if / postfix / tail_op that occurs as a named
// term `name=` or `@:name=` on that level; "atom" for the last level, which has none) followed by
// the operator tokens of that level in source order: quoted literals verbatim, regular
// expressions `/{…}` by their body, and references to upper-case token rules (ARROW, FILTER)
// replaced by the tokens of their definition.  No semantics: text in, text out.

import (
	"fmt"
	"go/ast"
	"os"
	"path/filepath"
	"regexp"
	"strings"
)

// wbnfRules splits a .wbnf file into rule name -> body (text between `->` and the terminating `;`).
func wbnfRules(text string) map[string]string {
	rules := map[string]string{}
	i := 0
	n := len(text)
	nameRE := regexp.MustCompile(`^[ \t]*([A-Za-z_][A-Za-z_0-9]*)[ \t]*->`)
	for i < n {
		// a rule starts at the beginning of a line
		j := strings.IndexByte(text[i:], '\n')
		line := text[i:]
		if j >= 0 {
			line = text[i : i+j]
		}
		m := nameRE.FindStringSubmatch(line)
		if m == nil {
			if j < 0 {
				break
			}
			i += j + 1
			continue
		}
		start := i + len(m[0])
		end := scanRuleEnd(text, start)
		rules[m[1]] = text[start:end]
		i = end + 1
		if k := strings.IndexByte(text[min(i, n):], '\n'); k >= 0 {
			i = min(i, n) + k + 1
		} else {
			break
		}
	}
	return rules
}

// skipAtom returns the index just after the quoted literal or regex starting at text[i], or i if none starts there.
func skipAtom(text string, i int) int {
	n := len(text)
	switch {
	case text[i] == '"' || text[i] == '\'':
		q := text[i]
		k := i + 1
		for k < n && text[k] != q {
			if text[k] == '\\' {
				k++
			}
			k++
		}
		return min(k+1, n)
	case text[i] == '/' && i+1 < n && text[i+1] == '{':
		// braces nest; inside a character class `[...]` they are ordinary characters
		depth := 0
		inClass := false
		k := i + 1
		for k < n {
			switch {
			case text[k] == '\\':
				k++
			case inClass:
				if text[k] == ']' {
					inClass = false
				}
			case text[k] == '[':
				inClass = true
			case text[k] == '{':
				depth++
			case text[k] == '}':
				depth--
				if depth == 0 {
					return k + 1
				}
			}
			k++
		}
		return n
	}
	return i
}

func scanRuleEnd(text string, i int) int {
	n := len(text)
	for i < n {
		if k := skipAtom(text, i); k != i {
			i = k
			continue
		}
		if text[i] == ';' {
			return i
		}
		i++
	}
	return n
}

// splitLevels splits a rule body at top-level `>` (outside literals, regexes and parentheses).
func splitLevels(body string) []string {
	var out []string
	depth := 0
	last := 0
	for i := 0; i < len(body); {
		if k := skipAtom(body, i); k != i {
			i = k
			continue
		}
		switch body[i] {
		case '(':
			depth++
		case ')':
			depth--
		case '>':
			if depth == 0 {
				out = append(out, body[last:i])
				last = i + 1
			}
		}
		i++
	}
	return append(out, body[last:])
}

// atomsOf lists the literal and regex tokens of a piece of grammar in source order; upper-case rule
// references listed in `expand` are replaced by the atoms of their definition.
func atomsOf(piece string, rules map[string]string, expand map[string]bool) []string {
	var out []string
	identRE := regexp.MustCompile(`^[A-Z][A-Z_]*`)
	for i := 0; i < len(piece); {
		if k := skipAtom(piece, i); k != i {
			tok := piece[i:k]
			if strings.HasPrefix(tok, "/{") {
				tok = strings.TrimSpace(tok[2 : len(tok)-1])
			} else {
				tok = tok[1 : len(tok)-1]
			}
			out = append(out, tok)
			i = k
			continue
		}
		if m := identRE.FindString(piece[i:]); m != "" && (i == 0 || !isWordByte(piece[i-1])) {
			if expand[m] {
				out = append(out, atomsOf(rules[m], rules, nil)...)
			}
			i += len(m)
			continue
		}
		i++
	}
	return out
}

func isWordByte(b byte) bool {
	return b == '_' || b == '%' || b == '!' || (b >= '0' && b <= '9') || (b >= 'a' && b <= 'z') || (b >= 'A' && b <= 'Z')
}

var precClasses = []string{"arrow", "rbinop", "binop", "mergeop", "compare", "unop", "if", "postfix", "tail_op"}

func levelClass(level string) string {
	best, bestAt := "atom", len(level)
	for _, c := range precClasses {
		re := regexp.MustCompile(`(^|[^A-Za-z_])` + c + `=`)
		if loc := re.FindStringIndex(level); loc != nil && loc[0] < bestAt {
			best, bestAt = c, loc[0]
		}
	}
	return best
}

func init() {
	registerFacts("C08", func(repo string, _ map[string][]*ast.File) (string, map[string]interface{}) {
		data, err := os.ReadFile(filepath.Join(repo, "syntax", "arrai.wbnf"))
		if err != nil {
			return "def precLevels : List (List String) := []\n", map[string]interface{}{"precLevels": nil}
		}
		rules := wbnfRules(string(data))
		expand := map[string]bool{"ARROW": true, "FILTER": true}
		var levels [][]string
		for _, lv := range splitLevels(rules["expr"]) {
			levels = append(levels, append([]string{levelClass(lv)}, atomsOf(lv, rules, expand)...))
		}
		var b strings.Builder
		b.WriteString("def precLevels : List (List String) := [\n")
		for i, lv := range levels {
			q := make([]string, len(lv))
			for j, s := range lv {
				q[j] = leanStr(s)
			}
			sep := ","
			if i == len(levels)-1 {
				sep = ""
			}
			fmt.Fprintf(&b, "  [%s]%s\n", strings.Join(q, ", "), sep)
		}
		b.WriteString("]\n")
		return b.String(), map[string]interface{}{"precLevels": levels}
	})
}
