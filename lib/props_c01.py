"""C01 configuration."""
PROP = dict(
    quick_n=3000, thorough_n=30000,
    trusted_base=[
        "members held by a set representation are modelled by their meaning (Arrai.V): Go's Equal/Hash on member values is "
        "taken to be equality of meaning (that is property C02); frozen.Set/frozen.Map are finite sets/maps (strictly sorted "
        "lists / association lists in the model)",
        "closures: the bodies of `where` predicates and `=>` functions are evaluated by one shared first-order evaluator "
        "(T.eval/P.eval) on both sides; only the set machinery around them is under test",
        "tuple specialisation (NewTuple/TupleBuilder.Finish) is modelled by its effect on bucket routing: a (@,@char)/(@,@byte) "
        "pair is a StringCharTuple/BytesByteTuple only when the character/byte is in range, otherwise a generic tuple",
        "`where`/`=>` bodies outside the modelled first-order fragment (`<` or `+` on non-numbers, `.a` on a set) are not "
        "generated (the model has no prediction there)",
        "a Relation is modelled by its names and its rows as tuples: the physical column order and the projector are "
        "abstracted away; relations with a permuted physical column order are supplied by the generator (stratum permrel: "
        "operands computed by natural joins of lossless projections, whose value - taken from the literal - relies on <&>, "
        "property C04) and `let` in the branch stratum is plain sharing of an evaluated value",
        "the relation bucket key is modelled by the list of names (names containing ', ' are C10's KF-relation-bucket)",
    ],
    assumptions=[
        "numbers are integers of small magnitude (|n| < 2^20); indices fit in int32 (asArray seeds min/max with MaxInt32)",
        "operands: small alphabets (3 letters, bytes 0..2, numbers 0..3), sequences of length <= 5, offsets in -1..3, power "
        "sets of sets with <= 4 members, nesting depth <= 3",
        "`(<>=)` (which calls Equal) only on operands written as literals; a sugar-headed tuple always has a numeric `@` "
        "(other shapes panic by design: KF-pinned-panics of C10)",
    ],
    level_text="Proof: 53 Lean theorems about an executable transliteration of the Go set representations and of "
               "rel/ops_set.go. Per representation (EmptySet, TrueSet, GenericSet, String, Bytes, Array, Dict, Relation, "
               "UnionSet) an interface contract: the enumeration lists exactly the members, pairwise distinct and of the "
               "representation's own bucket; Has/Count/IsTrue/With/Without/Where refine membership/cardinality/insert/erase/"
               "filter of the finite set denoted and return well-formed values. From the contracts: SetBuilder.Finish, "
               "CanonicalSet, Intersect, Union, Difference, SymmetricDifference for every mix of representations, PowerSet "
               "for every representation (fast paths and the With/Union loop), the subset comparisons, count = number of "
               "distinct members, `=>` through the builder, literals; and by induction over the expression language, whole "
               "programs (operators applied to the results of operators, to any depth): whenever the specification yields a "
               "value the evaluator yields a well-formed representation of exactly that value, under `Adm e` = the "
               "conjunction of the step hypotheses along the evaluation. The finite-set algebra of the specification is "
               "proved exact and canonical. Partial: each admissibility hypothesis excludes a known-finding class (two "
               "values at one index, a byte array with a gap) and is refuted at full "
               "strength by a witness theorem; not proved: that the generator's specification-level class predicates imply "
               "`Adm` (`programs_full`, `powerSet_full` stay stated as propositions) and the error outcomes of `where`/`=>`. "
               "The model is tied to /repo by running both on generated programs of the set-algebra family (operator x "
               "representation x representation x relation of the operands; observables canon, count, three membership "
               "probes; plus relations with permuted physical column order built by joins, and three values grown from one shared "
               "intermediate value) on every run.",
    design_ref="DESIGN.md section 6, C01",
    watch=["rel.Intersect", "rel.Union", "rel.Difference", "rel.SymmetricDifference", "rel.PowerSet",
           "rel.SetBuilder.Add", "rel.SetBuilder.Finish", "rel.asString", "rel.asBytes", "rel.asArray", "rel.NewDict",
           "rel.newSetFromFrozenSet", "rel.newGenericSetFromSet", "rel.CanonicalSet", "rel.newSetFromBuckets",
           "rel.toUnionSetWithItem",
           "rel.UnionSet.Has", "rel.UnionSet.Count", "rel.UnionSet.With", "rel.UnionSet.Without", "rel.UnionSet.Where",
           "rel.UnionSet.unionWithSubset", "rel.UnionSet.getSubset",
           "rel.GenericSet.Has", "rel.GenericSet.Count", "rel.GenericSet.With", "rel.GenericSet.Without", "rel.GenericSet.Where",
           "rel.String.Has", "rel.String.Count", "rel.String.with", "rel.String.With", "rel.String.Without", "rel.String.Where",
           "rel.String.index",
           "rel.Bytes.Has", "rel.Bytes.Count", "rel.Bytes.with", "rel.Bytes.With", "rel.Bytes.Without", "rel.Bytes.Where",
           "rel.Array.Has", "rel.Array.Count", "rel.Array.withItem", "rel.Array.With", "rel.Array.Without", "rel.Array.Where",
           "rel.NewOffsetArray",
           "rel.Dict.Has", "rel.Dict.Count", "rel.Dict.With", "rel.Dict.Without", "rel.Dict.Where", "rel.newMultipleValues",
           "rel.Relation.Has", "rel.Relation.Count", "rel.Relation.With", "rel.Relation.Without", "rel.Relation.Where",
           "rel.EmptySet.With", "rel.TrueSet.Has", "rel.TrueSet.With", "rel.TrueSet.Without", "rel.TrueSet.Where",
           "rel.DArrowExpr.Eval", "rel.NewWithExpr", "rel.NewWithoutExpr", "rel.NewWhereExpr", "rel.NewCountExpr",
           "rel.NewPowerSetExpr",
           "syntax.subset", "syntax.subsetOrEqual", "syntax.subsetOrSuperset", "syntax.subsetSupersetOrEqual"],
)
