"""C07 configuration: evaluation is deterministic across processes and hash seeds.

The proof is about every enumeration order; the runtime tie is the only sound one: the same batch of
programs is executed in N fresh harness processes (each draws its own hash seeds at start-up) and the
observables (canon, printed text, CLI output bytes) must be byte-identical across processes and equal to
the model's prediction."""
import concurrent.futures, collections


def extra(ctx):
    cases, base = ctx["cases"], ctx["results"]
    n = 16 if ctx["tier"] == "thorough" else 4
    env = dict(PROP["env"])

    def one(_):
        return ctx["run_harness"](ctx["exe"], ctx["cases_path"], env)[0]

    with concurrent.futures.ThreadPoolExecutor(max_workers=4) as ex:
        runs = list(ex.map(one, range(n)))
    runs = [base] + runs
    violations, seeds, compared, exempt = [], [], 0, 0
    for r in runs:
        seeds.append(r.get("C07-seeds", "?"))
    for cid, c in cases.items():
        if c["kind"] != "run":
            continue
        if "ties-exempt" in c["stratum"] or c["cls"] != "good":
            exempt += 1
            continue
        compared += 1
        outs = collections.Counter(r.get(cid, "missing") for r in runs)
        if len(outs) > 1:
            other = [o for o in outs if o != base.get(cid, "missing")][0]
            violations.append((cid, other, "differs between processes: %d distinct outputs in %d processes" % (len(outs), len(runs))))
    return dict(violations=violations,
                coverage=dict(processes=len(runs), hash_seeds=seeds, distinct_seed_sets=len(set(seeds)),
                              programs_compared_across_processes=compared, exempt_or_known=exempt,
                              cross_process_divergences=len(violations)))


PROP = dict(
    quick_n=500, thorough_n=3000,
    trusted_base=[
        "every frozen set / frozen map / Go map is modelled as a list in an arbitrary order; an enumeration order is an arbitrary "
        "permutation-valued function on member lists (EnumOrder); theorems quantify over all of them",
        "set operators are modelled as enumerate-then-build (members of the operands in enumeration order, selected/mapped, handed "
        "to SetBuilder): |, &, &~, =>, where, with, without, orderby, count, {x}; their agreement with Go's specialised fast paths is "
        "checked on every case (canon and printed text) and is the subject of C01/C04/C05",
        "printing (Format methods, fu.Repr, OutputValue) is transliterated for integers, printable-ASCII strings/names; compared "
        "byte for byte with Go on every case",
        "the runtime tie samples hash seeds: N fresh processes per run (4 quick, 16 thorough), seeds recorded in the evidence"],
    assumptions=[
        "programs over the data fragment of C06 (no closures, imports, randomness, time); orderby with tied keys is exempt (documented "
        "order-dependent) and excluded from the cross-process comparison",
        "sets that superimpose two sugar tuples at one index are excluded (KF-superimposed: genuine order dependence, witness theorem "
        "and C07_full_false); byte tuples with a gap are reported under their own id (KF-bytes-holes)",
        "unary minus over char/byte tuples is not generated (a negated @char is a hole marker: C05/C01)",
        "a third of the programs pick 'an element' or depend on 'the first element' of an enumeration (set patterns in let and cond, "
        "rank with 2-3 ranking attributes and many ties, orderby with tied keys mapped to its keys, max/min, nest) over collections "
        "of 12-18 members (frozen keeps up to ~8 items in insertion order); they are predicted under the identity order; the "
        "theorems cover rank and both set-pattern forms as Ex terms, the remaining shapes rest on the N-process run, error "
        "outcomes included",
        "numeric reducers (sum, mean, median, max, min, count with . over sets of 12-20 distinct numbers - integers, halves, quarters: "
        "every partial sum exactly representable - and with .v over 12-16 relation rows): the model computes the exact rational and "
        "prints it as a decimal (mean cases are adjusted so that the decimal terminates); tenths are not generated (their float sum "
        "is legitimately order-dependent)",
        "duplicate-spelling programs: an outer set or dictionary of 13-19 members holding the same mixed-kind union set, tuple with a "
        "set attribute, dictionary or relation in 2-3 member orders / literal forms (also as dictionary keys): count, =, &, <:, "
        "call, |, printed text; these and the reducers are evaluated 3 resp. 2 times inside each process (observable 'unstable' if "
        "two evaluations differ) and compared across the N processes",
        "bucket-union programs (1 in 12 of the Ex cases): a small generic set united with a dictionary (2-3 entries in non-sorted "
        "literal order, or 12-16 entries) and up to three of: a relation, an array with holes, a byte array, an offset string - "
        "also under with / => . / {x}; printed text and CLI output against the model, twice in-process and across processes. The "
        "JSON/YAML encoders are not exercised"],
    level_text="Proof (partial): 19 Lean theorems over the C06 representation model. C07 / C07_printed: every admissible program, nested "
               "to any depth over | & &~ where with without count {x}, => and orderby (element functions ., constant, (a: .), "
               "(a: ., b: n), [.]; orderby under NoTies), rank (rank = number of strictly smaller keys, ties included) and set "
               "patterns let {lits, ...t} / let {lits, a}, over literals of every representation (strings, bytes, arrays, dicts, "
               "relations, union sets), has the same canonical result AND the same printed text (fu.Repr, OutputValue) or the same "
               "error under every enumeration order of every collection it walks. Supporting theorems: the set builder is "
               "order-independent for all buckets (generic, string, bytes, array, dict, relation) and the assembly of union sets "
               "under the no-superimposed hypothesis; printed text is a function of the canonical key for all well-named values "
               "(dict, relation, union included); sorting by the C06 order is permutation-invariant; orderby with ties only swaps "
               "tied members. The unrestricted statement is proved FALSE (C07_full_false, KF-superimposed witness). Not in the "
               "theorems: element functions -. and {.}, the generated shapes that are not Ex terms (cond set patterns, rank over "
               ".i % 3, nest, max/min, tied orderby mapped to keys), error messages, parsing. Runtime tie: the same programs in N "
               "fresh processes with different hash seeds, byte-identical canon / repr / CLI output, equal to the model's "
               "prediction.",
    design_ref="DESIGN.md section 6, C07",
    watch=["rel.SetBuilder.Add", "rel.SetBuilder.Finish", "rel.asString", "rel.asBytes", "rel.asArray", "rel.NewDict",
           "rel.newSetFromFrozenSet", "rel.GenericSet.Format", "rel.UnionSet.Format", "rel.Dict.Format", "rel.Dict.OrderedEntries",
           "rel.Relation.Format", "rel.GenericTuple.Format", "rel.Array.Format", "rel.Bytes.Format", "rel.String.Format",
           "rel.reprOrderableSet", "rel.reprString", "rel.reprStr", "rel.reprEscape", "rel.TupleNameRepr", "rel.TupleOrderedNames",
           "rel.OrderedValueEnumerator", "rel.OrderBy", "rel.unionSetEnumerator.MoveNext", "rel.UnionSet.Enumerator",
           "rel.UnionSet.OrderedValues", "rel.GenericSet.OrderedValues", "pkg/arrai.OutputValue",
           "rel.NewSumExpr", "rel.NewMeanExpr", "rel.NewMedianExpr", "rel.NewMaxExpr", "rel.NewMinExpr", "rel.ReduceExpr.Eval",
           "rel.UnionSet.Hash", "rel.UnionSet.Equal"],
    env={"HARNESS_TIMEOUT_MS": "120000"},
    extra=extra,
)
