"""C08 configuration."""
PROP = dict(
    quick_n=3000, thorough_n=80000,
    trusted_base=[
        "the wbnf parser (third party) and syntax/arrai.wbnf are NOT modelled: text-to-tree is covered by regenerated "
        "precedence facts (Generated.precLevels = Expected.precLevels) and by differential testing only",
        "numbers are modelled as integers of magnitude < 1e15 (float64-exact); V/FinSet denotations of sets, tuples, strings, arrays, dicts",
    ],
    assumptions=[
        "core expression language: numbers, strings, booleans, identifiers, let with identifier/array/tuple/literal patterns, "
        "\\p functions, calls, ->, =>, >>, where, orderby (default binder and explicit), + - * ^, comparisons, unary minus, cond, &&, ||, "
        "set/array/tuple/dict constructors, parentheses",
        "closures are first-class in let/call/arrow positions but not inside data; patterns are linear; orderby keys are distinct numbers "
        "(anything else is outside the model and checked only for 'no panic')",
        "programs of depth <= 4; closure-call depth <= 60",
    ],
    level_text="PLACEHOLDER",
    level_note="PLACEHOLDER",
    design_ref="DESIGN.md section 6, C08",
    watch=["syntax.ParseContext.compileLet", "syntax.ParseContext.compileArrow", "syntax.ParseContext.compileFunction",
           "syntax.ParseContext.compileExpr", "syntax.ParseContext.compileCondWithoutControlVar", "syntax.ParseContext.compileSet",
           "syntax.ParseContext.compileDict", "syntax.ParseContext.compileArray", "syntax.ParseContext.compileTuple",
           "syntax.ParseContext.compileDictEntryExprs", "syntax.ParseContext.compileTail", "syntax.ParseContext.compileBinop",
           "syntax.ParseContext.compileUnop", "syntax.ParseContext.compileRbinop", "syntax.ParseContext.compileCompare",
           "rel.ExprAsFunction", "rel.NewArrowExpr", "rel.ArrowExpr.Eval", "rel.DArrowExpr.Eval", "rel.SeqArrowExpr.Eval",
           "rel.NewWhereExpr", "rel.NewOrderByExpr", "rel.Closure.CallAll", "rel.SetCall", "rel.Call", "rel.Function.Eval",
           "rel.Scope.With", "rel.Scope.Update", "rel.Scope.MatchedUpdate", "rel.IdentExpr.Eval", "rel.LiteralExpr.Eval",
           "rel.IdentPattern.Bind", "rel.ExprPattern.Bind", "rel.ArrayPattern.Bind", "rel.TuplePattern.Bind", "rel.NewExprPattern",
           "rel.exprIsValue", "rel.NewSetExpr", "rel.SetExpr.Eval", "rel.NewTupleExpr", "rel.TupleExpr.Eval", "rel.AttrExpr.Apply",
           "rel.NewDictExpr", "rel.DictExpr.Eval", "rel.NewDict", "rel.NewArrayExpr", "rel.ArrayExpr.Eval",
           "rel.CondExpr.Eval", "rel.AndExpr.Eval", "rel.OrExpr.Eval", "rel.BinExpr.Eval", "rel.UnaryExpr.Eval", "rel.CompareExpr.Eval",
           "rel.addValues", "rel.newArithExpr"],
)
