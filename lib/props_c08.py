"""C08 configuration."""
PROP = dict(
    quick_n=3000, thorough_n=80000,
    trusted_base=[
        "the wbnf parser (third party) and syntax/arrai.wbnf are NOT modelled: text-to-tree is covered by regenerated "
        "precedence facts (Generated.precLevels = Expected.precLevels) and by differential testing only",
        "numbers are modelled as integers of magnitude < 1e15 (float64-exact); V/FinSet denotations of sets, tuples, strings, arrays, dicts",
    ],
    assumptions=[
        "FLOATS are covered by a metamorphic, implementation-only stream only (stratum `float`, harness op `agree`): arithmetic chains "
        "of 3-4 operands over + - * / % ^ with non-integer and extreme literals, written bare, fully parenthesised as the documented "
        "precedence/associativity implies, with let-bound literals and with redundant parentheses around literals must print the same "
        "float text; the Lean model and all theorems are integer-only (|n| < 1e15)",
        "core expression language: numbers, strings, booleans, identifiers, let with identifier/array/tuple/literal patterns, "
        "\\p functions, calls, ->, =>, >>, where, orderby (default binder and explicit), + - * ^, comparisons, prefix - + ! ^ (Negate incl. @neg wrappers), attribute access e.name, cond, &&, ||, "
        "set/array/tuple/dict constructors, relation literals, byte-array literals, parentheses",
        "closures are first-class in let/call/arrow positions but not inside data; patterns are linear; orderby keys are distinct numbers "
        "(anything else is outside the model and checked only for 'no panic')",
        "programs of depth <= 4; closure-call depth <= 60",
    ],
    level_text="Proof (layer 1, compile/evaluate): 37 Lean theorems about an executable transliteration of syntax/compile.go's decisions "
               "(compileLet/Arrow/Function, NewCallExpr, ExprAsFunction, ExprExpr for parentheses, literal folding, cond) and of the Eval "
               "methods over values + closures. A simulation theorem (`sim`) over the congruence closure of the documented rewrites gives "
               "`rewrite_inert`: programs related by let = arrow = call, parentheses (also around a function literal operand), "
               "folded vs unfolded literal collections, a let-bound atomic literal substituted capture-avoidingly for its name, the default "
               "binder `\\.`, and branches of &&, ||, cond that a literal guard never selects - at any positions, any number at once - return "
               "the same value or both fail, for all closure-call budgets (if both return). Plus: cond/&&/|| evaluate only the selected branch "
               "for arbitrary guards (root position, any environment); lexical scope (exact equality); arrays, dicts, strings, booleans, relation literals (any heading order) equal "
               "their spelled-out sets of tuples. Partial for today's compiler where compile-time folding fails (fold_inert_partial + "
               "fold_inert_full_false, known finding). Facts + correspondence (layer 2, text to tree): the precedence tower regenerated from "
               "syntax/arrai.wbnf equals the documented one (decide); printers with minimal / full parentheses, comments and white space are "
               "checked differentially through the real parser on every run.",
    level_note="Layer 2 is NOT a proof: the third-party wbnf parser is not modelled; precedence/associativity, comments, white space and "
               "parenthesisation are validated by differential testing of generated source text only (plus the regenerated precLevels "
               "obligation). Not proved, tested only: renaming the default binder `.` to a fresh explicit name (alpha-renaming); substitution of "
               "collection-valued literals; rewrites in programs outside the modelled fragment. Theorems hold 'if both sides return' "
               "(a side that exhausts its closure-call budget is related to anything); the first-order fragment needs budget 0.",
    design_ref="DESIGN.md section 6, C08",
    env={"HARNESS_TIMEOUT_MS": "60000"},
    watch=["syntax.ParseContext.compileLet", "syntax.ParseContext.compileArrow", "syntax.ParseContext.compileFunction",
           "syntax.ParseContext.compileExpr", "syntax.ParseContext.compileCondWithoutControlVar", "syntax.ParseContext.compileSet",
           "syntax.ParseContext.compileDict", "syntax.ParseContext.compileArray", "syntax.ParseContext.compileTuple",
           "syntax.ParseContext.compileDictEntryExprs", "syntax.ParseContext.compileTail", "syntax.ParseContext.compileBinop",
           "syntax.ParseContext.compileUnop", "syntax.ParseContext.compileRbinop", "syntax.ParseContext.compileCompare",
           "rel.ExprAsFunction", "rel.NewArrowExpr", "rel.ArrowExpr.Eval", "rel.DArrowExpr.Eval", "rel.SeqArrowExpr.Eval",
           "rel.NewWhereExpr", "rel.NewOrderByExpr", "rel.Closure.CallAll", "rel.SetCall", "rel.Call", "rel.Function.Eval",
           "rel.Scope.With", "rel.Scope.Update", "rel.Scope.MatchedUpdate", "rel.IdentExpr.Eval", "rel.LiteralExpr.Eval",
           "rel.IdentPattern.Bind", "rel.ExprPattern.Bind", "rel.ArrayPattern.Bind", "rel.TuplePattern.Bind", "rel.NewExprPattern",
           "rel.exprIsValue", "rel.NewSetExpr", "rel.SetExpr.Eval", "rel.NewTupleExpr", "rel.TupleExpr.Eval", "rel.AttrExpr.Apply",
           "rel.NewDictExpr", "rel.DictExpr.Eval", "rel.NewDict", "rel.NewArrayExpr", "rel.ArrayExpr.Eval",
           "rel.CondExpr.Eval", "rel.AndExpr.Eval", "rel.OrExpr.Eval", "rel.BinExpr.Eval", "rel.UnaryExpr.Eval", "rel.CompareExpr.Eval",
           "rel.addValues", "rel.newArithExpr", "rel.NewRelationExpr", "rel.NewAndExpr", "rel.NewOrExpr", "rel.NewDotExpr",
           "rel.DotExpr.Eval", "rel.TupleMapExpr.Eval", "rel.ReduceExpr.Eval", "rel.NewSumExpr", "rel.NewMaxExpr", "rel.NewMinExpr",
           "syntax.ParseContext.compileRelation", "syntax.ParseContext.compileGet", "syntax.ParseContext.compileCallGet",
           "syntax.ParseContext.compileBytes", "rel.NewNegExpr", "rel.NewPosExpr", "rel.NewNotExpr", "rel.NewPowerSetExpr",
           "rel.Number.Negate", "rel.GenericTuple.Negate", "rel.GenericSet.Negate", "rel.EmptySet.Negate", "rel.String.Negate", "rel.PowerSet"],
)
