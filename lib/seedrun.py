#!/usr/bin/env python3
"""Run a property's check against seeded changes: lib/seedrun.py <outdir> <Cxx> [tier]
For each <outdir>/<i>/patch.diff: git -C /repo apply, ./check Cxx, git checkout; copies the seed to seeded/Cxx-<i>/ and
records whether the check raised an alarm (meta.json: detected, detail)."""
import sys, os, subprocess, json, shutil, re
out, prop = sys.argv[1], sys.argv[2]
tier = sys.argv[3] if len(sys.argv) > 3 else "quick"
ROOT = os.path.dirname(os.path.dirname(os.path.abspath(__file__)))
WT = "/tmp/seedwt-%d" % os.getpid()
subprocess.run("git -C /repo worktree add -q --detach %s" % WT, shell=True, check=True)
ENV = dict(os.environ, VERIF_REPO=WT)
for i in sorted(os.listdir(out)):
    d = os.path.join(out, i)
    if not os.path.exists(os.path.join(d, "patch.diff")):
        continue
    dst = os.path.join(ROOT, "seeded", f"{prop}-{i}")
    os.makedirs(dst, exist_ok=True)
    for f in os.listdir(d):
        shutil.copy(os.path.join(d, f), dst)
    a = subprocess.run(["git", "-C", WT, "apply", os.path.join(d, "patch.diff")], capture_output=True, text=True)
    try:
        if a.returncode != 0:
            res = dict(detected=None, detail="patch does not apply: " + a.stderr[-300:])
        else:
            r = subprocess.run([os.path.join(ROOT, "check"), prop, "--tier", tier], cwd=ROOT, capture_output=True, text=True, env=ENV)
            viol = [l for l in r.stdout.split("\n") if l.startswith("VIOLATION")]
            detail = []
            for v in viol[:3]:
                m = re.search(r"replay=(\S+)", v)
                try:
                    b = json.load(open(os.path.join(ROOT, m.group(1))))
                    detail.append(dict(line=v, input=b.get("payload"), expected=str(b.get("expected_spec"))[:200], actual=str(b.get("actual"))[:200], note=str(b.get("note", ""))[:300]))
                except Exception:
                    detail.append(dict(line=v))
            res = dict(detected=bool(viol), exit=r.returncode, violations=len(viol), detail=detail, summary=r.stderr.strip().split("\n")[-1][:300])
    finally:
        subprocess.run("git -C %s checkout -- . && git -C %s clean -fdq" % (WT, WT), shell=True)
    mp = os.path.join(dst, "meta.json")
    meta = json.load(open(mp)) if os.path.exists(mp) else {}
    meta["check_result"] = dict(cmd=f"./check {prop} --tier {tier}", **res)
    json.dump(meta, open(mp, "w"), indent=1)
    print(prop, i, "detected" if res.get("detected") else "MISSED", res.get("summary", res.get("detail")))
shutil.rmtree(os.path.join(ROOT, "replays"), ignore_errors=True)

subprocess.run("git -C /repo worktree remove --force %s" % WT, shell=True)
shutil.rmtree(os.path.join(ROOT, ".build-" + os.path.basename(WT)), ignore_errors=True)
