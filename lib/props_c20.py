"""C20 configuration."""
PROP = dict(
    quick_n=450, thorough_n=20000,
    trusted_base=[
        "arr.ai evaluation of a test file is outside the model: the result tree (tuples, arrays as Values()+offset with "
        "nil holes, dictionaries, leaf classes TrueSet / EmptySet / GenericSet / other / fails-to-evaluate) is the input of "
        "the model; that the generated source evaluates to that tree is validated by the correspondence run only",
        "afero.Walk visits directory entries in lexical order and reports lstat failure of the root through the walk "
        "function (modelled: children listed sorted, World.lstat); os.Getwd succeeds (cwd of the harness is /)",
        "report text is parsed back by the harness (file headers, PASS/FAIL/??/SKIP lines, summary line); the verdict is "
        "the error returned by RunTests classified by its fixed prefix (no test files / failed compiling|evaluating / test run)",
        "package rel's representation invariant (a GenericSet is neither {} nor {()}) is assumed for the denotational "
        "reading of 'literal true'; the representation-level theorems do not need it",
    ],
    assumptions=[
        "result trees up to depth 4 (quick 3), tuples <= 5 attributes, arrays <= 4 items with holes strictly inside and "
        "offsets in {-3..17}, dictionaries <= 9 keys (numbers, strings, tuples) with up to 3 values under one key "
        "(unions of dict literals / sets of (@, @value) tuples; values under one key are of different classes); "
        "layouts up to 4 directory levels; file and directory names from pools probing the discovery rule (.x, _x, "
        "testdata, vendor, node_modules, names with spaces/dashes/dots/non-ASCII letters, upper-case suffix, .bak/~ "
        "suffixes, hidden files, a directory named _test.arrai; targets: root, sub-directory, file, hidden, missing); "
        "attribute names, string keys and file names include 2-, 3- and 4-byte characters, long names, spaces and quotes "
        "(the report-rendering path - padding, sorting, summary - is executed by every case; a panic there is the observable); "
        "number keys are small integers (Number.String switches to exponent notation from 1e6 on)",
        "display-only parts of the report (alignment, colours, wall time, messages) are not modelled",
        "attribute names that are empty or start with '.' are outside the path-rendering theorem (known finding "
        "KF-c20-dotted-attr-name); the verdict/count theorems hold for them too",
        "unparseable test files are generated only with sources whose parse error is cheap to format (a syntax error at "
        "end of input makes wbnf's ParseError.Error take ~30 s; out of scope here)",
    ],
    level_text="Proof: 25 Lean theorems about a transliteration of pkg/test (ForeachLeaf as repaired, isLiteralTrue/False, RunExpr, "
               "runFile, getTestFiles' walk, the loop of RunTests, calcStats, Report's verdict) - for every result tree (any nesting "
               "of tuples/arrays/dicts, sparse and offset arrays, sets/relations as leaves) ForeachLeaf reports exactly the specified "
               "leaves, each once under its rendered path (every (key, value) pair of a dictionary with repeated keys is a member: the multiset of reported (name, leaf) pairs is the specified one); for every directory layout the walk finds exactly the *_test.arrai files "
               "outside hidden directories; the run passes iff there is a test file, every test file compiles/evaluates and every leaf "
               "is the literal true; counts add up to the number of leaves (ignored is never produced by RunTests and never fails a "
               "run); any false/non-boolean/unevaluable leaf or uncompilable file fails the run. Tied to the repo by running "
               "test.RunTests over generated layouts on an afero MemMapFs on every run. Partial for path rendering with empty/dotted "
               "attribute names (known finding).",
    design_ref="DESIGN.md section 6, C20",
    watch=["pkg/test.ForeachLeaf", "pkg/test.isLiteralTrue", "pkg/test.isLiteralFalse", "pkg/test.RunExpr", "pkg/test.runFile",
           "pkg/test.getTestFiles", "pkg/test.RunTests", "pkg/test.calcStats", "pkg/test.Report"],
    env={"HARNESS_TIMEOUT_MS": "60000"},
)
