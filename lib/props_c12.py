"""C12 configuration: printed values read back as the same value."""
PROP = dict(
    quick_n=4000, thorough_n=150000,
    trusted_base=[
        "TEXT LEVEL is proved for all inputs: reprEscape/reprStr, parseArraiStringFragment (index loop, number(i,size,base,bits), "
        "every case of the switch, read from the regenerated tables), the STR token boundary, TupleNameRepr/identRE, "
        "Number.String on integers -> NUM, reprOffset, Go %q -> arr.ai reader",
        "TREE LEVEL: PT.den is a model of the fragment of arr.ai's parser that reads the printed literal forms (brackets, commas, "
        "`:`; unary minus and `\\` offsets; {|names| rows}; repeated dict keys rejected; no hole at an end of an array). Its agreement "
        "with the REAL wbnf parser/compiler is NOT proved: it is tied only by the correspondence run (reprrt: value -> fu.Repr -> "
        "syntax.EvaluateExpr -> value', canon and text compared)",
        "Go runtime/stdlib modelled, not verified: rune<->UTF-8 conversions (utf8/utf8dec follow unicode/utf8), strconv.ParseUint, "
        "strconv.FormatFloat(n,'G',-1,64) on integers (decimal digits without trailing zeros, exponent form from 1E+06) and "
        "strconv.ParseFloat on the printed NUM text, strconv.Quote (%q) with unicode.IsPrint left opaque, regexp for the three "
        "small patterns (identRE, renderableBytesRE, STR)",
        "the order in which set members / dict entries / relation rows are printed (Less, sort) is not modelled: the meaning of a "
        "literal does not depend on it; exact printed text is predicted (op `repr`) only for shapes with at most one member "
        "(tuple and relation names: sorted as Go strings). Accordingly op `reprrt` accepts a re-printed text that is a permutation "
        "of the first one (member order is C06's subject); a different representation or escape still changes the characters",
    ],
    assumptions=[
        "numbers: integers |n| < 2^53 whose printed form is under 15 characters (formatFloat64's guard; beyond it the one-ulp "
        "heuristic may deliberately print a neighbouring float) in the model; short decimals in the correspondence run only",
        "strings and attribute names over Unicode scalars (all 32 controls, DEL, both quotes, backslash, Latin-1, BMP, astral, U+FFFD); "
        "surrogates / out-of-range code points inside a String are the class KF-string-nonscalar-print",
        "values are built from arr.ai source (Rep.src); closures and non-canonical representations left by other defects "
        "(C01/C02: holes at the ends of arrays/strings, superimposed indices) are outside the generator",
        "relations are generated both as literals (physical columns sorted) and, for 3-5 identifier columns with a key column, as "
        "chains of <&> over 1- and 2-column literals in varying piece order and association, optionally followed by `where`, `with` "
        "or `|` (physical columns permuted): top level, nested in tuples/arrays/dicts/sets/relation cells, 1-4 rows, cells pairwise "
        "different; single-row ones also with the exact printed text predicted (op `repr`)",
        "random values: depth <= 4, <= 5 members per container; exhaustive tier: all strings of length <= 2 over a 40-character alphabet "
        "as string values, attribute names, printed text and bundle-config fields",
        "bundle config: bundleConfig is unexported, so op `bundlecfg` formats the two fields with the same format string "
        "(fact c12_bundleConfigString) and op `bundle` goes end to end through SetupBundle/OutputArraiz/EvaluateBundleCtx",
    ],
    level_text="Proof: the escape codec is closed completely in Lean - parseArraiStringFragment(reprEscape(s)) = s for every string over "
               "every code point and both quote characters (byte level, through UTF-8), the STR token ends at the printed closing quote, "
               "attribute names (bare or quoted), integers under the 15-character guard, offsets and Go %q texts (bundle config) read back "
               "as themselves; on top of these leaves, printing (Format of every type, as a token tree) followed by a reader of the printed "
               "sub-language is the identity on meanings for every printable representation (partial: strings with holes, multi-valued dict "
               "keys, non-scalar code points, an attribute named `*` and an attribute together with its `&` counterpart are open findings with "
               "machine-checked witnesses). Relation.Format's projection of a row stored in any physical column order to the sorted heading "
               "is modelled and proved to hand every attribute its own value (the representation itself is tied by join-built values in "
               "the correspondence run). The tree-level reader is tied to the real "
               "parser only by the correspondence run (print -> re-evaluate on generated values, every run).",
    design_ref="DESIGN.md section 6, C12",
    env={"HARNESS_TIMEOUT_MS": "60000"},
    watch=["rel.reprEscape", "rel.reprStr", "rel.reprString", "rel.reprOffset", "rel.reprOrderableSet", "rel.TupleNameRepr",
           "rel.formatFloat64", "rel.Number.String", "rel.Number.Format", "rel.String.Format", "rel.Bytes.Format", "rel.Array.Format",
           "rel.Dict.Format", "rel.Relation.Format", "rel.GenericSet.Format", "rel.UnionSet.Format", "rel.GenericTuple.Format",
           "rel.EmptySet.Format", "rel.TrueSet.Format", "rel.StringCharTuple.Format", "rel.ArrayItemTuple.Format",
           "rel.DictEntryTuple.Format", "rel.BytesByteTuple.Format",
           "syntax.parseArraiStringFragment", "syntax.parseArraiString", "syntax.parseName", "syntax.ParseContext.compileString",
           "syntax.ParseContext.compileNumber", "syntax.ParseContext.compileChar", "syntax.bundleConfig.String", "syntax.withBundledConfig", "pkg/arrai.OutputValue"],
)
