"""C05 configuration."""
PROP = dict(
    quick_n=4000, thorough_n=120000,
    trusted_base=[
        "elements of collections are modelled by their meaning (V): CallAll/SeqArrowExpr/Concatenate treat them opaquely; "
        "Equal/Hash of element values agreeing with equality of meanings is C02's obligation",
        "a.Count() in Concatenate is taken to be the number of members (C01's obligation)",
        "frozen.Map.Get / frozen.Set as finite maps/sets with distinct keys; Go map iteration order of the builder's buckets "
        "is immaterial (the model fixes one order, the theorems quantify over all lists)",
        "NewTuple's re-specialisation of (@, @char/@byte/@item/@value) tuples is modelled by `classify` on integer indices "
        "and in-range chars/bytes only",
    ],
    assumptions=[
        "relations are modelled with their PHYSICAL column order (Bucket.rel atFirst): the builder sorts the heading (so `@` is "
        "first unless the other name sorts before it, e.g. $a), Relation.Join puts left output before right output; the harness op "
        "`relshape` reads the real layout by reflection and a wrong prediction shows up as drift",
        "numbers are integers (|n| small) plus the non-integers n+1/2 as call arguments and offsets; chars 97..101, bytes "
        "0..255, offsets in {-2..5}, sequences of length <= 4 (<= 12 after ++), dict/relation keys from a pool of 7 values",
        "not generated (other properties' defects in this worktree): `with`, `|` of two sequences of the same kind, "
        "`without` on byte arrays, `where`/`without` on dicts, a multi-valued dict as left operand of ++, sugar-named pairs "
        "with a non-numeric index, non-char results of >> on a UnionSet that holds chars (NewTuple conversions, pinned panics)",
        "an argument EXPRESSION that itself fails with a missing attribute also triggers the ?: fallback "
        "('abc'((a:1).b)?:9 = 9); arguments are values here",
    ],
    level_text="Proof: 19 Lean theorems. Specification = the property (a call returns v iff v is the only value paired with the key; "
               "no-value / more-than-one errors characterised; >> keeps every (key, attribute) pair). The transliterated Go code refines it: "
               "call_refines (SetCall over CallAll of String/Bytes/Array/Dict/Relation/UnionSet/TrueSet/EmptySet = Spec.call on the meaning, incl. the "
               "error class), call_rep_indep, safecall_refines/safecall_fallback (fallback iff no value), seqarrow_refines (String/Bytes/Array/Dict: "
               "values mapped, keys/offsets/holes kept, error iff the specification has one), offset_refines, offset_bad_error, offset_compose, "
               "concat_error_iff, results_wf (results of >>, ++, \\ are well-formed, so the theorems compose) - all at full strength, for all inputs. Through the set builder (asString/asBytes/asArray/NewDict/relations, proved "
               "exact on representable sets): concat_refines_partial and seqarrow_set_refines_partial/seqarrow_set_error carry the hypothesis "
               "'the specified result is representable' (outside KF-superimposed/KF-bytes-holes); concat_full_false and seqarrow_full_false are "
               "machine-checked witnesses that the full statements fail. The model is tied to the Go code by running both on generated arr.ai "
               "programs on every run (error classes observed by type assertion, never by message).",
    design_ref="DESIGN.md section 6, C05",
    watch=["rel.SetCall", "rel.Call", "rel.String.CallAll", "rel.Bytes.CallAll", "rel.Array.CallAll", "rel.Dict.CallAll",
           "rel.Relation.CallAll", "rel.positionalRelation.CallAll", "rel.Relation.getAttrIndex", "rel.Relation.Join", "rel.relationBuilder.Finish", "rel.UnionSet.CallAll", "rel.GenericSet.CallAll",
           "rel.EmptySet.CallAll", "rel.TrueSet.CallAll", "rel.SeqArrowExpr.Eval", "rel.Concatenate", "rel.OffsetExpr.Eval",
           "rel.NewOffsetArray", "rel.NewOffsetString", "rel.NewOffsetBytes", "rel.asString", "rel.asBytes", "rel.asArray",
           "rel.NewDict", "rel.SetBuilder.Finish", "rel.SafeTailExpr.Eval", "syntax.ParseContext.compileSafeTails",
           "syntax.ParseContext.compileTailFunc"],
)
