"""C05 configuration."""
PROP = dict(
    quick_n=4000, thorough_n=120000,
    trusted_base=[
        "elements of collections are modelled by their meaning (V): CallAll/SeqArrowExpr/Concatenate treat them opaquely; "
        "Equal/Hash of element values agreeing with equality of meanings is C02's obligation",
        "a.Count() in Concatenate is taken to be the number of members (C01's obligation)",
        "frozen.Map.Get / frozen.Set as finite maps/sets with distinct keys; Go map iteration order of the builder's buckets "
        "is immaterial (the model fixes one order, the theorems quantify over all lists)",
        "NewTuple's re-specialisation of (@, @char/@byte/@item/@value) tuples is modelled by `classify` on integer indices "
        "and in-range chars/bytes only",
    ],
    assumptions=[
        "numbers are integers (|n| small) plus the non-integers n+1/2 as call arguments and offsets; chars 97..101, bytes "
        "0..255, offsets in {-2..5}, sequences of length <= 4 (<= 12 after ++), dict/relation keys from a pool of 7 values",
        "not generated (other properties' defects in this worktree): `with`, `|` of two sequences of the same kind, "
        "`without` on byte arrays, `where`/`without` on dicts, a multi-valued dict as left operand of ++, sugar-named pairs "
        "with a non-numeric index, non-char results of >> on a UnionSet that holds chars (NewTuple conversions, pinned panics)",
        "an argument EXPRESSION that itself fails with a missing attribute also triggers the ?: fallback "
        "('abc'((a:1).b)?:9 = 9); arguments are values here",
    ],
    level_text="Proof: Lean theorems over an executable transliteration of SetCall/CallAll (9 set representations), the safe-tail "
               "error classification, SeqArrowExpr.Eval, Concatenate, OffsetExpr and the set builder they go through. "
               "Tied to the Go code by running both on generated arr.ai programs on every run.",
    design_ref="DESIGN.md section 6, C05",
    watch=["rel.SetCall", "rel.Call", "rel.String.CallAll", "rel.Bytes.CallAll", "rel.Array.CallAll", "rel.Dict.CallAll",
           "rel.Relation.CallAll", "rel.positionalRelation.CallAll", "rel.UnionSet.CallAll", "rel.GenericSet.CallAll",
           "rel.EmptySet.CallAll", "rel.TrueSet.CallAll", "rel.SeqArrowExpr.Eval", "rel.Concatenate", "rel.OffsetExpr.Eval",
           "rel.NewOffsetArray", "rel.NewOffsetString", "rel.NewOffsetBytes", "rel.asString", "rel.asBytes", "rel.asArray",
           "rel.NewDict", "rel.SetBuilder.Finish", "rel.SafeTailExpr.Eval", "syntax.ParseContext.compileSafeTails",
           "syntax.ParseContext.compileTailFunc"],
)
