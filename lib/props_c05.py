"""C05 configuration."""
PROP = dict(
    quick_n=2800, thorough_n=120000,
    trusted_base=[
        "elements of collections are modelled by their meaning (V): CallAll/SeqArrowExpr/Concatenate treat them opaquely; "
        "Equal/Hash of element values agreeing with equality of meanings is C02's obligation",
        "frozen.Map.Get / frozen.Set as finite maps/sets with distinct keys/members (the decidable invariants Coll.wf / Coll.wfCount); "
        "Go map iteration order of the builder's buckets is immaterial (the model fixes one order, the theorems quantify over all lists)",
        "the cached fields String.holes and Array.count are DERIVED in the model (number of negative runes / of items): every Go "
        "constructor that builds a String or Array must set them so; this is not visible in canon(result), so every value-rooted "
        "program (and every third called collection) is also observed through `count`, `= <literal of the specified result>` in "
        "both orders and a follow-up `++` whose shift is the count (stratum counters/*)",
        "String.holes is the number of negative runes (NewOffsetString and asString compute it by counting; String.Without's "
        "incremental maintenance is C01's)",
        "wfCount (members held once, buckets disjoint) is proved to give Count() = number of members, but is not proved to be "
        "re-established by the set builder (wf is: results_wf); the correspondence run exercises ++ on builder results",
    ],
    assumptions=[
        "relations are modelled with their PHYSICAL column order (Bucket.rel atFirst): the builder sorts the heading (so `@` is "
        "first unless the other name sorts before it, e.g. $a), Relation.Join puts left output before right output; the harness op "
        "`relshape` reads the real layout by reflection and a wrong prediction shows up as drift",
        "numbers are integers (|n| small) plus the non-integers n+1/2 as call arguments and offsets; chars 97..101, bytes "
        "0..255, offsets in {-2..5}, sequences of length <= 4 (<= 12 after ++), dict/relation keys from a pool of 7 values",
        "sugar-named tuples (@item/@char/@byte) with a NON-NUMERIC index panic in NewTuple/specialTuple (pinned by the suite, C10): "
        "not generated, and the model's classify treats them as plain pairs",
        "a set whose meaning is a pure string / byte array is assumed to be held as String / Bytes (hypothesis modeOf = generic of the "
        "generic-loop theorems); chars above U+10FFFF, which >> on a String accepts but NewTuple does not specialise, fall outside",
        "not generated (other properties' defects): `with`, `|` of two sequences of the same kind, `without` on byte arrays or at "
        "an end of a sequence, `where`/`without` on dicts",
    ],
    level_text="Proof: 27 Lean theorems. Specification = the property (call returns v iff v is the only value paired with the key; no-value / "
               "more-than-one characterised; >> keeps every (key, attribute) pair). The transliterated Go code refines it, at full strength "
               "for all inputs: call_refines and call_total (SetCall over CallAll of all 9 representations = Spec.callAny on the meaning incl. "
               "the error class, for keyed AND non-keyed sets), call_rep_indep(_total), safecall_refines/safecall_fallback, seqarrow_refines "
               "(String/Bytes/Array/Dict), seqarrow_set_error_iff + seqarrow_set_error_class + seqarrow_nonkeyed_error (the generic loop is proved "
               "EQUAL to the specification's member map: setLoop_eq), offset_refines/offset_bad_error/offset_compose/offset_result_counts (Count() survives an offset, holes included), concat_error_iff, "
               "count_is_card (Count() of every representation = number of members; no longer trusted), results_wf. Through the set builder "
               "(proved exact on representable sets): concat_refines_partial and seqarrow_set_refines_partial carry the hypothesis 'the specified "
               "result is representable' (KF-superimposed/KF-bytes-holes) with machine-checked witnesses concat_full_false, seqarrow_full_false. "
               "safecall_fallback_partial / safecall_fallback_full_false: a failing ARGUMENT expression (missing attribute) triggers ?: "
               "(KF-safecall-arg-missing-attr). Tied to the Go code by running both on generated arr.ai programs on every run.",
    design_ref="DESIGN.md section 6, C05",
    watch=["rel.SetCall", "rel.Call", "rel.String.CallAll", "rel.Bytes.CallAll", "rel.Array.CallAll", "rel.Dict.CallAll",
           "rel.Relation.CallAll", "rel.positionalRelation.CallAll", "rel.Relation.getAttrIndex", "rel.Relation.Join", "rel.relationBuilder.Finish", "rel.UnionSet.CallAll", "rel.GenericSet.CallAll",
           "rel.EmptySet.CallAll", "rel.TrueSet.CallAll", "rel.SeqArrowExpr.Eval", "rel.Concatenate", "rel.OffsetExpr.Eval",
           "rel.NewOffsetArray", "rel.NewOffsetString", "rel.NewOffsetBytes", "rel.asString", "rel.asBytes", "rel.asArray",
           "rel.NewDict", "rel.Dict.Count", "rel.String.Count", "rel.Array.Count", "rel.Bytes.Count", "rel.Relation.Count", "rel.UnionSet.Count", "rel.specialTuple", "rel.NewTuple", "rel.SetBuilder.Finish", "rel.SafeTailExpr.Eval", "syntax.ParseContext.compileSafeTails",
           "syntax.ParseContext.compileTailFunc"],
)
