"""C11 configuration: concurrent evaluation over shared values is race-free and gives serial results."""
import os, re, subprocess, time, json

ARRAI = "github.com/arr-ai/arrai/"

RACE_SUBSET = 240          # cases (corpus first) replayed under the race detector in the thorough tier
RACE_PROCS = 6             # harness processes; each runs its share of the cases one at a time
RACE_TIMEOUT_S = 900


def parse_race_reports(stderr):
    """Split the race detector's stderr into reports.  Every report gets the case that was running when it was
    printed (the harness brackets every case by '@@C11 begin/end <id>' lines when C11_MARK=1 and runs one case at
    a time), and the innermost frame of each of the two conflicting accesses."""
    reports, cur_case, block = [], None, None
    for line in stderr.split("\n"):
        m = re.match(r"@@C11 (begin|end) (\S+)", line)
        if m and block is None:
            cur_case = m.group(2) if m.group(1) == "begin" else None
            continue
        if line.startswith("WARNING: DATA RACE"):
            block = dict(case=cur_case, lines=[])
            continue
        if block is not None:
            if line.startswith("=================="):
                reports.append(block)
                block = None
            else:
                block["lines"].append(line)
    if block is not None:
        reports.append(block)
    out = []
    for b in reports:
        frames, i, L = [], 0, b["lines"]
        while i < len(L):
            if re.match(r"(Previous )?(read|write|atomic read|atomic write) at 0x[0-9a-f]+ by ", L[i], re.I):
                what = L[i].strip()
                j = i + 1
                top = L[j].strip() if j < len(L) else "?"
                loc = L[j + 1].strip() if j + 1 < len(L) else "?"
                frames.append(dict(access=what.split(" at ")[0], innermost=top, at=loc.split(" +")[0]))
                i = j
            i += 1
        ours = any(f["innermost"].startswith(ARRAI) for f in frames[:2])
        out.append(dict(case=b["case"], accesses=frames[:2], in_arrai=ours))
    return out


def extra(ctx):
    """thorough tier: replay the first RACE_SUBSET cases on a harness built with -race, one case at a time, with
    FROZEN_CONCURRENCY=0 (the frozen library's own knob: fan callbacks out over goroutines even on small sets).
    A race report counts only if the innermost frame of one of its two conflicting accesses is in
    github.com/arr-ai/arrai/ (exact prefix); the others are dependency noise and are listed in the evidence."""
    if ctx["tier"] != "thorough":
        return {}
    t0 = time.time()
    exe, blog = ctx["build_harness"](ctx["prop"], race=True)
    if exe is None:
        return dict(coverage=dict(race_run="harness build with -race failed: " + blog[-300:]),
                    violations=[("C11-corpus-0", "race-harness-build-failed", "")])
    ids = list(ctx["cases"].keys())[:RACE_SUBSET]
    env = dict(os.environ, FROZEN_CONCURRENCY="0", C11_MARK="1", HARNESS_WORKERS="1", HARNESS_TIMEOUT_MS="600000",
               GORACE="halt_on_error=0 history_size=3")
    procs = []
    for k in range(RACE_PROCS):
        share = ids[k::RACE_PROCS]
        if not share:
            continue
        path = os.path.join(ctx["build"], "run", f"C11-race-{os.getpid()}-{k}.tsv")
        with open(path, "w") as f:
            for cid in share:
                f.write(ctx["cases"][cid]["line"] + "\n")
        fin, fout, ferr = open(path), open(path + ".out", "w+"), open(path + ".err", "w+")
        procs.append((path, (fin, fout, ferr), subprocess.Popen([exe], stdin=fin, stdout=fout, stderr=ferr, env=env)))
    results, reports, deadline = {}, [], time.time() + RACE_TIMEOUT_S
    for path, files, pr in procs:
        try:
            pr.wait(timeout=max(1, deadline - time.time()))
        except subprocess.TimeoutExpired:
            pr.kill()
            pr.wait()
        fin, fout, ferr = files
        fout.seek(0)
        ferr.seek(0)
        out, err = fout.read(), ferr.read()
        for f in files:
            f.close()
        for suffix in ("", ".out", ".err"):
            os.remove(path + suffix)
        for line in out.split("\n"):
            if "\t" in line:
                i, v = line.split("\t", 1)
                results[i] = v.replace("\\t", "\t").replace("\\n", "\n").replace("\\\\", "\\")
        reports += parse_race_reports(err)
    ours = [r_ for r_ in reports if r_["in_arrai"]]
    noise = [r_ for r_ in reports if not r_["in_arrai"]]
    violations, seen = [], set()
    for r_ in ours:
        cid = r_["case"] or ids[0]
        key = (cid,) + tuple(a["innermost"] for a in r_["accesses"])
        if key in seen:
            continue
        seen.add(key)
        desc = "DATA RACE: " + " vs ".join(f'{a["access"]} in {a["innermost"]} ({a["at"]})' for a in r_["accesses"])
        c = ctx["cases"].get(cid)
        if c is not None and c["cls"] == "good":
            # make the race the observable of the case it happened in: ./check then reports it in case order
            # (corpus first) with a replay file that names the programs
            if not str(ctx["results"].get(cid, "")).startswith("DATA RACE"):
                ctx["results"][cid] = desc
        else:
            violations.append((cid, desc, "race detector, FROZEN_CONCURRENCY=0"))
    # the results under -race must also be the specified ones
    wrong = 0
    for cid in ids:
        got = results.get(cid)
        if ctx["cases"][cid]["cls"] != "good":
            continue  # known-finding cases are judged by ./check itself
        if got is not None and got != ctx["cases"][cid]["spec"]:
            wrong += 1
            if wrong <= 3:
                violations.append((cid, got, "result under -race differs from the serial result"))
    noise_tops = {}
    for r_ in noise:
        k = " vs ".join(re.sub(r"\[.*\]", "", a["innermost"]).replace("github.com/arr-ai/", "") for a in r_["accesses"])
        noise_tops[k] = noise_tops.get(k, 0) + 1
    cov = dict(race_run=dict(cases=len(ids), completed=len(results), wall_s=round(time.time() - t0, 1),
                             env=f"FROZEN_CONCURRENCY=0, go build -race, {RACE_PROCS} processes, each one case at a time",
                             reports_total=len(reports), reports_in_arrai=len(ours),
                             arrai_reports=[dict(case=r_["case"], accesses=r_["accesses"]) for r_ in ours[:10]],
                             dependency_noise_reports=len(noise), dependency_noise=noise_tops,
                             results_differing=wrong,
                             rule="a report counts iff the innermost frame of one of the two conflicting accesses "
                                  "starts with github.com/arr-ai/arrai/"))
    return dict(violations=violations, coverage=cov)


PROP = dict(
    quick_n=160, thorough_n=1500,
    # generous watchdog: the getOrAdd operations detect a lost wake-up themselves (8 s without progress); a whole-case
    # timeout only has to catch a wedged evaluation, and must not fire on a merely overloaded machine
    env={"FROZEN_CONCURRENCY": "0", "HARNESS_TIMEOUT_MS": "180000", "HARNESS_WORKERS": "8"},
    extra=extra,
    trusted_base=[
        "Go's sync primitives behave as documented: Mutex/RWMutex give mutual exclusion, Once.Do runs f at most once and "
        "returns only after that run completed, Cond.Wait releases the mutex atomically and has no spurious wake-ups, "
        "Broadcast wakes every waiter (these are the transition rules of the protocol machines and the WF axioms of the "
        "happens-before model; once_serial/once_returns_after_f prove the two Once axioms of the Once machine itself)",
        "the happens-before edges are the ones the Go memory model documents (program order, Unlock->Lock, RUnlock->Lock, "
        "Unlock->RLock, completion of once.Do's f -> return of any Do, send -> receive, go statement -> goroutine start); "
        "nothing below that level (hardware memory model, compiler reordering, the scheduler) is modelled",
        "critical sections are modelled with one atomic step per statement group under the lock; add()/f()/fn() are "
        "abstract terminating steps with a fixed outcome per (key, attempt number)",
        "the fact extractor's syntactic rules (extract/facts_c11.go): shared = package-level variables and fields of structs "
        "that declare a sync.* field or have a method Eval/Kind/Hash/Bind; guards = lexically enclosing Once.Do literal / "
        "Lock..Unlock region; possibly-concurrent callbacks = function literals passed to Where/SetMap/MapMap/Reduce/Reduce2/"
        "SetGroupBy/Merge/NewMapFromKeys or started with go",
        "the race detector (thorough tier) only reports races that actually happen in the runs it watches",
    ],
    assumptions=[
        "races inside the Go runtime, the frozen library and other dependencies are NOT covered (FROZEN_CONCURRENCY=0 makes "
        "frozen report races inside its own Combine/Flip code: listed in the evidence as dependency noise, not counted)",
        "shared state that the extractor's syntactic rules do not recognise (mutation through method calls on captured "
        "objects other than Put/Add/Append/Write/Store/Set/Remove, aliasing through interfaces, unsafe) is not covered",
        "pkg/ctxfs.SetDefaultFs assigns a package variable without synchronisation: an embedding host must call it before it "
        "starts evaluating (classified `setup`)",
        "getOrAdd_live assumes add() terminates: a cyclic import graph compiled concurrently from two entry points makes two "
        "add() calls wait for each other (each chain has no repeated key, so the import-cycle repair does not see it); "
        "this cross-wait is outside the model and is not exercised by the runs",
        "deprecate.encountered is not a test-and-set (seen_not_test_and_set): a deprecation warning may be printed more than "
        "once under concurrency; results are unaffected",
        "the deprecation cache is modelled and proved but not exercised by the support runs",
        "first-use runs (op fresh) start the harness itself as a child process whose stdin is a pipe fed in chunks; every "
        "goroutine of the child must get exactly what a one-goroutine child gets (and what the model says): std scope, "
        "FixFuncs, embedded files, implicit decoder / import cache (./d.json, ./m.arrai in a temporary module), //os.stdin",
        "correspondence runs: shared values = integer sets, binary relations and relations of nested tuples with 0..1000 "
        "members, 24 program shapes (where / => / count / | / & / &~ / orderby / <&> / -&- / nest / +> / projection), "
        "2..16 goroutines x 1..3 rounds; getOrAdd: 2..12 callers, 1..3 keys, scripted add outcomes",
    ],
    level_text="Proof (partial): Lean theorems, for ALL interleavings (induction over the schedule) and any number of callers, about "
               "transliterated protocol machines of every lazily initialised shared state of arr.ai: sync.Once caches (f runs at "
               "most once, every caller gets f's value), the mutex-held index / embedded-file caches, stdin's read-once over a consuming stream (every caller gets the whole input; "
               "witness that the narrowed-lock variant does not), importCache.getOrAdd "
               "(serial results, at most one successful add per key; liveness of the repaired code by a termination measure and "
               "deadlock-freedom, plus a machine-checked witness that the unrepaired code loses a wake-up), deprecate's cache; and "
               "a happens-before trace model with theorem discipline_sound (once / mutex / read-only-after-publication disciplines "
               "exclude data races) whose premise per location is the fact table lazyState regenerated from the sources on every "
               "run (obligation Generated = Expected, every row classified; a second table lazyCompute records for every mutex-guarded "
               "compute-and-store whether the locked region spans the computing call, so narrowing a region breaks an obligation). Partial because the Go memory model, the scheduler "
               "and frozen's internal goroutines are not modelled: the tie between 'the code follows the discipline' and the "
               "sources is syntactic (extractor), and is supported - not proved - by concurrent runs (8 goroutines over shared "
               "compiled expressions and shared values; thorough: under the race detector with FROZEN_CONCURRENCY=0).",
    level_note="What Lean carries: (a) protocol correctness of the lazily initialised state as transition systems over all "
               "interleavings; (b) data-race freedom of an abstract trace model under a locking discipline, the per-location premise "
               "being extracted syntactically from the Go sources. What it does not: the Go memory model below the documented "
               "happens-before edges, the scheduler, goroutines inside frozen and other dependencies (their races are listed as "
               "noise, not counted), shared state the extractor's rules do not recognise. The concurrent runs and the race "
               "detector are support, not proof.",
    design_ref="DESIGN.md section 6, C11",
    watch=["rel.GenericTuple.Names", "rel.GenericTuple.getBucket", "rel.TupleOrderedNames", "rel.positionalRelation.getMeta",
           "rel.positionalRelationMetadata.computeIndex", "rel.positionalRelation.groupBy", "rel.positionalRelation.Where",
           "rel.GenericSet.Where", "rel.firstError.set", "rel.firstError.get",
           "syntax.FixFuncs", "syntax.StdScope", "syntax.SafeStdScope", "syntax.implicitDecoder", "syntax.mustReadEmbeddedFile",
           "syntax.stdOsStdin.read", "syntax.stdOsStdin.reset", "pkg/importcache.importCache.getOrAdd", "pkg/deprecate.sourceContextCache.encountered",
           "pkg/deprecate.delayDuration"],
)
