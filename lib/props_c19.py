"""C19 configuration."""
PROP = dict(
    quick_n=1500, thorough_n=50000,
    trusted_base=[
        "afero's MemMapFs, behind the harness layer strictFs (harness/cmd/c19/main.go: Mkdir/Create need an existing parent "
        "directory, Create refuses a directory - the POSIX preconditions MemMapFs lacks), stands for the file system; the model's "
        "operations Stat/Mkdir/Create/Write/Sync/Close/RemoveAll have exactly these semantics; real-OS behaviour beyond them "
        "(permissions, symlinks, ENOTDIR below a file, concurrent writers) is not modelled",
        "fault injection: the harness layer faultFs fails the k-th file-system call before it has any effect (model: fsop)",
        "the arr.ai evaluator turns the generated source into the value the model's Val denotes (dynamic Go type per constructor: "
        "String/Bytes/EmptySet/Dict/Tuple/other Set/Number)",
        "Go's path.Join/path.Clean on a dict key are modelled by splitSlash + cleanStep (Key.rel); validated by the correspondence run only",
    ],
    assumptions=[
        "dict keys of one dict are distinct values (arr.ai dicts built by a literal); descriptions of depth <= 3 with <= 3 entries per dict",
        "element names in generated trees have equal length, so MemMapFs.RemoveAll's string-prefix deletion cannot reach a sibling "
        "('a' vs 'ab' is an afero defect, not arr.ai's)",
        "PATH itself is clean and absolute; its parent exists except in the no-parent scenes; ASCII names and text",
        "fault runs use descriptions that are valid on their tree, so the number of calls does not depend on Go's dict enumeration order; "
        "the observable of a run in which a fault fired is only whether the command failed",
    ],
    level_text="Proof: 12 Lean theorems about a transliteration of pkg/arrai/out.go (outputValue, outputTupleDir and its entry switch, "
               "configureOutput, applyIfExistsConfig with all five ifExists values, applyFilesFields, outputFile, getDirField, entryPath) "
               "over a tree model of the file system with a fault oracle: on a valid description the run succeeds and the file system "
               "is the old one with PATH replaced by Spec.apply (exact inside, untouched outside); on an invalid one, or an uncreatable "
               "PATH, it fails and the file system is literally unchanged; the dry pass succeeds iff the description is valid and changes "
               "nothing; file mode writes exactly the bytes or changes nothing; any failing file-system call makes the command fail. "
               "The directory theorems are partial: they assume keys that name a single element (KF-out-key-with-separator, refuted at full "
               "strength by three witness theorems). The model is tied to the repaired worktree by running both on generated descriptions x "
               "pre-existing trees x fault positions on every run.",
    design_ref="DESIGN.md section 6, C19",
    watch=["pkg/arrai.outputValue", "pkg/arrai.outputTupleDir", "pkg/arrai.outputFile", "pkg/arrai.configureOutput",
           "pkg/arrai.applyIfExistsConfig", "pkg/arrai.applyFilesFields", "pkg/arrai.getDirField", "pkg/arrai.entryPath",
           "pkg/arrai.checkDirXorFileField", "pkg/arrai.checkNotDirAndNotFileField", "pkg/arrai.getConfigurators",
           "pkg/arrai.OutputValue", "pkg/ctxfs.RuntimeFsFrom"],
)
