"""C19 configuration."""
PROP = dict(
    quick_n=1500, thorough_n=50000,
    trusted_base=[
        "afero's MemMapFs, behind the harness layer strictFs (harness/cmd/c19/main.go: Mkdir/Create need an existing parent "
        "directory, Create refuses a directory - the POSIX preconditions MemMapFs lacks), stands for the file system; the model's "
        "operations Stat/Mkdir/Create/Write/Sync/Close/RemoveAll have exactly these semantics; real-OS behaviour beyond them "
        "(permissions, symlinks, ENOTDIR below a file, concurrent writers) is not modelled",
        "fault injection: the harness layer faultFs fails the k-th file-system call before it has any effect (model: fsop)",
        "the arr.ai evaluator turns the generated source into the value the model's Val denotes (dynamic Go type per constructor: "
        "String/Bytes/EmptySet/Dict/Tuple/other Set/Number)",
        "Go's path.Join/path.Clean on a dict key are modelled by splitSlash + cleanStep (Key.rel); validated by the correspondence run only",
    ],
    assumptions=[
        "dict keys of one dict are distinct values (arr.ai dicts built by a literal); descriptions of depth <= 3 with <= 3 entries per dict",
        "Go enumerates a dict in hash order, the model in list order: inside the class aliasOrMissingParent the observable can depend on the "
        "order, so those cases carry the known-finding class and any outcome is reported, not judged; outside the class the theorems hold "
        "for every order",
        "file contents up to 12 KiB (some generated files exceed 8 KiB and differ from the pre-existing file of equal length only in the last byte)",
        "element names in generated trees have equal length, so MemMapFs.RemoveAll's string-prefix deletion cannot reach a sibling "
        "('a' vs 'ab' is an afero defect, not arr.ai's)",
        "PATH itself is clean and absolute; its parent exists except in the no-parent scenes; ASCII names and text",
        "fault runs use descriptions that are valid on their tree, so the number of calls does not depend on Go's dict enumeration order; "
        "the observable of a run in which a fault fired is only whether the command failed",
    ],
    level_text="Proof: 24 Lean theorems about a transliteration of pkg/arrai/out.go (outputValue, outputTupleDir and its entry switch, "
               "configureOutput, applyIfExistsConfig with all five ifExists values, applyFilesFields, outputFile, getDirField, entryPath) "
               "over a tree model of the file system with POSIX preconditions and a fault oracle. For EVERY description, keys that denote "
               "paths of several elements included: the validation pass changes nothing and returns exactly Sem.dryDir (dry_exact); if every "
               "entry in turn has its parent directories and can be written the run succeeds with Spec.apply (out_refines_seq); the entries "
               "before a first entry with a missing parent are written exactly, then an I/O error (missing_parent_exact); aliasing entries "
               "behave differently in the two enumeration orders (alias_order_matters). Outside the decidable class aliasOrMissingParent "
               "(two sibling keys denote comparable paths, or a key's parent directory is absent when it is written) the property holds at "
               "full strength: valid => success and the file system is the old one with PATH replaced by Spec.apply (exact inside, untouched "
               "outside); invalid or uncreatable PATH => failure and the file system literally unchanged; dry pass ok iff valid; and every "
               "violation of atomicity lies in the class (atomic_violations_in_class; three refutation witnesses, all in the class). "
               "File mode writes exactly the bytes (empty content included) or, with PATH a directory / no parent directory / another kind of "
               "result / unknown mode, changes nothing. Faults: any failing call makes the command fail; a run in which no fault fires is "
               "identical to the fault-free run; whatever fails, nothing outside PATH is touched. The model is tied to /repo by running both "
               "on generated descriptions x pre-existing trees x fault positions on every run.",
    design_ref="DESIGN.md section 6, C19",
    watch=["pkg/arrai.outputValue", "pkg/arrai.outputTupleDir", "pkg/arrai.outputFile", "pkg/arrai.configureOutput",
           "pkg/arrai.applyIfExistsConfig", "pkg/arrai.applyFilesFields", "pkg/arrai.getDirField", "pkg/arrai.entryPath",
           "pkg/arrai.checkDirXorFileField", "pkg/arrai.checkNotDirAndNotFileField", "pkg/arrai.getConfigurators",
           "pkg/arrai.OutputValue", "pkg/ctxfs.RuntimeFsFrom"],
)
