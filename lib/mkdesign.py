#!/usr/bin/env python3
"""Regenerate sections A.4–A.6 of DESIGN.md (between the markers) from notes/reports, known_findings.json, seeded/*/meta.json, evidence/*.json."""
import json, os, glob, re
R = os.path.dirname(os.path.dirname(os.path.abspath(__file__)))
out = []
out.append("### A.4 Per-property status (as built)\n")
out.append("Numbers are from the last quick run on the merged /repo (evidence/Cxx.json). Every check claims level `proof`; what is proved, what is `_partial` and what rests on the correspondence run alone is listed per property below and in `lib/props_cXX.py` (`level_note`).\n")
out.append("| id | theorems | quick cases | wall s | open known findings |\n|---|---|---|---|---|")
kf = json.load(open(os.path.join(R, "known_findings.json")))
for i in range(1, 21):
    p = f"C{i:02d}"
    try:
        ev = json.load(open(os.path.join(R, "evidence", p + ".json")))
        c = ev["coverage"]
        kfs = ", ".join(e["id"] for e in kf["open"] if p in e["properties"])
        out.append(f"| {p} | {c['discharged']}/{c['obligations']} | {c['evaluations']} | {ev['wall_s']} | {kfs or '–'} |")
    except Exception as e:
        out.append(f"| {p} | ? | ? | ? | ? |")
out.append("")
for f in sorted(glob.glob(os.path.join(R, "notes", "reports", "*.md"))):
    body = open(f).read().strip()
    body = re.sub(r"^# ", "#### ", body)
    out.append(body + "\n")
out.append("#### C14 (written by hand)\n31 theorems: contains_iff_window, hasPrefix/hasSuffix_iff_append, join_inverts_split, trimPrefix/Suffix_exact/_absent, sub_is_join_split, repeat laws; arraySplit/Sub/HasPrefix/HasSuffix/Join/TrimPrefix/TrimSuffix_refines, search_finds_iff_contains, repeatLoop_refines; contains/hasPrefix/hasSuffix/split/sub/trimPrefix/trimSuffix/concat_three_reprs, repeat_reprs_partial (+repeat_full_false), join_reprs_partial (hyp joinGood). Go strings.*/bytes.* modelled by the textbook functions (trusted). Sparse/offset arrays: `!panic` stream only.\n")
out.append("### A.5 Defects repaired and findings left open\n")
out.append(f"{len(kf['fixed'])} `fix:` commits were merged into /repo (each a single-purpose commit, suite 775/775 after every batch); they are listed with their witnesses in known_findings.json under `fixed` (a fixed entry suppresses nothing). {len(kf['open'])} findings are open; each has a decidable class predicate in the property's generator, a `…_full_false`/witness theorem where the model covers it, and is reported as `KNOWN-FINDING:` by the checks of the listed properties:\n")
for e in kf["open"]:
    out.append(f"- `{e['id']}` ({', '.join(e['properties'])}): {e['what']}")
out.append("\nFixes per property: " + ", ".join(f"{p}: {sum(1 for e in kf['fixed'] if e['property']==p)}" for p in sorted(set(e['property'] for e in kf['fixed']))) + ".\n")
out.append("### A.6 Seeded property-breaking changes\n")
out.append("Written by sub-agents that saw only the property text and a scratch worktree of /repo (nothing from /verif); each kept under `seeded/<id>/` (patch.diff, demo test, meta.json) after `lib/confirm_seed.py` confirmed in a scratch worktree that the demonstration passes without the patch, fails with it, the tree builds and the 775-test baseline still passes (confirm.json). `lib/seedone.py seeded/<id>` applies the patch in a scratch worktree of /repo's HEAD (never in /repo itself), points the property's check at it with `VERIF_REPO`, and removes the worktree. 'first run' is the verdict of the check as it stood when the seed arrived; every miss was answered by a generic strengthening of the generator/model (never by special-casing the seed) and re-run ('now'). A seed marked `(Cyy)` in the last column is decided by another property's check (the change breaks that property too).\n")
_seeds=[json.load(open(f)) for f in glob.glob(os.path.join(R,'seeded','*','meta.json'))]
out.append(f"Totals: {len(_seeds)} seeds; {sum(1 for m in _seeds if m.get('first_result')=='missed')} missed on first run; {sum(1 for m in _seeds if (m.get('check_result') or {}).get('detected') or m.get('also_detected_by'))} detected now.\n")
out.append("| seed | what it breaks / needs | confirmed | first run | now |\n|---|---|---|---|---|")
for d in sorted(glob.glob(os.path.join(R, "seeded", "*")), key=lambda x: (os.path.basename(x).split("-")[0], int(os.path.basename(x).split("-")[1]) if os.path.basename(x).split("-")[1].isdigit() else 0)):
    try:
        m = json.load(open(os.path.join(d, "meta.json")))
    except Exception:
        continue
    conf = "?"
    cp = os.path.join(d, "confirm.json")
    if os.path.exists(cp):
        conf = "yes" if json.load(open(cp)).get("ok") else "NO"
    cr = m.get("check_result", {})
    first = m.get("first_result", "detected" if cr.get("detected") else "missed")
    now = "detected" if cr.get("detected") else ("n/a" if cr.get("detected") is None else "MISSED")
    if not cr.get("detected") and m.get("also_detected_by"):
        now = "detected (" + str(m["also_detected_by"])[:40] + ")"
    summ = (m.get("summary") or "")[:150].replace("|", "/").replace("\n", " ")
    out.append(f"| {os.path.basename(d)} | {summ} | {conf} | {first} | {now} |")
out.append("")
text = "\n".join(out)
p = os.path.join(R, "DESIGN.md")
s = open(p).read()
b, e = "<!-- A4-BEGIN -->", "<!-- A4-END -->"
if b in s:
    s = s[:s.index(b) + len(b)] + "\n" + text + "\n" + s[s.index(e):]
else:
    marker = "Contents\n"
    s = s.replace(marker, b + "\n" + text + "\n" + e + "\n\n---------------------------------------------------------------------------------------------------\n\n" + marker, 1)
open(p, "w").write(s)
print("DESIGN.md updated:", len(text), "chars")
