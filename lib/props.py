"""Per-property configuration of ./check: collected from lib/props_cXX.py (one module per property,
each defining PROP = dict(quick_n, thorough_n, trusted_base, assumptions, level_text, watch, extra, env, ...))."""
import importlib, os, glob

HOOK_COMMITS = []
PROPS = {}
for f in sorted(glob.glob(os.path.join(os.path.dirname(os.path.abspath(__file__)), "props_c*.py"))):
    name = os.path.basename(f)[:-3]
    mod = importlib.import_module(name)
    PROPS[name[6:].upper()] = mod.PROP
