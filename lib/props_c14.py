"""C14 configuration."""
PROP = dict(
    quick_n=4000, thorough_n=120000,
    trusted_base=["Go strings.Contains/HasPrefix/HasSuffix/Split/ReplaceAll/Repeat/TrimPrefix/TrimSuffix and bytes.* "
                  "are modelled by the textbook list functions (Spec); validated by the correspondence run only",
                  "rel.Difference/Array.Shift inside arrayTrimPrefix/Suffix are modelled on (index,item) pairs"],
    assumptions=["sequences over a 2-3 letter alphabet, length <= 9, patterns <= 4; ASCII only for strings/bytes",
                 "sparse/offset arrays as //seq arguments are outside this model (dense sequences only)"],
    level_text="Proof: 31 Lean theorems - the specification functions are the textbook ones (window/append characterisations, "
               "join inverts split, trim exact), the transliterated Go array helpers (search, arraySplit/Sub/Join/HasPrefix/HasSuffix/"
               "TrimPrefix/TrimSuffix, repeat loop) equal them for all inputs, and the std_seq.go dispatch returns the specified "
               "result for kind-consistent arguments in all three representations. The model is tied to /repo by running both on "
               "generated //seq programs (all three representations) on every run. Partial for byte arrays in repeat/join (known findings).",
    design_ref="DESIGN.md section 6, C14",
    watch=["syntax.search", "syntax.arraySplit", "syntax.arraySub", "syntax.arrayJoin", "syntax.arrayHasPrefix", "syntax.arrayHasSuffix",
           "syntax.arrayTrimPrefix", "syntax.arrayTrimSuffix", "syntax.arrayContains", "syntax.stdSeqContains", "syntax.stdSeqJoin",
           "syntax.stdSeqHasPrefix", "syntax.stdSeqHasSuffix", "syntax.stdSeqRepeat", "syntax.stdSeqSub", "syntax.stdSeqSplit",
           "syntax.stdSeqTrimPrefix", "syntax.stdSeqTrimSuffix", "syntax.stdSeqConcat", "syntax.strJoin", "syntax.bytesJoin", "syntax.bytesSplit"],
)
