"""C06 configuration: `<` is a strict total order consistent with `=`, and sorting follows it."""
PROP = dict(
    quick_n=6000, thorough_n=15000,
    trusted_base=[
        "rel.Value.Equal is modelled as equality of canonical forms (Impl.equal a b := key a = key b, the key being what the "
        "Less methods compare); Equal's own code is C02's subject. Every case compares Equal (directly and through `=`) with it.",
        "sort.Sort / sort.Slice / frozen's OrderedRange / OrderedElements are modelled by insertion sort; theorem sort_unique "
        "shows that any correct sort returns the same list when no two members are equal (ties: only tied members may swap)",
        "Go's dynamic dispatch and recursion of Less is modelled with open recursion + fuel = nesting depth "
        "(theorem less_fuel_stable: any larger fuel gives the same answer)",
        "Go string comparison (names, `string(b.b)` for byte arrays) is byte-wise = code-point-wise lexicographic; "
        "Lean's `compare` on String and on lists of byte values is used for it",
        "numbers are modelled as Int (exactly representable integers); fractional and huge numbers are covered by an "
        "implementation-only law check (stream `floats`), NaN/Inf excluded",
        "representation built for a source text (which Go type, which bucket): Impl.ofLit / build / newTuple / negate / mkArray "
        "transliterate SetBuilder, NewTuple, Negate, NewOffsetArray; validated by every case (a wrong representation changes "
        "the predicted order)"],
    assumptions=[
        "data fragment: numbers, tuples (generic, the four specialised, @neg wrappers incl. nested), all nine set representations, "
        "nested to depth 3-4; functions/closures excluded",
        "sets whose members superimpose two sugar tuples at one index are excluded (KF-superimposed)",
        "`-x` on char/byte tuples is not generated (negated chars are hole markers: C05/C01)",
        "dense strata: 15% of the cases are specialised tuples (char/byte/item/entry) with crossed components, bare and wrapped in "
        "tuples/arrays/sets/dict values; 15% are sets of 4-8 keys whose text order and < order disagree (offset strings/arrays/bytes, "
        "holes, mixed kinds); every case checks all clients of the order: < <= > >= = !=, orderby ., orderby .k, order \\a \\b a<b / a>b, "
        "rank with one and with two ranking attributes, max/min with . and .k, printed order of set members, dict entries and relation rows",
        "10% of the cases are relations (2-3 columns, 2-4 rows) whose PHYSICAL column order is permuted - built by joins of "
        "single-column relations in a permuted order, associated left or right, and by one join of multi-row relations - next to "
        "literal spellings ({|a,b| ...}, sets of tuples) of the same relation and of neighbours (one cell changed), bare and wrapped "
        "alike, and as keys of every client of the order. Rep.relation carries the stored column order; the model's Less/key are "
        "independent of it (theorems), Go's row walks are not - their agreement is what the run checks (no join in the model)",
        "10% of the cases are MULTI-VALUED dictionaries (only `with` / `|` build them): the same dictionary inserted in two or three "
        "different orders by `with` and by `|`, neighbours with one value replaced, single-valued dictionaries in between; bare, "
        "wrapped alike, and as keys of every client of the order"],
    level_text="Proof: 42 Lean theorems about the transliteration of all 15 Less methods (as repaired), Kind(), compareOps, OrderBy, "
               "OrderedValues, Rank, max/min: an order embedding less a b <-> key a < key b into a proved linear order gives "
               "irreflexivity, transitivity, trichotomy (exactly one of a<b, a=b, b<a), <= > >= as derived relations, "
               "representation independence, uniqueness of the sorted arrangement, orderby sorted/unique/enumeration-independent, "
               "rank = number of strictly smaller keys, max/min extremal - for every representation, no well-formedness hypothesis; "
               "witnesses that the unrepaired rules violated trichotomy or panicked. `=` is canonical-form equality; it is proved "
               "sound for the meaning (a = b implies den a = den b, so incomparable values mean the same). For canonical "
               "representations (Canonical r = C02's canonical-form invariant wf on the translated representation up r, "
               "Arrai/C06/Unique.lean: den_up, key_complete via C02's wf_unique) the converse holds too: equal_iff_den (a = b "
               "iff den a = den b) and trichotomy_den (exactly one of a < b, den a = den b, b < a); "
               "trichotomy_den_needs_canonical shows the hypothesis cannot be dropped. "
               "The model is tied to /repo by regenerated facts (kind numbers, operator table) and by running both on generated "
               "pairs/triples/pools of values of all kinds on every run.",
    design_ref="DESIGN.md section 6, C06",
    watch=["rel.Number.Less", "rel.GenericTuple.Less", "rel.GenericTuple.Kind", "rel.StringCharTuple.Less", "rel.BytesByteTuple.Less",
           "rel.ArrayItemTuple.Less", "rel.DictEntryTuple.Less", "rel.EmptySet.Less", "rel.TrueSet.Less", "rel.GenericSet.Less",
           "rel.String.Less", "rel.Bytes.Less", "rel.Array.Less", "rel.Dict.Less", "rel.Relation.Less", "rel.UnionSet.Less",
           "rel.UnionSet.orderedSubsets", "rel.NamesSlice.LessNamesSlice", "rel.NamesSlice.EqualNamesSlice", "rel.OrderBy",
           "rel.OrderedValueEnumerator", "rel.ValueLess", "rel.orderer.Less", "rel.Rank", "rel.rankerSlice.Less", "rel.NewMaxExpr",
           "rel.NewMinExpr", "rel.GenericSet.OrderedValues", "rel.UnionSet.OrderedValues", "rel.Relation.OrderedValues",
           "rel.TupleOrderedNames", "rel.NewTuple", "rel.SetBuilder.Add", "rel.SetBuilder.Finish", "rel.asString", "rel.asBytes",
           "rel.asArray", "rel.NewDict", "rel.NewOffsetArray", "rel.newSetFromFrozenSet", "rel.GenericTuple.Negate",
           "rel.GenericSet.Negate", "rel.EmptySet.Negate", "rel.ArrayItemTuple.Negate", "rel.DictEntryTuple.Negate"],
    env={"HARNESS_TIMEOUT_MS": "120000"},
)
