"""C10 configuration."""
PROP = dict(
    quick_n=5000, thorough_n=300000,
    trusted_base=[
        "values of the modelled fragment are canonically represented (the Go dynamic type of a value is a function of its "
        "meaning: kindOfTuple/kindOfSet in Arrai/C10/Model.lean), which is property C02; non-canonical tuples produced by +> are outside",
        "set-level results of with/without/| & &~ ~~/++/>> are modelled on member lists (FinSet); only the dispatch on operand kinds, the "
        "tuple/set constructors and their assertions are transliterated",
        "Less/Equal on data values are total (C06/C07); the comparison operators are modelled with a structural order",
    ],
    assumptions=[
        "part (a) quantifies over first-order expressions of the modelled operators over data values (integers, tuples, sets; no "
        "function values, no fractions, no holes); everything else is covered by fuzzing only",
        "part (c): arbitrary source text, standard-library calls and hangs are VALIDATED BY FUZZING, NOT PROVED: the wbnf parser, the "
        "%%bind hook and the standard library are not modelled",
        "time limit per case 10 s (retried once alone with 40 s before a timeout is reported), 2 GiB soft memory limit, 8 GiB address "
        "space and a 256 MB goroutine stack per child process; nesting depth of generated sources <= 10 except the KF-deep-nesting probes",
        "imports, //os, //net, //log and //deprecated are not exercised (in-memory file systems; the import-cycle hang belongs to C16)",
    ],
    level_text="Proof (part a): Lean theorem no_panic over all first-order expressions of the modelled operator fragment - the "
               "transliterated evaluator (tuple/set constructors with NewTuple's specialisation rules and the relation builder, arithmetic, "
               "comparison and subset operators, set operators, with/without, call, ++, >>, offset, count, <:, dot) never reaches a panic "
               "site unless a node of the expression is applied to operands of one of the decidable shapes of the open findings (pinned NewTuple "
               "assertions, relation-bucket collision), each with a machine-checked witness (run_no_panic also covers the order in which "
               "the compiler folds constants); termination is structural. Facts (part b): the per-function inventory of "
               "panic(...) calls, unchecked type assertions and Must* calls regenerated from source equals the classified expected table. "
               "Part (c) - arbitrary source text, standard-library calls and hangs - is validated by fuzzing only, not proved: operator x "
               "operand-kind programs, safe stdlib calls, grammar-aware mutations and raw bytes, each case in a child process under a time, "
               "memory and stack limit.",
    level_note="Proved (Lean, part a): only the modelled first-order operator fragment over data values - no function values, no "
               "fractions, no holes, canonical representations assumed. Regenerated facts (part b): the panic-site inventory. NOT PROVED, "
               "validated by fuzzing only (part c): arbitrary source text (wbnf parser, %%bind hook, compiler), the standard library, "
               "patterns, function values, and the absence of hangs; each fuzzed case runs in a child process with a 10 s limit (40 s on "
               "the one retry), 2 GiB GOMEMLIMIT, 8 GiB address space and a 256 MB goroutine stack. Open findings are reported as "
               "KNOWN-FINDING lines: KF-pinned-panics, KF-setpattern-panic, KF-function-as-set, KF-relation-bucket, KF-deep-nesting, "
               "KF-grammar-parse. Besides the sampled streams every run "
               "enumerates two grids: every safe stdlib function x parameter position x 44 boundary arguments (x 5 typical fillers), "
               "and every operator x 20 empty/degenerate operands on either side (about 22 000 cases).",
    design_ref="DESIGN.md section 6, C10",
    watch=["rel.NewTuple", "rel.TupleBuilder.Finish", "rel.SetBuilder.Add", "rel.SetBuilder.Finish", "rel.relationBuilder.Add",
           "rel.GenericTuple.getBucket", "rel.newArithExpr", "rel.addValues", "rel.NewWithExpr", "rel.NewWithoutExpr", "rel.Call",
           "rel.SetCall", "rel.newSetBinExpr", "rel.Concatenate", "rel.OffsetExpr.Eval", "rel.Array.With", "rel.Array.withItem",
           "rel.Array.CallAll", "rel.String.CallAll", "rel.Bytes.CallAll", "rel.Dict.CallAll", "rel.GenericSet.CallAll",
           "rel.SeqArrowExpr.Eval", "rel.NewRelationExpr", "rel.DotExpr.Eval", "rel.NewCountExpr",
           "syntax.subset", "syntax.subsetOrEqual", "syntax.subsetOrSuperset", "syntax.subsetSupersetOrEqual",
           "syntax.ParseContext.Parse", "syntax.ParseContext.compileRelation", "syntax.ParseContext.compileBinop",
           "syntax.ParseContext.compilePostfixAndTouch", "syntax.ParseContext.compileExprs", "syntax.stdSeqRepeat", "syntax.bytesJoin",
           "syntax.evalExpr", "syntax.formatValue"],
    env={"HARNESS_TIMEOUT_MS": "10000", "GOMEMLIMIT": "2GiB", "C10_AS_MB": "8192", "C10_MAXSTACK_MB": "256", "C10_PROCS": "16"},
)
