"""C18 configuration."""
import collections


def _extra(env):
    """degeneracy figures for the evidence: how many cases succeed, return functions, read files, and how many
    legitimately hold a dangerous function (handed over by their configuration)"""
    c = collections.Counter()
    for cid, case in env["cases"].items():
        a = env["results"].get(cid, "missing")
        c["mode:" + case["payload"][1]] += 1
        if a.startswith("ok|"):
            c["ok"] += 1
            f = dict(x.split("=", 1) for x in a.split("|")[1:] if "=" in x)
            names = [n for n in f.get("names", "").split(",") if n]
            if names:
                c["ok_returning_natives"] += 1
            if any(n.split("$")[0] in ("file", "get", "post", "exec") for n in names):
                c["ok_holding_dangerous_function_given_by_config"] += 1
            if f.get("reads"):
                c["ok_with_file_reads"] += 1
            if f.get("confined") != "yes":
                c["not_confined"] += 1
        elif a.startswith("fail"):
            c["fail"] += 1
            if a != "fail|reads=":
                c["fail_after_file_reads"] += 1
        else:
            c["other:" + a[:20]] += 1
        src = case["payload"][0]
        for tag, needle in (("uses_eval_value", "eval.value"), ("uses_import", "//{./"), ("uses_macro", "{:(@grammar"),
                            ("nested_eval", "\\\"")):
            if needle in src:
                c[tag] += 1
    return dict(coverage=dict(c18_case_mix=dict(c)))


PROP = dict(
    quick_n=2000, thorough_n=60000,
    trusted_base=[
        "the model's values abstract everything that is not a function, a tuple, a string constant or a source string to `data`; "
        "library natives other than //eval.value, the internal eval function and //os.file are opaque steps that exercise their "
        "capability tag and return data (validated only for the natives the generated programs call)",
        "capability tags of the library table (Expected.safeGo/unsafeOnly) are hand-assigned; the regenerated site table ties "
        "exec.Command/http/ReadFile/Getenv/Walk call sites to the members carrying those tags",
        "the harness walks closure environments through reflect/unsafe reads of the unexported fields rel.Closure.scope and "
        "rel.ExprClosure.scope; values held inside Go closures of partially applied natives are invisible to it",
    ],
    assumptions=[
        "sources are drawn from the modelled fragment: lambda core, tuples, //name, import syntax (local files), macros whose "
        "transform mentions its parameter, enclosing let names and `.`, //eval.value, //eval.eval, //eval.evaluator, dynamic "
        "variables @{x}; a named parse-time binding is evaluated by Go in the scope of the lookup and by the model in the "
        "parse-time scope of the binding (ExprClosure semantics, exact for `.`): generated names (let v<depth>, transform "
        "parameter a<depth>) exclude the two cases where these differ; arrays, sets, operators, "
        "patterns are not generated; about 7% of the drawn programs are re-drawn because the model does not determine their "
        "outcome (calling a string, a library function on arguments it may reject)",
        "configurations are tuples of members of the full library and small closures; errors and panics are both observed as `fail` "
        "(//eval.value panics on a failing source; C10 covers panics)",
        "network and command functions are obtained but never called (programs whose model run would call them are re-drawn); "
        "files are read only from an in-memory file system",
    ],
    level_text="Proof: Lean theorems about a capability-tagged evaluator transliterating EvalWithScope, contextualEval, evalExpr, "
               "PackageExpr.Eval (with its fall-back to the full library), ImportExpr.Eval, the import branch of compilePackage, "
               "parse-time macro expansion with the parser's bind hook (the parse-time scope threaded through compilation: a macro's "
               "transform may use names bound by enclosing lets and `.`), dynamic variables and the dynamic-scope barrier of "
               "withSandbox: for every source (all nesting depths of quotation), configuration, fuel and calling context, the result "
               "of sandboxed evaluation reaches, and its evaluation exercises, only capabilities the configuration handed over "
               "(invariant preserved by every rule), and never opens a file through import syntax; `//x` outside the given library "
               "fails; for the direct entry EvalWithScope(src, SafeStdScope()) - where import syntax is allowed - the result reaches "
               "only the safe library whatever the imported files contain, calls exercise only its capabilities, and the importer "
               "opens only files named by import syntax in the source or transitively in imported files; the safe library table "
               "reaches no file-reading, network or command capability (decide over the table); each repair (six, including the "
               "parse-time scope seeded from the library in effect and the dynamic-variable barrier) is shown necessary by a concrete "
               "escaping program in the model with that repair switched off. Tables are tied to /repo by facts regenerated on every "
               "run (library paths, wrapper scripts, every evaluation/scope-reset/effect call site) and the model to the code by "
               "running generated escape attempts through both entry points.",
    design_ref="DESIGN.md section 6, C18",
    watch=["syntax.EvalWithScope", "syntax.EvaluateExpr", "syntax.evalExpr", "syntax.contextualEval", "syntax.parseEvalConfig",
           "syntax.PackageExpr.Eval", "syntax.ImportExpr.Eval", "syntax.ParseContext.compilePackage", "syntax.ParseContext.unpackMacro",
           "syntax.ParseContext.Parse", "syntax.baseScope", "syntax.withSandbox", "syntax.isSandboxed", "syntax.withStdlibInEffect",
           "syntax.createFunc2", "syntax.SafeStdScopeTuple", "syntax.StdScope", "syntax.SafeStdScope", "syntax.stdEval",
           "syntax.stdOsSafeAttrs", "syntax.stdOsUnsafeAttrs", "syntax.stdNet", "syntax.stdDeprecated", "syntax.toDecoderTuple",
           "syntax.stdOsFile", "rel.Closure.CallAll", "rel.Function.Eval", "rel.Call", "rel.DynIdentExpr.Eval",
           "rel.DynIdentPattern.Bind", "rel.IdentExpr.Eval"],
    env={"HARNESS_TIMEOUT_MS": "20000", "GOGC": "400"},
    extra=_extra,
)
