"""C02 configuration."""
PROP = dict(
    quick_n=3000, thorough_n=100000,
    trusted_base=[
        "frozen.Set/Map are modelled as lists in enumeration order whose membership test is 'same hashKey and Equal'; "
        "hashKey is the structural part fed to each Hash method (validated by the correspondence run only)",
        "Dict.Equal(non-Dict set) compares the stored value with the other set's value in flipped argument order "
        "(keeps the model structurally recursive; unobservable on canonical forms by equal_symm)",
        "Relation.EqualRelation is modelled row-by-row with columns matched by name instead of Go's projection of both "
        "bodies to sorted-name order",
        "the construction paths of the generator (where/=>/with/without/++/offset/+>/|/&/&~/<&>/projection) reach the "
        "stated denotation: each pair case also compares the enumerator-level canon of both results with it",
    ],
    assumptions=[
        "numbers are integers of small magnitude (float equality, NaN, -0 are out of scope; 0/0 = 0/0 is false by IEEE)",
        "closures/native functions are not data values",
        "targets: Lit.genLit depth <= 3 over a 3-letter alphabet, integers -2..3, attribute names a,b,c,x; "
        "superimposed sequences (KF-superimposed) are not constructed",
        "`<`/repr observables involving two byte arrays are classed KF-bytes-less until C06's Less repair is merged; "
        "string `|`/`with` at a non-adjacent index is C01's finding (KF-string-with-fallback); a string built from a set "
        "literal naming one member twice is c05's repair (KF-string-dup-member)",
    ],
    level_text="Proof: Lean theorems about the representation model (one constructor per Go value type): Equal (every Equal method "
               "transliterated, incl. the asymmetric GenericTuple/Dict ones) coincides with equality of denotations on "
               "canonical forms, is symmetric there, respects hashKey, canonical forms are unique, the modelled constructors "
               "(NewTuple, NewOffsetString/Array, String/Array.Without, +>, set builder) return canonical forms of the intended "
               "denotation, and equal values collapse in a built set / select the same dict entry; witness theorems for the "
               "behaviour before each repair. Tied to /repo by evaluating pairs of different construction paths for one "
               "denotation and comparing =, {a,b} count, dict lookup, repr, <, an operator context and the enumerator-level "
               "denotation. Partial where stated (see *_partial / *_full in Arrai/Proofs/C02.lean).",
    design_ref="DESIGN.md section 6, C02",
    env={"HARNESS_TIMEOUT_MS": "60000"},
    watch=["rel.GenericTuple.Equal", "rel.GenericTuple.Hash", "rel.GenericTuple.Canonical", "rel.GenericTuple.With",
           "rel.GenericTuple.Map", "rel.TupleBuilder.Finish",
           "rel.NewTuple", "rel.specialTuple", "rel.maybeSpecialTuple", "rel.StringCharTuple.Equal", "rel.StringCharTuple.Hash",
           "rel.StringCharTuple.With", "rel.newCharTupleFromTuple",
           "rel.BytesByteTuple.Equal", "rel.BytesByteTuple.Hash", "rel.ArrayItemTuple.Equal", "rel.ArrayItemTuple.Hash",
           "rel.DictEntryTuple.Equal", "rel.DictEntryTuple.Hash", "rel.EmptySet.Equal", "rel.TrueSet.Equal",
           "rel.GenericSet.Equal", "rel.GenericSet.Hash", "rel.newSetFromFrozenSet", "rel.CanonicalSet",
           "rel.String.Equal", "rel.String.EqualString", "rel.String.Hash", "rel.String.Without", "rel.String.trimHoles",
           "rel.NewOffsetString", "rel.asString",
           "rel.Bytes.Equal", "rel.Bytes.EqualBytes", "rel.Bytes.Hash", "rel.asBytes",
           "rel.Array.Equal", "rel.Array.Hash", "rel.Array.Without", "rel.NewOffsetArray", "rel.asArray",
           "rel.Dict.Equal", "rel.Dict.equalDict", "rel.equalDictValue", "rel.Dict.Hash", "rel.NewDict",
           "rel.Relation.Equal", "rel.Relation.EqualRelation", "rel.Relation.canonicalRelation", "rel.Relation.Hash",
           "rel.relationBuilder.Add", "rel.relationBuilder.Finish",
           "rel.UnionSet.Equal", "rel.UnionSet.Hash", "rel.SetBuilder.Add", "rel.SetBuilder.Finish",
           "rel.MergeLeftToRight", "rel.TupleExpr.Eval", "rel.Values.equalValues", "rel.Values.Hash"],
)
