"""C02 configuration."""
PROP = dict(
    quick_n=2700, thorough_n=100000,
    trusted_base=[
        "frozen.Set/Map are modelled as lists in enumeration order; frozen's Set.Equal is 'same count and same XOR of "
        "the element hashes, structural comparison only when that XOR is zero' (tree.Equal, FullHash), membership/insert "
        "is 'same hash and Equal'",
        "hash values are symbolic: one atom per application of a mixing function of github.com/arr-ai/hash, idealised as "
        "injective in (function, payload, seed) - no accidental 64-bit collisions; Go's ^ is symmetric difference of atom "
        "sets; frozen hashes under seeds 0 and 1, the model follows seed 0 only",
        "Dict.Equal(non-Dict set) compares the stored value with the other set's value in flipped argument order "
        "(keeps the model structurally recursive; unobservable on canonical forms by equal_symm)",
        "Relation.EqualRelation: both bodies projected to sorted-name order and compared as frozen sets of Values "
        "(Values.Hash = the cells' hashes chained through the seed); the structural fallback of frozen's comparison "
        "(consulted only when the XOR of the row hashes is zero) matches columns by name",
        "UnionSet.Hash XORs the members' Hash(0) of all buckets; a bucket key of a relation subset is the joined sorted "
        "heading (two headings with the same join cannot both be buckets of a canonical union set)",
        "Rep identifies a one-element multipleValues of a Dict with the plain value (a key holds a list of values): that "
        "Dict.Without/With/Where/Map re-normalise a key going from several values to one is checked by the correspondence "
        "run only (stratum trans/dict)",
        "the construction paths of the generator (where/=>/with/without/++/offset/+>/|/&/&~/<&>/projection) reach the "
        "stated denotation: each pair case also compares the enumerator-level canon of both results with it",
    ],
    assumptions=[
        "numbers are integers of small magnitude (float equality, NaN, -0 are out of scope; 0/0 = 0/0 is false by IEEE)",
        "closures/native functions are not data values",
        "targets: Lit.genLit depth <= 3 over a 3-letter alphabet, integers -2..3, attribute names a,b,c,x; negative pairs "
        "are mutants of the target (leaf change, wrap/unwrap, regrouping of nested sets, offset shift, string<->bytes); "
        "superimposed sequences (KF-superimposed) are not constructed",
        "transition stratum (240 cases per quick run, every family, operator and count transition on every run): joins and "
        "compositions (<-> <&> -&> <&- --> <--, both operand orders, the value column from the left and from the right "
        "operand) ending in a heading {@, @char|@item|@value|@byte}, compared with the string/array/dict/bytes literal; "
        "shrinking a larger generic or union set to true, false/{} (each by &~ & ~~ where without =>, extras from the same "
        "and from another bucket) and to a one-member string, array, byte array, dict, relation, generic set; "
        "a dict key going from 3->2, 2->1, 1->0 "
        "values (and 3->1, 2->0; last key -> {}) via without / &~ / where / (| then &~) / => remapping, from relation-literal, "
        "set-of-tuples, with- and (d1 | d2 | d3) spellings; relations losing rows (3->2->1->0) or columns (-> 1); union sets "
        "losing one of two buckets (the rest must be the plain string/array/bytes/dict/relation/generic set) - each compared "
        "with the literal spelling of the result under all pair observables",
        "byte-array-shaped sets with gaps are classed KF-bytes-holes (asBytes fills a gap with 0); every other case is "
        "classed good with all observables (=, {a}={b}, count, dict lookup, repr, <, >, operator context, enumerator "
        "denotation) - the classes KF-bytes-less, KF-less-inconsistent, KF-union-less-panic, KF-string-with-fallback and "
        "KF-string-dup-member and KF-seed-threaded-hash were dropped after the corresponding repairs were merged",
    ],
    level_text="Proof: Lean theorems about the representation model (one constructor per Go value type), all for ALL canonical "
               "representations (numbers, generic/char/byte/item/entry tuples, strings, byte arrays, arrays, dictionaries, "
               "relations, union sets, booleans, generic sets, nested arbitrarily): Equal - every Equal method "
               "transliterated, incl. the asymmetric GenericTuple/Dict ones, Dict.Equal against any set and frozen's "
               "hash-trusting set comparison - coincides with equality of denotations (equal_iff_den), is symmetric, the "
               "repaired Hash is injective up to denotation under every seed (hash_injective, hash_seeded: what frozen "
               "needs) and respects Equal (hash_contract), canonical forms are unique (wf_unique), equal values collapse in a "
               "built set / select the same dict entry (collapse, no_collapse). The modelled constructors "
               "NewOffsetString/Array, String/Array.Without, NewTuple and +> return canonical forms of the intended "
               "denotation: general theorems by induction (unbounded); the set builder bounded-exhaustive "
               "(kernel-evaluated). Witness theorems for the behaviour before each of the seven repairs. Tied to /repo by "
               "evaluating pairs of different construction paths for one denotation (and mutants with a different one) and "
               "comparing =, {a}={b}, {a,b} count, dict lookup, repr, <, an operator context and the enumerator-level "
               "denotation.",
    design_ref="DESIGN.md section 6, C02",
    env={"HARNESS_TIMEOUT_MS": "20000"},
    watch=["rel.GenericTuple.Equal", "rel.GenericTuple.Hash", "rel.GenericTuple.Canonical", "rel.GenericTuple.With",
           "rel.GenericTuple.Map", "rel.TupleBuilder.Finish",
           "rel.NewTuple", "rel.specialTuple", "rel.maybeSpecialTuple", "rel.StringCharTuple.Equal", "rel.StringCharTuple.Hash",
           "rel.StringCharTuple.With", "rel.newCharTupleFromTuple",
           "rel.BytesByteTuple.Equal", "rel.BytesByteTuple.Hash", "rel.ArrayItemTuple.Equal", "rel.ArrayItemTuple.Hash", "rel.finishHash",
           "rel.DictEntryTuple.Equal", "rel.DictEntryTuple.Hash", "rel.EmptySet.Equal", "rel.TrueSet.Equal",
           "rel.GenericSet.Equal", "rel.GenericSet.Hash", "rel.newSetFromFrozenSet", "rel.CanonicalSet",
           "rel.String.Equal", "rel.String.EqualString", "rel.String.Hash", "rel.String.Without", "rel.String.trimHoles",
           "rel.NewOffsetString", "rel.asString",
           "rel.Bytes.Equal", "rel.Bytes.EqualBytes", "rel.Bytes.Hash", "rel.asBytes",
           "rel.Array.Equal", "rel.Array.Hash", "rel.Array.Without", "rel.NewOffsetArray", "rel.asArray",
           "rel.Dict.Equal", "rel.Dict.equalDict", "rel.equalDictValue", "rel.Dict.Hash", "rel.NewDict",
           "rel.Relation.Equal", "rel.Relation.EqualRelation", "rel.Relation.canonicalRelation", "rel.Relation.Hash",
           "rel.relationBuilder.Add", "rel.relationBuilder.Finish",
           "rel.UnionSet.Equal", "rel.UnionSet.Hash", "rel.SetBuilder.Add", "rel.SetBuilder.Finish",
           "rel.MergeLeftToRight", "rel.TupleExpr.Eval", "rel.Values.equalValues", "rel.Values.Hash"],
)
