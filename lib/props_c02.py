"""C02 configuration."""
PROP = dict(
    quick_n=3000, thorough_n=100000,
    trusted_base=[
        "frozen.Set/Map are modelled as lists in enumeration order; frozen's Set.Equal is 'same count and same XOR of "
        "the element hashes, structural comparison only when that XOR is zero' (tree.Equal, FullHash), membership/insert "
        "is 'same hash and Equal'",
        "hash values are symbolic: one atom per application of a mixing function of github.com/arr-ai/hash, idealised as "
        "injective in (function, payload, seed) - no accidental 64-bit collisions; Go's ^ is symmetric difference of atom "
        "sets; frozen hashes under seeds 0 and 1, the model follows seed 0 only",
        "Dict.Equal(non-Dict set) compares the stored value with the other set's value in flipped argument order "
        "(keeps the model structurally recursive; unobservable on canonical forms by equal_symm)",
        "Relation.EqualRelation is modelled row-by-row with columns matched by name instead of Go's projection of both "
        "bodies to sorted-name order",
        "the construction paths of the generator (where/=>/with/without/++/offset/+>/|/&/&~/<&>/projection) reach the "
        "stated denotation: each pair case also compares the enumerator-level canon of both results with it",
    ],
    assumptions=[
        "numbers are integers of small magnitude (float equality, NaN, -0 are out of scope; 0/0 = 0/0 is false by IEEE)",
        "closures/native functions are not data values",
        "targets: Lit.genLit depth <= 3 over a 3-letter alphabet, integers -2..3, attribute names a,b,c,x; negative pairs "
        "are mutants of the target (leaf change, wrap/unwrap, regrouping of nested sets, offset shift, string<->bytes); "
        "superimposed sequences (KF-superimposed) are not constructed",
        "observables that run into findings of other properties are split off into cases of their own class: `<`/repr with "
        "byte arrays (KF-bytes-less, C06), repr/`<` where Less is not a strict weak order (KF-less-inconsistent, C06), `<` on "
        "sets with two relation buckets (KF-union-less-panic, C06), string `|`/`with` at a non-adjacent index "
        "(KF-string-with-fallback, C01), a string built from a set literal naming one member twice (KF-string-dup-member, "
        "c05), byte arrays with gaps (KF-bytes-holes)",
    ],
    level_text="Proof: Lean theorems about the representation model (one constructor per Go value type). On canonical forms "
               "of the proved fragment (numbers, generic/char/byte/item/entry tuples, strings, byte arrays, arrays, booleans, "
               "generic sets, nested arbitrarily) Equal - every Equal method transliterated, incl. the asymmetric "
               "GenericTuple/Dict ones and frozen's hash-trusting set comparison - coincides with equality of denotations, "
               "is symmetric, the repaired Hash is injective up to denotation under every seed (what frozen needs) and "
               "respects Equal, canonical forms are unique, equal values collapse in a built set / select the same dict "
               "entry; the modelled constructors (NewTuple, NewOffsetString/Array, String/Array.Without, +>, set builder) "
               "return canonical forms of the intended denotation (bounded-exhaustive, kernel-evaluated); witness theorems for "
               "the behaviour before each of the six repairs. Dictionaries, relations and union sets: *_full statements, "
               "correspondence only. Tied to /repo by evaluating pairs of different construction paths for one denotation "
               "(and mutants with a different one) and comparing =, {a}={b}, {a,b} count, dict lookup, repr, <, an operator "
               "context and the enumerator-level denotation.",
    design_ref="DESIGN.md section 6, C02",
    env={"HARNESS_TIMEOUT_MS": "20000"},
    watch=["rel.GenericTuple.Equal", "rel.GenericTuple.Hash", "rel.GenericTuple.Canonical", "rel.GenericTuple.With",
           "rel.GenericTuple.Map", "rel.TupleBuilder.Finish",
           "rel.NewTuple", "rel.specialTuple", "rel.maybeSpecialTuple", "rel.StringCharTuple.Equal", "rel.StringCharTuple.Hash",
           "rel.StringCharTuple.With", "rel.newCharTupleFromTuple",
           "rel.BytesByteTuple.Equal", "rel.BytesByteTuple.Hash", "rel.ArrayItemTuple.Equal", "rel.ArrayItemTuple.Hash",
           "rel.DictEntryTuple.Equal", "rel.DictEntryTuple.Hash", "rel.EmptySet.Equal", "rel.TrueSet.Equal",
           "rel.GenericSet.Equal", "rel.GenericSet.Hash", "rel.newSetFromFrozenSet", "rel.CanonicalSet",
           "rel.String.Equal", "rel.String.EqualString", "rel.String.Hash", "rel.String.Without", "rel.String.trimHoles",
           "rel.NewOffsetString", "rel.asString",
           "rel.Bytes.Equal", "rel.Bytes.EqualBytes", "rel.Bytes.Hash", "rel.asBytes",
           "rel.Array.Equal", "rel.Array.Hash", "rel.Array.Without", "rel.NewOffsetArray", "rel.asArray",
           "rel.Dict.Equal", "rel.Dict.equalDict", "rel.equalDictValue", "rel.Dict.Hash", "rel.NewDict",
           "rel.Relation.Equal", "rel.Relation.EqualRelation", "rel.Relation.canonicalRelation", "rel.Relation.Hash",
           "rel.relationBuilder.Add", "rel.relationBuilder.Finish",
           "rel.UnionSet.Equal", "rel.UnionSet.Hash", "rel.SetBuilder.Add", "rel.SetBuilder.Finish",
           "rel.MergeLeftToRight", "rel.TupleExpr.Eval", "rel.Values.equalValues", "rel.Values.Hash"],
)
