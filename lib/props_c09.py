"""C09 configuration."""
PROP = dict(
    quick_n=4000, thorough_n=100000,
    trusted_base=[],
    assumptions=[],
    level_text="(in progress)",
    design_ref="DESIGN.md section 6, C09",
    watch=["rel.ArrayPattern.Bind", "rel.TuplePattern.Bind", "rel.validTuplePattern", "rel.DictPattern.Bind", "rel.SetPattern.Bind",
           "rel.ExprPattern.Bind", "rel.ExprsPattern.Bind", "rel.IdentPattern.Bind", "rel.FallbackPattern.Bind",
           "rel.ExtraElementPattern.Bind", "rel.Scope.MatchedUpdate", "rel.Scope.MatchedWith", "rel.Scope.With",
           "rel.CondPatternControlVarExpr.Eval", "rel.ArrowExpr.Eval", "rel.Closure.CallAll", "rel.PatternExprPair.Bind",
           "rel.NewExprPattern", "rel.NewSetPattern", "rel.NewTuplePattern",
           "syntax.ParseContext.compilePattern", "syntax.ParseContext.compileSparsePatterns", "syntax.ParseContext.compileTuplePattern",
           "syntax.ParseContext.compileDictPattern", "syntax.ParseContext.compileSetPattern", "syntax.ParseContext.compileLet"],
)
