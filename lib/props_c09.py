"""C09 configuration."""
PROP = dict(
    quick_n=4000, thorough_n=100000,
    trusted_base=[
        "values are modelled by their denotation (Arrai.V); the Go type switches of the Bind methods (value.(Array) with offset 0 and "
        "no holes | EmptySet, value.(Dict) | EmptySet, value.(Tuple), value.(Set)) are modelled by the views asArr/asDict/.tup/asSet of "
        "the denotation, i.e. the dynamic Go type of a value is assumed to be a function of what it denotes (the subject of C02); "
        "validated on every generated case, including values written as plain set literals",
        "Value.Equal, Set.Has/Without, Tuple.Get/Project/Names and frozen.Map.Get/Without are modelled by structural equality, "
        "membership and filtering on canonical V (the subject of C01/C02)",
        "Scope is a frozen map; it is modelled as an association list whose visible binding is the first one (lookup semantics)",
        "compilePattern & co. are modelled by the shape of `Pat` (which rel.Pattern each syntactic form becomes); the parser itself is "
        "exercised only by the correspondence run",
    ],
    assumptions=[
        "patterns: NUM/true/false literals, names, `_`, (expr) with closed literal expressions or names of the enclosing scope, array / "
        "tuple / dict / set patterns, ...rest, ?: fallbacks (closed literals, names of the enclosing let / function-parameter scope, name + k; also "
        "inside a component that is itself supplied by a fallback), nested to any depth; no dynamic @{x} names, "
        "no sparse `[a, , c]` array patterns (they panic in FallbackPattern.String - a C10 matter), dict-pattern keys are non-negative "
        "numbers or strings (a parenthesised key panics in DictPattern.Bind - C10)",
        "values: everything Lit generates (numbers, strings, bytes, arrays with offsets and holes, dicts with single-valued keys, sets, "
        "tuples, relations), depth <= 3",
        "genuinely non-deterministic patterns (two `...`, a name and `...` in a set pattern, ...) have no specified result; the code "
        "rejects them and the check only demands an error there",
    ],
    level_text="Proof: 26 Lean theorems. Spec.bind is a sound and complete decision procedure for `Matches` (the pattern read as an expression "
               "with the bound names substituted rebuilds the value; exactly the pattern's names are bound; ...rest is the unmatched remainder; "
               "fallbacks only for absent components) and matches of deterministic patterns are unique. The transliteration of "
               "Array/Tuple/Dict/Set/Expr/Exprs/Ident/ExtraElement-Pattern.Bind with the repaired Scope.MatchedUpdate equals Spec.bind for every "
               "supported pattern and every value, hence it is sound, complete and panic-free there; a non-matching let/call is an error and "
               "cond takes the first matching arm. Partial outside `supported`: four narrow known-finding classes, each with a refutation "
               "of the unrestricted statement. The model is tied to /repo by ~4k (quick) / ~134k (thorough, incl. an exhaustive family) "
               "generated let / call / cond programs per run.",
    design_ref="DESIGN.md section 6, C09",
    # the first cases of a run pay for the one-time construction of the arr.ai grammar; on a loaded machine that
    # alone can exceed the harness's default 10 s per-case limit
    env={"HARNESS_TIMEOUT_MS": "120000"},
    watch=["rel.ArrayPattern.Bind", "rel.TuplePattern.Bind", "rel.validTuplePattern", "rel.DictPattern.Bind", "rel.SetPattern.Bind",
           "rel.ExprPattern.Bind", "rel.ExprsPattern.Bind", "rel.IdentPattern.Bind", "rel.FallbackPattern.Bind",
           "rel.ExtraElementPattern.Bind", "rel.Scope.MatchedUpdate", "rel.Scope.MatchedWith", "rel.Scope.With",
           "rel.CondPatternControlVarExpr.Eval", "rel.ArrowExpr.Eval", "rel.Closure.CallAll", "rel.PatternExprPair.Bind",
           "rel.NewExprPattern", "rel.NewSetPattern", "rel.NewTuplePattern",
           "syntax.ParseContext.compilePattern", "syntax.ParseContext.compileSparsePatterns", "syntax.ParseContext.compileTuplePattern",
           "syntax.ParseContext.compileDictPattern", "syntax.ParseContext.compileSetPattern", "syntax.ParseContext.compileLet"],
)
