#!/usr/bin/env python3
"""Run /repo's test suite (guard off) and compare with the pinned baseline's stable_pass list.
usage: lib/suite.py [repo] [-tags verif]"""
import json, subprocess, sys, os
repo = sys.argv[1] if len(sys.argv) > 1 and not sys.argv[1].startswith("-") else "/repo"
extra = [a for a in sys.argv[1:] if a.startswith("-")] 
base = json.load(open("/root/.vp/BASELINE.json"))
want = set(base["stable_pass"])
env = dict(os.environ, GOFLAGS="-mod=mod", GOPROXY="off")
p = subprocess.run(["go", "test"] + extra + ["-json", "-vet=off", "-count=1", "-timeout", "25m", "./..."], cwd=repo, env=env,
                   stdout=subprocess.PIPE, stderr=subprocess.DEVNULL, text=True)
status = {}
for line in p.stdout.split("\n"):
    try:
        e = json.loads(line)
    except Exception:
        continue
    if e.get("Test") and e.get("Action") in ("pass", "fail", "skip"):
        status[e["Package"] + "::" + e["Test"]] = e["Action"]
bad = sorted(t for t in want if status.get(t) != "pass")
print(f"stable_pass: {len(want)}  passing now: {len(want) - len(bad)}")
for t in bad[:40]:
    print("  NOT PASSING:", t, status.get(t))
sys.exit(1 if bad else 0)
