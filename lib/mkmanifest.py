#!/usr/bin/env python3
"""Regenerate MANIFEST.json from lib/props.py (claimed checks) — run after editing props.py."""
import json, os, sys
ROOT = os.path.dirname(os.path.dirname(os.path.abspath(__file__)))
sys.path.insert(0, os.path.join(ROOT, "lib"))
import props
ids = [json.loads(l)["id"] for l in open(os.path.join(ROOT, "properties.jsonl"))]
checks, na = [], []
for pid in ids:
    c = props.PROPS.get(pid)
    if not c or not c.get("claimed", True):
        na.append(dict(property_id=pid, reason=(c or {}).get("na_reason", "no check built yet in this round; planned in DESIGN.md section 6")))
        continue
    checks.append(dict(
        property_id=pid,
        quick_cmd=f"./check {pid} --tier quick",
        thorough_cmd=f"./check {pid} --tier thorough",
        evidence_file=f"evidence/{pid}.json",
        replay_cmd_template=f"./check {pid} --replay {{path}}",
        engine="lean-proofs+correspondence",
        level_claimed=dict(category="proof", text=c.get("level_text", ""), design_ref=c.get("design_ref", "DESIGN.md §6 " + pid)),
        level_note=c.get("level_note", "; ".join(c.get("trusted_base", []) + c.get("assumptions", []))),
        technique=c.get("technique", "Lean 4 theorems about an executable model + differential correspondence check of the model against /repo"),
    ))
m = dict(
    version=1,
    setup_cmd="./setup.sh",
    hooks=dict(guard="verif", enable="go build -tags verif (the harness is always built with the tag)",
               baseline_off_cmd="cd /repo && GOFLAGS=-mod=mod GOPROXY=off go test -vet=off -count=1 ./...",
               source_commits=props.HOOK_COMMITS, add_only=True),
    engines=[
        dict(name="lean-proofs", path="lean/", serves_properties=[c["property_id"] for c in checks],
             kind_free_text="Lean 4 lake project: executable models (Impl), specifications (Spec), property theorems (Arrai/Proofs), case generators, driver executable"),
        dict(name="extractor", path="extract/", serves_properties=[c["property_id"] for c in checks],
             kind_free_text="Go program (go/ast): regenerates lean/Arrai/Facts/Generated.lean and function-body hashes from /repo on every run"),
        dict(name="harness", path="harness/", serves_properties=[c["property_id"] for c in checks],
             kind_free_text="Go module linked against /repo (replace directive, -tags verif): executes generated cases in-process and prints canonical observables"),
    ],
    checks=checks,
    not_applicable=na,
    notes="Entry point ./check Cxx [--tier quick|thorough] [--replay file]; VERIF_SEED seeds the Lean PRNG; known_findings.json lists recorded defects (open) and repaired ones (fixed).",
)
json.dump(m, open(os.path.join(ROOT, "MANIFEST.json"), "w"), indent=1)
# merge known findings
import glob
opened, fixed = [], []
for f in sorted(glob.glob(os.path.join(ROOT, "known_findings.d", "*.json"))):
    d = json.load(open(f))
    if os.path.basename(f) == "fixed.json":
        fixed = d
    else:
        opened += d
ids = {}
for e in opened:
    if e["id"] in ids:
        ids[e["id"]]["properties"] = sorted(set(ids[e["id"]]["properties"]) | set(e["properties"]))
    else:
        ids[e["id"]] = e
json.dump(dict(open=list(ids.values()), fixed=fixed), open(os.path.join(ROOT, "known_findings.json"), "w"), indent=1)
print("claimed:", [c["property_id"] for c in checks], "not_applicable:", len(na))
