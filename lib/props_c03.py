"""C03 configuration."""
import collections


def _extra(ctx):
    """coverage details: how many histories, steps, tainted values, sharing observations, exhaustive part"""
    cases, results = ctx["cases"], ctx["results"]
    hist = [c for c in cases.values() if c["kind"] == "hist"]
    share = collections.Counter(results.get(c["id"], "missing").split(":")[0] for c in cases.values() if c["kind"] == "histshare")
    steps = sum(len(c["payload"]) - 1 for c in hist)
    ops = collections.Counter()
    for c in hist:
        for st in c["payload"][1:]:
            src = st.split(" ## ", 1)[-1]
            for key in (" with ", " without ", " where ", " >> ", " ++ ", " | ", " <&> ", "let [", "//seq.trim_prefix", "//seq.trim_suffix",
                        "//seq.sub", "//seq.split", "//seq.join", "//seq.repeat", "//seq.concat", ")\\v"):
                if key in src:
                    ops[key.strip()] += 1
    exh = sum(1 for c in hist if c["stratum"].startswith("exhaustive"))
    cov = dict(histories=len(hist), relational_histories=sum(1 for c in hist if c["stratum"] in ("rel", "corpus-rel")), steps=steps, api_steps=sum(1 for c in hist for st in c["payload"][1:] if not st.startswith("- ## ")),
               histories_with_tainted_values=sum(1 for c in hist if c["payload"][0] != "strict"),
               operator_histogram=dict(ops.most_common()),
               live_values_sharing_a_backing_array_with_spare_capacity=dict(share),
               exhaustive_histories=exh)
    if exh:
        cov["exhaustive_part"] = ("all %d histories of length 1..4 over {with at end, without at end, with at front} x {string, bytes, array}, "
                             "every choice of operand among the values so far" % exh)
    return dict(coverage=cov)


PROP = dict(
    quick_n=1200, thorough_n=40000,
    trusted_base=["heap model of Go slices (Arrai/C03/Heap.lean): `append` writes in place iff len+n <= cap, otherwise moves to a fresh "
                  "array whose capacity an oracle chooses; re-slicing, copy, make, indexed store as in the Go specification",
                  "frozen's persistent sets/maps and everything that is not a []rune/[]byte/[]Value payload are modelled as immutable "
                  "denotations (HVal.other); array ITEMS are held as denotations too (a slice-backed item inside an array is not "
                  "followed through the heap - justified by the theorem itself, checked by the correspondence run)",
                  "the results computed through the set builder (Concatenate, Where/Map on strings and bytes, joins, Difference) are "
                  "modelled as `asString/asBytes/asArray` of the specified members into a fresh array",
                  "relations (Arrai/C03/Rel.lean): heading (NamesSlice) and rows (Values) are slices in the same heap; the valueProjector `p`, "
                  "frozen's row set, the groupBy index cache and attrMap are immutable denotations; nest/unnest/rank/=> are modelled as "
                  "relationBuilder over the specified tuples (fresh heading, one fresh row per tuple); JoinCommonOnly's rows as fresh copies of the keys",
                  "refinement theorems assume, where stated, that the cached count/holes field agrees with the cells (AuxOK) and that cells are admissible "
                  "elements of their kind (validElem); neither is proved as a history invariant. Not proved (tied by the run only, M!=S = 0): refinement of "
                  "where on arrays, >>, |, <&> on sequences, array patterns, //seq.split(..)(k), //seq.join, //seq.sub/trim_* on arrays, and of all relational "
                  "operations (joins, nest, unnest, rank, =>)",
                  "facts: a callee is `fresh` when every return statement returns make/composite literal/append(make..)/a local defined only so "
                  "(syntactic, go/ast; the fields inside a returned composite literal are not followed)"],
    assumptions=["histories of 3-15 steps over 1-3 roots; sequences of length <= 8; array items are numbers (plus the sequences //seq.split makes)",
                 "`loose` histories (a step whose RESULT is wrong for reasons of C01/C02: Bytes.Without not at the end, bytes with holes, "
                 "String/Bytes.with away from the ends) are checked for stability and program/step agreement only, not for their values",
                 "value-position-sensitive operations (//seq.*, array patterns, >> on strings) are applied only to operands whose Go "
                 "representation has no leading/trailing/inner hole cells (the model mirrors the representation)",
                 "histshare cases are informational: two live values sharing a backing array with spare capacity is the PRECONDITION of the "
                 "repaired defect, still present (harmlessly) after the repair; they are counted as drift, never as violations"],
    level_text="Proof (38 theorems): Lean theorems over an explicit heap of Go backing arrays (payloads of strings/bytes/arrays AND headings/rows of relations). "
               "In-bounds well-formedness of every slice is an invariant of every history (C03_wf_history, C03_rel_wf_history): no re-slice of the model leaves its array. "
               "Array items held as denotations are justified by a reduction theorem over the reference-following view of nested values (C03_nested_history). "
               "Refinement to the V-level specification is proved for with (all cases, all kinds), without (strings incl. trimHoles, bytes, arrays), n\\x, "
               "builder-made results (conditional on the builder's representability), and //seq trim_prefix/trim_suffix/sub/split/repeat/concat on strings and bytes. "
               "for relations: the eight join operators (Joiner, Relation.Join, positionalRelation.Join with JoinKeepEverything/joinOneSide/JoinCommonOnly/"
               "JoinIfCommonExist, projectedValues.values), With/Without/Where/Union and builder-made results store only into arrays they allocated "
               "(rel_step_writes_only_fresh, rel_step_frame), so for ALL histories of such operations - joins on results of earlier joins, the same parent "
               "joined repeatedly - every relation denotes after any continuation what it denoted when made (C03_rel_history); the heading append as found "
               "and a values() that returns the row itself are shown to break this by concrete histories (rel_alias_heading_before_repair, "
               "rel_alias_rows_if_values_returns_row). For sequences: every transliterated operation (String/Bytes.with as repaired, "
               "Without, Where, Array.withItem/Without/Where/clone, NewOffset*, >>, n\\, |, ++, joins, //seq helpers, array patterns) stores only "
               "into arrays it allocated itself (step_writes_only_fresh), hence keeps the snapshot of every live value (step_frame); for ALL branching "
               "histories and ALL capacity oracles every value reads the same after any continuation as when it was created (C03_history, C03_let, "
               "C03_heap_prefix). The code as found (`append(s.s, c)`) is shown to violate this by three concrete histories "
               "(alias_before_repair_*; C03_history_unrepaired_false). Write-site inventory of rel/ and syntax/std_seq*.go regenerated and compared "
               "by decide. Model tied to the Go code by differential histories (step-wise through the rel API/scoped evaluation and as one "
               "nested-let program) on every run; thorough adds all histories of length <= 4 over {with at end, without at end, with at front}.",
    env={"HARNESS_TIMEOUT_MS": "120000"},
    extra=_extra,
    design_ref="DESIGN.md section 6, C03",
    watch=["rel.String.with", "rel.String.With", "rel.String.Without", "rel.String.Where", "rel.String.Map",
           "rel.Bytes.with", "rel.Bytes.With", "rel.Bytes.Without", "rel.Bytes.Where", "rel.Bytes.Map",
           "rel.Array.withItem", "rel.Array.With", "rel.Array.Without", "rel.Array.Where", "rel.Array.clone",
           "rel.NewOffsetArray", "rel.NewOffsetString", "rel.NewOffsetBytes", "rel.asString", "rel.asBytes", "rel.asArray",
           "rel.OffsetExpr.Eval", "rel.SeqArrowExpr.Eval", "rel.Concatenate", "rel.Union", "rel.ArrayPattern.Bind",
           "rel.projectedValues.values", "rel.positionalRelation.JoinKeepEverything", "rel.positionalRelation.Join",
           "rel.positionalRelation.JoinCommonOnly", "rel.positionalRelation.JoinIfCommonExist", "rel.joinOneSide", "rel.createMode",
           "rel.Relation.Join", "rel.Relation.With", "rel.Relation.Without", "rel.Relation.Where", "rel.Relation.tupleToValues",
           "rel.Relation.getIndices", "rel.Joiner", "rel.NamesSlice.minus", "rel.NamesSlice.intersect", "rel.valueProjector.compose",
           "rel.valueProjector.mapper", "rel.relationBuilder.Add", "rel.relationBuilder.Finish", "rel.TupleOrderedNames",
           "syntax.arraySub", "syntax.arraySplit", "syntax.arrayJoin", "syntax.stdSeqRepeat", "syntax.stdSeqTrimPrefix",
           "syntax.stdSeqTrimSuffix", "syntax.stdSeqConcat", "syntax.stdSeqSub", "syntax.stdSeqSplit"],
)
