"""C13 configuration: data codecs round-trip (JSON, YAML, CSV, //bits, server wire format)."""
PROP = dict(
    quick_n=4000, thorough_n=120000,
    trusted_base=[
        "text layers are NOT modelled: encoding/json and gopkg.in/yaml.v3 (text <-> tree, including their own "
        "round trip Unmarshal(Marshal(t)) = t, duplicate-key handling, number formatting) and UTF-8; a document is its "
        "tree J in the Lean model; these layers are validated only by the correspondence run (documents are rendered "
        "to text by the Lean driver, every encoded document is observed by decoding it again with the strict decoder)",
        "YAML has no Lean model of its own: it shares ToArrai/FromArrai with JSON; the YAML check is the tree-level "
        "theorems plus correspondence on generated documents (flow style, double-quoted strings)",
        "encoding/csv is modelled at character level, parametric in the separator, other options default (crlf, comment, lazyQuotes, trimLeadingSpace, fieldsPerRecord are exercised as implementation-side round-trip laws only) (Csv.writeAll = Writer.Write/"
        "fieldNeedsQuotes, Csv.parse = Reader.readRecord/readLine as a state machine); the model is validated by the "
        "correspondence run on encoded matrices and on random raw CSV text; UTF-8 is assumed transparent to its rules",
        "values are modelled by Go representation type (Arrai.C13.R, one constructor per type the Go type switches "
        "distinguish); that rel's constructors give a value the representation R.den assumes is C02's subject",
        "rel.NewString/NewArray/NewBool/SetBuilder.Finish/AsArray/AsString/TupleBuilder.Finish are modelled by their "
        "effect on R (empty string/array/dict = empty set)",
        "float64 arithmetic of //bits.mask (math.Pow, +) is exact below 2^53; modelled on Nat"],
    assumptions=[
        "numbers in model comparisons are integers of magnitude < 10^15 (hlib.Canon prints larger ones in %g); "
        "fractional and huge numbers (up to 20 digits, exponent |e| < 280) only in the float stream, where the law "
        "decode(encode(decode d)) = decode d is checked on the Go side without the model",
        "non-finite numbers (NaN, +/-Inf) and huge/denormal/negative-zero numbers are outside the integer model: their "
        "behaviour on the unchanged tree is pinned as implementation-side laws (JSON encode is an error; YAML preserves "
        "them through encode/decode; CSV rejects numbers; MarshalToJSON rejects them, by panicking: KF-wire-nonfinite-panic); "
        "NaN is compared as NaN, -0 as 0 (hlib.Canon)",
        "strings over ASCII, Latin-1, BMP and astral code points incl. quotes, backslashes, controls, U+2028, U+FEFF, "
        "U+FFFF; no surrogate code points (Go replaces them by U+FFFD when converting runes to UTF-8)",
        "documents: depth <= 3 (quick 2), width <= 3; matrices <= 3x3; strings/arrays dense (no holes); plain sets in "
        "non-strict encoding are sets of integers (rel.ValueLess order of mixed sets is C06's subject)",
        "wire documents fed to UnmarshalFromJSON directly have distinct keys and no '@' attribute names "
        "(TupleBuilder.Finish panics on (@: non-number, @char: ...): C10 KF-pinned-panics)"],
    level_text="Proof: 26 Lean theorems about the transliterated codecs - strict JSON/YAML decode then encode returns the "
               "(duplicate-free) document for ALL documents, decode.encode.decode = decode (strict: all documents; "
               "non-strict: documents without false/\"\"/[]/{}), strict encoding of a value without plain sets/offsets "
               "either fails or decodes back to the (tagged) value (and every decoded value lies in that class; the encoder has no panic site left), the wire format round-trips every value whose sets "
               "are arrays/strings/booleans, //bits.mask and //bits.set are mutually inverse, and CSV "
               "decode(encode m) = m for every rectangular string matrix without CR LF fields and blank rows, proved "
               "against a character-level model of encoding/csv. Each guard has a witness theorem showing the full "
               "statement is false of today's code (known findings). The model is tied to the repo by running both on "
               "generated documents, values, matrices, raw CSV text and integers on every run.",
    design_ref="DESIGN.md section 6, C13",
    watch=["translate.Translator.ToArrai", "translate.Translator.objToArrai", "translate.Translator.arrToArrai",
           "translate.Translator.FromArrai", "translate.Translator.objFromArraiDict",
           "translate.Translator.objFromArraiTuple", "translate.Translator.arrFromArrai",
           "translate.Translator.BytesYamlToArrai",
           "rel.jsonEscape", "rel.jsonUnescape", "rel.MarshalToJSON", "rel.UnmarshalFromJSON", "rel.TupleBuilder.Finish",
           "syntax.set", "syntax.mask", "syntax.csvDecodeFnBody", "syntax.csvEncodeFnBody",
           "syntax.jsonDecodeFnBody", "syntax.jsonEncodeFnBody", "syntax.yamlDecodeFnBody", "syntax.yamlEncodeFnBody",
           "syntax.bytesOrStringAsUTF8"],
    # no C13 operation can legitimately run for seconds; a generous limit keeps a loaded machine from
    # producing spurious "timeout" observables (a real hang is still reported, after 60 s)
    env={"HARNESS_TIMEOUT_MS": "60000"},
)
