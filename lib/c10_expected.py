#!/usr/bin/env python3
"""Regenerate lean/Arrai/C10/Expected.lean from the facts of a tree (dev helper of C10, part (b)).

usage: lib/c10_expected.py <facts.json>          (facts.json as written by ./check into .build*/facts.json)

The table is the per-function count of panic sites (panic(...) calls, type assertions without ", ok",
Must*/must* calls).  Every function carries a classification, kept in CLASS below (hand-written, by
reading the code); functions not listed there fall into the package default.  After a change of the tree
that moves or adds a site: run this script, read the diff of Expected.lean, classify the new rows.
"""
import json, sys, os, re

ROOT = os.path.dirname(os.path.dirname(os.path.abspath(__file__)))

# classification letters
#   U  modelled, unreachable: the site is inside a function transliterated in Arrai/C10/Model.lean and the theorem
#      no_panic shows that no admissible expression reaches it
#   O  modelled, reachable = open finding (class named in the comment)
#   G  guarded-internal: the assertion/panic is protected by a test a few lines above it (kind comparison, bucket
#      choice, len check) or sits on an AST shape the grammar cannot produce; argued by reading, validated by fuzzing
#   X  outside the fragment: not modelled (standard-library functions, shell, CLI, macros, import machinery, tools);
#      validated by the fuzzing streams only
#   F  reached by function values used as sets (open finding KF-function-as-set)
CLASS = {
    # --- open findings
    "rel.NewTuple": "O KF-pinned-panics: .(Number) on @ / @char / @byte of a sugar-headed pair (asserted by the suite)",
    "rel.TupleBuilder.Finish": "O KF-pinned-panics: same assertions on the builder path",
    "rel.SetPattern.Bind": "O KF-pinned-panics: 'pattern type %T not supported yet' (asserted by the suite)",
    "rel.relationBuilder.Add": "O KF-relation-bucket: MustGet(name) when two name lists share one bucket key; v.(Tuple) guarded by the bucket",
    "rel.toUnionSetWithItem": "O KF-relation-bucket: reached by Relation.With/Union when the value's bucket key equals the relation's (modelled: withSet, unionSets)",
    "rel.Closure.Count": "F", "rel.Closure.Has": "F", "rel.Closure.Enumerator": "F", "rel.Closure.With": "F",
    "rel.Closure.Without": "F", "rel.Closure.Map": "F", "rel.Closure.Where": "F", "rel.Closure.ArrayEnumerator": "F",
    "rel.Closure.CallAll": "G nullary-vs-unary mismatch cannot be produced by the compiler",
    "rel.Closure.Export": "X only used by Go embedders",
    "rel.NativeFunction.Count": "F", "rel.NativeFunction.Has": "F", "rel.NativeFunction.Enumerator": "F",
    "rel.NativeFunction.With": "F", "rel.NativeFunction.Without": "F", "rel.NativeFunction.Map": "F",
    "rel.NativeFunction.Where": "F", "rel.NativeFunction.ArrayEnumerator": "F",
    "rel.ExprClosure.Count": "F", "rel.ExprClosure.Has": "F", "rel.ExprClosure.Enumerator": "F", "rel.ExprClosure.With": "F",
    "rel.ExprClosure.Without": "F", "rel.ExprClosure.Map": "F", "rel.ExprClosure.Where": "F",
    "rel.ExprClosure.ArrayEnumerator": "F", "rel.ExprClosure.Less": "F", "rel.ExprClosure.Negate": "F",
    "rel.ExprClosure.Export": "X only used by Go embedders", "rel.ExprClosure.Kind": "F", "rel.ExprClosure.Hash": "F",
    "rel.ExprClosure.Equal": "F",
    "rel.ASTNodeFromValue": "O KF-grammar-parse: //grammar.parse of a value that is not an AST",
    "rel.ASTBranchFromValue": "O KF-grammar-parse",
    "syntax.parseGrammar": "O KF-grammar-parse",
    # --- modelled (Arrai/C10/Model.lean)
    "rel.newArithExpr": "U", "rel.addValues": "U", "rel.NewWithExpr": "U", "rel.NewWithoutExpr": "U", "rel.Call": "U",
    "rel.newSetBinExpr": "U", "rel.Concatenate": "U", "rel.OffsetExpr.Eval": "U guarded by the isNumber test above",
    "rel.Array.withItem": "U (repaired: falls back to a generic set)", "rel.Array.With": "U", "rel.Array.CallAll": "U",
    "rel.String.CallAll": "U", "rel.Bytes.CallAll": "U", "rel.Dict.CallAll": "U",
    "rel.SetBuilder.Add": "U", "rel.SetBuilder.Finish": "U",
    "rel.<init>": "G dictFinish value.(DictEntryTuple): the dict bucket only receives DictEntryTuples (modelled: bucketOf)",
    "rel.asString": "G v.(StringCharTuple): the string bucket only receives StringCharTuples (modelled: bucketOf)",
    "rel.asArray": "G v.(ArrayItemTuple): as asString", "rel.asBytes": "G v.(BytesByteTuple): as asString",
    "rel.SeqArrowExpr.Eval": "U (generic-set branch builds NewTuple: open under KF-pinned-panics)",
    "rel.TupleMapExpr.Eval": "U (repaired)", "rel.ArrayItemTupleExpr.Eval": "U (repaired)",
    "rel.StringCharTupleExpr.Eval": "U (repaired)", "rel.NewRelationExpr": "U e.(XTupleExpr) guarded by the counters",
    "syntax.subset": "U (repaired)", "syntax.subsetOrEqual": "U (repaired)", "syntax.<init>": "U compareOps/binops tables",
}
# ordered (regex, classification) rules for the functions not named in CLASS
import re as _re
RULES = [
    (r"^rel\.ExprClosure\.", "F"),
    (r"^rel\.AST", "O KF-grammar-parse"),
    (r"^rel\.(\w+\.)?Less$|^rel\.valuesLess$|^rel\.rankerSlice\.Less$",
     "G the kinds are compared before the operand is asserted (ordering laws: C06); repaired sites of C06 included"),
    (r"^rel\.\w*Tuple\.MustGet$|^rel\.Scope\.MustGet$", "G Must* accessor: callers pass names they read from the same tuple/scope; open only through relationBuilder.Add"),
    (r"^rel\.(positionalRelation|Relation|valueProjector|positionalRelationValuesEnumerator)\.|^rel\.(Joiner|GenericJoin|joinOneSide|createMode|mapIndices|Reduce)$",
     "G relation internals (C04): all rows of a relation have the heading's width, join modes are a closed enumeration, Reduce's slots are sets it made itself"),
    (r"^rel\.(jsonEscape|jsonEscapeExpr|MarshalToJSON|reflectNewValue)$", "X wire format / Go embedders (C13)"),
    (r"^rel\.New(Max|Min|Mean|Median|Sum)Expr$|^rel\.ReduceExpr\.Eval$|^rel\.float64Heap\.", "G acc.(Agg)/(Value): the accumulator was produced by the same closure one step earlier"),
    (r"^rel\.(Unnest|nestWithFunc|SingleAttrNest)$", "G (repaired by C04: the nest/unnest expressions validate attributes and member kinds first)"),
    (r"^rel\.Rank$", "G (repaired: every ranker tuple has the names of the first before MustGet)"),
    (r"^rel\.(String|Bytes)\.IsTrue$", "G the constructors return None for an empty string/byte array"),
    (r"^rel\.(String|Bytes|Array)\.(Map|Where|ArrayEnumerator)$", "G x.Enumerator().(*concreteEnumerator): the method's own enumerator type"),
    (r"^rel\.UnionSet\.|^rel\.(newSetFromBuckets|unionSetBucketRange\.subset|Union|Intersect|Difference|PowerSet)$",
     "G buckets of a UnionSet hold Sets by construction; Where callbacks of Intersect/Difference never return an error"),
    (r"^rel\.(emptyEnumerator\.|GenericSet\.Any$|Names\.TheOne$|intSet$|registerKind$|CanonicalSet$|genericSetValueEnumerator\.|GenericSet\.ArrayEnumerator$)",
     "G internal invariants (non-empty set, one name, unique kind numbers, array-shaped generic set)"),
    (r"^rel\.(MustNewSet|MustNewDict|mustCallAll|EmptySet\.With|TrueSet\.With)$", "G Must* wrapper around NewSet/NewDict on values it built itself; NewSet fails only in relationBuilder.Add (open)"),
    (r"^rel\.(dictEnumerator|DictEnumerator)\.MoveNext$|^rel\.Dict\.(With|Where|OrderedEntries)$|^rel\.NewDict$",
     "G entry.(Value): a map entry is a Value or multipleValues, the latter handled by the case above"),
    (r"^rel\.DictPattern\.Bind$|^rel\.NewDictPattern$|^rel\.NewSetPattern$|^rel\.ExprsPattern\.String$|^rel\.NewSafeTailExpr$",
     "G pattern internals: keys were inserted as Values; duplicates are reported by the compiler before the constructor (repaired)"),
    (r"^rel\.(GenericTuple\.With|MergeTuples|TupleExpr\.Eval|GenericTuple\.Format)$", "G t.Without(..).(*GenericTuple): Without of a *GenericTuple returns one"),
    (r"^rel\.(RecursionExpr\.Eval|ExprAsFunction|DynIdentExpr\.Eval|Scope\.String)$", "G NewFunction(...).(*Function) and scope entries inserted as Exprs"),
    (r"^syntax\.std|^syntax\.(createNestedFunc|mustCreateNestedFunc|createNestedFuncAttr|createFunc\d|mustParse|newFloatFuncAttr|SafeStdScopeTuple|StdScope|FixFuncs)",
     "X standard library (fuzzed: stream lib / lib-ext)"),
    (r"^syntax\.ParseContext\.|^syntax\.(parseNames|parseName|parseNest|which|delimsScanner|dotUnary|MustCompile|Compile)",
     "X compiler: assertions on AST shapes that the grammar guarantees (fuzzed: stream mut/raw; seven of them were reachable and are repaired)"),
]
PKG_DEFAULT = {
    "rel": "G", "syntax": "X", "engine": "X", "translate": "X", "tools": "X", "cmd/arrai": "X",
}


def classify(name):
    if name in CLASS:
        return CLASS[name]
    for rx, c in RULES:
        if _re.search(rx, name):
            return c
    pkg = name.split(".")[0]
    for k, v in PKG_DEFAULT.items():
        if pkg == k or pkg.startswith(k + "/"):
            return v
    return "X"


def main():
    facts = json.load(open(sys.argv[1]))["extra"]
    funcs = facts["c10PanicSiteFuncs"]
    rows = sorted(((v["crc32"], n, v) for n, v in funcs.items()), key=lambda r: (r[0], r[1]))
    dirs = {}
    for n, v in funcs.items():
        d = n.split(".")[0]
        t = dirs.setdefault(d, dict(panic=0, **{"assert": 0}, must=0))
        for k in t:
            t[k] += v[k]
    for d in facts["c10PanicSiteDirs"]:
        dirs.setdefault(d, dict(panic=0, **{"assert": 0}, must=0))
    import zlib
    out = []
    out.append("/-\n  C10, part (b): the expected inventory of panic sites, per function.\n\n"
               "  (crc32 of \"pkgdir.Recv.Func\", panics*1000000 + unchecked type assertions*1000 + Must*/must* calls), sorted by crc32.\n"
               "  Regenerated by lib/c10_expected.py from the facts of the tree the model was written against; the\n"
               "  classification after each row is hand-written (table CLASS in that script):\n"
               "    U  modelled, unreachable (theorem no_panic)      O  modelled/known, reachable = open finding\n"
               "    F  reached only by function values used as sets (open finding KF-function-as-set)\n"
               "    G  guarded-internal (test just above the site, or an AST shape the grammar cannot produce; fuzzed)\n"
               "    X  outside the modelled fragment (stdlib, shell, CLI, macros, imports, tools; fuzzed)\n"
               "  A new, moved or removed site changes Generated.panicSites and breaks the obligation\n"
               "  `panicSites_expected` in Arrai/Proofs/C10.lean; ./check then widens the search.\n-/\n"
               "namespace Arrai.C10.Expected\n\n")
    out.append("def panicSites : List (Nat × Nat) := [\n")
    for i, (h, n, v) in enumerate(rows):
        code = v["panic"] * 1000000 + v["assert"] * 1000 + v["must"]
        sep = "," if i < len(rows) - 1 else ""
        out.append(f"  ({h}, {code}){sep}  -- {n}: {classify(n)}\n")
    out.append("]\n\n")
    drows = sorted((zlib.crc32(d.encode()), d, t) for d, t in dirs.items())
    out.append("def panicSiteTotals : List (Nat × Nat) := [\n")
    for i, (h, d, t) in enumerate(drows):
        code = t["panic"] * 1000000 + t["assert"] * 1000 + t["must"]
        sep = "," if i < len(drows) - 1 else ""
        out.append(f"  ({h}, {code}){sep}  -- {d}\n")
    out.append("]\n\nend Arrai.C10.Expected\n")
    path = os.path.join(ROOT, "lean", "Arrai", "C10", "Expected.lean")
    open(path, "w").write("".join(out))
    letters = {}
    for _, n, v in rows:
        letters[classify(n)[0]] = letters.get(classify(n)[0], 0) + v["panic"] + v["assert"] + v["must"]
    print("wrote", path, len(rows), "functions; sites per class:", letters)


if __name__ == "__main__":
    main()
