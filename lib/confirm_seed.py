#!/usr/bin/env python3
"""Confirm a seeded change: in a scratch worktree of /repo (HEAD) check that
  (1) the demonstration passes without the patch, (2) the patch applies and the tree builds,
  (3) the demonstration fails with the patch, (4) the pinned 775-test baseline still passes with the patch.
usage: lib/confirm_seed.py seeded/<id> [--no-suite]    → writes seeded/<id>/confirm.json, exit 0 iff all four hold"""
import sys, os, subprocess, json, shutil, glob, tempfile
d = os.path.abspath(sys.argv[1])
nosuite = "--no-suite" in sys.argv
ROOT = os.path.dirname(os.path.dirname(os.path.abspath(__file__)))
env = dict(os.environ, GOFLAGS="-mod=mod", GOPROXY="off")
wt = tempfile.mkdtemp(prefix="seedwt-", dir="/tmp")
os.rmdir(wt)
def sh(cmd, cwd=None):
    return subprocess.run(cmd, shell=True, cwd=cwd, env=env, stdout=subprocess.PIPE, stderr=subprocess.STDOUT, text=True)
res = {}
try:
    assert sh(f"git -C /repo worktree add -q --detach {wt}").returncode == 0
    meta = json.load(open(os.path.join(d, "meta.json")))
    demos = glob.glob(os.path.join(d, "demo*_test.go")) + glob.glob(os.path.join(d, "demo*.go"))
    demo = demos[0]
    pkg = meta.get("demo_pkg") or "syntax"
    for line in open(demo):
        if line.startswith("package "):
            break
    run = meta.get("demo_run", "")
    dst = os.path.join(wt, pkg, "zz_seed_demo_test.go")
    shutil.copy(demo, dst)
    test = f"go test -count=1 -vet=off {'-run ' + run if run else ''} ./{pkg}/ 2>&1 | grep -E '^(--- FAIL|FAIL|ok|panic)' | grep -v TestPackageExternalImportModule"
    def demo_fails():
        race = "-race " if (meta.get("property") == "C11" or "-race" in json.dumps(meta)) else ""
        r = sh(f"go test {race}-count=1 -vet=off -run 'TestSeed|TestDemo|Seed' ./{pkg}/", cwd=wt)
        return ("--- FAIL" in r.stdout or "panic:" in r.stdout or "DATA RACE" in r.stdout or "FAIL\t" in r.stdout and "TestPackageExternalImportModule" not in r.stdout), r.stdout[-600:]
    f0, o0 = demo_fails()
    res["demo_passes_without_patch"] = not f0
    a = sh(f"git apply {os.path.join(d, 'patch.diff')}", cwd=wt)
    res["patch_applies"] = a.returncode == 0
    b = sh("go build ./...", cwd=wt)
    res["builds"] = b.returncode == 0
    f1, o1 = demo_fails()
    res["demo_fails_with_patch"] = f1
    res["demo_output_with_patch"] = o1[-300:]
    if not nosuite:
        os.remove(dst)
        s = sh(f"python3 {ROOT}/lib/suite.py {wt}")
        res["suite_passes_with_patch"] = s.returncode == 0
        res["suite_output"] = s.stdout[-300:]
finally:
    sh(f"git -C /repo worktree remove --force {wt}")
ok = all(v for k, v in res.items() if isinstance(v, bool))
res["ok"] = ok
json.dump(res, open(os.path.join(d, "confirm.json"), "w"), indent=1)
print(json.dumps({k: v for k, v in res.items() if isinstance(v, bool)}))
sys.exit(0 if ok else 1)
