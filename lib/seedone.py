#!/usr/bin/env python3
"""Re-run one stored seed: lib/seedone.py seeded/<id> [tier] — applies patch.diff to /repo, runs the property's check, undoes it,
and rewrites meta.json's check_result."""
import sys, os, subprocess, json, re, shutil
d = os.path.abspath(sys.argv[1]); tier = sys.argv[2] if len(sys.argv) > 2 else "quick"
ROOT = os.path.dirname(os.path.dirname(os.path.abspath(__file__)))
meta = json.load(open(os.path.join(d, "meta.json"))); prop = meta["property"]
WT = "/tmp/seedwt-%d" % os.getpid()
subprocess.run("git -C /repo worktree add -q --detach %s" % WT, shell=True, check=True)
ENV = dict(os.environ, VERIF_REPO=WT)
a = subprocess.run(["git", "-C", WT, "apply", os.path.join(d, "patch.diff")], capture_output=True, text=True)
try:
    if a.returncode != 0:
        res = dict(detected=None, detail="patch does not apply: " + a.stderr[-300:])
    else:
        r = subprocess.run([os.path.join(ROOT, "check"), prop, "--tier", tier], cwd=ROOT, capture_output=True, text=True, env=ENV)
        viol = [l for l in r.stdout.split("\n") if l.startswith("VIOLATION")]
        detail = []
        for v in viol[:3]:
            m = re.search(r"replay=(\S+)", v)
            try:
                b = json.load(open(os.path.join(ROOT, m.group(1))))
                detail.append(dict(line=v, input=b.get("payload"), expected=str(b.get("expected_spec"))[:200], actual=str(b.get("actual"))[:200], note=str(b.get("note", ""))[:300]))
            except Exception:
                detail.append(dict(line=v))
        res = dict(detected=bool(viol), exit=r.returncode, violations=len(viol), detail=detail, summary=r.stderr.strip().split("\n")[-1][:300])
finally:
    subprocess.run("git -C %s checkout -- . && git -C %s clean -fdq" % (WT, WT), shell=True)
meta["check_result"] = dict(cmd=f"./check {prop} --tier {tier}", **res)
json.dump(meta, open(os.path.join(d, "meta.json"), "w"), indent=1)
print(os.path.basename(d), "detected" if res.get("detected") else "MISSED", str(res.get("summary", res.get("detail")))[:160])
shutil.rmtree(os.path.join(ROOT, "replays"), ignore_errors=True)

subprocess.run("git -C /repo worktree remove --force %s" % WT, shell=True)
shutil.rmtree(os.path.join(ROOT, ".build-" + os.path.basename(WT)), ignore_errors=True)
