"""C16 configuration."""
PROP = dict(
    quick_n=5300, thorough_n=20000,
    trusted_base=[
        "path.Clean / filepath.Clean/Join/Dir/Base/Ext/Abs are modelled by their documented meaning on path components "
        "(split on '/', drop empty and '.', cancel 'x/..', drop leading '..' of rooted paths, '.' for empty), not by Go's byte loop; "
        "their agreement with Go is checked by the `pathfn` operation on every generated string (exhaustively up to length 7 "
        "over {'.','/','a',' ','\\t'} in thorough runs)",
        "strings.Trim/HasPrefix/ReplaceAll are modelled literally on rune lists (ASCII inputs)",
        "the file system resolves a path string to the file at its cleaned absolute form (Spec `comps`); symbolic links and "
        "Windows paths are not modelled; afero.MemMapFs (anz-bank fork: relative names are made absolute with the process "
        "working directory) is trusted as the stand-in for the OS file system",
        "the root cache (pkg/ctxrootcache) is modelled as a transparent memo of findRootFromModule (theorem root_cache_sound "
        "shows every stored entry equals the recomputed answer on an unchanged file system)",
        "the import cache is modelled for ONE goroutine (compilation of one script is sequential); cross-goroutine waiting is C11's",
    ],
    assumptions=[
        "local imports only (`//{./p}`, `//{/p}`); module/URL imports are outside this model",
        "the parser hands compilePackage the text between the braces with leading white space removed (wbnf .wrapRE); "
        "PKGPATH strings over {'.','/','a',' ','\\t','\\n'} and short names",
        "source directories: absolute, or relative to the working directory ('.', 'a/a', '..', '../..'), depth 0-3 below the "
        "module root; module root at several levels or absent; marker script at EVERY directory level from '/' downwards",
        "import graphs: 2-7 scripts, DAGs, diamonds, several spellings of one file, cycles of length 1-4 (also through the main script); "
        "observable = outcome AND the set of files opened (the model traces afero.ReadFile in compile order)",
        "script contents: constant tuple + import list, optionally a reference to a name (`f: base`, `f: x`, `f: .`) and a binder around "
        "the body (let / function parameter / arrow). In 2 of 5 graph and nested layouts one script is an OPEN term while every other "
        "script (its importers, by different spellings) binds that name to a different value; in 1 of 5 all scripts carry binders but "
        "are closed. Spec: imported code is evaluated in a scope holding only `//`, so an open script fails whatever the importers "
        "bind, and binders of importers never change an imported value. This evaluation-scope part rests on the correspondence run "
        "(the Lean graph model abstracts evaluation: `compile` yields the unfolding; the generator's value function is applied to it)",
        "sequences (quick: 300): 2-3 evaluations over one file system sharing ONE context - the root cache, and in half of the "
        "cases also the import cache - with scripts inside and outside any module (the base go.mod dropped in half of the layouts, "
        "same-named files at the file-system root), module-rooted imports that fail for lack of a module repeated in the same "
        "context; every evaluation must give the outcome and (modulo scripts already in a shared import cache) the reads of a fresh context",
        "nested modules (quick: 200 layouts x 2): go.mod at the base and/or at 1-2 nested directories, the same relative names "
        "(data/lib/util) with different contents in all 5 directories, module-rooted imports issued at every depth including "
        "directly in a nested root, 2-5 imports per main script evaluated in BOTH orders so that root-cache entries of an earlier "
        "import are live when a later one resolves",
    ],
    level_text="Proof: 25 Lean theorems. For ALL import-path strings, working directories, source directories and file systems the "
               "transliterated pipeline compilePackage -> importLocalFile -> findRootFromModule -> fileValue (as repaired) reads, "
               "when it resolves at all, a file whose cleaned absolute path is the module root (resp. the source directory) followed "
               "by Normal components only - no '..' (confined, confined_nomod; the proof covers strings.ReplaceAll(p,'../','') by a "
               "four-state automaton); the resolved name is the canonical spelling, so one file has one cache key (same_file, "
               "same_file_dot, root_cache_sound); compiling terminates for EVERY import graph, the cache is transparent, acyclic "
               "graphs yield their unfolding and a reachable cycle yields `import cycle` (terminates, cache_transparent, acyclic_ok, "
               "cycle_error). Witness theorems state what was wrong before the three repairs (escape through ' ../x' with a relative "
               "source directory; `//{./}` reading <dir>.arrai; self-wait in getOrAdd). The model is tied to the Go code by running "
               "both on generated imports over an in-memory file system with a recording wrapper (paths opened + outcome) and on "
               "generated import graphs (outcome within a timeout), every run.",
    design_ref="DESIGN.md section 6, C16",
    watch=["syntax.ParseContext.compilePackage", "syntax.importLocalFile", "syntax.findRootFromModule", "syntax.fileValue",
           "syntax.bytesValue", "syntax.Compile", "pkg/importcache.importCache.getOrAdd", "pkg/importcache.GetOrAddFromCacheCtx",
           "pkg/ctxrootcache.StoreRoot", "pkg/ctxrootcache.LoadRoot", "tools.FileExists"],
    env={"HARNESS_TIMEOUT_MS": "4000"},
)
