"""C15 configuration."""
PROP = dict(
    quick_n=300, thorough_n=8000,
    trusted_base=[
        "archive/zip, afero zipfs (anz-bank fork: a name is looked up at Clean('/'+name)) and afero.MemMapFs are trusted: the "
        "archive is modelled as the finite map from cleaned absolute paths to contents that ZipCreate builds",
        "paths are cleaned absolute component lists; filepath.Abs/Join/Dir, path.Join and strings.TrimPrefix(abs, root) (root a "
        "component prefix of abs, guaranteed by C16's confinement theorem) are concatenation, dropLast and drop on components; "
        "which components an import appends is C16's pipeline (dotRel/rootRel, proved equal to the string-level resolve)",
        "what the arr.ai parser finds in a file (its import expressions) and what a decoder makes of bytes are abstract functions of "
        "the bytes - the same on both sides, because bundling copies bytes verbatim; evaluation of a compiled script is a function "
        "of its compiled form",
        "the configuration file round trip ((main_root: %q, main_file: %q) read back by the arr.ai parser) is assumed for module and "
        "file names that %q leaves unescaped (printable ASCII without quote and backslash); C12 covers the reader",
        "the import cache is transparent and cycle detection works on file identity (C16: cache_transparent, cycle_error)",
    ],
    assumptions=[
        "local imports only; module (`//{github.com/...}`) and URL imports need the network and are outside this model",
        "module paths in go.mod have Normal components (no '.', '..' or empty component)",
        "layouts: 2-6 scripts and 0-3 data files in directories nested <= 3 below a base directory at 6 places (inside/outside/"
        "above the working directories), go.mod at the base, absent, only nested, base + nested, or above the base; main script at "
        "any depth, given absolutely or relative to the working directory (also through '..'); names with spaces; ASCII only",
        "plus n/6 nested-module layouts x 2: go.mod at the base and/or 1-2 nested directories, the same relative names with "
        "different contents in every directory, module-rooted imports at every depth (also directly in a nested root), the main "
        "script's imports in both orders (root-cache state of an earlier import is live for the later ones)",
        "plus n/10 'routes' layouts x 4 (imports in both orders x main given absolutely and relatively): a nested module (sometimes "
        "with a further module inside) whose files d/e are reached several times in one evaluation by different spellings "
        "(./d and /d) from different importers - a neighbour inside the nested module, a deeper script, a script outside - with the "
        "same names and different contents in the outer module; few module-rooted imports, so a single skipped addModuleSentinel/"
        "bundleLocalFile (e.g. on an import-cache hit) shows in the archive's file list; the model has no cache, i.e. it predicts the "
        "archive independently of cache state",
        "go.mod contents vary: LF and CRLF line ends, a blank or tab after the module path, a trailing blank line, a `go 1.x` line, "
        "module paths with dots/dashes/underscores/slashes/spaces; nested modules' go.mod (copied, never parsed) additionally EMPTY, "
        "without final newline or with a leading comment (for the main script's module the last three are KF-bundle-sentinel-syntax)",
        "a nested module's DECLARED module path need not mirror its directory: main path + '/gen' or '/x/y', the main path itself, "
        "a sibling ('<main>2'), or an unrelated path",
        "EMPTY files: empty nested go.mod, empty .txt/.b data (implicit and //encoding.bytes / failing //encoding.json decoders), empty "
        ".arrai read through //encoding.bytes; the archive file list lists zero-length entries. A plain import of an empty .arrai "
        "(a parse error on both sides) is not generated: the model does not parse script bytes",
        "data files .json/.yaml/.yml/.txt/.b with implicit decoders, explicit //encoding.json and //encoding.bytes decoders",
        "the working directory is process-wide: the harness runs these cases with one worker",
    ],
    level_text="Proof: 17 Lean theorems (15 about the model, 2 regenerated-fact obligations: the only direct I/O on the import/bundle path, http.Get and `go mod download`, sits behind isRunningBundle) about the transliterated bundling code (SetupBundle, bundleLocalFile, addModuleSentinel as "
               "repaired, createConfig, ZipCreate, BundledScripts) and the run side (WithBundleRun, withBundledConfig, "
               "GetMainBundleSource, import resolution inside the archive): mapPath commutes with joining a relative import "
               "(map_join), the runtime finds the module root of every imported script at the image of its source root (root_found), "
               "every file the compile reads is in the archive at mapPath of its path (closure), hence running the bundle yields the "
               "compiled form of the source tree - same value or same failure (bundle_eval_eq), independent of the working directory "
               "(cwd_indep). The model is tied to the Go code on every run by generated layouts: evaluate from source, bundle, run the "
               "bundle from two working directories over an EMPTY recording file system; outcomes, read log and the archive's file list "
               "are compared with the model. Partial for go.mod files that do not start with a `module` line (known finding).",
    design_ref="DESIGN.md section 6, C15",
    watch=["syntax.SetupBundle", "syntax.bundleLocalFile", "syntax.addModuleSentinel", "syntax.createConfig", "syntax.bundleConfig.String",
           "syntax.WithBundleRun", "syntax.withBundledConfig", "syntax.GetMainBundleSource", "syntax.EvaluateBundleCtx",
           "syntax.importLocalFile", "syntax.fileValue", "syntax.findRootFromModule", "syntax.ParseContext.compilePackage",
           "pkg/bundle.BundledScriptsTo", "pkg/ctxfs.ZipCreate", "pkg/ctxfs.OutputZip"],
    env={"HARNESS_WORKERS": "1", "HARNESS_TIMEOUT_MS": "8000"},
)
