"""C04 configuration."""
PROP = dict(
    quick_n=3000, thorough_n=120000,
    trusted_base=[
        "frozen.Set/Map (groupBy, SetBuilder, Keys().Intersection, SetMap) are modelled as duplicate-free lists; "
        "Names/NamesSlice as lists of distinct names; validated by the correspondence run only",
        "SetBuilder.Finish/Union/With (which representation a set of tuples gets: Relation with sorted heading, "
        "String/Array/Bytes/Dict for the sugar headings, TrueSet, UnionSet) are modelled by Impl.ofMembers on the set of members; "
        "the internals of String/Array/Bytes/Dict belong to C01-C03",
        "slice indexing inside projectedValues.values/compose is totalised (V.none / 0) in the model; out of range is "
        "unreachable for well-formed relations (rows have the heading's width) and would show as a panic in the correspondence run",
        "sort.Sort in Rank is modelled by an insertion sort; Value.Less on the generated keys (numbers) by V.cmp",
        "well-formed Relation (RelWF): distinct names, identity projector p (every constructor in rel/ builds it so), rows of the "
        "heading's width, at least one row; the append of the two output headings is modelled as a fresh list (the repaired code)",
    ],
    assumptions=[
        "attribute values are numbers (0..2, code points 97..99 under @char); nested relations only as produced by nest",
        "headings of at most 4 (random) / 3 (exhaustive) names per operand over a..f and @, @item, @char, @byte, @value, @foo; at most 4-5 rows",
        "permuted physical column orders: computed operands (chains of <&> in both association orders, <->, <--, where) over projections of a "
        "5-name universe with a distinct value range per column, 3-4 common attributes, all 8 operators, either side; systematic family: every "
        "order of 3 and 4 names (quick: all orders of 3, the rotations of 4) against a literal with the same heading, a superset, a 3-name subset "
        "and a chain in a rotated order. Relations rebuilt by =>, nest/unnest or SetBuilder get a sorted heading again (no permutation)",
        "operands with two members under one index of an array/string/byte array heading are not generated; results of "
        "that shape are class KF-superimposed",
    ],
    level_text="Proof: 30 Lean theorems. Spec level: the eight operators on values are well defined on rows, the seven other operators are "
               "projections of <&>, nest loses/invents no row and its groups are disjoint on the key, unnest inverts nest. Impl level "
               "(transliteration of the repaired Go code): the generic path (RelationAttrs, GenericJoin, the eight combine closures, SetBuilder) "
               "and the positional path (Relation.Join: getIndices, compose, createMode, JoinKeepEverything, joinOneSide with its identity fast path, "
               "JoinCommonOnly with its re-mapping, JoinIfCommonExist, the empty/literal-true short-cuts and the re-sugaring branch) each denote "
               "Spec.join op for all eight operators, all headings (any class empty, any column order) and all well-formed operand representations; "
               "createMode never panics on the eight partitions and selects a strategy whose side condition holds (finite Boolean table by case analysis); "
               "both paths agree; join results are again well-formed operands, so the refinement chains through nested joins; Nest (nestWithFunc + Reduce, "
               "both |attrs| and ~|attrs|), SingleAttrNest and Unnest denote Spec.nest/singleNest/unnest; Rank (one sorting pass per rank attribute) "
               "denotes Spec.rank: every row gains the number of rows with a strictly smaller key. The pre-repair re-sugaring loop is shown to index "
               "out of range on the recorded witness. The model is tied to the Go code by running both on generated arr.ai programs "
               "(all operand representations, chained and shared joins, exhaustive small headings) on every run.",
    design_ref="DESIGN.md section 6, C04",
    watch=["rel.RelationAttrs", "rel.nestWithFunc", "rel.validNestOp", "rel.Nest", "rel.SingleAttrNest", "rel.Unnest", "rel.Reduce",
           "rel.Joiner", "rel.GenericJoin", "rel.NewJoinExpr", "rel.NewComposeExpr", "rel.NewJoinCommonExpr", "rel.NewJoinExistsExpr",
           "rel.NewRightMatchExpr", "rel.NewLeftMatchExpr", "rel.NewRightResidueExpr", "rel.NewLeftResidueExpr",
           "rel.Relation.Join", "rel.Relation.getIndices", "rel.relationBuilder.Add", "rel.relationBuilder.Finish",
           "rel.valuesToTuple", "rel.mapIndices",
           "rel.createMode", "rel.positionalRelation.Join", "rel.positionalRelation.JoinKeepEverything",
           "rel.positionalRelation.JoinIfCommonExist", "rel.positionalRelation.JoinCommonOnly", "rel.joinOneSide",
           "rel.positionalRelation.groupBy", "rel.positionalRelation.IsLiteralTrue", "rel.positionalRelation.Width",
           "rel.valueProjector.compose", "rel.valueProjector.isSubProjection", "rel.valueProjector.hasCommonIndices",
           "rel.valueProjector.isIdentity", "rel.valueProjector.isContiguous", "rel.valueProjector.mapper",
           "rel.projectedValues.values", "rel.projectedValues.get", "rel.projectedValues.project",
           "rel.NamesSlice.hasIntersect", "rel.NamesSlice.intersect", "rel.NamesSlice.minus", "rel.NamesSlice.isSubset",
           "rel.NestExpr.Eval", "rel.SingleNestExpr.Eval", "rel.UnnestExpr.Eval", "rel.Rank", "rel.NewRankExpr",
           "rel.Combine", "rel.Merge", "rel.TupleProjectAllBut", "rel.GenericTuple.Project",
           "syntax.parseNest", "syntax.ParseContext.compileArrow"],
)
