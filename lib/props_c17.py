"""C17 configuration."""
PROP = dict(
    quick_n=400, thorough_n=20000,
    trusted_base=[
        "Go channel semantics: an unbuffered send/receive pair is one atomic rendezvous; a goroutine sending on a channel that only "
        "itself receives is blocked forever; indexing a map of pointers with an absent key yields nil and calling a method that "
        "dereferences it panics (modelled as statuses wedged / crashed)",
        "client calls are atomic at their rendezvous with the loop (Update additionally receives its reply, which the loop sends "
        "before doing anything else), so interleavings of concurrent clients = lists of messages; Observe's atomic id counter is "
        "modelled as a counter incremented at the rendezvous (only uniqueness of ids matters)",
        "expressions are abstracted as total functions state -> value | error; onupdate callbacks as scripts (return nil / error / panic / "
        "own cancel called during the callback); every onclose is taken to call the observation's own cancel function (worst case): the "
        "model records at each onclose call site the watcher state the code has there (busy / cancelled) and whether cancel would go on "
        "to its send; the correspondence run exercises cancel from onupdate (once/twice), from onclose (0/1/2 calls, every close reason), both",
        "Go's unspecified map iteration order is modelled by an arbitrary enumeration code per message (permBy): every code is a "
        "permutation and every permutation has a code (both proved), the theorems hold for all codes",
        "concurrency (Arrai/C17/Conc.lean, part 7 of the proofs): assumed about Go - the engine's channels are unbuffered, so a call takes "
        "effect at one rendezvous at which the loop's select accepts the message of exactly one blocked caller (arbitrary choice = the "
        "schedule), and the loop is one goroutine, so the arm (including the reply to Update) completes before the next acceptance; proved "
        "in Lean from that: every schedule of any clients yields Impl.run of one history that is an interleaving of the clients' calls in "
        "program order, and each client's replies / observation handles are functions of that history",
        "the cancel function's busy/cancelled marking (atomic state of the watcher) is modelled by the callback oracle `reenter` = cancel "
        "is called while that watcher's callback runs, by the callback itself or by another goroutine (the code cannot tell them apart)",
    ],
    assumptions=[
        "callbacks that block on something outside the engine (e.g. serve_grpc.go's `retch <- err` with no receiver) are outside the model",
        "histories end with Stop; calls issued after Stop (which block forever, the loop is gone) are outside the property",
        "correspondence run: states are {} or small naturals; 7 expression shapes; 1-4 clients, 3-25 operations. Both tiers include "
        "(a) 'par' cases: clients on separate goroutines, a restricted class for which only interleaving-independent facts are "
        "compared, and (b) 'race' cases: 2-4 clients issue state-dependent updates ($+k, $*2, n) at the same moment for 2-4 rounds, "
        "the harness holding every evaluation at a gate until all of the round have started or 30 ms passed; by the merge theorems "
        "the history is client 0's prefix followed by one permutation per round, the model runs all of them (<= 576) and observer "
        "1's log must be the state chain of one of them (a lost or stale update, or a reordered notification, is outside the set)",
    ],
    level_text="Proof: Lean theorems, all at full strength, over all finite message histories, all callback oracles (return nil / error / "
               "panic / cancel called during the callback) and all map enumeration orders for the transliterated repaired engine loop: "
               "never crashes, never wedges, every Update gets exactly one reply before anything else happens, effects in acknowledgement "
               "order, per-observer delivery closed form, isolation, onclose exactly once, refinement of the sequential specification; every "
               "schedule of concurrent clients is such a history (merge theorems); machine-checked witnesses that the loop before each "
               "repair deadlocks / crashes. Tied to engine/engine.go by running the real "
               "engine on generated histories on every run.",
    design_ref="DESIGN.md section 6, C17",
    watch=["engine.Start", "engine.Engine.Stop", "engine.Engine.Hangup", "engine.Engine.Update", "engine.Engine.Observe",
           "engine.watcher.update", "engine.watcher.send", "engine.watcher.close"],
    env={"HARNESS_TIMEOUT_MS": "30000"},
)
