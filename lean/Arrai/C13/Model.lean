/-
  C13 — data codecs round-trip: JSON, YAML, CSV, //bits and the server wire format.

  The Go code under `translate/`, `rel/json.go`, `syntax/std_encoding_csv.go` and `syntax/std_bits.go`
  dispatches on the Go *representation type* of a value (`rel.String`, `rel.Array`, `rel.Dict`,
  `*rel.GenericTuple`, `rel.GenericSet`, …).  The model therefore works on `R`, one constructor per
  Go type those type switches distinguish; `R.den` (Arrai/C13/Render.lean) gives the framework value
  `Arrai.V` an `R` denotes, which is what the correspondence run observes.

  `Impl` = transliteration of the (repaired) Go code, same branches in the same order.
  Text layers (`encoding/json`, `yaml.v3`, UTF-8) are not modelled: a document is its tree `J`.
  `encoding/csv` is modelled at character level (`Csv.writeAll`, `Csv.parse`) for the default
  configuration the arr.ai functions use.

  Core-only; no `String` anywhere in this file (names are code point lists), so every definition
  reduces in the kernel.
-/
namespace Arrai.C13

/-- a string as its Unicode code points -/
abbrev Key := List Nat

/-- result of a Go function returning `(T, error)`; `panic` marks the panic sites that remain -/
inductive Out (α : Type) where
  | ok (a : α)
  | err
  | panic
  deriving Inhabited, DecidableEq

namespace Out
def map {α β : Type} (f : α → β) : Out α → Out β
  | ok a => ok (f a)
  | err => err
  | panic => panic
def bind {α β : Type} (x : Out α) (f : α → Out β) : Out β :=
  match x with
  | ok a => f a
  | err => err
  | panic => panic
def isOk {α : Type} : Out α → Bool
  | ok _ => true
  | _ => false
end Out

/-! ## Documents -/

/-- a JSON/YAML document as the tree `encoding/json` / `yaml.v3` hand to `ToArrai`
(numbers: integers only, see the float stream in Gen.lean) -/
inductive J where
  | null
  | bool (b : Bool)
  | num (n : Int)
  | str (cs : Key)
  | arr (xs : List J)
  | obj (kvs : List (Key × J))
  deriving Inhabited

def keys {α : Type} (l : List (Key × α)) : List Key := l.map (·.1)

/-- a Go `map[string]T` filled by `m[k] = v` in list order: the last binding of a key wins
(`encoding/json` for duplicate object keys, `maps[key] = …` in from_arrai.go, `result[name] = …`
in rel/json.go).  The position of a binding is immaterial (Go maps are unordered). -/
def lastWins {α : Type} : List (Key × α) → List (Key × α)
  | [] => []
  | (k, v) :: r => if k ∈ keys r then lastWins r else (k, v) :: lastWins r

mutual
/-- the tree a document denotes: duplicate object keys resolved -/
def J.norm : J → J
  | .arr xs => .arr (J.normList xs)
  | .obj kvs => .obj (lastWins (J.normKvs kvs))
  | j => j
def J.normList : List J → List J
  | [] => []
  | x :: r => x.norm :: J.normList r
def J.normKvs : List (Key × J) → List (Key × J)
  | [] => []
  | (k, v) :: r => (k, v.norm) :: J.normKvs r
end

mutual
/-- what a non-strict decode/encode cycle leaves of a document: `false`, `""`, `[]` and `{}` all
decode to the empty set, which encodes as `null` -/
def J.nsNorm : J → J
  | .null => .null
  | .bool b => if b then .bool true else .null
  | .num n => .num n
  | .str cs => if cs.isEmpty then .null else .str cs
  | .arr xs => if xs.isEmpty then .null else .arr (J.nsNormList xs)
  | .obj kvs => if kvs.isEmpty then .null else .obj (lastWins (J.nsNormKvs kvs))
def J.nsNormList : List J → List J
  | [] => []
  | x :: r => x.nsNorm :: J.nsNormList r
def J.nsNormKvs : List (Key × J) → List (Key × J)
  | [] => []
  | (k, v) :: r => (k, v.nsNorm) :: J.nsNormKvs r
end

mutual
/-- the document contains `false`, `""`, `[]` or `{}` (the trees non-strict decoding maps to `{}`) -/
def J.hasEmptyish : J → Bool
  | .null => false
  | .bool b => !b
  | .num _ => false
  | .str cs => cs.isEmpty
  | .arr xs => xs.isEmpty || J.hasEmptyishList xs
  | .obj kvs => kvs.isEmpty || J.hasEmptyishKvs kvs
def J.hasEmptyishList : List J → Bool
  | [] => false
  | x :: r => x.hasEmptyish || J.hasEmptyishList r
def J.hasEmptyishKvs : List (Key × J) → Bool
  | [] => false
  | (_, v) :: r => v.hasEmptyish || J.hasEmptyishKvs r
end

def nodupKeyList : List Key → Bool
  | [] => true
  | k :: r => !(r.contains k) && nodupKeyList r

mutual
/-- some object of the document has two bindings for one key (YAML rejects those) -/
def J.hasDupKeys : J → Bool
  | .arr xs => J.hasDupKeysList xs
  | .obj kvs => !nodupKeyList (keys kvs) || J.hasDupKeysKvs kvs
  | _ => false
def J.hasDupKeysList : List J → Bool
  | [] => false
  | x :: r => x.hasDupKeys || J.hasDupKeysList r
def J.hasDupKeysKvs : List (Key × J) → Bool
  | [] => false
  | (_, v) :: r => v.hasDupKeys || J.hasDupKeysKvs r
end

/-! ## Values, by Go representation type -/

inductive R where
  | num (n : Int)                      -- rel.Number (integral here)
  | tuple (as : List (Key × R))        -- *rel.GenericTuple (the empty tuple included)
  | charT (i : Int) (c : Nat)          -- rel.StringCharTuple  (@: i, @char: c)
  | byteT (i : Int) (b : Nat)          -- rel.BytesByteTuple   (@: i, @byte: b)
  | itemT (i : Int) (v : R)            -- rel.ArrayItemTuple   (@: i, @item: v)
  | entryT (k v : R)                   -- rel.DictEntryTuple   (@: k, @value: v)
  | empty                              -- rel.EmptySet
  | tt                                 -- rel.TrueSet
  | str (off : Int) (cs : Key)         -- rel.String (dense; `off` = index of the first character)
  | bytes (off : Int) (bs : List Nat)  -- rel.Bytes
  | arr (off : Int) (xs : List R)      -- rel.Array (dense)
  | dict (es : List (R × R))           -- rel.Dict
  | gset (xs : List R)                 -- rel.GenericSet / rel.Relation / rel.UnionSet: any other set,
                                       -- members listed in rel.ValueLess order
  deriving Inhabited

namespace R
/-- `rel.NewString`: the empty string is the empty set -/
def newString (cs : Key) : R := if cs.isEmpty then .empty else .str 0 cs
/-- `rel.NewArray` -/
def newArray (xs : List R) : R := if xs.isEmpty then .empty else .arr 0 xs
/-- `rel.NewBool` -/
def newBool (b : Bool) : R := if b then .tt else .empty
/-- `SetBuilder.Finish` over `DictEntryTuple`s -/
def newDict (es : List (R × R)) : R := if es.isEmpty then .empty else .dict es
/-- `x.(rel.Set)` succeeds -/
def isSet : R → Bool
  | .empty | .tt | .str .. | .bytes .. | .arr .. | .dict .. | .gset .. => true
  | _ => false
end R

def kA : Key := [97]            -- "a"
def kS : Key := [115]           -- "s"
def kB : Key := [98]            -- "b"
def kAt : Key := [64]           -- "@"
def kChar : Key := [64, 99, 104, 97, 114]        -- "@char"
def kByte : Key := [64, 98, 121, 116, 101]       -- "@byte"
def kItem : Key := [64, 105, 116, 101, 109]      -- "@item"
def kValue : Key := [64, 118, 97, 108, 117, 101] -- "@value"
def kSet : Key := [123, 124, 124, 125]           -- "{||}"

/-- dict entries `{key: value}` with `rel.NewString` keys (objToArrai) -/
def entries (l : List (Key × R)) : List (R × R) := l.map (fun p => (R.newString p.1, p.2))

namespace Impl

/-! ### translate/to_arrai.go -/
mutual
/-- `Translator.ToArrai` on the tree of a document -/
def toArrai (strict : Bool) : J → R
  | .null => .tuple []
  | .bool b => if strict then .tuple [(kB, R.newBool b)] else R.newBool b
  | .num n => .num n
  | .str cs => if strict then .tuple [(kS, R.newString cs)] else R.newString cs
  | .arr xs =>
    if strict then .tuple [(kA, R.newArray (toArraiList strict xs))]
    else R.newArray (toArraiList strict xs)
  | .obj kvs => R.newDict (entries (lastWins (toArraiKvs strict kvs)))
def toArraiList (strict : Bool) : List J → List R
  | [] => []
  | x :: r => toArrai strict x :: toArraiList strict r
def toArraiKvs (strict : Bool) : List (Key × J) → List (Key × R)
  | [] => []
  | (k, v) :: r => (k, toArrai strict v) :: toArraiKvs strict r
end

/-! ### translate/from_arrai.go (with the repairs: non-string dict keys and `(b: x)` for a
non-boolean `x` are errors; the key `""`, which is the empty set, is accepted) -/

/-- `(s: x)`: `case rel.EmptySet`, `case rel.String`; anything else falls through to the final error -/
def strictS : R → Out J
  | .empty => .ok (.str [])
  | .str _ cs => .ok (.str cs)
  | _ => .err

/-- `(b: x)` (repaired: only `{}`, `true` and a GenericSet equal to `true` are booleans) -/
def strictB : R → Out J
  | .empty => .ok (.bool false)
  | .tt => .ok (.bool true)
  | .gset [.tuple []] => .ok (.bool true)
  | _ => .err

/-- strict mode, a tuple with the single attribute `n`: the `Get("a")` / `Get("s")` / `Get("b")` chain;
`viaArr` = `arrFromArrai(x)` -/
def strictTagged (n : Key) (x : R) (viaArr : Out J) : Out J :=
  if n = kA then (if x.isSet then viaArr else .err)  -- "value in (a: <value>) must be a set"
  else if n = kS then strictS x
  else if n = kB then strictB x
  else .err                                          -- "cannot convert tuple … to an object"

/-- one `append` of a loop that returns on the first error -/
def consOut {α : Type} (h : Out α) (t : Out (List α)) : Out (List α) :=
  match h with
  | .ok a => t.map (a :: ·)
  | .err => .err
  | .panic => .panic

/-- the object key of a dict key `k`; `kd` = `FromArrai(k)` (repaired: the key "" is the empty set) -/
def keyData (k : R) (kd : Out J) : Out J :=
  match k with
  | .empty => .ok (.str [])
  | _ => kd

/-- one iteration of `objFromArraiDict`: `kd`, `vd` = `FromArrai` of key and value -/
def entryStep (k : R) (kd vd : Out J) (rest : Out (List (Key × J))) : Out (List (Key × J)) :=
  match keyData k kd with
  | .ok kdv =>
    (match vd with
     | .ok v =>
       (match kdv with
        | .str ks => rest.map ((ks, v) :: ·)
        | _ => .err)                                 -- repaired: keydata is not a string
     | .err => .err
     | .panic => .panic)
  | .err => .err
  | .panic => .panic

mutual
/-- `Translator.FromArrai` -/
def fromArrai (strict : Bool) : R → Out J
  | .num n => .ok (.num n)
  | .str _ cs => .ok (.str cs)                       -- v.String(): the offset is dropped
  | .tuple [] => .ok .null                           -- !v.IsTrue()
  | .tuple [(n, x)] =>
    if strict then strictTagged n x (arrFromArrai strict x)
    else (fromArrai strict x).map (fun j => .obj (lastWins [(n, j)]))
  | .tuple (a :: b :: r) =>
    if strict then .err                              -- "cannot convert tuple … to an object"
    else (fromAttrs strict (a :: b :: r)).map (fun l => .obj (lastWins l))
  | .charT .. | .byteT .. | .itemT .. | .entryT .. => .err   -- default: "unexpected rel.Value type"
  | .arr _ xs => (fromList strict xs).map .arr         -- arrFromArrai, case rel.Array
  | .dict es => (fromEntries strict es).map (fun l => .obj (lastWins l))
  | .empty => if strict then .ok (.obj []) else .ok .null
  | .tt => if strict then .ok (.obj []) else .ok (.bool true)
  | .bytes _ bs =>
    if strict then .ok (.obj []) else if bs.isEmpty then .ok .null else .err
  | .gset xs =>
    if strict then .ok (.obj [])
    else if xs.isEmpty then .ok .null
    else (fromList strict xs).map .arr
/-- `arrFromArrai(s rel.Set)` -/
def arrFromArrai (strict : Bool) : R → Out J
  | .empty => .ok (.arr [])
  | .arr _ xs => (fromList strict xs).map .arr
  | .gset xs => (fromList strict xs).map .arr
  | .tt => .ok (.arr [.null])                          -- the one member is the empty tuple
  | .str _ cs => if cs.isEmpty then .ok (.arr []) else .err      -- members are StringCharTuples
  | .bytes _ bs => if bs.isEmpty then .ok (.arr []) else .err
  | .dict es => if es.isEmpty then .ok (.arr []) else .err
  | _ => .err
def fromList (strict : Bool) : List R → Out (List J)
  | [] => .ok []
  | x :: r => consOut (fromArrai strict x) (fromList strict r)
/-- `objFromArraiTuple` -/
def fromAttrs (strict : Bool) : List (Key × R) → Out (List (Key × J))
  | [] => .ok []
  | (n, x) :: r => consOut ((fromArrai strict x).map (fun j => (n, j))) (fromAttrs strict r)
/-- `objFromArraiDict` -/
def fromEntries (strict : Bool) : List (R × R) → Out (List (Key × J))
  | [] => .ok []
  | (k, v) :: r => entryStep k (fromArrai strict k) (fromArrai strict v) (fromEntries strict r)
end

/-- decode ∘ encode ∘ decode at tree level -/
def reDecode (strict : Bool) (j : J) : Out R :=
  (fromArrai strict (toArrai strict j)).map (toArrai strict)

end Impl

/-! ## Specification side of "rejected, not silently changed" -/
namespace Spec

/-- `x` is a rel.Array -/
def isArr : R → Bool
  | .arr .. => true
  | _ => false

mutual
/-- the strictly tagged form of a value: strict encoding also accepts a bare string or array where
`(s: …)` / `(a: …)` is meant; decoding always yields the tagged form -/
def tag : R → R
  | .str o cs => .tuple [(kS, .str o cs)]
  | .arr o xs => .tuple [(kA, .arr o (tagList xs))]
  | .tuple [(n, x)] => if n = kA && isArr x then tag x else .tuple [(n, x)]
  | .dict es => .dict (tagEntries es)
  | v => v
def tagList : List R → List R
  | [] => []
  | x :: r => tag x :: tagList r
def tagEntries : List (R × R) → List (R × R)
  | [] => []
  | (k, v) :: r => (k, tag v) :: tagEntries r
end

/-- a dict key `ToArrai` can have produced -/
def entryKey : R → Option Key
  | .empty => some []
  | .str o cs => if o = 0 ∧ ¬ cs.isEmpty then some cs else none
  | _ => none

def entryKeys : List (R × R) → Option (List Key)
  | [] => some []
  | (k, _) :: r =>
    match entryKey k, entryKeys r with
    | some a, some b => some (a :: b)
    | _, _ => none

abbrev nodupKeys : List Key → Bool := nodupKeyList

/-- `(n: x)` in the class `strictOk`; `okx` = `strictOk x` -/
def strictOkTagged (n : Key) (x : R) (okx : Bool) : Bool :=
  if n = kA then
    (match x with
     | .empty => true
     | .arr .. => okx
     | .str _ cs => !cs.isEmpty                     -- rejected by the code (members are not data)
     | .bytes _ bs => !bs.isEmpty
     | .dict es => !es.isEmpty
     | .tt | .gset _ => false                       -- KF-json-strict-sets
     | _ => true)
  else if n = kS then
    (match x with
     | .str .. => okx
     | _ => true)
  else if n = kB then
    (match x with
     | .gset _ => false
     | _ => true)
  else true

mutual
/-- the class on which strict encoding is claimed faithful: no plain set (`true` outside `(b: …)`,
byte arrays, any other non-array set) in a value position, no offset strings/arrays, dict keys plain
distinct strings; representation invariants of rel's constructors (no empty String/Array/Dict) -/
def strictOk : R → Bool
  | .num _ => true
  | .tuple [] => true
  | .tuple [(n, x)] => strictOkTagged n x (strictOk x)
  | .tuple (_ :: _ :: _) => true
  | .charT .. | .byteT .. | .itemT .. | .entryT .. => true
  | .empty => true
  | .tt => false
  | .bytes .. => false
  | .gset _ => false
  | .str o cs => o = 0 && !cs.isEmpty
  | .arr o xs => o = 0 && !xs.isEmpty && strictOkList xs
  | .dict es =>
    !es.isEmpty && strictOkEntries es &&
    (match entryKeys es with
     | some ks => nodupKeys ks
     | none => false)
def strictOkList : List R → Bool
  | [] => true
  | x :: r => strictOk x && strictOkList r
def strictOkEntries : List (R × R) → Bool
  | [] => true
  | (_, v) :: r => strictOk v && strictOkEntries r
end

end Spec

/-! ## Server wire format: rel/json.go -/
namespace Impl.Wire

def escapeBytes (o : Int) : List Nat → List J
  | [] => []
  | b :: r => .obj [(kAt, .num o), (kByte, .num b)] :: escapeBytes (o + 1) r

mutual
/-- `jsonEscape` (data values; functions are not data) -/
def escape : R → J
  | .num n => .num n
  | .tuple as => .obj (lastWins (escapeAttrs as))
  | .charT i c => .obj [(kAt, .num i), (kChar, .num c)]
  | .byteT i b => .obj [(kAt, .num i), (kByte, .num b)]
  | .itemT i v => .obj [(kAt, .num i), (kItem, escape v)]
  | .entryT k v => .obj [(kAt, escape k), (kValue, escape v)]
  | .str _ cs => .str cs
  | .empty => .bool false
  | .arr _ xs => .obj [(kSet, .arr (escapeList xs))]
  | .tt => .bool true
  | .bytes o bs => .obj [(kSet, .arr (escapeBytes o bs))]
  | .dict es => .obj [(kSet, .arr (escapeEntries es))]
  | .gset xs => .obj [(kSet, .arr (escapeList xs))]
def escapeList : List R → List J
  | [] => []
  | x :: r => escape x :: escapeList r
def escapeAttrs : List (Key × R) → List (Key × J)
  | [] => []
  | (n, x) :: r => (n, escape x) :: escapeAttrs r
def escapeEntries : List (R × R) → List J
  | [] => []
  | (k, v) :: r => .obj [(kAt, escape k), (kValue, escape v)] :: escapeEntries r
end

def finish2 (i : R) (n : Key) (v : R) (as : List (Key × R)) : Out R :=
  if n = kChar then
    (match i, v with
     | .num i, .num c => .ok (.charT i c.toNat)
     | _, _ => .panic)
  else if n = kByte then
    (match i, v with
     | .num i, .num b => .ok (.byteT i b.toNat)
     | _, _ => .panic)
  else if n = kItem then
    (match i with
     | .num i => .ok (.itemT i v)
     | _ => .panic)
  else if n = kValue then .ok (.entryT i v)
  else .ok (.tuple as)

/-- `TupleBuilder.Finish`: a two-attribute tuple with `@` and one of `@char`/`@byte`/`@item`/`@value`
becomes the specialised tuple type (its `int(i.(Number))` assertions panic on a non-number) -/
def finishTuple (as : List (Key × R)) : Out R :=
  match as with
  | [(n1, v1), (n2, v2)] =>
    if n1 = kAt then finish2 v1 n2 v2 as
    else if n2 = kAt then finish2 v2 n1 v1 as
    else .ok (.tuple as)
  | _ => .ok (.tuple as)

def jIsArr : J → Bool
  | .arr _ => true
  | _ => false

/-- a JSON object with the single member `k: v`; `uv` = `jsonUnescape(v)` -/
def unescapeSingle (k : Key) (v : J) (uv : Out R) : Out R :=
  if k = kSet then
    (if jIsArr v then uv                              -- {"{||}": [...]}: NewArray(items...)
     else .err)                                      -- `x must be array in {"{||}": x}`
  else uv.bind (fun r => finishTuple [(k, r)])

mutual
/-- `jsonUnescape` (with the repair: `null` is an error, not a panic) -/
def unescape : J → Out R
  | .null => .err
  | .bool b => .ok (R.newBool b)
  | .num n => .ok (.num n)
  | .str cs => .ok (R.newString cs)
  | .arr xs => (unescapeList xs).map R.newArray
  | .obj [] => .ok (.tuple [])
  | .obj [(k, v)] => unescapeSingle k v (unescape v)
  | .obj (a :: b :: r) =>
    if kSet ∈ keys (a :: b :: r) then .err          -- `"{||}" is a reserved name`
    else (unescapeKvs (a :: b :: r)).bind (fun as => finishTuple (lastWins as))
def unescapeList : List J → Out (List R)
  | [] => .ok []
  | x :: r => consOut (unescape x) (unescapeList r)
def unescapeKvs : List (Key × J) → Out (List (Key × R))
  | [] => .ok []
  | (k, x) :: r => consOut ((unescape x).map (fun v => (k, v))) (unescapeKvs r)
end

/-- what an observer receives -/
def roundTrip (v : R) : Out R := unescape (escape v)

end Impl.Wire

namespace Spec
/-- a two-attribute tuple that rel would have built as a specialised tuple -/
def sugarShaped (as : List (Key × R)) : Bool :=
  match as with
  | [(n1, _), (n2, _)] =>
    (n1 = kAt && (n2 = kChar || n2 = kByte || n2 = kItem || n2 = kValue)) ||
    (n2 = kAt && (n1 = kChar || n1 = kByte || n1 = kItem || n1 = kValue))
  | _ => false

mutual
/-- the class on which the wire format is claimed faithful: every set inside the value is empty,
`true`, a string or an array (zero offset); attribute names distinct and not the reserved `{||}` -/
def wireOk : R → Bool
  | .num _ => true
  | .tuple as => nodupKeys (keys as) && !(keys as).contains kSet && !sugarShaped as && wireOkAttrs as
  | .charT _ _ => true
  | .byteT _ _ => true
  | .itemT _ v => wireOk v
  | .entryT k v => wireOk k && wireOk v
  | .empty => true
  | .tt => true
  | .str o cs => o = 0 && !cs.isEmpty
  | .arr o xs => o = 0 && !xs.isEmpty && wireOkList xs
  | .bytes .. => false
  | .dict _ => false
  | .gset _ => false
def wireOkList : List R → Bool
  | [] => true
  | x :: r => wireOk x && wireOkList r
def wireOkAttrs : List (Key × R) → Bool
  | [] => true
  | (_, x) :: r => wireOk x && wireOkAttrs r
end
end Spec

/-! ## //bits: syntax/std_bits.go on non-negative integers -/
namespace Impl.Bits

/-- `bits.TrailingZeros64` -/
def tz (v : Nat) : Nat :=
  if h : v = 0 then 64 else if v % 2 = 1 then 0 else 1 + tz (v / 2)
termination_by v
decreasing_by omega

theorem and_pred_lt (v : Nat) (h : v ≠ 0) : v &&& (v - 1) < v :=
  Nat.lt_of_le_of_lt Nat.and_le_right (by omega)

/-- `for v := int(n); v != 0; v &= v - 1 { b.Add(TrailingZeros64(v)) }` -/
def setLoop (v : Nat) : List Nat :=
  if h : v = 0 then [] else tz v :: setLoop (v &&& (v - 1))
termination_by v
decreasing_by exact and_pred_lt v h

/-- `//bits.set(n)` for an integer `n ≥ 0`: `float64(n) == float64(int(n))` holds below 2^63
(repaired: otherwise an error, formerly `panic("unimplemented")`) -/
def set (n : Nat) : Out (List Nat) := if n < 2 ^ 63 then .ok (setLoop n) else .err

/-- `//bits.mask(S)`: `total += math.Pow(2, n)` -/
def mask : List Nat → Nat
  | [] => 0
  | i :: r => 2 ^ i + mask r

end Impl.Bits

/-! ## //encoding.csv: syntax/std_encoding_csv.go over encoding/csv (default configuration:
Comma `sep` (',' by default; any valid delimiter), no comment character, no TrimLeadingSpace, no LazyQuotes, FieldsPerRecord 0, UseCRLF false).
Text is a list of code points (UTF-8 is transparent to every rule below). -/
namespace Impl.Csv

def isSpace (c : Nat) : Bool :=
  (9 ≤ c && c ≤ 13) || c = 32 || c = 0x85 || c = 0xA0 || c = 0x1680 || (0x2000 ≤ c && c ≤ 0x200A) ||
  c = 0x2028 || c = 0x2029 || c = 0x202F || c = 0x205F || c = 0x3000

/-- `(*Writer).fieldNeedsQuotes` -/
def needsQuotes (sep : Nat) (f : Key) : Bool :=
  if f.isEmpty then false
  else if f = [92, 46] then true
  else if f.any (fun c => c = 10 || c = 13 || c = 34 || c = sep) then true
  else isSpace (f.headD 0)

def escField : Key → Key
  | [] => []
  | c :: r => if c = 34 then 34 :: 34 :: escField r else c :: escField r

def writeField (sep : Nat) (f : Key) : Key := if needsQuotes sep f then 34 :: (escField f ++ [34]) else f

def writeFields (sep : Nat) : List Key → Key
  | [] => []
  | f :: r => sep :: (writeField sep f ++ writeFields sep r)

/-- `(*Writer).Write` -/
def writeRecord (sep : Nat) : List Key → Key
  | [] => [10]
  | f :: r => writeField sep f ++ writeFields sep r ++ [10]

/-- `(*Writer).WriteAll` -/
def writeAll (sep : Nat) : List (List Key) → Key
  | [] => []
  | r :: rs => writeRecord sep r ++ writeAll sep rs

inductive Mode
  | sor   -- at the start of a record (nothing read yet on this line)
  | sof   -- at the start of a field after a comma
  | unq   -- inside a non-quoted field
  | inq   -- inside a quoted field
  | qq    -- inside a quoted field, just after a quote
  | bad   -- a parse error has occurred
  deriving DecidableEq, Inhabited

/-- reader state; `cr`: a '\r' has been read whose meaning depends on the next character
(`readLine` turns "\r\n" into "\n" and drops a '\r' that ends the input) -/
structure St where
  mode : Mode
  cr : Bool
  field : Key                    -- current field, reversed
  row : List Key                 -- fields of the current record, reversed
  out : List (List Key)          -- finished records, reversed
  width : Option Nat             -- FieldsPerRecord once the first record has fixed it
  deriving Inhabited

def St.init : St := ⟨.sor, false, [], [], [], none⟩

def St.fail (s : St) : St := { s with mode := .bad }

/-- finish the current field -/
def St.endField (s : St) : St := { s with field := [], row := s.field.reverse :: s.row }

/-- finish the current record: `ErrFieldCount` unless it has the width of the first one -/
def St.endRecord (s : St) : St :=
  let r := s.row.reverse
  match s.width with
  | none => { s with mode := .sor, row := [], out := r :: s.out, width := some r.length }
  | some w =>
    if r.length = w then { s with mode := .sor, row := [], out := r :: s.out }
    else s.fail

/-- one character other than the '\r' of a "\r\n" pair -/
def feed (sep : Nat) (s : St) (c : Nat) : St :=
  match s.mode with
  | .bad => s
  | .sor =>
    if c = 10 then s                                       -- empty line: skipped
    else if c = 34 then { s with mode := .inq }
    else if c = sep then { s.endField with mode := .sof }
    else { s with mode := .unq, field := [c] }
  | .sof =>
    if c = 10 then s.endField.endRecord
    else if c = 34 then { s with mode := .inq }
    else if c = sep then { s.endField with mode := .sof }
    else { s with mode := .unq, field := [c] }
  | .unq =>
    if c = 10 then s.endField.endRecord
    else if c = 34 then s.fail                             -- ErrBareQuote
    else if c = sep then { s.endField with mode := .sof }
    else { s with field := c :: s.field }
  | .inq =>
    if c = 34 then { s with mode := .qq }
    else { s with field := c :: s.field }
  | .qq =>
    if c = 34 then { s with mode := .inq, field := 34 :: s.field }
    else if c = sep then { s.endField with mode := .sof }
    else if c = 10 then s.endField.endRecord
    else s.fail                                            -- ErrQuote

def step (sep : Nat) (s : St) (c : Nat) : St :=
  if s.cr then
    if c = 10 then feed sep { s with cr := false } 10          -- "\r\n" is "\n"
    else if c = 13 then { feed sep { s with cr := false } 13 with cr := true }
    else feed sep (feed sep { s with cr := false } 13) c
  else if c = 13 then { s with cr := true }
  else feed sep s c

/-- end of input: a pending '\r' is dropped; an open record is finished -/
def finish (s : St) : Out (List (List Key)) :=
  match s.mode with
  | .bad => .err
  | .inq => .err                                           -- ErrQuote: no closing quote
  | .sor => .ok s.out.reverse
  | .sof | .unq | .qq =>
    let s' := s.endField.endRecord
    if s'.mode = .bad then .err else .ok s'.out.reverse

/-- `csv.NewReader(text)` read to `io.EOF` -/
def parse (sep : Nat) (text : Key) : Out (List (List Key)) := finish (text.foldl (step sep) St.init)

/-- `rel.AsArray` then `Values()` -/
def asArray : R → Option (List R)
  | .empty => some []
  | .arr _ xs => some xs
  | _ => none

/-- `rel.AsString` -/
def asString : R → Option Key
  | .empty => some []
  | .str _ cs => some cs
  | _ => none

def fieldsOf : List R → Option (List Key)
  | [] => some []
  | f :: r =>
    match asString f, fieldsOf r with
    | some a, some b => some (a :: b)
    | _, _ => none

def rowsOf : List R → Option (List (List Key))
  | [] => some []
  | x :: r =>
    match asArray x with
    | some fs =>
      (match fieldsOf fs, rowsOf r with
       | some a, some b => some (a :: b)
       | _, _ => none)
    | none => none

/-- the matrix `csvEncodeFnBody` hands to the writer -/
def matrixOf (v : R) : Option (List (List Key)) :=
  match asArray v with
  | some rows => rowsOf rows
  | none => none

/-- `csvEncodeFnBody`: the text written -/
def encode (sep : Nat) (v : R) : Out Key :=
  match matrixOf v with
  | some m => .ok (writeAll sep m)
  | none => .err

/-- the value `csvDecodeFnBody` builds from the records -/
def matrixR (m : List (List Key)) : R :=
  R.newArray (m.map (fun r => R.newArray (r.map R.newString)))

/-- `csvDecodeFnBody` on the text of its argument (repaired: the empty input is accepted) -/
def decode (sep : Nat) (text : Key) : Out R := (parse sep text).map matrixR

/-- encode, then decode what was written -/
def roundTrip (sep : Nat) (v : R) : Out R := (encode sep v).bind (decode sep)

end Impl.Csv

namespace Spec
/-- every row has the length of the first (`FieldsPerRecord = 0`) -/
def rectangular : List (List Key) → Bool
  | [] => true
  | r :: rs => rs.all (fun r' => r'.length = r.length)

def hasCRLF : Key → Bool
  | 13 :: 10 :: _ => true
  | _ :: r => hasCRLF r
  | [] => false

/-- no field contains "\r\n" (the reader turns it into "\n") -/
def noCRLF (m : List (List Key)) : Bool := m.all (fun r => r.all (fun f => !hasCRLF f))

/-- no row is written as an empty line (which the reader skips): `[]` and `[""]` -/
def noBlankRow (m : List (List Key)) : Bool := m.all (fun r => !(r.isEmpty || r = [[]]))

def csvOk (m : List (List Key)) : Bool := rectangular m && noCRLF m && noBlankRow m
end Spec

end Arrai.C13
