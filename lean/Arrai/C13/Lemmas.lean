/-
  C13 helper lemmas (core Lean only).
-/
import Arrai.C13.Model

namespace Arrai.C13

/-! ## `lastWins`: Go map semantics -/
section LastWins
variable {α β : Type}

/-- map the values of an association list, keeping the keys -/
def mapVal (f : α → β) (l : List (Key × α)) : List (Key × β) := l.map (fun p => (p.1, f p.2))

@[simp] theorem mapVal_nil (f : α → β) : mapVal f [] = [] := rfl
@[simp] theorem mapVal_cons (f : α → β) (k : Key) (v : α) (l : List (Key × α)) :
    mapVal f ((k, v) :: l) = (k, f v) :: mapVal f l := rfl

@[simp] theorem keys_nil : keys ([] : List (Key × α)) = [] := rfl
@[simp] theorem keys_cons (k : Key) (v : α) (l : List (Key × α)) : keys ((k, v) :: l) = k :: keys l := rfl

@[simp] theorem keys_mapVal (f : α → β) (l : List (Key × α)) : keys (mapVal f l) = keys l := by
  induction l with
  | nil => rfl
  | cons p r ih => obtain ⟨k, v⟩ := p; simp [ih]

theorem lastWins_mapVal (f : α → β) (l : List (Key × α)) : lastWins (mapVal f l) = mapVal f (lastWins l) := by
  induction l with
  | nil => rfl
  | cons p r ih =>
    obtain ⟨k, v⟩ := p
    simp only [mapVal_cons, lastWins, keys_mapVal]
    split <;> simp [ih]

theorem mem_lastWins {p : Key × α} {l : List (Key × α)} (h : p ∈ lastWins l) : p ∈ l := by
  induction l with
  | nil => simp [lastWins] at h
  | cons q r ih =>
    obtain ⟨k, v⟩ := q
    simp only [lastWins] at h
    split at h
    · exact List.mem_cons_of_mem _ (ih h)
    · rcases List.mem_cons.1 h with h | h
      · exact h ▸ List.mem_cons_self
      · exact List.mem_cons_of_mem _ (ih h)

theorem mem_keys_lastWins {k : Key} {l : List (Key × α)} : k ∈ keys (lastWins l) ↔ k ∈ keys l := by
  induction l with
  | nil => simp [lastWins]
  | cons q r ih =>
    obtain ⟨k', v⟩ := q
    simp only [lastWins]
    split
    · rename_i hk
      rw [ih]; simp only [keys_cons, List.mem_cons]
      constructor
      · exact Or.inr
      · rintro (rfl | h)
        · exact hk
        · exact h
    · simp [ih]

theorem nodup_keys_lastWins (l : List (Key × α)) : (keys (lastWins l)).Nodup := by
  induction l with
  | nil => simp [lastWins]
  | cons q r ih =>
    obtain ⟨k, v⟩ := q
    simp only [lastWins]
    split
    · exact ih
    · rename_i hk
      simp only [keys_cons, List.nodup_cons]
      exact ⟨fun h => hk (mem_keys_lastWins.1 h), ih⟩

theorem lastWins_of_nodup {l : List (Key × α)} (h : (keys l).Nodup) : lastWins l = l := by
  induction l with
  | nil => rfl
  | cons q r ih =>
    obtain ⟨k, v⟩ := q
    simp only [keys_cons, List.nodup_cons] at h
    simp [lastWins, h.1, ih h.2]

theorem lastWins_idem (l : List (Key × α)) : lastWins (lastWins l) = lastWins l :=
  lastWins_of_nodup (nodup_keys_lastWins l)

theorem lastWins_eq_nil {l : List (Key × α)} : lastWins l = [] ↔ l = [] := by
  induction l with
  | nil => simp [lastWins]
  | cons q r ih =>
    obtain ⟨k, v⟩ := q
    simp only [lastWins]
    split
    · rename_i hk
      simp only [ih, reduceCtorEq, iff_false]
      intro h; subst h; simp at hk
    · simp

theorem mapVal_eq_nil {f : α → β} {l : List (Key × α)} : mapVal f l = [] ↔ l = [] := by
  cases l <;> simp [mapVal]

theorem mapVal_mapVal {γ : Type} (f : α → β) (g : β → γ) (l : List (Key × α)) :
    mapVal g (mapVal f l) = mapVal (fun a => g (f a)) l := by
  simp [mapVal]

theorem mapVal_congr {f g : α → β} {l : List (Key × α)} (h : ∀ p ∈ l, f p.2 = g p.2) :
    mapVal f l = mapVal g l := by
  apply List.map_congr_left
  intro p hp; rw [h p hp]

end LastWins

/-! ## the helpers of the mutual blocks are maps -/

theorem toArraiList_eq (s : Bool) (xs : List J) : Impl.toArraiList s xs = xs.map (Impl.toArrai s) := by
  induction xs with
  | nil => rfl
  | cons x r ih => simp [Impl.toArraiList, ih]

theorem toArraiKvs_eq (s : Bool) (kvs : List (Key × J)) :
    Impl.toArraiKvs s kvs = mapVal (Impl.toArrai s) kvs := by
  induction kvs with
  | nil => rfl
  | cons p r ih => obtain ⟨k, v⟩ := p; simp [Impl.toArraiKvs, ih]

theorem normList_eq (xs : List J) : J.normList xs = xs.map J.norm := by
  induction xs with
  | nil => rfl
  | cons x r ih => simp [J.normList, ih]

theorem normKvs_eq (kvs : List (Key × J)) : J.normKvs kvs = mapVal J.norm kvs := by
  induction kvs with
  | nil => rfl
  | cons p r ih => obtain ⟨k, v⟩ := p; simp [J.normKvs, ih]

theorem nsNormList_eq (xs : List J) : J.nsNormList xs = xs.map J.nsNorm := by
  induction xs with
  | nil => rfl
  | cons x r ih => simp [J.nsNormList, ih]

theorem nsNormKvs_eq (kvs : List (Key × J)) : J.nsNormKvs kvs = mapVal J.nsNorm kvs := by
  induction kvs with
  | nil => rfl
  | cons p r ih => obtain ⟨k, v⟩ := p; simp [J.nsNormKvs, ih]

/-! ## encoding a decoded list / object -/

@[simp] theorem Out.map_ok {α β : Type} (f : α → β) (a : α) : (Out.ok a).map f = .ok (f a) := rfl
@[simp] theorem Out.bind_ok {α β : Type} (f : α → Out β) (a : α) : (Out.ok a).bind f = f a := rfl

@[simp] theorem consOut_ok {α : Type} (a : α) (t : Out (List α)) :
    Impl.consOut (.ok a) t = t.map (a :: ·) := rfl

theorem fromList_map_ok (s : Bool) (f : J → R) (g : J → J) (xs : List J)
    (h : ∀ x ∈ xs, Impl.fromArrai s (f x) = .ok (g x)) :
    Impl.fromList s (xs.map f) = .ok (xs.map g) := by
  induction xs with
  | nil => rfl
  | cons x r ih =>
    have hx := h x List.mem_cons_self
    have hr := ih (fun y hy => h y (List.mem_cons_of_mem _ hy))
    simp [Impl.fromList, hx, hr]

/-- `objFromArraiDict` over the entries `objToArrai` builds -/
theorem fromEntries_entries_ok (s : Bool) (f : J → R) (g : J → J) (l : List (Key × J))
    (h : ∀ p ∈ l, Impl.fromArrai s (f p.2) = .ok (g p.2)) :
    Impl.fromEntries s (entries (mapVal f l)) = .ok (mapVal g l) := by
  induction l with
  | nil => rfl
  | cons p r ih =>
    obtain ⟨k, v⟩ := p
    have hv : Impl.fromArrai s (f v) = .ok (g v) := h (k, v) List.mem_cons_self
    have hr := ih (fun y hy => h y (List.mem_cons_of_mem _ hy))
    have e : entries (mapVal f ((k, v) :: r)) = (R.newString k, f v) :: entries (mapVal f r) := rfl
    rw [e, mapVal_cons]
    cases k with
    | nil => simp [Impl.fromEntries, Impl.entryStep, Impl.keyData, R.newString, hv, hr]
    | cons c cs => simp [Impl.fromEntries, Impl.entryStep, Impl.keyData, R.newString, Impl.fromArrai, hv, hr]

theorem entries_eq_nil {l : List (Key × R)} : entries l = [] ↔ l = [] := by
  cases l <;> simp [entries]

theorem newDict_entries_ne {l : List (Key × R)} (h : l ≠ []) : R.newDict (entries l) = .dict (entries l) := by
  have : entries l ≠ [] := by simpa [entries_eq_nil] using h
  simp [R.newDict, this]

open Impl in
mutual
/-- strict decode then encode returns the document with duplicate keys resolved -/
theorem rt_strict (j : J) : fromArrai true (toArrai true j) = .ok j.norm := by
  cases j with
  | null => rfl
  | bool b => cases b <;> rfl
  | num n => rfl
  | str cs => cases cs <;> rfl
  | arr xs =>
    have h := rt_strict_list xs
    simp only [toArrai, toArraiList_eq, if_true, J.norm, normList_eq]
    cases xs with
    | nil => rfl
    | cons x r =>
      have := fromList_map_ok true (toArrai true) J.norm (x :: r) h
      simp only [List.map_cons] at this
      simp [R.newArray, fromArrai, strictTagged, kA, R.isSet, arrFromArrai, this]
  | obj kvs =>
    have h := rt_strict_kvs kvs
    simp only [toArrai, toArraiKvs_eq, J.norm, normKvs_eq, lastWins_mapVal]
    have h' : ∀ p ∈ lastWins kvs, fromArrai true (toArrai true p.2) = .ok p.2.norm :=
      fun p hp => h p (mem_lastWins hp)
    have e := fromEntries_entries_ok true (toArrai true) J.norm (lastWins kvs) h'
    by_cases hn : lastWins kvs = []
    · simp [hn, entries, R.newDict, fromArrai]
    · rw [newDict_entries_ne (by simpa [mapVal_eq_nil] using hn)]
      simp only [fromArrai, e, Out.map_ok]
      rw [← lastWins_mapVal, lastWins_idem]
theorem rt_strict_list (xs : List J) : ∀ x ∈ xs, fromArrai true (toArrai true x) = .ok x.norm := by
  cases xs with
  | nil => simp
  | cons x r =>
    intro y hy
    rcases List.mem_cons.1 hy with e | hy
    · rw [e]; exact rt_strict x
    · exact rt_strict_list r y hy
theorem rt_strict_kvs (kvs : List (Key × J)) :
    ∀ p ∈ kvs, fromArrai true (toArrai true p.2) = .ok p.2.norm := by
  cases kvs with
  | nil => simp
  | cons q r =>
    obtain ⟨k, v⟩ := q
    intro y hy
    rcases List.mem_cons.1 hy with e | hy
    · rw [e]; exact rt_strict v
    · exact rt_strict_kvs r y hy
end

open Impl in
mutual
/-- non-strict decode then encode: `false`, `""`, `[]`, `{}` come back as `null` -/
theorem rt_nonstrict (j : J) : fromArrai false (toArrai false j) = .ok j.nsNorm := by
  cases j with
  | null => rfl
  | bool b => cases b <;> rfl
  | num n => rfl
  | str cs => cases cs <;> rfl
  | arr xs =>
    have h := rt_nonstrict_list xs
    simp only [toArrai, toArraiList_eq, J.nsNorm, nsNormList_eq]
    cases xs with
    | nil => rfl
    | cons x r =>
      have := fromList_map_ok false (toArrai false) J.nsNorm (x :: r) h
      simp only [List.map_cons] at this
      simp [R.newArray, fromArrai, this]
  | obj kvs =>
    have h := rt_nonstrict_kvs kvs
    simp only [toArrai, toArraiKvs_eq, J.nsNorm, nsNormKvs_eq, lastWins_mapVal]
    have h' : ∀ p ∈ lastWins kvs, fromArrai false (toArrai false p.2) = .ok p.2.nsNorm :=
      fun p hp => h p (mem_lastWins hp)
    have e := fromEntries_entries_ok false (toArrai false) J.nsNorm (lastWins kvs) h'
    by_cases hn : kvs = []
    · subst hn; rfl
    · have hl : lastWins kvs ≠ [] := by simpa [lastWins_eq_nil] using hn
      rw [newDict_entries_ne (by simpa [mapVal_eq_nil] using hl)]
      have he : kvs.isEmpty = false := by cases kvs <;> simp_all
      simp only [fromArrai, e, Out.map_ok, he]
      rw [← lastWins_mapVal, lastWins_idem]
      rfl
theorem rt_nonstrict_list (xs : List J) : ∀ x ∈ xs, fromArrai false (toArrai false x) = .ok x.nsNorm := by
  cases xs with
  | nil => simp
  | cons x r =>
    intro y hy
    rcases List.mem_cons.1 hy with e | hy
    · rw [e]; exact rt_nonstrict x
    · exact rt_nonstrict_list r y hy
theorem rt_nonstrict_kvs (kvs : List (Key × J)) :
    ∀ p ∈ kvs, fromArrai false (toArrai false p.2) = .ok p.2.nsNorm := by
  cases kvs with
  | nil => simp
  | cons q r =>
    obtain ⟨k, v⟩ := q
    intro y hy
    rcases List.mem_cons.1 hy with e | hy
    · rw [e]; exact rt_nonstrict v
    · exact rt_nonstrict_kvs r y hy
end

open Impl in
mutual
/-- decoding does not see how duplicate keys were resolved: `norm` is invisible to `toArrai` -/
theorem toArrai_norm (s : Bool) (j : J) : toArrai s j.norm = toArrai s j := by
  cases j with
  | null => rfl
  | bool b => rfl
  | num n => rfl
  | str cs => rfl
  | arr xs =>
    have h := toArrai_norm_list s xs
    have : (xs.map J.norm).map (toArrai s) = xs.map (toArrai s) := by
      rw [List.map_map]; exact List.map_congr_left h
    simp only [J.norm, toArrai, toArraiList_eq, normList_eq, this]
  | obj kvs =>
    have h := toArrai_norm_kvs s kvs
    have : mapVal (toArrai s) (mapVal J.norm kvs) = mapVal (toArrai s) kvs := by
      rw [mapVal_mapVal]; exact mapVal_congr h
    simp only [J.norm, toArrai, toArraiKvs_eq, normKvs_eq]
    rw [lastWins_mapVal, lastWins_idem, ← lastWins_mapVal, this]
theorem toArrai_norm_list (s : Bool) (xs : List J) : ∀ x ∈ xs, toArrai s x.norm = toArrai s x := by
  cases xs with
  | nil => simp
  | cons x r =>
    intro y hy
    rcases List.mem_cons.1 hy with e | hy
    · rw [e]; exact toArrai_norm s x
    · exact toArrai_norm_list s r y hy
theorem toArrai_norm_kvs (s : Bool) (kvs : List (Key × J)) :
    ∀ p ∈ kvs, toArrai s p.2.norm = toArrai s p.2 := by
  cases kvs with
  | nil => simp
  | cons q r =>
    obtain ⟨k, v⟩ := q
    intro y hy
    rcases List.mem_cons.1 hy with e | hy
    · rw [e]; exact toArrai_norm s v
    · exact toArrai_norm_kvs s r y hy
end

mutual
/-- without `false`, `""`, `[]`, `{}` the non-strict cycle loses nothing -/
theorem nsNorm_eq_norm (j : J) (h : j.hasEmptyish = false) : j.nsNorm = j.norm := by
  cases j with
  | null => rfl
  | bool b => cases b <;> simp_all [J.hasEmptyish, J.nsNorm, J.norm]
  | num n => rfl
  | str cs => cases cs <;> simp_all [J.hasEmptyish, J.nsNorm, J.norm]
  | arr xs =>
    simp only [J.hasEmptyish, Bool.or_eq_false_iff] at h
    have := nsNorm_eq_norm_list xs h.2
    simp only [J.nsNorm, J.norm, h.1, nsNormList_eq, normList_eq]
    simp [List.map_congr_left this]
  | obj kvs =>
    simp only [J.hasEmptyish, Bool.or_eq_false_iff] at h
    have := nsNorm_eq_norm_kvs kvs h.2
    simp only [J.nsNorm, J.norm, h.1, nsNormKvs_eq, normKvs_eq]
    simp [mapVal_congr this]
theorem nsNorm_eq_norm_list (xs : List J) (h : J.hasEmptyishList xs = false) :
    ∀ x ∈ xs, x.nsNorm = x.norm := by
  cases xs with
  | nil => simp
  | cons x r =>
    simp only [J.hasEmptyishList, Bool.or_eq_false_iff] at h
    intro y hy
    rcases List.mem_cons.1 hy with e | hy
    · rw [e]; exact nsNorm_eq_norm x h.1
    · exact nsNorm_eq_norm_list r h.2 y hy
theorem nsNorm_eq_norm_kvs (kvs : List (Key × J)) (h : J.hasEmptyishKvs kvs = false) :
    ∀ p ∈ kvs, p.2.nsNorm = p.2.norm := by
  cases kvs with
  | nil => simp
  | cons q r =>
    obtain ⟨k, v⟩ := q
    simp only [J.hasEmptyishKvs, Bool.or_eq_false_iff] at h
    intro y hy
    rcases List.mem_cons.1 hy with e | hy
    · rw [e]; exact nsNorm_eq_norm v h.1
    · exact nsNorm_eq_norm_kvs r h.2 y hy
end

/-! ## strict encoding is faithful on the class `strictOk` -/
section Rejects
open Impl Spec

theorem Out.map_eq_ok {α β : Type} {x : Out α} {f : α → β} {b : β} :
    x.map f = .ok b ↔ ∃ a, x = .ok a ∧ f a = b := by
  cases x <;> simp [Out.map]

theorem tagList_eq (xs : List R) : tagList xs = xs.map tag := by
  induction xs with
  | nil => rfl
  | cons x r ih => simp [tagList, ih]

theorem nodupKeys_iff (ks : List Key) : nodupKeys ks = true ↔ ks.Nodup := by
  induction ks with
  | nil => simp [nodupKeys, nodupKeyList]
  | cons k r ih =>
    simp only [nodupKeys] at ih
    simp [nodupKeys, nodupKeyList, ih]

theorem tagEntries_eq_nil {es : List (R × R)} : tagEntries es = [] ↔ es = [] := by
  cases es with
  | nil => simp [tagEntries]
  | cons p r => obtain ⟨k, v⟩ := p; simp [tagEntries]

theorem entryKey_some {k : R} {a : Key} (h : entryKey k = some a) :
    keyData k (fromArrai true k) = .ok (.str a) ∧ R.newString a = k := by
  cases k with
  | empty => simp [entryKey] at h; subst h; exact ⟨rfl, rfl⟩
  | str o cs =>
    simp only [entryKey] at h
    split at h
    · rename_i hc
      simp only [Option.some.injEq] at h; subst h
      obtain ⟨ho, hne⟩ := hc
      subst ho
      have : cs.isEmpty = false := by simpa using hne
      simp [keyData, fromArrai, R.newString, this]
    · simp at h
  | _ => simp [entryKey] at h

theorem entryStep_ok_iff {k : R} {kd vd : Out J} {rest : Out (List (Key × J))} {a : Key} {l : List (Key × J)}
    (hk : keyData k kd = .ok (.str a)) :
    entryStep k kd vd rest = .ok l ↔ ∃ vj l', vd = .ok vj ∧ rest = .ok l' ∧ l = (a, vj) :: l' := by
  unfold entryStep
  rw [hk]
  cases vd <;> cases rest <;> simp [Out.map, eq_comm]

mutual
theorem rejects (v : R) (hv : strictOk v = true) (j : J) (h : fromArrai true v = .ok j) :
    toArrai true j = tag v := by
  cases v with
  | num n => simp [fromArrai] at h; subst h; rfl
  | tuple as =>
    match as, hv, h with
    | [], _, h => simp [fromArrai] at h; subst h; rfl
    | [(n, x)], hv, h =>
      simp only [fromArrai, if_true, strictTagged] at h
      simp only [strictOk, strictOkTagged] at hv
      by_cases hA : n = kA
      · subst hA
        simp only [if_true] at h hv
        cases x with
        | empty => simp [R.isSet, arrFromArrai] at h; subst h; rfl
        | arr o xs =>
          simp only [R.isSet, if_true, arrFromArrai, Out.map_eq_ok] at h
          obtain ⟨js, hjs, rfl⟩ := h
          simp only [strictOk, Bool.and_eq_true, decide_eq_true_eq, Bool.not_eq_true'] at hv
          obtain ⟨⟨ho, hne⟩, hxs⟩ := hv
          subst ho
          have := rejects_list xs hxs js hjs
          have hne' : (tagList xs).isEmpty = false := by cases xs <;> simp_all [tagList]
          simp [toArrai, this, R.newArray, hne', tag, isArr, kA]
        | _ => simp_all [R.isSet, arrFromArrai]
      · simp only [hA, if_false] at h hv
        by_cases hS : n = kS
        · subst hS
          simp only [if_true] at h hv
          cases x with
          | empty => simp [strictS] at h; subst h; simp [toArrai, R.newString, tag, kS, kA]
          | str o cs =>
            simp only [strictS, Out.ok.injEq] at h; subst h
            simp only [strictOk, Bool.and_eq_true, decide_eq_true_eq, Bool.not_eq_true'] at hv
            obtain ⟨ho, hne⟩ := hv
            subst ho
            simp [toArrai, R.newString, hne, tag, kS, kA]
          | _ => simp [strictS] at h
        · simp only [hS, if_false] at h hv
          by_cases hB : n = kB
          · subst hB
            simp only [if_true] at h hv
            cases x with
            | empty => simp [strictB] at h; subst h; simp [toArrai, R.newBool, tag, kB, kA]
            | tt => simp [strictB] at h; subst h; simp [toArrai, R.newBool, tag, kB, kA]
            | gset xs => simp at hv
            | _ => simp [strictB] at h
          · simp [hB] at h
    | a :: b :: r, _, h => simp [fromArrai] at h
  | charT i c => simp [fromArrai] at h
  | byteT i b => simp [fromArrai] at h
  | itemT i v => simp [fromArrai] at h
  | entryT k v => simp [fromArrai] at h
  | empty => simp [fromArrai] at h; subst h; rfl
  | tt => simp [strictOk] at hv
  | bytes o bs => simp [strictOk] at hv
  | gset xs => simp [strictOk] at hv
  | str o cs =>
    simp only [fromArrai, Out.ok.injEq] at h; subst h
    simp only [strictOk, Bool.and_eq_true, decide_eq_true_eq, Bool.not_eq_true'] at hv
    obtain ⟨ho, hne⟩ := hv
    subst ho
    simp [toArrai, R.newString, hne, tag]
  | arr o xs =>
    simp only [fromArrai, Out.map_eq_ok] at h
    obtain ⟨js, hjs, rfl⟩ := h
    simp only [strictOk, Bool.and_eq_true, decide_eq_true_eq, Bool.not_eq_true'] at hv
    obtain ⟨⟨ho, hne⟩, hxs⟩ := hv
    subst ho
    have := rejects_list xs hxs js hjs
    have hne' : (tagList xs).isEmpty = false := by cases xs <;> simp_all [tagList]
    simp [toArrai, this, R.newArray, hne', tag]
  | dict es =>
    simp only [fromArrai, Out.map_eq_ok] at h
    obtain ⟨l, hl, rfl⟩ := h
    simp only [strictOk, Bool.and_eq_true, Bool.not_eq_true'] at hv
    obtain ⟨⟨hne, hes⟩, hk⟩ := hv
    cases hks : entryKeys es with
    | none => simp [hks] at hk
    | some ks =>
      simp only [hks] at hk
      obtain ⟨h1, h2⟩ := rejects_entries es hes ks hks l hl
      have hnd : (keys l).Nodup := by rw [h2]; exact (nodupKeys_iff ks).1 hk
      have hne' : tagEntries es ≠ [] := by
        intro e; rw [tagEntries_eq_nil] at e; subst e; simp at hne
      simp only [toArrai, toArraiKvs_eq, lastWins_of_nodup hnd, lastWins_mapVal, h1, tag]
      simp [R.newDict, hne']
theorem rejects_list (xs : List R) (hv : strictOkList xs = true) (js : List J)
    (h : fromList true xs = .ok js) : toArraiList true js = tagList xs := by
  cases xs with
  | nil => simp [fromList] at h; subst h; rfl
  | cons x r =>
    simp only [strictOkList, Bool.and_eq_true] at hv
    simp only [fromList] at h
    cases hx : fromArrai true x with
    | ok j =>
      simp only [hx, consOut_ok, Out.map_eq_ok] at h
      obtain ⟨js', hjs, rfl⟩ := h
      simp [toArraiList, tagList, rejects x hv.1 j hx, rejects_list r hv.2 js' hjs]
    | err => simp [hx, consOut] at h
    | panic => simp [hx, consOut] at h
theorem rejects_entries (es : List (R × R)) (hv : strictOkEntries es = true) (ks : List Key)
    (hk : entryKeys es = some ks) (l : List (Key × J)) (h : fromEntries true es = .ok l) :
    entries (mapVal (toArrai true) l) = tagEntries es ∧ keys l = ks := by
  cases es with
  | nil =>
    simp [fromEntries] at h; subst h
    simp [entryKeys] at hk; subst hk
    exact ⟨rfl, rfl⟩
  | cons p r =>
    obtain ⟨k, v⟩ := p
    simp only [strictOkEntries, Bool.and_eq_true] at hv
    simp only [fromEntries] at h
    simp only [entryKeys] at hk
    cases hkk : entryKey k with
    | none => simp [hkk] at hk
    | some a =>
      cases hkr : entryKeys r with
      | none => simp [hkk, hkr] at hk
      | some b =>
        simp only [hkk, hkr, Option.some.injEq] at hk
        subst hk
        obtain ⟨hkd, hns⟩ := entryKey_some hkk
        obtain ⟨vj, l', hvd, hr, rfl⟩ := (entryStep_ok_iff hkd).1 h
        obtain ⟨i1, i2⟩ := rejects_entries r hv.2 b hkr l' hr
        have iv := rejects v hv.1 vj hvd
        have e : entries (mapVal (toArrai true) ((a, vj) :: l'))
            = (R.newString a, toArrai true vj) :: entries (mapVal (toArrai true) l') := rfl
        rw [e, hns, iv, i1]
        exact ⟨rfl, by simp [i2]⟩
end
end Rejects

/-! ## the wire format is faithful on the class `wireOk` -/
section WireRt
open Impl Impl.Wire Spec

theorem keys_escapeAttrs (as : List (Key × R)) : keys (escapeAttrs as) = keys as := by
  induction as with
  | nil => rfl
  | cons p r ih => obtain ⟨k, v⟩ := p; simp [escapeAttrs, ih]

theorem finishTuple_of_not_sugar {as : List (Key × R)} (h : sugarShaped as = false) :
    finishTuple as = .ok (.tuple as) := by
  unfold finishTuple
  split
  · rename_i n1 v1 n2 v2
    simp only [sugarShaped, Bool.or_eq_false_iff, Bool.and_eq_false_iff, decide_eq_false_iff_not,
      Bool.or_eq_false_iff] at h
    by_cases h1 : n1 = kAt
    · simp only [h1, if_true, finish2]
      have := h.1
      simp only [h1, not_true_eq_false, false_or] at this
      simp [this.1.1.1, this.1.1.2, this.1.2, this.2]
    · by_cases h2 : n2 = kAt
      · simp only [h1, h2, if_true, if_false, finish2]
        have := h.2
        simp only [h2, not_true_eq_false, false_or] at this
        simp [this.1.1.1, this.1.1.2, this.1.2, this.2]
      · simp [h1, h2]
  · rfl

mutual
theorem wire_rt (v : R) (h : wireOk v = true) : unescape (escape v) = .ok v := by
  cases v with
  | num n => rfl
  | tuple as =>
    simp only [wireOk, Bool.and_eq_true, Bool.not_eq_true'] at h
    obtain ⟨⟨⟨hnd, hres⟩, hsug⟩, has⟩ := h
    have hnd' : (keys (escapeAttrs as)).Nodup := by
      rw [keys_escapeAttrs]; exact (nodupKeys_iff _).1 hnd
    have ih := wire_rt_attrs as has
    simp only [escape, lastWins_of_nodup hnd']
    match as, hnd, hres, hsug, has, ih with
    | [], _, _, _, _, _ => rfl
    | [(k, x)], _, hres, _, _, ih =>
      have hk : k ≠ kSet := by
        intro e; subst e; simp [keys] at hres
      simp only [escapeAttrs, unescapeKvs, consOut] at ih
      cases hx : unescape (escape x) with
      | ok x' =>
        simp only [hx, Out.map_ok, Out.ok.injEq, List.cons.injEq, Prod.mk.injEq, and_true, true_and] at ih
        subst ih
        simp [escapeAttrs, unescape, unescapeSingle, hk, hx, finishTuple]
      | err => simp [hx, Out.map] at ih
      | panic => simp [hx, Out.map] at ih
    | a :: b :: r, hnd, hres, hsug, _, ih =>
      obtain ⟨ka, xa⟩ := a
      obtain ⟨kb, xb⟩ := b
      have hres' : kSet ∉ keys (escapeAttrs ((ka, xa) :: (kb, xb) :: r)) := by
        rw [keys_escapeAttrs]; simpa using hres
      have hnd2 : (keys ((ka, xa) :: (kb, xb) :: r)).Nodup := (nodupKeys_iff _).1 hnd
      simp only [escapeAttrs] at hres' ih ⊢
      simp only [unescape, hres', if_false, ih, Out.bind_ok, lastWins_of_nodup hnd2]
      exact finishTuple_of_not_sugar hsug
  | charT i c => simp [escape, unescape, keys, kSet, kAt, kChar, unescapeKvs, consOut, Out.map, Out.bind, lastWins,
      finishTuple, finish2]
  | byteT i b => simp [escape, unescape, keys, kSet, kAt, kChar, kByte, unescapeKvs, consOut, Out.map, Out.bind,
      lastWins, finishTuple, finish2]
  | itemT i x =>
    simp only [wireOk] at h
    have := wire_rt x h
    simp [escape, unescape, keys, kSet, kAt, kChar, kByte, kItem, unescapeKvs, consOut, Out.map, Out.bind, lastWins,
      finishTuple, finish2, this]
  | entryT k x =>
    simp only [wireOk, Bool.and_eq_true] at h
    have h1 := wire_rt k h.1
    have h2 := wire_rt x h.2
    simp [escape, unescape, keys, kSet, kAt, kChar, kByte, kItem, kValue, unescapeKvs, consOut, Out.map, Out.bind,
      lastWins, finishTuple, finish2, h1, h2]
  | empty => rfl
  | tt => rfl
  | str o cs =>
    simp only [wireOk, Bool.and_eq_true, decide_eq_true_eq, Bool.not_eq_true'] at h
    obtain ⟨ho, hne⟩ := h
    subst ho
    simp [escape, unescape, R.newString, hne]
  | arr o xs =>
    simp only [wireOk, Bool.and_eq_true, decide_eq_true_eq, Bool.not_eq_true'] at h
    obtain ⟨⟨ho, hne⟩, hxs⟩ := h
    subst ho
    have := wire_rt_list xs hxs
    simp [escape, unescape, unescapeSingle, jIsArr, this, R.newArray, hne]
  | bytes o bs => simp [wireOk] at h
  | dict es => simp [wireOk] at h
  | gset xs => simp [wireOk] at h
theorem wire_rt_list (xs : List R) (h : wireOkList xs = true) : unescapeList (escapeList xs) = .ok xs := by
  cases xs with
  | nil => rfl
  | cons x r =>
    simp only [wireOkList, Bool.and_eq_true] at h
    simp [escapeList, unescapeList, wire_rt x h.1, wire_rt_list r h.2]
theorem wire_rt_attrs (as : List (Key × R)) (h : wireOkAttrs as = true) :
    unescapeKvs (escapeAttrs as) = .ok as := by
  cases as with
  | nil => rfl
  | cons p r =>
    obtain ⟨k, x⟩ := p
    simp only [wireOkAttrs, Bool.and_eq_true] at h
    simp [escapeAttrs, unescapeKvs, wire_rt x h.1, wire_rt_attrs r h.2]
end
end WireRt

/-! ## //bits -/
namespace Impl.Bits

theorem tz_odd {v : Nat} (h : v % 2 = 1) : tz v = 0 := by
  rw [tz]; have : v ≠ 0 := by omega
  simp [this, h]

theorem tz_even {v : Nat} (h0 : v ≠ 0) (h : v % 2 = 0) : tz v = 1 + tz (v / 2) := by
  rw [tz]; simp [h0, h]

theorem pow_tz_le (v : Nat) (h : v ≠ 0) : 2 ^ tz v ≤ v := by
  induction v using Nat.strongRecOn with
  | _ v ih =>
    by_cases ho : v % 2 = 1
    · rw [tz_odd ho]; omega
    · have he : v % 2 = 0 := by omega
      rw [tz_even h he, Nat.pow_add]
      have := ih (v / 2) (by omega) (by omega)
      omega

/-- `v & (v - 1)` clears the lowest set bit -/
theorem and_pred (v : Nat) (h : v ≠ 0) : v &&& (v - 1) = v - 2 ^ tz v := by
  induction v using Nat.strongRecOn with
  | _ v ih =>
    apply Nat.eq_of_testBit_eq
    intro i
    rw [Nat.testBit_and]
    by_cases ho : v % 2 = 1
    · rw [tz_odd ho]
      cases i with
      | zero =>
        have : (v - 1) % 2 = 0 := by omega
        simp [Nat.testBit_zero, ho, this]
      | succ i =>
        have : (v - 1) / 2 = v / 2 := by omega
        simp [Nat.testBit_succ, this]
    · have he : v % 2 = 0 := by omega
      have hw : v / 2 ≠ 0 := by omega
      have ihw := ih (v / 2) (by omega) hw
      have e : v - 2 ^ tz v = 2 * (v / 2 - 2 ^ tz (v / 2)) := by
        rw [tz_even h he, Nat.pow_add]; omega
      rw [e]
      cases i with
      | zero => simp [Nat.testBit_zero, he]
      | succ i =>
        have h1 : (v - 1) / 2 = v / 2 - 1 := by omega
        have h2 : 2 * (v / 2 - 2 ^ tz (v / 2)) / 2 = v / 2 - 2 ^ tz (v / 2) := by omega
        rw [Nat.testBit_succ, Nat.testBit_succ, Nat.testBit_succ, h1, h2, ← ihw, Nat.testBit_and]

theorem mask_setLoop (v : Nat) : mask (setLoop v) = v := by
  induction v using Nat.strongRecOn with
  | _ v ih =>
    rw [setLoop]
    by_cases h : v = 0
    · simp [h, mask]
    · simp only [h, dite_false, mask]
      rw [ih _ (and_pred_lt v h), and_pred v h]
      have := pow_tz_le v h
      omega

theorem dvd_mask {s : Nat} {r : List Nat} (h : ∀ x ∈ r, s < x) : 2 ^ (s + 1) ∣ mask r := by
  induction r with
  | nil => simp [mask]
  | cons x r ih =>
    simp only [mask]
    have hx : s + 1 ≤ x := h x List.mem_cons_self
    exact Nat.dvd_add (Nat.pow_dvd_pow 2 hx) (ih (fun y hy => h y (List.mem_cons_of_mem _ hy)))

theorem tz_pow_add (s m : Nat) : tz (2 ^ s + 2 ^ (s + 1) * m) = s := by
  induction s with
  | zero => apply tz_odd; omega
  | succ s ih =>
    have hp : 0 < 2 ^ s := Nat.pow_pos (by omega)
    have e : 2 ^ (s + 1) + 2 ^ (s + 1 + 1) * m = 2 * (2 ^ s + 2 ^ (s + 1) * m) := by
      rw [Nat.pow_succ 2 (s + 1), Nat.pow_succ 2 s]
      simp [Nat.mul_add, Nat.mul_comm, Nat.mul_left_comm]
    rw [e, tz_even (by omega) (by omega)]
    have : 2 * (2 ^ s + 2 ^ (s + 1) * m) / 2 = 2 ^ s + 2 ^ (s + 1) * m := by omega
    rw [this, ih]; omega

theorem setLoop_mask (S : List Nat) (h : S.Pairwise (· < ·)) : setLoop (mask S) = S := by
  induction S with
  | nil => rw [setLoop]; simp [mask]
  | cons s r ih =>
    rw [List.pairwise_cons] at h
    obtain ⟨m, hm⟩ := dvd_mask h.1
    have hp : 0 < 2 ^ s := Nat.pow_pos (by omega)
    have hne : mask (s :: r) ≠ 0 := by simp only [mask]; omega
    have htz : tz (mask (s :: r)) = s := by simp only [mask, hm]; exact tz_pow_add s m
    rw [setLoop]
    simp only [hne, dite_false, and_pred _ hne, htz]
    have : mask (s :: r) - 2 ^ s = mask r := by simp only [mask]; omega
    rw [this, ih h.2]

theorem mask_lt {S : List Nat} {b : Nat} (hs : S.Pairwise (· < ·)) (hb : ∀ x ∈ S, x < b) : mask S < 2 ^ b := by
  suffices h : ∀ S : List Nat, S.Pairwise (· < ·) → (∀ x ∈ S, x < b) →
      mask S + 2 ^ (S.headD b) ≤ 2 ^ b by
    have := h S hs hb
    have hp : 0 < 2 ^ (S.headD b) := Nat.pow_pos (by omega)
    omega
  intro S
  induction S with
  | nil => intro _ _; simp [mask]
  | cons s r ih =>
    intro hs hb
    rw [List.pairwise_cons] at hs
    have ihr := ih hs.2 (fun x hx => hb x (List.mem_cons_of_mem _ hx))
    simp only [mask, List.headD_cons]
    have hsb : s < b := hb s List.mem_cons_self
    cases r with
    | nil =>
      simp only [mask, Nat.add_zero]
      have : 2 ^ (s + 1) ≤ 2 ^ b := Nat.pow_le_pow_right (by omega) hsb
      rw [Nat.pow_succ] at this; omega
    | cons x r' =>
      simp only [List.headD_cons] at ihr
      have hsx : s < x := hs.1 x List.mem_cons_self
      have : 2 ^ (s + 1) ≤ 2 ^ x := Nat.pow_le_pow_right (by omega) hsx
      rw [Nat.pow_succ] at this; omega

end Impl.Bits

/-! ## //encoding.csv: the reader inverts the writer on the class `csvOk` -/
namespace Impl.Csv
open Spec

/-- the separator is a valid delimiter (`validDelim`: not a quote, CR or LF) -/
structure ValidSep (sep : Nat) : Prop where
  ne10 : sep ≠ 10
  ne13 : sep ≠ 13
  ne34 : sep ≠ 34

/-- a character that needs no quoting -/
def plain (sep c : Nat) : Prop := c ≠ 10 ∧ c ≠ 13 ∧ c ≠ 34 ∧ c ≠ sep

/-- state after a complete field, given its terminator -/
def afterField (sep : Nat) (row : List Key) (out : List (List Key)) (wd : Option Nat) (t : Nat) : St :=
  if t = sep then ⟨.sof, false, [], row, out, wd⟩ else St.endRecord ⟨.sof, false, [], row, out, wd⟩

theorem endRecord_mode (m1 m2 : Mode) (cr : Bool) (fld : Key) (row : List Key) (out : List (List Key))
    (wd : Option Nat) : St.endRecord ⟨m1, cr, fld, row, out, wd⟩ = St.endRecord ⟨m2, cr, fld, row, out, wd⟩ := by
  cases wd <;> simp [St.endRecord, St.fail]

theorem run_unq (sep : Nat) (g : Key) (hg : ∀ c ∈ g, plain sep c) (fld : Key) (row : List Key)
    (out : List (List Key)) (wd : Option Nat) :
    g.foldl (step sep) ⟨.unq, false, fld, row, out, wd⟩ = ⟨.unq, false, g.reverse ++ fld, row, out, wd⟩ := by
  induction g generalizing fld with
  | nil => rfl
  | cons c r ih =>
    obtain ⟨h10, h13, h34, h44⟩ := hg c List.mem_cons_self
    have hr := ih (fun d hd => hg d (List.mem_cons_of_mem _ hd)) (c :: fld)
    simp only [List.foldl_cons, step, feed, h10, h13, h34, h44, if_false, Bool.false_eq_true]
    rw [hr]; simp

theorem close_unq (sep : Nat) (hs : ValidSep sep) (fld : Key) (row : List Key) (out : List (List Key))
    (wd : Option Nat) (t : Nat) (ht : t = sep ∨ t = 10) :
    step sep ⟨.unq, false, fld, row, out, wd⟩ t = afterField sep (fld.reverse :: row) out wd t := by
  have h1 := hs.ne10; have h2 := hs.ne13; have h3 := hs.ne34
  rcases ht with rfl | rfl
  · simp [step, feed, afterField, St.endField, h1, h2, h3]
  · simp only [step, feed, afterField, St.endField]
    simp [Ne.symm h1]
    exact endRecord_mode _ _ _ _ _ _ _

theorem close_qq (sep : Nat) (hs : ValidSep sep) (fld : Key) (row : List Key) (out : List (List Key))
    (wd : Option Nat) (t : Nat) (ht : t = sep ∨ t = 10) :
    step sep ⟨.qq, false, fld, row, out, wd⟩ t = afterField sep (fld.reverse :: row) out wd t := by
  have h1 := hs.ne10; have h2 := hs.ne13; have h3 := hs.ne34
  rcases ht with rfl | rfl
  · simp [step, feed, afterField, St.endField, h1, h2, h3]
  · simp only [step, feed, afterField, St.endField]
    simp [Ne.symm h1]
    exact endRecord_mode _ _ _ _ _ _ _

/-- the pending '\r' of a quoted field, made part of the field -/
def flushed (cr : Bool) (fld : Key) : Key := if cr then 13 :: fld else fld

/-- reading the rest of a quoted field, the closing quote and the terminator -/
theorem run_inq (sep : Nat) (hs : ValidSep sep) (f : Key) (hf : hasCRLF f = false) (cr : Bool)
    (hcr : cr = true → f.head? ≠ some 10)
    (fld : Key) (row : List Key) (out : List (List Key)) (wd : Option Nat) (t : Nat) (ht : t = sep ∨ t = 10) :
    (escField f ++ [34, t]).foldl (step sep) ⟨.inq, cr, fld, row, out, wd⟩
      = afterField sep ((f.reverse ++ flushed cr fld).reverse :: row) out wd t := by
  induction f generalizing cr fld with
  | nil =>
    have h1 : step sep ⟨.inq, cr, fld, row, out, wd⟩ 34 = ⟨.qq, false, flushed cr fld, row, out, wd⟩ := by
      cases cr <;> simp [step, feed, flushed]
    simp only [escField, List.nil_append, List.foldl_cons, List.foldl_nil, h1, List.reverse_nil]
    exact close_qq sep hs _ _ _ _ _ ht
  | cons c r ih =>
    by_cases h34 : c = 34
    · subst h34
      have hr : hasCRLF r = false := by simpa [hasCRLF] using hf
      have h1 : step sep (step sep ⟨.inq, cr, fld, row, out, wd⟩ 34) 34
          = ⟨.inq, false, 34 :: flushed cr fld, row, out, wd⟩ := by
        cases cr <;> simp [step, feed, flushed]
      simp only [escField, if_true, List.cons_append, List.foldl_cons, h1]
      rw [ih hr false (by simp)]
      simp [flushed]
    · by_cases h13 : c = 13
      · subst h13
        have hr : hasCRLF r = false := by
          cases r with
          | nil => rfl
          | cons d r' =>
            by_cases hd : d = 10
            · subst hd; simp [hasCRLF] at hf
            · simpa [hasCRLF, hd] using hf
        have hhead : r.head? ≠ some 10 := by
          cases r with
          | nil => simp
          | cons d r' =>
            intro e
            simp only [List.head?_cons, Option.some.injEq] at e
            subst e; simp [hasCRLF] at hf
        have h1 : step sep ⟨.inq, cr, fld, row, out, wd⟩ 13 = ⟨.inq, true, flushed cr fld, row, out, wd⟩ := by
          cases cr <;> simp [step, feed, flushed]
        simp only [escField, h34, if_false, List.cons_append, List.foldl_cons, h1]
        rw [ih hr true (fun _ => hhead)]
        simp [flushed]
      · have hr : hasCRLF r = false := by
          cases r with
          | nil => rfl
          | cons d r' => simpa [hasCRLF, h13] using hf
        have hc10 : cr = true → c ≠ 10 := by
          intro h e; exact hcr h (by simp [e])
        have h1 : step sep ⟨.inq, cr, fld, row, out, wd⟩ c = ⟨.inq, false, c :: flushed cr fld, row, out, wd⟩ := by
          cases cr with
          | false => simp [step, feed, flushed, h13, h34]
          | true =>
            have := hc10 rfl
            simp [step, feed, flushed, h13, h34, this]
        simp only [escField, h34, if_false, List.cons_append, List.foldl_cons, h1]
        rw [ih hr false (by simp)]
        simp [flushed]

theorem plain_of_not_needsQuotes {sep : Nat} {f : Key} (h : needsQuotes sep f = false) : ∀ c ∈ f, plain sep c := by
  intro c hc
  unfold needsQuotes at h
  have hne : f.isEmpty = false := by cases f <;> simp_all
  simp only [hne, Bool.false_eq_true, if_false] at h
  split at h
  · simp at h
  · split at h
    · simp at h
    · rename_i h2
      simp only [List.any_eq_true, not_exists, not_and, Bool.or_eq_true, decide_eq_true_eq] at h2
      have := h2 c hc
      unfold plain
      omega

/-- one field and its terminator, from the start of a record or of a field -/
theorem run_field (sep : Nat) (hs : ValidSep sep) (md : Mode) (hmd : md = .sor ∨ md = .sof) (f : Key)
    (hf : hasCRLF f = false)
    (row : List Key) (out : List (List Key)) (wd : Option Nat) (t : Nat) (ht : t = sep ∨ t = 10)
    (hblank : md = .sor → ¬ (f = [] ∧ t = 10)) :
    (writeField sep f ++ [t]).foldl (step sep) ⟨md, false, [], row, out, wd⟩ = afterField sep (f :: row) out wd t := by
  have hs1 := hs.ne10; have hs2 := hs.ne13; have hs3 := hs.ne34
  unfold writeField
  by_cases hq : needsQuotes sep f = true
  · -- quoted
    have h1 : step sep ⟨md, false, [], row, out, wd⟩ 34 = ⟨.inq, false, [], row, out, wd⟩ := by
      rcases hmd with rfl | rfl <;> simp [step, feed]
    simp only [hq, if_true, List.cons_append, List.foldl_cons, h1, List.append_assoc]
    have := run_inq sep hs f hf false (by simp) [] row out wd t ht
    simp only [flushed, Bool.false_eq_true, if_false, List.append_nil, List.reverse_reverse] at this
    exact this
  · have hq' : needsQuotes sep f = false := by simpa using hq
    simp only [hq', Bool.false_eq_true, if_false]
    cases f with
    | nil =>
      rcases hmd with rfl | rfl
      · have : t = sep := by
          rcases ht with h | h
          · exact h
          · exact absurd ⟨rfl, h⟩ (hblank rfl)
        subst this
        simp [step, feed, afterField, St.endField, hs1, hs2, hs3]
      · rcases ht with rfl | rfl
        · simp [step, feed, afterField, St.endField, hs1, hs2, hs3]
        · simp [step, feed, afterField, St.endField, Ne.symm hs1]
    | cons c r =>
      have hp := plain_of_not_needsQuotes hq'
      obtain ⟨h10, h13, h34, h44⟩ := hp c List.mem_cons_self
      have h1 : step sep ⟨md, false, [], row, out, wd⟩ c = ⟨.unq, false, [c], row, out, wd⟩ := by
        rcases hmd with rfl | rfl <;> simp [step, feed, h10, h13, h34, h44]
      simp only [List.cons_append, List.foldl_cons, h1, List.foldl_append, List.foldl_nil]
      rw [run_unq sep r (fun d hd => hp d (List.mem_cons_of_mem _ hd))]
      rw [close_unq sep hs _ _ _ _ _ ht]
      simp

theorem writeRecord_cons (sep : Nat) (f : Key) (fs : List Key) :
    writeRecord sep (f :: fs) = writeField sep f ++ (writeFields sep fs ++ [10]) := by
  simp [writeRecord]

/-- the fields of one record up to the end of the line -/
theorem run_fields (sep : Nat) (hs : ValidSep sep) (fs : List Key) :
    ∀ (md : Mode) (_ : md = .sor ∨ md = .sof) (f : Key)
    (_ : hasCRLF f = false) (_ : ∀ g ∈ fs, hasCRLF g = false)
    (row : List Key) (out : List (List Key)) (wd : Option Nat)
    (_ : md = .sor → ¬ (f = [] ∧ fs = [])),
    (writeField sep f ++ (writeFields sep fs ++ [10])).foldl (step sep) ⟨md, false, [], row, out, wd⟩
      = St.endRecord ⟨.sof, false, [], (f :: fs).reverse ++ row, out, wd⟩ := by
  have hs1 := hs.ne10
  induction fs with
  | nil =>
    intro md hmd f hf _ row out wd hb
    have := run_field sep hs md hmd f hf row out wd 10 (Or.inr rfl) (fun h ⟨h1, _⟩ => hb h ⟨h1, rfl⟩)
    simpa [writeFields, afterField, Ne.symm hs1] using this
  | cons g gs ih =>
    intro md hmd f hf hfs row out wd _
    have h1 := run_field sep hs md hmd f hf row out wd sep (Or.inl rfl) (fun _ ⟨_, h2⟩ => hs1 h2)
    have e : writeField sep f ++ (writeFields sep (g :: gs) ++ [10])
        = (writeField sep f ++ [sep]) ++ (writeField sep g ++ (writeFields sep gs ++ [10])) := by
      simp [writeFields]
    rw [e, List.foldl_append, h1]
    simp only [afterField, if_true]
    rw [ih .sof (Or.inr rfl) g (hfs g List.mem_cons_self) (fun x hx => hfs x (List.mem_cons_of_mem _ hx))
      (f :: row) out wd (fun h => by simp at h)]
    simp

/-- all records -/
theorem run_rows (sep : Nat) (hs : ValidSep sep) (m : List (List Key)) : ∀ (out : List (List Key)) (wd : Option Nat)
    (_ : ∀ r ∈ m, ∀ g ∈ r, hasCRLF g = false) (_ : ∀ r ∈ m, ¬ (r = [] ∨ r = [[]]))
    (_ : match wd with
         | none => rectangular m = true
         | some w => ∀ r ∈ m, r.length = w),
    ∃ wd', (writeAll sep m).foldl (step sep) ⟨.sor, false, [], [], out, wd⟩
      = ⟨.sor, false, [], [], m.reverse ++ out, wd'⟩ := by
  induction m with
  | nil => intro out wd _ _ _; exact ⟨wd, rfl⟩
  | cons r rs ih =>
    intro out wd hcr hbl hw
    have hr := hbl r List.mem_cons_self
    cases r with
    | nil => simp at hr
    | cons f fs =>
      have hb : ¬ (f = [] ∧ fs = []) := by
        intro ⟨h1, h2⟩; subst h1; subst h2; simp at hr
      have h1 := run_fields sep hs fs .sor (Or.inl rfl) f (hcr _ List.mem_cons_self f List.mem_cons_self)
        (fun g hg => hcr _ List.mem_cons_self g (List.mem_cons_of_mem _ hg)) [] out wd (fun _ => hb)
      have e : writeAll sep ((f :: fs) :: rs)
          = (writeField sep f ++ (writeFields sep fs ++ [10])) ++ writeAll sep rs := by
        simp [writeAll, writeRecord_cons]
      rw [e]
      rw [List.foldl_append (l := writeField sep f ++ (writeFields sep fs ++ [10])) (l' := writeAll sep rs), h1]
      have hcr' : ∀ r ∈ rs, ∀ g ∈ r, hasCRLF g = false := fun r hr => hcr r (List.mem_cons_of_mem _ hr)
      have hbl' : ∀ r ∈ rs, ¬ (r = [] ∨ r = [[]]) := fun r hr => hbl r (List.mem_cons_of_mem _ hr)
      cases wd with
      | none =>
        have hrect : ∀ r' ∈ rs, r'.length = (f :: fs).length := by
          simpa [rectangular] using hw
        obtain ⟨wd', h2⟩ := ih ((f :: fs) :: out) (some (f :: fs).length) hcr' hbl' hrect
        refine ⟨wd', ?_⟩
        simp only [St.endRecord, List.append_nil, List.reverse_reverse]
        rw [h2]; simp
      | some w =>
        have hlen : (f :: fs).length = w := hw _ List.mem_cons_self
        obtain ⟨wd', h2⟩ := ih ((f :: fs) :: out) (some w) hcr' hbl'
          (fun r' hr' => hw r' (List.mem_cons_of_mem _ hr'))
        refine ⟨wd', ?_⟩
        simp only [St.endRecord, List.append_nil, List.reverse_reverse, hlen, if_true]
        rw [h2]; simp

/-- the reader returns exactly the records the writer was given, on the guarded class, for every separator -/
theorem parse_writeAll (sep : Nat) (hs : ValidSep sep) (m : List (List Key)) (h : csvOk m = true) :
    parse sep (writeAll sep m) = .ok m := by
  simp only [csvOk, Bool.and_eq_true] at h
  obtain ⟨⟨hrect, hcr⟩, hbl⟩ := h
  have hcr' : ∀ r ∈ m, ∀ g ∈ r, hasCRLF g = false := by
    simpa [noCRLF] using hcr
  have hbl' : ∀ r ∈ m, ¬ (r = [] ∨ r = [[]]) := by
    intro r hr
    have := (List.all_eq_true.1 hbl) r hr
    simpa using this
  obtain ⟨wd', h2⟩ := run_rows sep hs m [] none hcr' hbl' hrect
  simp [parse, St.init, h2, finish]

theorem asArray_newArray (xs : List R) : asArray (R.newArray xs) = some xs := by
  cases xs <;> simp [R.newArray, asArray]

theorem asString_newString (f : Key) : asString (R.newString f) = some f := by
  cases f <;> simp [R.newString, asString]

theorem fieldsOf_map (r : List Key) : fieldsOf (r.map R.newString) = some r := by
  induction r with
  | nil => rfl
  | cons f fs ih => simp [fieldsOf, asString_newString, ih]

theorem rowsOf_map (m : List (List Key)) :
    rowsOf (m.map (fun r => R.newArray (r.map R.newString))) = some m := by
  induction m with
  | nil => rfl
  | cons r rs ih => simp [rowsOf, asArray_newArray, fieldsOf_map, ih]

theorem matrixOf_matrixR (m : List (List Key)) : matrixOf (matrixR m) = some m := by
  simp [matrixOf, matrixR, asArray_newArray, rowsOf_map]

end Impl.Csv

/-! ## documents without duplicate keys; no panic site left in the encoder -/
section More
open Impl

mutual
/-- a document without duplicate keys is its own normal form -/
theorem norm_eq_self (j : J) (h : j.hasDupKeys = false) : j.norm = j := by
  cases j with
  | null => rfl
  | bool b => rfl
  | num n => rfl
  | str cs => rfl
  | arr xs =>
    simp only [J.hasDupKeys] at h
    have := norm_eq_self_list xs h
    simp only [J.norm, normList_eq]
    congr 1
    conv => rhs; rw [← List.map_id xs]
    exact List.map_congr_left (fun x hx => by simpa using this x hx)
  | obj kvs =>
    simp only [J.hasDupKeys, Bool.or_eq_false_iff, Bool.not_eq_eq_eq_not, Bool.not_false] at h
    have h2 := norm_eq_self_kvs kvs h.2
    have e : mapVal J.norm kvs = kvs := by
      unfold mapVal
      conv => rhs; rw [← List.map_id kvs]
      exact List.map_congr_left (fun p hp => by simp [h2 p hp])
    have hnd : (keys kvs).Nodup := (nodupKeys_iff _).1 h.1
    simp only [J.norm, normKvs_eq, e, lastWins_of_nodup hnd]
theorem norm_eq_self_list (xs : List J) (h : J.hasDupKeysList xs = false) : ∀ x ∈ xs, x.norm = x := by
  cases xs with
  | nil => simp
  | cons x r =>
    simp only [J.hasDupKeysList, Bool.or_eq_false_iff] at h
    intro y hy
    rcases List.mem_cons.1 hy with e | hy
    · rw [e]; exact norm_eq_self x h.1
    · exact norm_eq_self_list r h.2 y hy
theorem norm_eq_self_kvs (kvs : List (Key × J)) (h : J.hasDupKeysKvs kvs = false) :
    ∀ p ∈ kvs, p.2.norm = p.2 := by
  cases kvs with
  | nil => simp
  | cons q r =>
    obtain ⟨k, v⟩ := q
    simp only [J.hasDupKeysKvs, Bool.or_eq_false_iff] at h
    intro y hy
    rcases List.mem_cons.1 hy with e | hy
    · rw [e]; exact norm_eq_self v h.1
    · exact norm_eq_self_kvs r h.2 y hy
end

theorem Out.map_ne_panic {α β : Type} {x : Out α} {f : α → β} (h : x ≠ .panic) : x.map f ≠ .panic := by
  cases x <;> simp_all [Out.map]

theorem consOut_ne_panic {α : Type} {h : Out α} {t : Out (List α)} (h1 : h ≠ .panic) (h2 : t ≠ .panic) :
    consOut h t ≠ .panic := by
  cases h <;> cases t <;> simp_all [consOut, Out.map]

theorem entryStep_ne_panic {k : R} {kd vd : Out J} {rest : Out (List (Key × J))}
    (hk : kd ≠ .panic) (hv : vd ≠ .panic) (hr : rest ≠ .panic) : entryStep k kd vd rest ≠ .panic := by
  unfold entryStep keyData
  cases k <;> cases kd <;> cases vd <;> cases rest <;> simp_all [Out.map] <;> split <;> simp

theorem strictS_ne_panic (x : R) : strictS x ≠ .panic := by
  cases x <;> simp [strictS]

theorem strictB_ne_panic (x : R) : strictB x ≠ .panic := by
  unfold strictB; split <;> simp

mutual
/-- the (repaired) encoder has no panic site left: every value gives a document or an error -/
theorem fromArrai_ne_panic (s : Bool) (v : R) : fromArrai s v ≠ .panic ∧ arrFromArrai s v ≠ .panic := by
  cases v with
  | num n => simp [fromArrai, arrFromArrai]
  | tuple as =>
    match as with
    | [] => simp [fromArrai, arrFromArrai]
    | [(n, x)] =>
      have ih := fromArrai_ne_panic s x
      refine ⟨?_, by simp [arrFromArrai]⟩
      simp only [fromArrai]
      split
      · unfold strictTagged
        split
        · split
          · exact ih.2
          · simp
        · split
          · exact strictS_ne_panic x
          · split
            · exact strictB_ne_panic x
            · simp
      · exact Out.map_ne_panic ih.1
    | a :: b :: r =>
      refine ⟨?_, by simp [arrFromArrai]⟩
      simp only [fromArrai]
      split
      · simp
      · exact Out.map_ne_panic (fromAttrs_ne_panic s (a :: b :: r))
  | charT i c => simp [fromArrai, arrFromArrai]
  | byteT i b => simp [fromArrai, arrFromArrai]
  | itemT i v => simp [fromArrai, arrFromArrai]
  | entryT k v => simp [fromArrai, arrFromArrai]
  | empty => cases s <;> simp [fromArrai, arrFromArrai]
  | tt => cases s <;> simp [fromArrai, arrFromArrai]
  | str o cs => refine ⟨by simp [fromArrai], ?_⟩; simp only [arrFromArrai]; split <;> simp
  | bytes o bs =>
    refine ⟨?_, ?_⟩
    · simp only [fromArrai]; split <;> (try split) <;> simp
    · simp only [arrFromArrai]; split <;> simp
  | arr o xs =>
    have := fromList_ne_panic s xs
    exact ⟨by simp only [fromArrai]; exact Out.map_ne_panic this,
           by simp only [arrFromArrai]; exact Out.map_ne_panic this⟩
  | dict es =>
    refine ⟨?_, ?_⟩
    · simp only [fromArrai]; exact Out.map_ne_panic (fromEntries_ne_panic s es)
    · simp only [arrFromArrai]; split <;> simp
  | gset xs =>
    have := fromList_ne_panic s xs
    refine ⟨?_, by simp only [arrFromArrai]; exact Out.map_ne_panic this⟩
    simp only [fromArrai]
    split
    · simp
    · split
      · simp
      · exact Out.map_ne_panic this
theorem fromList_ne_panic (s : Bool) (xs : List R) : fromList s xs ≠ .panic := by
  cases xs with
  | nil => simp [fromList]
  | cons x r =>
    simp only [fromList]
    exact consOut_ne_panic (fromArrai_ne_panic s x).1 (fromList_ne_panic s r)
theorem fromAttrs_ne_panic (s : Bool) (as : List (Key × R)) : fromAttrs s as ≠ .panic := by
  cases as with
  | nil => simp [fromAttrs]
  | cons p r =>
    obtain ⟨n, x⟩ := p
    simp only [fromAttrs]
    exact consOut_ne_panic (Out.map_ne_panic (fromArrai_ne_panic s x).1) (fromAttrs_ne_panic s r)
theorem fromEntries_ne_panic (s : Bool) (es : List (R × R)) : fromEntries s es ≠ .panic := by
  cases es with
  | nil => simp [fromEntries]
  | cons p r =>
    obtain ⟨k, v⟩ := p
    simp only [fromEntries]
    exact entryStep_ne_panic (fromArrai_ne_panic s k).1 (fromArrai_ne_panic s v).1 (fromEntries_ne_panic s r)
end

end More

/-! ## decoded values lie in the class `strictOk` -/
section Decoded
open Impl Spec

theorem entryKey_newString (k : Key) : entryKey (R.newString k) = some k := by
  cases k <;> simp [R.newString, entryKey]

theorem entryKeys_entries (l : List (Key × R)) : entryKeys (entries l) = some (keys l) := by
  induction l with
  | nil => rfl
  | cons p r ih =>
    obtain ⟨k, v⟩ := p
    have e : entries ((k, v) :: r) = (R.newString k, v) :: entries r := rfl
    simp [e, entryKeys, entryKey_newString, ih]

theorem strictOkEntries_entries (l : List (Key × R)) (h : ∀ p ∈ l, strictOk p.2 = true) :
    strictOkEntries (entries l) = true := by
  induction l with
  | nil => rfl
  | cons p r ih =>
    obtain ⟨k, v⟩ := p
    have e : entries ((k, v) :: r) = (R.newString k, v) :: entries r := rfl
    simp [e, strictOkEntries, h (k, v) List.mem_cons_self, ih (fun q hq => h q (List.mem_cons_of_mem _ hq))]

theorem strictOkList_map (xs : List J) (h : ∀ x ∈ xs, strictOk (toArrai true x) = true) :
    strictOkList (xs.map (toArrai true)) = true := by
  induction xs with
  | nil => rfl
  | cons x r ih =>
    simp [strictOkList, h x List.mem_cons_self, ih (fun y hy => h y (List.mem_cons_of_mem _ hy))]

mutual
/-- every strictly decoded value lies in the class on which strict encoding is faithful -/
theorem strictOk_toArrai (j : J) : strictOk (toArrai true j) = true := by
  cases j with
  | null => rfl
  | bool b => cases b <;> rfl
  | num n => rfl
  | str cs => cases cs <;> rfl
  | arr xs =>
    have h := strictOk_toArrai_list xs
    simp only [toArrai, if_true, toArraiList_eq]
    cases xs with
    | nil => rfl
    | cons x r =>
      have := strictOkList_map (x :: r) h
      simp only [List.map_cons] at this
      simp [R.newArray, strictOk, strictOkTagged, kA, this]
  | obj kvs =>
    have h := strictOk_toArrai_kvs kvs
    simp only [toArrai, toArraiKvs_eq, lastWins_mapVal]
    by_cases hn : lastWins kvs = []
    · simp [hn, entries, R.newDict, strictOk]
    · rw [newDict_entries_ne (by simpa [mapVal_eq_nil] using hn)]
      have h1 : strictOkEntries (entries (mapVal (toArrai true) (lastWins kvs))) = true := by
        apply strictOkEntries_entries
        intro p hp
        simp only [mapVal, List.mem_map] at hp
        obtain ⟨q, hq, rfl⟩ := hp
        exact h q (mem_lastWins hq)
      have h2 : (entries (mapVal (toArrai true) (lastWins kvs))).isEmpty = false := by
        have : entries (mapVal (toArrai true) (lastWins kvs)) ≠ [] := by
          simpa [entries_eq_nil, mapVal_eq_nil] using hn
        cases hh : entries (mapVal (toArrai true) (lastWins kvs)) <;> simp_all
      have h3 : nodupKeys (keys (lastWins kvs)) = true := (nodupKeys_iff _).2 (nodup_keys_lastWins kvs)
      simp [strictOk, h1, h2, entryKeys_entries, h3]
theorem strictOk_toArrai_list (xs : List J) : ∀ x ∈ xs, strictOk (toArrai true x) = true := by
  cases xs with
  | nil => simp
  | cons x r =>
    intro y hy
    rcases List.mem_cons.1 hy with e | hy
    · rw [e]; exact strictOk_toArrai x
    · exact strictOk_toArrai_list r y hy
theorem strictOk_toArrai_kvs (kvs : List (Key × J)) : ∀ p ∈ kvs, strictOk (toArrai true p.2) = true := by
  cases kvs with
  | nil => simp
  | cons q r =>
    obtain ⟨k, v⟩ := q
    intro y hy
    rcases List.mem_cons.1 hy with e | hy
    · rw [e]; exact strictOk_toArrai v
    · exact strictOk_toArrai_kvs r y hy
end
end Decoded

end Arrai.C13
