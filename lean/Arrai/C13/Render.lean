/-
  C13 rendering (driver only; nothing here is used by a proof):
  `R.den` — the framework value an `R` denotes (canonical observable via `V.canon`),
  `R.src` — arr.ai source text that evaluates to the value,
  `J.text` — JSON / YAML (flow style) text of a document, UTF-8, byte-array literals.
-/
import Arrai.Core.Canon
import Arrai.C13.Model

namespace Arrai.C13

def nameOf (k : Key) : String := String.ofList (k.map Char.ofNat)
def keyOf (s : String) : Key := s.toList.map Char.toNat

mutual
def R.den : R → V
  | .num n => .num n
  | .tuple as => V.mkTup (R.denAttrs as)
  | .charT i c => V.mkTup [("@", .num i), ("@char", .num (Int.ofNat c))]
  | .byteT i b => V.mkTup [("@", .num i), ("@byte", .num (Int.ofNat b))]
  | .itemT i v => V.mkTup [("@", .num i), ("@item", v.den)]
  | .entryT k v => V.mkTup [("@", k.den), ("@value", v.den)]
  | .empty => .set []
  | .tt => V.tt
  | .str o cs => V.mkSeq "@char" o (cs.map (fun c => some (.num (Int.ofNat c))))
  | .bytes o bs => V.mkSeq "@byte" o (bs.map (fun c => some (.num (Int.ofNat c))))
  | .arr o xs => V.mkSeq "@item" o ((R.denList xs).map some)
  | .dict es => V.mkSet (R.denEntries es)
  | .gset xs => V.mkSet (R.denList xs)
def R.denList : List R → List V
  | [] => []
  | x :: r => x.den :: R.denList r
def R.denAttrs : List (Key × R) → List (String × V)
  | [] => []
  | (k, x) :: r => (nameOf k, x.den) :: R.denAttrs r
def R.denEntries : List (R × R) → List V
  | [] => []
  | (k, v) :: r => V.mkTup [("@", k.den), ("@value", v.den)] :: R.denEntries r
end

def Out.obs (o : Out R) : String :=
  match o with
  | .ok v => v.den.canon
  | .err => "error"
  | .panic => "panic"

/-! ### arr.ai source -/

def identLike (k : Key) : Bool :=
  match k with
  | [] => false
  | c :: r =>
    ((97 ≤ c && c ≤ 122) || (65 ≤ c && c ≤ 90) || c = 95) &&
    r.all (fun c => (97 ≤ c && c ≤ 122) || (65 ≤ c && c ≤ 90) || c = 95 || (48 ≤ c && c ≤ 57))

/-- printable ASCII without quote characters and backslash -/
def plainChar (c : Nat) : Bool := 32 ≤ c && c ≤ 126 && c ≠ 39 && c ≠ 34 && c ≠ 92 && c ≠ 96 && c ≠ 36

/-- a character inside a '…' literal, when one of the escapes known to be read correctly covers it
(`\xNN`, `\uNNNN` are avoided: C12) -/
def litChar (c : Nat) : Option String :=
  if c = 39 then some "\\'"
  else if c = 92 then some "\\\\"
  else if c = 10 then some "\\n"
  else if c = 13 then some "\\r"
  else if c = 9 then some "\\t"
  else if 32 ≤ c && c ≤ 126 then some (String.singleton (Char.ofNat c))
  else if [0xE9, 0xDF, 0xFF, 0x4E2D, 0x3042, 0x1F600, 0x1D11E].contains c then some (String.singleton (Char.ofNat c))
  else none

def strLit (cs : Key) : Option String :=
  cs.foldl (fun acc c => match acc, litChar c with
    | some a, some x => some (a ++ x)
    | _, _ => none) (some "")

def srcName (k : Key) : String :=
  if identLike k || k = kAt || k = kChar || k = kByte || k = kItem || k = kValue then nameOf k
  else "'" ++ nameOf k ++ "'"

def srcChars (o : Int) (cs : Key) : String :=
  let rec go (i : Int) : Key → List String
    | [] => []
    | c :: r => s!"(@: {i}, @char: {c})" :: go (i + 1) r
  "{" ++ ", ".intercalate (go o cs) ++ "}"

def srcBytes (o : Int) (bs : List Nat) : String :=
  if o = 0 then "<<" ++ ", ".intercalate (bs.map toString) ++ ">>"
  else
    let rec go (i : Int) : List Nat → List String
      | [] => []
      | c :: r => s!"(@: {i}, @byte: {c})" :: go (i + 1) r
    "{" ++ ", ".intercalate (go o bs) ++ "}"

def offPrefix (o : Int) : String := if o = 0 then "" else s!"{o}\\"

mutual
def R.src : R → String
  | .num n => if n < 0 then s!"({n})" else toString n
  | .tuple as => "(" ++ ", ".intercalate (R.srcAttrs as) ++ ")"
  | .charT i c => s!"(@: {i}, @char: {c})"
  | .byteT i b => s!"(@: {i}, @byte: {b})"
  | .itemT i v => s!"(@: {i}, @item: {v.src})"
  | .entryT k v => s!"(@: {k.src}, @value: {v.src})"
  | .empty => "{}"
  | .tt => "true"
  | .str o cs =>
    match strLit cs with
    | some lit => if !cs.isEmpty && o ≥ 0 then offPrefix o ++ "'" ++ lit ++ "'" else srcChars o cs
    | none => srcChars o cs
  | .bytes o bs => srcBytes o bs
  | .arr o xs => offPrefix o ++ "[" ++ ", ".intercalate (R.srcList xs) ++ "]"
  | .dict es => "{" ++ ", ".intercalate (R.srcEntries es) ++ "}"
  | .gset xs => "{" ++ ", ".intercalate (R.srcList xs) ++ "}"
def R.srcList : List R → List String
  | [] => []
  | x :: r => x.src :: R.srcList r
def R.srcAttrs : List (Key × R) → List String
  | [] => []
  | (k, x) :: r => (srcName k ++ ": " ++ x.src) :: R.srcAttrs r
def R.srcEntries : List (R × R) → List String
  | [] => []
  | (k, v) :: r => (k.src ++ ": " ++ v.src) :: R.srcEntries r
end

/-! ### text -/

def utf8 (c : Nat) : List Nat :=
  if c < 0x80 then [c]
  else if c < 0x800 then [0xC0 + c / 64, 0x80 + c % 64]
  else if c < 0x10000 then [0xE0 + c / 4096, 0x80 + (c / 64) % 64, 0x80 + c % 64]
  else [0xF0 + c / 262144, 0x80 + (c / 4096) % 64, 0x80 + (c / 64) % 64, 0x80 + c % 64]

def utf8s (cs : Key) : List Nat := cs.flatMap utf8

/-- a byte-array literal holding the UTF-8 encoding of `cs` (`<<>>` is the empty set) -/
def bytesLit (cs : Key) : String := "<<" ++ ", ".intercalate ((utf8s cs).map toString) ++ ">>"

def hexDigit (n : Nat) : Nat := if n < 10 then 48 + n else 87 + n
def hex4 (c : Nat) : Key := [hexDigit (c / 4096 % 16), hexDigit (c / 256 % 16), hexDigit (c / 16 % 16), hexDigit (c % 16)]
def uEsc (c : Nat) : Key := [92, 117] ++ hex4 c

/-- YAML's printable characters minus the ones a double-quoted scalar treats as line breaks -/
def yamlRaw (c : Nat) : Bool :=
  (0x20 ≤ c && c ≤ 0x7E) || (0xA0 ≤ c && c ≤ 0xD7FF && c ≠ 0x2028 && c ≠ 0x2029) ||
  (0xE000 ≤ c && c ≤ 0xFFFD && c ≠ 0xFEFF) || (0x10000 ≤ c && c ≤ 0x10FFFF)

/-- one character inside a double-quoted string -/
def textChar (yaml escAll : Bool) (c : Nat) : Key :=
  if c = 34 then [92, 34]
  else if c = 92 then [92, 92]
  else if c = 10 && escAll then [92, 110]
  else if c = 9 && escAll then [92, 116]
  else if c < 0x20 then uEsc c
  else if c < 0x7F then [c]
  else if !escAll && (if yaml then yamlRaw c else c ≠ 0x7F) then [c]
  else if c < 0x10000 then uEsc c
  else if yaml then
    [92, 85] ++ hex4 (c / 65536) ++ hex4 (c % 65536)
  else
    let v := c - 0x10000
    uEsc (0xD800 + v / 1024) ++ uEsc (0xDC00 + v % 1024)

def textStr (yaml escAll : Bool) (cs : Key) : Key := [34] ++ cs.flatMap (textChar yaml escAll) ++ [34]

def intText (n : Int) : Key := keyOf (toString n)

def joinWith (sep : Key) : List Key → Key
  | [] => []
  | [x] => x
  | x :: r => x ++ sep ++ joinWith sep r

mutual
/-- JSON text (also valid YAML flow style when `yaml`); `sp`: spaces after separators -/
def J.text (yaml escAll sp : Bool) : J → Key
  | .null => keyOf "null"
  | .bool b => keyOf (if b then "true" else "false")
  | .num n => intText n
  | .str cs => textStr yaml escAll cs
  | .arr xs => [91] ++ joinWith (if sp then [44, 32] else [44]) (J.textList yaml escAll sp xs) ++ [93]
  | .obj kvs => [123] ++ joinWith (if sp then [44, 32] else [44]) (J.textKvs yaml escAll sp kvs) ++ [125]
def J.textList (yaml escAll sp : Bool) : List J → List Key
  | [] => []
  | x :: r => J.text yaml escAll sp x :: J.textList yaml escAll sp r
def J.textKvs (yaml escAll sp : Bool) : List (Key × J) → List Key
  | [] => []
  | (k, v) :: r =>
    (textStr yaml escAll k ++ (if sp || yaml then [58, 32] else [58]) ++ J.text yaml escAll sp v)
      :: J.textKvs yaml escAll sp r
end

end Arrai.C13
