/-
  C13 case generator.

  Streams (every random choice through `Arrai.Gen`):
    json/yaml documents  — generated as trees `J`, rendered to text here (escapes, raw UTF-8, duplicate
                           keys), decoded / re-encoded / re-decoded through //encoding.json|yaml.* (strict and
                           non-strict) with the model's expected canonical value;
    values               — generated as `R` (tagged and untagged forms, plain sets, offsets, ill-typed
                           tuples, non-string keys), encoded through the codecs and through the wire format;
    csv                  — string matrices (incl. the guarded shapes) and raw CSV text;
    bits                 — integers up to 2^53 and sets of bit positions;
    float stream         — documents with fractional / huge numbers: implementation-side law only (`law`).
    non-finite numbers   — NaN/±Inf (1/0, -1/0, 0/0, YAML .inf, -.inf, .nan) at top level and nested, and huge /
                           denormal / negative-zero documents: pinned behaviour as laws (`pin`, `wirenf`, `law`):
                           JSON encode rejects, YAML preserves, CSV rejects numbers, the wire format rejects.
    multi-step programs  — ONE configured codec value (json/yaml/csv encoder(cfg)/decoder(cfg), //encoding.bytes)
                           bound by `let` and applied 2–4 times (lets, `>>` over an array, `=>` over a set, tuple,
                           nested, vs. the plain function) to documents of different lengths, every result
                           inspected afterwards; codec functions are pure, so the expectation is the collection of
                           the individual model results (catches state shared between calls, e.g. a reused buffer).
-/
import Arrai.C13.Render

namespace Arrai.C13
open Impl

/-! ### class predicates of the known findings (decidable, on the input) -/

mutual
/-- the value contains a set that is neither an array, a string, a dict nor a boolean inside `(b: …)` -/
def plainSetJ : R → Bool
  | .tt => true
  | .bytes .. => true
  | .gset _ => true
  | .tuple [(n, x)] => if n = kB then (match x with | .tt => false | x => plainSetJ x) else plainSetJ x
  | .tuple as => plainSetJAttrs as
  | .itemT _ v => plainSetJ v
  | .entryT k v => plainSetJ k || plainSetJ v
  | .arr _ xs => plainSetJList xs
  | .dict es => plainSetJEntries es
  | _ => false
def plainSetJList : List R → Bool
  | [] => false
  | x :: r => plainSetJ x || plainSetJList r
def plainSetJAttrs : List (Key × R) → Bool
  | [] => false
  | (_, x) :: r => plainSetJ x || plainSetJAttrs r
def plainSetJEntries : List (R × R) → Bool
  | [] => false
  | (k, v) :: r => plainSetJ k || plainSetJ v || plainSetJEntries r
end

mutual
/-- the value contains a set that is not an array, a string or a boolean (wire format) -/
def nonArraySet : R → Bool
  | .bytes .. => true
  | .dict _ => true
  | .gset _ => true
  | .tuple as => nonArraySetAttrs as
  | .itemT _ v => nonArraySet v
  | .entryT k v => nonArraySet k || nonArraySet v
  | .arr _ xs => nonArraySetList xs
  | _ => false
def nonArraySetList : List R → Bool
  | [] => false
  | x :: r => nonArraySet x || nonArraySetList r
def nonArraySetAttrs : List (Key × R) → Bool
  | [] => false
  | (_, x) :: r => nonArraySet x || nonArraySetAttrs r
end

mutual
/-- the value contains a string or an array that does not start at index 0 -/
def hasOffset : R → Bool
  | .str o _ => o ≠ 0
  | .bytes o _ => o ≠ 0
  | .arr o xs => o ≠ 0 || hasOffsetList xs
  | .tuple as => hasOffsetAttrs as
  | .itemT _ v => hasOffset v
  | .entryT k v => hasOffset k || hasOffset v
  | .dict es => hasOffsetEntries es
  | .gset xs => hasOffsetList xs
  | _ => false
def hasOffsetList : List R → Bool
  | [] => false
  | x :: r => hasOffset x || hasOffsetList r
def hasOffsetAttrs : List (Key × R) → Bool
  | [] => false
  | (_, x) :: r => hasOffset x || hasOffsetAttrs r
def hasOffsetEntries : List (R × R) → Bool
  | [] => false
  | (k, v) :: r => hasOffset k || hasOffset v || hasOffsetEntries r
end

mutual
/-- some tuple of the value has an attribute named `{||}` -/
def hasReserved : R → Bool
  | .tuple as => (keys as).contains kSet || hasReservedAttrs as
  | .itemT _ v => hasReserved v
  | .entryT k v => hasReserved k || hasReserved v
  | .arr _ xs => hasReservedList xs
  | .dict es => hasReservedEntries es
  | .gset xs => hasReservedList xs
  | _ => false
def hasReservedList : List R → Bool
  | [] => false
  | x :: r => hasReserved x || hasReservedList r
def hasReservedAttrs : List (Key × R) → Bool
  | [] => false
  | (_, x) :: r => hasReserved x || hasReservedAttrs r
def hasReservedEntries : List (R × R) → Bool
  | [] => false
  | (k, v) :: r => hasReserved k || hasReserved v || hasReservedEntries r
end

/-- yaml.v3 writes a multi-line string as a literal block scalar and miswrites it (the first character is
lost, or the text cannot be read back) when it starts with a line break, a tab, a space, U+2028 or U+2029;
it writes the key `<<` unquoted (a merge key).  Class confirmed exhaustively on all strings of length ≤ 4 over
a 14-letter alphabet in six nesting contexts. -/
def fragileStr (cs : Key) : Bool :=
  (cs.contains 10 &&
    (match cs with
     | c :: _ => c = 10 || c = 9 || c = 32 || c = 0x2028 || c = 0x2029
     | [] => false)) || cs = [60, 60]

mutual
def J.yamlFragile : J → Bool
  | .str cs => fragileStr cs
  | .arr xs => J.yamlFragileList xs
  | .obj kvs => J.yamlFragileKvs kvs
  | _ => false
def J.yamlFragileList : List J → Bool
  | [] => false
  | x :: r => x.yamlFragile || J.yamlFragileList r
def J.yamlFragileKvs : List (Key × J) → Bool
  | [] => false
  | (k, v) :: r => fragileStr k || v.yamlFragile || J.yamlFragileKvs r
end

mutual
def hasFragile : R → Bool
  | .str _ cs => fragileStr cs
  | .tuple as => hasFragileAttrs as
  | .itemT _ v => hasFragile v
  | .entryT k v => hasFragile k || hasFragile v
  | .arr _ xs => hasFragileList xs
  | .dict es => hasFragileEntries es
  | .gset xs => hasFragileList xs
  | _ => false
def hasFragileList : List R → Bool
  | [] => false
  | x :: r => hasFragile x || hasFragileList r
def hasFragileAttrs : List (Key × R) → Bool
  | [] => false
  | (k, x) :: r => fragileStr k || hasFragile x || hasFragileAttrs r
def hasFragileEntries : List (R × R) → Bool
  | [] => false
  | (k, v) :: r => hasFragile k || hasFragile v || hasFragileEntries r
end

/-! ### generators -/

def asciiChars : List Nat := [97, 98, 99, 120, 121, 122, 48, 57, 32, 65, 95, 45]
def specialChars : List Nat := [34, 92, 47, 0, 1, 8, 9, 10, 12, 13, 31, 127, 39, 96, 36, 60, 62, 38, 58, 35, 44, 123, 91]
def latinChars : List Nat := [0xE9, 0xFF, 0xA0, 0x85, 0x80, 0xDF]
def bmpChars : List Nat := [0x4E2D, 0x2028, 0x2029, 0xFEFF, 0xFFFD, 0xFFFF, 0xD7FF, 0xE000, 0x3042, 0x200B, 0x0301]
def astralChars : List Nat := [0x1F600, 0x10000, 0x10FFFF, 0x1D11E, 0x2F800]

def genChar : Gen Nat := do
  let r ← rand 10
  if r < 5 then pick asciiChars
  else if r < 7 then pick specialChars
  else if r < 8 then pick latinChars
  else if r < 9 then pick bmpChars
  else pick astralChars

def genStr (maxLen : Nat) : Gen Key := do
  let n ← rand (maxLen + 1)
  genList n genChar

def genAsciiStr (maxLen : Nat) : Gen Key := do
  let n ← rand maxLen
  genList (n + 1) (pick asciiChars)

def docKeys : List Key :=
  [[], [97], [98], [107], [97, 32, 98], [0xE9], [0x1F600], [64], kSet, [115], [34], [92, 110], [10], [60, 60]]

def genInt : Gen Int := do
  let r ← rand 10
  if r < 5 then randInt (-3) 12
  else if r < 8 then randInt (-100000) 100000
  else if r < 9 then randInt (-999999999999999) 999999999999999
  else pick [0, -1, 1, 255, 256, 65536, 4294967296, 999999999999999, -999999999999999]

def genJ : Nat → Gen J
  | 0 => do
    let r ← rand 12
    if r < 1 then pure .null
    else if r < 3 then pure (.bool (r == 1))
    else if r < 6 then pure (.num (← genInt))
    else if r < 9 then pure (.str (← genStr 5))
    else if r < 10 then pure (.str [])
    else if r < 11 then pure (.arr [])
    else pure (.obj [])
  | d + 1 => do
    let r ← rand 10
    if r < 3 then genJ 0
    else if r < 6 then
      let n ← rand 4
      pure (.arr (← genList n (genJ d)))
    else
      let n ← rand 4
      let kvs ← genList n (do
        let k ← (do if (← chance 4 5) then pick docKeys else genStr 4)
        let v ← genJ d
        pure (k, v))
      pure (.obj kvs)

def tupleNames : List Key := [[120], [107], [97], [115], [98], [118], [97, 32, 98], [121]]

/-- `n` distinct elements of `xs` (in `xs` order) -/
def pickDistinct {α : Type} (xs : List α) (n : Nat) : Gen (List α) := do
  let mut out := []
  let mut left := n
  let mut remaining := xs.length
  for x in xs do
    -- choose x with probability left/remaining
    if remaining > 0 && (← rand remaining) < left then
      out := x :: out
      left := left - 1
    remaining := remaining - 1
  pure out.reverse

def genLeafR : Gen R := do
  let r ← rand 20
  if r < 6 then pure (.num (← genInt))
  else if r < 10 then pure (R.newString (← genStr 4))
  else if r < 11 then pure (.str (← randInt 1 3) (← genAsciiStr 3))
  else if r < 13 then pure .empty
  else if r < 15 then pure .tt
  else if r < 16 then pure (.bytes 0 (← genList ((← rand 3) + 1) (rand 256)))
  else if r < 17 then pure (.tuple [])
  else if r < 18 then pure (.tuple [(kS, R.newString (← genStr 4))])
  else if r < 19 then pure (.tuple [(kB, R.newBool (← chance 1 2))])
  else pure (.charT (← randInt 0 3) (← pick asciiChars))

def genIntSet : Gen R := do
  let n ← rand 3
  let xs ← pickDistinct [(-2 : Int), 0, 1, 2, 3, 5, 8, 13, 100] (n + 1)
  pure (.gset (xs.map .num))

def genR : Nat → Gen R
  | 0 => genLeafR
  | d + 1 => do
    let r ← rand 24
    if r < 5 then genLeafR
    else if r < 9 then
      -- (a: array) — the strict form of a JSON array
      let n ← rand 4
      pure (.tuple [(kA, R.newArray (← genList n (genR d)))])
    else if r < 11 then
      let n ← rand 3
      pure (R.newArray (← genList (n + 1) (genR d)))
    else if r < 12 then
      let n ← rand 2
      pure (.arr (← randInt 1 3) (← genList (n + 1) (genR d)))
    else if r < 16 then
      -- dict with string keys (sometimes the empty key, a tagged key or a number key)
      let n ← rand 3
      let ks ← pickDistinct docKeys (n + 1)
      let es ← ks.mapM (fun k => do pure (R.newString k, ← genR d))
      let odd ← rand 12
      let es := if odd == 0 then (.num 1, .num 2) :: es
                else if odd == 1 then (.tuple [(kS, .str 0 [113])], .num 3) :: es
                else es
      pure (R.newDict es)
    else if r < 19 then
      let n ← rand 3
      let ns ← pickDistinct tupleNames (n + 1)
      let as ← ns.mapM (fun k => do pure (k, ← genR d))
      pure (.tuple as)
    else if r < 21 then genIntSet
    else if r < 22 then
      -- ill-tagged strict forms
      let x ← genR d
      pure (.tuple [(← pick [kA, kS, kB], x)])
    else if r < 23 then pure (.itemT (← randInt 0 3) (← genR d))
    else pure (.entryT (← genR 0) (← genR d))

/-! ### cases -/

def evalCase (id stratum cls src model spec : String) : Case :=
  { id := id, cls := cls, kind := "eval", stratum := stratum, model := model, spec := spec, payload := [src] }

def lawCase (id stratum cls src : String) : Case :=
  { id := id, cls := cls, kind := "law", stratum := stratum, model := "ok", spec := "ok", payload := [src] }

structure Codec where
  name : String          -- json | yaml
  yaml : Bool
  deriving Inhabited

def decSrc (c : Codec) (strict : Bool) : String :=
  if strict then s!"//encoding.{c.name}.decode" else s!"//encoding.{c.name}.decoder((strict: false))"
def encSrc (c : Codec) (strict : Bool) : String :=
  if strict then s!"//encoding.{c.name}.encode" else s!"//encoding.{c.name}.encoder((strict: false))"

/-- the document as an arr.ai literal: a byte array, or (longer texts the literal syntax covers) a string —
the decoders accept both -/
def textLit (t : Key) : String :=
  match strLit t with
  | some lit => if t.length > 24 then "'" ++ lit ++ "'" else bytesLit t
  | none => bytesLit t

def docLit (c : Codec) (escAll sp : Bool) (j : J) : String := textLit (J.text c.yaml escAll sp j)

/-- document cases: decode, decode∘encode∘decode, and the re-encoded document seen by the strict decoder -/
def docCaseWith (lit tag : String) (id : String) (c : Codec) (j : J) (mode : Nat) : Case :=
  let dup := c.yaml && j.hasDupKeys
  let pre := c.name ++ "/" ++ tag
  let frag := c.yaml && j.yamlFragile && !dup
  match mode with
  | 0 =>
    let m := if dup then "error" else (toArrai true j).den.canon
    evalCase id (pre ++ "decode-strict") "good" s!"{decSrc c true}({lit})" m m
  | 1 =>
    let m := if dup then "error" else (toArrai false j).den.canon
    evalCase id (pre ++ "decode-nonstrict") "good" s!"{decSrc c false}({lit})" m m
  | 2 =>
    let s := if dup then "error" else (toArrai true j).den.canon
    let m := if dup then "error" else (reDecode true j).obs
    evalCase id (pre ++ "redecode-strict") (if frag then "KF-yaml-block-scalar" else "good")
      s!"let v = {decSrc c true}({lit}); {decSrc c true}({encSrc c true}(v))" m s
  | 3 =>
    let s := if dup then "error" else (toArrai false j).den.canon
    let m := if dup then "error" else (reDecode false j).obs
    let cls := if frag then "KF-yaml-block-scalar"
      else if j.hasEmptyish && !dup then "KF-json-nonstrict-empty" else "good"
    evalCase id (pre ++ "redecode-nonstrict") cls
      s!"let v = {decSrc c false}({lit}); {decSrc c false}({encSrc c false}(v))" m s
  | 4 =>
    -- the document strict encoding writes, read back by the strict decoder: the same content
    let s := if dup then "error" else (toArrai true j.norm).den.canon
    let m := if dup then "error" else ((fromArrai true (toArrai true j)).map (toArrai true)).obs
    evalCase id (pre ++ "reencoded-doc-strict") (if frag then "KF-yaml-block-scalar" else "good")
      s!"{decSrc c true}({encSrc c true}({decSrc c true}({lit})))" m s
  | _ =>
    -- the document non-strict encoding writes, read by the strict decoder
    let s := if dup then "error" else (toArrai true j.norm).den.canon
    let m := if dup then "error" else ((fromArrai false (toArrai false j)).map (toArrai true)).obs
    let cls := if frag then "KF-yaml-block-scalar"
      else if j.hasEmptyish && !dup then "KF-json-nonstrict-empty" else "good"
    evalCase id (pre ++ "reencoded-doc-nonstrict") cls
      s!"{decSrc c true}({encSrc c false}({decSrc c false}({lit})))" m s

def docCase (id : String) (c : Codec) (j : J) (mode : Nat) (escAll sp : Bool) : Case :=
  docCaseWith (docLit c escAll sp j) "" id c j mode

/-! YAML mappings with NON-STRING scalar keys (ints, floats, bools, null), mixed with string keys and nested:
`ToArrai` stringifies such keys with `%v` (1 → "1", 1e3 → "1000", null → "<nil>"), so the decoded value is an
ordinary string-keyed dict and decode→encode→decode is stable.  The document is generated as its stringified
tree `j`; the text writes the keys that have a bare form as bare scalars. -/

/-- (stringified key, bare YAML scalars that denote it) -/
def bareKeys : List (String × List String) :=
  [("1", ["1", "0x1", "+1"]), ("7", ["7"]), ("-3", ["-3"]), ("0", ["0"]), ("42", ["42", "0x2A", "0o52"]),
   ("1000", ["1e3", "1000", "1000.0"]), ("2.5", ["2.5", "25e-1"]), ("-0.5", ["-0.5", "-.5"]), ("0.1", ["0.1"]),
   ("true", ["true", "True"]), ("false", ["false", "FALSE"]), ("<nil>", ["null", "~", "Null"]),
   ("9007199254740993", ["9007199254740993"]), ("1e+21", ["1e21"])]

def bareOf (k : Key) (pickIdx : Nat) : Option String :=
  match bareKeys.find? (fun p => keyOf p.1 == k) with
  | some (_, forms) => forms[pickIdx % forms.length]?
  | none => none

mutual
/-- YAML flow text of `j` whose object keys are written bare when they have a bare form -/
def J.textBare (n : Nat) : J → String
  | .arr xs => "[" ++ ", ".intercalate (J.textBareList n xs) ++ "]"
  | .obj kvs => "{" ++ ", ".intercalate (J.textBareKvs n kvs) ++ "}"
  | j => nameOf (J.text true true false j)
def J.textBareList (n : Nat) : List J → List String
  | [] => []
  | x :: r => J.textBare n x :: J.textBareList (n + 1) r
def J.textBareKvs (n : Nat) : List (Key × J) → List String
  | [] => []
  | (k, v) :: r =>
    ((match bareOf k n with
      | some b => b
      | none => nameOf (textStr true true k)) ++ ": " ++ J.textBare (n + 1) v) :: J.textBareKvs (n + 3) r
end

def genKeyedJ : Nat → Gen J
  | 0 => do
    let r ← rand 6
    if r < 2 then pure (.num (← genInt)) else if r < 4 then pure (.str (← genAsciiStr 3))
    else if r < 5 then pure .null else pure (.bool true)
  | d + 1 => do
    let r ← rand 8
    if r < 1 then genKeyedJ 0
    else if r < 3 then pure (.arr (← genList ((← rand 3) + 1) (genKeyedJ d)))
    else
      let n ← rand 3
      let nonStr ← pickDistinct (bareKeys.map (fun p => keyOf p.1)) (n + 1)
      let strs ← pickDistinct [[97], [98], [107], [120, 121]] (← rand 3)
      let ks := if (← chance 1 2) then nonStr ++ strs else strs ++ nonStr
      pure (.obj (← ks.mapM (fun k => do pure (k, ← genKeyedJ d))))

/-- the text as an arr.ai string literal (ASCII only here) -/
def asciiLit (t : String) : String :=
  match strLit (keyOf t) with
  | some l => "'" ++ l ++ "'"
  | none => bytesLit (keyOf t)

def keyedCase (id : String) (j : J) (mode salt : Nat) : Case :=
  let lit := asciiLit (J.textBare salt j)
  if mode < 6 then docCaseWith lit "non-string-keys/" id ⟨"yaml", true⟩ j mode
  else
    -- the decoded value re-encoded as JSON
    let o := (toArrai true j.norm).den.canon
    evalCase id "yaml/non-string-keys/reencode-as-json" "good"
      s!"//encoding.json.decode(//encoding.json.encode(//encoding.yaml.decode({lit})))" o o

/-- encode an arbitrary value, read the document back with the strict decoder -/
def encCase (id : String) (c : Codec) (v : R) (strict : Bool) : Case :=
  let m := ((fromArrai strict v).map (toArrai true)).obs
  let src := s!"{decSrc c true}({encSrc c strict}({v.src}))"
  if strict then
    if plainSetJ v then evalCase id (c.name ++ "/encode-strict/plain-set") "KF-json-strict-sets" src m "error"
    else if hasOffset v then evalCase id (c.name ++ "/encode-strict/offset") "KF-codec-offsets" src m "error"
    else if c.yaml && hasFragile v then
      evalCase id (c.name ++ "/encode-strict/block-scalar") "KF-yaml-block-scalar" src m m
    else evalCase id (c.name ++ "/encode-strict") "good" src m m
  else
    -- non-strict encoding is lossy by design: only "a value or an error, the one the code specifies"
    evalCase id (c.name ++ "/encode-nonstrict") "good" src m m

def wireCase (id : String) (v : R) : Case :=
  let m := (Wire.roundTrip v).obs
  let s := v.den.canon
  let (cls, strat) :=
    if Spec.wireOk v then ("good", "wire/ok")
    else if nonArraySet v then ("KF-wire-sets", "wire/non-array-set")
    else if hasOffset v then ("KF-codec-offsets", "wire/offset")
    else if hasReserved v then ("KF-wire-reserved-name", "wire/reserved-name")
    else ("good", "wire/other")
  { id := id, cls := cls, kind := "wire", stratum := strat, model := m, spec := s, payload := [v.src] }

def wireDocKeys : List Key := [[97], [98], [107], kSet, [0xE9], []]

def genWireDoc : Nat → Gen J
  | 0 => do
    let r ← rand 8
    if r < 1 then pure .null
    else if r < 3 then pure (.bool (r == 1))
    else if r < 5 then pure (.num (← genInt))
    else if r < 7 then pure (.str (← genStr 3))
    else pure (.arr [])
  | d + 1 => do
    let r ← rand 10
    if r < 2 then genWireDoc 0
    else if r < 5 then pure (.arr (← genList (← rand 3) (genWireDoc d)))
    else if r < 7 then pure (.obj [(kSet, ← genWireDoc d)])
    else
      let ks ← pickDistinct wireDocKeys ((← rand 3) + 1)
      pure (.obj (← ks.mapM (fun k => do pure (k, ← genWireDoc d))))

def wireDocCase (id : String) (j : J) : Case :=
  let m := (Wire.unescape j).obs
  { id := id, cls := "good", kind := "wiredoc", stratum := "wire/document", model := m, spec := m,
    payload := [nameOf (J.text false false false j)] }

/-! csv -/
def csvFields : List Key :=
  [[], [], [97], [97, 98], [97, 44, 98], [113, 34, 114], [32, 120], [97, 10, 98], [97, 13, 10, 98], [13], [97, 13],
   [92, 46], [0xE9], [0x1F600], [35, 99], [34], [34, 34], [44], [10], [13, 10], [9, 97], [0xA0, 97], [97, 32],
   [13, 13, 10], [0x2028]]

def csvAlphabet : List Nat := [97, 98, 44, 34, 10, 13, 32, 97, 44, 34, 10]

def genField : Gen Key := do
  if (← chance 2 3) then pick csvFields
  else
    let n ← rand 5
    genList n (pick csvAlphabet)

def genMatrix : Gen (List (List Key)) := do
  let rows ← rand 4
  let cols ← rand 4
  let ragged ← chance 1 8
  genList rows (do
    let c ← if ragged then rand 4 else pure cols
    genList c genField)

def csvCls (m : List (List Key)) : String := if Spec.csvOk m then "good" else "KF-csv-stdlib"

def csvRtCase (id : String) (m : List (List Key)) : Case :=
  let v := Csv.matrixR m
  evalCase id (if Spec.csvOk m then "csv/roundtrip" else "csv/roundtrip/guarded-shape") (csvCls m)
    s!"//encoding.csv.decode(//encoding.csv.encode({v.src}))" (Csv.roundTrip 44 v).obs v.den.canon

def textObs (t : Key) : String := (R.bytes 0 (utf8s t)).den.canon

def csvEncCase (id : String) (m : List (List Key)) : Case :=
  let v := Csv.matrixR m
  let o := match Csv.encode 44 v with
    | .ok t => textObs t
    | _ => "error"
  evalCase id "csv/encode-text" "good" s!"//encoding.csv.encode({v.src})" o o

def csvDecCase (id : String) (t : Key) : Case :=
  let o := (Csv.decode 44 t).obs
  evalCase id "csv/decode-text" "good" s!"//encoding.csv.decode({textLit t})" o o

/-! bits -/
def genBitsN : Gen Nat := do
  let r ← rand 8
  if r < 2 then rand 64
  else if r < 4 then rand 1000000
  else if r < 5 then do
    let e ← rand 53
    pure (2 ^ e)
  else if r < 6 then do
    let e ← rand 53
    pure (2 ^ (e + 1) - 1)
  else do
    let hi ← rand (2 ^ 26)
    let lo ← rand (2 ^ 27)
    pure (hi * 2 ^ 27 + lo)

def natSetV (xs : List Nat) : V := V.mkSet (xs.map (fun x => V.num (Int.ofNat x)))
def natSetSrc (xs : List Nat) : String := "{" ++ ", ".intercalate (xs.map toString) ++ "}"

def bitsCase (id : String) (mode : Nat) (n : Nat) (s : List Nat) : Case :=
  match mode with
  | 0 => lawCase id "bits/mask-set" "good" s!"(l: //bits.mask(//bits.set({n})), r: {n})"
  | 1 =>
    let o := match Bits.set n with
      | .ok l => (natSetV l).canon
      | _ => "error"
    evalCase id "bits/set" "good" s!"//bits.set({n})" o o
  | 2 =>
    let o := match Bits.set (Bits.mask s) with
      | .ok l => (natSetV l).canon
      | _ => "error"
    evalCase id "bits/set-mask" "good" s!"//bits.set(//bits.mask({natSetSrc s}))" o (natSetV s).canon
  | _ => lawCase id "bits/mask" "good" s!"(l: //bits.mask({natSetSrc s}), r: {Bits.mask s})"

/-! float stream -/
def genDigits (n : Nat) : Gen Key := genList n (do pure (48 + (← rand 10)))

def genNumText : Gen Key := do
  let neg ← chance 1 3
  let il ← rand 20
  let first ← rand 9
  let ip ← if il == 0 then pure [48] else do pure ((49 + first) :: (← genDigits (il - 1)))
  let frac ← if (← chance 1 2) then do pure (46 :: (← genDigits ((← rand 6) + 1))) else pure []
  let ex ← if (← chance 1 3) then do
      let s ← pick [[], [45], [43]]
      let e ← rand 280
      pure ([101] ++ s ++ keyOf (toString e))
    else pure []
  pure ((if neg then [45] else []) ++ ip ++ frac ++ ex)

def floatDoc : Gen Key := do
  let r ← rand 3
  if r == 0 then genNumText
  else if r == 1 then do
    let a ← genNumText
    let b ← genNumText
    pure ([91] ++ a ++ [44, 32] ++ b ++ [93])
  else do
    let a ← genNumText
    pure (keyOf "{\"k\": " ++ a ++ [125])

/-- JSON strings written with \\uXXXX escapes that are lone surrogates (encoding/json reads U+FFFD) -/
def surrogateDoc : Gen Key := do
  let n ← rand 3
  let parts ← genList (n + 1) (do
    let r ← rand 4
    if r == 0 then pure (uEsc 0xD800)
    else if r == 1 then pure (uEsc 0xDFFF)
    else if r == 2 then pure (uEsc 0xD83D ++ uEsc 0xDE00)
    else pure [120])
  pure ([34] ++ parts.flatten ++ [34])

def floatCase (id : String) (c : Codec) (strict : Bool) (t : Key) : Case :=
  lawCase id (c.name ++ "/float-stream") "good"
    s!"let d = {bytesLit t}; let v = {decSrc c strict}(d); (l: v, r: {decSrc c strict}({encSrc c strict}(v)))"

def jsonC : Codec := ⟨"json", false⟩
def yamlC : Codec := ⟨"yaml", true⟩

/-! ### multi-step programs: ONE codec value bound by `let` and applied several times, every result
inspected afterwards.  Codec functions are pure, so the expected observable is the collection of the
individual results. -/

def jsonEncCfgs (strict : Bool) : List String :=
  if strict then ["()", "(strict: true)", "(indent: '  ')", "(prefix: ' ', indent: ' ')", "(escapeHTML: true)"]
  else ["(strict: false)", "(strict: false, indent: ' ')"]
def yamlEncCfgs (strict : Bool) : List String :=
  if strict then ["()", "(indent: 2)", "(strict: true)"] else ["(strict: false)", "(strict: false, indent: 2)"]
def decCfgs (strict : Bool) : List String := if strict then ["()", "(strict: true)"] else ["(strict: false)"]
def csvEncCfgs : List String := ["()", "(comma: 44)", "(crlf: false)"]
def csvDecCfgs : List String :=
  ["()", "(comma: 44)", "(fieldsPerRecord: 0)", "(lazyQuotes: false)", "(trimLeadingSpace: false)"]

/-- observable of a collection of results: an error anywhere is an error of the program -/
def collect (mk : List V → V) (rs : List (Out R)) : String :=
  if rs.all Out.isOk then
    (mk (rs.map (fun r => match r with | .ok v => v.den | _ => V.none))).canon
  else if rs.any (fun r => match r with | .panic => true | _ => false) then "panic" else "error"

def mkTupV (vs : List V) : V :=
  V.mkTup ((["first", "second", "third", "fourth"].zip vs) ++ (match vs with | v :: _ => [("again", v)] | [] => []))

def letsSrc (pre : String) (n : Nat) (f : Nat → String) : String :=
  String.join ((List.range n).map (fun i => s!"let {pre}{i} = {f i}; "))

def listSrc (n : Nat) (f : Nat → String) : String := ", ".intercalate ((List.range n).map f)

/-- the program shapes; `ds` = document/matrix literals, `enc`/`dec` = the names bound to the codec values -/
def multiSrc (shape : Nat) (ds : List String) : String × Nat :=
  let n := ds.length
  let d (i : Nat) : String := ds.getD i "{}"
  match shape with
  | 0 =>  -- every encoding is computed before any of them is read back
    (letsSrc "v" n (fun i => s!"dec({d i})") ++ letsSrc "e" n (fun i => s!"enc(v{i})") ++
      "[" ++ listSrc n (fun i => s!"dec(e{i})") ++ "]", 0)
  | 1 => ("[" ++ ", ".intercalate ds ++ "] >> dec(.) >> enc(.) >> dec(.)", 0)
  | 2 => ("((" ++ "{" ++ ", ".intercalate ds ++ "} => dec(.)) => enc(.)) => dec(.)", 1)
  | _ =>
    (letsSrc "e" n (fun i => s!"enc(dec({d i}))") ++
      "(" ++ listSrc n (fun i => s!"{["first", "second", "third", "fourth"].getD i "x"}: dec(e{i})") ++
      ", again: dec(e0))", 2)

def multiCls (c : Codec) (strict : Bool) (js : List J) : String :=
  if c.yaml && js.any J.hasDupKeys then "good"
  else if c.yaml && js.any J.yamlFragile then "KF-yaml-block-scalar"
  else if !strict && js.any J.hasEmptyish then "KF-json-nonstrict-empty"
  else "good"

def genDocs (depth : Nat) : Gen (List J) := do
  let n ← rand 3
  -- one long document and n+1 short ones, in a random position: a shared buffer shows when a shorter
  -- encoding follows a longer one
  let long ← genJ (depth + 1)
  let shorts ← genList (n + 1) (do genJ (← rand 2))
  let pos ← rand (n + 2)
  pure (shorts.take pos ++ [long] ++ shorts.drop pos)

def multiDocCase (id : String) (c : Codec) (strict : Bool) (js : List J) (shape : Nat)
    (encCfg decCfg : String) (escAll : Bool) : Case :=
  let dup (j : J) := c.yaml && j.hasDupKeys
  let ms := js.map (fun j => if dup j then Out.err else reDecode strict j)
  let ss := js.map (fun j => if dup j then Out.err else Out.ok (toArrai strict j))
  let ds := js.map (docLit c escAll false)
  let pre := s!"let enc = //encoding.{c.name}.encoder({encCfg}); let dec = //encoding.{c.name}.decoder({decCfg}); "
  let strat := c.name ++ "/multi/" ++ (["lets", "seq-map", "set-map", "tuple"].getD shape "tuple")
  if shape == 4 then
    -- the configured encoder (default configuration) writes the same bytes as the plain function, call after call
    let ok := ms.all Out.isOk
    let o := if ok then "ok" else "error"
    { id := id, cls := "good", kind := "law", stratum := c.name ++ "/multi/encoder-vs-encode", model := o, spec := o,
      payload := [s!"let enc = //encoding.{c.name}.encoder(()); let vs = [{", ".intercalate ds}] >> //encoding.{c.name}.decode(.); "
        ++ s!"(l: vs >> enc(.), r: vs >> //encoding.{c.name}.encode(.))"] }
  else if shape == 5 then
    let ms := js.map (fun j => if dup j then Out.err else reDecode true j)
    let ss := js.map (fun j => if dup j then Out.err else Out.ok (toArrai true j))
    evalCase id (c.name ++ "/multi/plain-functions") (multiCls c true js)
      (s!"[{", ".intercalate ds}] >> //encoding.{c.name}.decode(.) >> //encoding.{c.name}.encode(.) >> " ++
        s!"//encoding.{c.name}.decode(.)")
      (collect V.mkArr ms) (collect V.mkArr ss)
  else if shape == 6 then
    -- nested: an encoding is decoded inside the argument of another application of the same encoder (strict)
    let j0 := js.headD .null
    let j1 := js.getD 1 .null
    let bad := dup j0 || dup j1
    let inner := if bad then Out.err else reDecode true j1
    let outerOf (w : Out R) : Out R :=
      match w with
      | .ok w1 => (fromArrai true (.tuple [(kA, R.newArray [toArrai true j0, w1])])).map (toArrai true)
      | e => e
    let m := collect V.mkArr [outerOf inner, inner]
    let sp := collect V.mkArr
      [if bad then Out.err else Out.ok (.tuple [(kA, R.newArray [toArrai true j0, toArrai true j1])]),
       if bad then Out.err else Out.ok (toArrai true j1)]
    let d0 := ds.headD "{}"
    let d1 := ds.getD 1 "{}"
    evalCase id (c.name ++ "/multi/nested") (multiCls c true [j0, j1])
      (s!"let enc = //encoding.{c.name}.encoder({encCfg}); let dec = //encoding.{c.name}.decoder({decCfg}); " ++
        s!"let inner = enc(dec({d1})); let outer = enc((a: [dec({d0}), dec(inner)])); [dec(outer), dec(inner)]")
      m sp
  else
    let (body, kind) := multiSrc shape ds
    let mk : List V → V := if kind == 0 then V.mkArr else if kind == 1 then V.mkSet else mkTupV
    evalCase id strat (multiCls c strict js) (pre ++ body) (collect mk ms) (collect mk ss)

def genMatrices : Gen (List (List (List Key))) := do
  let n ← rand 3
  let big ← genList 3 (genList 3 genField)
  let smalls ← genList (n + 1) genMatrix
  let pos ← rand (n + 2)
  pure (smalls.take pos ++ [big] ++ smalls.drop pos)

def multiCsvCase (id : String) (ms : List (List (List Key))) (shape : Nat) (encCfg decCfg : String) : Case :=
  let vs := ms.map Csv.matrixR
  let model := vs.map (Csv.roundTrip 44)
  let spec := vs.map Out.ok
  let cls := if ms.all Spec.csvOk then "good" else "KF-csv-stdlib"
  let ds := vs.map R.src
  let n := ds.length
  let d (i : Nat) : String := ds.getD i "{}"
  let pre := s!"let enc = //encoding.csv.encoder({encCfg}); let dec = //encoding.csv.decoder({decCfg}); "
  match shape with
  | 0 =>
    evalCase id "csv/multi/lets" cls
      (pre ++ letsSrc "e" n (fun i => s!"enc({d i})") ++ "[" ++ listSrc n (fun i => s!"dec(e{i})") ++ "]")
      (collect V.mkArr model) (collect V.mkArr spec)
  | 1 =>
    evalCase id "csv/multi/seq-map" cls (pre ++ "[" ++ ", ".intercalate ds ++ "] >> enc(.) >> dec(.)")
      (collect V.mkArr model) (collect V.mkArr spec)
  | 2 =>
    evalCase id "csv/multi/plain-functions" cls
      ("[" ++ ", ".intercalate ds ++ "] >> //encoding.csv.encode(.) >> //encoding.csv.decode(.)")
      (collect V.mkArr model) (collect V.mkArr spec)
  | _ =>
    let o := "ok"
    { id := id, cls := "good", kind := "law", stratum := "csv/multi/encoder-vs-encode", model := o, spec := o,
      payload := [s!"let enc = //encoding.csv.encoder(()); let ms = [{", ".intercalate ds}]; "
        ++ "(l: ms >> enc(.), r: ms >> //encoding.csv.encode(.))"] }

def genMultiCase (id : String) (depth : Nat) : Gen Case := do
  let r ← rand 20
  if r < 14 then
    let c ← pick [jsonC, jsonC, yamlC]
    let strict ← chance 3 4
    let js ← genDocs depth
    let shape ← rand 7
    let strict := if shape ≥ 4 then true else strict
    let encCfg ← pick (if c.yaml then yamlEncCfgs strict else jsonEncCfgs strict)
    let decCfg ← pick (decCfgs strict)
    pure (multiDocCase id c strict js shape encCfg decCfg (← chance 1 3))
  else if r < 19 then
    pure (multiCsvCase id (← genMatrices) (← rand 4) (← pick csvEncCfgs) (← pick csvDecCfgs))
  else
    -- //encoding.bytes.decode is the identity on byte arrays, however often it is applied
    let ts ← genList 3 (genAsciiStr 6)
    let lits := ts.map bytesLit
    let o := (V.mkArr (ts.map (fun t => (R.bytes 0 (utf8s t)).den))).canon
    pure (evalCase id "bytes/multi" "good"
      ("let dec = //encoding.bytes.decode; [" ++ ", ".intercalate lits ++ "] >> dec(.) >> dec(.)") o o)

/-! ### non-finite and extreme numbers (implementation-only: outside the integer model).
Pinned behaviour of the unchanged tree, stated as laws through the `pin`/`wirenf`/`law` operations:
  JSON   encode of a value containing NaN or ±Inf is an ERROR (never a silently different document);
  YAML   `.inf`, `-.inf`, `.nan` survive decode and decode∘encode∘decode; encode∘decode preserves the value;
  CSV    a number (finite or not) in a matrix is an error; the strings 'NaN', '.inf' are ordinary fields;
  wire   MarshalToJSON rejects (panics on) a non-finite number — never delivers a changed value;
  huge / denormal / negative-zero documents satisfy decode∘encode∘decode = decode. -/

def nonFinite : List String := ["(1/0)", "(-1/0)", "(0/0)"]

/-- `x` (arr.ai source) placed at top level or nested; strict tagged forms and untagged (non-strict) forms -/
def nestStrict (x : String) : List String :=
  [x, s!"(a: [1, {x}])", "{'k': " ++ x ++ "}", s!"(a: [(a: [{x}, (s: 'q')]), ()])",
   "{'k': (a: [" ++ x ++ "]), 'j': 2}", s!"(a: [{x}, {x}])"]
def nestLoose (x : String) : List String := [x, s!"[1, {x}]", "{'k': " ++ x ++ "}", "[{'k': [" ++ x ++ "]}]"]

def yamlNonFiniteDocs : List String :=
  [".inf", "-.inf", ".nan", "[.inf, 1]", "[1, -.inf, .nan]", "{k: .inf}", "{k: [.nan, {j: -.inf}]}", "- .Inf\\n- .NaN\\n",
   "a: .NAN\\nb: -.INF\\n", "[+.inf]"]

def extremeDocs : List String :=
  ["5e-324", "-5e-324", "1e-320", "2.2250738585072014e-308", "2.2250738585072011e-308", "1.7976931348623157e308",
   "-1.7976931348623157e308", "1e308", "-0.0", "-0", "0.0", "[-0.0, 5e-324]", "{\"k\": 1.7976931348623157e308}",
   "4.9406564584124654e-324", "9007199254740993", "0.1", "1e-7", "123456789012345680000"]

def pinCase (id stratum prog expected spec : String) : Case :=
  { id := id, cls := "good", kind := "pin", stratum := stratum, model := spec, spec := spec, payload := [prog, expected] }

def genNonFiniteCase (id : String) : Gen Case := do
  let r ← rand 12
  let x ← pick nonFinite
  if r < 3 then
    -- JSON: rejected, strict and non-strict, json and (yaml-decoded) values alike
    let strict ← chance 2 3
    let v ← pick (if strict then nestStrict x else nestLoose x)
    pure (pinCase id "json/non-finite/encode" s!"{decSrc jsonC strict}({encSrc jsonC strict}({v}))" v "rejected")
  else if r < 5 then
    let strict ← chance 2 3
    let v ← pick (if strict then nestStrict x else nestLoose x)
    pure (pinCase id "yaml/non-finite/encode-decode" s!"{decSrc yamlC strict}({encSrc yamlC strict}({v}))" v "same")
  else if r < 7 then
    let d ← pick yamlNonFiniteDocs
    let strict ← chance 2 3
    pure (lawCase id "yaml/non-finite/redecode" "good"
      s!"let v = {decSrc yamlC strict}('{d}'); (l: v, r: {decSrc yamlC strict}({encSrc yamlC strict}(v)))")
  else if r < 8 then
    let d ← pick yamlNonFiniteDocs
    pure (pinCase id "json/non-finite/encode-yaml-value" s!"//encoding.json.encode(//encoding.yaml.decode('{d}'))" "0"
      "rejected")
  else if r < 9 then
    let m ← pick [s!"[[{x}]]", s!"[['a', {x}], ['b', 'c']]", "[[1.5]]"]
    pure (pinCase id "csv/non-finite" s!"//encoding.csv.decode(//encoding.csv.encode({m}))" m "rejected")
  else if r < 10 then
    let v ← pick (nestLoose x ++ nestStrict x ++ [s!"(x: {x}, y: 'z')"])
    pure { id := id, cls := "good", kind := "wirenf", stratum := "wire/non-finite", model := "rejected",
           spec := "rejected", payload := [v] }
  else
    let d ← pick extremeDocs
    let c ← pick [jsonC, yamlC]
    let strict ← chance 2 3
    pure (lawCase id (c.name ++ "/extreme-numbers") "good"
      s!"let v = {decSrc c strict}('{d}'); (l: v, r: {decSrc c strict}({encSrc c strict}(v)))")

/-! ### CSV with non-default configuration on both sides.  Matrices of plain cells in which exactly ONE cell
needs quoting (it contains the configured separator, the default comma, a quote, a leading space, a line
break, …), so nothing else forces a quoting path.  `decoder(cfg)(encoder(cfg)(m))` must be `m`. -/

def csvSeps : List Nat := [59, 124, 9, 58, 32, 44]

/-- the one special cell, for separator `sep` -/
def specialCells (sep : Nat) : List Key :=
  [[97, sep, 98], [sep], [sep, 97], [97, sep], [97, 44, 98], [113, 34, 114], [34], [32, 120], [9, 120], [97, 10, 98],
   [10], [97, 13, 98], [92, 46], [97, 59, 98], [97, 124, 98], [97, 58, 98], [120, 32, 121], [0xA0, 97], [35, 120]]

def plainCells : List Key := [[97], [98, 99], [120, 121, 122], [49], [50, 51], [65], [0xE9]]

def genOneSpecial (sep : Nat) : Gen (List (List Key)) := do
  let rows ← rand 3
  let cols ← rand 3
  let m ← genList (rows + 1) (genList (cols + 1) (pick plainCells))
  let i ← rand (rows + 1)
  let j ← rand (cols + 1)
  let sp ← pick (specialCells sep)
  pure (m.mapIdx (fun a r => if a = i then r.mapIdx (fun b c => if b = j then sp else c) else r))

def csvCfgCase (id : String) (sep : Nat) (m : List (List Key)) (variant : Nat) : Case :=
  let v := Csv.matrixR m
  let hasCR := m.any (fun r => r.any (fun f => f.contains 13))
  let hashFirst := m.any (fun r => match r with | (35 :: _) :: _ => true | _ => false)
  let ncols := (m.headD []).length
  match variant with
  | 0 =>
    -- separator only: the model (parametric in the separator) predicts the result
    evalCase id "csv/config/separator" (csvCls m)
      s!"//encoding.csv.decoder((comma: {sep}))(//encoding.csv.encoder((comma: {sep}))({v.src}))"
      (Csv.roundTrip sep v).obs v.den.canon
  | 1 =>
    -- the text the configured encoder writes
    let o := match Csv.encode sep v with
      | .ok t => textObs t
      | _ => "error"
    evalCase id "csv/config/encode-text" "good" s!"//encoding.csv.encoder((comma: {sep}, crlf: false))({v.src})" o o
  | _ =>
    -- further options on both sides (outside the Lean model): the round trip law, on the guarded class
    let crlf := variant % 2 == 0
    let decExtra := ["", ", lazyQuotes: true", s!", fieldsPerRecord: {ncols}", ", fieldsPerRecord: (-1)",
      ", comment: 35", ", trimLeadingSpace: true"].getD (variant / 2 % 6) ""
    let trimBad := variant / 2 % 6 == 5 && (sep == 32 || sep == 9)
    let commentBad := variant / 2 % 6 == 4 && (hashFirst || sep == 35)
    let guarded := Spec.csvOk m && !(crlf && hasCR) && !trimBad && !commentBad
    let prog := s!"//encoding.csv.decoder((comma: {sep}{decExtra}))(//encoding.csv.encoder((comma: {sep}, crlf: {crlf}))({v.src}))"
    if guarded then pinCase id "csv/config/options" prog v.src "same"
    else { pinCase id "csv/config/options/guarded-shape" prog v.src "same" with cls := "KF-csv-stdlib", spec := "same" }

def genCsvCfgCase (id : String) : Gen Case := do
  let sep ← pick csvSeps
  let m ← if (← chance 4 5) then genOneSpecial sep else genMatrix
  let r ← rand 10
  let variant ← if r < 4 then pure 0 else if r < 5 then pure 1 else do pure ((← rand 12) + 2)
  pure (csvCfgCase id sep m variant)

def genCase (idx : Nat) (big : Bool) : Gen Case := do
  let id := s!"C13-{idx}"
  let depth := if big then 3 else 2
  let r ← rand 132
  if r ≥ 127 then do
    let j ← genKeyedJ (depth - 1)
    pure (keyedCase id j (← rand 7) (← rand 6))
  else if r ≥ 119 then genCsvCfgCase id
  else if r ≥ 114 then genNonFiniteCase id
  else if r ≥ 100 then genMultiCase id (depth - 1)
  else if r < 30 then
    let j ← genJ depth
    docCase id jsonC j (← rand 6) (← chance 1 3) (← chance 1 3) |> pure
  else if r < 45 then
    let j ← genJ depth
    docCase id yamlC j (← rand 6) (← chance 1 3) (← chance 1 3) |> pure
  else if r < 57 then
    let v ← genR depth
    let c ← pick [jsonC, jsonC, yamlC]
    pure (encCase id c v true)
  else if r < 61 then
    let v ← genR depth
    pure (encCase id jsonC v false)
  else if r < 70 then
    pure (wireCase id (← genR depth))
  else if r < 73 then
    pure (wireDocCase id (← genWireDoc 2))
  else if r < 80 then
    pure (csvRtCase id (← genMatrix))
  else if r < 83 then
    pure (csvEncCase id (← genMatrix))
  else if r < 87 then
    let n ← rand 12
    pure (csvDecCase id (← genList n (pick csvAlphabet)))
  else if r < 94 then
    let n ← genBitsN
    let k ← rand 5
    let s ← pickDistinct (List.range 53) k
    pure (bitsCase id (← rand 4) n s)
  else if r < 99 then
    let c ← pick [jsonC, jsonC, yamlC]
    pure (floatCase id c (← chance 2 3) (← floatDoc))
  else
    pure { floatCase id jsonC (← chance 1 2) (← surrogateDoc) with stratum := "json/surrogate-escapes" }

/-- witnesses of the repaired defects, of every known finding, and minimised past failures -/
def corpus : List Case :=
  let errCase (id src : String) : Case := evalCase id "corpus" "good" src "error" "error"
  let s (str : String) : R := R.newString (keyOf str)
  [ -- repaired: panics that are errors now
    errCase "C13-corpus-0" "//encoding.json.encode({1: 2})",
    errCase "C13-corpus-1" "//encoding.yaml.encode({1: 2})",
    errCase "C13-corpus-2" "//bits.set(1.5)",
    errCase "C13-corpus-3" "//bits.set(2^63)",
    errCase "C13-corpus-4" "//encoding.json.encode((b: 1))",
    errCase "C13-corpus-5" "//encoding.json.encode((b: {1}))",
    errCase "C13-corpus-6" "//bits.set(-1)",
    errCase "C13-corpus-7" "//bits.mask(3)",
    { id := "C13-corpus-8", cls := "good", kind := "wiredoc", stratum := "corpus", model := "error", spec := "error",
      payload := ["null"] },
    { id := "C13-corpus-9", cls := "good", kind := "wiredoc", stratum := "corpus", model := "error", spec := "error",
      payload := ["[1, null]"] },
    -- repaired: the empty key, the empty matrix, YAML integers above the int range
    docCase "C13-corpus-10" jsonC (.obj [([], .num 1)]) 2 false false,
    docCase "C13-corpus-11" yamlC (.obj [([], .num 1)]) 2 false false,
    csvRtCase "C13-corpus-12" [],
    lawCase "C13-corpus-13" "corpus" "good"
      "let d = <<'18446744073709551615'>>; let v = //encoding.yaml.decode(d); (l: v, r: //encoding.yaml.decode(//encoding.yaml.encode(v)))",
    -- known findings
    encCase "C13-corpus-14" jsonC (.gset [.num 1, .num 2]) true,
    encCase "C13-corpus-15" yamlC (.gset [.num 1, .num 2]) true,
    encCase "C13-corpus-16" jsonC .tt true,
    encCase "C13-corpus-17" jsonC (.tuple [(kA, .tt)]) true,
    encCase "C13-corpus-18" jsonC (.tuple [(kS, .str 2 [97, 98])]) true,
    wireCase "C13-corpus-19" (.gset [.num 1, .num 2]),
    wireCase "C13-corpus-20" (.dict [(s "k", .num 1)]),
    wireCase "C13-corpus-21" (.tuple [(kSet, R.newArray [.num 1])]),
    wireCase "C13-corpus-22" (.str 2 [97, 98]),
    csvRtCase "C13-corpus-23" [[[]]],
    csvRtCase "C13-corpus-24" [[[97, 13, 10, 98]]],
    csvRtCase "C13-corpus-25" [[[97], [98]], [[99]]],
    docCase "C13-corpus-26" jsonC (.arr [.bool false, .str [], .arr [], .obj [], .null, .bool true]) 3 false false,
    { evalCase "C13-corpus-27" "yaml/timestamp" "KF-yaml-timestamp"
        "let v = //encoding.yaml.decode(<<'2020-01-01'>>); //encoding.yaml.decode(//encoding.yaml.encode(v))"
        "error" (R.tuple [(kS, s "2020-01-01")]).den.canon with stratum := "yaml/timestamp" },
    docCase "C13-corpus-32" yamlC (.obj [([10], .str [10, 97])]) 2 false false,
    docCase "C13-corpus-33" yamlC (.obj [([60, 60], .num 1)]) 2 false false,
    docCase "C13-corpus-39" yamlC (.obj [([107], .arr [.str [32, 97, 10, 99], .arr []])]) 2 false false,
    -- documents
    docCase "C13-corpus-28" jsonC (.obj [([97], .num 1), ([97], .num 2)]) 0 false false,
    docCase "C13-corpus-29" jsonC (.str [0x1F600, 34, 92, 0, 0x2028]) 2 true false,
    docCase "C13-corpus-30" yamlC (.str [0x1F600, 34, 92, 0, 0x2028, 0x85]) 2 false false,
    -- one encoder value applied twice: the first result must survive the second call
    evalCase "C13-corpus-40" "json/multi/corpus" "good"
      ("let enc = //encoding.json.encoder(()); let d = //encoding.json.decode; " ++
       "let first = enc(d('{\"a\":[1,2,3],\"b\":\"text\"}')); let second = enc(d('[null]')); [d(first), d(second)]")
      (V.mkArr [(toArrai true (.obj [([97], .arr [.num 1, .num 2, .num 3]), ([98], .str [116, 101, 120, 116])])).den,
                (toArrai true (.arr [.null])).den]).canon
      (V.mkArr [(toArrai true (.obj [([97], .arr [.num 1, .num 2, .num 3]), ([98], .str [116, 101, 120, 116])])).den,
                (toArrai true (.arr [.null])).den]).canon,
    -- non-finite numbers: JSON rejects, YAML preserves, the wire format rejects (by panicking: known finding)
    pinCase "C13-corpus-41" "corpus" "//encoding.json.encode(1/0)" "0" "rejected",
    pinCase "C13-corpus-42" "corpus" "//encoding.json.encode((a: [1, -1/0]))" "0" "rejected",
    pinCase "C13-corpus-43" "corpus" "//encoding.json.encoder((strict: false))([0/0])" "0" "rejected",
    lawCase "C13-corpus-44" "corpus" "good"
      "let v = //encoding.yaml.decode('[.inf, -.inf, .nan]'); (l: //encoding.yaml.decode(//encoding.yaml.encode(v)), r: (a: [1/0, -1/0, 0/0]))",
    pinCase "C13-corpus-45" "corpus" "//encoding.yaml.decode(//encoding.yaml.encode(//encoding.yaml.decode('.inf')))" "1/0" "same",
    pinCase "C13-corpus-46" "corpus" "//encoding.csv.decode(//encoding.csv.encode([['NaN', '.inf', '-Inf']]))"
      "[['NaN', '.inf', '-Inf']]" "same",
    { id := "C13-corpus-47", cls := "KF-wire-nonfinite-panic", kind := "wire", stratum := "wire/non-finite",
      model := "panic", spec := "error", payload := ["(a: [1, 1/0])"] },
    evalCase "C13-corpus-48" "corpus" "good" "//encoding.json.decode('1e999')" "error" "error",
    -- a cell containing the CONFIGURED separator, nothing else needing quotes
    csvCfgCase "C13-corpus-49" 59 [[[97, 59, 98], [99]]] 0,
    csvCfgCase "C13-corpus-50" 59 [[[97, 59, 98], [99]]] 1,
    csvCfgCase "C13-corpus-51" 9 [[[97], [98]], [[99, 9, 100], [101]]] 0,
    -- YAML mappings with non-string keys
    keyedCase "C13-corpus-52" (.obj [(keyOf "1", .str [97]), ([98], .num 2)]) 2 0,
    keyedCase "C13-corpus-53" (.obj [([120], .arr [.obj [(keyOf "7", .arr [.num 1, .num 2])]])]) 4 0,
    keyedCase "C13-corpus-54" (.obj [(keyOf "2.5", .obj []), (keyOf "<nil>", .num 1), (keyOf "true", .null)]) 6 0,
    -- configuration forms of the codecs
    evalCase "C13-corpus-34" "corpus" "good"
      "//encoding.json.decode(//encoding.json.encode_indent((a: [1, (s: 'x<>&'), {'k': ()}])))"
      (R.tuple [(kA, .arr 0 [.num 1, .tuple [(kS, s "x<>&")], .dict [(s "k", .tuple [])]])]).den.canon
      (R.tuple [(kA, .arr 0 [.num 1, .tuple [(kS, s "x<>&")], .dict [(s "k", .tuple [])]])]).den.canon,
    evalCase "C13-corpus-35" "corpus" "good"
      "//encoding.json.decode(//encoding.json.encoder((indent: '  ', prefix: ' ', escapeHTML: true))((s: 'x<>&')))"
      (R.tuple [(kS, s "x<>&")]).den.canon (R.tuple [(kS, s "x<>&")]).den.canon,
    evalCase "C13-corpus-36" "corpus" "good"
      "//encoding.yaml.decode(//encoding.yaml.encoder((indent: 2))({'k': (a: [1, (s: 'x')])}))"
      (R.dict [(s "k", .tuple [(kA, .arr 0 [.num 1, .tuple [(kS, s "x")]])])]).den.canon
      (R.dict [(s "k", .tuple [(kA, .arr 0 [.num 1, .tuple [(kS, s "x")]])])]).den.canon,
    -- YAML block style (the text layer is yaml.v3's; the tree is what the model sees)
    evalCase "C13-corpus-37" "corpus" "good"
      "//encoding.yaml.decode('a:\\n  - 1\\n  - x\\n  - null\\nb: true\\n')"
      (toArrai true (.obj [([97], .arr [.num 1, .str [120], .null]), ([98], .bool true)])).den.canon
      (toArrai true (.obj [([97], .arr [.num 1, .str [120], .null]), ([98], .bool true)])).den.canon,
    lawCase "C13-corpus-38" "corpus" "good"
      "let m = [['a;b', 'c\\nd'], ['', 'e']]; (l: //encoding.csv.decoder((comma: 59))(//encoding.csv.encoder((comma: 59, crlf: true))(m)), r: m)",
    wireCase "C13-corpus-31" (.tuple [([97], R.newArray [s "x", .tt, .empty, .tuple []])]) ]

def gen (seed n : Nat) (thorough : Bool) : List Case := Id.run do
  let mut out := corpus.reverse
  for i in [0:n] do
    let (c, _) := (genCase i thorough).run (seedOf seed (1300000 + i))
    out := c :: out
  pure out.reverse

end Arrai.C13
