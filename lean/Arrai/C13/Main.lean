import Arrai.Core.DriverMain
import Arrai.C13.Gen

def main (args : List String) : IO UInt32 := Arrai.driverMain Arrai.C13.gen args
