/-
  Shared `main` of the per-property driver executables:
    driver-cXX gen <seed> <n> <quick|thorough>
  prints one case per line (id, class, kind, stratum, model observable, spec observable, payload…).
-/
import Arrai.Core.Canon

namespace Arrai

def driverMain (gen : Nat → Nat → Bool → List Case) (args : List String) : IO UInt32 := do
  match args with
  | ["gen", seed, n, tier] =>
    let out ← IO.getStdout
    for c in gen seed.toNat! n.toNat! (tier == "thorough") do
      out.putStrLn c.line
    out.flush
    pure 0
  | _ =>
    IO.eprintln "usage: driver-cXX gen <seed> <n> <quick|thorough>"
    pure 2

end Arrai
