/-
  Canonical textual observables of a `V`, the PRNG, and the case line protocol shared by
  the Lean driver and the Go harness.  Core-only.
-/
import Arrai.Core.FinSet

namespace Arrai

def sortStrs (l : List String) : List String := l.mergeSort (fun a b => !(b < a))

def dedupAdj : List String → List String
  | [] => []
  | [a] => [a]
  | a :: b :: r => if a == b then dedupAdj (b :: r) else a :: dedupAdj (b :: r)

namespace V

/- `canon v`: numbers in decimal, tuples `(name:canon,…)` sorted as strings, sets
`{canon,…}` sorted as strings with duplicates removed.  The Go harness computes the same
string by walking `Enumerator`s with its own string sort (never with arr.ai's `Less`). -/
mutual
def canon : V → String
  | .num n => toString n
  | .tup as => "(" ++ ",".intercalate (sortStrs (canonAttrs as)) ++ ")"
  | .set xs => "{" ++ ",".intercalate (dedupAdj (sortStrs (canonList xs))) ++ "}"
def canonAttrs : List (String × V) → List String
  | [] => []
  | (n, v) :: r => (n ++ ":" ++ canon v) :: canonAttrs r
def canonList : List V → List String
  | [] => []
  | v :: r => canon v :: canonList r
end

/-! smart constructors that keep `V` canonical (sets sorted/deduplicated by `V.cmp`) -/
def mkSet (xs : List V) : V := .set (FinSet.mk xs)

def insAttr (n : String) (v : V) : List (String × V) → List (String × V)
  | [] => [(n, v)]
  | (m, w) :: r => if n < m then (n, v) :: (m, w) :: r else if n = m then (n, v) :: r else (m, w) :: insAttr n v r
def mkTup (as : List (String × V)) : V := .tup (as.foldr (fun p acc => insAttr p.1 p.2 acc) [])

/-- sequence sugar: element `i` of `xs` (if present) becomes `(@: off+i, name: x)` -/
def seqMembers (name : String) (off : Int) : List (Option V) → List V
  | [] => []
  | some x :: r => mkTup [("@", .num off), (name, x)] :: seqMembers name (off + 1) r
  | Option.none :: r => seqMembers name (off + 1) r
def mkSeq (name : String) (off : Int) (xs : List (Option V)) : V := mkSet (seqMembers name off xs)
def mkArr (xs : List V) : V := mkSeq "@item" 0 (xs.map some)
def mkStr (cs : List Nat) : V := mkSeq "@char" 0 (cs.map (fun c => some (.num (Int.ofNat c))))
def mkBytes (cs : List Nat) : V := mkSeq "@byte" 0 (cs.map (fun c => some (.num (Int.ofNat c))))

end V

/-! ## PRNG: xorshift64*, every random choice of every generator comes from one state -/
abbrev Gen := StateM UInt64

def nextU64 : Gen UInt64 := do
  let s ← get
  let s := s ^^^ (s >>> 12)
  let s := s ^^^ (s <<< 25)
  let s := s ^^^ (s >>> 27)
  set s
  pure (s * 2685821657736338717)

def rand (n : Nat) : Gen Nat := do
  let x ← nextU64
  pure (if n = 0 then 0 else (x >>> 11).toNat % n)

def randInt (lo hi : Int) : Gen Int := do
  let k ← rand (hi - lo + 1).toNat
  pure (lo + k)

def pick {α} [Inhabited α] (xs : List α) : Gen α := do
  let i ← rand xs.length
  pure (xs.getD i default)

def chance (num den : Nat) : Gen Bool := do
  let k ← rand den
  pure (k < num)

def genList {α} (n : Nat) (g : Gen α) : Gen (List α) := do
  let mut out := []
  for _ in [0:n] do
    out := (← g) :: out
  pure out.reverse

def seedOf (seed : Nat) (salt : Nat) : UInt64 :=
  let s : UInt64 := (UInt64.ofNat seed) * 0x9E3779B97F4A7C15 + (UInt64.ofNat salt) * 0xBF58476D1CE4E5B9 + 0x94D049BB133111EB
  if s == 0 then 88172645463325252 else s

/-! ## Case lines -/
structure Case where
  id : String            -- unique within a run
  cls : String           -- "good" or a known-finding id
  kind : String          -- harness operation
  model : String         -- observable predicted by the Lean transliteration (Impl)
  spec : String          -- observable demanded by the specification
  payload : List String  -- arguments of the harness operation
  stratum : String := ""
  deriving Inhabited

def escField (s : String) : String :=
  s.foldl (fun acc c =>
    if c == '\\' then acc ++ "\\\\"
    else if c == '\t' then acc ++ "\\t"
    else if c == '\n' then acc ++ "\\n"
    else if c == '\r' then acc ++ "\\r"
    else acc.push c) ""

def Case.line (c : Case) : String :=
  "\t".intercalate ((c.id :: c.cls :: c.kind :: c.stratum :: c.model :: c.spec :: c.payload).map escField)

end Arrai
