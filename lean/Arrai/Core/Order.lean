/-
  `V.cmp` is a lawful linear order: oriented, transitive, and `eq` exactly on equal values.
  Core-only.
-/
import Arrai.Core.V

namespace Arrai
namespace V

open Std

/-! ### `cmp a b = .eq ↔ a = b` -/
mutual
theorem cmp_eq_iff (a b : V) : cmp a b = .eq ↔ a = b := by
  cases a with
  | num x =>
    cases b <;> simp [cmp]
  | tup x =>
    cases b with
    | tup y => simp [cmp, cmpAttrs_eq_iff x y]
    | _ => simp [cmp]
  | set x =>
    cases b with
    | set y => simp [cmp, cmpList_eq_iff x y]
    | _ => simp [cmp]
theorem cmpAttrs_eq_iff (a b : List (String × V)) : cmpAttrs a b = .eq ↔ a = b := by
  cases a with
  | nil => cases b <;> simp [cmpAttrs]
  | cons p as =>
    obtain ⟨n, v⟩ := p
    cases b with
    | nil => simp [cmpAttrs]
    | cons q bs =>
      obtain ⟨m, w⟩ := q
      simp [cmpAttrs, cmp_eq_iff v w, cmpAttrs_eq_iff as bs, and_assoc]
theorem cmpList_eq_iff (a b : List V) : cmpList a b = .eq ↔ a = b := by
  cases a with
  | nil => cases b <;> simp [cmpList]
  | cons x as =>
    cases b with
    | nil => simp [cmpList]
    | cons y bs => simp [cmpList, cmp_eq_iff x y, cmpList_eq_iff as bs]
end

/-! ### orientation -/
mutual
theorem cmp_swap (a b : V) : cmp a b = (cmp b a).swap := by
  cases a with
  | num x =>
    cases b <;> simp [cmp]
    exact OrientedOrd.eq_swap
  | tup x =>
    cases b with
    | tup y => simp [cmp]; exact cmpAttrs_swap x y
    | _ => simp [cmp]
  | set x =>
    cases b with
    | set y => simp [cmp]; exact cmpList_swap x y
    | _ => simp [cmp]
theorem cmpAttrs_swap (a b : List (String × V)) : cmpAttrs a b = (cmpAttrs b a).swap := by
  cases a with
  | nil => cases b <;> simp [cmpAttrs]
  | cons p as =>
    obtain ⟨n, v⟩ := p
    cases b with
    | nil => simp [cmpAttrs]
    | cons q bs =>
      obtain ⟨m, w⟩ := q
      simp only [cmpAttrs, Ordering.swap_then]
      rw [← cmp_swap v w, ← cmpAttrs_swap as bs, ← OrientedOrd.eq_swap (a := n) (b := m)]
theorem cmpList_swap (a b : List V) : cmpList a b = (cmpList b a).swap := by
  cases a with
  | nil => cases b <;> simp [cmpList]
  | cons x as =>
    cases b with
    | nil => simp [cmpList]
    | cons y bs =>
      simp only [cmpList, Ordering.swap_then]
      rw [← cmp_swap x y, ← cmpList_swap as bs]
end

/-! ### transitivity of `lt` -/

/-- lexicographic step: first components `o₁ o₂ o₃`, rests `p₁ p₂ p₃`. -/
theorem lex_lt_trans {o₁ o₂ o₃ p₁ p₂ p₃ : Ordering}
    (hll : o₁ = .lt → o₂ = .lt → o₃ = .lt)
    (hle : o₁ = .lt → o₂ = .eq → o₃ = .lt)
    (hel : o₁ = .eq → o₂ = .lt → o₃ = .lt)
    (hee : o₁ = .eq → o₂ = .eq → o₃ = .eq)
    (hp : p₁ = .lt → p₂ = .lt → p₃ = .lt)
    (h₁ : o₁.then p₁ = .lt) (h₂ : o₂.then p₂ = .lt) : o₃.then p₃ = .lt := by
  rw [Ordering.then_eq_lt] at *
  rcases h₁ with h₁ | ⟨h₁, q₁⟩ <;> rcases h₂ with h₂ | ⟨h₂, q₂⟩
  · exact Or.inl (hll h₁ h₂)
  · exact Or.inl (hle h₁ h₂)
  · exact Or.inl (hel h₁ h₂)
  · exact Or.inr ⟨hee h₁ h₂, hp q₁ q₂⟩

mutual
theorem cmp_lt_trans (a b c : V) : cmp a b = .lt → cmp b c = .lt → cmp a c = .lt := by
  cases a with
  | num x =>
    cases b <;> cases c <;> simp [cmp]
    exact TransCmp.lt_trans
  | tup x =>
    cases b <;> cases c <;> simp [cmp]
    exact cmpAttrs_lt_trans x _ _
  | set x =>
    cases b <;> cases c <;> simp [cmp]
    exact cmpList_lt_trans x _ _
theorem cmpAttrs_lt_trans (a b c : List (String × V)) :
    cmpAttrs a b = .lt → cmpAttrs b c = .lt → cmpAttrs a c = .lt := by
  cases a with
  | nil => cases b <;> cases c <;> simp [cmpAttrs]
  | cons p as =>
    obtain ⟨n, v⟩ := p
    cases b with
    | nil => simp [cmpAttrs]
    | cons q bs =>
      obtain ⟨m, w⟩ := q
      cases c with
      | nil => simp [cmpAttrs]
      | cons r cs =>
        obtain ⟨k, u⟩ := r
        simp only [cmpAttrs]
        apply lex_lt_trans
        · exact TransCmp.lt_trans
        · intro h1 h2; rw [LawfulEqOrd.compare_eq_iff_eq] at h2; subst h2; exact h1
        · intro h1 h2; rw [LawfulEqOrd.compare_eq_iff_eq] at h1; subst h1; exact h2
        · intro h1 h2; rw [LawfulEqOrd.compare_eq_iff_eq] at *; subst h1; exact h2
        · apply lex_lt_trans
          · exact cmp_lt_trans v w u
          · intro h1 h2; rw [cmp_eq_iff] at h2; subst h2; exact h1
          · intro h1 h2; rw [cmp_eq_iff] at h1; subst h1; exact h2
          · intro h1 h2; rw [cmp_eq_iff] at *; subst h1; exact h2
          · exact cmpAttrs_lt_trans as bs cs
theorem cmpList_lt_trans (a b c : List V) :
    cmpList a b = .lt → cmpList b c = .lt → cmpList a c = .lt := by
  cases a with
  | nil => cases b <;> cases c <;> simp [cmpList]
  | cons x as =>
    cases b with
    | nil => simp [cmpList]
    | cons y bs =>
      cases c with
      | nil => simp [cmpList]
      | cons z cs =>
        simp only [cmpList]
        apply lex_lt_trans
        · exact cmp_lt_trans x y z
        · intro h1 h2; rw [cmp_eq_iff] at h2; subst h2; exact h1
        · intro h1 h2; rw [cmp_eq_iff] at h1; subst h1; exact h2
        · intro h1 h2; rw [cmp_eq_iff] at *; subst h1; exact h2
        · exact cmpList_lt_trans as bs cs
end

theorem cmp_self (a : V) : cmp a a = .eq := (cmp_eq_iff a a).2 rfl

theorem cmp_gt_iff (a b : V) : cmp a b = .gt ↔ cmp b a = .lt := by
  rw [cmp_swap a b]; cases cmp b a <;> simp

/-- trichotomy of the structural order -/
theorem cmp_trichotomy (a b : V) : cmp a b = .lt ∨ a = b ∨ cmp b a = .lt := by
  cases h : cmp a b
  · exact Or.inl rfl
  · exact Or.inr (Or.inl ((cmp_eq_iff a b).1 h))
  · exact Or.inr (Or.inr ((cmp_gt_iff a b).1 h))

theorem cmp_lt_irrefl (a : V) : cmp a a ≠ .lt := by simp [cmp_self]

theorem cmp_lt_asymm (a b : V) : cmp a b = .lt → cmp b a ≠ .lt := by
  intro h h'; have := cmp_lt_trans a b a h h'; simp [cmp_self] at this

end V
end Arrai
