/-
  Finite sets of values as strictly `V.cmp`-sorted lists.  This is the mathematical
  reference ("Spec") for every set-algebra property: extensionality (`sorted_ext`) says that
  a sorted list is determined by its members, so `=` on canonical lists *is* set equality.
  Core-only.
-/
import Arrai.Core.Order

namespace Arrai
namespace FinSet

open V

/-- strictly increasing w.r.t. `V.cmp` -/
def Sorted (l : List V) : Prop := l.Pairwise (fun a b => cmp a b = .lt)

def ins (x : V) : List V → List V
  | [] => [x]
  | y :: ys =>
    match cmp x y with
    | .lt => x :: y :: ys
    | .eq => y :: ys
    | .gt => y :: ins x ys

/-- canonical form of an arbitrary list of members -/
def mk (xs : List V) : List V := xs.foldr ins []

def union (a b : List V) : List V := a.foldr ins b
def inter (a b : List V) : List V := a.filter (fun x => decide (x ∈ b))
def diff (a b : List V) : List V := a.filter (fun x => !decide (x ∈ b))
def symdiff (a b : List V) : List V := union (diff a b) (diff b a)
def erase (a : List V) (x : V) : List V := a.filter (fun y => !decide (y = x))
def subset (a b : List V) : Bool := a.all (fun x => decide (x ∈ b))
def card (a : List V) : Nat := a.length

theorem sorted_nil : Sorted [] := List.Pairwise.nil

theorem mem_ins (x y : V) (l : List V) : y ∈ ins x l ↔ y = x ∨ y ∈ l := by
  induction l with
  | nil => simp [ins]
  | cons z zs ih =>
    unfold ins
    cases h : cmp x z with
    | lt => simp
    | eq =>
      have : x = z := (cmp_eq_iff x z).1 h
      subst this; simp
    | gt =>
      simp [ih]
      constructor
      · rintro (h | h | h) <;> simp [h]
      · rintro (h | h | h) <;> simp [h]

theorem sorted_ins (x : V) (l : List V) (hl : Sorted l) : Sorted (ins x l) := by
  induction l with
  | nil => simp [ins, Sorted]
  | cons z zs ih =>
    unfold ins
    cases h : cmp x z with
    | lt =>
      simp only
      unfold Sorted at *
      rw [List.pairwise_cons]
      refine ⟨?_, hl⟩
      intro a ha
      rcases List.mem_cons.1 ha with rfl | ha
      · exact h
      · exact cmp_lt_trans _ _ _ h ((List.pairwise_cons.1 hl).1 a ha)
    | eq => exact hl
    | gt =>
      simp only
      unfold Sorted at *
      rw [List.pairwise_cons] at hl ⊢
      refine ⟨?_, ih hl.2⟩
      intro a ha
      rcases (mem_ins x a zs).1 ha with rfl | ha
      · exact (cmp_gt_iff _ _).1 h
      · exact hl.1 a ha

theorem sorted_mk (xs : List V) : Sorted (mk xs) := by
  induction xs with
  | nil => exact sorted_nil
  | cons x xs ih => exact sorted_ins x _ ih

theorem mem_mk (xs : List V) (y : V) : y ∈ mk xs ↔ y ∈ xs := by
  induction xs with
  | nil => simp [mk]
  | cons x xs ih =>
    show y ∈ ins x (mk xs) ↔ _
    rw [mem_ins, ih]; simp

/-- A strictly sorted list is determined by its members. -/
theorem sorted_ext : ∀ (a b : List V), Sorted a → Sorted b → (∀ x, x ∈ a ↔ x ∈ b) → a = b
  | [], [], _, _, _ => rfl
  | [], y :: ys, _, _, h => by have := (h y).2 (by simp); simp at this
  | x :: xs, [], _, _, h => by have := (h x).1 (by simp); simp at this
  | x :: xs, y :: ys, ha, hb, h => by
    unfold Sorted at ha hb
    rw [List.pairwise_cons] at ha hb
    have hxy : x = y := by
      rcases cmp_trichotomy x y with hlt | heq | hgt
      · -- x < y: x ∈ y :: ys, so x = y or y < x
        have hx : x ∈ y :: ys := (h x).1 (by simp)
        rcases List.mem_cons.1 hx with e | hx
        · exact e
        · exact absurd hlt (cmp_lt_asymm _ _ (hb.1 x hx))
      · exact heq
      · have hy : y ∈ x :: xs := (h y).2 (by simp)
        rcases List.mem_cons.1 hy with e | hy
        · exact e.symm
        · exact absurd hgt (cmp_lt_asymm _ _ (ha.1 y hy))
    subst hxy
    congr 1
    apply sorted_ext xs ys ha.2 hb.2
    intro z
    constructor
    · intro hz
      have : z ∈ x :: ys := (h z).1 (List.mem_cons_of_mem _ hz)
      rcases List.mem_cons.1 this with e | hz'
      · subst e; exact absurd (ha.1 z hz) (cmp_lt_irrefl z)
      · exact hz'
    · intro hz
      have : z ∈ x :: xs := (h z).2 (List.mem_cons_of_mem _ hz)
      rcases List.mem_cons.1 this with e | hz'
      · subst e; exact absurd (hb.1 z hz) (cmp_lt_irrefl z)
      · exact hz'

theorem sorted_nodup (a : List V) (h : Sorted a) : a.Nodup := by
  unfold Sorted at h
  exact h.imp (fun {x y} hxy e => by subst e; exact cmp_lt_irrefl x hxy)

/-! ### the set operations are exact -/

theorem mem_union (a b : List V) (x : V) : x ∈ union a b ↔ x ∈ a ∨ x ∈ b := by
  induction a with
  | nil => simp [union]
  | cons y ys ih =>
    show x ∈ ins y (union ys b) ↔ _
    rw [mem_ins, ih]; simp [or_assoc]

theorem sorted_union (a b : List V) (hb : Sorted b) : Sorted (union a b) := by
  induction a with
  | nil => exact hb
  | cons y ys ih => exact sorted_ins y _ ih

theorem sorted_filter (p : V → Bool) (a : List V) (h : Sorted a) : Sorted (a.filter p) :=
  List.Pairwise.filter p h

theorem mem_inter (a b : List V) (x : V) : x ∈ inter a b ↔ x ∈ a ∧ x ∈ b := by simp [inter]
theorem mem_diff (a b : List V) (x : V) : x ∈ diff a b ↔ x ∈ a ∧ x ∉ b := by simp [diff]
theorem mem_erase (a : List V) (v x : V) : x ∈ erase a v ↔ x ∈ a ∧ x ≠ v := by simp [erase]
theorem mem_symdiff (a b : List V) (x : V) :
    x ∈ symdiff a b ↔ (x ∈ a ∧ x ∉ b) ∨ (x ∈ b ∧ x ∉ a) := by
  simp [symdiff, mem_union, mem_diff]
theorem sorted_inter (a b : List V) (h : Sorted a) : Sorted (inter a b) := sorted_filter _ a h
theorem sorted_diff (a b : List V) (h : Sorted a) : Sorted (diff a b) := sorted_filter _ a h
theorem sorted_erase (a : List V) (v : V) (h : Sorted a) : Sorted (erase a v) := sorted_filter _ a h
theorem sorted_symdiff (a b : List V) (hb : Sorted b) : Sorted (symdiff a b) :=
  sorted_union _ _ (sorted_diff b a hb)
theorem subset_iff (a b : List V) : subset a b = true ↔ ∀ x, x ∈ a → x ∈ b := by
  simp [subset]

/-- inserting into a canonical set: the count grows by one exactly for a new member -/
theorem card_ins (x : V) (l : List V) (hl : Sorted l) :
    card (ins x l) = if x ∈ l then card l else card l + 1 := by
  induction l with
  | nil => simp [ins, card]
  | cons z zs ih =>
    unfold Sorted at hl
    rw [List.pairwise_cons] at hl
    unfold ins
    cases h : cmp x z with
    | lt =>
      have hne : x ∉ z :: zs := by
        intro hx
        rcases List.mem_cons.1 hx with e | hx
        · subst e; exact cmp_lt_irrefl _ h
        · exact cmp_lt_asymm _ _ h (hl.1 x hx)
      simp [card, hne]
    | eq =>
      have : x = z := (cmp_eq_iff x z).1 h
      subst this; simp [card]
    | gt =>
      have hxz : x ≠ z := by
        intro e; subst e; simp [cmp_self] at h
      have ih' := ih hl.2
      simp only [card] at ih' ⊢
      simp [List.mem_cons, hxz, ih']
      split <;> simp

end FinSet
end Arrai
