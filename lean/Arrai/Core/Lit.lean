/-
  `Lit`: data values *as written* — every literal form in which arr.ai lets a value be spelled
  (sugar for strings, byte arrays, arrays with holes and offsets, dictionaries, relation literals,
  booleans, plain sets and tuples).  `Lit.src` prints arr.ai source, `Lit.den` is the meaning in `V`.
  Shared by the value-layer properties (C01–C07, C09, C12).  Core-only.
-/
import Arrai.Core.Canon

namespace Arrai

inductive Lit where
  | num (n : Int)
  | str (off : Int) (cs : List Nat)                 -- off\'…' (code points)
  | bytes (off : Int) (bs : List Nat)               -- off\<<…>>
  | arr (off : Int) (xs : List (Option Lit))        -- off\[a, , b]
  | dict (kvs : List (Lit × Lit))                   -- {k: v, …}
  | set (xs : List Lit)                             -- {a, b, …}
  | tup (kvs : List (String × Lit))                 -- (a: 1, …)
  | rel (names : List String) (rows : List (List Lit))   -- {|a, b| (1, 2), …}
  | tt | ff
  deriving Inhabited

namespace Lit

/-! ## meaning -/
def zipAttrs : List String → List V → List (String × V)
  | n :: ns, v :: vs => (n, v) :: zipAttrs ns vs
  | _, _ => []

mutual
def den : Lit → V
  | .num n => .num n
  | .str off cs => V.mkSeq "@char" off (cs.map (fun c => some (.num (Int.ofNat c))))
  | .bytes off bs => V.mkSeq "@byte" off (bs.map (fun c => some (.num (Int.ofNat c))))
  | .arr off xs => V.mkSeq "@item" off (denOpts xs)
  | .dict kvs => V.mkSet (denPairs kvs)
  | .set xs => V.mkSet (denList xs)
  | .tup kvs => V.mkTup (denAttrs kvs)
  | .rel names rows => V.mkSet (denRows names rows)
  | .tt => V.tt
  | .ff => V.none
def denOpts : List (Option Lit) → List (Option V)
  | [] => []
  | some x :: r => some (den x) :: denOpts r
  | none :: r => none :: denOpts r
def denPairs : List (Lit × Lit) → List V
  | [] => []
  | (k, v) :: r => V.mkTup [("@", den k), ("@value", den v)] :: denPairs r
def denList : List Lit → List V
  | [] => []
  | x :: r => den x :: denList r
def denAttrs : List (String × Lit) → List (String × V)
  | [] => []
  | (n, v) :: r => (n, den v) :: denAttrs r
def denRows (names : List String) : List (List Lit) → List V
  | [] => []
  | row :: r => V.mkTup (zipAttrs names (denList row)) :: denRows names r
end

/-! ## source text -/
def hex4 (n : Nat) : String :=
  let d (k : Nat) : Char := "0123456789abcdef".toList.getD k '0'
  String.ofList [d (n / 4096 % 16), d (n / 256 % 16), d (n / 16 % 16), d (n % 16)]

/-- a code point inside single quotes (printable ASCII literally, everything else escaped) -/
def charSrc (c : Nat) : String :=
  if c == 39 then "\\'" else if c == 92 then "\\\\"
  else if c == 10 then "\\n" else if c == 9 then "\\t" else if c == 13 then "\\r"
  else if 32 ≤ c && c < 127 then String.singleton (Char.ofNat c)
  else if c < 65536 then "\\u" ++ hex4 c
  else String.singleton (Char.ofNat c)

def isIdent (s : String) : Bool :=
  match s.toList with
  | [] => false
  | c :: r => (c.isAlpha || c == '_' ) && r.all (fun d => d.isAlphanum || d == '_')

def nameSrc (n : String) : String :=
  if isIdent n || n == "@" || (n.startsWith "@" && isIdent (n.drop 1).toString) then n
  else "'" ++ String.join (n.toList.map (fun c => charSrc c.toNat)) ++ "'"

def offSrc (off : Int) (body : String) : String :=
  if off == 0 then body else "(" ++ toString off ++ ")\\" ++ body

def numSrc (n : Int) : String := if n < 0 then "(" ++ toString n ++ ")" else toString n

mutual
def src : Lit → String
  | .num n => numSrc n
  | .str off cs => offSrc off ("'" ++ String.join (cs.map charSrc) ++ "'")
  | .bytes off bs => offSrc off ("<<" ++ ", ".intercalate (bs.map toString) ++ ">>")
  | .arr off xs => offSrc off ("[" ++ ", ".intercalate (srcOpts xs) ++ "]")
  | .dict kvs => "{" ++ ", ".intercalate (srcPairs kvs) ++ "}"
  | .set xs => "{" ++ ", ".intercalate (srcList xs) ++ "}"
  | .tup kvs => "(" ++ ", ".intercalate (srcAttrs kvs) ++ ")"
  | .rel names rows => "{|" ++ ", ".intercalate (names.map nameSrc) ++ "| " ++ ", ".intercalate (srcRows rows) ++ "}"
  | .tt => "true"
  | .ff => "false"
def srcOpts : List (Option Lit) → List String
  | [] => []
  | some x :: r => src x :: srcOpts r
  | none :: r => "" :: srcOpts r
def srcPairs : List (Lit × Lit) → List String
  | [] => []
  | (k, v) :: r => (src k ++ ": " ++ src v) :: srcPairs r
def srcList : List Lit → List String
  | [] => []
  | x :: r => src x :: srcList r
def srcAttrs : List (String × Lit) → List String
  | [] => []
  | (n, v) :: r => (nameSrc n ++ ": " ++ src v) :: srcAttrs r
def srcRows : List (List Lit) → List String
  | [] => []
  | row :: r => ("(" ++ ", ".intercalate (srcList row) ++ ")") :: srcRows r
end

/-! ## generator -/

/-- drop later elements whose meaning (by `key`) repeats an earlier one -/
def dedupBy {α} (key : α → V) (l : List α) : List α :=
  (l.foldl (fun acc x => if acc.any (fun y => decide (key y = key x)) then acc else x :: acc) []).reverse

instance : BEq V := ⟨fun a b => decide (a = b)⟩

def genSmallInt : Gen Int := randInt (-2) 3
def genChars : Gen (List Nat) := do
  let n ← rand 4
  genList n (do pure (97 + (← rand 3)))
def genOff : Gen Int := do
  let r ← rand 6
  pure (match r with | 0 => 2 | 1 => -1 | 2 => 1 | _ => 0)

/-- holes only strictly inside (arr.ai trims leading/trailing holes of a literal anyway) -/
def withHoles (xs : List Lit) : Gen (List (Option Lit)) := do
  let n := xs.length
  let mut out : List (Option Lit) := []
  let mut i := 0
  for x in xs do
    let hole ← chance 1 5
    out := (if hole && 0 < i && i + 1 < n then none else some x) :: out
    i := i + 1
  pure out.reverse

def attrNames : List String := ["a", "b", "c", "x"]

def genLit : Nat → Gen Lit
  | 0 => do
    let r ← rand 10
    match r with
    | 0 => pure .tt
    | 1 => pure .ff
    | 2 => do pure (.str 0 (← genChars))
    | 3 => pure (.set [])
    | _ => do pure (.num (← genSmallInt))
  | d + 1 => do
    let r ← rand 14
    match r with
    | 0 | 1 => genLit 0
    | 2 => do pure (.str (← genOff) (← genChars))
    | 3 => do
      let n ← rand 4
      pure (.bytes (← genOff) (← genList n (rand 3)))
    | 4 | 5 => do
      let n ← rand 4
      let xs ← genList n (genLit d)
      pure (.arr (← genOff) (← withHoles xs))
    | 6 | 7 => do
      let n ← rand 3
      let kvs ← genList n (do pure ((← genLit d), (← genLit d)))
      pure (.dict (dedupBy (fun kv => kv.1.den) kvs))
    | 8 | 9 => do
      let n ← rand 4
      pure (.set (← genList n (genLit d)))
    | 10 | 11 => do
      let n ← rand 3
      let names := (← genList n (pick attrNames)).eraseDups
      let vals ← genList names.length (genLit d)
      pure (.tup (names.zip vals))
    | _ => do
      let w ← rand 2
      let names := attrNames.take (w + 1)
      let m ← rand 3
      let rows ← genList (m + 1) (genList names.length (genLit d))
      pure (.rel names rows)

end Lit
end Arrai
