/-
  Core value type `V`: what an arr.ai data value *means* — a number, a tuple
  (finite map from names to values) or a finite set of values.
  Every specification in this development is stated over `V`.

  Core-only (no Mathlib): this file is linked into the `driver` executable.
-/
namespace Arrai

inductive V where
  | num : Int → V
  | tup : List (String × V) → V
  | set : List V → V
  deriving Inhabited

namespace V

/-! ## Boolean equality (nested inductive: no `deriving DecidableEq`) -/

mutual
def beq : V → V → Bool
  | .num a, .num b => a == b
  | .tup a, .tup b => beqAttrs a b
  | .set a, .set b => beqList a b
  | _, _ => false
def beqAttrs : List (String × V) → List (String × V) → Bool
  | [], [] => true
  | (n, v) :: as, (m, w) :: bs => n == m && beq v w && beqAttrs as bs
  | _, _ => false
def beqList : List V → List V → Bool
  | [], [] => true
  | a :: as, b :: bs => beq a b && beqList as bs
  | _, _ => false
end

mutual
theorem beq_eq (a b : V) : beq a b = true ↔ a = b := by
  cases a with
  | num x => cases b <;> simp [beq]
  | tup x =>
    cases b with
    | tup y => simp [beq, beqAttrs_eq x y]
    | _ => simp [beq]
  | set x =>
    cases b with
    | set y => simp [beq, beqList_eq x y]
    | _ => simp [beq]
theorem beqAttrs_eq (a b : List (String × V)) : beqAttrs a b = true ↔ a = b := by
  cases a with
  | nil => cases b <;> simp [beqAttrs]
  | cons p as =>
    obtain ⟨n, v⟩ := p
    cases b with
    | nil => simp [beqAttrs]
    | cons q bs =>
      obtain ⟨m, w⟩ := q
      simp [beqAttrs, beq_eq v w, beqAttrs_eq as bs, and_assoc]
theorem beqList_eq (a b : List V) : beqList a b = true ↔ a = b := by
  cases a with
  | nil => cases b <;> simp [beqList]
  | cons x as =>
    cases b with
    | nil => simp [beqList]
    | cons y bs => simp [beqList, beq_eq x y, beqList_eq as bs]
end

instance : DecidableEq V := fun a b =>
  if h : beq a b = true then isTrue ((beq_eq a b).1 h)
  else isFalse (fun e => h ((beq_eq a b).2 e))

/-! ## A structural total order on `V` (used to keep sets in a canonical order) -/

mutual
def cmp : V → V → Ordering
  | .num a, .num b => compare a b
  | .num _, .tup _ => .lt
  | .num _, .set _ => .lt
  | .tup _, .num _ => .gt
  | .tup a, .tup b => cmpAttrs a b
  | .tup _, .set _ => .lt
  | .set _, .num _ => .gt
  | .set _, .tup _ => .gt
  | .set a, .set b => cmpList a b
def cmpAttrs : List (String × V) → List (String × V) → Ordering
  | [], [] => .eq
  | [], _ :: _ => .lt
  | _ :: _, [] => .gt
  | (n, v) :: as, (m, w) :: bs => (compare n m).then ((cmp v w).then (cmpAttrs as bs))
def cmpList : List V → List V → Ordering
  | [], [] => .eq
  | [], _ :: _ => .lt
  | _ :: _, [] => .gt
  | a :: as, b :: bs => (cmp a b).then (cmpList as bs)
end

/-! ## Constructors for the sugared forms -/

def bool (b : Bool) : V := if b then .set [.tup []] else .set []
def none : V := .set []
def tt : V := .set [.tup []]

/-- `(@: i, name: v)` -/
def pair (name : String) (i : V) (v : V) : V :=
  if "@" < name then .tup [("@", i), (name, v)] else .tup [(name, v), ("@", i)]

end V
end Arrai
