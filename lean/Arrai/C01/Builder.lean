/-
  C01 helper lemmas, part 2b: the SetBuilder — grouping by bucket and the per-bucket finish functions.
-/
import Arrai.C01.Ops

namespace Arrai.C01
open Arrai Arrai.FinSet KSeq

/-! ## grouping by bucket -/

def GroupsOK (g : List (Bucket × List V)) : Prop :=
  (g.map (·.1)).Nodup ∧ ∀ bv, bv ∈ g → bv.2 ≠ [] ∧ ∀ x, x ∈ bv.2 → bucketOf x = bv.1

def groupMem (g : List (Bucket × List V)) (x : V) : Prop := ∃ bv, bv ∈ g ∧ x ∈ bv.2

theorem keys_addToBucket (v : V) (g : List (Bucket × List V)) (k : Bucket) :
    k ∈ (addToBucket v g).map (·.1) ↔ k = bucketOf v ∨ k ∈ g.map (·.1) := by
  induction g with
  | nil => simp [addToBucket]
  | cons q r ih =>
    obtain ⟨b, vs⟩ := q
    simp only [addToBucket]
    by_cases hb : b = bucketOf v
    · subst hb; simp
    · simp only [hb, if_false, List.map_cons, List.mem_cons, ih]
      constructor
      · rintro (h | h | h)
        · exact Or.inr (Or.inl h)
        · exact Or.inl h
        · exact Or.inr (Or.inr h)
      · rintro (h | h | h)
        · exact Or.inr (Or.inl h)
        · exact Or.inl h
        · exact Or.inr (Or.inr h)

theorem addToBucket_spec (v : V) (g : List (Bucket × List V)) (h : GroupsOK g) :
    GroupsOK (addToBucket v g) ∧ ∀ x, groupMem (addToBucket v g) x ↔ x = v ∨ groupMem g x := by
  induction g with
  | nil =>
    refine ⟨⟨by simp [addToBucket], ?_⟩, ?_⟩
    · intro bv hbv
      simp only [addToBucket, List.mem_singleton] at hbv
      subst hbv
      exact ⟨by simp, by simp⟩
    · intro x
      simp [groupMem, addToBucket]
  | cons q r ih =>
    obtain ⟨b, vs⟩ := q
    have hk := h.1
    simp only [List.map_cons, List.nodup_cons] at hk
    have hr : GroupsOK r := ⟨hk.2, fun bv hm => h.2 bv (List.mem_cons_of_mem _ hm)⟩
    obtain ⟨i1, i2⟩ := ih hr
    obtain ⟨hne, hall⟩ := h.2 (b, vs) (by simp)
    simp only [addToBucket]
    by_cases hb : b = bucketOf v
    · subst hb
      simp only [if_true]
      refine ⟨⟨by simpa using hk, ?_⟩, ?_⟩
      · intro bv hbv
        rcases List.mem_cons.1 hbv with rfl | hbv
        · refine ⟨by simp, ?_⟩
          intro x hx
          rcases List.mem_append.1 hx with hx | hx
          · exact hall x hx
          · simp only [List.mem_singleton] at hx; subst hx; rfl
        · exact hr.2 bv hbv
      · intro x
        simp only [groupMem, List.mem_cons]
        constructor
        · rintro ⟨bv, (rfl | hbv), hx⟩
          · rcases List.mem_append.1 hx with hx | hx
            · exact Or.inr ⟨(bucketOf v, vs), Or.inl rfl, hx⟩
            · simp only [List.mem_singleton] at hx; exact Or.inl hx
          · exact Or.inr ⟨bv, Or.inr hbv, hx⟩
        · rintro (rfl | ⟨bv, (rfl | hbv), hx⟩)
          · exact ⟨_, Or.inl rfl, by simp⟩
          · exact ⟨_, Or.inl rfl, List.mem_append.2 (Or.inl hx)⟩
          · exact ⟨bv, Or.inr hbv, hx⟩
    · simp only [hb, if_false]
      refine ⟨⟨?_, ?_⟩, ?_⟩
      · simp only [List.map_cons, List.nodup_cons]
        refine ⟨?_, i1.1⟩
        intro hc
        rcases (keys_addToBucket v r b).1 hc with h1 | h1
        · exact hb h1
        · exact hk.1 h1
      · intro bv hbv
        rcases List.mem_cons.1 hbv with rfl | hbv
        · exact ⟨hne, hall⟩
        · exact i1.2 bv hbv
      · intro x
        have := i2 x
        simp only [groupMem, List.mem_cons] at this ⊢
        constructor
        · rintro ⟨bv, (rfl | hbv), hx⟩
          · exact Or.inr ⟨_, Or.inl rfl, hx⟩
          · rcases this.1 ⟨bv, hbv, hx⟩ with h1 | ⟨bv', hbv', hx'⟩
            · exact Or.inl h1
            · exact Or.inr ⟨bv', Or.inr hbv', hx'⟩
        · rintro (rfl | ⟨bv, (rfl | hbv), hx⟩)
          · obtain ⟨bv', hbv', hx'⟩ := this.2 (Or.inl rfl)
            exact ⟨bv', Or.inr hbv', hx'⟩
          · exact ⟨_, Or.inl rfl, hx⟩
          · obtain ⟨bv', hbv', hx'⟩ := this.2 (Or.inr ⟨bv, hbv, hx⟩)
            exact ⟨bv', Or.inr hbv', hx'⟩

theorem groupBuckets_spec (xs : List V) (g : List (Bucket × List V)) (h : GroupsOK g) :
    GroupsOK (groupBuckets g xs) ∧ ∀ x, groupMem (groupBuckets g xs) x ↔ groupMem g x ∨ x ∈ xs := by
  induction xs generalizing g with
  | nil => exact ⟨h, by simp [groupBuckets]⟩
  | cons v r ih =>
    obtain ⟨a1, a2⟩ := addToBucket_spec v g h
    obtain ⟨i1, i2⟩ := ih (addToBucket v g) a1
    refine ⟨i1, ?_⟩
    intro x
    simp only [groupBuckets]
    rw [i2, a2, List.mem_cons]
    constructor
    · rintro ((h1 | h1) | h1)
      · exact Or.inr (Or.inl h1)
      · exact Or.inl h1
      · exact Or.inr (Or.inr h1)
    · rintro (h1 | h1 | h1)
      · exact Or.inl (Or.inr h1)
      · exact Or.inl (Or.inl h1)
      · exact Or.inr h1

/-! ## the per-bucket finish functions -/

/-- what the builder cannot represent: two values at one index (KF-superimposed), a byte array with a
gap (KF-bytes-holes) -/
def FinishAdm (xs : List V) : Prop :=
  Functional (charPairs xs) ∧ Functional (bytePairs xs) ∧ NoGap (bytePairs xs) ∧ Functional (itemPairs xs)

theorem finishBucket_spec (b : Bucket) (vs : List V) (hne : vs ≠ []) (hb : ∀ x, x ∈ vs → bucketOf x = b)
    (hadm : FinishAdm vs) :
    (finishBucket b vs).WF ∧ (∀ x, x ∈ (finishBucket b vs).members ↔ x ∈ vs) ∧
    (finishBucket b vs).members ≠ [] ∧ (finishBucket b vs).bucket = b := by
  obtain ⟨a, r, rfl⟩ : ∃ a r, vs = a :: r := by
    cases vs with
    | nil => exact absurd rfl hne
    | cons a r => exact ⟨a, r, rfl⟩
  have nonempty_of_mem : ∀ (p : Plain), (∀ x, x ∈ p.members ↔ x ∈ a :: r) → p.members ≠ [] := by
    intro p hp hc
    have := (hp a).2 (by simp)
    rw [hc] at this; cases this
  cases b with
  | generic =>
    simp only [finishBucket]
    have hm : ∀ x, x ∈ (fromFrozen (FinSet.mk (a :: r))).members ↔ x ∈ a :: r := by
      intro x; rw [fromFrozen_members]; exact FinSet.mem_mk _ x
    refine ⟨fromFrozen_wf _ (FinSet.sorted_mk _) ?_, hm, nonempty_of_mem _ hm, fromFrozen_bucket _⟩
    intro x hx; exact hb x ((FinSet.mem_mk _ x).1 hx)
  | strChar =>
    simp only [finishBucket]
    have hch : ∀ x, x ∈ a :: r → ∃ i c, x = charV i c ∧ (i, c) ∈ charPairs (a :: r) := by
      intro x hx
      obtain ⟨⟨i, c⟩, hp⟩ := Option.isSome_iff_exists.1 ((bucketOf_strChar_iff x).1 (hb x hx))
      obtain ⟨rfl, hc⟩ := (asChar_eq_some x i c).1 hp
      exact ⟨i, c, rfl, (mem_charPairs _ i c).2 ⟨hx, hc⟩⟩
    have hne' : charPairs (a :: r) ≠ [] := by
      obtain ⟨i, c, _, hp⟩ := hch a (by simp)
      intro hc; rw [hc] at hp; cases hp
    obtain ⟨w1, w2⟩ := asString_spec _ hne' hadm.1 (by
      rintro ⟨i, c⟩ hp; exact ((mem_charPairs _ i c).1 hp).2)
    have hm : ∀ x, x ∈ (asString (charPairs (a :: r))).members ↔ x ∈ a :: r := by
      intro x
      rw [w2]
      constructor
      · rintro ⟨i, c, rfl, hp⟩; exact ((mem_charPairs _ i c).1 hp).1
      · exact hch x
    exact ⟨w1, hm, nonempty_of_mem _ hm, rfl⟩
  | bytesByte =>
    simp only [finishBucket]
    have hch : ∀ x, x ∈ a :: r → ∃ i c, x = byteV i c ∧ (i, c) ∈ bytePairs (a :: r) := by
      intro x hx
      obtain ⟨⟨i, c⟩, hp⟩ := Option.isSome_iff_exists.1 ((bucketOf_bytesByte_iff x).1 (hb x hx))
      obtain ⟨rfl, hc⟩ := (asByte_eq_some x i c).1 hp
      exact ⟨i, c, rfl, (mem_bytePairs _ i c).2 ⟨hx, hc⟩⟩
    have hne' : bytePairs (a :: r) ≠ [] := by
      obtain ⟨i, c, _, hp⟩ := hch a (by simp)
      intro hc; rw [hc] at hp; cases hp
    obtain ⟨w1, w2⟩ := asBytes_spec _ hne' hadm.2.1 (by
      rintro ⟨i, c⟩ hp; exact ((mem_bytePairs _ i c).1 hp).2) hadm.2.2.1
    have hm : ∀ x, x ∈ (asBytes (bytePairs (a :: r))).members ↔ x ∈ a :: r := by
      intro x
      rw [w2]
      constructor
      · rintro ⟨i, c, rfl, hp⟩; exact ((mem_bytePairs _ i c).1 hp).1
      · exact hch x
    exact ⟨w1, hm, nonempty_of_mem _ hm, rfl⟩
  | arrItem =>
    simp only [finishBucket]
    have hch : ∀ x, x ∈ a :: r → ∃ i c, x = itemV i c ∧ (i, c) ∈ itemPairs (a :: r) := by
      intro x hx
      obtain ⟨⟨i, c⟩, hp⟩ := Option.isSome_iff_exists.1 ((bucketOf_arrItem_iff x).1 (hb x hx))
      have := (asItem_eq_some x i c).1 hp
      subst this
      exact ⟨i, c, rfl, (mem_itemPairs _ i c).2 hx⟩
    obtain ⟨w1, w2⟩ := asArray_spec _ hadm.2.2.2
    have hm : ∀ x, x ∈ (asArray (itemPairs (a :: r))).members ↔ x ∈ a :: r := by
      intro x
      rw [w2]
      constructor
      · rintro ⟨i, c, rfl, hp⟩; exact (mem_itemPairs _ i c).1 hp
      · exact hch x
    exact ⟨w1, hm, nonempty_of_mem _ hm, rfl⟩
  | dictEntry =>
    simp only [finishBucket]
    obtain ⟨w1, w2⟩ := newDict_spec (a :: r) (fun v hv => (bucketOf_dictEntry_iff v).1 (hb v hv))
    exact ⟨w1, w2, nonempty_of_mem _ w2, rfl⟩
  | rel names =>
    simp only [finishBucket]
    have hm : ∀ x, x ∈ (Plain.rel names (FinSet.mk (a :: r))).members ↔ x ∈ a :: r := by
      intro x; exact FinSet.mem_mk _ x
    refine ⟨⟨FinSet.sorted_mk _, ?_, ?_⟩, hm, nonempty_of_mem _ hm, rfl⟩
    · intro hc
      have := (hm a).2 (by simp)
      simp only [Plain.members] at this
      rw [hc] at this; cases this
    · intro x hx; exact hb x ((FinSet.mem_mk _ x).1 hx)

/-! ## SetBuilder.Finish -/

theorem FinishAdm.subset {xs vs : List V} (h : FinishAdm xs) (hsub : ∀ x, x ∈ vs → x ∈ xs)
    (hbytes : (∀ x, x ∈ xs → bucketOf x = .bytesByte → x ∈ vs) ∨ (∀ x, x ∈ vs → bucketOf x ≠ .bytesByte)) :
    FinishAdm vs := by
  obtain ⟨h1, h2, h3, h4⟩ := h
  refine ⟨?_, ?_, ?_, ?_⟩
  · intro p q hp hq hpq
    obtain ⟨i, c⟩ := p; obtain ⟨j, d⟩ := q
    exact h1 (i, c) (j, d) ((mem_charPairs _ i c).2 ⟨hsub _ ((mem_charPairs _ i c).1 hp).1, ((mem_charPairs _ i c).1 hp).2⟩)
      ((mem_charPairs _ j d).2 ⟨hsub _ ((mem_charPairs _ j d).1 hq).1, ((mem_charPairs _ j d).1 hq).2⟩) hpq
  · intro p q hp hq hpq
    obtain ⟨i, c⟩ := p; obtain ⟨j, d⟩ := q
    exact h2 (i, c) (j, d) ((mem_bytePairs _ i c).2 ⟨hsub _ ((mem_bytePairs _ i c).1 hp).1, ((mem_bytePairs _ i c).1 hp).2⟩)
      ((mem_bytePairs _ j d).2 ⟨hsub _ ((mem_bytePairs _ j d).1 hq).1, ((mem_bytePairs _ j d).1 hq).2⟩) hpq
  · intro i hi
    obtain ⟨p, q, hp, hq, h5, h6⟩ := hi
    obtain ⟨pi, pc⟩ := p; obtain ⟨qi, qc⟩ := q
    have hp' := (mem_bytePairs vs pi pc).1 hp
    have hq' := (mem_bytePairs vs qi qc).1 hq
    obtain ⟨x, hx⟩ := h3 i ⟨(pi, pc), (qi, qc), (mem_bytePairs xs pi pc).2 ⟨hsub _ hp'.1, hp'.2⟩,
      (mem_bytePairs xs qi qc).2 ⟨hsub _ hq'.1, hq'.2⟩, h5, h6⟩
    have hx' := (mem_bytePairs xs i x).1 hx
    rcases hbytes with hbytes | hbytes
    · exact ⟨x, (mem_bytePairs vs i x).2 ⟨hbytes _ hx'.1 (bucketOf_byteV i x hx'.2), hx'.2⟩⟩
    · exact absurd (bucketOf_byteV pi pc hp'.2) (hbytes _ hp'.1)
  · intro p q hp hq hpq
    obtain ⟨i, c⟩ := p; obtain ⟨j, d⟩ := q
    exact h4 (i, c) (j, d) ((mem_itemPairs _ i c).2 (hsub _ ((mem_itemPairs _ i c).1 hp)))
      ((mem_itemPairs _ j d).2 (hsub _ ((mem_itemPairs _ j d).1 hq))) hpq

theorem finishGroups_spec (g : List (Bucket × List V)) (h : GroupsOK g)
    (hadm : ∀ bv, bv ∈ g → FinishAdm bv.2) :
    BucketsWF (finishGroups g) ∧ (finishGroups g).map (·.1) = g.map (·.1) ∧
    ∀ x, x ∈ bucketsMembers (finishGroups g) ↔ groupMem g x := by
  induction g with
  | nil => exact ⟨⟨by simp [finishGroups], by simp [finishGroups]⟩, rfl, by simp [finishGroups, bucketsMembers, groupMem]⟩
  | cons q r ih =>
    obtain ⟨b, vs⟩ := q
    have hk := h.1
    simp only [List.map_cons, List.nodup_cons] at hk
    have hr : GroupsOK r := ⟨hk.2, fun bv hm => h.2 bv (List.mem_cons_of_mem _ hm)⟩
    obtain ⟨i1, i2, i3⟩ := ih hr (fun bv hm => hadm bv (List.mem_cons_of_mem _ hm))
    obtain ⟨hne, hall⟩ := h.2 (b, vs) (by simp)
    obtain ⟨f1, f2, f3, f4⟩ := finishBucket_spec b vs hne hall (hadm (b, vs) (by simp))
    simp only [finishGroups]
    refine ⟨⟨?_, ?_⟩, ?_, ?_⟩
    · simp only [List.map_cons, List.nodup_cons, i2]
      exact hk
    · intro kp hm
      rcases List.mem_cons.1 hm with rfl | hm
      · exact ⟨f1, f3, f4⟩
      · exact i1.2 kp hm
    · simp [i2]
    · intro x
      simp only [bucketsMembers, List.mem_append, f2, i3, groupMem, List.mem_cons]
      constructor
      · rintro (hx | ⟨bv, hbv, hx⟩)
        · exact ⟨(b, vs), Or.inl rfl, hx⟩
        · exact ⟨bv, Or.inr hbv, hx⟩
      · rintro ⟨bv, (rfl | hbv), hx⟩
        · exact Or.inl hx
        · exact Or.inr ⟨bv, hbv, hx⟩

theorem GroupsOK.nil : GroupsOK [] := ⟨by simp, by simp⟩

theorem eq_of_mem_of_key_eq {κ β : Type} (l : List (κ × β)) (hn : (l.map (·.1)).Nodup) (a b : κ × β)
    (ha : a ∈ l) (hb : b ∈ l) (hk : a.1 = b.1) : a = b := by
  induction l with
  | nil => cases ha
  | cons q r ih =>
    simp only [List.map_cons, List.nodup_cons] at hn
    rcases List.mem_cons.1 ha with e | hm
    · rcases List.mem_cons.1 hb with e' | hm'
      · rw [e, e']
      · exfalso; apply hn.1
        rw [← e, hk]; exact List.mem_map.2 ⟨b, hm', rfl⟩
    · rcases List.mem_cons.1 hb with e' | hm'
      · exfalso; apply hn.1
        rw [← e', ← hk]; exact List.mem_map.2 ⟨a, hm, rfl⟩
      · exact ih hn.2 hm hm'

/-- `SetBuilder.Finish` denotes exactly the values added and returns a well-formed set -/
theorem finish_spec (xs : List V) (hadm : FinishAdm xs) :
    (finish xs).WF ∧ ∀ x, x ∈ (finish xs).members ↔ x ∈ xs := by
  obtain ⟨g1, g2⟩ := groupBuckets_spec xs [] GroupsOK.nil
  have hmem : ∀ x, groupMem (groupBuckets [] xs) x ↔ x ∈ xs := by
    intro x; rw [g2]; simp [groupMem]
  have hadm' : ∀ bv, bv ∈ groupBuckets [] xs → FinishAdm bv.2 := by
    intro bv hbv
    apply hadm.subset
    · intro x hx; exact (hmem x).1 ⟨bv, hbv, hx⟩
    · by_cases hb : bv.1 = .bytesByte
      · left
        intro x hx hxb
        obtain ⟨bv', hbv', hx'⟩ := (hmem x).2 hx
        have e1 : bucketOf x = bv'.1 := (g1.2 bv' hbv').2 x hx'
        have hk : bv'.1 = bv.1 := by rw [← e1, hxb, hb]
        have : bv' = bv := eq_of_mem_of_key_eq _ g1.1 bv' bv hbv' hbv hk
        rw [← this]; exact hx'
      · right
        intro x hx hxb
        exact hb (by rw [← (g1.2 bv hbv).2 x hx, hxb])
  obtain ⟨f1, _, f3⟩ := finishGroups_spec _ g1 hadm'
  unfold finish
  refine ⟨fromBuckets_wf _ f1, ?_⟩
  intro x
  rw [fromBuckets_members, f3, hmem]

end Arrai.C01
