/-
  C01 helper lemmas, part 1: finite-set extras (filter/image/powerset/proper subset) and the
  generic keyed-sequence library (`kden`, `kget`, `build`, trims).
-/
import Arrai.C01.Model

namespace Arrai.C01
open Arrai Arrai.FinSet

/-! ## finite-set extras -/
namespace FS

theorem mem_filter (p : V → Bool) (a : List V) (x : V) : x ∈ filter p a ↔ x ∈ a ∧ p x = true := by
  simp [filter]

theorem sorted_filter (p : V → Bool) (a : List V) (h : Sorted a) : Sorted (filter p a) :=
  FinSet.sorted_filter p a h

theorem mem_image (f : V → V) (a : List V) (x : V) : x ∈ image f a ↔ ∃ y, y ∈ a ∧ f y = x := by
  simp [image, FinSet.mem_mk]

theorem sorted_image (f : V → V) (a : List V) : Sorted (image f a) := FinSet.sorted_mk _

theorem mem_sublists : ∀ (a l : List V), l ∈ sublists a ↔ List.Sublist l a
  | [], l => by simp [sublists]
  | x :: xs, l => by
    simp only [sublists, List.mem_append, List.mem_map]
    constructor
    · rintro (h | ⟨m, hm, rfl⟩)
      · exact ((mem_sublists xs l).1 h).cons x
      · exact ((mem_sublists xs m).1 hm).cons_cons x
    · intro h
      cases h with
      | cons _ h => exact Or.inl ((mem_sublists xs l).2 h)
      | cons_cons _ h => exact Or.inr ⟨_, (mem_sublists xs _).2 h, rfl⟩

theorem sorted_sublist {l a : List V} (h : List.Sublist l a) (ha : Sorted a) : Sorted l :=
  List.Pairwise.sublist h ha

/-- a strictly sorted list all of whose members lie in a strictly sorted list is a sub-list of it -/
theorem sublist_of_sorted_subset : ∀ (a l : List V), Sorted l → Sorted a → (∀ x, x ∈ l → x ∈ a) →
    List.Sublist l a
  | [], l, _, _, h => by
    cases l with
    | nil => exact List.Sublist.slnil
    | cons x xs => exact absurd (h x (by simp)) (by simp)
  | y :: ys, l, hl, ha, h => by
    cases l with
    | nil => exact List.nil_sublist _
    | cons x xs =>
      unfold Sorted at hl ha
      rw [List.pairwise_cons] at hl ha
      by_cases hxy : x = y
      · subst hxy
        apply List.Sublist.cons_cons
        apply sublist_of_sorted_subset ys xs hl.2 ha.2
        intro z hz
        rcases List.mem_cons.1 (h z (List.mem_cons_of_mem _ hz)) with e | hz'
        · subst e; exact absurd (hl.1 z hz) (V.cmp_lt_irrefl z)
        · exact hz'
      · apply List.Sublist.cons
        have hxys : x ∈ ys := by
          rcases List.mem_cons.1 (h x (by simp)) with e | hx
          · exact absurd e hxy
          · exact hx
        have hyx : V.cmp y x = .lt := ha.1 x hxys
        apply sublist_of_sorted_subset ys (x :: xs) (List.pairwise_cons.2 hl) ha.2
        intro z hz
        rcases List.mem_cons.1 (h z hz) with e | hz'
        · subst e
          rcases List.mem_cons.1 hz with e | hz''
          · exact absurd e.symm hxy
          · exact absurd (V.cmp_lt_trans _ _ _ hyx (hl.1 z hz'')) (V.cmp_lt_irrefl z)
        · exact hz'

/-- the power set contains exactly the (canonical) subsets -/
theorem mem_powerset (a : List V) (ha : Sorted a) (s : V) :
    s ∈ powerset a ↔ ∃ l, s = V.set l ∧ Sorted l ∧ ∀ x, x ∈ l → x ∈ a := by
  simp only [powerset, FinSet.mem_mk, List.mem_map]
  constructor
  · rintro ⟨l, hl, rfl⟩
    have hs := (mem_sublists a l).1 hl
    exact ⟨l, rfl, sorted_sublist hs ha, fun x hx => hs.subset hx⟩
  · rintro ⟨l, rfl, hl, hsub⟩
    exact ⟨l, (mem_sublists a l).2 (sublist_of_sorted_subset a l hl ha hsub), rfl⟩

theorem sorted_powerset (a : List V) : Sorted (powerset a) := FinSet.sorted_mk _

theorem ssubset_iff (a b : List V) :
    ssubset a b = true ↔ (∀ x, x ∈ a → x ∈ b) ∧ ∃ y, y ∈ b ∧ y ∉ a := by
  simp only [ssubset, Bool.and_eq_true, Bool.not_eq_true', FinSet.subset_iff]
  constructor
  · rintro ⟨h1, h2⟩
    refine ⟨h1, ?_⟩
    have : ¬ (∀ x, x ∈ b → x ∈ a) := by
      intro h; rw [← FinSet.subset_iff] at h; simp [h] at h2
    exact Classical.byContradiction fun hc => this fun x hx =>
      Classical.byContradiction fun hn => hc ⟨x, hx, hn⟩
  · rintro ⟨h1, y, hy, hny⟩
    refine ⟨h1, ?_⟩
    cases hs : FinSet.subset b a with
    | false => rfl
    | true => exact absurd ((FinSet.subset_iff b a).1 hs y hy) hny

end FS

/-! ## more about `FinSet` -/

theorem length_mk_of_nodup : ∀ (xs : List V), xs.Nodup → (FinSet.mk xs).length = xs.length
  | [], _ => rfl
  | x :: xs, h => by
    rw [List.nodup_cons] at h
    show FinSet.card (FinSet.ins x (FinSet.mk xs)) = _
    rw [FinSet.card_ins x _ (FinSet.sorted_mk xs)]
    have : x ∉ FinSet.mk xs := fun hx => h.1 ((FinSet.mem_mk xs x).1 hx)
    simp [this, FinSet.card, length_mk_of_nodup xs h.2]

theorem mk_of_sorted (xs : List V) (h : Sorted xs) : FinSet.mk xs = xs :=
  FinSet.sorted_ext _ _ (FinSet.sorted_mk xs) h (fun x => FinSet.mem_mk xs x)

/-- two representations with the same members denote the same set -/
theorem mk_congr (xs ys : List V) (h : ∀ x, x ∈ xs ↔ x ∈ ys) : FinSet.mk xs = FinSet.mk ys :=
  FinSet.sorted_ext _ _ (FinSet.sorted_mk xs) (FinSet.sorted_mk ys)
    (fun x => by rw [FinSet.mem_mk, FinSet.mem_mk]; exact h x)

/-! ## keyed sequences -/
namespace KSeq
variable {α : Type}

theorem kget_nil (n : Nat) : kget ([] : List (Option α)) n = none := by simp [kget]
theorem kget_cons_zero (v : Option α) (r : List (Option α)) : kget (v :: r) 0 = v := by
  cases v <;> simp [kget]
theorem kget_cons_succ (v : Option α) (r : List (Option α)) (n : Nat) : kget (v :: r) (n + 1) = kget r n := by
  simp [kget]

theorem kget_of_ge (vs : List (Option α)) (n : Nat) (h : vs.length ≤ n) : kget vs n = none := by
  simp [kget, List.getElem?_eq_none h]

theorem kget_some_lt {vs : List (Option α)} {n : Nat} {x : α} (h : kget vs n = some x) : n < vs.length := by
  apply Classical.byContradiction
  intro hn
  rw [kget_of_ge vs n (by omega)] at h
  cases h

/-- membership in the denotation: the index is in range and the slot holds the element -/
theorem mem_kden (vs : List (Option α)) (off i : Int) (x : α) :
    (i, x) ∈ kden vs off ↔ off ≤ i ∧ kget vs (i - off).toNat = some x := by
  induction vs generalizing off with
  | nil => simp [kden, kget_nil]
  | cons v r ih =>
    by_cases hlt : i < off
    · have h1 : ¬ off ≤ i := by omega
      cases v with
      | none => simp only [kden, ih]; constructor <;> (rintro ⟨h, _⟩; omega)
      | some y =>
        simp only [kden, List.mem_cons, ih, Prod.mk.injEq]
        constructor
        · rintro (⟨h, _⟩ | ⟨h, _⟩) <;> omega
        · rintro ⟨h, _⟩; omega
    · by_cases heq : i = off
      · subst heq
        have h0 : (i - i).toNat = 0 := by omega
        cases v with
        | none =>
          simp only [kden, ih, h0, kget_cons_zero]
          constructor
          · rintro ⟨h, _⟩; omega
          · rintro ⟨_, h⟩; cases h
        | some y =>
          simp only [kden, List.mem_cons, ih, Prod.mk.injEq, h0, kget_cons_zero, Option.some.injEq]
          constructor
          · rintro (⟨_, h⟩ | ⟨h, _⟩)
            · exact ⟨Int.le_refl _, h.symm⟩
            · omega
          · rintro ⟨_, h⟩; exact Or.inl ⟨trivial, h.symm⟩
      · have hs : (i - off).toNat = (i - (off + 1)).toNat + 1 := by omega
        cases v with
        | none =>
          simp only [kden, ih, hs, kget_cons_succ]
          constructor
          · rintro ⟨_, h⟩; exact ⟨by omega, h⟩
          · rintro ⟨_, h⟩; exact ⟨by omega, h⟩
        | some y =>
          simp only [kden, List.mem_cons, ih, Prod.mk.injEq, hs, kget_cons_succ]
          constructor
          · rintro (⟨h, _⟩ | ⟨_, h⟩)
            · exact absurd h heq
            · exact ⟨by omega, h⟩
          · rintro ⟨_, h⟩; exact Or.inr ⟨by omega, h⟩

theorem kden_lower (vs : List (Option α)) (off : Int) : ∀ p, p ∈ kden vs off → off ≤ p.1 := by
  intro p hp
  obtain ⟨i, x⟩ := p
  exact ((mem_kden vs off i x).1 hp).1

/-- indices strictly increase along the enumeration -/
theorem kden_pairwise (vs : List (Option α)) (off : Int) :
    (kden vs off).Pairwise (fun p q => p.1 < q.1) := by
  induction vs generalizing off with
  | nil => simp [kden]
  | cons v r ih =>
    cases v with
    | none => exact ih (off + 1)
    | some y =>
      simp only [kden, List.pairwise_cons]
      refine ⟨?_, ih (off + 1)⟩
      intro q hq
      have := kden_lower r (off + 1) q hq
      show off < q.1
      omega

theorem length_kden (vs : List (Option α)) (off : Int) : (kden vs off).length = kcount vs := by
  induction vs generalizing off with
  | nil => rfl
  | cons v r ih => cases v <;> simp [kden, kcount, ih]

theorem kcount_add_kholes (vs : List (Option α)) : kcount vs + kholes vs = vs.length := by
  induction vs with
  | nil => rfl
  | cons v r ih => cases v <;> simp [kcount, kholes] <;> omega

theorem kcount_pos_of_get {vs : List (Option α)} {n : Nat} {x : α} (h : kget vs n = some x) : 0 < kcount vs := by
  induction vs generalizing n with
  | nil => simp [kget_nil] at h
  | cons v r ih =>
    cases v with
    | some y => simp [kcount]
    | none =>
      cases n with
      | zero => simp [kget_cons_zero] at h
      | succ n => rw [kget_cons_succ] at h; simpa [kcount] using ih h

/-! ### `kget` of the list surgery the Go methods perform -/

theorem kget_append_left (a b : List (Option α)) (n : Nat) (h : n < a.length) : kget (a ++ b) n = kget a n := by
  simp [kget, List.getElem?_append_left h]

theorem kget_append_right (a b : List (Option α)) (n : Nat) (h : a.length ≤ n) :
    kget (a ++ b) n = kget b (n - a.length) := by
  simp [kget, List.getElem?_append_right h]

theorem kget_drop (vs : List (Option α)) (k n : Nat) : kget (vs.drop k) n = kget vs (k + n) := by
  simp [kget, List.getElem?_drop]

theorem kget_take (vs : List (Option α)) (k n : Nat) :
    kget (vs.take k) n = if n < k then kget vs n else none := by
  simp only [kget, List.getElem?_take]
  split <;> simp

theorem kget_set (vs : List (Option α)) (i n : Nat) (y : Option α) :
    kget (vs.set i y) n = if i = n ∧ n < vs.length then y else kget vs n := by
  simp only [kget, List.getElem?_set]
  by_cases h : i = n
  · subst h
    by_cases h2 : i < vs.length
    · simp [h2]
    · simp [h2, List.getElem?_eq_none (Nat.le_of_not_lt h2)]
  · simp [h]

theorem kget_replicate_none (k n : Nat) : kget (List.replicate k (none : Option α)) n = none := by
  simp only [kget, List.getElem?_replicate]
  split <;> simp

/-! ### `trimFront` / `trimBack` keep the denotation -/

theorem kden_trimFront (vs : List (Option α)) (off : Int) :
    kden (trimFront vs off).1 (trimFront vs off).2 = kden vs off := by
  induction vs generalizing off with
  | nil => simp [trimFront]
  | cons v r ih =>
    cases v with
    | none => simp [trimFront, kden, ih]
    | some y => simp [trimFront]

theorem kden_trimBack (vs : List (Option α)) (off : Int) : kden (trimBack vs) off = kden vs off := by
  induction vs generalizing off with
  | nil => simp [trimBack]
  | cons v r ih =>
    simp only [trimBack]
    cases h : trimBack r with
    | nil =>
      have hr := ih (off + 1)
      rw [h] at hr
      cases v with
      | none => simp [kden, ← hr]
      | some y => simp [kden, ← hr]
    | cons w r' =>
      have hr := ih (off + 1)
      rw [h] at hr
      cases v with
      | none => simp [kden, hr]
      | some y => simp [kden, hr]

theorem kcount_trimFront (vs : List (Option α)) (off : Int) : kcount (trimFront vs off).1 = kcount vs := by
  rw [← length_kden _ (trimFront vs off).2, kden_trimFront, length_kden]

theorem kcount_trimBack (vs : List (Option α)) : kcount (trimBack vs) = kcount vs := by
  rw [← length_kden _ 0, kden_trimBack, length_kden]

/-! ### `build` (asString / asArray / asBytes) -/

theorem minAt_le (r : List (Int × α)) (m : Int) : minAt r m ≤ m := by
  induction r generalizing m with
  | nil => simp [minAt]
  | cons p r ih =>
    obtain ⟨i, x⟩ := p
    simp only [minAt]
    split
    · have := ih i; omega
    · exact ih m

theorem minAt_le_mem (r : List (Int × α)) (m : Int) : ∀ p, p ∈ r → minAt r m ≤ p.1 := by
  induction r generalizing m with
  | nil => intro p hp; cases hp
  | cons q r ih =>
    obtain ⟨i, x⟩ := q
    intro p hp
    simp only [minAt]
    rcases List.mem_cons.1 hp with rfl | hp
    · show minAt r _ ≤ i
      split
      · exact minAt_le r i
      · have := minAt_le r m; omega
    · exact ih _ p hp

theorem le_maxAt (r : List (Int × α)) (m : Int) : m ≤ maxAt r m := by
  induction r generalizing m with
  | nil => simp [maxAt]
  | cons p r ih =>
    obtain ⟨i, x⟩ := p
    simp only [maxAt]
    split
    · have := ih i; omega
    · exact ih m

theorem mem_le_maxAt (r : List (Int × α)) (m : Int) : ∀ p, p ∈ r → p.1 ≤ maxAt r m := by
  induction r generalizing m with
  | nil => intro p hp; cases hp
  | cons q r ih =>
    obtain ⟨i, x⟩ := q
    intro p hp
    simp only [maxAt]
    rcases List.mem_cons.1 hp with rfl | hp
    · show i ≤ maxAt r _
      split
      · exact le_maxAt r i
      · have := le_maxAt r m; omega
    · exact ih _ p hp

theorem length_fill (lo : Int) (ps : List (Int × α)) (base : List (Option α)) :
    (fill lo ps base).length = base.length := by
  induction ps generalizing base with
  | nil => rfl
  | cons p r ih => obtain ⟨i, x⟩ := p; simp [fill, ih]

/-- no two pairs put different elements at one index -/
def Functional (ps : List (Int × α)) : Prop := ∀ p q, p ∈ ps → q ∈ ps → p.1 = q.1 → p.2 = q.2

theorem Functional.tail {p : Int × α} {ps : List (Int × α)} (h : Functional (p :: ps)) : Functional ps :=
  fun a b ha hb => h a b (List.mem_cons_of_mem _ ha) (List.mem_cons_of_mem _ hb)

theorem kget_fill (lo : Int) (ps : List (Int × α)) (base : List (Option α)) (j : Nat) (x : α)
    (hf : Functional ps) (hr : ∀ p, p ∈ ps → lo ≤ p.1 ∧ (p.1 - lo).toNat < base.length) :
    kget (fill lo ps base) j = some x ↔
      (∃ p, p ∈ ps ∧ (p.1 - lo).toNat = j ∧ p.2 = x) ∨
      ((∀ p, p ∈ ps → (p.1 - lo).toNat ≠ j) ∧ kget base j = some x) := by
  induction ps generalizing base with
  | nil => simp [fill]
  | cons q r ih =>
    obtain ⟨i, y⟩ := q
    have hri := hr (i, y) (by simp)
    have hr' : ∀ p, p ∈ r → lo ≤ p.1 ∧ (p.1 - lo).toNat < (base.set (i - lo).toNat (some y)).length := by
      intro p hp
      have := hr p (List.mem_cons_of_mem _ hp)
      simpa using this
    simp only [fill]
    rw [ih (base.set (i - lo).toNat (some y)) hf.tail hr', kget_set]
    by_cases hj : (i - lo).toNat = j
    · have hjl : j < base.length := by rw [← hj]; exact hri.2
      simp only [hj, hjl, and_self, if_true, Option.some.injEq]
      constructor
      · rintro (⟨p, hp, hpj, hpx⟩ | ⟨_, hyx⟩)
        · exact Or.inl ⟨p, List.mem_cons_of_mem _ hp, hpj, hpx⟩
        · exact Or.inl ⟨(i, y), by simp, hj, hyx⟩
      · rintro (⟨p, hp, hpj, hpx⟩ | ⟨hall, _⟩)
        · rcases List.mem_cons.1 hp with rfl | hp'
          · by_cases hex : ∃ p', p' ∈ r ∧ (p'.1 - lo).toNat = j
            · obtain ⟨p', hp', hp'j⟩ := hex
              have hlo := (hr p' (List.mem_cons_of_mem _ hp')).1
              have hidx : p'.1 = i := by
                have h1 : (p'.1 - lo).toNat = (i - lo).toNat := by rw [hp'j, hj]
                have := hri.1
                omega
              have := hf p' (i, y) (List.mem_cons_of_mem _ hp') (by simp) hidx
              exact Or.inl ⟨p', hp', hp'j, by rw [this]; exact hpx⟩
            · refine Or.inr ⟨?_, hpx⟩
              intro p' hp' hc
              exact hex ⟨p', hp', hc⟩
          · exact Or.inl ⟨p, hp', hpj, hpx⟩
        · exact absurd hj (hall (i, y) (by simp))
    · have hne : ¬ ((i - lo).toNat = j ∧ j < base.length) := fun h => hj h.1
      simp only [hne, if_false]
      constructor
      · rintro (⟨p, hp, hpj, hpx⟩ | ⟨hall, hb⟩)
        · exact Or.inl ⟨p, List.mem_cons_of_mem _ hp, hpj, hpx⟩
        · refine Or.inr ⟨?_, hb⟩
          intro p hp
          rcases List.mem_cons.1 hp with rfl | hp'
          · exact hj
          · exact hall p hp'
      · rintro (⟨p, hp, hpj, hpx⟩ | ⟨hall, hb⟩)
        · rcases List.mem_cons.1 hp with rfl | hp'
          · exact absurd hpj hj
          · exact Or.inl ⟨p, hp', hpj, hpx⟩
        · exact Or.inr ⟨fun p hp => hall p (List.mem_cons_of_mem _ hp), hb⟩

theorem build_length (p : Int × α) (r : List (Int × α)) :
    (build (p :: r)).1.length = (maxAt r p.1 - minAt r p.1 + 1).toNat := by
  obtain ⟨i, x⟩ := p
  simp [build, length_fill]

theorem build_off (p : Int × α) (r : List (Int × α)) : (build (p :: r)).2 = minAt r p.1 := by
  obtain ⟨i, x⟩ := p
  simp [build]

/-- the builders denote exactly the pairs they were given (when no index is claimed twice) -/
theorem mem_kden_build (ps : List (Int × α)) (hf : Functional ps) (i : Int) (x : α) :
    (i, x) ∈ kden (build ps).1 (build ps).2 ↔ (i, x) ∈ ps := by
  cases ps with
  | nil => simp [build, kden]
  | cons q r =>
    obtain ⟨i0, x0⟩ := q
    have hlo : ∀ p, p ∈ (i0, x0) :: r → minAt r i0 ≤ p.1 := by
      intro p hp
      rcases List.mem_cons.1 hp with rfl | hp
      · exact minAt_le r _
      · exact minAt_le_mem r i0 p hp
    have hhi : ∀ p, p ∈ (i0, x0) :: r → p.1 ≤ maxAt r i0 := by
      intro p hp
      rcases List.mem_cons.1 hp with rfl | hp
      · exact le_maxAt r _
      · exact mem_le_maxAt r i0 p hp
    have hr : ∀ p, p ∈ (i0, x0) :: r → minAt r i0 ≤ p.1 ∧
        (p.1 - minAt r i0).toNat < (List.replicate (maxAt r i0 - minAt r i0 + 1).toNat (none : Option α)).length := by
      intro p hp
      have h1 := hlo p hp
      have h2 := hhi p hp
      refine ⟨h1, ?_⟩
      simp only [List.length_replicate]
      omega
    rw [mem_kden]
    simp only [build]
    rw [kget_fill _ _ _ _ _ hf hr]
    simp only [kget_replicate_none, reduceCtorEq, and_false, or_false]
    constructor
    · rintro ⟨hle, p, hp, hpj, hpx⟩
      have h1 := hlo p hp
      have : p.1 = i := by omega
      obtain ⟨pi, px⟩ := p
      simp only at this hpx
      subst this; subst hpx
      exact hp
    · intro h
      exact ⟨hlo _ h, (i, x), h, rfl, rfl⟩

theorem build_ne_nil (p : Int × α) (r : List (Int × α)) : (build (p :: r)).1 ≠ [] := by
  intro h
  have := build_length p r
  rw [h] at this
  have h1 := minAt_le r p.1
  have h2 := le_maxAt r p.1
  simp at this
  omega

/-! ### removing one element: slice at an end, hole in the middle -/

theorem mem_kden_drop_one (vs : List (Option α)) (off : Int) (c : α) (h : kget vs 0 = some c) (j : Int) (y : α) :
    (j, y) ∈ kden (vs.drop 1) (off + 1) ↔ (j, y) ∈ kden vs off ∧ ¬ (j = off ∧ y = c) := by
  rw [mem_kden, mem_kden, kget_drop]
  constructor
  · rintro ⟨h1, h2⟩
    have : 1 + (j - (off + 1)).toNat = (j - off).toNat := by omega
    rw [this] at h2
    exact ⟨⟨by omega, h2⟩, fun hc => by omega⟩
  · rintro ⟨⟨h1, h2⟩, h3⟩
    have hne : j ≠ off := by
      intro he; subst he
      have : (j - j).toNat = 0 := by omega
      rw [this, h] at h2
      exact h3 ⟨rfl, (Option.some.inj h2).symm⟩
    have : 1 + (j - (off + 1)).toNat = (j - off).toNat := by omega
    exact ⟨by omega, by rw [this]; exact h2⟩

theorem mem_kden_drop_last (vs : List (Option α)) (off : Int) (c : α) (h : kget vs (vs.length - 1) = some c)
    (j : Int) (y : α) :
    (j, y) ∈ kden (vs.take (vs.length - 1)) off ↔
      (j, y) ∈ kden vs off ∧ ¬ (j = off + ((vs.length - 1 : Nat) : Int) ∧ y = c) := by
  rw [mem_kden, mem_kden, kget_take]
  have hlen := kget_some_lt h
  constructor
  · rintro ⟨h1, h2⟩
    split at h2
    · rename_i hlt
      exact ⟨⟨h1, h2⟩, fun hc => by omega⟩
    · cases h2
  · rintro ⟨⟨h1, h2⟩, h3⟩
    have hjl := kget_some_lt h2
    have hne : (j - off).toNat ≠ vs.length - 1 := by
      intro he
      rw [he, h] at h2
      exact h3 ⟨by omega, (Option.some.inj h2).symm⟩
    have : (j - off).toNat < vs.length - 1 := by omega
    exact ⟨h1, by simp [this, h2]⟩

theorem mem_kden_eraseAt (vs : List (Option α)) (off : Int) (n : Nat) (c : α) (h : kget vs n = some c)
    (j : Int) (y : α) :
    (j, y) ∈ kden (eraseAt vs n) off ↔ (j, y) ∈ kden vs off ∧ ¬ (j = off + (n : Int) ∧ y = c) := by
  rw [mem_kden, mem_kden]
  unfold eraseAt
  rw [kget_set]
  have hlen := kget_some_lt h
  constructor
  · rintro ⟨h1, h2⟩
    split at h2
    · cases h2
    · rename_i hne
      refine ⟨⟨h1, h2⟩, fun hc => hne ⟨by omega, by omega⟩⟩
  · rintro ⟨⟨h1, h2⟩, h3⟩
    refine ⟨h1, ?_⟩
    split
    · rename_i he
      exfalso
      have hn : n = (j - off).toNat := he.1
      rw [← hn, h] at h2
      exact h3 ⟨by omega, (Option.some.inj h2).symm⟩
    · exact h2

theorem counts_drop_one (vs : List (Option α)) (c : α) (h : kget vs 0 = some c) :
    kholes (vs.drop 1) = kholes vs ∧ kcount (vs.drop 1) + 1 = kcount vs := by
  cases vs with
  | nil => simp [kget_nil] at h
  | cons v r =>
    rw [kget_cons_zero] at h
    subst h
    simp [kholes, kcount]

theorem counts_eraseAt (vs : List (Option α)) (n : Nat) (c : α) (h : kget vs n = some c) :
    kholes (eraseAt vs n) = kholes vs + 1 ∧ kcount (eraseAt vs n) + 1 = kcount vs := by
  induction vs generalizing n with
  | nil => simp [kget_nil] at h
  | cons v r ih =>
    cases n with
    | zero =>
      rw [kget_cons_zero] at h
      subst h
      simp [eraseAt, kholes, kcount]
    | succ n =>
      rw [kget_cons_succ] at h
      have := ih n h
      unfold eraseAt at this ⊢
      cases v <;> simp [kholes, kcount, this] <;> omega

theorem counts_drop_last (vs : List (Option α)) (c : α) (h : kget vs (vs.length - 1) = some c) :
    kholes (vs.take (vs.length - 1)) = kholes vs ∧ kcount (vs.take (vs.length - 1)) + 1 = kcount vs := by
  induction vs with
  | nil => simp [kget_nil] at h
  | cons v r ih =>
    cases r with
    | nil =>
      simp only [List.length_cons, List.length_nil, Nat.zero_add, Nat.sub_self, kget_cons_zero] at h
      subst h
      simp [kholes, kcount]
    | cons w t =>
      have h' : kget (w :: t) ((w :: t).length - 1) = some c := by
        simp only [List.length_cons] at h ⊢
        have : t.length + 1 + 1 - 1 = (t.length + 1 - 1) + 1 := by omega
        rw [this, kget_cons_succ] at h
        exact h
      have := ih h'
      simp only [List.length_cons] at this ⊢
      have ht : t.length + 1 - 1 = t.length := by omega
      rw [ht] at this
      have e : t.length + 1 + 1 - 1 = t.length + 1 := by omega
      obtain ⟨t1, t2⟩ := this
      have e2 : List.take (t.length + 1 + 1 - 1) (v :: w :: t) = v :: List.take t.length (w :: t) := by
        rw [e, List.take_succ_cons]
      rw [e2]
      clear e2 e h h' ih ht
      cases v
      · simp only [kholes, kcount, t1]; exact ⟨trivial, t2⟩
      · simp only [kholes, kcount, t1]; exact ⟨trivial, by omega⟩

theorem kden_nil_of_kcount_zero (vs : List (Option α)) (off : Int) (h : kcount vs = 0) : kden vs off = [] := by
  apply List.eq_nil_of_length_eq_zero
  rw [length_kden]; exact h

theorem minAt_attained (r : List (Int × α)) (m : Int) : minAt r m = m ∨ ∃ p, p ∈ r ∧ p.1 = minAt r m := by
  induction r generalizing m with
  | nil => exact Or.inl rfl
  | cons q r ih =>
    obtain ⟨i, x⟩ := q
    simp only [minAt]
    split
    · rcases ih i with h | ⟨p, hp, he⟩
      · exact Or.inr ⟨(i, x), by simp, h.symm⟩
      · exact Or.inr ⟨p, List.mem_cons_of_mem _ hp, he⟩
    · rcases ih m with h | ⟨p, hp, he⟩
      · exact Or.inl h
      · exact Or.inr ⟨p, List.mem_cons_of_mem _ hp, he⟩

theorem maxAt_attained (r : List (Int × α)) (m : Int) : maxAt r m = m ∨ ∃ p, p ∈ r ∧ p.1 = maxAt r m := by
  induction r generalizing m with
  | nil => exact Or.inl rfl
  | cons q r ih =>
    obtain ⟨i, x⟩ := q
    simp only [maxAt]
    split
    · rcases ih i with h | ⟨p, hp, he⟩
      · exact Or.inr ⟨(i, x), by simp, h.symm⟩
      · exact Or.inr ⟨p, List.mem_cons_of_mem _ hp, he⟩
    · rcases ih m with h | ⟨p, hp, he⟩
      · exact Or.inl h
      · exact Or.inr ⟨p, List.mem_cons_of_mem _ hp, he⟩

/-- the indices claimed by the pairs form a contiguous range -/
def NoGap (ps : List (Int × α)) : Prop :=
  ∀ i, (∃ p q, p ∈ ps ∧ q ∈ ps ∧ p.1 ≤ i ∧ i ≤ q.1) → ∃ x, (i, x) ∈ ps

/-- a gap-free, non-superimposed list of pairs builds a slice without holes -/
theorem build_full (ps : List (Int × α)) (hf : Functional ps) (hg : NoGap ps) :
    ∀ n, n < (build ps).1.length → ∃ x, kget (build ps).1 n = some x := by
  cases ps with
  | nil => intro n hn; simp [build] at hn
  | cons q r =>
    intro n hn
    rw [build_length] at hn
    have hlo : ∃ p, p ∈ q :: r ∧ p.1 = minAt r q.1 := by
      rcases minAt_attained r q.1 with h | ⟨p, hp, he⟩
      · exact ⟨q, by simp, h.symm⟩
      · exact ⟨p, List.mem_cons_of_mem _ hp, he⟩
    have hhi : ∃ p, p ∈ q :: r ∧ p.1 = maxAt r q.1 := by
      rcases maxAt_attained r q.1 with h | ⟨p, hp, he⟩
      · exact ⟨q, by simp, h.symm⟩
      · exact ⟨p, List.mem_cons_of_mem _ hp, he⟩
    obtain ⟨p1, hp1, e1⟩ := hlo
    obtain ⟨p2, hp2, e2⟩ := hhi
    obtain ⟨x, hx⟩ := hg (minAt r q.1 + n) ⟨p1, p2, hp1, hp2, by omega, by omega⟩
    refine ⟨x, ?_⟩
    have := (mem_kden_build (q :: r) hf _ x).2 hx
    rw [mem_kden, build_off] at this
    have e : (minAt r q.1 + ↑n - minAt r q.1).toNat = n := by omega
    rw [e] at this
    exact this.2

/-! ### adding one element: append, prepend (with padding), fill a hole -/

theorem kden_append (a b : List (Option α)) (off : Int) :
    kden (a ++ b) off = kden a off ++ kden b (off + a.length) := by
  induction a generalizing off with
  | nil => simp [kden]
  | cons v r ih =>
    have e : off + 1 + (r.length : Int) = off + ((r.length + 1 : Nat) : Int) := by omega
    cases v <;> simp [kden, ih, e]

theorem kden_replicate_none (k : Nat) (off : Int) : kden (List.replicate k (none : Option α)) off = [] := by
  induction k generalizing off with
  | zero => rfl
  | succ k ih => simp [List.replicate_succ, kden, ih]

theorem kcount_append (a b : List (Option α)) : kcount (a ++ b) = kcount a + kcount b := by
  induction a with
  | nil => simp [kcount]
  | cons v r ih => cases v <;> simp [kcount, ih] <;> omega

theorem kholes_append (a b : List (Option α)) : kholes (a ++ b) = kholes a + kholes b := by
  induction a with
  | nil => simp [kholes]
  | cons v r ih => cases v <;> simp [kholes, ih] <;> omega

theorem kcount_replicate_none (k : Nat) : kcount (List.replicate k (none : Option α)) = 0 := by
  induction k with
  | zero => rfl
  | succ k ih => simp [List.replicate_succ, kcount, ih]

theorem mem_kden_setAt (vs : List (Option α)) (off : Int) (n : Nat) (x : α) (hn : n < vs.length)
    (h : kget vs n = none) (j : Int) (y : α) :
    (j, y) ∈ kden (setAt vs n (some x)) off ↔ (j, y) ∈ kden vs off ∨ (j = off + (n : Int) ∧ y = x) := by
  rw [mem_kden, mem_kden]
  unfold setAt
  rw [kget_set]
  constructor
  · rintro ⟨h1, h2⟩
    split at h2
    · rename_i he
      exact Or.inr ⟨by omega, (Option.some.inj h2).symm⟩
    · exact Or.inl ⟨h1, h2⟩
  · rintro (⟨h1, h2⟩ | ⟨h1, h2⟩)
    · refine ⟨h1, ?_⟩
      split
      · rename_i he
        rw [← he.1, h] at h2; cases h2
      · exact h2
    · subst h1; subst h2
      refine ⟨by omega, ?_⟩
      have : (off + ↑n - off).toNat = n := by omega
      simp [this, hn]

theorem kcount_setAt_hole (vs : List (Option α)) (n : Nat) (x : α) (hn : n < vs.length) (h : kget vs n = none) :
    kcount (setAt vs n (some x)) = kcount vs + 1 := by
  induction vs generalizing n with
  | nil => simp at hn
  | cons v r ih =>
    cases n with
    | zero =>
      rw [kget_cons_zero] at h
      subst h
      simp [setAt, kcount]
    | succ n =>
      rw [kget_cons_succ] at h
      have := ih n (by simpa using hn) h
      unfold setAt at this ⊢
      cases v <;> simp [kcount, this]

/-! ### more about the trims -/

theorem mem_trimFront (vs : List (Option α)) (off : Int) (x : Option α) (h : x ∈ (trimFront vs off).1) : x ∈ vs := by
  induction vs generalizing off with
  | nil => simpa [trimFront] using h
  | cons v r ih =>
    cases v with
    | none => exact List.mem_cons_of_mem _ (ih (off + 1) (by simpa [trimFront] using h))
    | some y => simpa [trimFront] using h

theorem mem_trimBack (vs : List (Option α)) (x : Option α) (h : x ∈ trimBack vs) : x ∈ vs := by
  induction vs with
  | nil => simpa [trimBack] using h
  | cons v r ih =>
    simp only [trimBack] at h
    cases ht : trimBack r with
    | nil =>
      rw [ht] at h
      simp only at h
      split at h
      · simp only [List.mem_singleton] at h; subst h; simp
      · cases h
    | cons w t =>
      rw [ht] at h
      simp only at h
      rcases List.mem_cons.1 h with rfl | h'
      · simp
      · exact List.mem_cons_of_mem _ (ih (by rw [ht]; exact h'))

theorem length_trimFront_le (vs : List (Option α)) (off : Int) : (trimFront vs off).1.length ≤ vs.length := by
  induction vs generalizing off with
  | nil => simp [trimFront]
  | cons v r ih =>
    cases v with
    | none => have := ih (off + 1); simp [trimFront]; omega
    | some y => simp [trimFront]

theorem length_trimBack_le (vs : List (Option α)) : (trimBack vs).length ≤ vs.length := by
  induction vs with
  | nil => simp [trimBack]
  | cons v r ih =>
    simp only [trimBack]
    cases ht : trimBack r with
    | nil => simp only; split <;> simp
    | cons w t => rw [ht] at ih; simp at ih ⊢; omega

end KSeq

end Arrai.C01
