/-
  C01 helper lemmas, part 6: `PowerSet` — the With-loop path (every representation other than
  EmptySet/GenericSet), proved from the interface contracts.
-/
import Arrai.C01.Union

namespace Arrai.C01
open Arrai Arrai.FinSet KSeq

/-! ## values that are sets are always admissible for `With` -/

theorem withAdm_of_set (p : Plain) (xs : List V) : WithAdm p (.set xs) := by
  cases p with
  | str s off holes => intro ix c hc; simp [asChar] at hc
  | bytes b off => intro ix c hc; simp [asByte] at hc
  | arr vs off count => intro ix c hc; simp [asItem] at hc
  | _ => trivial

theorem repWithAdm_of_set (r : Rep) (xs : List V) : RepWithAdm r (.set xs) := by
  cases r with
  | plain p => exact withAdm_of_set p xs
  | union bs => exact withAdm_of_set _ xs

theorem withAllAdm_of_sets (vs : List V) (a : Rep) (h : ∀ v, v ∈ vs → ∃ xs, v = .set xs) : WithAllAdm a vs := by
  induction vs generalizing a with
  | nil => trivial
  | cons v r ih =>
    obtain ⟨xs, rfl⟩ := h v (by simp)
    exact ⟨repWithAdm_of_set a xs, fun a' _ => ih a' (fun v hv => h v (List.mem_cons_of_mem _ hv))⟩

/-- numbers and sets (anything that is not a tuple) are always admissible for `With` -/
theorem withAdm_of_num (p : Plain) (n : Int) : WithAdm p (.num n) := by
  cases p with
  | str s off holes => intro ix c hc; simp [asChar] at hc
  | bytes b off => intro ix c hc; simp [asByte] at hc
  | arr vs off count => intro ix c hc; simp [asItem] at hc
  | _ => trivial

def NonTuple (v : V) : Prop := (∃ n, v = .num n) ∨ (∃ xs, v = .set xs)

theorem repWithAdm_of_nontuple (r : Rep) (v : V) (hv : NonTuple v) : RepWithAdm r v := by
  rcases hv with ⟨n, rfl⟩ | ⟨xs, rfl⟩
  · cases r with
    | plain p => exact withAdm_of_num p n
    | union bs => exact withAdm_of_num _ n
  · exact repWithAdm_of_set r xs

theorem withAllAdm_of_nontuples (vs : List V) (a : Rep) (h : ∀ v, v ∈ vs → NonTuple v) : WithAllAdm a vs := by
  induction vs generalizing a with
  | nil => trivial
  | cons v r ih =>
    exact ⟨repWithAdm_of_nontuple a v (h v (by simp)),
      fun a' _ => ih a' (fun v hv => h v (List.mem_cons_of_mem _ hv))⟩

theorem finish_norm (xs : List V) (hadm : FinishAdm xs) : (finish xs).Norm := by
  cases xs with
  | nil => exact Or.inl rfl
  | cons a r =>
    right
    intro hc
    have := ((finish_spec (a :: r) hadm).2 a).2 (by simp)
    rw [hc] at this; cases this

theorem den_eq_of_members (r : Rep) (l : List V) (hl : Sorted l) (h : ∀ x, x ∈ r.members ↔ x ∈ l) : r.den = l :=
  FinSet.sorted_ext _ _ (FinSet.sorted_mk _) hl (fun x => by rw [Rep.mem_den]; exact h x)

/-! ## `s.Current().(Set).With(c)` on a member of the accumulated power set -/

theorem withV_spec (l : List V) (hl : Sorted l) (c : V) (h1 : FinishAdm l) (h2 : RepWithAdm (finish l) c) :
    withV (.set l) c = .ok (.set (FinSet.ins c l)) := by
  obtain ⟨w, m⟩ := finish_spec l h1
  obtain ⟨r', e, w', m'⟩ := Rep.with_spec (finish l) w (finish_norm l h1) c h2
  simp only [withV, repOfV, e, Outcome.map]
  congr 1
  show V.set r'.den = V.set (FinSet.ins c l)
  congr 1
  apply den_eq_of_members r' _ (FinSet.sorted_ins c l hl)
  intro x
  rw [m', m, FinSet.mem_ins]

/-- every subset built along the way, and every element added to it, is admissible: no two values at
one index of a sequence, no byte array with a gap (the classes KF-superimposed / KF-bytes-holes) -/
def PowerAdm (ms : List V) : Prop :=
  ∀ l c, Sorted l → (∀ y, y ∈ l → y ∈ ms) → c ∈ ms → FinishAdm l ∧ RepWithAdm (finish l) c

theorem powerStep_spec (c : V) (ss : List V) (acc : Rep) (hw : acc.WF) (hn : acc.Norm)
    (hss : ∀ s, s ∈ ss → ∃ l, s = .set l ∧ Sorted l ∧ FinishAdm l ∧ RepWithAdm (finish l) c) :
    ∃ r, powerStep c ss acc = .ok r ∧ r.WF ∧ r.Norm ∧
      ∀ x, x ∈ r.members ↔ x ∈ acc.members ∨ ∃ l, V.set l ∈ ss ∧ x = .set (FinSet.ins c l) := by
  induction ss generalizing acc with
  | nil => exact ⟨acc, rfl, hw, hn, by simp⟩
  | cons s r ih =>
    obtain ⟨l, rfl, hl, a1, a2⟩ := hss s (by simp)
    have e1 := withV_spec l hl c a1 a2
    obtain ⟨acc', e2, w2, m2⟩ := Rep.with_spec acc hw hn (.set (FinSet.ins c l)) (repWithAdm_of_set acc _)
    have n2 : acc'.Norm := by
      right
      intro hc
      have := (m2 (.set (FinSet.ins c l))).2 (Or.inl rfl)
      rw [hc] at this; cases this
    obtain ⟨r', e3, w3, n3, m3⟩ := ih acc' w2 n2 (fun s hs => hss s (List.mem_cons_of_mem _ hs))
    refine ⟨r', ?_, w3, n3, ?_⟩
    · simp only [powerStep, e1, e2]; exact e3
    · intro x
      rw [m3, m2]
      constructor
      · rintro ((rfl | h1) | ⟨l', hl', rfl⟩)
        · exact Or.inr ⟨l, by simp, rfl⟩
        · exact Or.inl h1
        · exact Or.inr ⟨l', List.mem_cons_of_mem _ hl', rfl⟩
      · rintro (h1 | ⟨l', hl', rfl⟩)
        · exact Or.inl (Or.inr h1)
        · rcases List.mem_cons.1 hl' with he | hl''
          · cases he; exact Or.inl (Or.inl rfl)
          · exact Or.inr ⟨l', hl'', rfl⟩

/-! ## the outer loop -/

/-- the accumulated result holds exactly the (canonical) subsets of the members processed so far -/
def PowerInv (done : List V) (result : Rep) : Prop :=
  result.WF ∧ result.Norm ∧
  ∀ x, x ∈ result.members ↔ ∃ l, x = V.set l ∧ Sorted l ∧ ∀ y, y ∈ l → y ∈ done

theorem ins_erase_of_mem (l : List V) (hl : Sorted l) (c : V) (hc : c ∈ l) : FinSet.ins c (FinSet.erase l c) = l := by
  apply FinSet.sorted_ext _ _ (FinSet.sorted_ins _ _ (FinSet.sorted_erase l c hl)) hl
  intro x
  rw [FinSet.mem_ins, FinSet.mem_erase]
  constructor
  · rintro (rfl | ⟨h1, _⟩)
    · exact hc
    · exact h1
  · intro hx
    by_cases he : x = c
    · exact Or.inl he
    · exact Or.inr ⟨hx, he⟩

theorem powerLoop_spec (ms : List V) (hadm : PowerAdm ms) (cs : List V) (done : List V) (result : Rep)
    (hinv : PowerInv done result) (hd : ∀ y, y ∈ done → y ∈ ms) (hc : ∀ y, y ∈ cs → y ∈ ms) :
    ∃ r, powerLoop cs result = .ok r ∧ r.WF ∧
      ∀ x, x ∈ r.members ↔ ∃ l, x = V.set l ∧ Sorted l ∧ ∀ y, y ∈ l → y ∈ done ∨ y ∈ cs := by
  induction cs generalizing done result with
  | nil =>
    refine ⟨result, rfl, hinv.1, ?_⟩
    intro x
    rw [hinv.2.2]
    simp
  | cons c r ih =>
    obtain ⟨hw, hn, hm⟩ := hinv
    have hcm : c ∈ ms := hc c (by simp)
    -- the inner loop over the members of the accumulated result
    have hss : ∀ s, s ∈ result.members → ∃ l, s = .set l ∧ Sorted l ∧ FinishAdm l ∧ RepWithAdm (finish l) c := by
      intro s hs
      obtain ⟨l, rfl, hl, hsub⟩ := (hm s).1 hs
      obtain ⟨a1, a2⟩ := hadm l c hl (fun y hy => hd y (hsub y hy)) hcm
      exact ⟨l, rfl, hl, a1, a2⟩
    obtain ⟨newSets, e1, w1, n1, m1⟩ := powerStep_spec c result.members (.plain .empty) trivial (Or.inl rfl) hss
    have hsets1 : ∀ x, x ∈ result.members → ∃ xs, x = V.set xs := by
      intro x hx; obtain ⟨l, rfl, _⟩ := (hm x).1 hx; exact ⟨l, rfl⟩
    have hsets2 : ∀ x, x ∈ newSets.members → ∃ xs, x = V.set xs := by
      intro x hx
      rcases (m1 x).1 hx with h1 | ⟨l, _, rfl⟩
      · simp [Rep.members, Plain.members] at h1
      · exact ⟨_, rfl⟩
    obtain ⟨p, rfl⟩ := plain_of_one_bucket result hw .generic (fun x hx => by
      obtain ⟨xs, rfl⟩ := hsets1 x hx; rfl)
    obtain ⟨q, rfl⟩ := plain_of_one_bucket newSets w1 .generic (fun x hx => by
      obtain ⟨xs, rfl⟩ := hsets2 x hx; rfl)
    obtain ⟨result', e2, w2, m2⟩ := union_spec (.plain p) (.plain q) hw w1 hn n1
      (withAllAdm_of_sets _ _ hsets2)
    have hinv' : PowerInv (c :: done) result' := by
      refine ⟨w2, ?_, ?_⟩
      · right
        intro hcn
        have : V.set [] ∈ result'.members := (m2 _).2 (Or.inl ((hm _).2 ⟨[], rfl, FinSet.sorted_nil, by simp⟩))
        rw [hcn] at this; cases this
      · intro x
        rw [m2, hm, m1]
        constructor
        · rintro (⟨l, rfl, hl, hsub⟩ | h1 | ⟨l, hl', rfl⟩)
          · exact ⟨l, rfl, hl, fun y hy => List.mem_cons_of_mem _ (hsub y hy)⟩
          · simp [Rep.members, Plain.members] at h1
          · obtain ⟨l2, he, hl2, hsub⟩ := (hm _).1 hl'
            cases he
            refine ⟨_, rfl, FinSet.sorted_ins c l hl2, ?_⟩
            intro y hy
            rcases (FinSet.mem_ins c y l).1 hy with rfl | hy'
            · simp
            · exact List.mem_cons_of_mem _ (hsub y hy')
        · rintro ⟨l, rfl, hl, hsub⟩
          by_cases hcl : c ∈ l
          · right; right
            refine ⟨FinSet.erase l c, (hm _).2 ⟨_, rfl, FinSet.sorted_erase l c hl, ?_⟩, ?_⟩
            · intro y hy
              obtain ⟨h1, h2⟩ := (FinSet.mem_erase l c y).1 hy
              rcases List.mem_cons.1 (hsub y h1) with he | hd'
              · exact absurd he h2
              · exact hd'
            · rw [ins_erase_of_mem l hl c hcl]
          · left
            refine ⟨l, rfl, hl, ?_⟩
            intro y hy
            rcases List.mem_cons.1 (hsub y hy) with he | hd'
            · subst he; exact absurd hy hcl
            · exact hd'
    obtain ⟨rf, e3, w3, m3⟩ := ih (c :: done) result' hinv'
      (fun y hy => by rcases List.mem_cons.1 hy with rfl | h1; exact hcm; exact hd y h1)
      (fun y hy => hc y (List.mem_cons_of_mem _ hy))
    refine ⟨rf, ?_, w3, ?_⟩
    · simp only [powerLoop, e1, e2]; exact e3
    · intro x
      rw [m3]
      constructor
      · rintro ⟨l, rfl, hl, hsub⟩
        refine ⟨l, rfl, hl, fun y hy => ?_⟩
        rcases hsub y hy with h1 | h1
        · rcases List.mem_cons.1 h1 with rfl | h2
          · exact Or.inr (by simp)
          · exact Or.inl h2
        · exact Or.inr (List.mem_cons_of_mem _ h1)
      · rintro ⟨l, rfl, hl, hsub⟩
        refine ⟨l, rfl, hl, fun y hy => ?_⟩
        rcases hsub y hy with h1 | h1
        · exact Or.inl (List.mem_cons_of_mem _ h1)
        · rcases List.mem_cons.1 h1 with rfl | h2
          · exact Or.inl (by simp)
          · exact Or.inr h2

/-- `PowerSet` of any representation is the power set of the set denoted -/
theorem powerSet_spec (r : Rep) (h : r.WF) (hadm : PowerAdm r.members) :
    ∃ r', powerSet r = .ok r' ∧ r'.WF ∧ r'.den = FS.powerset r.den := by
  have init : PowerInv [] (finish [.set []]) := by
    obtain ⟨w, m⟩ := finish_spec [.set []] (finishAdm_single _)
    refine ⟨w, finish_norm _ (finishAdm_single _), ?_⟩
    intro x
    rw [m]
    simp only [List.mem_singleton, List.not_mem_nil, imp_false]
    constructor
    · rintro rfl; exact ⟨[], rfl, FinSet.sorted_nil, fun y hy => by cases hy⟩
    · rintro ⟨l, rfl, _, hsub⟩
      cases l with
      | nil => rfl
      | cons a t => exact absurd (by simp) (hsub a)
  have fin : ∀ r' : Rep, (∀ x, x ∈ r'.members ↔ ∃ l, x = V.set l ∧ Sorted l ∧ ∀ y, y ∈ l → y ∈ [] ∨ y ∈ r.members) →
      r'.den = FS.powerset r.den := by
    intro r' hm
    apply den_eq_of_members r' _ (FS.sorted_powerset _)
    intro x
    rw [hm, show r.den = FinSet.mk r.members from rfl, FS.mem_powerset _ (FinSet.sorted_mk _)]
    constructor
    · rintro ⟨l, rfl, hl, hsub⟩
      refine ⟨l, rfl, hl, fun y hy => (Rep.mem_den r y).2 ?_⟩
      rcases hsub y hy with h1 | h1
      · cases h1
      · exact h1
    · rintro ⟨l, rfl, hl, hsub⟩
      exact ⟨l, rfl, hl, fun y hy => Or.inr ((Rep.mem_den r y).1 (hsub y hy))⟩
  have loop : ∃ r', powerLoop r.members (finish [.set []]) = .ok r' ∧ r'.WF ∧ r'.den = FS.powerset r.den := by
    obtain ⟨r', e, w, m⟩ := powerLoop_spec r.members hadm r.members [] _ init (by simp) (fun y hy => hy)
    exact ⟨r', e, w, fin r' m⟩
  unfold powerSet
  split
  · -- EmptySet: the loop body never runs
    simpa [powerLoop, Rep.members, Plain.members] using loop
  · rename_i xs
    refine ⟨_, rfl, ?_, ?_⟩
    · apply fromFrozen_wf _ (FinSet.sorted_mk _)
      intro x hx
      obtain ⟨l, _, rfl⟩ := List.mem_map.1 ((FinSet.mem_mk _ x).1 hx)
      rfl
    · apply den_eq_of_members _ _ (FS.sorted_powerset _)
      intro x
      show x ∈ (fromFrozen _).members ↔ _
      rw [fromFrozen_members]
      have : (Rep.plain (Plain.generic xs)).den = xs := mk_of_sorted xs h.1
      rw [this]
      rfl
  · exact loop

end Arrai.C01
