/-
  C01 helper lemmas, part 4: the interface contract for `With` (all representations).
-/
import Arrai.C01.Builder

namespace Arrai.C01
open Arrai Arrai.FinSet KSeq

/-! ## admissibility of small lists for the builder -/

theorem charPairs_nil_of (l : List V) (h : ∀ x, x ∈ l → asChar x = none) : charPairs l = [] := by
  induction l with
  | nil => rfl
  | cons a r ih =>
    simp only [charPairs, h a (by simp)]
    exact ih (fun x hx => h x (List.mem_cons_of_mem _ hx))
theorem bytePairs_nil_of (l : List V) (h : ∀ x, x ∈ l → asByte x = none) : bytePairs l = [] := by
  induction l with
  | nil => rfl
  | cons a r ih =>
    simp only [bytePairs, h a (by simp)]
    exact ih (fun x hx => h x (List.mem_cons_of_mem _ hx))
theorem itemPairs_nil_of (l : List V) (h : ∀ x, x ∈ l → asItem x = none) : itemPairs l = [] := by
  induction l with
  | nil => rfl
  | cons a r ih =>
    simp only [itemPairs, h a (by simp)]
    exact ih (fun x hx => h x (List.mem_cons_of_mem _ hx))

theorem Functional_nil {α : Type} : Functional ([] : List (Int × α)) := by intro p q hp; cases hp
theorem NoGap_nil {α : Type} : NoGap ([] : List (Int × α)) := by
  rintro i ⟨p, q, hp, _⟩; cases hp

/-- membership-level criterion for `FinishAdm` -/
theorem finishAdm_intro (xs : List V)
    (hc : ∀ i c d, charV i c ∈ xs → charV i d ∈ xs → c = d)
    (hb : ∀ i c d, byteV i c ∈ xs → byteV i d ∈ xs → c = d)
    (hg : ∀ i j k c d, byteV i c ∈ xs → byteV k d ∈ xs → (c : Int) ≤ 255 → (d : Int) ≤ 255 → i ≤ j → j ≤ k →
      ∃ e, byteV j e ∈ xs ∧ (e : Int) ≤ 255)
    (hi : ∀ i c d, itemV i c ∈ xs → itemV i d ∈ xs → c = d) : FinishAdm xs := by
  refine ⟨?_, ?_, ?_, ?_⟩
  · rintro ⟨i, c⟩ ⟨j, d⟩ hp hq hpq
    simp only at hpq; subst hpq
    exact hc i c d ((mem_charPairs _ _ _).1 hp).1 ((mem_charPairs _ _ _).1 hq).1
  · rintro ⟨i, c⟩ ⟨j, d⟩ hp hq hpq
    simp only at hpq; subst hpq
    exact hb i c d ((mem_bytePairs _ _ _).1 hp).1 ((mem_bytePairs _ _ _).1 hq).1
  · rintro j ⟨⟨i, c⟩, ⟨k, d⟩, hp, hq, h1, h2⟩
    obtain ⟨p1, p2⟩ := (mem_bytePairs _ _ _).1 hp
    obtain ⟨q1, q2⟩ := (mem_bytePairs _ _ _).1 hq
    obtain ⟨e, he, he2⟩ := hg i j k c d p1 q1 p2 q2 h1 h2
    exact ⟨e, (mem_bytePairs _ _ _).2 ⟨he, he2⟩⟩
  · rintro ⟨i, c⟩ ⟨j, d⟩ hp hq hpq
    simp only at hpq; subst hpq
    exact hi i c d ((mem_itemPairs _ _ _).1 hp) ((mem_itemPairs _ _ _).1 hq)

theorem finishAdm_single (v : V) : FinishAdm [v] := by
  apply finishAdm_intro
  · intro i c d h1 h2
    simp only [List.mem_singleton] at h1 h2
    exact (charV_inj (h1.trans h2.symm)).2
  · intro i c d h1 h2
    simp only [List.mem_singleton] at h1 h2
    exact (byteV_inj (h1.trans h2.symm)).2
  · intro i j k c d h1 h2 hc _ hij hjk
    simp only [List.mem_singleton] at h1 h2
    have := (byteV_inj (h1.trans h2.symm)).1
    have hj : j = i := by omega
    subst hj
    exact ⟨c, by simp [h1], hc⟩
  · intro i c d h1 h2
    simp only [List.mem_singleton] at h1 h2
    exact (itemV_inj (h1.trans h2.symm)).2

theorem finishAdm_unit_cons (v : V) : FinishAdm [.tup [], v] := by
  have hu1 : ∀ i c, charV i c ≠ V.tup [] := by intro i c h; simp [charV, pairV] at h
  have hu2 : ∀ i c, byteV i c ≠ V.tup [] := by intro i c h; simp [byteV, pairV] at h
  have hu3 : ∀ i c, itemV i c ≠ V.tup [] := by intro i c h; simp [itemV, pairV] at h
  apply finishAdm_intro
  · intro i c d h1 h2
    simp only [List.mem_cons, List.not_mem_nil, or_false] at h1 h2
    rcases h1 with h1 | h1
    · exact absurd h1 (hu1 i c)
    · rcases h2 with h2 | h2
      · exact absurd h2 (hu1 i d)
      · exact (charV_inj (h1.trans h2.symm)).2
  · intro i c d h1 h2
    simp only [List.mem_cons, List.not_mem_nil, or_false] at h1 h2
    rcases h1 with h1 | h1
    · exact absurd h1 (hu2 i c)
    · rcases h2 with h2 | h2
      · exact absurd h2 (hu2 i d)
      · exact (byteV_inj (h1.trans h2.symm)).2
  · intro i j k c d h1 h2 hc _ hij hjk
    simp only [List.mem_cons, List.not_mem_nil, or_false] at h1 h2
    rcases h1 with h1 | h1
    · exact absurd h1 (hu2 i c)
    · rcases h2 with h2 | h2
      · exact absurd h2 (hu2 k d)
      · have := (byteV_inj (h1.trans h2.symm)).1
        have hj : j = i := by omega
        subst hj
        exact ⟨c, by simp [h1], hc⟩
  · intro i c d h1 h2
    simp only [List.mem_cons, List.not_mem_nil, or_false] at h1 h2
    rcases h1 with h1 | h1
    · exact absurd h1 (hu3 i c)
    · rcases h2 with h2 | h2
      · exact absurd h2 (hu3 i d)
      · exact (itemV_inj (h1.trans h2.symm)).2

/-! ## `MustNewSet(v)` and `toUnionSetWithItem` -/

theorem single_spec (v : V) :
    (single v).WF ∧ (∀ x, x ∈ (single v).members ↔ x = v) ∧ (single v).members ≠ [] ∧
    (single v).bucket = bucketOf v := by
  obtain ⟨w1, w2, w3, w4⟩ := finishBucket_spec (bucketOf v) [v] (by simp)
    (by intro x hx; simp only [List.mem_singleton] at hx; rw [hx]) (finishAdm_single v)
  exact ⟨w1, fun x => by rw [show single v = finishBucket (bucketOf v) [v] from rfl, w2]; simp, w3, w4⟩

theorem toUnionSetWithItem_spec (s : Plain) (hs : s.WF) (hne : s.members ≠ []) (v : V)
    (hb : bucketOf v ≠ s.bucket) :
    ∃ r, toUnionSetWithItem s v = .ok r ∧ r.WF ∧ ∀ x, x ∈ r.members ↔ x = v ∨ x ∈ s.members := by
  obtain ⟨w1, w2, w3, w4⟩ := single_spec v
  unfold toUnionSetWithItem
  simp only [hb, if_false]
  refine ⟨_, rfl, ?_, ?_⟩
  · apply fromBuckets_wf
    refine ⟨?_, ?_⟩
    · simp only [List.map_cons, List.map_nil, List.nodup_cons, List.mem_singleton, List.not_mem_nil,
        not_false_eq_true, List.nodup_nil, and_true]
      exact fun hc => hb hc.symm
    · intro kp hm
      simp only [List.mem_cons, List.not_mem_nil, or_false] at hm
      rcases hm with rfl | rfl
      · exact ⟨hs, hne, rfl⟩
      · exact ⟨w1, w3, w4⟩
  · intro x
    rw [fromBuckets_members]
    simp only [bucketsMembers, List.append_nil, List.mem_append, w2]
    exact Or.comm

/-! ## String.with -/

/-- the added value must not sit on an index held by a different value (KF-superimposed), a byte
must extend the array contiguously (KF-bytes-holes) -/
def WithAdm (p : Plain) (v : V) : Prop :=
  match p with
  | .str s off _ => ∀ ix c, asChar v = some (ix, c) → ∀ d, (ix, d) ∈ kden s off → d = c
  | .bytes b off => ∀ ix x, asByte v = some (ix, x) →
      off - 1 ≤ ix ∧ ix ≤ off + (b.length : Int) ∧ ∀ d, (ix, d) ∈ kden (b.map some) off → d = x
  | .arr vs off _ => ∀ ix x, asItem v = some (ix, x) → ∀ d, (ix, d) ∈ kden vs off → d = x
  | _ => True

theorem strWith_spec (s : List (Option Nat)) (off : Int) (holes : Nat) (h : (Plain.str s off holes).WF)
    (ix : Int) (c : Nat) (hc : (c : Int) ≤ maxRune) (hadm : ∀ d, (ix, d) ∈ kden s off → d = c) :
    ∃ r, strWith s off holes ix c = .ok r ∧ r.WF ∧
      ∀ x, x ∈ r.members ↔ x = charV ix c ∨ x ∈ (Plain.str s off holes).members := by
  have lift : ∀ (s' : List (Option Nat)) (off' : Int) (holes' : Nat),
      (∀ j y, (j, y) ∈ kden s' off' ↔ (j = ix ∧ y = c) ∨ (j, y) ∈ kden s off) →
      ∀ x, x ∈ (Plain.str s' off' holes').members ↔ x = charV ix c ∨ x ∈ (Plain.str s off holes).members := by
    intro s' off' holes' hk x
    rw [mem_str_members', mem_str_members']
    constructor
    · rintro ⟨j, y, rfl, hp⟩
      rcases (hk j y).1 hp with ⟨rfl, rfl⟩ | h1
      · exact Or.inl rfl
      · exact Or.inr ⟨j, y, rfl, h1⟩
    · rintro (rfl | ⟨j, y, rfl, hp⟩)
      · exact ⟨ix, c, rfl, (hk ix c).2 (Or.inl ⟨rfl, rfl⟩)⟩
      · exact ⟨j, y, rfl, (hk j y).2 (Or.inr hp)⟩
  unfold strWith
  simp only
  split
  · rename_i h1
    obtain ⟨h0, hl, hg⟩ := h1
    obtain ⟨hidx, _⟩ := seqIndex_eq (rfl : seqIndex s.length off ix = _) h0
    refine ⟨_, rfl, h, ?_⟩
    refine lift s off holes ?_
    intro j y
    constructor
    · exact fun hm => Or.inr hm
    · rintro (⟨rfl, rfl⟩ | hm)
      · rw [mem_kden]; exact ⟨by omega, by rw [hidx]; exact hg⟩
      · exact hm
  · split
    · rename_i _ h2
      obtain ⟨hidx, _⟩ := seqIndex_eq h2 (by omega)
      refine ⟨_, rfl, ⟨?_, ?_, ?_⟩, ?_⟩
      · rw [kholes_append]; simp [kholes, h.1]
      · rw [kcount_append]; simp [kcount]
      · intro d hd
        rcases List.mem_append.1 hd with hd | hd
        · exact h.2.2 d hd
        · simp only [List.mem_singleton, Option.some.injEq] at hd; subst hd; exact hc
      · refine lift (s ++ [some c]) off holes ?_
        intro j y
        rw [kden_append]
        simp only [kden, List.mem_append, List.mem_singleton, Prod.mk.injEq]
        have : off + (s.length : Int) = ix := by omega
        rw [this]
        exact Or.comm
    · split
      · rename_i _ _ h3
        refine ⟨_, rfl, ⟨?_, ?_, ?_⟩, ?_⟩
        · simp [kholes, h.1]
        · simp [kcount]
        · intro d hd
          rcases List.mem_cons.1 hd with hd | hd
          · simp only [Option.some.injEq] at hd; subst hd; exact hc
          · exact h.2.2 d hd
        · refine lift (some c :: s) (off - 1) holes ?_
          intro j y
          simp only [kden, List.mem_cons, Prod.mk.injEq]
          have : off - 1 + 1 = off := by omega
          rw [this, h3]
      · split
        · rename_i n1 _ _ h4
          exfalso
          obtain ⟨h0, hl, hs⟩ := h4
          obtain ⟨hidx, _⟩ := seqIndex_eq (rfl : seqIndex s.length off ix = _) h0
          obtain ⟨d, hd⟩ := Option.isSome_iff_exists.1 hs
          have hm : (ix, d) ∈ kden s off := by
            rw [mem_kden]; exact ⟨by omega, by rw [hidx]; exact hd⟩
          have := hadm d hm
          subst this
          exact n1 ⟨h0, hl, hd⟩
        · rename_i n1 n2 n3 n4
          have hfree : ∀ d, (ix, d) ∉ kden s off := by
            intro d hm
            obtain ⟨hle, hg⟩ := (mem_kden s off ix d).1 hm
            have hlt := kget_some_lt hg
            have hidx := seqIndex_of_range s.length off ix (by omega) (by omega)
            apply n4
            rw [hidx]
            exact ⟨by omega, by omega, by rw [hg]; rfl⟩
          have hall : ∀ x, x ∈ (Plain.str s off holes).members ++ [charV ix c] →
              ∃ i d, x = charV i d := by
            intro x hx
            rcases List.mem_append.1 hx with hx | hx
            · obtain ⟨i, d, rfl, _⟩ := (mem_str_members' s off holes x).1 hx
              exact ⟨i, d, rfl⟩
            · simp only [List.mem_singleton] at hx; exact ⟨ix, c, hx⟩
          have hadm' : FinishAdm ((Plain.str s off holes).members ++ [charV ix c]) := by
            refine ⟨?_, ?_, ?_, ?_⟩
            · rintro ⟨i, a⟩ ⟨j, b⟩ hp hq hpq
              simp only at hpq; subst hpq
              have hp' := ((mem_charPairs _ _ _).1 hp).1
              have hq' := ((mem_charPairs _ _ _).1 hq).1
              simp only [List.mem_append, List.mem_singleton] at hp' hq'
              rcases hp' with hp' | hp' <;> rcases hq' with hq' | hq'
              · obtain ⟨i1, c1, e1, m1⟩ := (mem_str_members' s off holes _).1 hp'
                obtain ⟨i2, c2, e2, m2⟩ := (mem_str_members' s off holes _).1 hq'
                obtain ⟨rfl, rfl⟩ := charV_inj e1
                obtain ⟨rfl, rfl⟩ := charV_inj e2
                have g1 := ((mem_kden _ _ _ _).1 m1).2
                have g2 := ((mem_kden _ _ _ _).1 m2).2
                rw [g1] at g2; exact Option.some.inj g2
              · obtain ⟨rfl, rfl⟩ := charV_inj hq'
                obtain ⟨i1, c1, e1, m1⟩ := (mem_str_members' s off holes _).1 hp'
                obtain ⟨rfl, rfl⟩ := charV_inj e1
                exact absurd m1 (hfree _)
              · obtain ⟨rfl, rfl⟩ := charV_inj hp'
                obtain ⟨i1, c1, e1, m1⟩ := (mem_str_members' s off holes _).1 hq'
                obtain ⟨rfl, rfl⟩ := charV_inj e1
                exact absurd m1 (hfree _)
              · exact (charV_inj (hp'.trans hq'.symm)).2
            · rw [bytePairs_nil_of _ (fun x hx => by
                obtain ⟨i, d, rfl⟩ := hall x hx; exact asByte_charV i d)]
              exact Functional_nil
            · rw [bytePairs_nil_of _ (fun x hx => by
                obtain ⟨i, d, rfl⟩ := hall x hx; exact asByte_charV i d)]
              exact NoGap_nil
            · rw [itemPairs_nil_of _ (fun x hx => by
                obtain ⟨i, d, rfl⟩ := hall x hx; exact asItem_charV i d)]
              exact Functional_nil
          obtain ⟨w1, w2⟩ := finish_spec _ hadm'
          refine ⟨_, rfl, w1, ?_⟩
          intro x
          rw [w2]
          simp only [List.mem_append, List.mem_singleton]
          exact Or.comm


/-! ## Bytes.with -/

theorem kcount_map_some (l : List Nat) : kcount (l.map some) = l.length := by
  induction l with
  | nil => rfl
  | cons y t iht => simp [kcount, iht]

theorem bytesWith_spec (b : List Nat) (off : Int) (h : (Plain.bytes b off).WF)
    (ix : Int) (x : Nat) (hx : (x : Int) ≤ 255)
    (hadm : off - 1 ≤ ix ∧ ix ≤ off + (b.length : Int) ∧ ∀ d, (ix, d) ∈ kden (b.map some) off → d = x) :
    ∃ r, bytesWith b off ix x = .ok r ∧ r.WF ∧
      ∀ v, v ∈ r.members ↔ v = byteV ix x ∨ v ∈ (Plain.bytes b off).members := by
  have lift : ∀ (b' : List Nat) (off' : Int),
      (∀ j y, (j, y) ∈ kden (b'.map some) off' ↔ (j = ix ∧ y = x) ∨ (j, y) ∈ kden (b.map some) off) →
      ∀ v, v ∈ (Plain.bytes b' off').members ↔ v = byteV ix x ∨ v ∈ (Plain.bytes b off).members := by
    intro b' off' hk v
    rw [mem_bytes_members', mem_bytes_members']
    constructor
    · rintro ⟨j, y, rfl, hp⟩
      rcases (hk j y).1 hp with ⟨rfl, rfl⟩ | h1
      · exact Or.inl rfl
      · exact Or.inr ⟨j, y, rfl, h1⟩
    · rintro (rfl | ⟨j, y, rfl, hp⟩)
      · exact ⟨ix, x, rfl, (hk ix x).2 (Or.inl ⟨rfl, rfl⟩)⟩
      · exact ⟨j, y, rfl, (hk j y).2 (Or.inr hp)⟩
  obtain ⟨hlo, hhi, hsame⟩ := hadm
  unfold bytesWith
  simp only
  split
  · rename_i h1
    obtain ⟨h0, hl, hg⟩ := h1
    obtain ⟨hidx, _⟩ := seqIndex_eq (rfl : seqIndex b.length off ix = _) h0
    refine ⟨_, rfl, h, ?_⟩
    refine lift b off ?_
    intro j y
    constructor
    · exact fun hm => Or.inr hm
    · rintro (⟨rfl, rfl⟩ | hm)
      · rw [mem_kden, kget_map_some]; exact ⟨by omega, by rw [hidx]; exact hg⟩
      · exact hm
  · split
    · rename_i _ h2
      obtain ⟨hidx, _⟩ := seqIndex_eq h2 (by omega)
      refine ⟨_, rfl, ⟨by simp, ?_⟩, ?_⟩
      · intro d hd
        rcases List.mem_append.1 hd with hd | hd
        · exact h.2 d hd
        · simp only [List.mem_singleton] at hd; subst hd; exact hx
      · refine lift (b ++ [x]) off ?_
        intro j y
        rw [List.map_append, kden_append]
        simp only [List.map_cons, List.map_nil, kden, List.mem_append, List.mem_singleton, Prod.mk.injEq,
          List.length_map]
        have : off + (b.length : Int) = ix := by omega
        rw [this]
        exact Or.comm
    · split
      · rename_i _ _ h3
        refine ⟨_, rfl, ⟨by simp, ?_⟩, ?_⟩
        · intro d hd
          rcases List.mem_cons.1 hd with hd | hd
          · subst hd; exact hx
          · exact h.2 d hd
        · refine lift (x :: b) (off - 1) ?_
          intro j y
          simp only [List.map_cons, kden, List.mem_cons, Prod.mk.injEq]
          have : off - 1 + 1 = off := by omega
          rw [this, h3]
      · rename_i n1 n2 n3
        exfalso
        -- the index is inside the array and holds another byte, or lies beyond an end
        have hin : 0 ≤ ix - off ∧ ix - off < b.length := by
          refine ⟨by omega, ?_⟩
          apply Classical.byContradiction
          intro hn
          have he : ix - off = b.length := by omega
          exact n2 (by rw [seqIndex_of_range b.length off ix (by omega) (by omega)]; exact he)
        have hidx := seqIndex_of_range b.length off ix hin.1 (by omega)
        have hlt : (ix - off).toNat < b.length := by omega
        have hm : (ix, b[(ix - off).toNat]) ∈ kden (b.map some) off := by
          rw [mem_kden, kget_map_some]
          exact ⟨by omega, List.getElem?_eq_getElem hlt⟩
        have := hsame _ hm
        apply n1
        rw [hidx]
        exact ⟨hin.1, hin.2, by rw [List.getElem?_eq_getElem hlt, this]⟩

/-! ## Array.withItem -/

theorem arrWithItem_spec (vs : List (Option V)) (off : Int) (count : Nat) (h : (Plain.arr vs off count).WF)
    (ix : Int) (item : V) (hadm : ∀ d, (ix, d) ∈ kden vs off → d = item) :
    ∃ r, arrWithItem vs off count ix item = .ok r ∧ r.WF ∧
      ∀ v, v ∈ r.members ↔ v = itemV ix item ∨ v ∈ (Plain.arr vs off count).members := by
  have hcount : count = kcount vs := h
  have lift : ∀ (vs' : List (Option V)) (off' : Int) (count' : Nat),
      (∀ j y, (j, y) ∈ kden vs' off' ↔ (j = ix ∧ y = item) ∨ (j, y) ∈ kden vs off) →
      ∀ v, v ∈ (Plain.arr vs' off' count').members ↔ v = itemV ix item ∨ v ∈ (Plain.arr vs off count).members := by
    intro vs' off' count' hk v
    rw [mem_arr_members', mem_arr_members']
    constructor
    · rintro ⟨j, y, rfl, hp⟩
      rcases (hk j y).1 hp with ⟨rfl, rfl⟩ | h1
      · exact Or.inl rfl
      · exact Or.inr ⟨j, y, rfl, h1⟩
    · rintro (rfl | ⟨j, y, rfl, hp⟩)
      · exact ⟨ix, item, rfl, (hk ix item).2 (Or.inl ⟨rfl, rfl⟩)⟩
      · exact ⟨j, y, rfl, (hk j y).2 (Or.inr hp)⟩
  unfold arrWithItem
  simp only
  split
  · rename_i h1
    refine ⟨_, rfl, ?_, ?_⟩
    · show count + 1 = kcount (some item :: (List.replicate ((-(ix - off)).toNat - 1) none ++ vs))
      simp only [kcount, kcount_append, kcount_replicate_none]
      omega
    · refine lift _ _ (count + 1) ?_
      intro j y
      simp only [kden, List.mem_cons, Prod.mk.injEq, kden_append, kden_replicate_none, List.nil_append,
        List.length_replicate]
      have e1 : off + (ix - off) = ix := by omega
      have e2 : ix + 1 + (((-(ix - off)).toNat - 1 : Nat) : Int) = off := by omega
      rw [e1, e2]
  · split
    · rename_i _ h2
      refine ⟨_, rfl, ?_, ?_⟩
      · show count + 1 = kcount (vs ++ List.replicate ((ix - off).toNat - vs.length) none ++ [some item])
        simp only [kcount_append, kcount_replicate_none, kcount]
        omega
      · refine lift _ _ (count + 1) ?_
        intro j y
        simp only [kden_append, kden_replicate_none, kden, List.append_nil, List.mem_append, List.mem_singleton,
          Prod.mk.injEq, List.length_append, List.length_replicate]
        have e : off + (((vs.length + ((ix - off).toNat - vs.length) : Nat)) : Int) = ix := by omega
        rw [e]
        exact Or.comm
    · rename_i n1 n2
      have hlt : (ix - off).toNat < vs.length := by omega
      split
      · rename_i h3
        refine ⟨_, rfl, h, ?_⟩
        refine lift vs off count ?_
        intro j y
        constructor
        · exact fun hm => Or.inr hm
        · rintro (⟨rfl, rfl⟩ | hm)
          · rw [mem_kden]; exact ⟨by omega, h3⟩
          · exact hm
      · split
        · rename_i n3 h4
          exfalso
          obtain ⟨d, hd⟩ := Option.isSome_iff_exists.1 h4
          have hm : (ix, d) ∈ kden vs off := by rw [mem_kden]; exact ⟨by omega, hd⟩
          have := hadm d hm
          subst this
          exact n3 hd
        · rename_i n3 n4
          have hnone : kget vs (ix - off).toNat = none := by
            cases hk : kget vs (ix - off).toNat with
            | none => rfl
            | some d => rw [hk] at n4; simp at n4
          refine ⟨_, rfl, ?_, ?_⟩
          · show count + 1 = kcount (setAt vs (ix - off).toNat (some item))
            rw [kcount_setAt_hole vs _ item hlt hnone]; omega
          · refine lift _ off (count + 1) ?_
            intro j y
            rw [mem_kden_setAt vs off _ item hlt hnone]
            have e : off + (((ix - off).toNat : Nat) : Int) = ix := by omega
            rw [e]
            exact Or.comm


/-! ## the interface contract: with -/

theorem Plain.with_spec (p : Plain) (h : p.WF) (hne : p = .empty ∨ p.members ≠ []) (v : V) (hadm : WithAdm p v) :
    ∃ r, p.with_ v = .ok r ∧ r.WF ∧ ∀ x, x ∈ r.members ↔ x = v ∨ x ∈ p.members := by
  cases p with
  | empty =>
    simp only [Plain.with_]
    by_cases hv : v = .tup []
    · subst hv
      simp only [if_true]
      exact ⟨_, rfl, trivial, by simp [Rep.members, Plain.members]⟩
    · simp only [hv, if_false]
      obtain ⟨w1, w2, _, _⟩ := single_spec v
      refine ⟨_, rfl, w1, ?_⟩
      intro x
      show x ∈ (single v).members ↔ _
      rw [w2]
      simp [Plain.members]
  | true_ =>
    simp only [Plain.with_]
    by_cases hv : v = .tup []
    · subst hv
      simp only [if_true]
      exact ⟨_, rfl, trivial, by simp [Rep.members, Plain.members]⟩
    · simp only [hv, if_false]
      obtain ⟨w1, w2⟩ := finish_spec _ (finishAdm_unit_cons v)
      refine ⟨_, rfl, w1, ?_⟩
      intro x
      rw [w2]
      simp only [List.mem_cons, List.not_mem_nil, or_false, Plain.members, List.mem_singleton]
      exact Or.comm
  | generic xs =>
    simp only [Plain.with_]
    by_cases hb : bucketOf v = .generic
    · simp only [hb, if_true]
      refine ⟨_, rfl, ⟨FinSet.sorted_ins v xs h.1, ?_, ?_, ?_⟩, ?_⟩
      · intro hc
        have : v ∈ FinSet.ins v xs := (FinSet.mem_ins v v xs).2 (Or.inl rfl)
        rw [hc] at this; cases this
      · intro hc
        -- every member of xs would be (): then xs = [()]
        have hall : ∀ x, x ∈ xs → x = .tup [] := by
          intro x hx
          have : x ∈ FinSet.ins v xs := (FinSet.mem_ins v x xs).2 (Or.inr hx)
          rw [hc] at this
          simpa using this
        obtain ⟨hs, hn1, hn2, _⟩ := h
        cases xs with
        | nil => exact hn1 rfl
        | cons a r =>
          have ha := hall a (by simp)
          subst ha
          cases r with
          | nil => exact hn2 rfl
          | cons b t =>
            have hb' := hall b (by simp)
            subst hb'
            have := (List.pairwise_cons.1 hs).1 (.tup []) (by simp)
            exact V.cmp_lt_irrefl _ this
      · intro x hx
        rcases (FinSet.mem_ins v x xs).1 hx with rfl | hx
        · exact hb
        · exact h.2.2.2 x hx
      · intro x
        exact FinSet.mem_ins v x xs
    · simp only [hb, if_false]
      exact toUnionSetWithItem_spec _ h (by simpa [Plain.members] using h.2.1) v hb
  | str s off holes =>
    simp only [Plain.with_]
    cases hc : asChar v with
    | none =>
      simp only
      apply toUnionSetWithItem_spec _ h (by rcases hne with h1 | h1; cases h1; exact h1) v
      intro hb
      have := (bucketOf_strChar_iff v).1 hb
      rw [hc] at this; cases this
    | some q =>
      obtain ⟨ix, c⟩ := q
      obtain ⟨rfl, hcr⟩ := (asChar_eq_some v ix c).1 hc
      exact strWith_spec s off holes h ix c hcr (hadm ix c hc)
  | bytes b off =>
    simp only [Plain.with_]
    cases hc : asByte v with
    | none =>
      simp only
      apply toUnionSetWithItem_spec _ h (by rcases hne with h1 | h1; cases h1; exact h1) v
      intro hb
      have := (bucketOf_bytesByte_iff v).1 hb
      rw [hc] at this; cases this
    | some q =>
      obtain ⟨ix, c⟩ := q
      obtain ⟨rfl, hcr⟩ := (asByte_eq_some v ix c).1 hc
      exact bytesWith_spec b off h ix c hcr (hadm ix c hc)
  | arr vs off count =>
    simp only [Plain.with_]
    cases hc : asItem v with
    | none =>
      simp only
      apply toUnionSetWithItem_spec _ h (by rcases hne with h1 | h1; cases h1; exact h1) v
      intro hb
      have := (bucketOf_arrItem_iff v).1 hb
      rw [hc] at this; cases this
    | some q =>
      obtain ⟨ix, c⟩ := q
      have := (asItem_eq_some v ix c).1 hc
      subst this
      exact arrWithItem_spec vs off count h ix c (hadm ix c hc)
  | dict m =>
    simp only [Plain.with_, dictWith]
    cases hc : asEntry v with
    | none =>
      simp only
      apply toUnionSetWithItem_spec _ h (by rcases hne with h1 | h1; cases h1; exact h1) v
      intro hb
      have := (bucketOf_dictEntry_iff v).1 hb
      rw [hc] at this; cases this
    | some q =>
      obtain ⟨k, x⟩ := q
      have := (asEntry_eq_some v k x).1 hc
      subst this
      obtain ⟨d1, d2, d3⟩ := dictAdd_spec m ⟨h.2.1, h.2.2⟩ k x
      exact ⟨_, rfl, ⟨d2, d1.1, d1.2⟩, d3⟩
  | rel names rows =>
    have hne' : (Plain.rel names rows).members ≠ [] := by simpa [Plain.members] using h.2.1
    simp only [Plain.with_]
    cases v with
    | num n =>
      exact toUnionSetWithItem_spec _ h hne' _ (by simp [bucketOf, Plain.bucket])
    | set xs =>
      exact toUnionSetWithItem_spec _ h hne' _ (by simp [bucketOf, Plain.bucket])
    | tup as =>
      simp only
      split
      · rename_i hnb
        obtain ⟨hn, hb⟩ := hnb
        refine ⟨_, rfl, ⟨FinSet.sorted_ins _ rows h.1, ?_, ?_⟩, ?_⟩
        · intro hc
          have : V.tup as ∈ FinSet.ins (.tup as) rows := (FinSet.mem_ins _ _ rows).2 (Or.inl rfl)
          rw [hc] at this; cases this
        · intro x hx
          rcases (FinSet.mem_ins _ x rows).1 hx with rfl | hx
          · exact hb
          · exact h.2.2 x hx
        · intro x
          exact FinSet.mem_ins _ x rows
      · rename_i hn
        apply toUnionSetWithItem_spec _ h hne'
        intro hb
        obtain ⟨as', he, hn'⟩ := bucketOf_rel hb
        simp only [V.tup.injEq] at he
        subst he
        exact hn ⟨hn', hb⟩
