/-
  C01 — set algebra is exact for every mix of value representations.

  `Spec`: the set operators on `V` through `FinSet` (strictly sorted lists), lifted to an expression
  language `E` over literal operands.
  `Impl`: the Go set representations (rel/value_set_*.go) with their With/Without/Has/Count/Where,
  the SetBuilder (rel/value_set_builder.go), the operator dispatch of rel/ops_set.go and the subset
  comparisons of syntax/expr_set_compare.go, transliterated (same branches, same order of tests, same
  fall-backs) from the *repaired* code of the worktree.

  Modelling decision (trusted, see lib/props_c01.py): the members held by a representation are
  modelled by their meaning (`V`); Go's `Equal`/`Hash` on members is taken to be equality of meaning
  (that is property C02).  `frozen.Set`/`frozen.Map` are finite sets/maps (sorted lists / association
  lists here).  Core-only.
-/
import Arrai.Core.Lit

namespace Arrai.C01
open Arrai

/-! ## Outcomes -/

inductive Outcome (α : Type) where
  | ok (a : α)
  | err                 -- arr.ai error value
  | unspec              -- the property does not say (ill-typed operands, `<` on non-numbers)
  | panic               -- a Go panic site
  deriving Inhabited, DecidableEq

namespace Outcome
def bind {α β} : Outcome α → (α → Outcome β) → Outcome β
  | ok a, f => f a
  | err, _ => err
  | unspec, _ => unspec
  | panic, _ => panic
def map {α β} (f : α → β) : Outcome α → Outcome β
  | ok a => ok (f a)
  | err => err
  | unspec => unspec
  | panic => panic
instance : Monad Outcome where
  pure := ok
  bind := bind
end Outcome

/-! ## Finite-set extras on strictly sorted lists (Core has ins/mk/union/inter/diff/symdiff/erase/subset/card) -/
namespace FS

def filter (p : V → Bool) (a : List V) : List V := a.filter p
def image (f : V → V) (a : List V) : List V := FinSet.mk (a.map f)
/-- all sub-lists (as sub-sequences): the subsets of a strictly sorted list, each strictly sorted -/
def sublists : List V → List (List V)
  | [] => [[]]
  | x :: xs => sublists xs ++ (sublists xs).map (x :: ·)
def powerset (a : List V) : List V := FinSet.mk ((sublists a).map V.set)
/-- proper subset -/
def ssubset (a b : List V) : Bool := FinSet.subset a b && !FinSet.subset b a

end FS

/-! ## Values as members: which bucket the SetBuilder routes a value to (`getBucket`) -/

inductive Bucket where
  | generic | strChar | bytesByte | arrItem | dictEntry
  | rel (names : List String)
  deriving DecidableEq, Inhabited

def maxRune : Int := 1114111

/-- `(@: i, name: x)` with the attributes in canonical (sorted) order: `"@"` sorts first -/
def pairV (name : String) (i x : V) : V := .tup [("@", i), (name, x)]
def charV (i : Int) (c : Nat) : V := pairV "@char" (.num i) (.num (Int.ofNat c))
def byteV (i : Int) (b : Nat) : V := pairV "@byte" (.num i) (.num (Int.ofNat b))
def itemV (i : Int) (x : V) : V := pairV "@item" (.num i) x
def entryV (k x : V) : V := pairV "@value" k x

/-- `(@: at, @char: c)` that `NewTuple` specialises to a `StringCharTuple` exactly -/
def asChar : V → Option (Int × Nat)
  | .tup [(n1, .num i), (n2, .num c)] =>
    if n1 = "@" ∧ n2 = "@char" ∧ 0 ≤ c ∧ c ≤ maxRune then some (i, c.toNat) else none
  | _ => none
def asByte : V → Option (Int × Nat)
  | .tup [(n1, .num i), (n2, .num b)] =>
    if n1 = "@" ∧ n2 = "@byte" ∧ 0 ≤ b ∧ b ≤ 255 then some (i, b.toNat) else none
  | _ => none
def asItem : V → Option (Int × V)
  | .tup [(n1, .num i), (n2, x)] => if n1 = "@" ∧ n2 = "@item" then some (i, x) else none
  | _ => none
def asEntry : V → Option (V × V)
  | .tup [(n1, k), (n2, x)] => if n1 = "@" ∧ n2 = "@value" then some (k, x) else none
  | _ => none

/-- `Value.getBucket`: sets and numbers and `()` go to the generic bucket, the four specialised
tuples to their own bucket, every other tuple to the relation bucket of its (sorted) names -/
def bucketOf (v : V) : Bucket :=
  match v with
  | .num _ => .generic
  | .set _ => .generic
  | .tup [] => .generic
  | .tup as =>
    if (asChar v).isSome then .strChar
    else if (asByte v).isSome then .bytesByte
    else if (asItem v).isSome then .arrItem
    else if (asEntry v).isSome then .dictEntry
    else .rel (as.map (·.1))

/-! ## Keyed sequences: `List (Option α)` + offset (String: runes with a hole marker, Bytes, Array) -/
namespace KSeq
variable {α : Type}

/-- the (index, element) pairs a keyed sequence denotes -/
def kden : List (Option α) → Int → List (Int × α)
  | [], _ => []
  | some x :: r, i => (i, x) :: kden r (i + 1)
  | none :: r, i => kden r (i + 1)

/-- element at list position `i` (a hole and out-of-range both give `none`) -/
def kget (vs : List (Option α)) (i : Nat) : Option α := (vs[i]?).join

/-- element at index `at` of a sequence starting at `off` -/
def kat (vs : List (Option α)) (off ix : Int) : Option α :=
  if off ≤ ix ∧ ix < off + vs.length then kget vs (ix - off).toNat else none

def setAt (vs : List (Option α)) (i : Nat) (x : Option α) : List (Option α) := vs.set i x
def eraseAt (vs : List (Option α)) (i : Nat) : List (Option α) := vs.set i none

def kcount : List (Option α) → Nat
  | [] => 0
  | some _ :: r => kcount r + 1
  | none :: r => kcount r
def kholes : List (Option α) → Nat
  | [] => 0
  | some _ :: r => kholes r
  | none :: r => kholes r + 1

/-- drop leading holes, advancing the offset -/
def trimFront : List (Option α) → Int → List (Option α) × Int
  | none :: r, off => trimFront r (off + 1)
  | vs, off => (vs, off)
/-- drop trailing holes -/
def trimBack : List (Option α) → List (Option α)
  | [] => []
  | x :: r =>
    match trimBack r with
    | [] => if x.isSome then [x] else []
    | r' => x :: r'

def minAt : List (Int × α) → Int → Int
  | [], m => m
  | (i, _) :: r, m => minAt r (if i < m then i else m)
def maxAt : List (Int × α) → Int → Int
  | [], m => m
  | (i, _) :: r, m => maxAt r (if m < i then i else m)
/-- `str[t.at-minAt] = t.char` for every pair, in order (a later pair overwrites an earlier one) -/
def fill (lo : Int) : List (Int × α) → List (Option α) → List (Option α)
  | [], base => base
  | (i, x) :: r, base => fill lo r (base.set (i - lo).toNat (some x))
/-- `asString`/`asArray`: the slice from the lowest to the highest index, holes elsewhere -/
def build : List (Int × α) → List (Option α) × Int
  | [] => ([], 0)
  | (i, x) :: r =>
    let lo := minAt r i
    let hi := maxAt r i
    (fill lo ((i, x) :: r) (List.replicate (hi - lo + 1).toNat none), lo)

end KSeq
open KSeq

/-! ## The representations -/

/-- a Dict value: one value, or `multipleValues` (a frozen set of ≥ 2 values) -/
inductive DVal where
  | one (v : V)
  | many (vs : List V)
  deriving Inhabited, DecidableEq

/-- every set representation except UnionSet -/
inductive Plain where
  | empty                                                      -- EmptySet
  | true_                                                      -- TrueSet
  | generic (xs : List V)                                      -- GenericSet (frozen.Set)
  | str (s : List (Option Nat)) (off : Int) (holes : Nat)      -- String: runes, −1 = hole
  | bytes (b : List Nat) (off : Int)                           -- Bytes
  | arr (vs : List (Option V)) (off : Int) (count : Nat)       -- Array: nil = hole
  | dict (m : List (V × DVal))                                 -- Dict (frozen.Map key ↦ value | multipleValues)
  | rel (names : List String) (rows : List V)                  -- Relation (identity projector)
  deriving Inhabited, DecidableEq

inductive Rep where
  | plain (p : Plain)
  | union (bs : List (Bucket × Plain))                         -- UnionSet (frozen.Map bucket ↦ subset)
  deriving Inhabited, DecidableEq

/-! ### enumeration and denotation -/

def DVal.vals : DVal → List V
  | .one v => [v]
  | .many vs => vs

def dictMembers : List (V × DVal) → List V
  | [] => []
  | (k, d) :: r => d.vals.map (entryV k) ++ dictMembers r

def Plain.members : Plain → List V
  | .empty => []
  | .true_ => [.tup []]
  | .generic xs => xs
  | .str s off _ => (kden s off).map (fun p => charV p.1 p.2)
  | .bytes b off => (kden (b.map some) off).map (fun p => byteV p.1 p.2)
  | .arr vs off _ => (kden vs off).map (fun p => itemV p.1 p.2)
  | .dict m => dictMembers m
  | .rel _ rows => rows

def bucketsMembers : List (Bucket × Plain) → List V
  | [] => []
  | (_, p) :: r => p.members ++ bucketsMembers r

def Rep.members : Rep → List V
  | .plain p => p.members
  | .union bs => bucketsMembers bs

/-- the finite set a representation denotes -/
def Plain.den (p : Plain) : List V := FinSet.mk p.members
def Rep.den (r : Rep) : List V := FinSet.mk r.members
def Rep.denV (r : Rep) : V := .set r.den

/-- `unionSetSubsetBucket` -/
def Plain.bucket : Plain → Bucket
  | .empty => .generic
  | .true_ => .generic
  | .generic _ => .generic
  | .str .. => .strChar
  | .bytes .. => .bytesByte
  | .arr .. => .arrItem
  | .dict _ => .dictEntry
  | .rel names _ => .rel names

/-- `IsTrue` (String/Bytes panic on an empty slice: they are never constructed empty) -/
def Plain.isTrue : Plain → Bool
  | .empty => false
  | .true_ => true
  | .generic xs => !xs.isEmpty
  | .str .. => true
  | .bytes .. => true
  | .arr _ _ count => decide (count > 0)
  | .dict m => !m.isEmpty
  | .rel _ rows => !rows.isEmpty

def Rep.isTrue : Rep → Bool
  | .plain p => p.isTrue
  | .union bs => !bs.isEmpty

/-! ### association lists (frozen.Map) -/
namespace AL
variable {κ β : Type} [DecidableEq κ]
def get (k : κ) : List (κ × β) → Option β
  | [] => none
  | (k', v) :: r => if k' = k then some v else get k r
/-- `Map.With`: replace in place, else append -/
def put (k : κ) (v : β) : List (κ × β) → List (κ × β)
  | [] => [(k, v)]
  | (k', v') :: r => if k' = k then (k, v) :: r else (k', v') :: put k v r
def remove (k : κ) : List (κ × β) → List (κ × β)
  | [] => []
  | (k', v') :: r => if k' = k then r else (k', v') :: remove k r
end AL

/-! ### the set builder -/

/-- `newSetFromFrozenSet` -/
def fromFrozen (xs : List V) : Plain :=
  match xs with
  | [] => .empty
  | [x] => if x = .tup [] then .true_ else .generic [x]
  | _ => .generic xs

def charPairs : List V → List (Int × Nat)
  | [] => []
  | v :: r => match asChar v with
    | some p => p :: charPairs r
    | none => charPairs r
def bytePairs : List V → List (Int × Nat)
  | [] => []
  | v :: r => match asByte v with
    | some p => p :: bytePairs r
    | none => bytePairs r
def itemPairs : List V → List (Int × V)
  | [] => []
  | v :: r => match asItem v with
    | some p => p :: itemPairs r
    | none => itemPairs r

/-- `asString` (repaired: the holes are counted on the result) -/
def asString (ps : List (Int × Nat)) : Plain :=
  let r := build ps
  .str r.1 r.2 (kholes r.1)

/-- `asBytes`: no holes — a missing index reads as byte 0 -/
def asBytes (ps : List (Int × Nat)) : Plain :=
  let r := build ps
  .bytes (r.1.map (fun o => o.getD 0)) r.2

/-- `asArray` -/
def asArray (ps : List (Int × V)) : Plain :=
  let r := build ps
  .arr r.1 r.2 (kcount r.1)

/-- `newMultipleValues`: a frozen set of the values; a single value stays a plain value -/
def newMultipleValues (vs : List V) : DVal :=
  match FinSet.mk vs with
  | [v] => .one v
  | l => .many l

/-- one step of `NewDict(true, …)` / `Dict.With` for the entry `(k, x)` -/
def dictAdd (m : List (V × DVal)) (k x : V) : List (V × DVal) :=
  match AL.get k m with
  | some (.many vs) => AL.put k (.many (FinSet.ins x vs)) m
  | some (.one u) => AL.put k (newMultipleValues [u, x]) m
  | none => AL.put k (.one x) m

def dictAddAll (m : List (V × DVal)) : List V → List (V × DVal)
  | [] => m
  | v :: r => match asEntry v with
    | some (k, x) => dictAddAll (dictAdd m k x) r
    | none => dictAddAll m r

/-- `NewDict(true, entries…)` -/
def newDict (vs : List V) : Plain :=
  match vs with
  | [] => .empty
  | _ => .dict (dictAddAll [] vs)

/-- the `finish` function of the builder of bucket `b` -/
def finishBucket (b : Bucket) (vs : List V) : Plain :=
  match b with
  | .generic => fromFrozen (FinSet.mk vs)
  | .strChar => asString (charPairs vs)
  | .bytesByte => asBytes (bytePairs vs)
  | .arrItem => asArray (itemPairs vs)
  | .dictEntry => newDict vs
  | .rel names => .rel names (FinSet.mk vs)

/-- `SetBuilder.Add`: append to the value list of the value's bucket (buckets in order of first use) -/
def addToBucket (v : V) : List (Bucket × List V) → List (Bucket × List V)
  | [] => [(bucketOf v, [v])]
  | (b, vs) :: r => if b = bucketOf v then (b, vs ++ [v]) :: r else (b, vs) :: addToBucket v r

def groupBuckets (acc : List (Bucket × List V)) : List V → List (Bucket × List V)
  | [] => acc
  | v :: r => groupBuckets (addToBucket v acc) r

def finishGroups : List (Bucket × List V) → List (Bucket × Plain)
  | [] => []
  | (b, vs) :: r => (b, finishBucket b vs) :: finishGroups r

/-- `newSetFromBuckets` -/
def fromBuckets (bs : List (Bucket × Plain)) : Rep :=
  match bs with
  | [] => .plain .empty
  | [(_, p)] => .plain p
  | _ => .union bs

/-- `SetBuilder.Finish` after `Add`ing `xs` in order (0 buckets: None; 1: its set; else a UnionSet) -/
def finish (xs : List V) : Rep := fromBuckets (finishGroups (groupBuckets [] xs))

/-- `MustNewSet(v)`: always a single bucket -/
def single (v : V) : Plain := finishBucket (bucketOf v) [v]

/-- `toUnionSetWithItem` -/
def toUnionSetWithItem (s : Plain) (v : V) : Outcome Rep :=
  if bucketOf v = s.bucket then .panic
  else .ok (fromBuckets [(s.bucket, s), (bucketOf v, single v)])

/-- `newGenericSetFromSet` -/
def newGenericSetFromSet (p : Plain) : Plain := fromFrozen (FinSet.mk p.members)

/-! ### String -/

/-- `String.index` / `Bytes.index` -/
def seqIndex (len : Nat) (off pos : Int) : Int :=
  let p := pos - off
  if 0 ≤ p ∧ p ≤ len then p else -1

def strHas (s : List (Option Nat)) (off : Int) (v : V) : Bool :=
  match asChar v with
  | some (ix, c) => if off ≤ ix ∧ ix < off + s.length then kget s (ix - off).toNat == some c else false
  | none => false

def strCount (s : List (Option Nat)) (holes : Nat) : Nat := s.length - holes

/-- `String.with` (repaired) -/
def strWith (s : List (Option Nat)) (off : Int) (holes : Nat) (ix : Int) (c : Nat) : Outcome Rep :=
  let i := seqIndex s.length off ix
  if 0 ≤ i ∧ i < s.length ∧ kget s i.toNat = some c then .ok (.plain (.str s off holes))
  else if i = s.length then .ok (.plain (.str (s ++ [some c]) off holes))
  else if ix = off - 1 then .ok (.plain (.str (some c :: s) (off - 1) holes))
  else if 0 ≤ i ∧ i < s.length ∧ (kget s i.toNat).isSome then
    -- occupied by another char: `newGenericSetFromSet(s).With(tuple)`
    toUnionSetWithItem (newGenericSetFromSet (.str s off holes)) (charV ix c)
  else .ok (finish ((Plain.str s off holes).members ++ [charV ix c]))

/-- the three slicing cases of `String.Without` (first char, last char, a char in between) -/
def strWithoutCore (s : List (Option Nat)) (off : Int) (holes : Nat) (v : V) : List (Option Nat) × Int × Nat :=
  match asChar v with
  | some (ix, c) =>
    let i := seqIndex s.length off ix
    if i = 0 ∧ kget s 0 = some c then (s.drop 1, off + 1, holes)
    else if i = (s.length : Int) - 1 ∧ kget s (s.length - 1) = some c then (s.take (s.length - 1), off, holes)
    else if 0 < i ∧ i < (s.length : Int) - 1 ∧ kget s i.toNat = some c then (eraseAt s i.toNat, off, holes + 1)
    else (s, off, holes)
  | none => (s, off, holes)

/-- `String.trimHoles`: drop the holes at both ends (each one dropped leaves the hole count) -/
def strTrim (r : List (Option Nat) × Int × Nat) : List (Option Nat) × Int × Nat :=
  let f := trimFront r.1 r.2.1
  let t := trimBack f.1
  (t, f.2, r.2.2 - (r.1.length - t.length))

def strWithout (s : List (Option Nat)) (off : Int) (holes : Nat) (v : V) : Plain :=
  let r := match asChar v with
    | some _ => strTrim (strWithoutCore s off holes v)
    | none => (s, off, holes)
  if strCount r.1 r.2.2 = 0 then .empty else .str r.1 r.2.1 r.2.2

/-! ### Bytes -/

def bytesHas (b : List Nat) (off : Int) (v : V) : Bool :=
  match asByte v with
  | some (pos, x) => if off ≤ pos ∧ pos < off + b.length then b[(pos - off).toNat]? == some x else false
  | none => false

/-- `Bytes.with` -/
def bytesWith (b : List Nat) (off : Int) (index : Int) (x : Nat) : Outcome Rep :=
  let i := seqIndex b.length off index
  if 0 ≤ i ∧ i < b.length ∧ b[i.toNat]? = some x then .ok (.plain (.bytes b off))
  else if i = b.length then .ok (.plain (.bytes (b ++ [x]) off))
  else if index = off - 1 then .ok (.plain (.bytes (x :: b) (off - 1)))
  else toUnionSetWithItem (newGenericSetFromSet (.bytes b off)) (byteV index x)

/-- `Bytes.Without` (repaired); the middle case leaves a GenericSet of byte tuples -/
def bytesWithout (b : List Nat) (off : Int) (v : V) : Plain :=
  match asByte v with
  | some (pos, x) =>
    let i := seqIndex b.length off pos
    if 0 ≤ i ∧ i < b.length ∧ b[i.toNat]? = some x then
      if b.length = 1 then .empty
      else if i = 0 then .bytes (b.drop 1) (off + 1)
      else if i = (b.length : Int) - 1 then .bytes (b.take i.toNat) off
      else fromFrozen (FinSet.erase (FinSet.mk (Plain.bytes b off).members) v)
    else .bytes b off
  | none => .bytes b off

/-! ### Array -/

/-- `NewOffsetArray`: trim holes from both ends, count the rest; nothing but holes is the empty set -/
def newOffsetArray (off : Int) (vs : List (Option V)) : Plain :=
  let f := trimFront vs off
  let t := trimBack f.1
  if t.isEmpty then .empty else .arr t f.2 (kcount t)

def arrHas (vs : List (Option V)) (off : Int) (v : V) : Bool :=
  match asItem v with
  | some (ix, x) => if off ≤ ix ∧ ix < off + vs.length then kget vs (ix - off).toNat == some x else false
  | none => false

/-- `Array.withItem`: grows at either end, fills a hole; an occupied index falls back to a generic set -/
def arrWithItem (vs : List (Option V)) (off : Int) (count : Nat) (index : Int) (item : V) : Outcome Rep :=
  let i := index - off
  if i < 0 then
    .ok (.plain (.arr (some item :: (List.replicate ((-i).toNat - 1) none ++ vs)) (off + i) (count + 1)))
  else if i ≥ vs.length then
    .ok (.plain (.arr (vs ++ List.replicate (i.toNat - vs.length) none ++ [some item]) off (count + 1)))
  else if kget vs i.toNat = some item then .ok (.plain (.arr vs off count))
  else if (kget vs i.toNat).isSome then
    -- occupied by another item: `newGenericSetFromSet(a).With(tuple)`
    toUnionSetWithItem (newGenericSetFromSet (.arr vs off count)) (itemV index item)
  else .ok (.plain (.arr (setAt vs i.toNat (some item)) off (count + 1)))

def arrWithout (vs : List (Option V)) (off : Int) (count : Nat) (v : V) : Plain :=
  match asItem v with
  | some (ix, x) =>
    let i := ix - off
    if 0 ≤ i ∧ i < vs.length ∧ kget vs i.toNat = some x then
      if ix = off then newOffsetArray (off + 1) (vs.drop 1)
      else if ix = off + vs.length - 1 then newOffsetArray off (vs.take (vs.length - 1))
      else if count - 1 = 0 then .empty
      else .arr (eraseAt vs i.toNat) off (count - 1)
    else .arr vs off count
  | none => .arr vs off count

/-- `Array.Where`: nil out the rejected items, then trim both ends -/
def arrKeep (p : V → Bool) : List (Option V) → Int → List (Option V)
  | [], _ => []
  | some x :: r, i => (if p (itemV i x) then some x else none) :: arrKeep p r (i + 1)
  | none :: r, i => none :: arrKeep p r (i + 1)

def arrFilter (vs : List (Option V)) (off : Int) (count : Nat) (p : V → Bool) : Plain :=
  let kept := arrKeep p vs off
  let n := count - (kcount vs - kcount kept)      -- `result.count--` for every rejected item
  if n = 0 then .empty
  else
    let f := trimFront kept off
    .arr (trimBack f.1) f.2 n

/-! ### Dict (repaired: multi-valued keys are honoured) -/

def dictCount : List (V × DVal) → Nat
  | [] => 0
  | (_, .many vs) :: r => vs.length + dictCount r
  | (_, .one _) :: r => 1 + dictCount r

def dictHas (m : List (V × DVal)) (v : V) : Bool :=
  match asEntry v with
  | some (k, x) =>
    match AL.get k m with
    | some (.many vs) => decide (x ∈ vs)
    | some (.one w) => decide (x = w)
    | none => false
  | none => false

def dictWith (m : List (V × DVal)) (v : V) : Outcome Rep :=
  match asEntry v with
  | some (k, x) => .ok (.plain (.dict (dictAdd m k x)))
  | none => toUnionSetWithItem (.dict m) v

def dictWithout (m : List (V × DVal)) (v : V) : Plain :=
  match asEntry v with
  | some (k, x) =>
    match AL.get k m with
    | some (.many vs) =>
      if x ∈ vs then .dict (AL.put k (newMultipleValues (FinSet.erase vs x)) m) else .dict m
    | some (.one w) =>
      if x = w then (if (AL.remove k m).isEmpty then .empty else .dict (AL.remove k m)) else .dict m
    | none => .dict m
  | none => .dict m

/-! ### the Set interface on Plain -/

def Plain.has (p : Plain) (v : V) : Bool :=
  match p with
  | .empty => false
  | .true_ => decide (v = .tup [])
  | .generic xs => decide (v ∈ xs)
  | .str s off _ => strHas s off v
  | .bytes b off => bytesHas b off v
  | .arr vs off _ => arrHas vs off v
  | .dict m => dictHas m v
  | .rel names rows =>
    match v with
    | .tup as => decide (as.map (·.1) = names) && decide (v ∈ rows)
    | _ => false

def Plain.count (p : Plain) : Nat :=
  match p with
  | .empty => 0
  | .true_ => 1
  | .generic xs => xs.length
  | .str s _ holes => strCount s holes
  | .bytes b _ => b.length
  | .arr _ _ count => count
  | .dict m => dictCount m
  | .rel _ rows => rows.length

def Plain.with_ (p : Plain) (v : V) : Outcome Rep :=
  match p with
  | .empty => if v = .tup [] then .ok (.plain .true_) else .ok (.plain (single v))
  | .true_ => if v = .tup [] then .ok (.plain .true_) else .ok (finish [.tup [], v])
  | .generic xs =>
    if bucketOf v = .generic then .ok (.plain (.generic (FinSet.ins v xs)))
    else toUnionSetWithItem (.generic xs) v
  | .str s off holes =>
    match asChar v with
    | some (ix, c) => strWith s off holes ix c
    | none => toUnionSetWithItem (.str s off holes) v
  | .bytes b off =>
    match asByte v with
    | some (i, x) => bytesWith b off i x
    | none => toUnionSetWithItem (.bytes b off) v
  | .arr vs off count =>
    match asItem v with
    | some (i, x) => arrWithItem vs off count i x
    | none => toUnionSetWithItem (.arr vs off count) v
  | .dict m => dictWith m v
  | .rel names rows =>
    match v with
    | .tup as =>
      -- a row only if the tuple has the relation's names *and* is routed to the relation's bucket
      if as.map (·.1) = names ∧ bucketOf v = .rel names then .ok (.plain (.rel names (FinSet.ins v rows)))
      else toUnionSetWithItem (.rel names rows) v
    | _ => toUnionSetWithItem (.rel names rows) v

/-- `Relation.newBody` -/
def relBody (names : List String) (rows : List V) : Plain :=
  if rows.isEmpty then .empty else .rel names rows

def Plain.without (p : Plain) (v : V) : Plain :=
  match p with
  | .empty => .empty
  | .true_ => if v = .tup [] then .empty else .true_
  | .generic xs => fromFrozen (FinSet.erase xs v)
  | .str s off holes => strWithout s off holes v
  | .bytes b off => bytesWithout b off v
  | .arr vs off count => arrWithout vs off count v
  | .dict m => dictWithout m v
  | .rel names rows =>
    match v with
    | .tup as => if as.map (·.1) = names then relBody names (FinSet.erase rows v) else .rel names rows
    | _ => .rel names rows

/-- the result of `Where` with a predicate that cannot fail.  String/Bytes/Dict re-build through the
SetBuilder/NewDict, Array nils out and trims, the others filter their frozen set. -/
def Plain.filter (p : Plain) (f : V → Bool) : Plain :=
  match p with
  | .empty => .empty
  | .true_ => if f (.tup []) then .true_ else .empty
  | .generic xs => fromFrozen (xs.filter f)
  | .str s off holes =>
    match (Plain.str s off holes).members.filter f with
    | [] => .empty
    | l => asString (charPairs l)
  | .bytes b off =>
    match (Plain.bytes b off).members.filter f with
    | [] => .empty
    | l => asBytes (bytePairs l)
  | .arr vs off count => arrFilter vs off count f
  | .dict m => newDict ((Plain.dict m).members.filter f)
  | .rel names rows => relBody names (rows.filter f)

/-! ### UnionSet -/

def getSubset (bs : List (Bucket × Plain)) (b : Bucket) : Plain := (AL.get b bs).getD .empty

def unionHas (bs : List (Bucket × Plain)) (v : V) : Bool :=
  match AL.get (bucketOf v) bs with
  | some p => p.has v
  | none => false

def unionCount : List (Bucket × Plain) → Nat
  | [] => 0
  | (_, p) :: r => p.count + unionCount r

/-- a subset stored in a UnionSet must be a plain set; anything else is outside the model -/
def asPlain : Outcome Rep → Outcome Plain
  | .ok (.plain p) => .ok p
  | .ok (.union _) => .unspec
  | .err => .err
  | .unspec => .unspec
  | .panic => .panic

def unionWith (bs : List (Bucket × Plain)) (v : V) : Outcome Rep :=
  match asPlain ((getSubset bs (bucketOf v)).with_ v) with
  | .ok p => .ok (fromBuckets (AL.put (bucketOf v) p bs))
  | .err => .err
  | .unspec => .unspec
  | .panic => .panic

def unionWithout (bs : List (Bucket × Plain)) (v : V) : Rep :=
  if !unionHas bs v then .union bs
  else
    let newSet := (getSubset bs (bucketOf v)).without v
    if !newSet.isTrue then fromBuckets (AL.remove (bucketOf v) bs)
    else fromBuckets (AL.put (bucketOf v) newSet bs)

def unionFilterBuckets (f : V → Bool) : List (Bucket × Plain) → List (Bucket × Plain)
  | [] => []
  | (b, p) :: r =>
    let q := p.filter f
    if q.isTrue then (b, q) :: unionFilterBuckets f r else unionFilterBuckets f r

/-! ### the Set interface on Rep -/

def Rep.has : Rep → V → Bool
  | .plain p, v => p.has v
  | .union bs, v => unionHas bs v

def Rep.count : Rep → Nat
  | .plain p => p.count
  | .union bs => unionCount bs

def Rep.with_ : Rep → V → Outcome Rep
  | .plain p, v => p.with_ v
  | .union bs, v => unionWith bs v

def Rep.without : Rep → V → Rep
  | .plain p, v => .plain (p.without v)
  | .union bs, v => unionWithout bs v

def Rep.filter : Rep → (V → Bool) → Rep
  | .plain p, f => .plain (p.filter f)
  | .union bs, f => fromBuckets (unionFilterBuckets f bs)

/-- `CanonicalSet`: a GenericSet is re-built through the SetBuilder -/
def canonicalSet : Rep → Rep
  | .plain (.generic xs) => finish xs
  | r => r

/-! ## rel/ops_set.go -/

def isEmptySet : Rep → Bool
  | .plain .empty => true
  | _ => false

/-- `Intersect` on two sets that are not UnionSets -/
def interPP (a b : Plain) : Plain :=
  match a, b with
  | .empty, _ => .empty
  | _, .empty => .empty
  | .generic xs, .generic ys => fromFrozen (FinSet.inter xs ys)
  | a, b => a.filter b.has

def interBuckets (bu : List (Bucket × Plain)) : List (Bucket × Plain) → List (Bucket × Plain)
  | [] => []
  | (k, p) :: r =>
    match AL.get k bu with
    | some q =>
      let s := interPP p q
      if s.isTrue then (k, s) :: interBuckets bu r else interBuckets bu r
    | none => interBuckets bu r

def inter : Rep → Rep → Rep
  | .plain a, .plain b => .plain (interPP a b)
  | .union au, .union bu => fromBuckets (interBuckets bu au)
  | .union au, .plain b => if b = .empty then .plain .empty else .plain (interPP (getSubset au b.bucket) b)
  | .plain a, .union bu => if a = .empty then .plain .empty else .plain (interPP (getSubset bu a.bucket) a)

/-- `Difference` on two sets that are not UnionSets -/
def diffPP (a b : Plain) : Plain :=
  match a, b with
  | .empty, _ => .empty
  | a, .empty => a
  | .generic xs, .generic ys => fromFrozen (FinSet.diff xs ys)
  | a, b => a.filter (fun v => !b.has v)

def diffBuckets (bu : List (Bucket × Plain)) : List (Bucket × Plain) → List (Bucket × Plain)
  | [] => []
  | (k, p) :: r =>
    let d := diffPP p (getSubset bu k)
    if d.isTrue then (k, d) :: diffBuckets bu r else diffBuckets bu r

def diff : Rep → Rep → Rep
  | .plain a, .plain b => .plain (diffPP a b)
  | .union au, .union bu => fromBuckets (diffBuckets bu au)
  | .union au, .plain b =>
    if b = .empty then .union au
    else
      let d := diffPP (getSubset au b.bucket) b
      if d.isTrue then fromBuckets (AL.put b.bucket d au) else fromBuckets (AL.remove b.bucket au)
  | .plain a, .union bu => if a = .empty then .plain .empty else .plain (diffPP a (getSubset bu a.bucket))

/-- the loop `for e in b { a = a.With(e) }` -/
def withAll : Rep → List V → Outcome Rep
  | a, [] => .ok a
  | a, v :: r =>
    match a.with_ v with
    | .ok a' => withAll a' r
    | .err => .err
    | .unspec => .unspec
    | .panic => .panic

/-- `Union` on two sets that are not UnionSets -/
def unionPP (a b : Plain) : Outcome Rep :=
  match a, b with
  | .empty, b => .ok (.plain b)
  | a, .empty => .ok (.plain a)
  | .generic xs, .generic ys => .ok (canonicalSet (.plain (fromFrozen (FinSet.union xs ys))))
  | a, b =>
    if a.bucket ≠ b.bucket then .ok (fromBuckets [(a.bucket, a), (b.bucket, b)])
    else (withAll (.plain a) b.members).map canonicalSet

/-- `Map.Merge(bu.m, Union)`: keys of `au` first (merged where `bu` has them), then the rest of `bu` -/
def mergeBuckets (bu : List (Bucket × Plain)) : List (Bucket × Plain) → Outcome (List (Bucket × Plain))
  | [] => .ok []
  | (k, p) :: r =>
    match mergeBuckets bu r with
    | .ok r' =>
      match AL.get k bu with
      | some q =>
        match asPlain (unionPP p q) with
        | .ok s => .ok ((k, s) :: r')
        | .err => .err
        | .unspec => .unspec
        | .panic => .panic
      | none => .ok ((k, p) :: r')
    | o => o

def restBuckets (au : List (Bucket × Plain)) : List (Bucket × Plain) → List (Bucket × Plain)
  | [] => []
  | (k, q) :: r => if (AL.get k au).isSome then restBuckets au r else (k, q) :: restBuckets au r

/-- `UnionSet.unionWithSubset` -/
def unionWithSubset (au : List (Bucket × Plain)) (b : Plain) : Outcome Rep :=
  match asPlain (unionPP (getSubset au b.bucket) b) with
  | .ok s => .ok (fromBuckets (AL.put b.bucket s au))
  | .err => .err
  | .unspec => .unspec
  | .panic => .panic

def union : Rep → Rep → Outcome Rep
  | .plain a, .plain b => unionPP a b
  | .union au, .union bu =>
    match mergeBuckets bu au with
    | .ok m => .ok (fromBuckets (m ++ restBuckets au bu))
    | .err => .err
    | .unspec => .unspec
    | .panic => .panic
  | .union au, .plain b => if b = .empty then .ok (.union au) else unionWithSubset au b
  | .plain a, .union bu => if a = .empty then .ok (.union bu) else unionWithSubset bu a

def bothGeneric : Rep → Rep → Option (List V × List V)
  | .plain (.generic xs), .plain (.generic ys) => some (xs, ys)
  | _, _ => none

def symdiff (a b : Rep) : Outcome Rep :=
  if isEmptySet a then .ok b
  else if isEmptySet b then .ok a
  else match bothGeneric a b with
    | some (xs, ys) => .ok (.plain (fromFrozen (FinSet.symdiff xs ys)))
    | none => union (diff a b) (diff b a)

/-! ### members that are sets: their representation is re-derived from their meaning (members are
canonical values, C02) -/

def repOfV : V → Outcome Rep
  | .set xs => .ok (finish xs)
  | _ => .err

/-- `s.Current().(Set).With(c)` for a member `s` of the accumulated power set -/
def withV (s c : V) : Outcome V :=
  match repOfV s with
  | .ok r => (r.with_ c).map Rep.denV
  | .err => .panic
  | .unspec => .unspec
  | .panic => .panic

/-- the inner loop of `PowerSet`: `newSets = newSets.With(s.With(c))` for every `s` of `result` -/
def powerStep (c : V) : List V → Rep → Outcome Rep
  | [], acc => .ok acc
  | s :: r, acc =>
    match withV s c with
    | .ok s' =>
      match acc.with_ s' with
      | .ok acc' => powerStep c r acc'
      | o => o
    | .err => .err
    | .unspec => .unspec
    | .panic => .panic

def powerLoop : List V → Rep → Outcome Rep
  | [], result => .ok result
  | c :: r, result =>
    match powerStep c result.members (.plain .empty) with
    | .ok newSets =>
      match union result newSets with
      | .ok result' => powerLoop r result'
      | o => o
    | o => o

/-- `PowerSet` -/
def powerSet (s : Rep) : Outcome Rep :=
  match s with
  | .plain .empty => .ok (finish [.set []])
  | .plain (.generic xs) => .ok (.plain (fromFrozen (FinSet.mk ((FS.sublists xs).map V.set))))
  | s => powerLoop s.members (finish [.set []])

/-! ### syntax/expr_set_compare.go -/

def subsetI (s t : Rep) : Bool :=
  if t.count = 0 then false
  else s.members.all t.has && decide (s.count < t.count)

def subsetOrEqualI (s t : Rep) : Bool :=
  if t.count = 0 then decide (s.count = 0)
  else s.members.all t.has && decide (s.count ≤ t.count)

/-- `Equal` on two sets: equality of meaning (trusted here; it is property C02) -/
def equalI (a b : Rep) : Bool := decide (a.den = b.den)

def subsetOrSupersetI (a b : Rep) : Bool := subsetI a b || (subsetI b a && !equalI a b)
def subsetSupersetOrEqualI (a b : Rep) : Bool := subsetI a b || subsetI b a || equalI a b

/-! ## The expression language -/

/-- first-order terms over `.` -/
inductive T where
  | dot
  | const (l : Lit)
  | attr (t : T) (name : String)
  | add (a b : T)
  | sub (a b : T)
  | mul (a b : T)
  | tup1 (n : String) (a : T)
  | tup2 (n1 : String) (a : T) (n2 : String) (b : T)
  | set1 (a : T)
  deriving Inhabited

/-- first-order predicates over `.` -/
inductive P where
  | tt
  | eq (a b : T)
  | ne (a b : T)
  | lt (a b : T)
  | le (a b : T)
  | and (p q : P)
  | or (p q : P)
  | not (p : P)
  deriving Inhabited

inductive BinOp where
  | union | inter | diff | symdiff | with_ | without
  deriving DecidableEq, Inhabited

inductive CmpOp where
  | mem | nmem                       -- <:  !<:
  | sub | sup | sube | supe          -- (<) (>) (<=) (>=)
  | comp | compe                     -- (<>) (<>=)
  | nsub | nsup | nsube | nsupe | ncomp | ncompe
  deriving DecidableEq, Inhabited

inductive E where
  | lit (l : Lit)
  | bin (op : BinOp) (a b : E)
  | cmp (op : CmpOp) (a b : E)
  | count (a : E)
  | where_ (a : E) (p : P)
  | darrow (a : E) (f : T)
  | pow (a : E)
  /-- a relation *computed* by natural joins of projections of itself (each column a key, so the joins
  are lossless): the same value as the literal `{|names| rows}`, held with another physical column
  order; `src` is the join expression -/
  | relj (names : List String) (rows : List (List Lit)) (src : String)
  deriving Inhabited

/-! ### source text -/

def T.src : T → String
  | .dot => "."
  | .const l => l.src
  | .attr .dot name => "." ++ Lit.nameSrc name
  | .attr t name => "(" ++ t.src ++ ")." ++ Lit.nameSrc name
  | .add a b => "(" ++ a.src ++ " + " ++ b.src ++ ")"
  | .sub a b => "(" ++ a.src ++ " - " ++ b.src ++ ")"
  | .mul a b => "(" ++ a.src ++ " * " ++ b.src ++ ")"
  | .tup1 n a => "(" ++ Lit.nameSrc n ++ ": " ++ a.src ++ ")"
  | .tup2 n1 a n2 b => "(" ++ Lit.nameSrc n1 ++ ": " ++ a.src ++ ", " ++ Lit.nameSrc n2 ++ ": " ++ b.src ++ ")"
  | .set1 a => "{" ++ a.src ++ "}"

def P.src : P → String
  | .tt => "true"
  | .eq a b => "(" ++ a.src ++ " = " ++ b.src ++ ")"
  | .ne a b => "(" ++ a.src ++ " != " ++ b.src ++ ")"
  | .lt a b => "(" ++ a.src ++ " < " ++ b.src ++ ")"
  | .le a b => "(" ++ a.src ++ " <= " ++ b.src ++ ")"
  | .and p q => "(" ++ p.src ++ " && " ++ q.src ++ ")"
  | .or p q => "(" ++ p.src ++ " || " ++ q.src ++ ")"
  | .not p => "(!" ++ p.src ++ ")"

def BinOp.src : BinOp → String
  | .union => "|" | .inter => "&" | .diff => "&~" | .symdiff => "~~" | .with_ => "with" | .without => "without"

def CmpOp.src : CmpOp → String
  | .mem => "<:" | .nmem => "!<:"
  | .sub => "(<)" | .sup => "(>)" | .sube => "(<=)" | .supe => "(>=)" | .comp => "(<>)" | .compe => "(<>=)"
  | .nsub => "!(<)" | .nsup => "!(>)" | .nsube => "!(<=)" | .nsupe => "!(>=)" | .ncomp => "!(<>)"
  | .ncompe => "!(<>=)"

def E.src : E → String
  | .lit l => l.src
  | .bin op a b => "(" ++ a.src ++ " " ++ op.src ++ " " ++ b.src ++ ")"
  | .cmp op a b => "(" ++ a.src ++ " " ++ op.src ++ " " ++ b.src ++ ")"
  | .count a => "(" ++ a.src ++ " count)"
  | .where_ a p => "(" ++ a.src ++ " where " ++ p.src ++ ")"
  | .darrow a f => "(" ++ a.src ++ " => " ++ f.src ++ ")"
  | .pow a => "(^(" ++ a.src ++ "))"
  | .relj _ _ src => src

/-! ### evaluation of terms and predicates (shared by Spec and Impl: closures are not under test) -/

def getAttr (name : String) : V → Outcome V
  | .tup as =>
    match as.lookup name with
    | some v => .ok v
    | none => .err
  | .set _ => .unspec       -- deprecated: `.` on a singleton set reaches into its only member
  | _ => .err

/-- a tuple with a sugar heading whose `@` (or `@char`/`@byte`) is not a number: `NewTuple` panics
(asserted by the existing suite — KF-pinned-panics of C10); cases that reach it are not generated -/
def pinnedPanic (n1 : String) (a : V) (n2 : String) (b : V) : Bool :=
  let chk (ni : String) (i : V) (nx : String) (x : V) : Bool :=
    ni == "@" && (nx == "@char" || nx == "@byte" || nx == "@item") &&
      (!(match i with | .num _ => true | _ => false) ||
       ((nx == "@char" || nx == "@byte") && !(match x with | .num _ => true | _ => false)))
  chk n1 a n2 b || chk n2 b n1 a

def T.eval (x : V) : T → Outcome V
  | .dot => .ok x
  | .const l => .ok l.den
  | .attr t name => (t.eval x).bind (getAttr name)
  | .add a b =>
    (a.eval x).bind fun u => (b.eval x).bind fun w =>
      match u, w with
      | .num m, .num n => .ok (.num (m + n))
      | _, _ => .unspec
  | .sub a b =>
    (a.eval x).bind fun u => (b.eval x).bind fun w =>
      match u, w with
      | .num m, .num n => .ok (.num (m - n))
      | _, _ => .err
  | .mul a b =>
    (a.eval x).bind fun u => (b.eval x).bind fun w =>
      match u, w with
      | .num m, .num n => .ok (.num (m * n))
      | _, _ => .err
  | .tup1 n a => (a.eval x).bind fun u => .ok (V.mkTup [(n, u)])
  | .tup2 n1 a n2 b =>
    (a.eval x).bind fun u => (b.eval x).bind fun w =>
      if pinnedPanic n1 u n2 w then .panic else .ok (V.mkTup [(n1, u), (n2, w)])
  | .set1 a => (a.eval x).bind fun u => .ok (V.mkSet [u])

def P.eval (x : V) : P → Outcome Bool
  | .tt => .ok true
  | .eq a b => (a.eval x).bind fun u => (b.eval x).bind fun w => .ok (decide (u = w))
  | .ne a b => (a.eval x).bind fun u => (b.eval x).bind fun w => .ok (!decide (u = w))
  | .lt a b =>
    (a.eval x).bind fun u => (b.eval x).bind fun w =>
      match u, w with
      | .num m, .num n => .ok (decide (m < n))
      | _, _ => .unspec
  | .le a b =>
    (a.eval x).bind fun u => (b.eval x).bind fun w =>
      match u, w with
      | .num m, .num n => .ok (decide (m ≤ n))
      | _, _ => .unspec
  | .and p q =>
    match p.eval x with
    | .ok true => q.eval x
    | o => o
  | .or p q =>
    match p.eval x with
    | .ok false => q.eval x
    | o => o
  | .not p => (p.eval x).map (!·)

/-- run a callback over the members: a panic anywhere wins, else an error anywhere, else an
unspecified answer anywhere, else all the results -/
def mapAll {β} (f : V → Outcome β) : List V → Outcome (List β)
  | [] => .ok []
  | x :: r =>
    match f x, mapAll f r with
    | .panic, _ => .panic
    | _, .panic => .panic
    | .err, _ => .err
    | _, .err => .err
    | .unspec, _ => .unspec
    | _, .unspec => .unspec
    | .ok y, .ok ys => .ok (y :: ys)

/-- filter by a list of verdicts -/
def keepBy : List V → List Bool → List V
  | x :: xs, b :: bs => if b then x :: keepBy xs bs else keepBy xs bs
  | _, _ => []

/-! ## Spec -/
namespace Spec

def binop (op : BinOp) (x y : V) : Outcome V :=
  match op, x, y with
  | .union, .set a, .set b => .ok (.set (FinSet.union a b))
  | .inter, .set a, .set b => .ok (.set (FinSet.inter a b))
  | .diff, .set a, .set b => .ok (.set (FinSet.diff a b))
  | .symdiff, .set a, .set b => .ok (.set (FinSet.symdiff a b))
  | .with_, .set a, v => .ok (.set (FinSet.ins v a))
  | .without, .set a, v => .ok (.set (FinSet.erase a v))
  | _, _, _ => .unspec

def comparable (a b : List V) : Bool := FS.ssubset a b || FS.ssubset b a

def cmpop (op : CmpOp) (x y : V) : Outcome Bool :=
  match op, x, y with
  | .mem, v, .set b => .ok (decide (v ∈ b))
  | .nmem, v, .set b => .ok (!decide (v ∈ b))
  | .mem, _, _ => .unspec
  | .nmem, _, _ => .unspec
  | op, .set a, .set b =>
    .ok (match op with
      | .sub => FS.ssubset a b | .sup => FS.ssubset b a
      | .sube => FinSet.subset a b | .supe => FinSet.subset b a
      | .comp => comparable a b | .compe => comparable a b || decide (a = b)
      | .nsub => !FS.ssubset a b | .nsup => !FS.ssubset b a
      | .nsube => !FinSet.subset a b | .nsupe => !FinSet.subset b a
      | .ncomp => !comparable a b | .ncompe => !(comparable a b || decide (a = b))
      | .mem => false | .nmem => false)
  | _, _, _ => .unspec         -- a non-set operand: an error (`setOperands`)

def eval : E → Outcome V
  | .lit l => .ok l.den
  | .bin op a b => (eval a).bind fun x => (eval b).bind fun y => binop op x y
  | .cmp op a b => (eval a).bind fun x => (eval b).bind fun y => (cmpop op x y).map V.bool
  | .count a =>
    (eval a).bind fun x =>
      match x with
      | .set xs => .ok (.num (FinSet.card xs))
      | _ => .unspec
  | .where_ a p =>
    (eval a).bind fun x =>
      match x with
      | .set xs => (mapAll (fun v => p.eval v) xs).map fun bs => .set (keepBy xs bs)
      | _ => .unspec
  | .darrow a f =>
    (eval a).bind fun x =>
      match x with
      | .set xs => (mapAll (fun v => f.eval v) xs).map fun ys => .set (FinSet.mk ys)
      | _ => .unspec
  | .pow a =>
    (eval a).bind fun x =>
      match x with
      | .set xs => .ok (.set (FS.powerset xs))
      | _ => .unspec
  | .relj names rows _ => .ok (Lit.rel names rows).den

end Spec

/-! ## Impl: evaluation on representations -/
namespace Impl

/-- an evaluated value: a number or tuple (by meaning), or a set (by representation) -/
inductive IV where
  | val (v : V)
  | set (r : Rep)
  deriving Inhabited

def IV.toV : IV → V
  | .val v => v
  | .set r => r.denV

/-- how a literal is represented once evaluated -/
def litIV (l : Lit) : IV :=
  match l with
  | .num n => .val (.num n)
  | .tup _ => .val l.den
  | .str off cs => .set (.plain (if cs.isEmpty then .empty else .str (cs.map some) off 0))
  | .bytes off bs => .set (.plain (if bs.isEmpty then .empty else .bytes bs off))
  | .arr off xs => .set (.plain (newOffsetArray off (Lit.denOpts xs)))
  | .dict kvs => .set (.plain (newDict (Lit.denPairs kvs)))
  | .set xs => .set (finish (Lit.denList xs))
  | .rel names rows => .set (finish (Lit.denRows names rows))
  | .tt => .set (.plain .true_)
  | .ff => .set (.plain .empty)

def normTrue (r : Rep) : Rep := if r.isTrue then r else .plain .empty

def binop (op : BinOp) (x y : IV) : Outcome IV :=
  match op, x, y with
  | .union, .set a, .set b => (union a b).map .set
  | .inter, .set a, .set b => .ok (.set (inter a b))
  | .diff, .set a, .set b => .ok (.set (diff a b))
  | .symdiff, .set a, .set b => (symdiff a b).map .set
  | .with_, .set a, v => (a.with_ v.toV).map .set
  | .without, .set a, v => .ok (.set (normTrue (a.without v.toV)))
  | _, _, _ => .err

def cmpop (op : CmpOp) (x y : IV) : Outcome Bool :=
  match op, x, y with
  | .mem, v, .set b => .ok (b.has v.toV)
  | .nmem, v, .set b => .ok (!b.has v.toV)
  | .mem, _, _ => .err
  | .nmem, _, _ => .err
  | op, .set a, .set b =>
    .ok (match op with
      | .sub => subsetI a b | .sup => subsetI b a
      | .sube => subsetOrEqualI a b | .supe => subsetOrEqualI b a
      | .comp => subsetOrSupersetI a b | .compe => subsetSupersetOrEqualI b a
      | .nsub => !subsetI a b | .nsup => !subsetI b a
      | .nsube => !subsetOrEqualI a b | .nsupe => !subsetOrEqualI b a
      | .ncomp => !subsetOrSupersetI a b | .ncompe => !subsetSupersetOrEqualI b a
      | .mem => false | .nmem => false)
  | _, _, _ => .err

def eval : E → Outcome IV
  | .lit l => .ok (litIV l)
  | .bin op a b => (eval a).bind fun x => (eval b).bind fun y => binop op x y
  | .cmp op a b =>
    (eval a).bind fun x => (eval b).bind fun y => (cmpop op x y).map fun t => .set (.plain (if t then .true_ else .empty))
  | .count a =>
    (eval a).bind fun x =>
      match x with
      | .set r => .ok (.val (.num r.count))
      | _ => .err
  | .where_ a p =>
    (eval a).bind fun x =>
      match x with
      | .set r =>
        (mapAll (fun v => p.eval v) r.members).map fun bs =>
          .set (normTrue (r.filter (fun v => (keepBy r.members bs).contains v)))
      | _ => .err
  | .darrow a f =>
    (eval a).bind fun x =>
      match x with
      | .set r => (mapAll (fun v => f.eval v) r.members).map fun ys => .set (finish ys)
      | _ => .err
  | .pow a =>
    (eval a).bind fun x =>
      match x with
      | .set r => (powerSet r).map .set
      | _ => .err
  | .relj names rows _ => .ok (litIV (.rel names rows))

end Impl

/-! ## Observables -/

def obsV : Outcome V → String
  | .ok v => v.canon
  | .err => "error"
  | .unspec => "!panic"
  | .panic => "panic"

def obsI : Outcome Impl.IV → String
  | .ok v => v.toV.canon
  | .err => "error"
  | .unspec => "?"
  | .panic => "panic"

/-! ## Known-finding classes (decidable, evaluated on what the *specification* computes) -/

/-- `(attribute name, index)` of a sequence-sugar pair `(@: i, @char|@byte|@item: _)` -/
def sugarKey : V → Option (String × V)
  | .tup [(n1, i), (n2, _)] =>
    if n1 = "@" ∧ (n2 = "@char" ∨ n2 = "@byte" ∨ n2 = "@item") then some (n2, i) else none
  | _ => none

/-- two different members sit at one index of one sequence kind -/
def superimposedIn : List V → Bool
  | [] => false
  | x :: r =>
    (match sugarKey x with
     | some k => r.any (fun y => decide (sugarKey y = some k) && !decide (y = x))
     | none => false) || superimposedIn r

/-- the indices of the byte pairs among the members -/
def byteIdx (xs : List V) : List Int := (bytePairs xs).map (·.1)
def minInt : List Int → Int → Int
  | [], m => m
  | i :: r, m => minInt r (if i < m then i else m)
def maxInt : List Int → Int → Int
  | [], m => m
  | i :: r, m => maxInt r (if m < i then i else m)
/-- the byte pairs among the members do not cover a contiguous range of indices (their indices are
pairwise distinct unless the set is superimposed) -/
def bytesGapIn (xs : List V) : Bool :=
  match (byteIdx xs).eraseDups with
  | [] => false
  | i :: r => decide (maxInt r i - minInt r i + 1 ≠ (r.length + 1 : Nat))

/-- a `(@, @char)`/`(@, @byte)` pair whose character/byte is outside the range the specialised
tuple can hold: it stays a generic tuple (repair #20) -/
def badRangeTuple : V → Bool
  | .tup [(n1, .num _), (n2, .num c)] =>
    n1 == "@" && ((n2 == "@char" && (c < 0 || c > maxRune)) || (n2 == "@byte" && (c < 0 || c > 255)))
  | _ => false

mutual
def deepAny (f : V → Bool) : V → Bool
  | .num n => f (.num n)
  | .tup as => f (.tup as) || deepAnyAttrs f as
  | .set xs => f (.set xs) || deepAnyList f xs
def deepAnyAttrs (f : V → Bool) : List (String × V) → Bool
  | [] => false
  | (_, v) :: r => deepAny f v || deepAnyAttrs f r
def deepAnyList (f : V → Bool) : List V → Bool
  | [] => false
  | v :: r => deepAny f v || deepAnyList f r
end

def isSuper (v : V) : Bool := deepAny (fun x => match x with | .set xs => superimposedIn xs | _ => false) v
def isBytesGap (v : V) : Bool := deepAny (fun x => match x with | .set xs => bytesGapIn xs | _ => false) v
def isBadRange (v : V) : Bool := deepAny badRangeTuple v

/-- `Union` adds the right operand's members one at a time: two contiguous byte ranges whose lowest
indices are more than one apart pass through a set with a gap (either operand may be the one added) -/
def unionBytesGap (a b : List V) : Bool :=
  match (byteIdx a), (byteIdx b) with
  | i :: r, j :: s =>
    let la := minInt r i
    let lb := minInt s j
    decide (lb < la - 1) || decide (la < lb - 1)
  | _, _ => false

/-- `Relation.With` adds any tuple with the relation's names to the relation, also one that the
SetBuilder would route to a String/Bytes/Array bucket (possible only when the relation's heading is
(@, @char|@byte|@item), i.e. it holds a pair that cannot be specialised) -/
def relWithSugar (xs : List V) (v : V) : Bool :=
  match v with
  | .tup as =>
    xs.any (fun m => decide (bucketOf m = .rel (as.map (·.1)))) && !decide (bucketOf v = .rel (as.map (·.1)))
  | _ => false

structure Flags where
  super : Bool := false
  bytesGap : Bool := false
  relWith : Bool := false
  panic : Bool := false       -- a pinned Go panic (never generated)
  deriving Inhabited

def Flags.or (a b : Flags) : Flags :=
  ⟨a.super || b.super, a.bytesGap || b.bytesGap, a.relWith || b.relWith, a.panic || b.panic⟩

def flagsOfV (v : V) : Flags := ⟨isSuper v, isBytesGap v, false, false⟩

def flagsOfOutcome : Outcome V → Flags
  | .ok v => flagsOfV v
  | .panic => { panic := true }
  | _ => {}

def setOf : Outcome V → List V
  | .ok (.set xs) => xs
  | _ => []

/-- the flags of every sub-result of `e` as computed by the specification (plus the intermediate
sets of `~~` and the element-wise paths of `|`) -/
def flags : E → Flags
  | .lit l => flagsOfV l.den
  | .bin op a b =>
    let fa := flags a
    let fb := flags b
    let x := setOf (Spec.eval a)
    let y := setOf (Spec.eval b)
    let extra : Flags :=
      match op with
      | .union => { bytesGap := unionBytesGap x y }
      | .symdiff =>
        let d1 := FinSet.diff x y
        let d2 := FinSet.diff y x
        (flagsOfV (.set d1)).or ((flagsOfV (.set d2)).or { bytesGap := unionBytesGap d1 d2 })
      | _ => {}
    (fa.or fb).or (extra.or (flagsOfOutcome (Spec.eval (.bin op a b))))
  | .cmp op a b => ((flags a).or (flags b)).or (flagsOfOutcome (Spec.eval (.cmp op a b)))
  | .count a => flags a
  | .where_ a p => (flags a).or (flagsOfOutcome (Spec.eval (.where_ a p)))
  | .darrow a f => (flags a).or (flagsOfOutcome (Spec.eval (.darrow a f)))
  | .pow a => (flags a).or (flagsOfOutcome (Spec.eval (.pow a)))
  | .relj names rows _ => flagsOfV (Lit.rel names rows).den

def classOfFlags (f : Flags) : String :=
  if f.super then "KF-superimposed"
  else if f.bytesGap then "KF-bytes-holes"
  else "good"

def classOf (e : E) : String := classOfFlags (flags e)

end Arrai.C01
