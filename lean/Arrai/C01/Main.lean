import Arrai.Core.DriverMain
import Arrai.C01.Gen

def main (args : List String) : IO UInt32 := Arrai.driverMain Arrai.C01.gen args
