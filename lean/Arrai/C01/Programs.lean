/-
  C01 helper lemmas, part 7: whole programs — literals are represented well-formedly, and the
  evaluator on representations refines the specification along every admissible evaluation.
-/
import Arrai.C01.PowerSet

namespace Arrai.C01
open Arrai Arrai.FinSet KSeq

/-! ## literals -/

theorem mkTup_pair (name : String) (i x : V) (hn : "@" < name) :
    V.mkTup [("@", i), (name, x)] = pairV name i x := by
  have h2 : ¬ name < "@" := by
    intro hc
    exact absurd (String.lt_trans hn hc) (String.lt_irrefl _)
  have h3 : name ≠ "@" := by
    intro hc; rw [hc] at hn; exact absurd hn (String.lt_irrefl _)
  simp [V.mkTup, V.insAttr, pairV, hn, h2, h3, Ne.symm h3]

theorem seqMembers_eq (name : String) (hn : "@" < name) (ys : List (Option V)) (off : Int) :
    V.seqMembers name off ys = (kden ys off).map (fun p => pairV name (.num p.1) p.2) := by
  induction ys generalizing off with
  | nil => rfl
  | cons y r ih =>
    cases y with
    | none => simp [V.seqMembers, kden, ih]
    | some x => simp [V.seqMembers, kden, ih, mkTup_pair name _ _ hn]

theorem kden_map_some_map {α β : Type} (f : α → β) (l : List α) (off : Int) :
    kden (l.map (fun c => some (f c))) off = (kden (l.map some) off).map (fun p => (p.1, f p.2)) := by
  induction l generalizing off with
  | nil => rfl
  | cons a r ih => simp [kden, ih]

theorem kholes_map_some {α : Type} (l : List α) : kholes (l.map some) = 0 := by
  induction l with
  | nil => rfl
  | cons a r ih => simp [kholes, ih]

theorem kcount_map_some' {α : Type} (l : List α) : kcount (l.map some) = l.length := by
  induction l with
  | nil => rfl
  | cons a r ih => simp [kcount, ih]

theorem trimBack_kcount_pos {α : Type} (vs : List (Option α)) (h : trimBack vs ≠ []) : 0 < kcount (trimBack vs) := by
  induction vs with
  | nil => simp [trimBack] at h
  | cons x r ih =>
    simp only [trimBack] at h ⊢
    cases ht : trimBack r with
    | nil =>
      rw [ht] at h
      simp only at h ⊢
      cases x with
      | none => simp at h
      | some y => simp [kcount]
    | cons w t =>
      simp only
      have := ih (by rw [ht]; simp)
      rw [ht] at this
      cases x <;> simp [kcount] <;> omega

/-- an evaluated value is fit for further operators: a non-set value, or a well-formed set in normal form -/
def IVOK : Impl.IV → Prop
  | .val v => ∀ xs, v ≠ .set xs
  | .set r => r.WF ∧ r.Norm

/-- what a literal must satisfy to be representable exactly: characters and bytes in range, no two
values at one index and no byte gap inside a set literal, distinct dictionary keys -/
def LitAdm : Lit → Prop
  | .str _ cs => ∀ c, c ∈ cs → (c : Int) ≤ maxRune
  | .bytes _ bs => ∀ b, b ∈ bs → (b : Int) ≤ 255
  | .dict kvs => (kvs.map (fun kv => kv.1.den)).Nodup
  | .set xs => FinishAdm (Lit.denList xs)
  | .rel names rows => FinishAdm (Lit.denRows names rows)
  | _ => True

theorem newOffsetArray_norm (off : Int) (vs : List (Option V)) : (newOffsetArray off vs).Norm := by
  unfold newOffsetArray
  simp only
  split
  · exact Or.inl rfl
  · rename_i hne
    right
    have hpos := trimBack_kcount_pos (trimFront vs off).1 (by simpa using hne)
    intro hc
    have := congrArg List.length hc
    simp only [Plain.members, List.length_map, length_kden, List.length_nil] at this
    omega

theorem plain_norm_rep (p : Plain) (h : p.Norm) : (Rep.plain p).Norm := by
  rcases h with h1 | h1
  · exact Or.inl (by rw [h1])
  · exact Or.inr h1

theorem denPairs_entries (kvs : List (Lit × Lit)) : ∀ v, v ∈ Lit.denPairs kvs → (asEntry v).isSome = true := by
  induction kvs with
  | nil => intro v hv; simp [Lit.denPairs] at hv
  | cons kv r ih =>
    obtain ⟨k, x⟩ := kv
    intro v hv
    simp only [Lit.denPairs, List.mem_cons] at hv
    rcases hv with rfl | hv
    · rw [mkTup_pair "@value" _ _ (by decide)]
      show (asEntry (entryV k.den x.den)).isSome = true
      rw [asEntry_entryV]; rfl
    · exact ih v hv

theorem litIV_spec (l : Lit) (h : LitAdm l) : IVOK (Impl.litIV l) ∧ (Impl.litIV l).toV = l.den := by
  cases l with
  | num n => exact ⟨fun xs hc => by simp [Lit.den] at hc, by simp [Impl.litIV, Impl.IV.toV, Lit.den]⟩
  | tup kvs =>
    refine ⟨?_, rfl⟩
    intro xs hc
    simp [Lit.den, V.mkTup] at hc
  | tt => exact ⟨⟨trivial, Or.inr (by simp [Rep.members, Plain.members])⟩, rfl⟩
  | ff => exact ⟨⟨trivial, Or.inl rfl⟩, rfl⟩
  | str off cs =>
    simp only [Impl.litIV]
    cases cs with
    | nil => exact ⟨⟨trivial, Or.inl rfl⟩, rfl⟩
    | cons c r =>
      have hne : (c :: r).isEmpty = false := rfl
      simp only [hne, Bool.false_eq_true, if_false]
      refine ⟨⟨⟨(kholes_map_some _).symm, by rw [kcount_map_some']; simp, ?_⟩, Or.inr ?_⟩, ?_⟩
      · intro d hd
        obtain ⟨d', hd', he⟩ := List.mem_map.1 hd
        have := Option.some.inj he
        subst this
        exact h _ hd'
      · simp [Rep.members, Plain.members, kden]
      · show V.set (FinSet.mk _) = Lit.den (.str off (c :: r))
        simp only [Lit.den, V.mkSeq, V.mkSet]
        rw [seqMembers_eq "@char" (by decide), kden_map_some_map]
        simp only [Rep.members, Plain.members, List.map_map]
        rfl
  | bytes off bs =>
    simp only [Impl.litIV]
    cases bs with
    | nil => exact ⟨⟨trivial, Or.inl rfl⟩, rfl⟩
    | cons c r =>
      have hne : (c :: r).isEmpty = false := rfl
      simp only [hne, Bool.false_eq_true, if_false]
      refine ⟨⟨⟨by simp, h⟩, Or.inr ?_⟩, ?_⟩
      · simp [Rep.members, Plain.members, kden]
      · show V.set (FinSet.mk _) = Lit.den (.bytes off (c :: r))
        simp only [Lit.den, V.mkSeq, V.mkSet]
        rw [seqMembers_eq "@byte" (by decide), kden_map_some_map]
        simp only [Rep.members, Plain.members, List.map_map]
        rfl
  | arr off xs =>
    simp only [Impl.litIV]
    obtain ⟨w, m⟩ := newOffsetArray_spec off (Lit.denOpts xs)
    refine ⟨⟨w, plain_norm_rep _ (newOffsetArray_norm _ _)⟩, ?_⟩
    show V.set (FinSet.mk _) = Lit.den (.arr off xs)
    simp only [Lit.den, V.mkSeq, V.mkSet]
    congr 1
    apply mk_congr
    intro x
    rw [seqMembers_eq "@item" (by decide)]
    simp only [Rep.members, List.mem_map]
    rw [m]
    constructor
    · rintro ⟨i, y, rfl, hp⟩; exact ⟨(i, y), hp, rfl⟩
    · rintro ⟨⟨i, y⟩, hp, rfl⟩; exact ⟨i, y, rfl, hp⟩
  | dict kvs =>
    simp only [Impl.litIV]
    obtain ⟨w, m⟩ := newDict_spec (Lit.denPairs kvs) (denPairs_entries kvs)
    refine ⟨⟨w, ?_⟩, ?_⟩
    · cases hk : Lit.denPairs kvs with
      | nil => exact Or.inl (by simp [newDict])
      | cons a r =>
        right
        intro hc
        have := (m a).2 (by rw [hk]; simp)
        rw [hk] at this
        simp only [Rep.members] at hc
        rw [hc] at this; cases this
    · show V.set (FinSet.mk _) = Lit.den (.dict kvs)
      simp only [Lit.den, V.mkSet]
      congr 1
      exact mk_congr _ _ m
  | set xs =>
    simp only [Impl.litIV]
    obtain ⟨w, m⟩ := finish_spec _ h
    refine ⟨⟨w, finish_norm _ h⟩, ?_⟩
    show V.set (FinSet.mk _) = Lit.den (.set xs)
    simp only [Lit.den, V.mkSet]
    congr 1
    exact mk_congr _ _ m
  | rel names rows =>
    simp only [Impl.litIV]
    obtain ⟨w, m⟩ := finish_spec _ h
    refine ⟨⟨w, finish_norm _ h⟩, ?_⟩
    show V.set (FinSet.mk _) = Lit.den (.rel names rows)
    simp only [Lit.den, V.mkSet]
    congr 1
    exact mk_congr _ _ m

/-! ## callbacks over the members -/

instance : LawfulBEq V where
  eq_of_beq := by intro a b h; exact of_decide_eq_true h
  rfl := by intro a; exact decide_eq_true rfl

theorem mapAll_cons_ok {β : Type} (f : V → Outcome β) (x : V) (r : List V) (ys : List β)
    (h : mapAll f (x :: r) = .ok ys) : ∃ y ys', f x = .ok y ∧ mapAll f r = .ok ys' ∧ ys = y :: ys' := by
  unfold mapAll at h
  cases hf : f x <;> cases hr : mapAll f r <;> simp only [hf, hr] at h <;> try (cases h; done)
  rename_i y ys'
  exact ⟨y, ys', rfl, rfl, by cases h; rfl⟩

theorem mapAll_ok_mem {β : Type} (f : V → Outcome β) (l : List V) (ys : List β) (h : mapAll f l = .ok ys) :
    (∀ x, x ∈ l → ∃ y, f x = .ok y) ∧ (∀ y, y ∈ ys ↔ ∃ x, x ∈ l ∧ f x = .ok y) := by
  induction l generalizing ys with
  | nil =>
    have : ys = [] := by simp [mapAll] at h; exact h
    subst this
    simp
  | cons a r ih =>
    obtain ⟨y, ys', hf, hr, rfl⟩ := mapAll_cons_ok f a r ys h
    obtain ⟨i1, i2⟩ := ih ys' hr
    refine ⟨?_, ?_⟩
    · intro x hx
      rcases List.mem_cons.1 hx with rfl | hx
      · exact ⟨y, hf⟩
      · exact i1 x hx
    · intro z
      simp only [List.mem_cons, i2]
      constructor
      · rintro (rfl | ⟨x, hx, hfx⟩)
        · exact ⟨a, Or.inl rfl, hf⟩
        · exact ⟨x, Or.inr hx, hfx⟩
      · rintro ⟨x, (rfl | hx), hfx⟩
        · rw [hf] at hfx; cases hfx; exact Or.inl rfl
        · exact Or.inr ⟨x, hx, hfx⟩

theorem mapAll_ok_of_forall {β : Type} (f : V → Outcome β) (l : List V) (h : ∀ x, x ∈ l → ∃ y, f x = .ok y) :
    ∃ ys, mapAll f l = .ok ys := by
  induction l with
  | nil => exact ⟨[], rfl⟩
  | cons a r ih =>
    obtain ⟨y, hy⟩ := h a (by simp)
    obtain ⟨ys, hys⟩ := ih (fun x hx => h x (List.mem_cons_of_mem _ hx))
    exact ⟨y :: ys, by simp [mapAll, hy, hys]⟩

theorem keepBy_eq_filter (f : V → Outcome Bool) (l : List V) (bs : List Bool) (h : mapAll f l = .ok bs) :
    keepBy l bs = l.filter (fun x => decide (f x = .ok true)) := by
  induction l generalizing bs with
  | nil => cases bs <;> simp [keepBy]
  | cons a r ih =>
    obtain ⟨b, bs', hf, hr, rfl⟩ := mapAll_cons_ok f a r bs h
    simp only [keepBy, List.filter_cons, hf, ih bs' hr]
    cases b <;> simp

/-! ## small facts about outcomes and evaluated values -/

theorem bind_ok {α β : Type} (o : Outcome α) (f : α → Outcome β) (v : β) (h : o.bind f = .ok v) :
    ∃ x, o = .ok x ∧ f x = .ok v := by
  cases o with
  | ok a => exact ⟨a, rfl, h⟩
  | err => cases h
  | unspec => cases h
  | panic => cases h

theorem map_ok {α β : Type} (o : Outcome α) (f : α → β) (v : β) (h : o.map f = .ok v) :
    ∃ x, o = .ok x ∧ f x = v := by
  cases o with
  | ok a => exact ⟨a, rfl, by cases h; rfl⟩
  | err => cases h
  | unspec => cases h
  | panic => cases h

theorem iv_of_set (iv : Impl.IV) (hok : IVOK iv) (a : List V) (h : iv.toV = .set a) :
    ∃ r, iv = .set r ∧ r.den = a ∧ r.WF ∧ r.Norm := by
  cases iv with
  | val v => exact absurd h (hok a)
  | set r =>
    refine ⟨r, rfl, ?_, hok.1, hok.2⟩
    simpa [Impl.IV.toV, Rep.denV] using h

theorem toV_set (r : Rep) : (Impl.IV.set r).toV = .set r.den := rfl

theorem normTrue_spec (r : Rep) (h : r.WF) :
    (Impl.normTrue r).WF ∧ (Impl.normTrue r).Norm ∧ (Impl.normTrue r).den = r.den := by
  unfold Impl.normTrue
  split
  · rename_i ht
    exact ⟨h, Or.inr ((Rep.isTrue_iff r h).1 ht), rfl⟩
  · rename_i ht
    have hemp : r.members = [] := by
      apply Classical.byContradiction
      intro hne
      exact ht ((Rep.isTrue_iff r h).2 hne)
    refine ⟨trivial, Or.inl rfl, ?_⟩
    show FinSet.mk (Rep.plain Plain.empty).members = FinSet.mk r.members
    rw [hemp]; rfl

/-- a union of two sets in normal form is in normal form -/
theorem union_norm (a b : Rep) (hna : a.Norm) (hnb : b.Norm) (r : Rep) (e : union a b = .ok r)
    (hm : ∀ x, x ∈ r.members ↔ x ∈ a.members ∨ x ∈ b.members) : r.Norm := by
  by_cases hr : r.members = []
  · left
    have ha : a.members = [] := by
      cases hma : a.members with
      | nil => rfl
      | cons x t =>
        have := (hm x).2 (Or.inl (by rw [hma]; simp))
        rw [hr] at this; cases this
    have hb : b.members = [] := by
      cases hmb : b.members with
      | nil => rfl
      | cons x t =>
        have := (hm x).2 (Or.inr (by rw [hmb]; simp))
        rw [hr] at this; cases this
    have ea : a = .plain .empty := by rcases hna with h1 | h1; exact h1; exact absurd ha h1
    have eb : b = .plain .empty := by rcases hnb with h1 | h1; exact h1; exact absurd hb h1
    subst ea; subst eb
    simp [union, unionPP] at e
    exact e.symm
  · exact Or.inr hr

theorem interPP_norm (a b : Plain) (ha : a.WF) (hadm : FilterAdm a b.has) : (interPP a b).Norm := by
  unfold interPP
  split
  · exact Or.inl rfl
  · exact Or.inl rfl
  · exact fromFrozen_norm _
  · exact Plain.filter_norm a ha _ hadm

theorem inter_norm (a b : Rep) (ha : a.WF) (hb : b.WF) (hadm : InterAdm a b) : (inter a b).Norm := by
  cases a with
  | plain p =>
    cases b with
    | plain q => exact plain_norm_rep _ (interPP_norm p q ha hadm)
    | union bu =>
      simp only [inter]
      split
      · exact Or.inl rfl
      · exact plain_norm_rep _ (interPP_norm _ p (getSubset_wf bu hb.1 _) hadm)
  | union au =>
    cases b with
    | plain q =>
      simp only [inter]
      split
      · exact Or.inl rfl
      · exact plain_norm_rep _ (interPP_norm _ q (getSubset_wf au ha.1 _) hadm)
    | union bu =>
      simp only [inter]
      exact fromBuckets_norm _ (interBuckets_spec bu hb.1 au ha.1 hadm).1

theorem bool_rep (t : Bool) :
    IVOK (.set (.plain (if t then Plain.true_ else Plain.empty))) ∧
    (Impl.IV.set (.plain (if t then Plain.true_ else Plain.empty))).toV = V.bool t := by
  cases t
  · exact ⟨⟨trivial, Or.inl rfl⟩, rfl⟩
  · exact ⟨⟨trivial, Or.inr (by simp [Rep.members, Plain.members])⟩, rfl⟩

/-! ## one step of each operator -/

theorem spec_union_ok (x y v : V) (h : Spec.binop .union x y = .ok v) :
    ∃ a b, x = .set a ∧ y = .set b ∧ v = .set (FinSet.union a b) := by
  cases x <;> cases y <;> first
    | (cases h; done)
    | (rename_i a b; exact ⟨a, b, rfl, rfl, by cases h; rfl⟩)
theorem spec_inter_ok (x y v : V) (h : Spec.binop .inter x y = .ok v) :
    ∃ a b, x = .set a ∧ y = .set b ∧ v = .set (FinSet.inter a b) := by
  cases x <;> cases y <;> first
    | (cases h; done)
    | (rename_i a b; exact ⟨a, b, rfl, rfl, by cases h; rfl⟩)
theorem spec_diff_ok (x y v : V) (h : Spec.binop .diff x y = .ok v) :
    ∃ a b, x = .set a ∧ y = .set b ∧ v = .set (FinSet.diff a b) := by
  cases x <;> cases y <;> first
    | (cases h; done)
    | (rename_i a b; exact ⟨a, b, rfl, rfl, by cases h; rfl⟩)
theorem spec_symdiff_ok (x y v : V) (h : Spec.binop .symdiff x y = .ok v) :
    ∃ a b, x = .set a ∧ y = .set b ∧ v = .set (FinSet.symdiff a b) := by
  cases x <;> cases y <;> first
    | (cases h; done)
    | (rename_i a b; exact ⟨a, b, rfl, rfl, by cases h; rfl⟩)
theorem spec_with_ok (x y v : V) (h : Spec.binop .with_ x y = .ok v) :
    ∃ a, x = .set a ∧ v = .set (FinSet.ins y a) := by
  cases x <;> first
    | (cases h; done)
    | (rename_i a; exact ⟨a, rfl, by cases h; rfl⟩)
theorem spec_without_ok (x y v : V) (h : Spec.binop .without x y = .ok v) :
    ∃ a, x = .set a ∧ v = .set (FinSet.erase a y) := by
  cases x <;> first
    | (cases h; done)
    | (rename_i a; exact ⟨a, rfl, by cases h; rfl⟩)

theorem spec_mem_ok (x y : V) (t : Bool) (h : Spec.cmpop .mem x y = .ok t) : ∃ b, y = .set b := by
  cases y <;> first
    | (cases h; done)
    | (rename_i b; exact ⟨b, rfl⟩)
theorem spec_nmem_ok (x y : V) (t : Bool) (h : Spec.cmpop .nmem x y = .ok t) : ∃ b, y = .set b := by
  cases y <;> first
    | (cases h; done)
    | (rename_i b; exact ⟨b, rfl⟩)
theorem spec_cmp_ok (op : CmpOp) (hop : op ≠ .mem ∧ op ≠ .nmem) (x y : V) (t : Bool)
    (h : Spec.cmpop op x y = .ok t) : ∃ a b, x = .set a ∧ y = .set b := by
  cases op <;> cases x <;> cases y <;> first
    | (exact absurd rfl hop.1)
    | (exact absurd rfl hop.2)
    | (cases h; done)
    | (rename_i a b; exact ⟨a, b, rfl, rfl⟩)

theorem den_eq_of_members' (r : Rep) (l : List V) (hl : Sorted l) (h : ∀ x, x ∈ r.members ↔ x ∈ l) : r.den = l :=
  den_eq_of_members r l hl h

/-- the subset comparisons on well-formed representations (the evaluator's step agrees with the spec) -/
theorem cmpop_step (op : CmpOp) (a b : Rep) (ha : a.WF) (hb : b.WF) (hop : op ≠ .mem ∧ op ≠ .nmem) :
    Impl.cmpop op (.set a) (.set b) = Spec.cmpop op a.denV b.denV := by
  have h1 := subsetI_eq a b ha hb
  have h2 := subsetOrEqualI_eq a b ha hb
  have h3 := subsetOrSupersetI_eq a b ha hb
  have h4 := subsetSupersetOrEqualI_eq a b ha hb
  have g1 := subsetI_eq b a hb ha
  have g2 := subsetOrEqualI_eq b a hb ha
  cases op with
  | mem => exact absurd rfl hop.1
  | nmem => exact absurd rfl hop.2
  | sub => show Outcome.ok (subsetI a b) = Outcome.ok (FS.ssubset a.den b.den); rw [h1]
  | sup => show Outcome.ok (subsetI b a) = Outcome.ok (FS.ssubset b.den a.den); rw [g1]
  | sube => show Outcome.ok (subsetOrEqualI a b) = Outcome.ok (FinSet.subset a.den b.den); rw [h2]
  | supe => show Outcome.ok (subsetOrEqualI b a) = Outcome.ok (FinSet.subset b.den a.den); rw [g2]
  | comp => show Outcome.ok (subsetOrSupersetI a b) = Outcome.ok (Spec.comparable a.den b.den); rw [h3]
  | compe =>
    show Outcome.ok (subsetSupersetOrEqualI b a) =
      Outcome.ok (Spec.comparable a.den b.den || decide (a.den = b.den))
    rw [h4]
  | nsub => show Outcome.ok (!subsetI a b) = Outcome.ok (!FS.ssubset a.den b.den); rw [h1]
  | nsup => show Outcome.ok (!subsetI b a) = Outcome.ok (!FS.ssubset b.den a.den); rw [g1]
  | nsube => show Outcome.ok (!subsetOrEqualI a b) = Outcome.ok (!FinSet.subset a.den b.den); rw [h2]
  | nsupe => show Outcome.ok (!subsetOrEqualI b a) = Outcome.ok (!FinSet.subset b.den a.den); rw [g2]
  | ncomp => show Outcome.ok (!subsetOrSupersetI a b) = Outcome.ok (!Spec.comparable a.den b.den); rw [h3]
  | ncompe =>
    show Outcome.ok (!subsetSupersetOrEqualI b a) =
      Outcome.ok (!(Spec.comparable a.den b.den || decide (a.den = b.den)))
    rw [h4]

theorem mem_step (b : Rep) (hb : b.WF) (v : Impl.IV) :
    Impl.cmpop .mem v (.set b) = Spec.cmpop .mem v.toV b.denV ∧
    Impl.cmpop .nmem v (.set b) = Spec.cmpop .nmem v.toV b.denV := by
  have : b.has v.toV = decide (v.toV ∈ b.den) := by
    rw [Bool.eq_iff_iff, Rep.has_iff_den b hb]; simp
  constructor
  · show Outcome.ok (b.has v.toV) = Outcome.ok (decide (v.toV ∈ b.den))
    rw [this]
  · show Outcome.ok (!b.has v.toV) = Outcome.ok (!decide (v.toV ∈ b.den))
    rw [this]

/-! ## admissible programs -/

/-- the admissibility hypothesis of one binary operator on two evaluated operands -/
def OpAdm (op : BinOp) (x y : Impl.IV) : Prop :=
  match x with
  | .val _ => True
  | .set a =>
    match op with
    | .with_ => RepWithAdm a y.toV
    | .without => RepWithoutAdm a y.toV
    | .union => match y with | .set b => UnionAdm a b | .val _ => True
    | .inter => match y with | .set b => InterAdm a b | .val _ => True
    | .diff => match y with | .set b => DiffAdm a b | .val _ => True
    | .symdiff => match y with | .set b => SymdiffAdm a b | .val _ => True

/-- `Adm e`: the conjunction of the step hypotheses along the evaluation of `e` (each one excludes a
known-finding class: two values at one index, a byte array with a gap, a sugar tuple in a relation) -/
def Adm : E → Prop
  | .lit l => LitAdm l
  | .bin op a b => Adm a ∧ Adm b ∧ ∀ x y, Impl.eval a = .ok x → Impl.eval b = .ok y → OpAdm op x y
  | .cmp _ a b => Adm a ∧ Adm b
  | .count a => Adm a
  | .where_ a p => Adm a ∧ ∀ r bs, Impl.eval a = .ok (.set r) →
      mapAll (fun v => p.eval v) r.members = .ok bs →
      RepFilterAdm r (fun v => (keepBy r.members bs).contains v)
  | .darrow a f => Adm a ∧ ∀ r ys, Impl.eval a = .ok (.set r) →
      mapAll (fun v => f.eval v) r.members = .ok ys → FinishAdm ys
  | .pow a => Adm a ∧ ∀ r, Impl.eval a = .ok (.set r) → PowerAdm r.members
  | .relj names rows _ => LitAdm (.rel names rows)

/-- whole programs: whenever the specification yields a value, the evaluator on representations yields
a well-formed representation of exactly that value — operands produced by earlier operators included -/
theorem eval_refines (e : E) (h : Adm e) (v : V) (hs : Spec.eval e = .ok v) :
    ∃ iv, Impl.eval e = .ok iv ∧ IVOK iv ∧ iv.toV = v := by
  induction e generalizing v with
  | lit l =>
    obtain ⟨w1, w2⟩ := litIV_spec l h
    have : v = l.den := by simp only [Spec.eval] at hs; cases hs; rfl
    exact ⟨Impl.litIV l, rfl, w1, by rw [w2, this]⟩
  | bin op a b iha ihb =>
    obtain ⟨ha, hb, hop⟩ := h
    simp only [Spec.eval] at hs
    obtain ⟨x, ex, hs⟩ := bind_ok _ _ _ hs
    obtain ⟨y, ey, hs⟩ := bind_ok _ _ _ hs
    obtain ⟨ivx, e1, ok1, t1⟩ := iha ha x ex
    obtain ⟨ivy, e2, ok2, t2⟩ := ihb hb y ey
    have hadm := hop ivx ivy e1 e2
    have hev : Impl.eval (.bin op a b) = Impl.binop op ivx ivy := by
      simp only [Impl.eval, e1, e2, Outcome.bind]
    rw [hev]
    cases op with
    | union =>
      obtain ⟨sa, sb, rfl, rfl, rfl⟩ := spec_union_ok x y v hs
      obtain ⟨ra, rfl, da, wa, na⟩ := iv_of_set ivx ok1 sa t1
      obtain ⟨rb, rfl, db, wb, nb⟩ := iv_of_set ivy ok2 sb t2
      obtain ⟨r, e, w, m⟩ := union_spec ra rb wa wb na nb hadm
      refine ⟨.set r, ?_, ⟨w, union_norm ra rb na nb r e m⟩, ?_⟩
      · show (union ra rb).map Impl.IV.set = _
        rw [e]; rfl
      · rw [toV_set, ← da, ← db]
        congr 1
        apply den_eq_of_members r _ (FinSet.sorted_union _ _ (FinSet.sorted_mk _))
        intro z; simp only [FinSet.mem_union, Rep.den, FinSet.mem_mk]; exact m z
    | inter =>
      obtain ⟨sa, sb, rfl, rfl, rfl⟩ := spec_inter_ok x y v hs
      obtain ⟨ra, rfl, da, wa, na⟩ := iv_of_set ivx ok1 sa t1
      obtain ⟨rb, rfl, db, wb, nb⟩ := iv_of_set ivy ok2 sb t2
      obtain ⟨w, m⟩ := inter_spec ra rb wa wb hadm
      refine ⟨.set (inter ra rb), rfl, ⟨w, inter_norm ra rb wa wb hadm⟩, ?_⟩
      rw [toV_set, ← da, ← db]
      congr 1
      apply den_eq_of_members _ _ (FinSet.sorted_inter _ _ (FinSet.sorted_mk _))
      intro z; simp only [FinSet.mem_inter, Rep.den, FinSet.mem_mk]; exact m z
    | diff =>
      obtain ⟨sa, sb, rfl, rfl, rfl⟩ := spec_diff_ok x y v hs
      obtain ⟨ra, rfl, da, wa, na⟩ := iv_of_set ivx ok1 sa t1
      obtain ⟨rb, rfl, db, wb, nb⟩ := iv_of_set ivy ok2 sb t2
      obtain ⟨w, m⟩ := diff_spec ra rb wa wb hadm
      refine ⟨.set (diff ra rb), rfl, ⟨w, diff_norm ra rb wa wb na hadm⟩, ?_⟩
      rw [toV_set, ← da, ← db]
      congr 1
      apply den_eq_of_members _ _ (FinSet.sorted_diff _ _ (FinSet.sorted_mk _))
      intro z; simp only [FinSet.mem_diff, Rep.den, FinSet.mem_mk]; exact m z
    | symdiff =>
      obtain ⟨sa, sb, rfl, rfl, rfl⟩ := spec_symdiff_ok x y v hs
      obtain ⟨ra, rfl, da, wa, na⟩ := iv_of_set ivx ok1 sa t1
      obtain ⟨rb, rfl, db, wb, nb⟩ := iv_of_set ivy ok2 sb t2
      obtain ⟨r, e, w, m⟩ := symdiff_spec ra rb wa wb na nb hadm
      have hn : r.Norm := by
        by_cases hr : r.members = []
        · left
          -- an empty symmetric difference of sets in normal form is the EmptySet
          unfold symdiff at e
          split at e
          · rename_i he
            cases e
            rcases nb with h1 | h1
            · exact h1
            · exact absurd hr h1
          · split at e
            · cases e
              rcases na with h1 | h1
              · exact h1
              · exact absurd hr h1
            · split at e
              · cases e
                rcases fromFrozen_norm (FinSet.symdiff _ _) with h1 | h1
                · rw [h1]
                · exact absurd hr h1
              · obtain ⟨d1, d2, d3⟩ := hadm
                obtain ⟨w1, m1⟩ := diff_spec ra rb wa wb d1
                obtain ⟨w2, m2⟩ := diff_spec rb ra wb wa d2
                obtain ⟨r2, e2', _, m3⟩ := union_spec _ _ w1 w2 (diff_norm ra rb wa wb na d1)
                  (diff_norm rb ra wb wa nb d2) d3
                rw [e] at e2'
                cases e2'
                rcases union_norm _ _ (diff_norm ra rb wa wb na d1) (diff_norm rb ra wb wa nb d2) r e m3 with h1 | h1
                · exact h1
                · exact absurd hr h1
        · exact Or.inr hr
      refine ⟨.set r, ?_, ⟨w, hn⟩, ?_⟩
      · show (symdiff ra rb).map Impl.IV.set = _
        rw [e]; rfl
      · rw [toV_set, ← da, ← db]
        congr 1
        apply den_eq_of_members r _ (FinSet.sorted_symdiff _ _ (FinSet.sorted_mk _))
        intro z; simp only [FinSet.mem_symdiff, Rep.den, FinSet.mem_mk]; exact m z
    | with_ =>
      obtain ⟨sa, rfl, rfl⟩ := spec_with_ok x y v hs
      obtain ⟨ra, rfl, da, wa, na⟩ := iv_of_set ivx ok1 sa t1
      obtain ⟨r, e, w, m⟩ := Rep.with_spec ra wa na ivy.toV hadm
      refine ⟨.set r, ?_, ⟨w, Or.inr ?_⟩, ?_⟩
      · show (ra.with_ ivy.toV).map Impl.IV.set = _
        rw [e]; rfl
      · intro hc
        have := (m ivy.toV).2 (Or.inl rfl)
        rw [hc] at this; cases this
      · rw [toV_set, ← da, ← t2]
        congr 1
        apply den_eq_of_members r _ (FinSet.sorted_ins _ _ (FinSet.sorted_mk _))
        intro z; simp only [FinSet.mem_ins, Rep.den, FinSet.mem_mk]; exact m z
    | without =>
      obtain ⟨sa, rfl, rfl⟩ := spec_without_ok x y v hs
      obtain ⟨ra, rfl, da, wa, na⟩ := iv_of_set ivx ok1 sa t1
      obtain ⟨w, m⟩ := Rep.without_spec ra wa ivy.toV hadm
      obtain ⟨n1, n2, n3⟩ := normTrue_spec _ w
      refine ⟨.set (Impl.normTrue (ra.without ivy.toV)), rfl, ⟨n1, n2⟩, ?_⟩
      rw [toV_set, n3, ← da, ← t2]
      congr 1
      apply den_eq_of_members _ _ (FinSet.sorted_erase _ _ (FinSet.sorted_mk _))
      intro z; simp only [FinSet.mem_erase, Rep.den, FinSet.mem_mk]; exact m z
  | cmp op a b iha ihb =>
    obtain ⟨ha, hb⟩ := h
    simp only [Spec.eval] at hs
    obtain ⟨x, ex, hs⟩ := bind_ok _ _ _ hs
    obtain ⟨y, ey, hs⟩ := bind_ok _ _ _ hs
    obtain ⟨t, ht, rfl⟩ := map_ok _ _ _ hs
    obtain ⟨ivx, e1, ok1, t1⟩ := iha ha x ex
    obtain ⟨ivy, e2, ok2, t2⟩ := ihb hb y ey
    have key : Impl.cmpop op ivx ivy = .ok t := by
      by_cases hm : op = .mem
      · subst hm
        obtain ⟨sb, rfl⟩ := spec_mem_ok x y t ht
        obtain ⟨rb, rfl, db, wb, _⟩ := iv_of_set ivy ok2 sb t2
        rw [(mem_step rb wb ivx).1, t1, Rep.denV, db]; exact ht
      · by_cases hn : op = .nmem
        · subst hn
          obtain ⟨sb, rfl⟩ := spec_nmem_ok x y t ht
          obtain ⟨rb, rfl, db, wb, _⟩ := iv_of_set ivy ok2 sb t2
          rw [(mem_step rb wb ivx).2, t1, Rep.denV, db]; exact ht
        · obtain ⟨sa, sb, rfl, rfl⟩ := spec_cmp_ok op ⟨hm, hn⟩ x y t ht
          obtain ⟨ra, rfl, da, wa, _⟩ := iv_of_set ivx ok1 sa t1
          obtain ⟨rb, rfl, db, wb, _⟩ := iv_of_set ivy ok2 sb t2
          rw [cmpop_step op ra rb wa wb ⟨hm, hn⟩, Rep.denV, Rep.denV, da, db]; exact ht
    obtain ⟨b1, b2⟩ := bool_rep t
    refine ⟨_, ?_, b1, b2⟩
    simp only [Impl.eval, e1, e2, Outcome.bind, key, Outcome.map]
  | count a iha =>
    simp only [Spec.eval] at hs
    obtain ⟨x, ex, hs⟩ := bind_ok _ _ _ hs
    obtain ⟨ivx, e1, ok1, t1⟩ := iha h x ex
    cases x with
    | num n => cases hs
    | tup as => cases hs
    | set xs =>
      obtain ⟨r, rfl, d, w, _⟩ := iv_of_set ivx ok1 xs t1
      refine ⟨.val (.num r.count), ?_, (fun ys hc => by cases hc), ?_⟩
      · simp only [Impl.eval, e1, Outcome.bind]
      · have : v = .num (FinSet.card xs) := by cases hs; rfl
        rw [this, ← d, ← Rep.count_eq_card r w]; rfl
  | where_ a p iha =>
    obtain ⟨ha, hp⟩ := h
    simp only [Spec.eval] at hs
    obtain ⟨x, ex, hs⟩ := bind_ok _ _ _ hs
    obtain ⟨ivx, e1, ok1, t1⟩ := iha ha x ex
    cases x with
    | num n => cases hs
    | tup as => cases hs
    | set xs =>
      obtain ⟨r, rfl, d, w, _⟩ := iv_of_set ivx ok1 xs t1
      obtain ⟨bs, hbs, rfl⟩ := map_ok _ _ _ hs
      obtain ⟨ok_all, _⟩ := mapAll_ok_mem _ xs bs hbs
      obtain ⟨bs', hbs'⟩ := mapAll_ok_of_forall (fun v => p.eval v) r.members
        (fun z hz => ok_all z (by rw [← d, Rep.mem_den]; exact hz))
      have hadm := hp r bs' e1 hbs'
      obtain ⟨fw, fm⟩ := Rep.filter_spec r w _ hadm
      obtain ⟨n1, n2, n3⟩ := normTrue_spec _ fw
      refine ⟨.set (Impl.normTrue (r.filter (fun v => (keepBy r.members bs').contains v))), ?_, ⟨n1, n2⟩, ?_⟩
      · simp only [Impl.eval, e1, Outcome.bind, hbs', Outcome.map]
      · rw [toV_set, n3]
        congr 1
        rw [keepBy_eq_filter _ xs bs hbs]
        apply den_eq_of_members _ _ (FinSet.sorted_filter _ xs (by rw [← d]; exact FinSet.sorted_mk _))
        intro z
        rw [fm, keepBy_eq_filter _ r.members bs' hbs']
        simp only [List.contains_iff_mem, List.mem_filter, decide_eq_true_eq]
        rw [← d, Rep.mem_den]
        constructor
        · rintro ⟨h1, _, h2⟩; exact ⟨h1, h2⟩
        · rintro ⟨h1, h2⟩; exact ⟨h1, h1, h2⟩
  | darrow a f iha =>
    obtain ⟨ha, hf⟩ := h
    simp only [Spec.eval] at hs
    obtain ⟨x, ex, hs⟩ := bind_ok _ _ _ hs
    obtain ⟨ivx, e1, ok1, t1⟩ := iha ha x ex
    cases x with
    | num n => cases hs
    | tup as => cases hs
    | set xs =>
      obtain ⟨r, rfl, d, w, _⟩ := iv_of_set ivx ok1 xs t1
      obtain ⟨ys, hys, rfl⟩ := map_ok _ _ _ hs
      obtain ⟨ok_all, my⟩ := mapAll_ok_mem _ xs ys hys
      obtain ⟨ys', hys'⟩ := mapAll_ok_of_forall (fun v => f.eval v) r.members
        (fun z hz => ok_all z (by rw [← d, Rep.mem_den]; exact hz))
      obtain ⟨_, my'⟩ := mapAll_ok_mem _ r.members ys' hys'
      have hadm := hf r ys' e1 hys'
      obtain ⟨fw, fm⟩ := finish_spec ys' hadm
      refine ⟨.set (finish ys'), ?_, ⟨fw, finish_norm ys' hadm⟩, ?_⟩
      · simp only [Impl.eval, e1, Outcome.bind, hys', Outcome.map]
      · rw [toV_set]
        congr 1
        apply den_eq_of_members _ _ (FinSet.sorted_mk _)
        intro z
        rw [fm, FinSet.mem_mk, my, my']
        constructor
        · rintro ⟨u, hu, hfu⟩; exact ⟨u, by rw [← d, Rep.mem_den]; exact hu, hfu⟩
        · rintro ⟨u, hu, hfu⟩; exact ⟨u, by rw [← d, Rep.mem_den] at hu; exact hu, hfu⟩
  | pow a iha =>
    obtain ⟨ha, hp⟩ := h
    simp only [Spec.eval] at hs
    obtain ⟨x, ex, hs⟩ := bind_ok _ _ _ hs
    obtain ⟨ivx, e1, ok1, t1⟩ := iha ha x ex
    cases x with
    | num n => cases hs
    | tup as => cases hs
    | set xs =>
      obtain ⟨r, rfl, d, w, _⟩ := iv_of_set ivx ok1 xs t1
      obtain ⟨r', e, w', d'⟩ := powerSet_spec r w (hp r e1)
      refine ⟨.set r', ?_, ⟨w', Or.inr ?_⟩, ?_⟩
      · simp only [Impl.eval, e1, Outcome.bind, e, Outcome.map]
      · intro hc
        have : V.set [] ∈ r'.den := by
          rw [d', show r.den = FinSet.mk r.members from rfl, FS.mem_powerset _ (FinSet.sorted_mk _)]
          exact ⟨[], rfl, FinSet.sorted_nil, fun y hy => by cases hy⟩
        rw [Rep.mem_den, hc] at this; cases this
      · have : v = .set (FS.powerset xs) := by cases hs; rfl
        rw [this, toV_set, d', d]
  | relj names rows src =>
    obtain ⟨w1, w2⟩ := litIV_spec (.rel names rows) h
    have : v = (Lit.rel names rows).den := by simp only [Spec.eval] at hs; cases hs; rfl
    exact ⟨Impl.litIV (.rel names rows), rfl, w1, by rw [w2, this]⟩

end Arrai.C01
