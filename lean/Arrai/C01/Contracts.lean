/-
  C01 helper lemmas, part 2: buckets, well-formedness of the representations and the interface
  contract of each representation (members / has / count / with_ / without / filter).
-/
import Arrai.C01.Lemmas

namespace Arrai.C01
open Arrai Arrai.FinSet KSeq

/-! ## the specialised-tuple views -/

theorem asChar_eq_some (v : V) (i : Int) (c : Nat) :
    asChar v = some (i, c) ↔ v = charV i c ∧ (c : Int) ≤ maxRune := by
  unfold asChar
  split
  · rename_i n1 i' n2 c'
    simp only [charV, pairV]
    constructor
    · intro h
      split at h
      · rename_i hc
        obtain ⟨h1, h2, h3, h4⟩ := hc
        simp only [Option.some.injEq, Prod.mk.injEq] at h
        obtain ⟨rfl, rfl⟩ := h
        subst h1; subst h2
        have t1 : Int.ofNat c'.toNat = c' := Int.toNat_of_nonneg h3
        have t2 : ((c'.toNat : Nat) : Int) = c' := Int.toNat_of_nonneg h3
        exact ⟨by rw [t1], by rw [t2]; exact h4⟩
      · cases h
    · rintro ⟨h, hle⟩
      simp only [V.tup.injEq, List.cons.injEq, Prod.mk.injEq, V.num.injEq, and_true] at h
      obtain ⟨⟨rfl, rfl⟩, rfl, rfl⟩ := h
      have h0 : (0 : Int) ≤ (c : Int) := Int.natCast_nonneg c
      simp [h0, hle]
  · rename_i hne
    constructor
    · intro h; cases h
    · rintro ⟨h, _⟩
      exact absurd h (by
        intro h; exact hne _ _ _ _ (by simpa [charV, pairV] using h))

theorem asByte_eq_some (v : V) (i : Int) (b : Nat) :
    asByte v = some (i, b) ↔ v = byteV i b ∧ (b : Int) ≤ 255 := by
  unfold asByte
  split
  · rename_i n1 i' n2 c'
    simp only [byteV, pairV]
    constructor
    · intro h
      split at h
      · rename_i hc
        obtain ⟨h1, h2, h3, h4⟩ := hc
        simp only [Option.some.injEq, Prod.mk.injEq] at h
        obtain ⟨rfl, rfl⟩ := h
        subst h1; subst h2
        have t1 : Int.ofNat c'.toNat = c' := Int.toNat_of_nonneg h3
        have t2 : ((c'.toNat : Nat) : Int) = c' := Int.toNat_of_nonneg h3
        exact ⟨by rw [t1], by rw [t2]; exact h4⟩
      · cases h
    · rintro ⟨h, hle⟩
      simp only [V.tup.injEq, List.cons.injEq, Prod.mk.injEq, V.num.injEq, and_true] at h
      obtain ⟨⟨rfl, rfl⟩, rfl, rfl⟩ := h
      have h0 : (0 : Int) ≤ (b : Int) := Int.natCast_nonneg b
      simp [h0, hle]
  · rename_i hne
    constructor
    · intro h; cases h
    · rintro ⟨h, _⟩
      exact absurd h (by
        intro h; exact hne _ _ _ _ (by simpa [byteV, pairV] using h))

theorem asItem_eq_some (v : V) (i : Int) (x : V) : asItem v = some (i, x) ↔ v = itemV i x := by
  unfold asItem
  split
  · rename_i n1 i' n2 x'
    simp only [itemV, pairV]
    constructor
    · intro h
      split at h
      · rename_i hc
        obtain ⟨h1, h2⟩ := hc
        simp only [Option.some.injEq, Prod.mk.injEq] at h
        obtain ⟨rfl, rfl⟩ := h
        subst h1; subst h2
        rfl
      · cases h
    · intro h
      simp only [V.tup.injEq, List.cons.injEq, Prod.mk.injEq, V.num.injEq, and_true] at h
      obtain ⟨⟨rfl, rfl⟩, rfl, rfl⟩ := h
      simp
  · rename_i hne
    constructor
    · intro h; cases h
    · intro h
      exact absurd h (by
        intro h; exact hne _ _ _ _ (by simpa [itemV, pairV] using h))

theorem asEntry_eq_some (v : V) (k x : V) : asEntry v = some (k, x) ↔ v = entryV k x := by
  unfold asEntry
  split
  · rename_i n1 k' n2 x'
    simp only [entryV, pairV]
    constructor
    · intro h
      split at h
      · rename_i hc
        obtain ⟨h1, h2⟩ := hc
        simp only [Option.some.injEq, Prod.mk.injEq] at h
        obtain ⟨rfl, rfl⟩ := h
        subst h1; subst h2
        rfl
      · cases h
    · intro h
      simp only [V.tup.injEq, List.cons.injEq, Prod.mk.injEq, and_true] at h
      obtain ⟨⟨rfl, rfl⟩, rfl, rfl⟩ := h
      simp
  · rename_i hne
    constructor
    · intro h; cases h
    · intro h
      exact absurd h (by
        intro h; exact hne _ _ _ _ (by simpa [entryV, pairV] using h))

/-! the four views exclude one another -/
theorem asByte_charV (i : Int) (c : Nat) : asByte (charV i c) = none := by simp [asByte, charV, pairV]
theorem asItem_charV (i : Int) (c : Nat) : asItem (charV i c) = none := by simp [asItem, charV, pairV]
theorem asEntry_charV (i : Int) (c : Nat) : asEntry (charV i c) = none := by simp [asEntry, charV, pairV]
theorem asChar_byteV (i : Int) (c : Nat) : asChar (byteV i c) = none := by simp [asChar, byteV, pairV]
theorem asItem_byteV (i : Int) (c : Nat) : asItem (byteV i c) = none := by simp [asItem, byteV, pairV]
theorem asEntry_byteV (i : Int) (c : Nat) : asEntry (byteV i c) = none := by simp [asEntry, byteV, pairV]
theorem asChar_itemV (i : Int) (x : V) : asChar (itemV i x) = none := by
  cases x <;> simp [asChar, itemV, pairV]
theorem asByte_itemV (i : Int) (x : V) : asByte (itemV i x) = none := by
  cases x <;> simp [asByte, itemV, pairV]
theorem asEntry_itemV (i : Int) (x : V) : asEntry (itemV i x) = none := by simp [asEntry, itemV, pairV]
theorem asChar_entryV (k x : V) : asChar (entryV k x) = none := by
  cases k <;> cases x <;> simp [asChar, entryV, pairV]
theorem asByte_entryV (k x : V) : asByte (entryV k x) = none := by
  cases k <;> cases x <;> simp [asByte, entryV, pairV]
theorem asItem_entryV (k x : V) : asItem (entryV k x) = none := by
  cases k <;> simp [asItem, entryV, pairV]

theorem asChar_charV (i : Int) (c : Nat) (h : (c : Int) ≤ maxRune) : asChar (charV i c) = some (i, c) :=
  (asChar_eq_some _ _ _).2 ⟨rfl, h⟩
theorem asByte_byteV (i : Int) (b : Nat) (h : (b : Int) ≤ 255) : asByte (byteV i b) = some (i, b) :=
  (asByte_eq_some _ _ _).2 ⟨rfl, h⟩
theorem asItem_itemV (i : Int) (x : V) : asItem (itemV i x) = some (i, x) := (asItem_eq_some _ _ _).2 rfl
theorem asEntry_entryV (k x : V) : asEntry (entryV k x) = some (k, x) := (asEntry_eq_some _ _ _).2 rfl

/-! ## buckets -/

theorem bucketOf_charV (i : Int) (c : Nat) (h : (c : Int) ≤ maxRune) : bucketOf (charV i c) = .strChar := by
  have := asChar_charV i c h
  simp [bucketOf, charV, pairV] at *
  simp [this]

theorem bucketOf_byteV (i : Int) (b : Nat) (h : (b : Int) ≤ 255) : bucketOf (byteV i b) = .bytesByte := by
  have h1 := asByte_byteV i b h
  have h2 := asChar_byteV i b
  simp [bucketOf, byteV, pairV] at *
  simp [h1, h2]

theorem bucketOf_itemV (i : Int) (x : V) : bucketOf (itemV i x) = .arrItem := by
  have h1 := asItem_itemV i x
  have h2 := asChar_itemV i x
  have h3 := asByte_itemV i x
  simp [bucketOf, itemV, pairV] at *
  simp [h1, h2, h3]

theorem bucketOf_entryV (k x : V) : bucketOf (entryV k x) = .dictEntry := by
  have h1 := asEntry_entryV k x
  have h2 := asChar_entryV k x
  have h3 := asByte_entryV k x
  have h4 := asItem_entryV k x
  simp [bucketOf, entryV, pairV] at *
  simp [h1, h2, h3, h4]

theorem asByte_none_of_asChar {v : V} {p : Int × Nat} (h : asChar v = some p) : asByte v = none := by
  obtain ⟨i, c⟩ := p; rw [((asChar_eq_some v i c).1 h).1]; exact asByte_charV i c
theorem asItem_none_of_asChar {v : V} {p : Int × Nat} (h : asChar v = some p) : asItem v = none := by
  obtain ⟨i, c⟩ := p; rw [((asChar_eq_some v i c).1 h).1]; exact asItem_charV i c
theorem asEntry_none_of_asChar {v : V} {p : Int × Nat} (h : asChar v = some p) : asEntry v = none := by
  obtain ⟨i, c⟩ := p; rw [((asChar_eq_some v i c).1 h).1]; exact asEntry_charV i c
theorem asChar_none_of_asByte {v : V} {p : Int × Nat} (h : asByte v = some p) : asChar v = none := by
  obtain ⟨i, c⟩ := p; rw [((asByte_eq_some v i c).1 h).1]; exact asChar_byteV i c
theorem asChar_none_of_asItem {v : V} {p : Int × V} (h : asItem v = some p) : asChar v = none := by
  obtain ⟨i, c⟩ := p; rw [(asItem_eq_some v i c).1 h]; exact asChar_itemV i c
theorem asByte_none_of_asItem {v : V} {p : Int × V} (h : asItem v = some p) : asByte v = none := by
  obtain ⟨i, c⟩ := p; rw [(asItem_eq_some v i c).1 h]; exact asByte_itemV i c
theorem asChar_none_of_asEntry {v : V} {p : V × V} (h : asEntry v = some p) : asChar v = none := by
  obtain ⟨i, c⟩ := p; rw [(asEntry_eq_some v i c).1 h]; exact asChar_entryV i c
theorem asByte_none_of_asEntry {v : V} {p : V × V} (h : asEntry v = some p) : asByte v = none := by
  obtain ⟨i, c⟩ := p; rw [(asEntry_eq_some v i c).1 h]; exact asByte_entryV i c
theorem asItem_none_of_asEntry {v : V} {p : V × V} (h : asEntry v = some p) : asItem v = none := by
  obtain ⟨i, c⟩ := p; rw [(asEntry_eq_some v i c).1 h]; exact asItem_entryV i c

theorem bucketOf_strChar_iff (v : V) : bucketOf v = .strChar ↔ (asChar v).isSome = true := by
  constructor
  · intro h
    unfold bucketOf at h
    split at h
    · cases h
    · cases h
    · cases h
    · split at h
      · assumption
      · split at h
        · cases h
        · split at h
          · cases h
          · split at h <;> cases h
  · intro h
    obtain ⟨⟨i, c⟩, hp⟩ := Option.isSome_iff_exists.1 h
    obtain ⟨rfl, hc⟩ := (asChar_eq_some v i c).1 hp
    exact bucketOf_charV i c hc

theorem bucketOf_bytesByte_iff (v : V) : bucketOf v = .bytesByte ↔ (asByte v).isSome = true := by
  constructor
  · intro h
    unfold bucketOf at h
    split at h
    · cases h
    · cases h
    · cases h
    · split at h
      · cases h
      · split at h
        · assumption
        · split at h
          · cases h
          · split at h <;> cases h
  · intro h
    obtain ⟨⟨i, c⟩, hp⟩ := Option.isSome_iff_exists.1 h
    obtain ⟨rfl, hc⟩ := (asByte_eq_some v i c).1 hp
    exact bucketOf_byteV i c hc

theorem bucketOf_arrItem_iff (v : V) : bucketOf v = .arrItem ↔ (asItem v).isSome = true := by
  constructor
  · intro h
    unfold bucketOf at h
    split at h
    · cases h
    · cases h
    · cases h
    · split at h
      · cases h
      · split at h
        · cases h
        · split at h
          · assumption
          · split at h <;> cases h
  · intro h
    obtain ⟨⟨i, c⟩, hp⟩ := Option.isSome_iff_exists.1 h
    rw [(asItem_eq_some v i c).1 hp]
    exact bucketOf_itemV i c

theorem bucketOf_dictEntry_iff (v : V) : bucketOf v = .dictEntry ↔ (asEntry v).isSome = true := by
  constructor
  · intro h
    unfold bucketOf at h
    split at h
    · cases h
    · cases h
    · cases h
    · split at h
      · cases h
      · split at h
        · cases h
        · split at h
          · cases h
          · split at h
            · assumption
            · cases h
  · intro h
    obtain ⟨⟨i, c⟩, hp⟩ := Option.isSome_iff_exists.1 h
    rw [(asEntry_eq_some v i c).1 hp]
    exact bucketOf_entryV i c

/-- a value in a relation bucket is a tuple with exactly these names and none of the four sugar shapes -/
theorem bucketOf_rel {v : V} {names : List String} (h : bucketOf v = .rel names) :
    ∃ as, v = .tup as ∧ as.map (·.1) = names := by
  unfold bucketOf at h
  split at h
  · cases h
  · cases h
  · cases h
  · rename_i as _
    split at h
    · cases h
    · split at h
      · cases h
      · split at h
        · cases h
        · split at h
          · cases h
          · simp only [Bucket.rel.injEq] at h
            exact ⟨as, rfl, h⟩

theorem bucketOf_num (n : Int) : bucketOf (.num n) = .generic := rfl
theorem bucketOf_set (xs : List V) : bucketOf (.set xs) = .generic := rfl
theorem bucketOf_unit : bucketOf (.tup []) = .generic := rfl

/-! ## well-formedness of the representations -/

def DVal.WF : DVal → Prop
  | .one _ => True
  | .many vs => Sorted vs ∧ 2 ≤ vs.length

/-- the invariant the Go constructors establish (leading/trailing holes are allowed: that is C02) -/
def Plain.WF : Plain → Prop
  | .empty => True
  | .true_ => True
  | .generic xs => Sorted xs ∧ xs ≠ [] ∧ xs ≠ [.tup []] ∧ ∀ x, x ∈ xs → bucketOf x = .generic
  | .str s _ holes => holes = kholes s ∧ 0 < kcount s ∧ ∀ c, some c ∈ s → (c : Int) ≤ maxRune
  | .bytes b _ => b ≠ [] ∧ ∀ x, x ∈ b → (x : Int) ≤ 255
  | .arr vs _ count => count = kcount vs
  | .dict m => m ≠ [] ∧ (m.map (·.1)).Nodup ∧ ∀ kd, kd ∈ m → kd.2.WF
  | .rel names rows => Sorted rows ∧ rows ≠ [] ∧ ∀ r, r ∈ rows → bucketOf r = .rel names

theorem kget_mem {α : Type} {vs : List (Option α)} {n : Nat} {x : α} (h : kget vs n = some x) : some x ∈ vs := by
  unfold kget at h
  cases hv : vs[n]? with
  | none => simp [hv] at h
  | some o =>
    rw [hv] at h
    simp at h
    subst h
    exact List.mem_of_getElem? hv

theorem kget_map_some (b : List Nat) (n : Nat) : kget (b.map some) n = b[n]? := by
  simp [kget]
  cases b[n]? <;> simp

theorem charV_inj {i j : Int} {c d : Nat} (h : charV i c = charV j d) : i = j ∧ c = d := by
  simp [charV, pairV] at h; omega
theorem byteV_inj {i j : Int} {c d : Nat} (h : byteV i c = byteV j d) : i = j ∧ c = d := by
  simp [byteV, pairV] at h; omega
theorem itemV_inj {i j : Int} {x y : V} (h : itemV i x = itemV j y) : i = j ∧ x = y := by
  simpa [itemV, pairV] using h
theorem entryV_inj {k l x y : V} (h : entryV k x = entryV l y) : k = l ∧ x = y := by
  simpa [entryV, pairV] using h

/-! ### members of the keyed sequences -/

theorem mem_str_members (s : List (Option Nat)) (off : Int) (holes : Nat) (v : V) :
    v ∈ (Plain.str s off holes).members ↔ ∃ i c, v = charV i c ∧ off ≤ i ∧ kget s (i - off).toNat = some c := by
  simp only [Plain.members, List.mem_map]
  constructor
  · rintro ⟨⟨i, c⟩, hp, rfl⟩
    exact ⟨i, c, rfl, (mem_kden s off i c).1 hp⟩
  · rintro ⟨i, c, rfl, h⟩
    exact ⟨(i, c), (mem_kden s off i c).2 h, rfl⟩

theorem mem_bytes_members (b : List Nat) (off : Int) (v : V) :
    v ∈ (Plain.bytes b off).members ↔ ∃ i x, v = byteV i x ∧ off ≤ i ∧ b[(i - off).toNat]? = some x := by
  simp only [Plain.members, List.mem_map]
  constructor
  · rintro ⟨⟨i, c⟩, hp, rfl⟩
    have := (mem_kden _ off i c).1 hp
    rw [kget_map_some] at this
    exact ⟨i, c, rfl, this⟩
  · rintro ⟨i, c, rfl, h⟩
    refine ⟨(i, c), (mem_kden _ off i c).2 ?_, rfl⟩
    rw [kget_map_some]; exact h

theorem mem_arr_members (vs : List (Option V)) (off : Int) (count : Nat) (v : V) :
    v ∈ (Plain.arr vs off count).members ↔ ∃ i x, v = itemV i x ∧ off ≤ i ∧ kget vs (i - off).toNat = some x := by
  simp only [Plain.members, List.mem_map]
  constructor
  · rintro ⟨⟨i, c⟩, hp, rfl⟩
    exact ⟨i, c, rfl, (mem_kden vs off i c).1 hp⟩
  · rintro ⟨i, c, rfl, h⟩
    exact ⟨(i, c), (mem_kden vs off i c).2 h, rfl⟩

theorem nodup_map_kden {α : Type} (f : Int × α → V) (vs : List (Option α)) (off : Int)
    (hinj : ∀ p q : Int × α, f p = f q → p.1 = q.1) : ((kden vs off).map f).Nodup := by
  unfold List.Nodup
  rw [List.pairwise_map]
  exact (kden_pairwise vs off).imp (fun {p q} hlt he => by
    have := hinj p q he
    omega)

/-! ### association lists -/
namespace AL
variable {κ β : Type} [DecidableEq κ]

theorem get_eq_some_of_mem (m : List (κ × β)) (hn : (m.map (·.1)).Nodup) (k : κ) (d : β) :
    get k m = some d ↔ (k, d) ∈ m := by
  induction m with
  | nil => simp [get]
  | cons p r ih =>
    obtain ⟨k', d'⟩ := p
    simp only [List.map_cons, List.nodup_cons] at hn
    simp only [get]
    by_cases hk : k' = k
    · subst hk
      simp only [if_true, Option.some.injEq, List.mem_cons, Prod.mk.injEq, true_and]
      constructor
      · intro h; exact Or.inl h.symm
      · rintro (h | h)
        · exact h.symm
        · exact absurd (List.mem_map.2 ⟨(k', d), h, rfl⟩) hn.1
    · simp only [hk, if_false, List.mem_cons, Prod.mk.injEq]
      rw [ih hn.2]
      constructor
      · intro h; exact Or.inr h
      · rintro (⟨h, _⟩ | h)
        · exact absurd h.symm hk
        · exact h

theorem get_eq_none_iff (m : List (κ × β)) (k : κ) : get k m = none ↔ k ∉ m.map (·.1) := by
  induction m with
  | nil => simp [get]
  | cons p r ih =>
    obtain ⟨k', d'⟩ := p
    simp only [get, List.map_cons, List.mem_cons]
    by_cases hk : k' = k
    · subst hk; simp
    · simp only [hk, if_false, ih]
      constructor
      · intro h hc
        rcases hc with hc | hc
        · exact hk hc.symm
        · exact h hc
      · intro h hc; exact h (Or.inr hc)

theorem mem_put (m : List (κ × β)) (k : κ) (v : β) (hn : (m.map (·.1)).Nodup) (p : κ × β) :
    p ∈ put k v m ↔ p = (k, v) ∨ (p ∈ m ∧ p.1 ≠ k) := by
  induction m with
  | nil => simp [put]
  | cons q r ih =>
    obtain ⟨k', v'⟩ := q
    simp only [List.map_cons, List.nodup_cons] at hn
    simp only [put]
    by_cases hk : k' = k
    · subst hk
      simp only [if_true, List.mem_cons]
      constructor
      · rintro (h | h)
        · exact Or.inl h
        · refine Or.inr ⟨Or.inr h, ?_⟩
          intro hc
          exact hn.1 (List.mem_map.2 ⟨p, h, hc⟩)
      · rintro (h | ⟨h | h, hne⟩)
        · exact Or.inl h
        · subst h; exact absurd rfl hne
        · exact Or.inr h
    · simp only [hk, if_false, List.mem_cons, ih hn.2]
      constructor
      · rintro (h | h | ⟨h, hne⟩)
        · subst h; exact Or.inr ⟨Or.inl rfl, hk⟩
        · exact Or.inl h
        · exact Or.inr ⟨Or.inr h, hne⟩
      · rintro (h | ⟨h | h, hne⟩)
        · exact Or.inr (Or.inl h)
        · exact Or.inl h
        · exact Or.inr (Or.inr ⟨h, hne⟩)

theorem keys_put (m : List (κ × β)) (k : κ) (v : β) (x : κ) :
    x ∈ (put k v m).map (·.1) ↔ x = k ∨ x ∈ m.map (·.1) := by
  induction m with
  | nil => simp [put]
  | cons q r ih =>
    obtain ⟨k', v'⟩ := q
    simp only [put]
    by_cases hk : k' = k
    · subst hk; simp
    · simp only [hk, if_false, List.map_cons, List.mem_cons, ih]
      constructor
      · rintro (h | h | h)
        · exact Or.inr (Or.inl h)
        · exact Or.inl h
        · exact Or.inr (Or.inr h)
      · rintro (h | h | h)
        · exact Or.inr (Or.inl h)
        · exact Or.inl h
        · exact Or.inr (Or.inr h)

theorem nodup_put (m : List (κ × β)) (k : κ) (v : β) (hn : (m.map (·.1)).Nodup) :
    ((put k v m).map (·.1)).Nodup := by
  induction m with
  | nil => simp [put]
  | cons q r ih =>
    obtain ⟨k', v'⟩ := q
    simp only [List.map_cons, List.nodup_cons] at hn
    simp only [put]
    by_cases hk : k' = k
    · subst hk; simpa using hn
    · simp only [hk, if_false, List.map_cons, List.nodup_cons]
      refine ⟨?_, ih hn.2⟩
      intro hc
      rcases (keys_put r k v k').1 hc with h | h
      · exact hk h
      · exact hn.1 h

theorem mem_remove (m : List (κ × β)) (k : κ) (hn : (m.map (·.1)).Nodup) (p : κ × β) :
    p ∈ remove k m ↔ p ∈ m ∧ p.1 ≠ k := by
  induction m with
  | nil => simp [remove]
  | cons q r ih =>
    obtain ⟨k', v'⟩ := q
    simp only [List.map_cons, List.nodup_cons] at hn
    simp only [remove]
    by_cases hk : k' = k
    · subst hk
      simp only [if_true, List.mem_cons]
      constructor
      · intro h
        refine ⟨Or.inr h, ?_⟩
        intro hc
        exact hn.1 (List.mem_map.2 ⟨p, h, hc⟩)
      · rintro ⟨h | h, hne⟩
        · subst h; exact absurd rfl hne
        · exact h
    · simp only [hk, if_false, List.mem_cons, ih hn.2]
      constructor
      · rintro (h | ⟨h, hne⟩)
        · subst h; exact ⟨Or.inl rfl, hk⟩
        · exact ⟨Or.inr h, hne⟩
      · rintro ⟨h | h, hne⟩
        · exact Or.inl h
        · exact Or.inr ⟨h, hne⟩

theorem nodup_remove (m : List (κ × β)) (k : κ) (hn : (m.map (·.1)).Nodup) :
    ((remove k m).map (·.1)).Nodup := by
  induction m with
  | nil => simp [remove]
  | cons q r ih =>
    obtain ⟨k', v'⟩ := q
    simp only [List.map_cons, List.nodup_cons] at hn
    simp only [remove]
    by_cases hk : k' = k
    · subst hk; simpa using hn.2
    · simp only [hk, if_false, List.map_cons, List.nodup_cons]
      refine ⟨?_, ih hn.2⟩
      intro hc
      obtain ⟨p, hp, hpk⟩ := List.mem_map.1 hc
      have := ((mem_remove r k hn.2 p).1 hp).1
      exact hn.1 (List.mem_map.2 ⟨p, this, hpk⟩)

end AL

/-! ### Dict members -/

theorem mem_dictMembers (m : List (V × DVal)) (v : V) :
    v ∈ dictMembers m ↔ ∃ k d x, (k, d) ∈ m ∧ x ∈ d.vals ∧ v = entryV k x := by
  induction m with
  | nil => simp [dictMembers]
  | cons p r ih =>
    obtain ⟨k, d⟩ := p
    simp only [dictMembers, List.mem_append, List.mem_map, ih, List.mem_cons, Prod.mk.injEq]
    constructor
    · rintro (⟨x, hx, rfl⟩ | ⟨k', d', x, h, hx, rfl⟩)
      · exact ⟨k, d, x, Or.inl ⟨rfl, rfl⟩, hx, rfl⟩
      · exact ⟨k', d', x, Or.inr h, hx, rfl⟩
    · rintro ⟨k', d', x, (⟨rfl, rfl⟩ | h), hx, rfl⟩
      · exact Or.inl ⟨x, hx, rfl⟩
      · exact Or.inr ⟨k', d', x, h, hx, rfl⟩

theorem length_dictMembers (m : List (V × DVal)) : (dictMembers m).length = dictCount m := by
  induction m with
  | nil => rfl
  | cons p r ih =>
    obtain ⟨k, d⟩ := p
    cases d <;> simp [dictMembers, dictCount, DVal.vals, ih] <;> omega

theorem DVal.vals_nodup (d : DVal) (h : d.WF) : d.vals.Nodup := by
  cases d with
  | one v => simp [DVal.vals]
  | many vs => exact FinSet.sorted_nodup vs h.1

theorem nodup_dictMembers (m : List (V × DVal)) (hk : (m.map (·.1)).Nodup) (hd : ∀ kd, kd ∈ m → kd.2.WF) :
    (dictMembers m).Nodup := by
  induction m with
  | nil => simp [dictMembers]
  | cons p r ih =>
    obtain ⟨k, d⟩ := p
    simp only [List.map_cons, List.nodup_cons] at hk
    simp only [dictMembers]
    rw [List.nodup_append]
    refine ⟨?_, ih hk.2 (fun kd h => hd kd (List.mem_cons_of_mem _ h)), ?_⟩
    · have hv := DVal.vals_nodup d (hd (k, d) (by simp))
      unfold List.Nodup at hv ⊢
      rw [List.pairwise_map]
      exact hv.imp (fun {a b} hab he => hab (entryV_inj he).2)
    · intro a ha b hb hab
      subst hab
      obtain ⟨x, _, rfl⟩ := List.mem_map.1 ha
      obtain ⟨k', d', x', hm, _, he⟩ := (mem_dictMembers r _).1 hb
      have := (entryV_inj he).1
      subst this
      exact hk.1 (List.mem_map.2 ⟨(k, d'), hm, rfl⟩)

/-! ## the interface contract: members / bucket / has / count -/

theorem Plain.members_bucket (p : Plain) (h : p.WF) : ∀ x, x ∈ p.members → bucketOf x = p.bucket := by
  intro x hx
  cases p with
  | empty => cases hx
  | true_ =>
    simp only [Plain.members, List.mem_singleton] at hx
    subst hx; rfl
  | generic xs => exact h.2.2.2 x hx
  | str s off holes =>
    obtain ⟨i, c, rfl, _, hg⟩ := (mem_str_members s off holes x).1 hx
    exact bucketOf_charV i c (h.2.2 c (kget_mem hg))
  | bytes b off =>
    obtain ⟨i, c, rfl, _, hg⟩ := (mem_bytes_members b off x).1 hx
    exact bucketOf_byteV i c (h.2 c (List.mem_of_getElem? hg))
  | arr vs off count =>
    obtain ⟨i, c, rfl, _, _⟩ := (mem_arr_members vs off count x).1 hx
    exact bucketOf_itemV i c
  | dict m =>
    obtain ⟨k, d, y, _, _, rfl⟩ := (mem_dictMembers m x).1 hx
    exact bucketOf_entryV k y
  | rel names rows => exact h.2.2 x hx

theorem Plain.members_nodup (p : Plain) (h : p.WF) : p.members.Nodup := by
  cases p with
  | empty => simp [Plain.members]
  | true_ => simp [Plain.members]
  | generic xs => exact FinSet.sorted_nodup xs h.1
  | str s off holes => exact nodup_map_kden _ s off (fun p q he => (charV_inj he).1)
  | bytes b off => exact nodup_map_kden _ _ off (fun p q he => (byteV_inj he).1)
  | arr vs off count => exact nodup_map_kden _ vs off (fun p q he => (itemV_inj he).1)
  | dict m => exact nodup_dictMembers m h.2.1 h.2.2
  | rel names rows => exact FinSet.sorted_nodup rows h.1

theorem Plain.count_eq (p : Plain) (h : p.WF) : p.count = p.members.length := by
  cases p with
  | empty => rfl
  | true_ => rfl
  | generic xs => rfl
  | str s off holes =>
    simp only [Plain.count, Plain.members, List.length_map, length_kden, strCount]
    have := kcount_add_kholes s
    rw [h.1]; omega
  | bytes b off =>
    simp only [Plain.count, Plain.members, List.length_map, length_kden]
    induction b with
    | nil => rfl
    | cons x r ih => simp [kcount]; exact (by
        have : ∀ l : List Nat, kcount (l.map some) = l.length := by
          intro l; induction l with
          | nil => rfl
          | cons y t iht => simp [kcount, iht]
        exact (this r).symm)
  | arr vs off count =>
    simp only [Plain.count, Plain.members, List.length_map, length_kden]
    exact h
  | dict m => simp only [Plain.count, Plain.members, length_dictMembers]
  | rel names rows => rfl

theorem Plain.has_iff (p : Plain) (h : p.WF) (v : V) : p.has v = true ↔ v ∈ p.members := by
  cases p with
  | empty => simp [Plain.has, Plain.members]
  | true_ => simp [Plain.has, Plain.members]
  | generic xs => simp [Plain.has, Plain.members]
  | str s off holes =>
    rw [mem_str_members]
    simp only [Plain.has, strHas]
    cases hc : asChar v with
    | none =>
      simp only [Bool.false_eq_true, false_iff]
      rintro ⟨i, c, rfl, _, hg⟩
      rw [asChar_charV i c (h.2.2 c (kget_mem hg))] at hc
      cases hc
    | some p =>
      obtain ⟨i, c⟩ := p
      obtain ⟨rfl, _⟩ := (asChar_eq_some v i c).1 hc
      simp only
      constructor
      · intro hh
        split at hh
        · rename_i hr
          exact ⟨i, c, rfl, hr.1, by simpa using hh⟩
        · cases hh
      · rintro ⟨j, d, he, hle, hg⟩
        obtain ⟨rfl, rfl⟩ := charV_inj he
        have hlt := kget_some_lt hg
        have : off ≤ i ∧ i < off + ↑s.length := ⟨hle, by omega⟩
        simp [this, hg]
  | bytes b off =>
    rw [mem_bytes_members]
    simp only [Plain.has, bytesHas]
    cases hc : asByte v with
    | none =>
      simp only [Bool.false_eq_true, false_iff]
      rintro ⟨i, c, rfl, _, hg⟩
      rw [asByte_byteV i c (h.2 c (List.mem_of_getElem? hg))] at hc
      cases hc
    | some p =>
      obtain ⟨i, c⟩ := p
      obtain ⟨rfl, _⟩ := (asByte_eq_some v i c).1 hc
      simp only
      constructor
      · intro hh
        split at hh
        · rename_i hr
          exact ⟨i, c, rfl, hr.1, by simpa using hh⟩
        · cases hh
      · rintro ⟨j, d, he, hle, hg⟩
        obtain ⟨rfl, rfl⟩ := byteV_inj he
        have hlt : (i - off).toNat < b.length := by
          apply Classical.byContradiction
          intro hn
          rw [List.getElem?_eq_none (by omega)] at hg
          cases hg
        have : off ≤ i ∧ i < off + ↑b.length := ⟨hle, by omega⟩
        simp [this, hg]
  | arr vs off count =>
    rw [mem_arr_members]
    simp only [Plain.has, arrHas]
    cases hc : asItem v with
    | none =>
      simp only [Bool.false_eq_true, false_iff]
      rintro ⟨i, c, rfl, _, _⟩
      rw [asItem_itemV i c] at hc
      cases hc
    | some p =>
      obtain ⟨i, c⟩ := p
      have := (asItem_eq_some v i c).1 hc
      subst this
      simp only
      constructor
      · intro hh
        split at hh
        · rename_i hr
          exact ⟨i, c, rfl, hr.1, by simpa using hh⟩
        · cases hh
      · rintro ⟨j, d, he, hle, hg⟩
        obtain ⟨rfl, rfl⟩ := itemV_inj he
        have hlt := kget_some_lt hg
        have : off ≤ i ∧ i < off + ↑vs.length := ⟨hle, by omega⟩
        simp [this, hg]
  | dict m =>
    simp only [Plain.has, Plain.members, dictHas, mem_dictMembers]
    cases hc : asEntry v with
    | none =>
      simp only [Bool.false_eq_true, false_iff]
      rintro ⟨k, d, x, _, _, rfl⟩
      rw [asEntry_entryV] at hc
      cases hc
    | some p =>
      obtain ⟨k, x⟩ := p
      have := (asEntry_eq_some v k x).1 hc
      subst this
      simp only
      cases hg : AL.get k m with
      | none =>
        simp only [Bool.false_eq_true, false_iff]
        rintro ⟨k', d, x', hm, _, he⟩
        obtain ⟨rfl, rfl⟩ := entryV_inj he
        exact (AL.get_eq_none_iff m k).1 hg (List.mem_map.2 ⟨(k, d), hm, rfl⟩)
      | some d =>
        have hm := (AL.get_eq_some_of_mem m h.2.1 k d).1 hg
        cases d with
        | one w =>
          simp only [decide_eq_true_eq]
          constructor
          · rintro rfl
            exact ⟨k, .one x, x, hm, by simp [DVal.vals], rfl⟩
          · rintro ⟨k', d', x', hm', hx', he⟩
            obtain ⟨rfl, rfl⟩ := entryV_inj he
            have := (AL.get_eq_some_of_mem m h.2.1 k d').2 hm'
            rw [hg] at this
            simp only [Option.some.injEq] at this
            subst this
            simpa [DVal.vals] using hx'
        | many vs =>
          simp only [decide_eq_true_eq]
          constructor
          · intro hx
            exact ⟨k, .many vs, x, hm, hx, rfl⟩
          · rintro ⟨k', d', x', hm', hx', he⟩
            obtain ⟨rfl, rfl⟩ := entryV_inj he
            have := (AL.get_eq_some_of_mem m h.2.1 k d').2 hm'
            rw [hg] at this
            simp only [Option.some.injEq] at this
            subst this
            exact hx'
  | rel names rows =>
    simp only [Plain.has, Plain.members]
    cases v with
    | num n =>
      simp only [Bool.false_eq_true, false_iff]
      intro hm
      have := h.2.2 _ hm
      simp [bucketOf] at this
    | set xs =>
      simp only [Bool.false_eq_true, false_iff]
      intro hm
      have := h.2.2 _ hm
      simp [bucketOf] at this
    | tup as =>
      simp only [Bool.and_eq_true, decide_eq_true_eq]
      constructor
      · exact fun hh => hh.2
      · intro hm
        obtain ⟨as', he, hn⟩ := bucketOf_rel (h.2.2 _ hm)
        simp only [V.tup.injEq] at he
        subst he
        exact ⟨hn, hm⟩

theorem Plain.isTrue_iff (p : Plain) (h : p.WF) : p.isTrue = true ↔ p.members ≠ [] := by
  cases p with
  | empty => simp [Plain.isTrue, Plain.members]
  | true_ => simp [Plain.isTrue, Plain.members]
  | generic xs => simp [Plain.isTrue, Plain.members]
  | str s off holes =>
    simp only [Plain.isTrue, Plain.members, true_iff]
    intro hc
    have := congrArg List.length hc
    simp only [List.length_map, length_kden, List.length_nil] at this
    have := h.2.1
    omega
  | bytes b off =>
    simp only [Plain.isTrue, true_iff]
    intro hc
    have h1 := Plain.count_eq (.bytes b off) h
    rw [hc] at h1
    simp only [Plain.count, List.length_nil] at h1
    exact h.1 (List.eq_nil_of_length_eq_zero h1)
  | arr vs off count =>
    simp only [Plain.isTrue, decide_eq_true_eq]
    have h1 := Plain.count_eq (.arr vs off count) h
    simp only [Plain.count] at h1
    rw [h1]
    constructor
    · intro hp hc; rw [hc] at hp; simp at hp
    · intro hne
      cases hm : (Plain.arr vs off count).members with
      | nil => exact absurd hm hne
      | cons a r => simp
  | dict m =>
    simp only [Plain.isTrue, Plain.members]
    have hne := h.1
    cases m with
    | nil => exact absurd rfl hne
    | cons p r =>
      obtain ⟨k, d⟩ := p
      simp only [List.isEmpty_cons, Bool.not_false, true_iff, dictMembers]
      intro hc
      have := congrArg List.length hc
      cases d with
      | one v => simp [DVal.vals] at this
      | many vs =>
        have hw := h.2.2 (k, .many vs) (by simp)
        simp only [DVal.WF] at hw
        simp [DVal.vals] at this
        omega
  | rel names rows => simp [Plain.isTrue, Plain.members]
