/-
  C01 helper lemmas, part 2: buckets, well-formedness of the representations and the interface
  contract of each representation (members / has / count / with_ / without / filter).
-/
import Arrai.C01.Lemmas

namespace Arrai.C01
open Arrai Arrai.FinSet KSeq

/-! ## the specialised-tuple views -/

theorem asChar_eq_some (v : V) (i : Int) (c : Nat) :
    asChar v = some (i, c) ↔ v = charV i c ∧ (c : Int) ≤ maxRune := by
  unfold asChar
  split
  · rename_i n1 i' n2 c'
    simp only [charV, pairV]
    constructor
    · intro h
      split at h
      · rename_i hc
        obtain ⟨h1, h2, h3, h4⟩ := hc
        simp only [Option.some.injEq, Prod.mk.injEq] at h
        obtain ⟨rfl, rfl⟩ := h
        subst h1; subst h2
        have t1 : Int.ofNat c'.toNat = c' := Int.toNat_of_nonneg h3
        have t2 : ((c'.toNat : Nat) : Int) = c' := Int.toNat_of_nonneg h3
        exact ⟨by rw [t1], by rw [t2]; exact h4⟩
      · cases h
    · rintro ⟨h, hle⟩
      simp only [V.tup.injEq, List.cons.injEq, Prod.mk.injEq, V.num.injEq, and_true] at h
      obtain ⟨⟨rfl, rfl⟩, rfl, rfl⟩ := h
      have h0 : (0 : Int) ≤ (c : Int) := Int.natCast_nonneg c
      simp [h0, hle]
  · rename_i hne
    constructor
    · intro h; cases h
    · rintro ⟨h, _⟩
      exact absurd h (by
        intro h; exact hne _ _ _ _ (by simpa [charV, pairV] using h))

theorem asByte_eq_some (v : V) (i : Int) (b : Nat) :
    asByte v = some (i, b) ↔ v = byteV i b ∧ (b : Int) ≤ 255 := by
  unfold asByte
  split
  · rename_i n1 i' n2 c'
    simp only [byteV, pairV]
    constructor
    · intro h
      split at h
      · rename_i hc
        obtain ⟨h1, h2, h3, h4⟩ := hc
        simp only [Option.some.injEq, Prod.mk.injEq] at h
        obtain ⟨rfl, rfl⟩ := h
        subst h1; subst h2
        have t1 : Int.ofNat c'.toNat = c' := Int.toNat_of_nonneg h3
        have t2 : ((c'.toNat : Nat) : Int) = c' := Int.toNat_of_nonneg h3
        exact ⟨by rw [t1], by rw [t2]; exact h4⟩
      · cases h
    · rintro ⟨h, hle⟩
      simp only [V.tup.injEq, List.cons.injEq, Prod.mk.injEq, V.num.injEq, and_true] at h
      obtain ⟨⟨rfl, rfl⟩, rfl, rfl⟩ := h
      have h0 : (0 : Int) ≤ (b : Int) := Int.natCast_nonneg b
      simp [h0, hle]
  · rename_i hne
    constructor
    · intro h; cases h
    · rintro ⟨h, _⟩
      exact absurd h (by
        intro h; exact hne _ _ _ _ (by simpa [byteV, pairV] using h))

theorem asItem_eq_some (v : V) (i : Int) (x : V) : asItem v = some (i, x) ↔ v = itemV i x := by
  unfold asItem
  split
  · rename_i n1 i' n2 x'
    simp only [itemV, pairV]
    constructor
    · intro h
      split at h
      · rename_i hc
        obtain ⟨h1, h2⟩ := hc
        simp only [Option.some.injEq, Prod.mk.injEq] at h
        obtain ⟨rfl, rfl⟩ := h
        subst h1; subst h2
        rfl
      · cases h
    · intro h
      simp only [V.tup.injEq, List.cons.injEq, Prod.mk.injEq, V.num.injEq, and_true] at h
      obtain ⟨⟨rfl, rfl⟩, rfl, rfl⟩ := h
      simp
  · rename_i hne
    constructor
    · intro h; cases h
    · intro h
      exact absurd h (by
        intro h; exact hne _ _ _ _ (by simpa [itemV, pairV] using h))

theorem asEntry_eq_some (v : V) (k x : V) : asEntry v = some (k, x) ↔ v = entryV k x := by
  unfold asEntry
  split
  · rename_i n1 k' n2 x'
    simp only [entryV, pairV]
    constructor
    · intro h
      split at h
      · rename_i hc
        obtain ⟨h1, h2⟩ := hc
        simp only [Option.some.injEq, Prod.mk.injEq] at h
        obtain ⟨rfl, rfl⟩ := h
        subst h1; subst h2
        rfl
      · cases h
    · intro h
      simp only [V.tup.injEq, List.cons.injEq, Prod.mk.injEq, and_true] at h
      obtain ⟨⟨rfl, rfl⟩, rfl, rfl⟩ := h
      simp
  · rename_i hne
    constructor
    · intro h; cases h
    · intro h
      exact absurd h (by
        intro h; exact hne _ _ _ _ (by simpa [entryV, pairV] using h))

/-! the four views exclude one another -/
theorem asByte_charV (i : Int) (c : Nat) : asByte (charV i c) = none := by simp [asByte, charV, pairV]
theorem asItem_charV (i : Int) (c : Nat) : asItem (charV i c) = none := by simp [asItem, charV, pairV]
theorem asEntry_charV (i : Int) (c : Nat) : asEntry (charV i c) = none := by simp [asEntry, charV, pairV]
theorem asChar_byteV (i : Int) (c : Nat) : asChar (byteV i c) = none := by simp [asChar, byteV, pairV]
theorem asItem_byteV (i : Int) (c : Nat) : asItem (byteV i c) = none := by simp [asItem, byteV, pairV]
theorem asEntry_byteV (i : Int) (c : Nat) : asEntry (byteV i c) = none := by simp [asEntry, byteV, pairV]
theorem asChar_itemV (i : Int) (x : V) : asChar (itemV i x) = none := by
  cases x <;> simp [asChar, itemV, pairV]
theorem asByte_itemV (i : Int) (x : V) : asByte (itemV i x) = none := by
  cases x <;> simp [asByte, itemV, pairV]
theorem asEntry_itemV (i : Int) (x : V) : asEntry (itemV i x) = none := by simp [asEntry, itemV, pairV]
theorem asChar_entryV (k x : V) : asChar (entryV k x) = none := by
  cases k <;> cases x <;> simp [asChar, entryV, pairV]
theorem asByte_entryV (k x : V) : asByte (entryV k x) = none := by
  cases k <;> cases x <;> simp [asByte, entryV, pairV]
theorem asItem_entryV (k x : V) : asItem (entryV k x) = none := by
  cases k <;> simp [asItem, entryV, pairV]

theorem asChar_charV (i : Int) (c : Nat) (h : (c : Int) ≤ maxRune) : asChar (charV i c) = some (i, c) :=
  (asChar_eq_some _ _ _).2 ⟨rfl, h⟩
theorem asByte_byteV (i : Int) (b : Nat) (h : (b : Int) ≤ 255) : asByte (byteV i b) = some (i, b) :=
  (asByte_eq_some _ _ _).2 ⟨rfl, h⟩
theorem asItem_itemV (i : Int) (x : V) : asItem (itemV i x) = some (i, x) := (asItem_eq_some _ _ _).2 rfl
theorem asEntry_entryV (k x : V) : asEntry (entryV k x) = some (k, x) := (asEntry_eq_some _ _ _).2 rfl

/-! ## buckets -/

theorem bucketOf_charV (i : Int) (c : Nat) (h : (c : Int) ≤ maxRune) : bucketOf (charV i c) = .strChar := by
  have := asChar_charV i c h
  simp [bucketOf, charV, pairV] at *
  simp [this]

theorem bucketOf_byteV (i : Int) (b : Nat) (h : (b : Int) ≤ 255) : bucketOf (byteV i b) = .bytesByte := by
  have h1 := asByte_byteV i b h
  have h2 := asChar_byteV i b
  simp [bucketOf, byteV, pairV] at *
  simp [h1, h2]

theorem bucketOf_itemV (i : Int) (x : V) : bucketOf (itemV i x) = .arrItem := by
  have h1 := asItem_itemV i x
  have h2 := asChar_itemV i x
  have h3 := asByte_itemV i x
  simp [bucketOf, itemV, pairV] at *
  simp [h1, h2, h3]

theorem bucketOf_entryV (k x : V) : bucketOf (entryV k x) = .dictEntry := by
  have h1 := asEntry_entryV k x
  have h2 := asChar_entryV k x
  have h3 := asByte_entryV k x
  have h4 := asItem_entryV k x
  simp [bucketOf, entryV, pairV] at *
  simp [h1, h2, h3, h4]

theorem asByte_none_of_asChar {v : V} {p : Int × Nat} (h : asChar v = some p) : asByte v = none := by
  obtain ⟨i, c⟩ := p; rw [((asChar_eq_some v i c).1 h).1]; exact asByte_charV i c
theorem asItem_none_of_asChar {v : V} {p : Int × Nat} (h : asChar v = some p) : asItem v = none := by
  obtain ⟨i, c⟩ := p; rw [((asChar_eq_some v i c).1 h).1]; exact asItem_charV i c
theorem asEntry_none_of_asChar {v : V} {p : Int × Nat} (h : asChar v = some p) : asEntry v = none := by
  obtain ⟨i, c⟩ := p; rw [((asChar_eq_some v i c).1 h).1]; exact asEntry_charV i c
theorem asChar_none_of_asByte {v : V} {p : Int × Nat} (h : asByte v = some p) : asChar v = none := by
  obtain ⟨i, c⟩ := p; rw [((asByte_eq_some v i c).1 h).1]; exact asChar_byteV i c
theorem asChar_none_of_asItem {v : V} {p : Int × V} (h : asItem v = some p) : asChar v = none := by
  obtain ⟨i, c⟩ := p; rw [(asItem_eq_some v i c).1 h]; exact asChar_itemV i c
theorem asByte_none_of_asItem {v : V} {p : Int × V} (h : asItem v = some p) : asByte v = none := by
  obtain ⟨i, c⟩ := p; rw [(asItem_eq_some v i c).1 h]; exact asByte_itemV i c
theorem asChar_none_of_asEntry {v : V} {p : V × V} (h : asEntry v = some p) : asChar v = none := by
  obtain ⟨i, c⟩ := p; rw [(asEntry_eq_some v i c).1 h]; exact asChar_entryV i c
theorem asByte_none_of_asEntry {v : V} {p : V × V} (h : asEntry v = some p) : asByte v = none := by
  obtain ⟨i, c⟩ := p; rw [(asEntry_eq_some v i c).1 h]; exact asByte_entryV i c
theorem asItem_none_of_asEntry {v : V} {p : V × V} (h : asEntry v = some p) : asItem v = none := by
  obtain ⟨i, c⟩ := p; rw [(asEntry_eq_some v i c).1 h]; exact asItem_entryV i c

theorem bucketOf_strChar_iff (v : V) : bucketOf v = .strChar ↔ (asChar v).isSome = true := by
  constructor
  · intro h
    unfold bucketOf at h
    split at h
    · cases h
    · cases h
    · cases h
    · split at h
      · assumption
      · split at h
        · cases h
        · split at h
          · cases h
          · split at h <;> cases h
  · intro h
    obtain ⟨⟨i, c⟩, hp⟩ := Option.isSome_iff_exists.1 h
    obtain ⟨rfl, hc⟩ := (asChar_eq_some v i c).1 hp
    exact bucketOf_charV i c hc

theorem bucketOf_bytesByte_iff (v : V) : bucketOf v = .bytesByte ↔ (asByte v).isSome = true := by
  constructor
  · intro h
    unfold bucketOf at h
    split at h
    · cases h
    · cases h
    · cases h
    · split at h
      · cases h
      · split at h
        · assumption
        · split at h
          · cases h
          · split at h <;> cases h
  · intro h
    obtain ⟨⟨i, c⟩, hp⟩ := Option.isSome_iff_exists.1 h
    obtain ⟨rfl, hc⟩ := (asByte_eq_some v i c).1 hp
    exact bucketOf_byteV i c hc

theorem bucketOf_arrItem_iff (v : V) : bucketOf v = .arrItem ↔ (asItem v).isSome = true := by
  constructor
  · intro h
    unfold bucketOf at h
    split at h
    · cases h
    · cases h
    · cases h
    · split at h
      · cases h
      · split at h
        · cases h
        · split at h
          · assumption
          · split at h <;> cases h
  · intro h
    obtain ⟨⟨i, c⟩, hp⟩ := Option.isSome_iff_exists.1 h
    rw [(asItem_eq_some v i c).1 hp]
    exact bucketOf_itemV i c

theorem bucketOf_dictEntry_iff (v : V) : bucketOf v = .dictEntry ↔ (asEntry v).isSome = true := by
  constructor
  · intro h
    unfold bucketOf at h
    split at h
    · cases h
    · cases h
    · cases h
    · split at h
      · cases h
      · split at h
        · cases h
        · split at h
          · cases h
          · split at h
            · assumption
            · cases h
  · intro h
    obtain ⟨⟨i, c⟩, hp⟩ := Option.isSome_iff_exists.1 h
    rw [(asEntry_eq_some v i c).1 hp]
    exact bucketOf_entryV i c

/-- a value in a relation bucket is a tuple with exactly these names and none of the four sugar shapes -/
theorem bucketOf_rel {v : V} {names : List String} (h : bucketOf v = .rel names) :
    ∃ as, v = .tup as ∧ as.map (·.1) = names := by
  unfold bucketOf at h
  split at h
  · cases h
  · cases h
  · cases h
  · rename_i as _
    split at h
    · cases h
    · split at h
      · cases h
      · split at h
        · cases h
        · split at h
          · cases h
          · simp only [Bucket.rel.injEq] at h
            exact ⟨as, rfl, h⟩

theorem bucketOf_num (n : Int) : bucketOf (.num n) = .generic := rfl
theorem bucketOf_set (xs : List V) : bucketOf (.set xs) = .generic := rfl
theorem bucketOf_unit : bucketOf (.tup []) = .generic := rfl

/-! ## well-formedness of the representations -/

def DVal.WF : DVal → Prop
  | .one _ => True
  | .many vs => Sorted vs ∧ 2 ≤ vs.length

/-- the invariant the Go constructors establish (leading/trailing holes are allowed: that is C02) -/
def Plain.WF : Plain → Prop
  | .empty => True
  | .true_ => True
  | .generic xs => Sorted xs ∧ xs ≠ [] ∧ xs ≠ [.tup []] ∧ ∀ x, x ∈ xs → bucketOf x = .generic
  | .str s _ holes => holes = kholes s ∧ 0 < kcount s ∧ ∀ c, some c ∈ s → (c : Int) ≤ maxRune
  | .bytes b _ => b ≠ [] ∧ ∀ x, x ∈ b → (x : Int) ≤ 255
  | .arr vs _ count => count = kcount vs
  | .dict m => m ≠ [] ∧ (m.map (·.1)).Nodup ∧ ∀ kd, kd ∈ m → kd.2.WF
  | .rel names rows => Sorted rows ∧ rows ≠ [] ∧ ∀ r, r ∈ rows → bucketOf r = .rel names

theorem kget_mem {α : Type} {vs : List (Option α)} {n : Nat} {x : α} (h : kget vs n = some x) : some x ∈ vs := by
  unfold kget at h
  cases hv : vs[n]? with
  | none => simp [hv] at h
  | some o =>
    rw [hv] at h
    simp at h
    subst h
    exact List.mem_of_getElem? hv

theorem kget_map_some (b : List Nat) (n : Nat) : kget (b.map some) n = b[n]? := by
  simp [kget]
  cases b[n]? <;> simp

theorem charV_inj {i j : Int} {c d : Nat} (h : charV i c = charV j d) : i = j ∧ c = d := by
  simp [charV, pairV] at h; omega
theorem byteV_inj {i j : Int} {c d : Nat} (h : byteV i c = byteV j d) : i = j ∧ c = d := by
  simp [byteV, pairV] at h; omega
theorem itemV_inj {i j : Int} {x y : V} (h : itemV i x = itemV j y) : i = j ∧ x = y := by
  simpa [itemV, pairV] using h
theorem entryV_inj {k l x y : V} (h : entryV k x = entryV l y) : k = l ∧ x = y := by
  simpa [entryV, pairV] using h

/-! ### members of the keyed sequences -/

theorem mem_str_members (s : List (Option Nat)) (off : Int) (holes : Nat) (v : V) :
    v ∈ (Plain.str s off holes).members ↔ ∃ i c, v = charV i c ∧ off ≤ i ∧ kget s (i - off).toNat = some c := by
  simp only [Plain.members, List.mem_map]
  constructor
  · rintro ⟨⟨i, c⟩, hp, rfl⟩
    exact ⟨i, c, rfl, (mem_kden s off i c).1 hp⟩
  · rintro ⟨i, c, rfl, h⟩
    exact ⟨(i, c), (mem_kden s off i c).2 h, rfl⟩

theorem mem_bytes_members (b : List Nat) (off : Int) (v : V) :
    v ∈ (Plain.bytes b off).members ↔ ∃ i x, v = byteV i x ∧ off ≤ i ∧ b[(i - off).toNat]? = some x := by
  simp only [Plain.members, List.mem_map]
  constructor
  · rintro ⟨⟨i, c⟩, hp, rfl⟩
    have := (mem_kden _ off i c).1 hp
    rw [kget_map_some] at this
    exact ⟨i, c, rfl, this⟩
  · rintro ⟨i, c, rfl, h⟩
    refine ⟨(i, c), (mem_kden _ off i c).2 ?_, rfl⟩
    rw [kget_map_some]; exact h

theorem mem_arr_members (vs : List (Option V)) (off : Int) (count : Nat) (v : V) :
    v ∈ (Plain.arr vs off count).members ↔ ∃ i x, v = itemV i x ∧ off ≤ i ∧ kget vs (i - off).toNat = some x := by
  simp only [Plain.members, List.mem_map]
  constructor
  · rintro ⟨⟨i, c⟩, hp, rfl⟩
    exact ⟨i, c, rfl, (mem_kden vs off i c).1 hp⟩
  · rintro ⟨i, c, rfl, h⟩
    exact ⟨(i, c), (mem_kden vs off i c).2 h, rfl⟩

theorem nodup_map_kden {α : Type} (f : Int × α → V) (vs : List (Option α)) (off : Int)
    (hinj : ∀ p q : Int × α, f p = f q → p.1 = q.1) : ((kden vs off).map f).Nodup := by
  unfold List.Nodup
  rw [List.pairwise_map]
  exact (kden_pairwise vs off).imp (fun {p q} hlt he => by
    have := hinj p q he
    omega)

/-! ### association lists -/
namespace AL
variable {κ β : Type} [DecidableEq κ]

theorem get_eq_some_of_mem (m : List (κ × β)) (hn : (m.map (·.1)).Nodup) (k : κ) (d : β) :
    get k m = some d ↔ (k, d) ∈ m := by
  induction m with
  | nil => simp [get]
  | cons p r ih =>
    obtain ⟨k', d'⟩ := p
    simp only [List.map_cons, List.nodup_cons] at hn
    simp only [get]
    by_cases hk : k' = k
    · subst hk
      simp only [if_true, Option.some.injEq, List.mem_cons, Prod.mk.injEq, true_and]
      constructor
      · intro h; exact Or.inl h.symm
      · rintro (h | h)
        · exact h.symm
        · exact absurd (List.mem_map.2 ⟨(k', d), h, rfl⟩) hn.1
    · simp only [hk, if_false, List.mem_cons, Prod.mk.injEq]
      rw [ih hn.2]
      constructor
      · intro h; exact Or.inr h
      · rintro (⟨h, _⟩ | h)
        · exact absurd h.symm hk
        · exact h

theorem get_eq_none_iff (m : List (κ × β)) (k : κ) : get k m = none ↔ k ∉ m.map (·.1) := by
  induction m with
  | nil => simp [get]
  | cons p r ih =>
    obtain ⟨k', d'⟩ := p
    simp only [get, List.map_cons, List.mem_cons]
    by_cases hk : k' = k
    · subst hk; simp
    · simp only [hk, if_false, ih]
      constructor
      · intro h hc
        rcases hc with hc | hc
        · exact hk hc.symm
        · exact h hc
      · intro h hc; exact h (Or.inr hc)

theorem mem_put (m : List (κ × β)) (k : κ) (v : β) (hn : (m.map (·.1)).Nodup) (p : κ × β) :
    p ∈ put k v m ↔ p = (k, v) ∨ (p ∈ m ∧ p.1 ≠ k) := by
  induction m with
  | nil => simp [put]
  | cons q r ih =>
    obtain ⟨k', v'⟩ := q
    simp only [List.map_cons, List.nodup_cons] at hn
    simp only [put]
    by_cases hk : k' = k
    · subst hk
      simp only [if_true, List.mem_cons]
      constructor
      · rintro (h | h)
        · exact Or.inl h
        · refine Or.inr ⟨Or.inr h, ?_⟩
          intro hc
          exact hn.1 (List.mem_map.2 ⟨p, h, hc⟩)
      · rintro (h | ⟨h | h, hne⟩)
        · exact Or.inl h
        · subst h; exact absurd rfl hne
        · exact Or.inr h
    · simp only [hk, if_false, List.mem_cons, ih hn.2]
      constructor
      · rintro (h | h | ⟨h, hne⟩)
        · subst h; exact Or.inr ⟨Or.inl rfl, hk⟩
        · exact Or.inl h
        · exact Or.inr ⟨Or.inr h, hne⟩
      · rintro (h | ⟨h | h, hne⟩)
        · exact Or.inr (Or.inl h)
        · exact Or.inl h
        · exact Or.inr (Or.inr ⟨h, hne⟩)

theorem keys_put (m : List (κ × β)) (k : κ) (v : β) (x : κ) :
    x ∈ (put k v m).map (·.1) ↔ x = k ∨ x ∈ m.map (·.1) := by
  induction m with
  | nil => simp [put]
  | cons q r ih =>
    obtain ⟨k', v'⟩ := q
    simp only [put]
    by_cases hk : k' = k
    · subst hk; simp
    · simp only [hk, if_false, List.map_cons, List.mem_cons, ih]
      constructor
      · rintro (h | h | h)
        · exact Or.inr (Or.inl h)
        · exact Or.inl h
        · exact Or.inr (Or.inr h)
      · rintro (h | h | h)
        · exact Or.inr (Or.inl h)
        · exact Or.inl h
        · exact Or.inr (Or.inr h)

theorem nodup_put (m : List (κ × β)) (k : κ) (v : β) (hn : (m.map (·.1)).Nodup) :
    ((put k v m).map (·.1)).Nodup := by
  induction m with
  | nil => simp [put]
  | cons q r ih =>
    obtain ⟨k', v'⟩ := q
    simp only [List.map_cons, List.nodup_cons] at hn
    simp only [put]
    by_cases hk : k' = k
    · subst hk; simpa using hn
    · simp only [hk, if_false, List.map_cons, List.nodup_cons]
      refine ⟨?_, ih hn.2⟩
      intro hc
      rcases (keys_put r k v k').1 hc with h | h
      · exact hk h
      · exact hn.1 h

theorem mem_remove (m : List (κ × β)) (k : κ) (hn : (m.map (·.1)).Nodup) (p : κ × β) :
    p ∈ remove k m ↔ p ∈ m ∧ p.1 ≠ k := by
  induction m with
  | nil => simp [remove]
  | cons q r ih =>
    obtain ⟨k', v'⟩ := q
    simp only [List.map_cons, List.nodup_cons] at hn
    simp only [remove]
    by_cases hk : k' = k
    · subst hk
      simp only [if_true, List.mem_cons]
      constructor
      · intro h
        refine ⟨Or.inr h, ?_⟩
        intro hc
        exact hn.1 (List.mem_map.2 ⟨p, h, hc⟩)
      · rintro ⟨h | h, hne⟩
        · subst h; exact absurd rfl hne
        · exact h
    · simp only [hk, if_false, List.mem_cons, ih hn.2]
      constructor
      · rintro (h | ⟨h, hne⟩)
        · subst h; exact ⟨Or.inl rfl, hk⟩
        · exact ⟨Or.inr h, hne⟩
      · rintro ⟨h | h, hne⟩
        · exact Or.inl h
        · exact Or.inr ⟨h, hne⟩

theorem nodup_remove (m : List (κ × β)) (k : κ) (hn : (m.map (·.1)).Nodup) :
    ((remove k m).map (·.1)).Nodup := by
  induction m with
  | nil => simp [remove]
  | cons q r ih =>
    obtain ⟨k', v'⟩ := q
    simp only [List.map_cons, List.nodup_cons] at hn
    simp only [remove]
    by_cases hk : k' = k
    · subst hk; simpa using hn.2
    · simp only [hk, if_false, List.map_cons, List.nodup_cons]
      refine ⟨?_, ih hn.2⟩
      intro hc
      obtain ⟨p, hp, hpk⟩ := List.mem_map.1 hc
      have := ((mem_remove r k hn.2 p).1 hp).1
      exact hn.1 (List.mem_map.2 ⟨p, this, hpk⟩)

end AL

/-! ### Dict members -/

theorem mem_dictMembers (m : List (V × DVal)) (v : V) :
    v ∈ dictMembers m ↔ ∃ k d x, (k, d) ∈ m ∧ x ∈ d.vals ∧ v = entryV k x := by
  induction m with
  | nil => simp [dictMembers]
  | cons p r ih =>
    obtain ⟨k, d⟩ := p
    simp only [dictMembers, List.mem_append, List.mem_map, ih, List.mem_cons, Prod.mk.injEq]
    constructor
    · rintro (⟨x, hx, rfl⟩ | ⟨k', d', x, h, hx, rfl⟩)
      · exact ⟨k, d, x, Or.inl ⟨rfl, rfl⟩, hx, rfl⟩
      · exact ⟨k', d', x, Or.inr h, hx, rfl⟩
    · rintro ⟨k', d', x, (⟨rfl, rfl⟩ | h), hx, rfl⟩
      · exact Or.inl ⟨x, hx, rfl⟩
      · exact Or.inr ⟨k', d', x, h, hx, rfl⟩

theorem length_dictMembers (m : List (V × DVal)) : (dictMembers m).length = dictCount m := by
  induction m with
  | nil => rfl
  | cons p r ih =>
    obtain ⟨k, d⟩ := p
    cases d <;> simp [dictMembers, dictCount, DVal.vals, ih] <;> omega

theorem DVal.vals_nodup (d : DVal) (h : d.WF) : d.vals.Nodup := by
  cases d with
  | one v => simp [DVal.vals]
  | many vs => exact FinSet.sorted_nodup vs h.1

theorem nodup_dictMembers (m : List (V × DVal)) (hk : (m.map (·.1)).Nodup) (hd : ∀ kd, kd ∈ m → kd.2.WF) :
    (dictMembers m).Nodup := by
  induction m with
  | nil => simp [dictMembers]
  | cons p r ih =>
    obtain ⟨k, d⟩ := p
    simp only [List.map_cons, List.nodup_cons] at hk
    simp only [dictMembers]
    rw [List.nodup_append]
    refine ⟨?_, ih hk.2 (fun kd h => hd kd (List.mem_cons_of_mem _ h)), ?_⟩
    · have hv := DVal.vals_nodup d (hd (k, d) (by simp))
      unfold List.Nodup at hv ⊢
      rw [List.pairwise_map]
      exact hv.imp (fun {a b} hab he => hab (entryV_inj he).2)
    · intro a ha b hb hab
      subst hab
      obtain ⟨x, _, rfl⟩ := List.mem_map.1 ha
      obtain ⟨k', d', x', hm, _, he⟩ := (mem_dictMembers r _).1 hb
      have := (entryV_inj he).1
      subst this
      exact hk.1 (List.mem_map.2 ⟨(k, d'), hm, rfl⟩)

/-! ## the interface contract: members / bucket / has / count -/

theorem Plain.members_bucket (p : Plain) (h : p.WF) : ∀ x, x ∈ p.members → bucketOf x = p.bucket := by
  intro x hx
  cases p with
  | empty => cases hx
  | true_ =>
    simp only [Plain.members, List.mem_singleton] at hx
    subst hx; rfl
  | generic xs => exact h.2.2.2 x hx
  | str s off holes =>
    obtain ⟨i, c, rfl, _, hg⟩ := (mem_str_members s off holes x).1 hx
    exact bucketOf_charV i c (h.2.2 c (kget_mem hg))
  | bytes b off =>
    obtain ⟨i, c, rfl, _, hg⟩ := (mem_bytes_members b off x).1 hx
    exact bucketOf_byteV i c (h.2 c (List.mem_of_getElem? hg))
  | arr vs off count =>
    obtain ⟨i, c, rfl, _, _⟩ := (mem_arr_members vs off count x).1 hx
    exact bucketOf_itemV i c
  | dict m =>
    obtain ⟨k, d, y, _, _, rfl⟩ := (mem_dictMembers m x).1 hx
    exact bucketOf_entryV k y
  | rel names rows => exact h.2.2 x hx

theorem Plain.members_nodup (p : Plain) (h : p.WF) : p.members.Nodup := by
  cases p with
  | empty => simp [Plain.members]
  | true_ => simp [Plain.members]
  | generic xs => exact FinSet.sorted_nodup xs h.1
  | str s off holes => exact nodup_map_kden _ s off (fun p q he => (charV_inj he).1)
  | bytes b off => exact nodup_map_kden _ _ off (fun p q he => (byteV_inj he).1)
  | arr vs off count => exact nodup_map_kden _ vs off (fun p q he => (itemV_inj he).1)
  | dict m => exact nodup_dictMembers m h.2.1 h.2.2
  | rel names rows => exact FinSet.sorted_nodup rows h.1

theorem Plain.count_eq (p : Plain) (h : p.WF) : p.count = p.members.length := by
  cases p with
  | empty => rfl
  | true_ => rfl
  | generic xs => rfl
  | str s off holes =>
    simp only [Plain.count, Plain.members, List.length_map, length_kden, strCount]
    have := kcount_add_kholes s
    rw [h.1]; omega
  | bytes b off =>
    simp only [Plain.count, Plain.members, List.length_map, length_kden]
    induction b with
    | nil => rfl
    | cons x r ih => simp [kcount]; exact (by
        have : ∀ l : List Nat, kcount (l.map some) = l.length := by
          intro l; induction l with
          | nil => rfl
          | cons y t iht => simp [kcount, iht]
        exact (this r).symm)
  | arr vs off count =>
    simp only [Plain.count, Plain.members, List.length_map, length_kden]
    exact h
  | dict m => simp only [Plain.count, Plain.members, length_dictMembers]
  | rel names rows => rfl

theorem Plain.has_iff (p : Plain) (h : p.WF) (v : V) : p.has v = true ↔ v ∈ p.members := by
  cases p with
  | empty => simp [Plain.has, Plain.members]
  | true_ => simp [Plain.has, Plain.members]
  | generic xs => simp [Plain.has, Plain.members]
  | str s off holes =>
    rw [mem_str_members]
    simp only [Plain.has, strHas]
    cases hc : asChar v with
    | none =>
      simp only [Bool.false_eq_true, false_iff]
      rintro ⟨i, c, rfl, _, hg⟩
      rw [asChar_charV i c (h.2.2 c (kget_mem hg))] at hc
      cases hc
    | some p =>
      obtain ⟨i, c⟩ := p
      obtain ⟨rfl, _⟩ := (asChar_eq_some v i c).1 hc
      simp only
      constructor
      · intro hh
        split at hh
        · rename_i hr
          exact ⟨i, c, rfl, hr.1, by simpa using hh⟩
        · cases hh
      · rintro ⟨j, d, he, hle, hg⟩
        obtain ⟨rfl, rfl⟩ := charV_inj he
        have hlt := kget_some_lt hg
        have : off ≤ i ∧ i < off + ↑s.length := ⟨hle, by omega⟩
        simp [this, hg]
  | bytes b off =>
    rw [mem_bytes_members]
    simp only [Plain.has, bytesHas]
    cases hc : asByte v with
    | none =>
      simp only [Bool.false_eq_true, false_iff]
      rintro ⟨i, c, rfl, _, hg⟩
      rw [asByte_byteV i c (h.2 c (List.mem_of_getElem? hg))] at hc
      cases hc
    | some p =>
      obtain ⟨i, c⟩ := p
      obtain ⟨rfl, _⟩ := (asByte_eq_some v i c).1 hc
      simp only
      constructor
      · intro hh
        split at hh
        · rename_i hr
          exact ⟨i, c, rfl, hr.1, by simpa using hh⟩
        · cases hh
      · rintro ⟨j, d, he, hle, hg⟩
        obtain ⟨rfl, rfl⟩ := byteV_inj he
        have hlt : (i - off).toNat < b.length := by
          apply Classical.byContradiction
          intro hn
          rw [List.getElem?_eq_none (by omega)] at hg
          cases hg
        have : off ≤ i ∧ i < off + ↑b.length := ⟨hle, by omega⟩
        simp [this, hg]
  | arr vs off count =>
    rw [mem_arr_members]
    simp only [Plain.has, arrHas]
    cases hc : asItem v with
    | none =>
      simp only [Bool.false_eq_true, false_iff]
      rintro ⟨i, c, rfl, _, _⟩
      rw [asItem_itemV i c] at hc
      cases hc
    | some p =>
      obtain ⟨i, c⟩ := p
      have := (asItem_eq_some v i c).1 hc
      subst this
      simp only
      constructor
      · intro hh
        split at hh
        · rename_i hr
          exact ⟨i, c, rfl, hr.1, by simpa using hh⟩
        · cases hh
      · rintro ⟨j, d, he, hle, hg⟩
        obtain ⟨rfl, rfl⟩ := itemV_inj he
        have hlt := kget_some_lt hg
        have : off ≤ i ∧ i < off + ↑vs.length := ⟨hle, by omega⟩
        simp [this, hg]
  | dict m =>
    simp only [Plain.has, Plain.members, dictHas, mem_dictMembers]
    cases hc : asEntry v with
    | none =>
      simp only [Bool.false_eq_true, false_iff]
      rintro ⟨k, d, x, _, _, rfl⟩
      rw [asEntry_entryV] at hc
      cases hc
    | some p =>
      obtain ⟨k, x⟩ := p
      have := (asEntry_eq_some v k x).1 hc
      subst this
      simp only
      cases hg : AL.get k m with
      | none =>
        simp only [Bool.false_eq_true, false_iff]
        rintro ⟨k', d, x', hm, _, he⟩
        obtain ⟨rfl, rfl⟩ := entryV_inj he
        exact (AL.get_eq_none_iff m k).1 hg (List.mem_map.2 ⟨(k, d), hm, rfl⟩)
      | some d =>
        have hm := (AL.get_eq_some_of_mem m h.2.1 k d).1 hg
        cases d with
        | one w =>
          simp only [decide_eq_true_eq]
          constructor
          · rintro rfl
            exact ⟨k, .one x, x, hm, by simp [DVal.vals], rfl⟩
          · rintro ⟨k', d', x', hm', hx', he⟩
            obtain ⟨rfl, rfl⟩ := entryV_inj he
            have := (AL.get_eq_some_of_mem m h.2.1 k d').2 hm'
            rw [hg] at this
            simp only [Option.some.injEq] at this
            subst this
            simpa [DVal.vals] using hx'
        | many vs =>
          simp only [decide_eq_true_eq]
          constructor
          · intro hx
            exact ⟨k, .many vs, x, hm, hx, rfl⟩
          · rintro ⟨k', d', x', hm', hx', he⟩
            obtain ⟨rfl, rfl⟩ := entryV_inj he
            have := (AL.get_eq_some_of_mem m h.2.1 k d').2 hm'
            rw [hg] at this
            simp only [Option.some.injEq] at this
            subst this
            exact hx'
  | rel names rows =>
    simp only [Plain.has, Plain.members]
    cases v with
    | num n =>
      simp only [Bool.false_eq_true, false_iff]
      intro hm
      have := h.2.2 _ hm
      simp [bucketOf] at this
    | set xs =>
      simp only [Bool.false_eq_true, false_iff]
      intro hm
      have := h.2.2 _ hm
      simp [bucketOf] at this
    | tup as =>
      simp only [Bool.and_eq_true, decide_eq_true_eq]
      constructor
      · exact fun hh => hh.2
      · intro hm
        obtain ⟨as', he, hn⟩ := bucketOf_rel (h.2.2 _ hm)
        simp only [V.tup.injEq] at he
        subst he
        exact ⟨hn, hm⟩

theorem Plain.isTrue_iff (p : Plain) (h : p.WF) : p.isTrue = true ↔ p.members ≠ [] := by
  cases p with
  | empty => simp [Plain.isTrue, Plain.members]
  | true_ => simp [Plain.isTrue, Plain.members]
  | generic xs => simp [Plain.isTrue, Plain.members]
  | str s off holes =>
    simp only [Plain.isTrue, Plain.members, true_iff]
    intro hc
    have := congrArg List.length hc
    simp only [List.length_map, length_kden, List.length_nil] at this
    have := h.2.1
    omega
  | bytes b off =>
    simp only [Plain.isTrue, true_iff]
    intro hc
    have h1 := Plain.count_eq (.bytes b off) h
    rw [hc] at h1
    simp only [Plain.count, List.length_nil] at h1
    exact h.1 (List.eq_nil_of_length_eq_zero h1)
  | arr vs off count =>
    simp only [Plain.isTrue, decide_eq_true_eq]
    have h1 := Plain.count_eq (.arr vs off count) h
    simp only [Plain.count, Plain.members] at h1 ⊢
    rw [h1]
    constructor
    · intro hp hc; rw [hc] at hp; simp at hp
    · intro hne
      cases hm : (kden vs off).map (fun p => itemV p.1 p.2) with
      | nil => exact absurd hm hne
      | cons a r => simp
  | dict m =>
    simp only [Plain.isTrue, Plain.members]
    have hne := h.1
    cases m with
    | nil => exact absurd rfl hne
    | cons p r =>
      obtain ⟨k, d⟩ := p
      simp only [List.isEmpty_cons, Bool.not_false, true_iff, dictMembers]
      intro hc
      cases d with
      | one v => simp [DVal.vals] at hc
      | many vs =>
        have hw := h.2.2 (k, .many vs) (by simp)
        simp only [DVal.WF] at hw
        have hv : vs = [] := by simpa [DVal.vals] using (List.append_eq_nil_iff.1 hc).1
        rw [hv] at hw
        simp at hw
  | rel names rows => simp [Plain.isTrue, Plain.members]

/-! ## building blocks: `fromFrozen`, the pair extractors, `asString`/`asBytes`/`asArray` -/

theorem fromFrozen_members (xs : List V) : (fromFrozen xs).members = xs := by
  unfold fromFrozen
  split
  · rfl
  · split
    · rename_i x h; subst h; rfl
    · rfl
  · rfl

theorem fromFrozen_wf (xs : List V) (hs : Sorted xs) (hb : ∀ x, x ∈ xs → bucketOf x = .generic) :
    (fromFrozen xs).WF := by
  unfold fromFrozen
  split
  · trivial
  · split
    · trivial
    · rename_i x hx
      refine ⟨hs, by simp, ?_, hb⟩
      intro hc
      simp only [List.cons.injEq, and_true] at hc
      exact hx hc
  · rename_i h1 h2
    refine ⟨hs, ?_, ?_, hb⟩
    · intro hc; exact h1 hc
    · intro hc; exact h2 _ hc

theorem fromFrozen_bucket (xs : List V) : (fromFrozen xs).bucket = .generic := by
  unfold fromFrozen
  split
  · rfl
  · split <;> rfl
  · rfl

theorem mem_charPairs (l : List V) (i : Int) (c : Nat) :
    (i, c) ∈ charPairs l ↔ charV i c ∈ l ∧ (c : Int) ≤ maxRune := by
  induction l with
  | nil => simp [charPairs]
  | cons v r ih =>
    simp only [charPairs]
    cases hv : asChar v with
    | none =>
      simp only [ih, List.mem_cons]
      constructor
      · rintro ⟨h1, h2⟩; exact ⟨Or.inr h1, h2⟩
      · rintro ⟨h1 | h1, h2⟩
        · rw [← h1, asChar_charV i c h2] at hv; cases hv
        · exact ⟨h1, h2⟩
    | some p =>
      obtain ⟨j, d⟩ := p
      obtain ⟨rfl, hd⟩ := (asChar_eq_some v j d).1 hv
      simp only [List.mem_cons, ih, Prod.mk.injEq]
      constructor
      · rintro (⟨rfl, rfl⟩ | ⟨h1, h2⟩)
        · exact ⟨Or.inl rfl, hd⟩
        · exact ⟨Or.inr h1, h2⟩
      · rintro ⟨h1 | h1, h2⟩
        · exact Or.inl (charV_inj h1)
        · exact Or.inr ⟨h1, h2⟩

theorem mem_bytePairs (l : List V) (i : Int) (c : Nat) :
    (i, c) ∈ bytePairs l ↔ byteV i c ∈ l ∧ (c : Int) ≤ 255 := by
  induction l with
  | nil => simp [bytePairs]
  | cons v r ih =>
    simp only [bytePairs]
    cases hv : asByte v with
    | none =>
      simp only [ih, List.mem_cons]
      constructor
      · rintro ⟨h1, h2⟩; exact ⟨Or.inr h1, h2⟩
      · rintro ⟨h1 | h1, h2⟩
        · rw [← h1, asByte_byteV i c h2] at hv; cases hv
        · exact ⟨h1, h2⟩
    | some p =>
      obtain ⟨j, d⟩ := p
      obtain ⟨rfl, hd⟩ := (asByte_eq_some v j d).1 hv
      simp only [List.mem_cons, ih, Prod.mk.injEq]
      constructor
      · rintro (⟨rfl, rfl⟩ | ⟨h1, h2⟩)
        · exact ⟨Or.inl rfl, hd⟩
        · exact ⟨Or.inr h1, h2⟩
      · rintro ⟨h1 | h1, h2⟩
        · exact Or.inl (byteV_inj h1)
        · exact Or.inr ⟨h1, h2⟩

theorem mem_itemPairs (l : List V) (i : Int) (x : V) : (i, x) ∈ itemPairs l ↔ itemV i x ∈ l := by
  induction l with
  | nil => simp [itemPairs]
  | cons v r ih =>
    simp only [itemPairs]
    cases hv : asItem v with
    | none =>
      simp only [ih, List.mem_cons]
      constructor
      · intro h1; exact Or.inr h1
      · rintro (h1 | h1)
        · rw [← h1, asItem_itemV i x] at hv; cases hv
        · exact h1
    | some p =>
      obtain ⟨j, d⟩ := p
      have := (asItem_eq_some v j d).1 hv
      subst this
      simp only [List.mem_cons, ih, Prod.mk.injEq]
      constructor
      · rintro (⟨rfl, rfl⟩ | h1)
        · exact Or.inl rfl
        · exact Or.inr h1
      · rintro (h1 | h1)
        · exact Or.inl (itemV_inj h1)
        · exact Or.inr h1

theorem mem_of_kget_exists {α : Type} {l : List (Option α)} {x : α} (h : some x ∈ l) : ∃ n, kget l n = some x := by
  obtain ⟨n, hn, he⟩ := List.getElem_of_mem h
  refine ⟨n, ?_⟩
  simp [kget, List.getElem?_eq_getElem hn, he]

/-- every element of a built slice is one of the given pairs -/
theorem build_elem {α : Type} (ps : List (Int × α)) (hf : Functional ps) (x : α) (h : some x ∈ (build ps).1) :
    ∃ i, (i, x) ∈ ps := by
  obtain ⟨n, hn⟩ := mem_of_kget_exists h
  refine ⟨(build ps).2 + n, ?_⟩
  rw [← mem_kden_build ps hf, mem_kden]
  refine ⟨by omega, ?_⟩
  have : ((build ps).2 + ↑n - (build ps).2).toNat = n := by omega
  rw [this]; exact hn

/-- `asString` of a non-empty, non-superimposed list of char pairs -/
theorem asString_spec (ps : List (Int × Nat)) (hne : ps ≠ []) (hf : Functional ps)
    (hr : ∀ p, p ∈ ps → (p.2 : Int) ≤ maxRune) :
    (asString ps).WF ∧ ∀ v, v ∈ (asString ps).members ↔ ∃ i c, v = charV i c ∧ (i, c) ∈ ps := by
  constructor
  · refine ⟨rfl, ?_, ?_⟩
    · cases ps with
      | nil => exact absurd rfl hne
      | cons p r =>
        obtain ⟨i, c⟩ := p
        have := (mem_kden_build ((i, c) :: r) hf i c).2 (by simp)
        exact kcount_pos_of_get ((mem_kden _ _ _ _).1 this).2
    · intro c hc
      obtain ⟨i, hi⟩ := build_elem ps hf c hc
      exact hr _ hi
  · intro v
    simp only [asString, mem_str_members]
    constructor
    · rintro ⟨i, c, rfl, h⟩
      exact ⟨i, c, rfl, (mem_kden_build ps hf i c).1 ((mem_kden _ _ _ _).2 h)⟩
    · rintro ⟨i, c, rfl, h⟩
      exact ⟨i, c, rfl, (mem_kden _ _ _ _).1 ((mem_kden_build ps hf i c).2 h)⟩

/-- `asArray` -/
theorem asArray_spec (ps : List (Int × V)) (hf : Functional ps) :
    (asArray ps).WF ∧ ∀ v, v ∈ (asArray ps).members ↔ ∃ i x, v = itemV i x ∧ (i, x) ∈ ps := by
  constructor
  · rfl
  · intro v
    simp only [asArray, mem_arr_members]
    constructor
    · rintro ⟨i, c, rfl, h⟩
      exact ⟨i, c, rfl, (mem_kden_build ps hf i c).1 ((mem_kden _ _ _ _).2 h)⟩
    · rintro ⟨i, c, rfl, h⟩
      exact ⟨i, c, rfl, (mem_kden _ _ _ _).1 ((mem_kden_build ps hf i c).2 h)⟩

theorem kden_map_getD (l : List (Option Nat)) (off : Int) (h : ∀ n, n < l.length → ∃ x, kget l n = some x) :
    kden ((l.map (fun o => o.getD 0)).map some) off = kden l off := by
  induction l generalizing off with
  | nil => rfl
  | cons v r ih =>
    have h0 := h 0 (by simp)
    rw [kget_cons_zero] at h0
    obtain ⟨x, rfl⟩ := h0
    have hr : ∀ n, n < r.length → ∃ x, kget r n = some x := by
      intro n hn
      have := h (n + 1) (by simp; omega)
      rwa [kget_cons_succ] at this
    simp only [List.map_cons, Option.getD_some, kden]
    rw [ih (off + 1) hr]

/-- `asBytes` of a non-empty, non-superimposed, gap-free list of byte pairs -/
theorem asBytes_spec (ps : List (Int × Nat)) (hne : ps ≠ []) (hf : Functional ps)
    (hr : ∀ p, p ∈ ps → (p.2 : Int) ≤ 255) (hg : NoGap ps) :
    (asBytes ps).WF ∧ ∀ v, v ∈ (asBytes ps).members ↔ ∃ i c, v = byteV i c ∧ (i, c) ∈ ps := by
  have hg := build_full ps hf hg
  have hk : ∀ off, kden (((build ps).1.map (fun o => o.getD 0)).map some) off = kden (build ps).1 off :=
    fun off => kden_map_getD _ off hg
  constructor
  · show ((build ps).1.map (fun o => o.getD 0)) ≠ [] ∧
      ∀ x : Nat, x ∈ ((build ps).1.map (fun o => o.getD 0)) → (x : Int) ≤ 255
    refine ⟨?_, ?_⟩
    · cases ps with
      | nil => exact absurd rfl hne
      | cons p r =>
        intro hc
        have := build_ne_nil p r
        exact this (by simpa using hc)
    · intro x hx
      simp only [List.mem_map] at hx
      obtain ⟨o, ho, rfl⟩ := hx
      obtain ⟨n, hn, he⟩ := List.getElem_of_mem ho
      obtain ⟨y, hy⟩ := hg n hn
      have : o = some y := by
        simp only [kget, List.getElem?_eq_getElem hn, he] at hy
        cases o with
        | none => simp at hy
        | some z => simp at hy; rw [hy]
      subst this
      obtain ⟨i, hi⟩ := build_elem ps hf y ho
      exact hr _ hi
  · intro v
    simp only [asBytes, Plain.members, List.mem_map]
    rw [hk]
    constructor
    · rintro ⟨⟨i, c⟩, hp, rfl⟩
      exact ⟨i, c, rfl, (mem_kden_build ps hf i c).1 hp⟩
    · rintro ⟨i, c, rfl, h⟩
      exact ⟨(i, c), (mem_kden_build ps hf i c).2 h, rfl⟩

/-! ### Dict building blocks -/

theorem newMultipleValues_vals (vs : List V) : (newMultipleValues vs).vals = FinSet.mk vs := by
  unfold newMultipleValues
  split
  · rename_i v h; simp [DVal.vals, h]
  · rfl

theorem newMultipleValues_wf (vs : List V) (hne : vs ≠ []) : (newMultipleValues vs).WF := by
  unfold newMultipleValues
  split
  · trivial
  · rename_i h
    refine ⟨FinSet.sorted_mk vs, ?_⟩
    cases hm : FinSet.mk vs with
    | nil =>
      cases vs with
      | nil => exact absurd rfl hne
      | cons a r =>
        have : a ∈ FinSet.mk (a :: r) := (FinSet.mem_mk _ _).2 (by simp)
        rw [hm] at this; cases this
    | cons a r =>
      cases r with
      | nil => exact absurd hm (h a)
      | cons b t => simp

theorem mem_dictMembers_put (m : List (V × DVal)) (hn : (m.map (·.1)).Nodup) (k : V) (d : DVal) (v : V) :
    v ∈ dictMembers (AL.put k d m) ↔
      (∃ y, y ∈ d.vals ∧ v = entryV k y) ∨
      (∃ k' d' y, (k', d') ∈ m ∧ k' ≠ k ∧ y ∈ d'.vals ∧ v = entryV k' y) := by
  rw [mem_dictMembers]
  constructor
  · rintro ⟨k', d', y, hm, hy, rfl⟩
    rcases (AL.mem_put m k d hn (k', d')).1 hm with h | ⟨h, hne⟩
    · simp only [Prod.mk.injEq] at h
      obtain ⟨rfl, rfl⟩ := h
      exact Or.inl ⟨y, hy, rfl⟩
    · exact Or.inr ⟨k', d', y, h, hne, hy, rfl⟩
  · rintro (⟨y, hy, rfl⟩ | ⟨k', d', y, hm, hne, hy, rfl⟩)
    · exact ⟨k, d, y, (AL.mem_put m k d hn (k, d)).2 (Or.inl rfl), hy, rfl⟩
    · exact ⟨k', d', y, (AL.mem_put m k d hn (k', d')).2 (Or.inr ⟨hm, hne⟩), hy, rfl⟩

theorem mem_dictMembers_split (m : List (V × DVal)) (hn : (m.map (·.1)).Nodup) (k : V) (v : V) :
    v ∈ dictMembers m ↔
      (∃ d y, AL.get k m = some d ∧ y ∈ d.vals ∧ v = entryV k y) ∨
      (∃ k' d' y, (k', d') ∈ m ∧ k' ≠ k ∧ y ∈ d'.vals ∧ v = entryV k' y) := by
  rw [mem_dictMembers]
  constructor
  · rintro ⟨k', d', y, hm, hy, rfl⟩
    by_cases hk : k' = k
    · subst hk
      exact Or.inl ⟨d', y, (AL.get_eq_some_of_mem m hn k' d').2 hm, hy, rfl⟩
    · exact Or.inr ⟨k', d', y, hm, hk, hy, rfl⟩
  · rintro (⟨d, y, hg, hy, rfl⟩ | ⟨k', d', y, hm, _, hy, rfl⟩)
    · exact ⟨k, d, y, (AL.get_eq_some_of_mem m hn k d).1 hg, hy, rfl⟩
    · exact ⟨k', d', y, hm, hy, rfl⟩

def DictOK (m : List (V × DVal)) : Prop := (m.map (·.1)).Nodup ∧ ∀ kd, kd ∈ m → kd.2.WF

theorem DictOK.put {m : List (V × DVal)} (h : DictOK m) (k : V) (d : DVal) (hd : d.WF) : DictOK (AL.put k d m) := by
  refine ⟨AL.nodup_put m k d h.1, ?_⟩
  intro kd hkd
  rcases (AL.mem_put m k d h.1 kd).1 hkd with rfl | ⟨hm, _⟩
  · exact hd
  · exact h.2 kd hm

theorem dictAdd_spec (m : List (V × DVal)) (h : DictOK m) (k x : V) :
    DictOK (dictAdd m k x) ∧ dictAdd m k x ≠ [] ∧
    ∀ v, v ∈ dictMembers (dictAdd m k x) ↔ v = entryV k x ∨ v ∈ dictMembers m := by
  have hne : ∀ d, AL.put k d m ≠ [] := by
    intro d hc
    have : (k, d) ∈ AL.put k d m := (AL.mem_put m k d h.1 (k, d)).2 (Or.inl rfl)
    rw [hc] at this; cases this
  have aux : ∀ (v : V) (d0 : DVal), (∃ d y, some d0 = some d ∧ y ∈ d.vals ∧ v = entryV k y) ↔
      ∃ y, y ∈ d0.vals ∧ v = entryV k y := by
    intro v d0
    constructor
    · rintro ⟨d, y, hd, hy, hv⟩
      cases hd
      exact ⟨y, hy, hv⟩
    · rintro ⟨y, hy, hv⟩
      exact ⟨d0, y, rfl, hy, hv⟩
  unfold dictAdd
  cases hg : AL.get k m with
  | none =>
    refine ⟨h.put k _ trivial, hne _, ?_⟩
    intro v
    rw [mem_dictMembers_put m h.1, mem_dictMembers_split m h.1 k, hg]
    simp [DVal.vals]
  | some d =>
    cases d with
    | one u =>
      refine ⟨h.put k _ (newMultipleValues_wf _ (by simp)), hne _, ?_⟩
      intro v
      rw [mem_dictMembers_put m h.1, mem_dictMembers_split m h.1 k, hg, newMultipleValues_vals, aux]
      have hu : ∀ y, y ∈ (DVal.one u).vals ↔ y = u := by intro y; simp [DVal.vals]
      have hm : ∀ y, y ∈ FinSet.mk [u, x] ↔ y = u ∨ y = x := by intro y; simp [FinSet.mem_mk]
      constructor
      · rintro (⟨y, hy, rfl⟩ | hr)
        · rcases (hm y).1 hy with rfl | rfl
          · exact Or.inr (Or.inl ⟨y, (hu y).2 rfl, rfl⟩)
          · exact Or.inl rfl
        · exact Or.inr (Or.inr hr)
      · rintro (rfl | ⟨y, hy, rfl⟩ | hr)
        · exact Or.inl ⟨x, (hm x).2 (Or.inr rfl), rfl⟩
        · exact Or.inl ⟨y, (hm y).2 (Or.inl ((hu y).1 hy)), rfl⟩
        · exact Or.inr hr
    | many vs =>
      have hw : (DVal.many vs).WF := h.2 (k, .many vs) ((AL.get_eq_some_of_mem m h.1 k _).1 hg)
      have hw' : (DVal.many (FinSet.ins x vs)).WF := by
        refine ⟨FinSet.sorted_ins x vs hw.1, ?_⟩
        have := FinSet.card_ins x vs hw.1
        simp only [FinSet.card] at this
        have h2 := hw.2
        split at this <;> omega
      refine ⟨h.put k _ hw', hne _, ?_⟩
      intro v
      rw [mem_dictMembers_put m h.1, mem_dictMembers_split m h.1 k, hg, aux]
      have hu : ∀ y, y ∈ (DVal.many vs).vals ↔ y ∈ vs := by intro y; simp [DVal.vals]
      have hm : ∀ y, y ∈ (DVal.many (FinSet.ins x vs)).vals ↔ y = x ∨ y ∈ vs := by
        intro y; simp [DVal.vals, FinSet.mem_ins]
      constructor
      · rintro (⟨y, hy, rfl⟩ | hr)
        · rcases (hm y).1 hy with rfl | hy'
          · exact Or.inl rfl
          · exact Or.inr (Or.inl ⟨y, (hu y).2 hy', rfl⟩)
        · exact Or.inr (Or.inr hr)
      · rintro (rfl | ⟨y, hy, rfl⟩ | hr)
        · exact Or.inl ⟨x, (hm x).2 (Or.inl rfl), rfl⟩
        · exact Or.inl ⟨y, (hm y).2 (Or.inr ((hu y).1 hy)), rfl⟩
        · exact Or.inr hr

theorem dictAddAll_spec (vs : List V) (m : List (V × DVal)) (h : DictOK m) :
    DictOK (dictAddAll m vs) ∧
    (∀ v, v ∈ dictMembers (dictAddAll m vs) ↔ v ∈ dictMembers m ∨ (v ∈ vs ∧ (asEntry v).isSome = true)) ∧
    (m ≠ [] ∨ (∃ v, v ∈ vs ∧ (asEntry v).isSome = true) → dictAddAll m vs ≠ []) := by
  induction vs generalizing m with
  | nil => exact ⟨h, by simp [dictAddAll], by simp [dictAddAll]⟩
  | cons w r ih =>
    simp only [dictAddAll]
    cases hw : asEntry w with
    | none =>
      obtain ⟨h1, h2, h3⟩ := ih m h
      refine ⟨h1, ?_, ?_⟩
      · intro v
        rw [h2]
        constructor
        · rintro (hv | ⟨hv, he⟩)
          · exact Or.inl hv
          · exact Or.inr ⟨List.mem_cons_of_mem _ hv, he⟩
        · rintro (hv | ⟨hv, he⟩)
          · exact Or.inl hv
          · rcases List.mem_cons.1 hv with rfl | hv
            · rw [hw] at he; cases he
            · exact Or.inr ⟨hv, he⟩
      · rintro (hm | ⟨v, hv, he⟩)
        · exact h3 (Or.inl hm)
        · rcases List.mem_cons.1 hv with rfl | hv
          · rw [hw] at he; cases he
          · exact h3 (Or.inr ⟨v, hv, he⟩)
    | some p =>
      obtain ⟨k, x⟩ := p
      have hwe := (asEntry_eq_some w k x).1 hw
      subst hwe
      obtain ⟨a1, a2, a3⟩ := dictAdd_spec m h k x
      obtain ⟨h1, h2, h3⟩ := ih (dictAdd m k x) a1
      refine ⟨h1, ?_, fun _ => h3 (Or.inl a2)⟩
      intro v
      rw [h2, a3]
      constructor
      · rintro ((rfl | hv) | ⟨hv, he⟩)
        · exact Or.inr ⟨by simp, by rw [hw]; rfl⟩
        · exact Or.inl hv
        · exact Or.inr ⟨List.mem_cons_of_mem _ hv, he⟩
      · rintro (hv | ⟨hv, he⟩)
        · exact Or.inl (Or.inr hv)
        · rcases List.mem_cons.1 hv with rfl | hv
          · exact Or.inl (Or.inl rfl)
          · exact Or.inr ⟨hv, he⟩

/-- `NewDict(true, …)` over values that are all dict entries -/
theorem newDict_spec (vs : List V) (he : ∀ v, v ∈ vs → (asEntry v).isSome = true) :
    (newDict vs).WF ∧ ∀ v, v ∈ (newDict vs).members ↔ v ∈ vs := by
  cases vs with
  | nil => exact ⟨trivial, by simp [newDict, Plain.members]⟩
  | cons w r =>
    have hok : DictOK ([] : List (V × DVal)) := ⟨by simp, by simp⟩
    obtain ⟨h1, h2, h3⟩ := dictAddAll_spec (w :: r) [] hok
    refine ⟨⟨h3 (Or.inr ⟨w, by simp, he w (by simp)⟩), h1.1, h1.2⟩, ?_⟩
    intro v
    show v ∈ dictMembers _ ↔ _
    rw [h2]
    simp only [dictMembers, List.not_mem_nil, false_or]
    constructor
    · exact fun hh => hh.1
    · exact fun hh => ⟨hh, he v hh⟩

/-! ### Array.Where -/

theorem kget_arrKeep (f : V → Bool) (vs : List (Option V)) (off : Int) (n : Nat) (x : V) :
    kget (arrKeep f vs off) n = some x ↔ kget vs n = some x ∧ f (itemV (off + n) x) = true := by
  induction vs generalizing off n with
  | nil => simp [arrKeep, kget_nil]
  | cons v r ih =>
    cases v with
    | none =>
      cases n with
      | zero => simp [arrKeep, kget_cons_zero]
      | succ n =>
        simp only [arrKeep, kget_cons_succ, ih]
        have : off + 1 + (n : Int) = off + ((n + 1 : Nat) : Int) := by omega
        rw [this]
    | some y =>
      cases n with
      | zero =>
        simp only [arrKeep, kget_cons_zero, Int.natCast_zero, Int.add_zero]
        by_cases hf : f (itemV off y) = true
        · simp only [hf, if_true, Option.some.injEq]
          constructor
          · rintro rfl; exact ⟨rfl, hf⟩
          · exact fun h => h.1
        · simp only [hf, Bool.false_eq_true, if_false, reduceCtorEq, Option.some.injEq, false_iff]
          rintro ⟨rfl, h2⟩
          exact hf h2
      | succ n =>
        simp only [arrKeep, kget_cons_succ, ih]
        have : off + 1 + (n : Int) = off + ((n + 1 : Nat) : Int) := by omega
        rw [this]

theorem kcount_arrKeep_le (f : V → Bool) (vs : List (Option V)) (off : Int) :
    kcount (arrKeep f vs off) ≤ kcount vs := by
  induction vs generalizing off with
  | nil => simp [arrKeep]
  | cons v r ih =>
    cases v with
    | none => simpa [arrKeep, kcount] using ih (off + 1)
    | some y =>
      simp only [arrKeep, kcount]
      have := ih (off + 1)
      split <;> simp [kcount] <;> omega

theorem arrFilter_spec (vs : List (Option V)) (off : Int) (count : Nat) (hc : count = kcount vs) (f : V → Bool) :
    (arrFilter vs off count f).WF ∧
    ∀ v, v ∈ (arrFilter vs off count f).members ↔ v ∈ (Plain.arr vs off count).members ∧ f v = true := by
  have hle := kcount_arrKeep_le f vs off
  have hn : count - (kcount vs - kcount (arrKeep f vs off)) = kcount (arrKeep f vs off) := by omega
  have hmem : ∀ v, (∃ i x, v = itemV i x ∧ off ≤ i ∧ kget (arrKeep f vs off) (i - off).toNat = some x) ↔
      v ∈ (Plain.arr vs off count).members ∧ f v = true := by
    intro v
    rw [mem_arr_members]
    constructor
    · rintro ⟨i, x, rfl, hle, hg⟩
      obtain ⟨h1, h2⟩ := (kget_arrKeep f vs off _ x).1 hg
      have : off + ((i - off).toNat : Int) = i := by omega
      rw [this] at h2
      exact ⟨⟨i, x, rfl, hle, h1⟩, h2⟩
    · rintro ⟨⟨i, x, rfl, hle, hg⟩, hf⟩
      refine ⟨i, x, rfl, hle, (kget_arrKeep f vs off _ x).2 ⟨hg, ?_⟩⟩
      have : off + ((i - off).toNat : Int) = i := by omega
      rw [this]; exact hf
  unfold arrFilter
  simp only [hn]
  split
  · rename_i h0
    refine ⟨trivial, ?_⟩
    intro v
    rw [← hmem]
    simp only [Plain.members, List.not_mem_nil, false_iff]
    rintro ⟨i, x, _, _, hg⟩
    have := kcount_pos_of_get hg
    omega
  · refine ⟨?_, ?_⟩
    · show kcount (arrKeep f vs off) = kcount (trimBack (trimFront (arrKeep f vs off) off).1)
      rw [kcount_trimBack, kcount_trimFront]
    · intro v
      rw [← hmem]
      simp only [Plain.members, List.mem_map]
      rw [kden_trimBack, kden_trimFront]
      constructor
      · rintro ⟨⟨i, x⟩, hp, rfl⟩
        exact ⟨i, x, rfl, (mem_kden _ _ _ _).1 hp⟩
      · rintro ⟨i, x, rfl, h⟩
        exact ⟨(i, x), (mem_kden _ _ _ _).2 h, rfl⟩

/-! ## the interface contract: filter (`Where` with a total predicate) -/

/-- a filtered byte array must not have gaps (byte arrays cannot have holes: KF-bytes-holes) -/
def FilterAdm (p : Plain) (f : V → Bool) : Prop :=
  match p with
  | .bytes b off => NoGap (bytePairs ((Plain.bytes b off).members.filter f))
  | _ => True

theorem str_members_functional (s : List (Option Nat)) (off : Int) (holes : Nat) (l : List V)
    (hl : ∀ v, v ∈ l → v ∈ (Plain.str s off holes).members) : Functional (charPairs l) := by
  intro p q hp hq hpq
  obtain ⟨i, c⟩ := p
  obtain ⟨j, d⟩ := q
  simp only at hpq
  subst hpq
  obtain ⟨i1, c1, e1, _, g1⟩ := (mem_str_members s off holes _).1 (hl _ ((mem_charPairs l i c).1 hp).1)
  obtain ⟨i2, c2, e2, _, g2⟩ := (mem_str_members s off holes _).1 (hl _ ((mem_charPairs l i d).1 hq).1)
  obtain ⟨rfl, rfl⟩ := charV_inj e1
  obtain ⟨rfl, rfl⟩ := charV_inj e2
  rw [g1] at g2
  simpa using g2

theorem bytes_members_functional (b : List Nat) (off : Int) (l : List V)
    (hl : ∀ v, v ∈ l → v ∈ (Plain.bytes b off).members) : Functional (bytePairs l) := by
  intro p q hp hq hpq
  obtain ⟨i, c⟩ := p
  obtain ⟨j, d⟩ := q
  simp only at hpq
  subst hpq
  obtain ⟨i1, c1, e1, _, g1⟩ := (mem_bytes_members b off _).1 (hl _ ((mem_bytePairs l i c).1 hp).1)
  obtain ⟨i2, c2, e2, _, g2⟩ := (mem_bytes_members b off _).1 (hl _ ((mem_bytePairs l i d).1 hq).1)
  obtain ⟨rfl, rfl⟩ := byteV_inj e1
  obtain ⟨rfl, rfl⟩ := byteV_inj e2
  rw [g1] at g2
  simpa using g2

theorem Plain.filter_spec (p : Plain) (h : p.WF) (f : V → Bool) (ha : FilterAdm p f) :
    (p.filter f).WF ∧ (∀ v, v ∈ (p.filter f).members ↔ v ∈ p.members ∧ f v = true) ∧
    ((p.filter f).members ≠ [] → (p.filter f).bucket = p.bucket) := by
  cases p with
  | empty => exact ⟨trivial, by simp [Plain.filter, Plain.members], by simp [Plain.filter, Plain.members]⟩
  | true_ =>
    simp only [Plain.filter]
    by_cases hf : f (.tup []) = true
    · simp only [hf, if_true]
      refine ⟨trivial, ?_, fun _ => trivial⟩
      intro v
      simp only [Plain.members, List.mem_singleton]
      constructor
      · rintro rfl; exact ⟨rfl, hf⟩
      · exact fun hh => hh.1
    · simp only [hf, Bool.false_eq_true, if_false]
      refine ⟨trivial, ?_, by simp [Plain.members]⟩
      intro v; simp only [Plain.members, List.not_mem_nil, List.mem_singleton, false_iff]
      rintro ⟨rfl, h2⟩; exact hf h2
  | generic xs =>
    simp only [Plain.filter]
    refine ⟨fromFrozen_wf _ (FinSet.sorted_filter f xs h.1) ?_, ?_, fun _ => fromFrozen_bucket _⟩
    · intro x hx; exact h.2.2.2 x (List.mem_filter.1 hx).1
    · intro v; rw [fromFrozen_members]; simp [Plain.members]
  | str s off holes =>
    simp only [Plain.filter]
    cases hl : (Plain.str s off holes).members.filter f with
    | nil =>
      refine ⟨trivial, ?_, by simp [Plain.members]⟩
      intro v
      have : v ∉ (Plain.str s off holes).members.filter f := by rw [hl]; simp
      simp only [Plain.members, List.not_mem_nil, false_iff]
      intro hc; exact this (List.mem_filter.2 hc)
    | cons a r =>
      simp only
      rw [← hl]
      have hsub : ∀ v, v ∈ (Plain.str s off holes).members.filter f → v ∈ (Plain.str s off holes).members :=
        fun v hv => (List.mem_filter.1 hv).1
      have hrange : ∀ p, p ∈ charPairs ((Plain.str s off holes).members.filter f) → (p.2 : Int) ≤ maxRune := by
        rintro ⟨i, c⟩ hp; exact ((mem_charPairs _ i c).1 hp).2
      have hne : charPairs ((Plain.str s off holes).members.filter f) ≠ [] := by
        have ha' : a ∈ (Plain.str s off holes).members.filter f := by rw [hl]; simp
        obtain ⟨i, c, rfl, _, hg⟩ := (mem_str_members s off holes a).1 (hsub a ha')
        intro hc
        have : (i, c) ∈ charPairs ((Plain.str s off holes).members.filter f) :=
          (mem_charPairs _ i c).2 ⟨ha', h.2.2 c (kget_mem hg)⟩
        rw [hc] at this; cases this
      obtain ⟨w1, w2⟩ := asString_spec _ hne (str_members_functional s off holes _ hsub) hrange
      refine ⟨w1, ?_, fun _ => rfl⟩
      intro v
      rw [w2]
      constructor
      · rintro ⟨i, c, rfl, hp⟩
        exact List.mem_filter.1 ((mem_charPairs _ i c).1 hp).1
      · intro hv
        have hv' := List.mem_filter.2 hv
        obtain ⟨i, c, rfl, _, hg⟩ := (mem_str_members s off holes v).1 hv.1
        exact ⟨i, c, rfl, (mem_charPairs _ i c).2 ⟨hv', h.2.2 c (kget_mem hg)⟩⟩
  | bytes b off =>
    simp only [Plain.filter]
    simp only [FilterAdm] at ha
    cases hl : (Plain.bytes b off).members.filter f with
    | nil =>
      refine ⟨trivial, ?_, by simp [Plain.members]⟩
      intro v
      have : v ∉ (Plain.bytes b off).members.filter f := by rw [hl]; simp
      simp only [Plain.members, List.not_mem_nil, false_iff]
      intro hc; exact this (List.mem_filter.2 hc)
    | cons a r =>
      simp only
      rw [← hl]
      have hsub : ∀ v, v ∈ (Plain.bytes b off).members.filter f → v ∈ (Plain.bytes b off).members :=
        fun v hv => (List.mem_filter.1 hv).1
      have hrange : ∀ p, p ∈ bytePairs ((Plain.bytes b off).members.filter f) → (p.2 : Int) ≤ 255 := by
        rintro ⟨i, c⟩ hp; exact ((mem_bytePairs _ i c).1 hp).2
      have hne : bytePairs ((Plain.bytes b off).members.filter f) ≠ [] := by
        have ha' : a ∈ (Plain.bytes b off).members.filter f := by rw [hl]; simp
        obtain ⟨i, c, rfl, _, hg⟩ := (mem_bytes_members b off a).1 (hsub a ha')
        intro hc
        have : (i, c) ∈ bytePairs ((Plain.bytes b off).members.filter f) :=
          (mem_bytePairs _ i c).2 ⟨ha', h.2 c (List.mem_of_getElem? hg)⟩
        rw [hc] at this; cases this
      obtain ⟨w1, w2⟩ := asBytes_spec _ hne (bytes_members_functional b off _ hsub) hrange ha
      refine ⟨w1, ?_, fun _ => rfl⟩
      intro v
      rw [w2]
      constructor
      · rintro ⟨i, c, rfl, hp⟩
        exact List.mem_filter.1 ((mem_bytePairs _ i c).1 hp).1
      · intro hv
        have hv' := List.mem_filter.2 hv
        obtain ⟨i, c, rfl, _, hg⟩ := (mem_bytes_members b off v).1 hv.1
        exact ⟨i, c, rfl, (mem_bytePairs _ i c).2 ⟨hv', h.2 c (List.mem_of_getElem? hg)⟩⟩
  | arr vs off count =>
    simp only [Plain.filter]
    obtain ⟨w1, w2⟩ := arrFilter_spec vs off count h f
    refine ⟨w1, w2, ?_⟩
    intro hne
    unfold arrFilter at hne ⊢
    simp only at hne ⊢
    by_cases h0 : count - (kcount vs - kcount (arrKeep f vs off)) = 0
    · simp only [h0, if_true, Plain.members] at hne; exact absurd rfl hne
    · simp only [h0, if_false]; rfl
  | dict m =>
    simp only [Plain.filter]
    have he : ∀ v, v ∈ (Plain.dict m).members.filter f → (asEntry v).isSome = true := by
      intro v hv
      have := Plain.members_bucket (.dict m) h v (List.mem_filter.1 hv).1
      exact (bucketOf_dictEntry_iff v).1 this
    obtain ⟨w1, w2⟩ := newDict_spec _ he
    refine ⟨w1, ?_, ?_⟩
    · intro v; rw [w2]; simp
    · intro hne
      cases hl : (Plain.dict m).members.filter f with
      | nil => rw [hl] at hne; exact absurd rfl hne
      | cons a r => rfl
  | rel names rows =>
    simp only [Plain.filter, relBody]
    cases hl : rows.filter f with
    | nil =>
      simp only [List.isEmpty_nil, if_true]
      refine ⟨trivial, ?_, by simp [Plain.members]⟩
      intro v
      have : v ∉ rows.filter f := by rw [hl]; simp
      simp only [Plain.members, List.not_mem_nil, false_iff]
      intro hc; exact this (List.mem_filter.2 hc)
    | cons a r =>
      simp only [List.isEmpty_cons, Bool.false_eq_true, if_false]
      rw [← hl]
      refine ⟨⟨FinSet.sorted_filter f rows h.1, by rw [hl]; simp, ?_⟩, ?_, fun _ => rfl⟩
      · intro x hx; exact h.2.2 x (List.mem_filter.1 hx).1
      · intro v; simp [Plain.members]

/-! ## the interface contract: without -/

theorem seqIndex_eq {len : Nat} {off pos i : Int} (h : seqIndex len off pos = i) (hi : 0 ≤ i) :
    pos - off = i ∧ i ≤ len := by
  unfold seqIndex at h
  simp only at h
  split at h
  · rename_i hc; omega
  · omega

theorem seqIndex_of_range (len : Nat) (off pos : Int) (h0 : 0 ≤ pos - off) (h1 : pos - off ≤ len) :
    seqIndex len off pos = pos - off := by
  unfold seqIndex
  simp only
  split
  · rfl
  · rename_i hc; exact absurd ⟨h0, h1⟩ hc

theorem asChar_none_not_mem_str {s : List (Option Nat)} {off : Int} {holes : Nat}
    (h : (Plain.str s off holes).WF) {v : V} (hv : asChar v = none) : v ∉ (Plain.str s off holes).members := by
  intro hm
  have := Plain.members_bucket _ h v hm
  have := (bucketOf_strChar_iff v).1 this
  rw [hv] at this; cases this

theorem strWithoutCore_spec (s : List (Option Nat)) (off : Int) (holes : Nat)
    (h : (Plain.str s off holes).WF) (v : V) :
    (strWithoutCore s off holes v).2.2 = kholes (strWithoutCore s off holes v).1 ∧
    (∀ c, some c ∈ (strWithoutCore s off holes v).1 → (c : Int) ≤ maxRune) ∧
    ∀ j y, (j, y) ∈ kden (strWithoutCore s off holes v).1 (strWithoutCore s off holes v).2.1 ↔
      (j, y) ∈ kden s off ∧ charV j y ≠ v := by
  unfold strWithoutCore
  cases hc : asChar v with
  | none =>
    refine ⟨h.1, h.2.2, ?_⟩
    intro j y
    simp only
    constructor
    · intro hm
      refine ⟨hm, ?_⟩
      intro he
      apply asChar_none_not_mem_str h hc
      rw [← he]
      exact List.mem_map.2 ⟨(j, y), hm, rfl⟩
    · exact fun hh => hh.1
  | some p =>
    obtain ⟨ix, c⟩ := p
    obtain ⟨rfl, _⟩ := (asChar_eq_some v ix c).1 hc
    simp only
    have hne : ∀ j y, charV j y ≠ charV ix c ↔ ¬ (j = ix ∧ y = c) := by
      intro j y
      constructor
      · rintro h1 ⟨rfl, rfl⟩; exact h1 rfl
      · intro h1 he; exact h1 (charV_inj he)
    split
    · rename_i h1
      obtain ⟨hi, hg⟩ := h1
      have hix := (seqIndex_eq hi (by omega)).1
      have hoff : ix = off := by omega
      obtain ⟨c1, c2⟩ := counts_drop_one s c hg
      refine ⟨by simp only; rw [c1]; exact h.1, ?_, ?_⟩
      · intro d hd; exact h.2.2 d (List.mem_of_mem_drop hd)
      · intro j y
        rw [mem_kden_drop_one s off c hg, hne, hoff]
    · split
      · rename_i _ h2
        obtain ⟨hi, hg⟩ := h2
        have hlen := kget_some_lt hg
        have hix := (seqIndex_eq hi (by omega)).1
        obtain ⟨c1, c2⟩ := counts_drop_last s c hg
        refine ⟨by simp only; rw [c1]; exact h.1, ?_, ?_⟩
        · intro d hd; exact h.2.2 d (List.mem_of_mem_take hd)
        · intro j y
          rw [mem_kden_drop_last s off c hg, hne]
          have : ix = off + ((s.length - 1 : Nat) : Int) := by omega
          rw [this]
      · split
        · rename_i _ _ h3
          obtain ⟨hi0, hi1, hg⟩ := h3
          have hix := (seqIndex_eq (rfl : seqIndex s.length off ix = _) (by omega)).1
          obtain ⟨c1, c2⟩ := counts_eraseAt s _ c hg
          refine ⟨by simp only; rw [c1, h.1], ?_, ?_⟩
          · intro d hd
            unfold eraseAt at hd
            rcases List.mem_or_eq_of_mem_set hd with hd | hd
            · exact h.2.2 d hd
            · cases hd
          · intro j y
            rw [mem_kden_eraseAt s off _ c hg, hne]
            have : ix = off + (((seqIndex s.length off ix).toNat : Nat) : Int) := by omega
            rw [← this]
        · rename_i n1 n2 n3
          refine ⟨h.1, h.2.2, ?_⟩
          intro j y
          constructor
          · intro hm
            refine ⟨hm, ?_⟩
            intro he
            obtain ⟨rfl, rfl⟩ := charV_inj he
            obtain ⟨hle, hg⟩ := (mem_kden s off j y).1 hm
            have hlt := kget_some_lt hg
            have hidx := seqIndex_of_range s.length off j (by omega) (by omega)
            by_cases h0 : j - off = 0
            · apply n1
              rw [hidx]
              refine ⟨h0, ?_⟩
              have : (j - off).toNat = 0 := by omega
              rw [this] at hg; exact hg
            · by_cases hl : j - off = (s.length : Int) - 1
              · apply n2
                rw [hidx]
                refine ⟨hl, ?_⟩
                have : (j - off).toNat = s.length - 1 := by omega
                rw [this] at hg; exact hg
              · apply n3
                rw [hidx]
                exact ⟨by omega, by omega, hg⟩
          · exact fun hh => hh.1

theorem mem_str_members' (s : List (Option Nat)) (off : Int) (holes : Nat) (v : V) :
    v ∈ (Plain.str s off holes).members ↔ ∃ i c, v = charV i c ∧ (i, c) ∈ kden s off := by
  simp only [Plain.members, List.mem_map]
  constructor
  · rintro ⟨⟨i, c⟩, hp, rfl⟩; exact ⟨i, c, rfl, hp⟩
  · rintro ⟨i, c, rfl, hp⟩; exact ⟨(i, c), hp, rfl⟩

theorem strTrim_spec (r : List (Option Nat) × Int × Nat) (h1 : r.2.2 = kholes r.1)
    (h2 : ∀ c, some c ∈ r.1 → (c : Int) ≤ maxRune) :
    (strTrim r).2.2 = kholes (strTrim r).1 ∧ (∀ c, some c ∈ (strTrim r).1 → (c : Int) ≤ maxRune) ∧
    kden (strTrim r).1 (strTrim r).2.1 = kden r.1 r.2.1 := by
  unfold strTrim
  simp only
  refine ⟨?_, ?_, ?_⟩
  · have l1 := length_trimFront_le r.1 r.2.1
    have l2 := length_trimBack_le (trimFront r.1 r.2.1).1
    have c1 := kcount_trimFront r.1 r.2.1
    have c2 := kcount_trimBack (trimFront r.1 r.2.1).1
    have a1 := kcount_add_kholes r.1
    have a2 := kcount_add_kholes (trimBack (trimFront r.1 r.2.1).1)
    rw [h1]; omega
  · intro c hc
    exact h2 c (mem_trimFront _ _ _ (mem_trimBack _ _ hc))
  · rw [kden_trimBack, kden_trimFront]

theorem strWithout_spec (s : List (Option Nat)) (off : Int) (holes : Nat) (h : (Plain.str s off holes).WF) (v : V) :
    (strWithout s off holes v).WF ∧
    ∀ x, x ∈ (strWithout s off holes v).members ↔ x ∈ (Plain.str s off holes).members ∧ x ≠ v := by
  -- the triple the final count test is applied to
  have key : ∀ r : List (Option Nat) × Int × Nat, r.2.2 = kholes r.1 →
      (∀ c, some c ∈ r.1 → (c : Int) ≤ maxRune) →
      (∀ j y, (j, y) ∈ kden r.1 r.2.1 ↔ (j, y) ∈ kden s off ∧ charV j y ≠ v) →
      (if strCount r.1 r.2.2 = 0 then Plain.empty else Plain.str r.1 r.2.1 r.2.2).WF ∧
      ∀ x, x ∈ (if strCount r.1 r.2.2 = 0 then Plain.empty else Plain.str r.1 r.2.1 r.2.2).members ↔
        x ∈ (Plain.str s off holes).members ∧ x ≠ v := by
    intro r c1 c2 c3
    have hmem : ∀ x, (∃ i c, x = charV i c ∧ (i, c) ∈ kden r.1 r.2.1) ↔
        x ∈ (Plain.str s off holes).members ∧ x ≠ v := by
      intro x
      rw [mem_str_members']
      constructor
      · rintro ⟨i, c, rfl, hp⟩
        obtain ⟨h1, h2⟩ := (c3 i c).1 hp
        exact ⟨⟨i, c, rfl, h1⟩, h2⟩
      · rintro ⟨⟨i, c, rfl, hp⟩, hne⟩
        exact ⟨i, c, rfl, (c3 i c).2 ⟨hp, hne⟩⟩
    have hcnt : strCount r.1 r.2.2 = kcount r.1 := by
      have := kcount_add_kholes r.1
      unfold strCount
      rw [c1]; omega
    split
    · rename_i h0
      rw [hcnt] at h0
      refine ⟨trivial, ?_⟩
      intro x
      rw [← hmem]
      simp only [Plain.members, List.not_mem_nil, false_iff]
      rintro ⟨i, c, _, hp⟩
      rw [kden_nil_of_kcount_zero _ _ h0] at hp
      cases hp
    · rename_i h0
      rw [hcnt] at h0
      refine ⟨⟨c1, by omega, c2⟩, ?_⟩
      intro x
      rw [← hmem, mem_str_members']
  obtain ⟨c1, c2, c3⟩ := strWithoutCore_spec s off holes h v
  unfold strWithout
  cases hc : asChar v with
  | none =>
    simp only
    apply key (s, off, holes) h.1 h.2.2
    intro j y
    constructor
    · intro hm
      refine ⟨hm, ?_⟩
      intro he
      apply asChar_none_not_mem_str h hc
      rw [← he]
      exact List.mem_map.2 ⟨(j, y), hm, rfl⟩
    · exact fun hh => hh.1
  | some p =>
    simp only
    obtain ⟨t1, t2, t3⟩ := strTrim_spec (strWithoutCore s off holes v) c1 c2
    apply key _ t1 t2
    intro j y
    rw [t3]
    exact c3 j y

theorem mem_arr_members' (vs : List (Option V)) (off : Int) (count : Nat) (v : V) :
    v ∈ (Plain.arr vs off count).members ↔ ∃ i x, v = itemV i x ∧ (i, x) ∈ kden vs off := by
  simp only [Plain.members, List.mem_map]
  constructor
  · rintro ⟨⟨i, c⟩, hp, rfl⟩; exact ⟨i, c, rfl, hp⟩
  · rintro ⟨i, c, rfl, hp⟩; exact ⟨(i, c), hp, rfl⟩

theorem newOffsetArray_spec (off : Int) (vs : List (Option V)) :
    (newOffsetArray off vs).WF ∧
    ∀ x, x ∈ (newOffsetArray off vs).members ↔ ∃ i y, x = itemV i y ∧ (i, y) ∈ kden vs off := by
  have hk : kden (trimBack (trimFront vs off).1) (trimFront vs off).2 = kden vs off := by
    rw [kden_trimBack, kden_trimFront]
  unfold newOffsetArray
  simp only
  split
  · rename_i he
    refine ⟨trivial, ?_⟩
    intro x
    have : trimBack (trimFront vs off).1 = [] := by simpa using he
    rw [this] at hk
    simp only [Plain.members, List.not_mem_nil, false_iff]
    rintro ⟨i, y, _, hp⟩
    rw [← hk] at hp
    simp [kden] at hp
  · refine ⟨rfl, ?_⟩
    intro x
    rw [mem_arr_members', hk]

theorem arrWithout_spec (vs : List (Option V)) (off : Int) (count : Nat) (h : (Plain.arr vs off count).WF) (v : V) :
    (arrWithout vs off count v).WF ∧
    ∀ x, x ∈ (arrWithout vs off count v).members ↔ x ∈ (Plain.arr vs off count).members ∧ x ≠ v := by
  have hcount : count = kcount vs := h
  unfold arrWithout
  cases hc : asItem v with
  | none =>
    refine ⟨h, ?_⟩
    intro x
    simp only
    constructor
    · intro hm
      refine ⟨hm, ?_⟩
      rintro rfl
      obtain ⟨i, y, rfl, _⟩ := (mem_arr_members' vs off count x).1 hm
      rw [asItem_itemV] at hc; cases hc
    · exact fun hh => hh.1
  | some p =>
    obtain ⟨ix, y⟩ := p
    have hv := (asItem_eq_some v ix y).1 hc
    subst hv
    simp only
    have hne : ∀ j z, itemV j z ≠ itemV ix y ↔ ¬ (j = ix ∧ z = y) := by
      intro j z
      constructor
      · rintro h1 ⟨rfl, rfl⟩; exact h1 rfl
      · intro h1 he; exact h1 (itemV_inj he)
    have lift : ∀ (vs' : List (Option V)) (off' : Int) (count' : Nat) (c : V) (n : Nat),
        ix = off + (n : Int) → c = y →
        (∀ j z, (j, z) ∈ kden vs' off' ↔ (j, z) ∈ kden vs off ∧ ¬ (j = off + (n : Int) ∧ z = c)) →
        ∀ x, x ∈ (Plain.arr vs' off' count').members ↔ x ∈ (Plain.arr vs off count).members ∧ x ≠ itemV ix y := by
      intro vs' off' count' c n hix hcy hk x
      rw [mem_arr_members', mem_arr_members']
      subst hcy
      constructor
      · rintro ⟨j, z, rfl, hp⟩
        obtain ⟨h1, h2⟩ := (hk j z).1 hp
        exact ⟨⟨j, z, rfl, h1⟩, (hne j z).2 (by rw [hix]; exact h2)⟩
      · rintro ⟨⟨j, z, rfl, hp⟩, hx⟩
        exact ⟨j, z, rfl, (hk j z).2 ⟨hp, by rw [← hix]; exact (hne j z).1 hx⟩⟩
    split
    · rename_i hin
      obtain ⟨h0, h1, hg⟩ := hin
      split
      · rename_i hix
        have hg0 : kget vs 0 = some y := by
          have : (ix - off).toNat = 0 := by omega
          rw [this] at hg; exact hg
        obtain ⟨n1, n2⟩ := newOffsetArray_spec (off + 1) (vs.drop 1)
        refine ⟨n1, ?_⟩
        intro x
        rw [n2, ← mem_arr_members' (vs.drop 1) (off + 1) 0]
        revert x
        apply lift _ _ _ y 0 (by omega) rfl
        intro j z
        have := mem_kden_drop_one vs off y hg0 j z
        simpa using this
      · split
        · rename_i _ hix
          have hgl : kget vs (vs.length - 1) = some y := by
            have : (ix - off).toNat = vs.length - 1 := by omega
            rw [this] at hg; exact hg
          obtain ⟨n1, n2⟩ := newOffsetArray_spec off (vs.take (vs.length - 1))
          refine ⟨n1, ?_⟩
          intro x
          rw [n2, ← mem_arr_members' (vs.take (vs.length - 1)) off 0]
          revert x
          apply lift _ _ _ y (vs.length - 1) (by omega) rfl
          exact mem_kden_drop_last vs off y hgl
        · obtain ⟨_, c2⟩ := counts_eraseAt vs _ y hg
          have hk := mem_kden_eraseAt vs off _ y hg
          split
          · rename_i hz
            refine ⟨trivial, ?_⟩
            intro x
            have hk0 : kcount (eraseAt vs (ix - off).toNat) = 0 := by omega
            have := lift (eraseAt vs (ix - off).toNat) off 0 y (ix - off).toNat (by omega) rfl hk x
            rw [← this]
            simp only [Plain.members, kden_nil_of_kcount_zero _ _ hk0, List.map_nil]
          · refine ⟨by show count - 1 = kcount (eraseAt vs (ix - off).toNat); omega, ?_⟩
            exact lift _ _ _ y (ix - off).toNat (by omega) rfl hk
    · rename_i hout
      refine ⟨h, ?_⟩
      intro x
      constructor
      · intro hm
        refine ⟨hm, ?_⟩
        rintro rfl
        obtain ⟨j, z, he, hle, hg⟩ := (mem_arr_members vs off count _).1 hm
        obtain ⟨rfl, rfl⟩ := itemV_inj he
        have hlt := kget_some_lt hg
        exact hout ⟨by omega, by omega, hg⟩
      · exact fun hh => hh.1

/-- removing a byte from the middle of a byte array needs a hole (KF-bytes-holes) -/
def WithoutAdm (p : Plain) (v : V) : Prop :=
  match p with
  | .bytes b off =>
    ∀ pos x, asByte v = some (pos, x) → b[(pos - off).toNat]? = some x → off ≤ pos →
      pos = off ∨ pos = off + (b.length : Int) - 1
  | _ => True

theorem mem_bytes_members' (b : List Nat) (off : Int) (v : V) :
    v ∈ (Plain.bytes b off).members ↔ ∃ i x, v = byteV i x ∧ (i, x) ∈ kden (b.map some) off := by
  simp only [Plain.members, List.mem_map]
  constructor
  · rintro ⟨⟨i, c⟩, hp, rfl⟩; exact ⟨i, c, rfl, hp⟩
  · rintro ⟨i, c, rfl, hp⟩; exact ⟨(i, c), hp, rfl⟩

theorem bytesWithout_spec (b : List Nat) (off : Int) (h : (Plain.bytes b off).WF) (v : V) :
    (WithoutAdm (.bytes b off) v → (bytesWithout b off v).WF) ∧
    ∀ x, x ∈ (bytesWithout b off v).members ↔ x ∈ (Plain.bytes b off).members ∧ x ≠ v := by
  unfold bytesWithout
  cases hc : asByte v with
  | none =>
    refine ⟨fun _ => h, ?_⟩
    intro x
    simp only
    constructor
    · intro hm
      refine ⟨hm, ?_⟩
      rintro rfl
      obtain ⟨i, y, rfl, _, hg⟩ := (mem_bytes_members b off x).1 hm
      rw [asByte_byteV i y (h.2 y (List.mem_of_getElem? hg))] at hc; cases hc
    · exact fun hh => hh.1
  | some p =>
    obtain ⟨pos, y⟩ := p
    obtain ⟨rfl, hy⟩ := (asByte_eq_some v pos y).1 hc
    simp only
    have hne : ∀ j z, byteV j z ≠ byteV pos y ↔ ¬ (j = pos ∧ z = y) := by
      intro j z
      constructor
      · rintro h1 ⟨rfl, rfl⟩; exact h1 rfl
      · intro h1 he; exact h1 (byteV_inj he)
    have lift : ∀ (b' : List Nat) (off' : Int) (n : Nat), pos = off + (n : Int) →
        (∀ j z, (j, z) ∈ kden (b'.map some) off' ↔ (j, z) ∈ kden (b.map some) off ∧ ¬ (j = off + (n : Int) ∧ z = y)) →
        ∀ x, x ∈ (Plain.bytes b' off').members ↔ x ∈ (Plain.bytes b off).members ∧ x ≠ byteV pos y := by
      intro b' off' n hix hk x
      rw [mem_bytes_members', mem_bytes_members']
      constructor
      · rintro ⟨j, z, rfl, hp⟩
        obtain ⟨h1, h2⟩ := (hk j z).1 hp
        exact ⟨⟨j, z, rfl, h1⟩, (hne j z).2 (by rw [hix]; exact h2)⟩
      · rintro ⟨⟨j, z, rfl, hp⟩, hx⟩
        exact ⟨j, z, rfl, (hk j z).2 ⟨hp, by rw [← hix]; exact (hne j z).1 hx⟩⟩
    split
    · rename_i hin
      obtain ⟨h0, h1, hg⟩ := hin
      obtain ⟨hidx, _⟩ := seqIndex_eq (rfl : seqIndex b.length off pos = _) h0
      have hg' : kget (b.map some) (pos - off).toNat = some y := by
        rw [kget_map_some, hidx]; exact hg
      split
      · rename_i hl1
        refine ⟨fun _ => trivial, ?_⟩
        intro x
        simp only [Plain.members, List.not_mem_nil, false_iff]
        rintro ⟨hm, hx⟩
        obtain ⟨j, z, rfl, hle, hgz⟩ := (mem_bytes_members b off x).1 hm
        have hlt : (j - off).toNat < b.length := by
          apply Classical.byContradiction
          intro hn
          rw [List.getElem?_eq_none (by omega)] at hgz; cases hgz
        have hj : j = pos := by omega
        subst hj
        rw [← hidx] at hg
        rw [hg] at hgz
        exact hx (by rw [Option.some.inj hgz])
      · split
        · rename_i _ hi0
          have hg0 : kget (b.map some) 0 = some y := by
            have : (pos - off).toNat = 0 := by omega
            rw [this] at hg'; exact hg'
          refine ⟨fun _ => ⟨?_, fun x hx => h.2 x (List.mem_of_mem_drop hx)⟩, ?_⟩
          · intro hc
            have : b.length ≤ 1 := by
              have := congrArg List.length hc
              simp at this; omega
            have hb := h.1
            cases b with
            | nil => exact hb rfl
            | cons a r => simp at this; subst this; simp at *
          · apply lift _ _ 0 (by omega)
            intro j z
            have := mem_kden_drop_one (b.map some) off y hg0 j z
            rw [← List.map_drop] at this
            simpa using this
        · split
          · rename_i _ _ hil
            have hgl : kget (b.map some) ((b.map some).length - 1) = some y := by
              have : (pos - off).toNat = (b.map some).length - 1 := by simp; omega
              rw [this] at hg'; exact hg'
            have htk : (seqIndex b.length off pos).toNat = b.length - 1 := by omega
            refine ⟨fun _ => ⟨?_, fun x hx => h.2 x (List.mem_of_mem_take hx)⟩, ?_⟩
            · intro hc
              have := congrArg List.length hc
              simp only [List.length_take, List.length_nil] at this
              omega
            · rw [htk]
              apply lift _ _ (b.length - 1) (by omega)
              intro j z
              have := mem_kden_drop_last (b.map some) off y hgl j z
              rw [← List.map_take] at this
              simpa using this
          · rename_i n1 n2 n3
            refine ⟨?_, ?_⟩
            · intro hadm
              exfalso
              have := hadm pos y hc (by rw [hidx]; exact hg) (by omega)
              rcases this with hp | hp
              · exact n2 (by omega)
              · exact n3 (by omega)
            · intro x
              rw [fromFrozen_members, FinSet.mem_erase, FinSet.mem_mk]
    · rename_i hout
      refine ⟨fun _ => h, ?_⟩
      intro x
      constructor
      · intro hm
        refine ⟨hm, ?_⟩
        rintro rfl
        obtain ⟨j, z, he, hle, hg⟩ := (mem_bytes_members b off _).1 hm
        obtain ⟨rfl, rfl⟩ := byteV_inj he
        have hlt : (pos - off).toNat < b.length := by
          apply Classical.byContradiction
          intro hn
          rw [List.getElem?_eq_none (by omega)] at hg; cases hg
        have hidx := seqIndex_of_range b.length off pos (by omega) (by omega)
        exact hout ⟨by rw [hidx]; omega, by rw [hidx]; omega, by rw [hidx]; exact hg⟩
      · exact fun hh => hh.1

theorem mem_dictMembers_remove (m : List (V × DVal)) (hn : (m.map (·.1)).Nodup) (k : V) (v : V) :
    v ∈ dictMembers (AL.remove k m) ↔
      ∃ k' d' y, (k', d') ∈ m ∧ k' ≠ k ∧ y ∈ d'.vals ∧ v = entryV k' y := by
  rw [mem_dictMembers]
  constructor
  · rintro ⟨k', d', y, hm, hy, rfl⟩
    obtain ⟨h1, h2⟩ := (AL.mem_remove m k hn (k', d')).1 hm
    exact ⟨k', d', y, h1, h2, hy, rfl⟩
  · rintro ⟨k', d', y, hm, hne, hy, rfl⟩
    exact ⟨k', d', y, (AL.mem_remove m k hn (k', d')).2 ⟨hm, hne⟩, hy, rfl⟩

theorem dictWithout_spec (m : List (V × DVal)) (h : (Plain.dict m).WF) (v : V) :
    (dictWithout m v).WF ∧ ∀ x, x ∈ (dictWithout m v).members ↔ x ∈ (Plain.dict m).members ∧ x ≠ v := by
  have hok : DictOK m := ⟨h.2.1, h.2.2⟩
  have same : ∀ (_ : v ∉ dictMembers m), (Plain.dict m).WF ∧
      ∀ x, x ∈ (Plain.dict m).members ↔ x ∈ (Plain.dict m).members ∧ x ≠ v := by
    intro hv
    refine ⟨h, ?_⟩
    intro x
    constructor
    · intro hm; exact ⟨hm, fun he => hv (by rw [← he]; exact hm)⟩
    · exact fun hh => hh.1
  have aux : ∀ (x : V) (k : V) (d0 : DVal), (∃ d y, some d0 = some d ∧ y ∈ d.vals ∧ x = entryV k y) ↔
      ∃ y, y ∈ d0.vals ∧ x = entryV k y := by
    intro x k d0
    constructor
    · rintro ⟨d, y, hd, hy, hv⟩
      cases hd
      exact ⟨y, hy, hv⟩
    · rintro ⟨y, hy, hv⟩
      exact ⟨d0, y, rfl, hy, hv⟩
  unfold dictWithout
  cases hc : asEntry v with
  | none =>
    apply same
    intro hm
    obtain ⟨k, d, y, _, _, rfl⟩ := (mem_dictMembers m v).1 hm
    rw [asEntry_entryV] at hc; cases hc
  | some p =>
    obtain ⟨k, x⟩ := p
    have hv := (asEntry_eq_some v k x).1 hc
    subst hv
    simp only
    cases hg : AL.get k m with
    | none =>
      apply same
      intro hm
      obtain ⟨k', d, y, hmem, _, he⟩ := (mem_dictMembers m _).1 hm
      obtain ⟨rfl, rfl⟩ := entryV_inj he
      exact (AL.get_eq_none_iff m k).1 hg (List.mem_map.2 ⟨(k, d), hmem, rfl⟩)
    | some d =>
      have hmem := (AL.get_eq_some_of_mem m hok.1 k d).1 hg
      cases d with
      | one w =>
        simp only
        split
        · rename_i hxw
          subst hxw
          have hmm : ∀ y, y ∈ dictMembers (AL.remove k m) ↔ y ∈ (Plain.dict m).members ∧ y ≠ entryV k x := by
            intro y
            show _ ↔ y ∈ dictMembers m ∧ _
            rw [mem_dictMembers_remove m hok.1, mem_dictMembers_split m hok.1 k, hg, aux]
            constructor
            · rintro ⟨k', d', z, hm', hne, hz, rfl⟩
              refine ⟨Or.inr ⟨k', d', z, hm', hne, hz, rfl⟩, ?_⟩
              intro he; exact hne (entryV_inj he).1
            · rintro ⟨(⟨z, hz, rfl⟩ | hr), hne⟩
              · simp only [DVal.vals, List.mem_singleton] at hz
                subst hz; exact absurd rfl hne
              · exact hr
          split
          · rename_i hemp
            refine ⟨trivial, ?_⟩
            intro y
            rw [← hmm]
            have : AL.remove k m = [] := by simpa using hemp
            simp [this, Plain.members, dictMembers]
          · rename_i hne
            refine ⟨⟨?_, AL.nodup_remove m k hok.1, ?_⟩, hmm⟩
            · intro hc'; exact hne (by simp [hc'])
            · intro kd hkd
              exact hok.2 kd ((AL.mem_remove m k hok.1 kd).1 hkd).1
        · rename_i hxw
          apply same
          intro hm
          obtain ⟨k', d', y, hmem', hy, he⟩ := (mem_dictMembers m _).1 hm
          obtain ⟨rfl, rfl⟩ := entryV_inj he
          have := (AL.get_eq_some_of_mem m hok.1 k d').2 hmem'
          rw [hg] at this
          cases this
          simp only [DVal.vals, List.mem_singleton] at hy
          exact hxw hy
      | many vs =>
        have hw : (DVal.many vs).WF := hok.2 _ hmem
        simp only
        split
        · rename_i hxin
          have hnonempty : FinSet.erase vs x ≠ [] := by
            obtain ⟨hs, hl⟩ := hw
            cases vs with
            | nil => simp at hl
            | cons a r =>
              cases r with
              | nil => simp at hl
              | cons b t =>
                have hab : a ≠ b := by
                  intro he
                  have := (List.pairwise_cons.1 hs).1 b (by simp)
                  rw [he] at this
                  exact V.cmp_lt_irrefl b this
                intro hc'
                have ha : a ∉ FinSet.erase (a :: b :: t) x := by rw [hc']; simp
                have hb : b ∉ FinSet.erase (a :: b :: t) x := by rw [hc']; simp
                rw [FinSet.mem_erase] at ha hb
                have e1 : a = x := Classical.byContradiction fun hn => ha ⟨by simp, hn⟩
                have e2 : b = x := Classical.byContradiction fun hn => hb ⟨by simp, hn⟩
                exact hab (e1.trans e2.symm)
          have hok' := hok.put k _ (newMultipleValues_wf _ hnonempty)
          refine ⟨⟨?_, hok'.1, hok'.2⟩, ?_⟩
          · intro hc'
            have : (k, newMultipleValues (FinSet.erase vs x)) ∈ AL.put k (newMultipleValues (FinSet.erase vs x)) m :=
              (AL.mem_put m k _ hok.1 _).2 (Or.inl rfl)
            rw [hc'] at this; cases this
          · intro y
            show y ∈ dictMembers _ ↔ y ∈ dictMembers m ∧ _
            rw [mem_dictMembers_put m hok.1, mem_dictMembers_split m hok.1 k, hg, aux, newMultipleValues_vals]
            have hsorted : FinSet.mk (FinSet.erase vs x) = FinSet.erase vs x :=
              mk_of_sorted _ (FinSet.sorted_erase vs x hw.1)
            rw [hsorted]
            constructor
            · rintro (⟨z, hz, rfl⟩ | hr)
              · obtain ⟨hz1, hz2⟩ := (FinSet.mem_erase vs x z).1 hz
                exact ⟨Or.inl ⟨z, by simpa [DVal.vals] using hz1, rfl⟩, fun he => hz2 (entryV_inj he).2⟩
              · obtain ⟨k', d', z, hm', hne, hz, rfl⟩ := hr
                exact ⟨Or.inr ⟨k', d', z, hm', hne, hz, rfl⟩, fun he => hne (entryV_inj he).1⟩
            · rintro ⟨(⟨z, hz, rfl⟩ | hr), hne⟩
              · refine Or.inl ⟨z, (FinSet.mem_erase vs x z).2 ⟨by simpa [DVal.vals] using hz, ?_⟩, rfl⟩
                intro he; exact hne (by rw [he])
              · exact Or.inr hr
        · rename_i hxin
          apply same
          intro hm
          obtain ⟨k', d', y, hmem', hy, he⟩ := (mem_dictMembers m _).1 hm
          obtain ⟨rfl, rfl⟩ := entryV_inj he
          have := (AL.get_eq_some_of_mem m hok.1 k d').2 hmem'
          rw [hg] at this
          cases this
          exact hxin (by simpa [DVal.vals] using hy)

theorem Plain.without_spec (p : Plain) (h : p.WF) (v : V) :
    (WithoutAdm p v → (p.without v).WF) ∧
    ∀ x, x ∈ (p.without v).members ↔ x ∈ p.members ∧ x ≠ v := by
  cases p with
  | empty => exact ⟨fun _ => trivial, by simp [Plain.without, Plain.members]⟩
  | true_ =>
    simp only [Plain.without]
    by_cases hv : v = .tup []
    · subst hv
      simp only [if_true]
      exact ⟨fun _ => trivial, by simp [Plain.members]⟩
    · simp only [hv, if_false]
      refine ⟨fun _ => trivial, ?_⟩
      intro x
      simp only [Plain.members, List.mem_singleton]
      constructor
      · rintro rfl; exact ⟨rfl, fun he => hv he.symm⟩
      · exact fun hh => hh.1
  | generic xs =>
    simp only [Plain.without]
    refine ⟨fun _ => fromFrozen_wf _ (FinSet.sorted_erase xs v h.1) ?_, ?_⟩
    · intro x hx; exact h.2.2.2 x ((FinSet.mem_erase xs v x).1 hx).1
    · intro x; rw [fromFrozen_members]; exact FinSet.mem_erase xs v x
  | str s off holes =>
    obtain ⟨w1, w2⟩ := strWithout_spec s off holes h v
    exact ⟨fun _ => w1, w2⟩
  | bytes b off => exact bytesWithout_spec b off h v
  | arr vs off count =>
    obtain ⟨w1, w2⟩ := arrWithout_spec vs off count h v
    exact ⟨fun _ => w1, w2⟩
  | dict m =>
    obtain ⟨w1, w2⟩ := dictWithout_spec m h v
    exact ⟨fun _ => w1, w2⟩
  | rel names rows =>
    have same : v ∉ rows → (WithoutAdm (.rel names rows) v → (Plain.rel names rows).WF) ∧
        ∀ x, x ∈ (Plain.rel names rows).members ↔ x ∈ (Plain.rel names rows).members ∧ x ≠ v := by
      intro hv
      refine ⟨fun _ => h, ?_⟩
      intro x
      constructor
      · intro hm; exact ⟨hm, fun he => hv (by rw [← he]; exact hm)⟩
      · exact fun hh => hh.1
    simp only [Plain.without]
    cases v with
    | num n =>
      apply same
      intro hm
      have := h.2.2 _ hm
      simp [bucketOf] at this
    | set xs =>
      apply same
      intro hm
      have := h.2.2 _ hm
      simp [bucketOf] at this
    | tup as =>
      simp only
      split
      · rename_i hn
        simp only [relBody]
        cases hl : FinSet.erase rows (.tup as) with
        | nil =>
          simp only [List.isEmpty_nil, if_true]
          refine ⟨fun _ => trivial, ?_⟩
          intro x
          have := FinSet.mem_erase rows (.tup as) x
          rw [hl] at this
          simp only [Plain.members, List.not_mem_nil, false_iff] at this ⊢
          exact this
        | cons a r =>
          simp only [List.isEmpty_cons, Bool.false_eq_true, if_false]
          rw [← hl]
          refine ⟨fun _ => ⟨FinSet.sorted_erase rows _ h.1, by rw [hl]; simp, ?_⟩, ?_⟩
          · intro x hx; exact h.2.2 x ((FinSet.mem_erase rows _ x).1 hx).1
          · intro x; exact FinSet.mem_erase rows _ x
      · rename_i hn
        apply same
        intro hm
        obtain ⟨as', he, hn'⟩ := bucketOf_rel (h.2.2 _ hm)
        simp only [V.tup.injEq] at he
        subst he
        exact hn hn'
