/-
  C01 case generator: arr.ai programs of the set-algebra family over operands in every
  representation, with the model's (Impl) and the specification's expected observables.
  Observables per program: canon of the result, `count`, three `<:` probes (a member, a near-miss,
  a non-member).  Strata: operator × representation(lhs) × representation(rhs) × relation of the
  operands (equal / disjoint / overlapping / colliding index or key / cross-kind), computed after
  the fact from the specification's values.
-/
import Arrai.C01.Model

namespace Arrai.C01
open Arrai

/-! ## values back to literals -/
mutual
def litOfV : V → Lit
  | .num n => .num n
  | .tup as => .tup (litOfAttrs as)
  | .set xs => .set (litOfList xs)
def litOfAttrs : List (String × V) → List (String × Lit)
  | [] => []
  | (n, v) :: r => (n, litOfV v) :: litOfAttrs r
def litOfList : List V → List Lit
  | [] => []
  | v :: r => litOfV v :: litOfList r
end

def numL (n : Int) : Lit := .num n
def pairL (name : String) (i x : Lit) : Lit := .tup [("@", i), (name, x)]
def charL (i : Int) (c : Nat) : Lit := pairL "@char" (numL i) (numL c)
def byteL (i : Int) (b : Int) : Lit := pairL "@byte" (numL i) (numL b)
def itemL (i : Int) (x : Lit) : Lit := pairL "@item" (numL i) x
def entryL (k x : Lit) : Lit := pairL "@value" k x
def strL (s : String) : Lit := .str 0 (s.toList.map Char.toNat)

/-! ## small alphabets -/

def genChar : Gen Nat := do pure (97 + (← rand 3))
def genCharsN (lo hi : Nat) : Gen (List Nat) := do
  let n ← rand (hi - lo + 1)
  genList (lo + n) genChar
def genSmallOff : Gen Int := do
  let r ← rand 8
  pure (match r with | 0 => 2 | 1 => -1 | 2 => 1 | 3 => 3 | _ => 0)
def genNonZeroOff : Gen Int := do
  let r ← rand 4
  pure (match r with | 0 => 2 | 1 => -1 | 2 => 1 | _ => 3)

/-- a small member value (used as array item, dict key/value, set member, tuple attribute) -/
def genAtom : Gen Lit := do
  let r ← rand 12
  match r with
  | 0 => pure (strL "a")
  | 1 => pure (.set [])
  | 2 => pure (.set [numL 1])
  | 3 => pure (.tup [("a", numL 1)])
  | 4 => pure .tt
  | 5 => pure (.arr 0 [some (numL 1)])
  | _ => do pure (numL (← rand 4))

def genNum : Gen Lit := do pure (numL (← rand 4))

/-! ## operands by representation -/

def repKinds : List String :=
  ["str", "offstr", "holestr", "bytes", "offbytes", "arr", "sparsearr", "dict", "multidict",
   "rel", "setnum", "setsets", "true", "empty", "union"]

def genHoleStr : Gen E := do
  let cs ← genCharsN 3 5
  let off ← genSmallOff
  let i ← rand (cs.length - 2)
  let idx : Int := off + (i + 1 : Nat)
  let viaWhere ← chance 1 3
  if viaWhere then
    pure (.where_ (.lit (.str off cs)) (.ne (.attr .dot "@") (.const (numL idx))))
  else
    pure (.bin .without (.lit (.str off cs)) (.lit (charL idx (cs.getD (i + 1) 97))))

def genArrItems (n : Nat) : Gen (List Lit) := genList n genAtom

def genDictLit : Gen Lit := do
  let n ← rand 4
  let kvs ← genList n (do pure ((← genAtom), (← genAtom)))
  pure (.dict (Lit.dedupBy (fun kv => kv.1.den) kvs))

def relHeadings : List (List String) := [["a", "b"], ["b", "a"], ["a"], ["x", "a"], ["a", "b", "c"]]

def genRelLit : Gen Lit := do
  let names ← pick relHeadings
  let m ← rand 3
  let rows ← genList (m + 1) (genList names.length genNum)
  pure (.rel names rows)

/-- members of different buckets for a literal set that becomes a UnionSet -/
def genBucketMember (b : Nat) : Gen Lit := do
  match b with
  | 0 => genNum
  | 1 => do pure (charL (← rand 3) (← genChar))
  | 2 => do pure (itemL (← rand 3) (← genAtom))
  | 3 => do pure (.tup [("a", ← genNum)])
  | 4 => do pure (entryL (← genNum) (← genNum))
  | 5 => do pure (byteL (← rand 3) (← rand 3))
  | 6 => do pure (.tup [("a", ← genNum), ("b", ← genNum)])
  | _ => do pure (.set [← genNum])

def genUnionLit : Gen Lit := do
  let nb ← rand 3
  let bs ← genList (nb + 2) (rand 8)
  let bs := bs.eraseDups
  let mut out : List Lit := []
  for b in bs do
    let k ← rand 2
    let ms ← genList (k + 1) (genBucketMember b)
    out := out ++ ms
  pure (.set out)

def genOperand (kind : String) : Gen E := do
  match kind with
  | "str" => do pure (.lit (.str 0 (← genCharsN 0 4)))
  | "offstr" => do pure (.lit (.str (← genNonZeroOff) (← genCharsN 1 4)))
  | "holestr" => genHoleStr
  | "bytes" => do
    let n ← rand 5
    pure (.lit (.bytes 0 (← genList n (rand 3))))
  | "offbytes" => do
    let n ← rand 4
    pure (.lit (.bytes (← genNonZeroOff) (← genList (n + 1) (rand 3))))
  | "arr" => do
    let n ← rand 4
    pure (.lit (.arr 0 ((← genArrItems n).map some)))
  | "sparsearr" => do
    let n ← rand 4
    let xs ← genArrItems (n + 2)
    pure (.lit (.arr (← genSmallOff) (← Lit.withHoles xs)))
  | "dict" => do pure (.lit (← genDictLit))
  | "multidict" => do
    let k ← genAtom
    let v1 ← genAtom
    let v2 ← genAtom
    let rest ← genDictLit
    let more ← chance 1 2
    let base : E := .bin .union (.lit (.dict [(k, v1)])) (.lit (.dict [(k, v2)]))
    pure (if more then .bin .union base (.lit rest) else base)
  | "rel" => do pure (.lit (← genRelLit))
  | "setnum" => do
    let n ← rand 5
    pure (.lit (.set (← genList n genNum)))
  | "setsets" => do
    let n ← rand 4
    pure (.lit (.set (← genList n (do
      let r ← rand 6
      match r with
      | 0 => pure (.set [])
      | 1 => pure (strL "a")
      | 2 => pure (strL "ab")
      | 3 => pure (.arr 0 [some (numL 1)])
      | 4 => pure .tt
      | _ => do pure (.set [← genNum])))))
  | "true" => pure (.lit .tt)
  | "empty" => do
    let r ← rand 3
    pure (.lit (match r with | 0 => .ff | 1 => .set [] | _ => .str 0 []))
  | _ => do
    let viaOps ← chance 1 3
    if viaOps then
      let k1 ← pick ["str", "arr", "setnum", "dict", "rel", "bytes"]
      let k2 ← pick ["offstr", "sparsearr", "setsets", "multidict", "rel", "true"]
      pure (.bin .union (← genOperand' k1) (← genOperand' k2))
    else pure (.lit (← genUnionLit))
where
  genOperand' (kind : String) : Gen E := do
    match kind with
    | "str" => do pure (.lit (.str 0 (← genCharsN 1 3)))
    | "offstr" => do pure (.lit (.str (← genNonZeroOff) (← genCharsN 1 3)))
    | "arr" => do pure (.lit (.arr 0 ((← genArrItems 2).map some)))
    | "sparsearr" => do pure (.lit (.arr 1 [some (← genAtom), none, some (← genAtom)]))
    | "setnum" => do pure (.lit (.set (← genList 2 genNum)))
    | "setsets" => do pure (.lit (.set [.set [← genNum], strL "a"]))
    | "dict" => do pure (.lit (.dict [(numL 1, ← genAtom)]))
    | "multidict" => do pure (.bin .union (.lit (.dict [(numL 1, numL 2)])) (.lit (.dict [(numL 1, numL 3)])))
    | "rel" => do pure (.lit (← genRelLit))
    | "bytes" => do pure (.lit (.bytes 0 (← genList 2 (rand 3))))
    | _ => pure (.lit .tt)

/-! ## deriving related operands and probes from the specification's value -/

def membersOf (e : E) : List V := setOf (Spec.eval e)

/-- change one component of a value (a near miss of a member) -/
def mutate (v : V) : Gen V := do
  match v with
  | .num n => do pure (.num (n + 1 + (← rand 2)))
  | .tup [] => pure (.tup [("a", .num 0)])
  | .tup ((n1, a) :: r) =>
    match r with
    | [(n2, .num c)] =>
      let first ← chance 1 3
      if first then
        match a with
        | .num i => pure (.tup [(n1, .num (i + 1)), (n2, .num c)])
        | _ => pure (.tup [(n1, .num 0), (n2, .num c)])
      else pure (.tup [(n1, a), (n2, .num (c + 1))])
    | [(n2, _)] => pure (.tup [(n1, a), (n2, .num 7)])
    | _ =>
      match a with
      | .num i => pure (.tup ((n1, .num (i + 1)) :: r))
      | _ => pure (.tup ((n1, .num 0) :: r))
  | .set xs =>
    match xs with
    | [] => pure (V.mkSet [.num 9])
    | _ :: r => pure (.set r)

def pickV (xs : List V) : Gen V := do
  let i ← rand xs.length
  pure (xs.getD i (.num 0))

/-- an operand related to `a`: a literal set of some of its members, some changed, some new -/
def genRelated (a : E) (other : E) : Gen E := do
  let ms := membersOf a
  let os := membersOf other
  let mut out : List V := []
  for m in ms do
    let r ← rand 6
    if r < 3 then out := m :: out
    else if r == 3 then out := (← mutate m) :: out
  let extra ← rand 3
  for _ in [0:extra] do
    if !os.isEmpty then out := (← pickV os) :: out
  pure (.lit (.set (litOfList out.reverse)))

/-- the same set written as a set literal of its members (the builder re-sugars it) -/
def asSetLiteral (a : E) : E := .lit (.set (litOfList (membersOf a)))

def genElem (a : E) : Gen E := do
  let ms := membersOf a
  let r ← rand 10
  if r < 4 && !ms.isEmpty then pure (.lit (litOfV (← pickV ms)))
  else if r < 7 && !ms.isEmpty then pure (.lit (litOfV (← mutate (← pickV ms))))
  else if r == 7 then genOperand (← pick repKinds)
  else do
    let b ← rand 8
    pure (.lit (← genBucketMember b))

/-! ## predicates and functions shaped after the members -/

def shapeOf (ms : List V) : String :=
  match ms with
  | [] => "none"
  | .num _ :: _ => "num"
  | .set _ :: _ => "set"
  | .tup [] :: _ => "unit"
  | .tup ((n1, _) :: r) :: _ =>
    match r with
    | [(n2, _)] => if n1 == "@" then n2 else "tup:" ++ n1
    | _ => "tup:" ++ n1

def genPredFor (shape : String) : Gen P := do
  let k : T := .const (numL (← rand 4))
  let basic : Gen P := do
    match shape with
    | "num" =>
      let r ← rand 5
      pure (match r with
        | 0 => .lt .dot k | 1 => .le k .dot | 2 => .ne .dot k | 3 => .eq (.mul .dot (.const (numL 2))) k
        | _ => .eq (.sub .dot (.const (numL 1))) k)
    | "set" =>
      let r ← rand 3
      pure (match r with
        | 0 => .eq .dot (.const (.set [])) | 1 => .ne .dot (.const (strL "a")) | _ => .eq .dot (.set1 k))
    | "@char" =>
      let r ← rand 4
      let c : T := .const (numL (97 + (← rand 3)))
      pure (match r with
        | 0 => .lt (.attr .dot "@") k | 1 => .ne (.attr .dot "@") k | 2 => .eq (.attr .dot "@char") c
        | _ => .lt c (.attr .dot "@char"))
    | "@byte" =>
      let r ← rand 3
      pure (match r with
        | 0 => .lt (.attr .dot "@") k | 1 => .ne (.attr .dot "@byte") k | _ => .le (.attr .dot "@byte") (.attr .dot "@"))
    | "@item" =>
      let r ← rand 4
      pure (match r with
        | 0 => .lt (.attr .dot "@") k | 1 => .ne (.attr .dot "@") k | 2 => .eq (.attr .dot "@item") k
        | _ => .ne (.attr .dot "@item") (.const (.set [])))
    | "@value" =>
      let r ← rand 3
      pure (match r with
        | 0 => .eq (.attr .dot "@") k | 1 => .ne (.attr .dot "@value") k | _ => .eq (.attr .dot "@") (.attr .dot "@value"))
    | "unit" => pure (.eq .dot (.const (.tup [])))
    | "none" => pure .tt
    | s =>
      let n := (s.drop 4).toString
      let r ← rand 3
      pure (match r with
        | 0 => .lt (.attr .dot n) k | 1 => .ne (.attr .dot n) k | _ => .le k (.attr .dot n))
  let r ← rand 10
  if r == 0 then do pure (.and (← basic) (← basic))
  else if r == 1 then do pure (.or (← basic) (← basic))
  else if r == 2 then do pure (.not (← basic))
  else if r == 3 then pure .tt
  else basic

def genFunFor (shape : String) : Gen T := do
  let k : T := .const (numL (← rand 3))
  match shape with
  | "num" =>
    let r ← rand 7
    pure (match r with
      | 0 => .add .dot k | 1 => .mul .dot (.const (numL 0)) | 2 => .set1 .dot | 3 => .tup1 "a" .dot
      | 4 => .tup2 "@" .dot "@char" (.add (.const (numL 97)) .dot)
      | 5 => .tup2 "@" (.sub .dot k) "@item" .dot
      | _ => .tup2 "@" (.const (numL 0)) "@value" .dot)
  | "@char" =>
    let r ← rand 8
    pure (match r with
      | 0 => .attr .dot "@" | 1 => .attr .dot "@char"
      | 2 => .tup2 "@" (.add (.attr .dot "@") k) "@char" (.attr .dot "@char")
      | 3 => .tup2 "@" (.const (numL 0)) "@char" (.attr .dot "@char")
      | 4 => .tup2 "@" (.attr .dot "@") "@item" (.attr .dot "@char")
      | 5 => .tup2 "@" (.mul (.attr .dot "@") (.const (numL 2))) "@char" (.attr .dot "@char")
      | 6 => .tup2 "@" (.attr .dot "@") "@byte" (.sub (.attr .dot "@char") (.const (numL 97)))
      | _ => .tup2 "@" (.attr .dot "@char") "@value" (.attr .dot "@"))
  | "@byte" =>
    let r ← rand 4
    pure (match r with
      | 0 => .attr .dot "@byte"
      | 1 => .tup2 "@" (.add (.attr .dot "@") k) "@byte" (.attr .dot "@byte")
      | 2 => .tup2 "@" (.mul (.attr .dot "@") (.const (numL 2))) "@byte" (.attr .dot "@byte")
      | _ => .tup2 "@" (.attr .dot "@") "@char" (.add (.attr .dot "@byte") (.const (numL 97))))
  | "@item" =>
    let r ← rand 5
    pure (match r with
      | 0 => .attr .dot "@item" | 1 => .attr .dot "@"
      | 2 => .tup2 "@" (.add (.attr .dot "@") k) "@item" (.attr .dot "@item")
      | 3 => .tup2 "@" (.attr .dot "@item") "@value" (.attr .dot "@")
      | _ => .tup2 "@" (.const (numL 1)) "@item" (.attr .dot "@item"))
  | "@value" =>
    let r ← rand 4
    pure (match r with
      | 0 => .attr .dot "@value" | 1 => .tup2 "@" (.attr .dot "@value") "@value" (.attr .dot "@")
      | 2 => .tup2 "@" (.const (numL 1)) "@value" (.attr .dot "@value")
      | _ => .tup2 "k" (.attr .dot "@") "v" (.attr .dot "@value"))
  | "set" => pure (.set1 .dot)
  | "unit" => pure (.tup1 "a" .dot)
  | "none" => pure .dot
  | s =>
    let n := (s.drop 4).toString
    let r ← rand 4
    pure (match r with
      | 0 => .attr .dot n | 1 => .tup1 "a" (.attr .dot n)
      | 2 => .tup2 "@" (.attr .dot n) "@item" .dot
      | _ => .tup2 "@" (.attr .dot n) "@char" (.add (.attr .dot n) (.const (numL 97))))

/-! ## strata -/

def relationOf (x y : List V) (kx ky : String) : String :=
  if kx != ky then "cross"
  else if x == y then "equal"
  else if superimposedIn (FinSet.union x y) ||
      (x.any fun v => match asEntry v with
        | some (k, w) => y.any fun u => match asEntry u with
          | some (k', w') => decide (k = k') && !decide (w = w')
          | none => false
        | none => false) then "colliding"
  else if (FinSet.inter x y).isEmpty then "disjoint"
  else "overlapping"

/-! ## cases -/

/-- a case is dropped when it reaches a pinned panic, or when a `where`/`=>` body leaves the modelled
first-order fragment (`<` or `+` on non-numbers, `.a` on a set): there the model has no prediction -/
def mkCase (id stratum : String) (e : E) : Option Case :=
  let s := Spec.eval e
  let m := Impl.eval e
  let cls := classOf e
  match s, m with
  | .panic, _ => none
  | _, .unspec => if cls == "good" then none else
      some { id := id, cls := cls, kind := "eval", stratum := stratum, model := obsI m, spec := obsV s, payload := [e.src] }
  | _, _ =>
    some { id := id, cls := cls, kind := "eval", stratum := stratum,
           model := obsI m, spec := obsV s, payload := [e.src] }

/-- the observables of a set-valued program: canon, count, three `<:` probes -/
def observe (id stratum : String) (e : E) (probes : Bool) : Gen (List Case) := do
  let mut out : List Case := []
  if let some c := mkCase (id ++ "-v") stratum e then out := c :: out
  match Spec.eval e with
  | .ok (.set xs) =>
    if let some c := mkCase (id ++ "-n") stratum (.count e) then out := c :: out
    if probes then
      let member ← if xs.isEmpty then pure (V.num 0) else pickV xs
      let near ← mutate member
      let other ← genBucketMember (← rand 8)
      let ps : List (String × V) := [("m", member), ("x", near), ("o", other.den)]
      for (tag, v) in ps do
        if let some c := mkCase (id ++ "-h" ++ tag) stratum (.cmp .mem (.lit (litOfV v)) e) then out := c :: out
  | _ => pure ()
  pure out.reverse

def setOps : List BinOp := [.union, .inter, .diff, .symdiff]
def subsetOps : List CmpOp :=
  [.sub, .sup, .sube, .supe, .comp, .nsub, .nsup, .nsube, .nsupe, .ncomp]

def isSetE (e : E) : Bool :=
  match Spec.eval e with
  | .ok (.set _) => true
  | _ => false

/-- is every sub-term a literal (such values are canonical, so `=` inside `(<>=)` is C02-exact) -/
def isLit : E → Bool
  | .lit _ => true
  | _ => false

def genPair : Gen (E × String × E × String) := do
  let ka ← pick repKinds
  let a ← genOperand ka
  let mode ← rand 10
  if mode < 4 then
    let b ← genOperand ka
    pure (a, ka, b, ka)
  else if mode < 7 then
    let kb ← pick repKinds
    let b ← genOperand kb
    pure (a, ka, b, kb)
  else if mode < 9 then
    let o ← genOperand ka
    let b ← genRelated a o
    pure (a, ka, b, ka)
  else
    pure (a, ka, asSetLiteral a, ka)

/-- operands produced by earlier operators -/
def genNested : Gen (E × String) := do
  let (a, ka, b, kb) ← genPair
  let op ← pick (setOps ++ [.union, .diff])
  pure (.bin op a b, "(" ++ ka ++ op.src ++ kb ++ ")")

/-! ## relations held with a permuted physical column order -/

def colNames : List String := ["a", "b", "c", "d", "e"]

def shuffle {α} [Inhabited α] (xs : List α) : Gen (List α) := do
  let mut rest := xs
  let mut out : List α := []
  for _ in [0:xs.length] do
    let i ← rand rest.length
    out := rest.getD i default :: out
    rest := rest.eraseIdx i
  pure out

/-- row `r` of the master relation: column `j` holds `(r + shift_j) % 5`, so every column is a key -/
def masterRows (shifts : List Nat) : List (List Lit) :=
  (List.range 5).map fun r => shifts.map fun sh => numL (((r + sh) % 5 : Nat))

def projSrc (names : List String) (rows : List (List Lit)) (cols : List Nat) : String :=
  "{|" ++ ", ".intercalate (cols.map fun c => names.getD c "a") ++ "| " ++
    ", ".intercalate (rows.map fun row =>
      "(" ++ ", ".intercalate (cols.map fun c => (row.getD c (numL 0)).src) ++ ")") ++ "}"

/-- a random association (and operand order) of the natural join of the leaves, left to right -/
def joinTree : Nat → List String → Gen String
  | _, [] => pure "{}"
  | _, [x] => pure x
  | 0, x :: r => pure (r.foldl (fun acc y => "(" ++ acc ++ " <&> " ++ y ++ ")") x)
  | f + 1, ls => do
    let k ← rand (ls.length - 1)
    let a ← joinTree f (ls.take (k + 1))
    let b ← joinTree f (ls.drop (k + 1))
    let sw ← chance 1 2
    pure ("(" ++ (if sw then b ++ " <&> " ++ a else a ++ " <&> " ++ b) ++ ")")

/-- the relation `{|names| rows}` (every column a key) computed as a join of its projections on pairs
of columns that are consecutive in a random column order: the value of the literal, another physical
column order -/
def genPermRel (names : List String) (rows : List (List Lit)) : Gen E := do
  if rows.isEmpty then pure (.lit (.set []))
  else
    let k := names.length
    let order ← shuffle (List.range k)
    let leaves : List String :=
      if k ≤ 1 then [projSrc names rows order]
      else if k == 2 then [projSrc names rows (order.drop 1), projSrc names rows order]
      else (List.range (k - 1)).map fun i => projSrc names rows [order.getD i 0, order.getD (i + 1) 0]
    let leaves ← if k == 2 then (do if ← chance 1 2 then pure leaves.reverse else pure leaves) else pure leaves
    let src ← joinTree leaves.length leaves
    pure (.relj names rows src)

def pickRows (rows : List (List Lit)) : Gen (List (List Lit)) := do
  let mut out : List (List Lit) := []
  for r in rows do
    if ← chance 3 5 then out := r :: out
  if out.isEmpty then pure (rows.take 1) else pure out.reverse

def rowTuple (names : List String) (row : List Lit) : Lit := .tup (names.zip row)

def genPermProgram (idx : Nat) : Gen (List Case) := do
  let id := s!"C01-{idx}"
  let k ← pick [3, 3, 3, 4, 4, 5, 2]
  let names := colNames.take k
  let shifts ← genList k (rand 5)
  let master := masterRows shifts
  let ra ← pickRows master
  let rb ← pickRows master
  let a ← genPermRel names ra
  let bk ← rand 4
  let extra : List Lit := names.map fun _ => numL 7
  let b ← match bk with
    | 0 => genPermRel names rb
    | 1 => do
      let pn ← shuffle (List.range k)
      let rows := (if ← chance 1 3 then rb ++ [extra] else rb)
      pure (E.lit (.rel (pn.map fun c => names.getD c "a") (rows.map fun row => pn.map fun c => row.getD c (numL 0))))
    | 2 => pure (E.lit (.set (rb.map (rowTuple names))))
    | _ => do
      -- a relation of another heading, or a mixed set holding some of the rows
      if ← chance 1 2 then pure (E.lit (.set (numL 1 :: (rb.take 2).map (rowTuple names))))
      else genPermRel (names.take (k - 1)) (rb.map (·.take (k - 1)))
  let bkName := match bk with | 0 => "perm" | 1 => "lit" | 2 => "set" | _ => "other"
  let form ← rand 10
  if form < 5 then
    let op ← pick setOps
    let sw ← chance 1 2
    let e : E := if sw then .bin op b a else .bin op a b
    observe id s!"permrel/{op.src}/{k}/{bkName}" e true
  else if form < 7 then
    let op ← pick (subsetOps ++ [.compe, .ncompe])
    let sw ← chance 1 2
    observe id s!"permrel/{op.src}/{k}/{bkName}" (if sw then .cmp op b a else .cmp op a b) false
  else if form < 8 then
    let op ← pick [BinOp.with_, BinOp.without]
    let row ← pick master
    let row ← if ← chance 1 4 then pure extra else pure row
    observe id s!"permrel/{op.src}/{k}" (.bin op a (.lit (rowTuple names row))) true
  else if form < 9 then
    let n ← pick names
    let kk : T := .const (numL (← rand 5))
    let p ← pick [P.lt (.attr .dot n) kk, P.ne (.attr .dot n) kk, P.le kk (.attr .dot n)]
    let viaDarrow ← chance 1 2
    let n2 ← pick names
    let f ← pick [T.attr .dot n, T.tup2 "x" (.attr .dot n) "y" (.attr .dot n2), T.tup2 "@" (.attr .dot n) "@item" .dot]
    if viaDarrow then observe id s!"permrel/=>/{k}" (.darrow a f) true
    else observe id s!"permrel/where/{k}" (.where_ a p) true
  else
    let small ← genPermRel names (ra.take 3)
    if ← chance 1 2 then observe id s!"permrel/^/{k}" (.pow small) true
    else observe id s!"permrel/count/{k}" (.bin .union (.bin .inter a b) small) true

/-! ## three steps from one shared intermediate value -/

/-- a member that extends the set "at its end": the next index of a sequence, a fresh key, a new row -/
def nextElem (ms : List V) : Gen Lit := do
  let pairs := ms.filterMap fun m => match m with
    | .tup [("@", .num i), (n, _)] => some (n, i)
    | _ => none
  match pairs with
  | (n, i0) :: r =>
    let hi := r.foldl (fun acc p => if p.1 == n && acc < p.2 then p.2 else acc) i0
    let at_ ← if ← chance 1 5 then pure (hi + 2) else pure (hi + 1)
    if n == "@char" then pure (charL at_ (← genChar))
    else if n == "@byte" then pure (byteL at_ (← rand 3))
    else if n == "@item" then pure (itemL at_ (← genAtom))
    else pure (entryL (numL (← rand 5)) (← genNum))
  | [] =>
    match ms with
    | .tup as :: _ =>
      if as.isEmpty then genNum else do
        let vals ← genList as.length genNum
        pure (.tup ((as.map (·.1)).zip vals))
    | _ => do
      if ← chance 1 3 then genBucketMember (← rand 8) else genNum

def genStep (a : E) : Gen (BinOp × E) := do
  let ms := membersOf a
  let r ← rand 10
  if r < 7 then pure (.with_, .lit (← nextElem ms))
  else if r < 8 && !ms.isEmpty then pure (.without, .lit (litOfV (← pickV ms)))
  else pure (.union, .lit (.set [← nextElem ms]))

def genBranchProgram (idx : Nat) : Gen (List Case) := do
  let kind ← pick ["arr", "arr", "sparsearr", "str", "offstr", "holestr", "bytes", "offbytes", "dict", "multidict",
    "rel", "setnum", "union"]
  let x ← genOperand kind
  let (o1, e1) ← genStep x
  let a : E := .bin o1 x e1
  let (o2, e2) ← genStep a
  let (o3, e3) ← genStep a
  let b : E := .bin o2 a e2
  let c : E := .bin o3 a e3
  match Spec.eval a, Spec.eval b, Spec.eval c, Impl.eval a, Impl.eval b, Impl.eval c with
  | .ok va, .ok vb, .ok vc, ma, mb, mc =>
    let cls := classOfFlags ((flags b).or (flags c))
    let model := match ma, mb, mc with
      | .ok ia, .ok ib, .ok ic => (V.mkArr [ib.toV, ic.toV, ia.toV]).canon
      | .panic, _, _ | _, .panic, _ | _, _, .panic => "panic"
      | _, _, _ => "?"
    if cls == "good" && model == "?" then pure []
    else
      let src := "let a = " ++ a.src ++ "; let b = (a " ++ o2.src ++ " " ++ e2.src ++ "); let c = (a " ++
        o3.src ++ " " ++ e3.src ++ "); [b, c, a]"
      pure [{ id := s!"C01-{idx}-br", cls := cls, kind := "eval", stratum := s!"branch/{kind}/{o2.src}/{o3.src}",
              model := model, spec := (V.mkArr [vb, vc, va]).canon, payload := [src] }]
  | _, _, _, _, _, _ => pure []

/-! ## the result as a value: `=` against the canonical literal, truthiness, use as a member -/

/-- observables that depend on the representation being canonical, not only on what it enumerates -/
def observeEq (id stratum : String) (e : E) : List Case :=
  match Spec.eval e with
  | .ok (.set xs) =>
    let cls := classOf e
    let l := (litOfV (.set xs)).src
    let mk (tag src spec : String) : Case :=
      { id := id ++ tag, cls := cls, kind := "eval", stratum := stratum, model := spec, spec := spec, payload := [src] }
    [ mk "-eq" ("(" ++ e.src ++ " = " ++ l ++ ")") "{()}",
      mk "-qe" ("(" ++ l ++ " = " ++ e.src ++ ")") "{()}",
      mk "-tr" ("(" ++ e.src ++ " = {})") (V.bool xs.isEmpty).canon,
      mk "-cd" ("cond " ++ e.src ++ " {{}: 0, _: 1}") (if xs.isEmpty then "0" else "1"),
      mk "-mb" ("({" ++ e.src ++ ", " ++ l ++ "} count)") "1",
      mk "-ky" ("({" ++ e.src ++ ": 1} | {" ++ l ++ ": 1}) count") "1" ]
  | _ => []

/-- both operands are mixed-kind sets (UnionSets) that share at least one whole bucket exactly -/
def genMixedProgram (idx : Nat) : Gen (List Case) := do
  let id := s!"C01-{idx}"
  let kinds ← shuffle ["str", "arr", "setnum", "dict", "rel", "bytes", "offstr", "setsets"]
  let nk ← pick [2, 3, 3, 4]
  let kinds := kinds.take nk
  let allEq ← chance 1 5
  let mut pa : List E := []
  let mut pb : List E := []
  let mut first := true
  for k in kinds do
    let x ← genOperand k
    let mode ← rand 5
    if first || allEq || mode < 2 then
      pa := x :: pa; pb := x :: pb
    else if mode == 2 then
      let y ← genOperand k
      pa := x :: pa; pb := y :: pb
    else if mode == 3 then pa := x :: pa
    else pb := x :: pb
    first := false
  if ← chance 1 2 then pb := pb.reverse
  let mkU (ps : List E) : E := match ps with
    | [] => .lit (.set [])
    | x :: r => r.foldl (fun acc y => .bin .union acc y) x
  let a := mkU pa
  let b := mkU pb
  let form ← rand 10
  if form < 7 then
    let op ← pick (setOps ++ [.symdiff, .diff])
    let e : E := .bin op a b
    let cs ← observe id s!"mixed/{op.src}/{nk}" e true
    pure (cs ++ observeEq id s!"mixed/{op.src}/{nk}" e)
  else
    let op ← pick (subsetOps ++ [.compe, .ncompe])
    observe id s!"mixed/{op.src}/{nk}" (.cmp op a b) false

def genProgram (idx : Nat) : Gen (List Case) := do
  let id := s!"C01-{idx}"
  let form0 ← rand 123
  if form0 ≥ 115 then genMixedProgram idx
  else if form0 ≥ 107 then genBranchProgram idx
  else if form0 ≥ 100 then genPermProgram idx
  else
  let form := form0
  if form < 40 then
    let (a, ka, b, kb) ← genPair
    let op ← pick setOps
    let strat := s!"{op.src}/{ka}/{kb}/{relationOf (membersOf a) (membersOf b) ka kb}"
    observe id strat (.bin op a b) true
  else if form < 55 then
    let ka ← pick repKinds
    let a ← genOperand ka
    let x ← genElem a
    let op ← pick [BinOp.with_, BinOp.without]
    let present := (membersOf a).contains (match Spec.eval x with | .ok v => v | _ => .num 0)
    observe id s!"{op.src}/{ka}/{if present then "present" else "absent"}" (.bin op a x) true
  else if form < 67 then
    let (a, ka, b, kb) ← genPair
    let lits := isLit a && isLit b
    let op ← pick (if lits then subsetOps ++ [.compe, .ncompe] else subsetOps)
    if isSetE a && isSetE b then
      let strat := s!"{op.src}/{ka}/{kb}/{relationOf (membersOf a) (membersOf b) ka kb}"
      observe id strat (.cmp op a b) false
    else pure []
  else if form < 77 then
    let ka ← pick repKinds
    let a ← genOperand ka
    let odd ← chance 1 12
    let shape ← if odd then pick ["num", "@char", "@item", "tup:a", "set"] else pure (shapeOf (membersOf a))
    let p ← genPredFor shape
    observe id s!"where/{ka}" (.where_ a p) true
  else if form < 86 then
    let ka ← pick repKinds
    let a ← genOperand ka
    let odd ← chance 1 12
    let shape ← if odd then pick ["num", "@char", "@item", "tup:a", "set"] else pure (shapeOf (membersOf a))
    let f ← genFunFor shape
    observe id s!"=>/{ka}" (.darrow a f) true
  else if form < 91 then
    let ka ← pick repKinds
    let a ← genOperand ka
    if (membersOf a).length ≤ 4 then observe id s!"^/{ka}" (.pow a) true else pure []
  else if form < 97 then
    let (l, kl) ← genNested
    let kb ← pick repKinds
    let b ← genOperand kb
    let op ← pick setOps
    let swap ← chance 1 2
    let e : E := if swap then .bin op b l else .bin op l b
    observe id s!"nested/{op.src}/{if swap then kb ++ "/" ++ kl else kl ++ "/" ++ kb}" e true
  else
    -- ill-typed operands: the property only demands a value or an error
    let a ← genOperand (← pick repKinds)
    let n : E := .lit (← pick [numL 1, .tup [("a", numL 1)], charL 0 97])
    let op ← pick (setOps ++ [.with_, .without])
    let r ← rand 3
    let c ← pick [CmpOp.sub, CmpOp.sube, CmpOp.comp, CmpOp.compe, CmpOp.nsup]
    let sw ← chance 1 2
    let e : E := match r with
      | 0 => .bin op n a
      | 1 => if op == .with_ || op == .without then .count n else .bin op a n
      | _ => if sw then .pow n else (if op == .union then .cmp c n a else .cmp c a n)
    observe id "ill-typed" e false

/-! ## corpus: witnesses of the repaired defects and of the known findings, minimised past failures -/

def corpusExprs : List (String × E) :=
  let s (x : String) : E := .lit (strL x)
  let bytes (l : List Nat) : E := .lit (.bytes 0 l)
  [ -- Bytes.Without truncated the tail
    ("bytes-without-first", .bin .without (bytes [1, 2, 3]) (.lit (byteL 0 1))),
    ("bytes-without-last", .bin .without (bytes [1, 2, 3]) (.lit (byteL 2 3))),
    ("bytes-diff", .bin .diff (bytes [1, 2, 3]) (bytes [1])),
    -- String.with fallback built a GenericSet of char tuples inside a UnionSet
    ("str-with-beyond", .bin .with_ (s "abc") (.lit (charL 5 100))),
    ("str-with-beyond-has", .cmp .mem (.lit (charL 5 100)) (.bin .with_ (s "abc") (.lit (charL 5 100)))),
    ("str-union-gap", .bin .union (s "ab") (.lit (.str 3 [99, 100]))),
    ("str-union-gap-has", .cmp .mem (.lit (charL 0 97)) (.bin .union (s "ab") (.lit (.str 3 [99, 100])))),
    ("str-union-gap-count", .count (.bin .union (s "ab") (.lit (.str 3 [99, 100])))),
    ("str-fill-hole", .bin .with_ (.bin .without (s "abc") (.lit (charL 1 98))) (.lit (charL 1 120))),
    ("str-with-before", .bin .with_ (s "abc") (.lit (charL (-3) 120))),
    -- asString counted duplicate members twice
    ("str-dup-count", .count (.lit (.set [charL 0 97, charL 0 97]))),
    ("str-darrow-dup-count", .count (.darrow (.lit (.set [numL 1, numL 2])) (.tup2 "@" (.const (numL 0)) "@char" (.const (numL 97))))),
    -- Dict with a multi-valued key
    ("dict-multi-count", .count (.bin .union (.lit (.dict [(numL 1, numL 2)])) (.lit (.dict [(numL 1, numL 3)])))),
    ("dict-multi-has", .cmp .mem (.lit (entryL (numL 1) (numL 3)))
        (.bin .union (.lit (.dict [(numL 1, numL 2)])) (.lit (.dict [(numL 1, numL 3)])))),
    ("dict-multi-without", .bin .without
        (.bin .union (.lit (.dict [(numL 1, numL 2)])) (.lit (.dict [(numL 1, numL 3)]))) (.lit (entryL (numL 1) (numL 3)))),
    ("dict-multi-where", .where_
        (.bin .union (.bin .union (.lit (.dict [(numL 1, numL 2)])) (.lit (.dict [(numL 1, numL 3)]))) (.lit (.dict [(numL 2, numL 4)])))
        (.eq (.attr .dot "@") (.const (numL 1)))),
    ("dict-multi-inter", .bin .inter
        (.bin .union (.lit (.dict [(numL 1, numL 2)])) (.lit (.dict [(numL 1, numL 3)]))) (.lit (.dict [(numL 1, numL 3)]))),
    ("dict-multi-subset", .cmp .sub (.lit (.dict [(numL 1, numL 3)]))
        (.bin .union (.lit (.dict [(numL 1, numL 2)])) (.lit (.dict [(numL 1, numL 3)])))),
    -- known findings
    ("kf-super-str", .bin .union (s "ab") (s "cd")),
    ("kf-super-str-count", .count (.lit (.set [charL 0 97, charL 0 98]))),
    ("kf-super-arr", .bin .union (.lit (.arr 0 [some (numL 1)])) (.lit (.arr 0 [some (numL 2)]))),
    ("kf-bytes-holes", .bin .without (bytes [1, 2, 3]) (.lit (byteL 1 2))),
    ("kf-bytes-holes-union", .bin .union (.bin .without (bytes [1, 2, 3]) (.lit (byteL 1 2))) (.lit (.bytes 5 [7]))),
    ("kf-bytes-holes-has", .cmp .mem (.lit (byteL 0 1))
        (.bin .union (.bin .without (bytes [1, 2, 3]) (.lit (byteL 1 2))) (.lit (.bytes 5 [7])))),
    ("kf-bytes-set-literal", .lit (.set [byteL 0 1, byteL 2 3])),
    ("range-byte", .cmp .mem (.lit (byteL 0 300)) (bytes [44])),
    ("range-char", .count (.bin .with_ (s "ab") (.lit (pairL "@char" (numL 1) (numL (-1)))))),
    ("range-char-union", .bin .union (.lit (.set [pairL "@char" (numL 0) (numL (-1))])) (s "ab")),
    ("range-byte-set", .count (.lit (.set [byteL 0 300, byteL 0 44]))),
    -- Relation.With takes a specialisable tuple into a relation of heading (@, @char)
    ("relwith", .bin .with_ (.lit (.set [pairL "@char" (numL 0) (numL (-1))])) (.lit (charL 1 97))),
    ("relwith-has", .cmp .mem (.lit (charL 1 97))
        (.bin .union (.bin .with_ (.lit (.set [pairL "@char" (numL 0) (numL (-1))])) (.lit (charL 1 97))) (.lit (.str 2 [120])))),
    -- a relation computed by joins holds its columns in another physical order than a literal
    ("permrel-inter", .bin .inter (.relj ["a", "b", "c"] [[numL 3, numL 1, numL 2]] "({|b, c| (1, 2)} <&> {|a, b| (3, 1)})")
        (.lit (.rel ["a", "b", "c"] [[numL 3, numL 1, numL 2]]))),
    ("permrel-diff", .bin .diff (.relj ["a", "b", "c"] [[numL 3, numL 1, numL 2]] "({|b, c| (1, 2)} <&> {|a, b| (3, 1)})")
        (.lit (.rel ["a", "b", "c"] [[numL 3, numL 1, numL 2]]))),
    ("permrel-symdiff", .bin .symdiff (.lit (.rel ["a", "b", "c"] [[numL 3, numL 1, numL 2], [numL 0, numL 0, numL 0]]))
        (.relj ["a", "b", "c"] [[numL 3, numL 1, numL 2]] "({|b, c| (1, 2)} <&> {|a, b| (3, 1)})")),
    -- power set, subset family, true/empty
    ("pow-str", .pow (s "ab")),
    ("pow-true", .pow (.lit .tt)),
    ("pow-union", .pow (.lit (.set [numL 1, charL 0 97]))),
    ("sub-empty", .cmp .sub (.lit .ff) (.lit .ff)),
    ("sube-empty", .cmp .sube (.lit .ff) (.lit .ff)),
    ("true-union", .bin .union (.lit .tt) (.lit (.set [numL 1]))),
    ("true-with-char", .bin .with_ (.lit .tt) (.lit (charL 0 97))) ]

def corpus : List Case :=
  corpusExprs.filterMap fun (n, e) => mkCase ("C01-corpus-" ++ n) "corpus" e

/-- fractional indices cannot be written in `V`: fixed source text with the expected canon -/
def rawCorpus : List Case :=
  [ { id := "C01-corpus-frac-char", cls := "good", kind := "eval", stratum := "corpus",
      model := "{(@:1.5,@char:97)}", spec := "{(@:1.5,@char:97)}", payload := ["{(@: 1.5, @char: 97)}"] },
    { id := "C01-corpus-frac-char-has", cls := "good", kind := "eval", stratum := "corpus",
      model := "{}", spec := "{}", payload := ["((@: 1.5, @char: 98) <: 'abc')"] },
    -- two values grown from one shared array must not see each other's item
    { id := "C01-corpus-branch-array", cls := "good", kind := "eval", stratum := "corpus",
      model := "{(@:0,@item:{(@:0,@item:1),(@:1,@item:2),(@:2,@item:3),(@:3,@item:4)}),(@:1,@item:{(@:0,@item:1),(@:1,@item:2),(@:2,@item:3),(@:3,@item:5)}),(@:2,@item:{(@:0,@item:1),(@:1,@item:2),(@:2,@item:3)})}",
      spec := "{(@:0,@item:{(@:0,@item:1),(@:1,@item:2),(@:2,@item:3),(@:3,@item:4)}),(@:1,@item:{(@:0,@item:1),(@:1,@item:2),(@:2,@item:3),(@:3,@item:5)}),(@:2,@item:{(@:0,@item:1),(@:1,@item:2),(@:2,@item:3)})}",
      payload := ["let a = [1, 2] with (@: 2, @item: 3); let b = a with (@: 3, @item: 4); let c = a with (@: 3, @item: 5); [b, c, a]"] } ]

/-! ## exhaustive pairs from a fixed pool (thorough tier) -/

def pool : List E :=
  let l (x : Lit) : E := .lit x
  [ l .ff, l .tt, l (strL "a"), l (strL "ab"), l (strL "ba"), l (strL "abc"), l (.str 1 [98]), l (.str 1 [97, 98]),
    l (.str 2 [99]), l (.str (-1) [97]), .bin .without (l (strL "abc")) (l (charL 1 98)),
    l (.bytes 0 [1]), l (.bytes 0 [1, 2]), l (.bytes 0 [2, 1]), l (.bytes 1 [2]), l (.bytes 1 [2, 3]), l (.bytes 0 [1, 2, 3]),
    l (.arr 0 [some (numL 1)]), l (.arr 0 [some (numL 1), some (numL 2)]), l (.arr 0 [some (numL 2)]),
    l (.arr 1 [some (numL 2)]), l (.arr 0 [some (numL 1), none, some (numL 3)]), l (.arr 2 [some (numL 3)]),
    l (.arr 0 [some (strL "a")]), l (.arr 0 [some (.set [])]),
    l (.dict [(numL 1, numL 2)]), l (.dict [(numL 1, numL 3)]), l (.dict [(numL 2, numL 2)]),
    l (.dict [(numL 1, numL 2), (numL 2, numL 2)]), l (.dict [(strL "a", numL 1)]),
    .bin .union (l (.dict [(numL 1, numL 2)])) (l (.dict [(numL 1, numL 3)])),
    l (.rel ["a"] [[numL 1]]), l (.rel ["a"] [[numL 1], [numL 2]]), l (.rel ["a", "b"] [[numL 1, numL 2]]),
    l (.rel ["b", "a"] [[numL 2, numL 1]]), l (.rel ["a", "b"] [[numL 1, numL 2], [numL 2, numL 1]]),
    l (.rel ["b"] [[numL 1]]),
    l (.set [numL 1]), l (.set [numL 2]), l (.set [numL 1, numL 2]), l (.set [numL 1, numL 2, numL 3]),
    l (.set [.set []]), l (.set [.set [], .set [numL 1]]), l (.set [strL "a"]), l (.set [.tt]), l (.set [.tup []  , numL 1]),
    l (.set [numL 1, charL 0 97]), l (.set [numL 1, charL 0 97, itemL 0 (numL 1)]),
    l (.set [charL 0 97, itemL 0 (numL 1)]), l (.set [numL 1, .tup [("a", numL 1)]]),
    l (.set [charL 0 97, byteL 0 1]), l (.set [entryL (numL 1) (numL 2), numL 1]),
    .bin .union (l (strL "ab")) (l (.set [numL 1, numL 2])),
    .bin .union (l (.arr 0 [some (numL 1)])) (l (.rel ["a"] [[numL 1]])),
    l (.set [charL 0 97, charL 2 99]), l (.set [itemL 0 (numL 1), itemL 1 (numL 1)]),
    l (.set [.tup [("a", numL 1)], .tup [("b", numL 1)]]),
    l (.set [charL 1 98]), l (.set [byteL 0 1, byteL 1 2]), l (.set [entryL (numL 1) (numL 2), entryL (numL 1) (numL 3)]) ]

def elemPool : List E :=
  let l (x : Lit) : E := .lit x
  [ l (numL 1), l (numL 2), l (.tup []), l (.tup [("a", numL 1)]), l (.tup [("a", numL 1), ("b", numL 2)]),
    l (charL 0 97), l (charL 1 98), l (charL 2 99), l (charL 3 100), l (charL (-1) 97), l (charL 0 98),
    l (byteL 0 1), l (byteL 1 2), l (byteL 2 3), l (byteL 0 2),
    l (itemL 0 (numL 1)), l (itemL 1 (numL 2)), l (itemL 2 (numL 3)), l (itemL 0 (numL 2)), l (itemL 5 (numL 1)),
    l (entryL (numL 1) (numL 2)), l (entryL (numL 1) (numL 3)), l (entryL (numL 2) (numL 2)),
    l (.set []), l (.set [numL 1]), l (strL "a") ]

def exhaustive : List Case := Id.run do
  let mut out : List Case := []
  let mut i := 0
  for a in pool do
    for b in pool do
      for op in setOps do
        let e : E := .bin op a b
        if let some c := mkCase s!"C01-x{i}-v" ("exh/" ++ op.src) e then out := c :: out
        if let some c := mkCase s!"C01-x{i}-n" ("exh/" ++ op.src) (.count e) then out := c :: out
        i := i + 1
      for op in [CmpOp.sub, CmpOp.sube, CmpOp.comp] ++ (if isLit a && isLit b then [CmpOp.compe] else []) do
        if let some c := mkCase s!"C01-x{i}-v" ("exh/" ++ op.src) (.cmp op a b) then out := c :: out
        i := i + 1
  for a in pool do
    for x in elemPool do
      for op in [BinOp.with_, BinOp.without] do
        let e : E := .bin op a x
        if let some c := mkCase s!"C01-x{i}-v" ("exh/" ++ op.src) e then out := c :: out
        if let some c := mkCase s!"C01-x{i}-n" ("exh/" ++ op.src) (.count e) then out := c :: out
        if let some c := mkCase s!"C01-x{i}-h" ("exh/" ++ op.src) (.cmp .mem x e) then out := c :: out
        i := i + 1
  pure out.reverse

def gen (seed n : Nat) (thorough : Bool) : List Case := Id.run do
  let mut out : List Case := (corpus ++ rawCorpus).reverse
  if thorough then out := exhaustive.reverse ++ out
  for i in [0:n] do
    let (cs, _) := (genProgram i).run (seedOf seed (100000 + i))
    out := cs.reverse ++ out
  pure out.reverse

end Arrai.C01
