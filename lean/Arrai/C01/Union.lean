/-
  C01 helper lemmas, part 5: With/Without on UnionSets, CanonicalSet, Union, SymmetricDifference and the
  subset comparisons — proved from the interface contracts.
-/
import Arrai.C01.With

namespace Arrai.C01
open Arrai Arrai.FinSet KSeq

/-- a well-formed set all of whose members are of one kind is not a UnionSet -/
theorem plain_of_one_bucket (r : Rep) (h : r.WF) (b : Bucket) (hb : ∀ x, x ∈ r.members → bucketOf x = b) :
    ∃ p, r = .plain p := by
  cases r with
  | plain p => exact ⟨p, rfl⟩
  | union bs =>
    exfalso
    obtain ⟨hw, hl⟩ := h
    cases bs with
    | nil => simp at hl
    | cons q1 r1 =>
      cases r1 with
      | nil => simp at hl
      | cons q2 r2 =>
        obtain ⟨k1, p1⟩ := q1
        obtain ⟨k2, p2⟩ := q2
        obtain ⟨w1, n1, b1⟩ := hw.2 (k1, p1) (by simp)
        obtain ⟨w2, n2, b2⟩ := hw.2 (k2, p2) (by simp)
        have hk := hw.1
        simp only [List.map_cons, List.nodup_cons, List.mem_cons] at hk
        obtain ⟨x1, hx1⟩ := List.exists_mem_of_ne_nil _ n1
        obtain ⟨x2, hx2⟩ := List.exists_mem_of_ne_nil _ n2
        have e1 := hb x1 ((mem_bucketsMembers _ x1).2 ⟨k1, p1, by simp, hx1⟩)
        have e2 := hb x2 ((mem_bucketsMembers _ x2).2 ⟨k2, p2, by simp, hx2⟩)
        rw [Plain.members_bucket p1 w1 x1 hx1] at e1
        rw [Plain.members_bucket p2 w2 x2 hx2] at e2
        apply hk.1
        left
        show k1 = k2
        have h1 : p1.bucket = k1 := b1
        have h2 : p2.bucket = k2 := b2
        rw [← h1, ← h2, e1, e2]

/-! ## UnionSet.With / UnionSet.Without -/

def RepWithAdm : Rep → V → Prop
  | .plain p, v => WithAdm p v
  | .union bs, v => WithAdm (getSubset bs (bucketOf v)) v

theorem getSubset_nonempty (bs : List (Bucket × Plain)) (h : BucketsWF bs) (k : Bucket) :
    getSubset bs k = .empty ∨ (getSubset bs k).members ≠ [] := by
  unfold getSubset
  cases hg : AL.get k bs with
  | none => exact Or.inl rfl
  | some p => exact Or.inr (h.2 (k, p) ((AL.get_eq_some_of_mem bs h.1 k p).1 hg)).2.1

theorem Rep.with_spec (r : Rep) (h : r.WF) (hne : r = .plain .empty ∨ r.members ≠ []) (v : V)
    (hadm : RepWithAdm r v) :
    ∃ r', r.with_ v = .ok r' ∧ r'.WF ∧ ∀ x, x ∈ r'.members ↔ x = v ∨ x ∈ r.members := by
  cases r with
  | plain p =>
    apply Plain.with_spec p h ?_ v hadm
    rcases hne with h1 | h1
    · left; simpa using h1
    · right; exact h1
  | union bs =>
    simp only [Rep.with_, unionWith]
    obtain ⟨r', e1, w1, m1⟩ := Plain.with_spec (getSubset bs (bucketOf v)) (getSubset_wf bs h.1 _)
      (getSubset_nonempty bs h.1 _) v hadm
    have hall : ∀ x, x ∈ r'.members → bucketOf x = bucketOf v := by
      intro x hx
      rcases (m1 x).1 hx with rfl | hx
      · rfl
      · exact ((mem_getSubset bs h.1 _ x).1 hx).2
    obtain ⟨p', rfl⟩ := plain_of_one_bucket r' w1 _ hall
    rw [e1]
    simp only [asPlain]
    have hvm : v ∈ p'.members := (m1 v).2 (Or.inl rfl)
    have hne' : p'.members ≠ [] := fun hc => by rw [hc] at hvm; cases hvm
    have hbk : p'.bucket = bucketOf v := by rw [← Plain.members_bucket p' w1 v hvm]
    refine ⟨_, rfl, fromBuckets_wf _ (h.1.put _ _ w1 hne' hbk), ?_⟩
    intro x
    rw [fromBuckets_members, mem_bucketsMembers_put bs h.1 _ _ w1 (fun _ => hbk)]
    show x ∈ p'.members ∨ _ ↔ x = v ∨ x ∈ bucketsMembers bs
    have := m1 x
    simp only [Rep.members] at this
    rw [this, mem_getSubset bs h.1]
    constructor
    · rintro ((rfl | ⟨h1, _⟩) | ⟨h1, _⟩)
      · exact Or.inl rfl
      · exact Or.inr h1
      · exact Or.inr h1
    · rintro (rfl | h1)
      · exact Or.inl (Or.inl rfl)
      · by_cases hk : bucketOf x = bucketOf v
        · exact Or.inl (Or.inr ⟨h1, hk⟩)
        · exact Or.inr ⟨h1, hk⟩

def RepWithoutAdm : Rep → V → Prop
  | .plain p, v => WithoutAdm p v
  | .union bs, v => WithoutAdm (getSubset bs (bucketOf v)) v

theorem Rep.without_spec (r : Rep) (h : r.WF) (v : V) (hadm : RepWithoutAdm r v) :
    (r.without v).WF ∧ ∀ x, x ∈ (r.without v).members ↔ x ∈ r.members ∧ x ≠ v := by
  cases r with
  | plain p =>
    obtain ⟨w1, w2⟩ := Plain.without_spec p h v
    exact ⟨w1 hadm, w2⟩
  | union bs =>
    simp only [Rep.without, unionWithout]
    have hhas := Rep.has_iff (.union bs) h v
    simp only [Rep.has, Rep.members] at hhas
    by_cases hv : unionHas bs v = true
    · simp only [hv, Bool.not_true, Bool.false_eq_true, if_false]
      obtain ⟨w1, w2⟩ := Plain.without_spec (getSubset bs (bucketOf v)) (getSubset_wf bs h.1 _) v
      have w1 := w1 hadm
      have hsub : ∀ x, x ∈ ((getSubset bs (bucketOf v)).without v).members → bucketOf x = bucketOf v :=
        fun x hx => ((mem_getSubset bs h.1 _ x).1 ((w2 x).1 hx).1).2
      have hmem : ∀ x, (x ∈ ((getSubset bs (bucketOf v)).without v).members ∨
          (x ∈ bucketsMembers bs ∧ bucketOf x ≠ bucketOf v)) ↔ x ∈ bucketsMembers bs ∧ x ≠ v := by
        intro x
        rw [w2, mem_getSubset bs h.1]
        constructor
        · rintro (⟨⟨h1, _⟩, h2⟩ | ⟨h1, h2⟩)
          · exact ⟨h1, h2⟩
          · exact ⟨h1, fun he => h2 (by rw [he])⟩
        · rintro ⟨h1, h2⟩
          by_cases hk : bucketOf x = bucketOf v
          · exact Or.inl ⟨⟨h1, hk⟩, h2⟩
          · exact Or.inr ⟨h1, hk⟩
      by_cases ht : ((getSubset bs (bucketOf v)).without v).isTrue = true
      · simp only [ht, Bool.not_true, Bool.false_eq_true, if_false]
        have hne := (Plain.isTrue_iff _ w1).1 ht
        have hbk : ((getSubset bs (bucketOf v)).without v).members ≠ [] →
            ((getSubset bs (bucketOf v)).without v).bucket = bucketOf v := by
          intro hn
          obtain ⟨x, hx⟩ := List.exists_mem_of_ne_nil _ hn
          rw [← Plain.members_bucket _ w1 x hx]; exact hsub x hx
        refine ⟨fromBuckets_wf _ (h.1.put _ _ w1 hne (hbk hne)), ?_⟩
        intro x
        rw [fromBuckets_members, mem_bucketsMembers_put bs h.1 _ _ w1 hbk]
        exact hmem x
      · simp only [ht, Bool.not_false, if_true]
        have hemp : ((getSubset bs (bucketOf v)).without v).members = [] := by
          apply Classical.byContradiction
          intro hn
          exact ht ((Plain.isTrue_iff _ w1).2 hn)
        refine ⟨fromBuckets_wf _ (h.1.remove _), ?_⟩
        intro x
        rw [fromBuckets_members, mem_bucketsMembers_remove bs h.1]
        have := hmem x
        rw [hemp] at this
        simp only [List.not_mem_nil, false_or] at this
        exact this
    · simp only [hv, Bool.not_false, if_true]
      refine ⟨h, ?_⟩
      intro x
      simp only [Rep.members]
      constructor
      · intro hm
        refine ⟨hm, ?_⟩
        rintro rfl
        exact hv (hhas.2 hm)
      · exact fun hh => hh.1

/-! ## CanonicalSet -/

theorem canonicalSet_spec (r : Rep) (h : r.WF) :
    (canonicalSet r).WF ∧ ∀ x, x ∈ (canonicalSet r).members ↔ x ∈ r.members := by
  unfold canonicalSet
  split
  · rename_i xs
    have hg : ∀ x, x ∈ xs → bucketOf x = .generic := h.2.2.2
    have hadm : FinishAdm xs := by
      apply finishAdm_intro
      · intro i c d h1 _
        by_cases hc : (c : Int) ≤ maxRune
        · have := hg _ h1; rw [bucketOf_charV i c hc] at this; cases this
        · -- an out-of-range char pair is a relation-bucket tuple, not generic
          have := hg _ h1
          simp [bucketOf, charV, pairV, asChar, asByte, asItem, asEntry] at this
          split at this <;> cases this
      · intro i c d h1 _
        by_cases hc : (c : Int) ≤ 255
        · have := hg _ h1; rw [bucketOf_byteV i c hc] at this; cases this
        · have := hg _ h1
          simp [bucketOf, byteV, pairV, asChar, asByte, asItem, asEntry] at this
          split at this <;> cases this
      · intro i j k c d h1 _ hc _ _ _
        have := hg _ h1; rw [bucketOf_byteV i c hc] at this; cases this
      · intro i c d h1 _
        have := hg _ h1; rw [bucketOf_itemV] at this; cases this
    exact finish_spec xs hadm
  · exact ⟨h, fun x => Iff.rfl⟩

/-! ## Union: the loop `for e in b { a = a.With(e) }`, then `CanonicalSet` -/

/-- every step of the element-wise loop is admissible (no superimposed index, no byte gap) -/
def WithAllAdm : Rep → List V → Prop
  | _, [] => True
  | a, v :: r => RepWithAdm a v ∧ ∀ a', a.with_ v = .ok a' → WithAllAdm a' r

theorem withAll_spec (vs : List V) (a : Rep) (h : a.WF) (hne : a = .plain .empty ∨ a.members ≠ [])
    (hadm : WithAllAdm a vs) :
    ∃ r, withAll a vs = .ok r ∧ r.WF ∧ (r = .plain .empty ∨ r.members ≠ []) ∧
      ∀ x, x ∈ r.members ↔ x ∈ a.members ∨ x ∈ vs := by
  induction vs generalizing a with
  | nil => exact ⟨a, rfl, h, hne, by simp⟩
  | cons v r ih =>
    obtain ⟨ad1, ad2⟩ := hadm
    obtain ⟨a', e1, w1, m1⟩ := Rep.with_spec a h hne v ad1
    have hne' : a' = .plain .empty ∨ a'.members ≠ [] := by
      right
      intro hc
      have := (m1 v).2 (Or.inl rfl)
      rw [hc] at this; cases this
    obtain ⟨r', e2, w2, n2, m2⟩ := ih a' w1 hne' (ad2 a' e1)
    refine ⟨r', ?_, w2, n2, ?_⟩
    · simp only [withAll, e1]; exact e2
    · intro x
      rw [m2, m1, List.mem_cons]
      constructor
      · rintro ((h1 | h1) | h1)
        · exact Or.inr (Or.inl h1)
        · exact Or.inl h1
        · exact Or.inr (Or.inr h1)
      · rintro (h1 | h1 | h1)
        · exact Or.inl (Or.inr h1)
        · exact Or.inl (Or.inl h1)
        · exact Or.inr h1

theorem unionPP_spec (a b : Plain) (ha : a.WF) (hb : b.WF) (hna : a = .empty ∨ a.members ≠ [])
    (hnb : b = .empty ∨ b.members ≠ []) (hadm : WithAllAdm (.plain a) b.members) :
    ∃ r, unionPP a b = .ok r ∧ r.WF ∧ ∀ x, x ∈ r.members ↔ x ∈ a.members ∨ x ∈ b.members := by
  unfold unionPP
  split
  · exact ⟨_, rfl, hb, by simp [Rep.members, Plain.members]⟩
  · exact ⟨_, rfl, ha, by simp [Rep.members, Plain.members]⟩
  · rename_i xs ys
    have hw : (Rep.plain (fromFrozen (FinSet.union xs ys))).WF := by
      apply fromFrozen_wf _ (FinSet.sorted_union xs ys hb.1)
      intro x hx
      rcases (FinSet.mem_union xs ys x).1 hx with h1 | h1
      · exact ha.2.2.2 x h1
      · exact hb.2.2.2 x h1
    obtain ⟨c1, c2⟩ := canonicalSet_spec _ hw
    refine ⟨_, rfl, c1, ?_⟩
    intro x
    rw [c2]
    show x ∈ (fromFrozen _).members ↔ _
    rw [fromFrozen_members]
    exact FinSet.mem_union xs ys x
  · rename_i n1 n2 n3
    have hae : a ≠ .empty := n1
    have hbe : b ≠ .empty := n2
    have hna' : a.members ≠ [] := by rcases hna with h1 | h1; exact absurd h1 hae; exact h1
    have hnb' : b.members ≠ [] := by rcases hnb with h1 | h1; exact absurd h1 hbe; exact h1
    split
    · rename_i hbk
      refine ⟨_, rfl, ?_, ?_⟩
      · apply fromBuckets_wf
        refine ⟨?_, ?_⟩
        · simp only [List.map_cons, List.map_nil, List.nodup_cons, List.mem_singleton, List.not_mem_nil,
            not_false_eq_true, List.nodup_nil, and_true]
          exact hbk
        · intro kp hm
          simp only [List.mem_cons, List.not_mem_nil, or_false] at hm
          rcases hm with rfl | rfl
          · exact ⟨ha, hna', rfl⟩
          · exact ⟨hb, hnb', rfl⟩
      · intro x
        rw [fromBuckets_members]
        simp [bucketsMembers]
    · obtain ⟨r, e1, w1, _, m1⟩ := withAll_spec b.members (.plain a) ha
        (by rcases hna with h1 | h1; left; rw [h1]; right; exact h1) hadm
      obtain ⟨c1, c2⟩ := canonicalSet_spec r w1
      refine ⟨canonicalSet r, ?_, c1, ?_⟩
      · rw [e1]; rfl
      · intro x; rw [c2, m1]; rfl

/-- admissibility of `Union`: the element-wise paths stay representable -/
def UnionAdm : Rep → Rep → Prop
  | .plain a, .plain b => WithAllAdm (.plain a) b.members
  | .union au, .union bu => ∀ k p q, (k, p) ∈ au → AL.get k bu = some q → WithAllAdm (.plain p) q.members
  | .union au, .plain b => WithAllAdm (.plain (getSubset au b.bucket)) b.members
  | .plain a, .union bu => WithAllAdm (.plain (getSubset bu a.bucket)) a.members

theorem unionWithSubset_spec (au : List (Bucket × Plain)) (hau : BucketsWF au) (b : Plain) (hb : b.WF)
    (hbn : b.members ≠ []) (hadm : WithAllAdm (.plain (getSubset au b.bucket)) b.members) :
    ∃ r, unionWithSubset au b = .ok r ∧ r.WF ∧ ∀ x, x ∈ r.members ↔ x ∈ bucketsMembers au ∨ x ∈ b.members := by
  unfold unionWithSubset
  obtain ⟨r, e1, w1, m1⟩ := unionPP_spec (getSubset au b.bucket) b (getSubset_wf au hau _) hb
    (getSubset_nonempty au hau _) (Or.inr hbn) hadm
  have hall : ∀ x, x ∈ r.members → bucketOf x = b.bucket := by
    intro x hx
    rcases (m1 x).1 hx with h1 | h1
    · exact ((mem_getSubset au hau _ x).1 h1).2
    · exact Plain.members_bucket b hb x h1
  obtain ⟨p', rfl⟩ := plain_of_one_bucket r w1 _ hall
  rw [e1]
  simp only [asPlain]
  obtain ⟨y, hy⟩ := List.exists_mem_of_ne_nil _ hbn
  have hym : y ∈ p'.members := (m1 y).2 (Or.inr hy)
  have hne' : p'.members ≠ [] := fun hc => by rw [hc] at hym; cases hym
  have hbk : p'.bucket = b.bucket := by rw [← Plain.members_bucket p' w1 y hym]; exact hall y hym
  refine ⟨_, rfl, fromBuckets_wf _ (hau.put _ _ w1 hne' hbk), ?_⟩
  intro x
  rw [fromBuckets_members, mem_bucketsMembers_put au hau _ _ w1 (fun _ => hbk)]
  have := m1 x
  simp only [Rep.members] at this
  rw [this, mem_getSubset au hau]
  constructor
  · rintro ((⟨h1, _⟩ | h1) | ⟨h1, _⟩)
    · exact Or.inl h1
    · exact Or.inr h1
    · exact Or.inl h1
  · rintro (h1 | h1)
    · by_cases hk : bucketOf x = b.bucket
      · exact Or.inl (Or.inl ⟨h1, hk⟩)
      · exact Or.inr ⟨h1, hk⟩
    · exact Or.inl (Or.inr h1)

/-! ## Union of two UnionSets: `Map.Merge` per bucket -/

theorem bucketsMembers_append (a b : List (Bucket × Plain)) :
    bucketsMembers (a ++ b) = bucketsMembers a ++ bucketsMembers b := by
  induction a with
  | nil => rfl
  | cons q r ih => obtain ⟨k, p⟩ := q; simp [bucketsMembers, ih]

theorem get_isSome_iff {β : Type} (m : List (Bucket × β)) (k : Bucket) :
    (AL.get k m).isSome = true ↔ k ∈ m.map (·.1) := by
  cases hg : AL.get k m with
  | none =>
    simp only [Option.isSome_none, Bool.false_eq_true, false_iff]
    exact (AL.get_eq_none_iff m k).1 hg
  | some d =>
    simp only [Option.isSome_some, true_iff]
    apply Classical.byContradiction
    intro hn
    rw [(AL.get_eq_none_iff m k).2 hn] at hg; cases hg

theorem mergeBuckets_spec (bu : List (Bucket × Plain)) (hbu : BucketsWF bu) (au : List (Bucket × Plain))
    (hau : BucketsWF au)
    (hadm : ∀ k p q, (k, p) ∈ au → AL.get k bu = some q → WithAllAdm (.plain p) q.members) :
    ∃ m, mergeBuckets bu au = .ok m ∧ BucketsWF m ∧ m.map (·.1) = au.map (·.1) ∧
      ∀ x, x ∈ bucketsMembers m ↔
        x ∈ bucketsMembers au ∨ (x ∈ bucketsMembers bu ∧ bucketOf x ∈ au.map (·.1)) := by
  induction au with
  | nil => exact ⟨[], rfl, BucketsWF.nil, rfl, by simp [bucketsMembers]⟩
  | cons kp r ih =>
    obtain ⟨k, p⟩ := kp
    have hk := hau.1
    simp only [List.map_cons, List.nodup_cons] at hk
    have hr : BucketsWF r := ⟨hk.2, fun kp hm => hau.2 kp (List.mem_cons_of_mem _ hm)⟩
    obtain ⟨hw, hpne, hb⟩ := hau.2 (k, p) (by simp)
    have hpb : p.bucket = k := hb
    obtain ⟨m', e', w', k', mm'⟩ := ih hr (fun k' p' q' hm hg => hadm k' p' q' (List.mem_cons_of_mem _ hm) hg)
    have hvk : ∀ v, v ∈ p.members → bucketOf v = k := by
      intro v hv; rw [Plain.members_bucket p hw v hv]; exact hb
    simp only [mergeBuckets, e']
    cases hg : AL.get k bu with
    | none =>
      refine ⟨(k, p) :: m', rfl, ⟨?_, ?_⟩, by simp [k'], ?_⟩
      · simp only [List.map_cons, List.nodup_cons, k']; exact hk
      · intro kp hm
        rcases List.mem_cons.1 hm with rfl | hm
        · exact ⟨hw, hpne, hb⟩
        · exact w'.2 kp hm
      · intro x
        simp only [bucketsMembers, List.mem_append, mm', List.map_cons, List.mem_cons]
        constructor
        · rintro (h1 | h1 | ⟨h1, h2⟩)
          · exact Or.inl (Or.inl h1)
          · exact Or.inl (Or.inr h1)
          · exact Or.inr ⟨h1, Or.inr h2⟩
        · rintro ((h1 | h1) | ⟨h1, (h2 | h2)⟩)
          · exact Or.inl h1
          · exact Or.inr (Or.inl h1)
          · exfalso
            obtain ⟨q, hq, _⟩ := (mem_bucketsMembers_get bu hbu x).1 h1
            rw [h2, hg] at hq; cases hq
          · exact Or.inr (Or.inr ⟨h1, h2⟩)
    | some q =>
      have hqm := (AL.get_eq_some_of_mem bu hbu.1 k q).1 hg
      obtain ⟨hqw, hqne, hqb⟩ := hbu.2 (k, q) hqm
      have hqb' : q.bucket = k := hqb
      obtain ⟨s, e1, w1, m1⟩ := unionPP_spec p q hw hqw (Or.inr hpne) (Or.inr hqne) (hadm k p q (by simp) hg)
      have hall : ∀ x, x ∈ s.members → bucketOf x = k := by
        intro x hx
        rcases (m1 x).1 hx with h1 | h1
        · exact hvk x h1
        · rw [Plain.members_bucket q hqw x h1]; exact hqb
      obtain ⟨s', rfl⟩ := plain_of_one_bucket s w1 _ hall
      simp only [e1, asPlain]
      obtain ⟨y, hy⟩ := List.exists_mem_of_ne_nil _ hpne
      have hym : y ∈ s'.members := (m1 y).2 (Or.inl hy)
      have hne' : s'.members ≠ [] := fun hc => by rw [hc] at hym; cases hym
      have hbk : s'.bucket = k := by rw [← Plain.members_bucket s' w1 y hym]; exact hall y hym
      refine ⟨(k, s') :: m', rfl, ⟨?_, ?_⟩, by simp [k'], ?_⟩
      · simp only [List.map_cons, List.nodup_cons, k']; exact hk
      · intro kp hm
        rcases List.mem_cons.1 hm with rfl | hm
        · exact ⟨w1, hne', hbk⟩
        · exact w'.2 kp hm
      · intro x
        have := m1 x
        simp only [Rep.members] at this
        simp only [bucketsMembers, List.mem_append, mm', this, List.map_cons, List.mem_cons]
        constructor
        · rintro ((h1 | h1) | h1 | ⟨h1, h2⟩)
          · exact Or.inl (Or.inl h1)
          · refine Or.inr ⟨(mem_bucketsMembers bu x).2 ⟨k, q, hqm, h1⟩, Or.inl ?_⟩
            rw [Plain.members_bucket q hqw x h1]; exact hqb
          · exact Or.inl (Or.inr h1)
          · exact Or.inr ⟨h1, Or.inr h2⟩
        · rintro ((h1 | h1) | ⟨h1, (h2 | h2)⟩)
          · exact Or.inl (Or.inl h1)
          · exact Or.inr (Or.inl h1)
          · obtain ⟨q', hq', hx'⟩ := (mem_bucketsMembers_get bu hbu x).1 h1
            rw [h2, hg] at hq'
            cases hq'
            exact Or.inl (Or.inr hx')
          · exact Or.inr (Or.inr ⟨h1, h2⟩)

theorem restBuckets_spec (au : List (Bucket × Plain)) (bu : List (Bucket × Plain)) (hbu : BucketsWF bu) :
    BucketsWF (restBuckets au bu) ∧
    (∀ k, k ∈ (restBuckets au bu).map (·.1) → k ∈ bu.map (·.1) ∧ k ∉ au.map (·.1)) ∧
    ∀ x, x ∈ bucketsMembers (restBuckets au bu) ↔ x ∈ bucketsMembers bu ∧ bucketOf x ∉ au.map (·.1) := by
  induction bu with
  | nil => exact ⟨BucketsWF.nil, by simp [restBuckets], by simp [restBuckets, bucketsMembers]⟩
  | cons kq r ih =>
    obtain ⟨k, q⟩ := kq
    have hk := hbu.1
    simp only [List.map_cons, List.nodup_cons] at hk
    have hr : BucketsWF r := ⟨hk.2, fun kp hm => hbu.2 kp (List.mem_cons_of_mem _ hm)⟩
    obtain ⟨hw, hqne, hb⟩ := hbu.2 (k, q) (by simp)
    obtain ⟨i1, i2, i3⟩ := ih hr
    have hvk : ∀ v, v ∈ q.members → bucketOf v = k := by
      intro v hv; rw [Plain.members_bucket q hw v hv]; exact hb
    simp only [restBuckets]
    by_cases hs : (AL.get k au).isSome = true
    · have hin := (get_isSome_iff au k).1 hs
      simp only [hs, if_true]
      refine ⟨i1, fun k' hk' => ⟨List.mem_cons_of_mem _ (i2 k' hk').1, (i2 k' hk').2⟩, ?_⟩
      intro x
      rw [i3]
      simp only [bucketsMembers, List.mem_append]
      constructor
      · rintro ⟨h1, h2⟩; exact ⟨Or.inr h1, h2⟩
      · rintro ⟨h1 | h1, h2⟩
        · exact absurd (by rw [hvk x h1]; exact hin) h2
        · exact ⟨h1, h2⟩
    · have hnin : k ∉ au.map (·.1) := fun hc => hs ((get_isSome_iff au k).2 hc)
      simp only [hs, Bool.false_eq_true, if_false]
      refine ⟨⟨?_, ?_⟩, ?_, ?_⟩
      · simp only [List.map_cons, List.nodup_cons]
        exact ⟨fun hc => hk.1 (i2 k hc).1, i1.1⟩
      · intro kp hm
        rcases List.mem_cons.1 hm with rfl | hm
        · exact ⟨hw, hqne, hb⟩
        · exact i1.2 kp hm
      · intro k' hk'
        simp only [List.map_cons, List.mem_cons] at hk' ⊢
        rcases hk' with rfl | h1
        · exact ⟨Or.inl rfl, hnin⟩
        · exact ⟨Or.inr (i2 k' h1).1, (i2 k' h1).2⟩
      · intro x
        simp only [bucketsMembers, List.mem_append, i3]
        constructor
        · rintro (h1 | ⟨h1, h2⟩)
          · exact ⟨Or.inl h1, by rw [hvk x h1]; exact hnin⟩
          · exact ⟨Or.inr h1, h2⟩
        · rintro ⟨h1 | h1, h2⟩
          · exact Or.inl h1
          · exact Or.inr ⟨h1, h2⟩

theorem union_spec (a b : Rep) (ha : a.WF) (hb : b.WF) (hna : a = .plain .empty ∨ a.members ≠ [])
    (hnb : b = .plain .empty ∨ b.members ≠ []) (hadm : UnionAdm a b) :
    ∃ r, union a b = .ok r ∧ r.WF ∧ ∀ x, x ∈ r.members ↔ x ∈ a.members ∨ x ∈ b.members := by
  cases a with
  | plain p =>
    cases b with
    | plain q =>
      apply unionPP_spec p q ha hb ?_ ?_ hadm
      · rcases hna with h1 | h1
        · left; simpa using h1
        · right; exact h1
      · rcases hnb with h1 | h1
        · left; simpa using h1
        · right; exact h1
    | union bu =>
      simp only [union]
      by_cases he : p = .empty
      · subst he
        simp only [if_true]
        exact ⟨_, rfl, hb, by simp [Rep.members, Plain.members]⟩
      · simp only [he, if_false]
        have hpn : p.members ≠ [] := by
          rcases hna with h1 | h1
          · exact absurd (by simpa using h1) he
          · exact h1
        obtain ⟨r, e1, w1, m1⟩ := unionWithSubset_spec bu hb.1 p ha hpn hadm
        exact ⟨r, e1, w1, fun x => by rw [m1]; exact Or.comm⟩
  | union au =>
    cases b with
    | plain q =>
      simp only [union]
      by_cases he : q = .empty
      · subst he
        simp only [if_true]
        exact ⟨_, rfl, ha, by simp [Rep.members, Plain.members]⟩
      · simp only [he, if_false]
        have hqn : q.members ≠ [] := by
          rcases hnb with h1 | h1
          · exact absurd (by simpa using h1) he
          · exact h1
        exact unionWithSubset_spec au ha.1 q hb hqn hadm
    | union bu =>
      simp only [union]
      obtain ⟨m, e1, w1, k1, m1⟩ := mergeBuckets_spec bu hb.1 au ha.1 hadm
      obtain ⟨r1, r2, r3⟩ := restBuckets_spec au bu hb.1
      rw [e1]
      refine ⟨_, rfl, ?_, ?_⟩
      · apply fromBuckets_wf
        refine ⟨?_, ?_⟩
        · rw [List.map_append, List.nodup_append]
          refine ⟨w1.1, r1.1, ?_⟩
          intro x hx y hy hxy
          subst hxy
          rw [k1] at hx
          exact (r2 x hy).2 hx
        · intro kp hm
          rcases List.mem_append.1 hm with hm | hm
          · exact w1.2 kp hm
          · exact r1.2 kp hm
      · intro x
        rw [fromBuckets_members, bucketsMembers_append, List.mem_append, m1, r3]
        show _ ↔ x ∈ bucketsMembers au ∨ x ∈ bucketsMembers bu
        constructor
        · rintro ((h1 | ⟨h1, _⟩) | ⟨h1, _⟩)
          · exact Or.inl h1
          · exact Or.inr h1
          · exact Or.inr h1
        · rintro (h1 | h1)
          · exact Or.inl (Or.inl h1)
          · by_cases hk : bucketOf x ∈ au.map (·.1)
            · exact Or.inl (Or.inr ⟨h1, hk⟩)
            · exact Or.inr ⟨h1, hk⟩

/-! ## normal form: an empty result is the EmptySet (Array.Without may leave `Array{count: 0}`, which
every caller re-normalises with `IsTrue`) -/

def Plain.Norm (p : Plain) : Prop := p = .empty ∨ p.members ≠ []
def Rep.Norm (r : Rep) : Prop := r = .plain .empty ∨ r.members ≠ []

theorem fromFrozen_norm (xs : List V) : (fromFrozen xs).Norm := by
  unfold fromFrozen
  split
  · exact Or.inl rfl
  · split
    · exact Or.inr (by simp [Plain.members])
    · exact Or.inr (by simp [Plain.members])
  · rename_i h1 _
    exact Or.inr (by simpa [Plain.members] using h1)

theorem fromBuckets_norm (bs : List (Bucket × Plain)) (h : BucketsWF bs) : (fromBuckets bs).Norm := by
  cases bs with
  | nil => exact Or.inl rfl
  | cons q r =>
    right
    rw [fromBuckets_members]
    obtain ⟨k, p⟩ := q
    have := (h.2 (k, p) (by simp)).2.1
    simp only [bucketsMembers]
    intro hc
    exact this (List.append_eq_nil_iff.1 hc).1

theorem Plain.filter_norm (p : Plain) (h : p.WF) (f : V → Bool) (ha : FilterAdm p f) : (p.filter f).Norm := by
  obtain ⟨w1, w2, _⟩ := Plain.filter_spec p h f ha
  cases p with
  | empty => exact Or.inl rfl
  | true_ =>
    simp only [Plain.filter]
    split
    · exact Or.inr (by simp [Plain.members])
    · exact Or.inl rfl
  | generic xs => exact fromFrozen_norm _
  | str s off holes =>
    simp only [Plain.filter] at w2 ⊢
    cases hl : (Plain.str s off holes).members.filter f with
    | nil => exact Or.inl rfl
    | cons a r =>
      right
      rw [hl] at w2
      simp only at w2 ⊢
      intro hc
      have : a ∈ (Plain.str s off holes).members.filter f := by rw [hl]; simp
      have := (w2 a).2 (List.mem_filter.1 this)
      rw [hc] at this; cases this
  | bytes b off =>
    simp only [Plain.filter] at w2 ⊢
    cases hl : (Plain.bytes b off).members.filter f with
    | nil => exact Or.inl rfl
    | cons a r =>
      right
      rw [hl] at w2
      simp only at w2 ⊢
      intro hc
      have : a ∈ (Plain.bytes b off).members.filter f := by rw [hl]; simp
      have := (w2 a).2 (List.mem_filter.1 this)
      rw [hc] at this; cases this
  | arr vs off count =>
    simp only [Plain.filter] at w1 ⊢
    unfold arrFilter at w1 ⊢
    simp only at w1 ⊢
    by_cases h0 : count - (kcount vs - kcount (arrKeep f vs off)) = 0
    · simp only [h0, if_true]; exact Or.inl rfl
    · simp only [h0, if_false] at w1 ⊢
      right
      intro hc
      have hcnt := Plain.count_eq _ w1
      rw [hc] at hcnt
      simp only [Plain.count, List.length_nil] at hcnt
      exact h0 hcnt
  | dict m =>
    simp only [Plain.filter] at w2 ⊢
    cases hl : (Plain.dict m).members.filter f with
    | nil => exact Or.inl rfl
    | cons a r =>
      right
      rw [hl] at w2
      intro hc
      have : a ∈ (Plain.dict m).members.filter f := by rw [hl]; simp
      have := (w2 a).2 (List.mem_filter.1 this)
      rw [hc] at this; cases this
  | rel names rows =>
    simp only [Plain.filter, relBody]
    cases hl : rows.filter f with
    | nil => exact Or.inl rfl
    | cons a r => exact Or.inr (by simp [Plain.members])

theorem diffPP_norm (a b : Plain) (ha : a.WF) (hn : a.Norm) (hadm : FilterAdm a (fun v => !b.has v)) :
    (diffPP a b).Norm := by
  unfold diffPP
  split
  · exact Or.inl rfl
  · exact hn
  · exact fromFrozen_norm _
  · exact Plain.filter_norm a ha _ hadm

theorem diff_norm (a b : Rep) (ha : a.WF) (hb : b.WF) (hn : a.Norm) (hadm : DiffAdm a b) : (diff a b).Norm := by
  have lift : ∀ p : Plain, p.Norm → (Rep.plain p).Norm := by
    intro p hp
    rcases hp with h1 | h1
    · exact Or.inl (by rw [h1])
    · exact Or.inr h1
  have unlift : ∀ p : Plain, (Rep.plain p).Norm → p.Norm := by
    intro p hp
    rcases hp with h1 | h1
    · exact Or.inl (by simpa using h1)
    · exact Or.inr h1
  cases a with
  | plain p =>
    cases b with
    | plain q => exact lift _ (diffPP_norm p q ha (unlift p hn) hadm)
    | union bu =>
      simp only [diff]
      split
      · exact Or.inl rfl
      · exact lift _ (diffPP_norm p _ ha (unlift p hn) hadm)
  | union au =>
    cases b with
    | plain q =>
      simp only [diff]
      split
      · exact hn
      · rename_i he
        obtain ⟨w1, w2, w3⟩ := diffPP_spec (getSubset au q.bucket) q (getSubset_wf au ha.1 _) hb hadm
        have hsub : ∀ v, v ∈ (getSubset au q.bucket).members → bucketOf v = q.bucket :=
          fun v hv => ((mem_getSubset au ha.1 _ v).1 hv).2
        split
        · rename_i ht
          have hne := (Plain.isTrue_iff _ w1).1 ht
          have hbk : (diffPP (getSubset au q.bucket) q).bucket = q.bucket := by
            obtain ⟨x, hx⟩ := List.exists_mem_of_ne_nil _ hne
            rw [← Plain.members_bucket _ w1 x hx]
            exact hsub x ((w2 x).1 hx).1
          exact fromBuckets_norm _ (ha.1.put _ _ w1 hne hbk)
        · exact fromBuckets_norm _ (ha.1.remove _)
    | union bu =>
      simp only [diff]
      exact fromBuckets_norm _ (diffBuckets_spec bu hb.1 au ha.1 hadm).1

/-! ## SymmetricDifference -/

def SymdiffAdm (a b : Rep) : Prop := DiffAdm a b ∧ DiffAdm b a ∧ UnionAdm (diff a b) (diff b a)

theorem symdiff_spec (a b : Rep) (ha : a.WF) (hb : b.WF) (hna : a.Norm) (hnb : b.Norm) (hadm : SymdiffAdm a b) :
    ∃ r, symdiff a b = .ok r ∧ r.WF ∧
      ∀ x, x ∈ r.members ↔ (x ∈ a.members ∧ x ∉ b.members) ∨ (x ∈ b.members ∧ x ∉ a.members) := by
  unfold symdiff
  split
  · rename_i he
    have : a = .plain .empty := by
      unfold isEmptySet at he
      split at he
      · rfl
      · cases he
    subst this
    exact ⟨_, rfl, hb, by simp [Rep.members, Plain.members]⟩
  · split
    · rename_i _ he
      have : b = .plain .empty := by
        unfold isEmptySet at he
        split at he
        · rfl
        · cases he
      subst this
      exact ⟨_, rfl, ha, by simp [Rep.members, Plain.members]⟩
    · split
      · rename_i xs ys hg
        have : a = .plain (.generic xs) ∧ b = .plain (.generic ys) := by
          unfold bothGeneric at hg
          split at hg
          · simp only [Option.some.injEq, Prod.mk.injEq] at hg
            obtain ⟨rfl, rfl⟩ := hg
            exact ⟨rfl, rfl⟩
          · cases hg
        obtain ⟨rfl, rfl⟩ := this
        refine ⟨_, rfl, ?_, ?_⟩
        · apply fromFrozen_wf _ (FinSet.sorted_symdiff xs ys hb.1)
          intro x hx
          rcases (FinSet.mem_symdiff xs ys x).1 hx with ⟨h1, _⟩ | ⟨h1, _⟩
          · exact ha.2.2.2 x h1
          · exact hb.2.2.2 x h1
        · intro x
          show x ∈ (fromFrozen _).members ↔ _
          rw [fromFrozen_members]
          exact FinSet.mem_symdiff xs ys x
      · obtain ⟨d1, d2, d3⟩ := hadm
        obtain ⟨w1, m1⟩ := diff_spec a b ha hb d1
        obtain ⟨w2, m2⟩ := diff_spec b a hb ha d2
        obtain ⟨r, e, w, m⟩ := union_spec _ _ w1 w2 (diff_norm a b ha hb hna d1) (diff_norm b a hb ha hnb d2) d3
        refine ⟨r, e, w, ?_⟩
        intro x
        rw [m, m1, m2]

/-! ## the subset comparisons of syntax/expr_set_compare.go -/

theorem all_has_eq_subset (s t : Rep) (ht : t.WF) :
    s.members.all t.has = FinSet.subset s.den t.den := by
  rw [Bool.eq_iff_iff, FinSet.subset_iff, List.all_eq_true]
  constructor
  · intro h x hx
    rw [Rep.mem_den] at hx ⊢
    exact (Rep.has_iff t ht x).1 (h x hx)
  · intro h x hx
    exact (Rep.has_iff t ht x).2 ((Rep.mem_den t x).1 (h x ((Rep.mem_den s x).2 hx)))

theorem length_lt_iff_of_subset (a b : List V) (ha : Sorted a) (hb : Sorted b) (hsub : ∀ x, x ∈ a → x ∈ b) :
    a.length < b.length ↔ ¬ ∀ x, x ∈ b → x ∈ a := by
  have hsl := FS.sublist_of_sorted_subset b a ha hb hsub
  have hle := hsl.length_le
  constructor
  · intro hlt hba
    have := (FS.sublist_of_sorted_subset a b hb ha hba).length_le
    omega
  · intro hn
    apply Classical.byContradiction
    intro hge
    have heq : a.length = b.length := by omega
    have := hsl.eq_of_length heq
    subst this
    exact hn (fun x hx => hx)

theorem subsetI_eq (s t : Rep) (hs : s.WF) (ht : t.WF) : subsetI s t = FS.ssubset s.den t.den := by
  unfold subsetI FS.ssubset
  rw [Rep.count_eq_card s hs, Rep.count_eq_card t ht, all_has_eq_subset s t ht]
  simp only [FinSet.card]
  by_cases h0 : t.den.length = 0
  · simp only [h0, if_true]
    have : t.den = [] := List.eq_nil_of_length_eq_zero h0
    rw [this]
    simp [FinSet.subset]
  · simp only [h0, if_false]
    cases hsub : FinSet.subset s.den t.den with
    | false => simp
    | true =>
      simp only [Bool.true_and]
      have h1 := (FinSet.subset_iff _ _).1 hsub
      have := length_lt_iff_of_subset s.den t.den (FinSet.sorted_mk _) (FinSet.sorted_mk _) h1
      rw [Bool.eq_iff_iff]
      simp only [decide_eq_true_eq, Bool.not_eq_true', this]
      constructor
      · intro hn
        cases hh : FinSet.subset t.den s.den with
        | false => rfl
        | true => exact absurd ((FinSet.subset_iff _ _).1 hh) hn
      · intro hf hall
        rw [(FinSet.subset_iff _ _).2 hall] at hf; cases hf

theorem subsetOrEqualI_eq (s t : Rep) (hs : s.WF) (ht : t.WF) :
    subsetOrEqualI s t = FinSet.subset s.den t.den := by
  unfold subsetOrEqualI
  rw [Rep.count_eq_card s hs, Rep.count_eq_card t ht, all_has_eq_subset s t ht]
  simp only [FinSet.card]
  by_cases h0 : t.den.length = 0
  · simp only [h0, if_true]
    have : t.den = [] := List.eq_nil_of_length_eq_zero h0
    rw [this, Bool.eq_iff_iff]
    simp only [decide_eq_true_eq, FinSet.subset_iff, List.not_mem_nil, imp_false]
    constructor
    · intro hl x hx
      rw [List.eq_nil_of_length_eq_zero (of_decide_eq_true hl)] at hx; cases hx
    · intro hall
      cases hd : s.den with
      | nil => simp
      | cons a r => rw [hd] at hall; exact absurd (by simp) (hall a)
  · simp only [h0, if_false]
    cases hsub : FinSet.subset s.den t.den with
    | false => simp
    | true =>
      simp only [Bool.true_and, decide_eq_true_eq]
      have h1 := (FinSet.subset_iff _ _).1 hsub
      exact decide_eq_true
        (FS.sublist_of_sorted_subset t.den s.den (FinSet.sorted_mk _) (FinSet.sorted_mk _) h1).length_le

theorem subsetOrSupersetI_eq (a b : Rep) (ha : a.WF) (hb : b.WF) :
    subsetOrSupersetI a b = Spec.comparable a.den b.den := by
  unfold subsetOrSupersetI Spec.comparable equalI
  rw [subsetI_eq a b ha hb, subsetI_eq b a hb ha]
  cases h1 : FS.ssubset a.den b.den with
  | true => simp
  | false =>
    cases h2 : FS.ssubset b.den a.den with
    | false => simp
    | true =>
      simp only [Bool.false_or, Bool.true_and, Bool.not_eq_true', decide_eq_false_iff_not]
      intro he
      rw [he] at h2
      simp [FS.ssubset] at h2

theorem subsetSupersetOrEqualI_eq (a b : Rep) (ha : a.WF) (hb : b.WF) :
    subsetSupersetOrEqualI b a = (Spec.comparable a.den b.den || decide (a.den = b.den)) := by
  unfold subsetSupersetOrEqualI Spec.comparable equalI
  rw [subsetI_eq a b ha hb, subsetI_eq b a hb ha]
  cases FS.ssubset a.den b.den <;> cases FS.ssubset b.den a.den <;> simp [eq_comm]

/-! ## Where on a UnionSet, `=>` through the builder -/

def RepFilterAdm : Rep → (V → Bool) → Prop
  | .plain p, f => FilterAdm p f
  | .union bs, f => ∀ k p, (k, p) ∈ bs → FilterAdm p f

theorem unionFilterBuckets_spec (f : V → Bool) (bs : List (Bucket × Plain)) (h : BucketsWF bs)
    (hadm : ∀ k p, (k, p) ∈ bs → FilterAdm p f) :
    BucketsWF (unionFilterBuckets f bs) ∧
    (∀ k, k ∈ (unionFilterBuckets f bs).map (·.1) → k ∈ bs.map (·.1)) ∧
    ∀ v, v ∈ bucketsMembers (unionFilterBuckets f bs) ↔ v ∈ bucketsMembers bs ∧ f v = true := by
  induction bs with
  | nil => exact ⟨BucketsWF.nil, by simp [unionFilterBuckets], by simp [unionFilterBuckets, bucketsMembers]⟩
  | cons kp r ih =>
    obtain ⟨k, p⟩ := kp
    have hk := h.1
    simp only [List.map_cons, List.nodup_cons] at hk
    have hr : BucketsWF r := ⟨hk.2, fun kp hm => h.2 kp (List.mem_cons_of_mem _ hm)⟩
    obtain ⟨hw, hpne, hb⟩ := h.2 (k, p) (by simp)
    obtain ⟨i1, i2, i3⟩ := ih hr (fun k' p' hm => hadm k' p' (List.mem_cons_of_mem _ hm))
    obtain ⟨s1, s2, s3⟩ := Plain.filter_spec p hw f (hadm k p (by simp))
    have hmem : ∀ v, v ∈ (p.filter f).members ∨ (v ∈ bucketsMembers r ∧ f v = true) ↔
        (v ∈ p.members ∨ v ∈ bucketsMembers r) ∧ f v = true := by
      intro v
      rw [s2]
      constructor
      · rintro (⟨h1, h2⟩ | ⟨h1, h2⟩)
        · exact ⟨Or.inl h1, h2⟩
        · exact ⟨Or.inr h1, h2⟩
      · rintro ⟨h1 | h1, h2⟩
        · exact Or.inl ⟨h1, h2⟩
        · exact Or.inr ⟨h1, h2⟩
    simp only [unionFilterBuckets]
    by_cases ht : (p.filter f).isTrue = true
    · simp only [ht, if_true]
      have hne := (Plain.isTrue_iff _ s1).1 ht
      refine ⟨⟨?_, ?_⟩, ?_, ?_⟩
      · simp only [List.map_cons, List.nodup_cons]
        exact ⟨fun hc => hk.1 (i2 k hc), i1.1⟩
      · intro kp hm
        rcases List.mem_cons.1 hm with rfl | hm
        · exact ⟨s1, hne, by rw [s3 hne]; exact hb⟩
        · exact i1.2 kp hm
      · intro k' hk'
        simp only [List.map_cons, List.mem_cons] at hk' ⊢
        rcases hk' with h1 | h1
        · exact Or.inl h1
        · exact Or.inr (i2 k' h1)
      · intro v
        simp only [bucketsMembers, List.mem_append, i3]
        exact hmem v
    · simp only [ht, Bool.false_eq_true, if_false]
      have hemp : (p.filter f).members = [] := by
        apply Classical.byContradiction
        intro hne
        exact ht ((Plain.isTrue_iff _ s1).2 hne)
      refine ⟨i1, fun k' hk' => List.mem_cons_of_mem _ (i2 k' hk'), ?_⟩
      intro v
      have := hmem v
      rw [hemp] at this
      simp only [List.not_mem_nil, false_or] at this
      simp only [bucketsMembers, List.mem_append, i3]
      exact this

theorem Rep.filter_spec (r : Rep) (h : r.WF) (f : V → Bool) (hadm : RepFilterAdm r f) :
    (r.filter f).WF ∧ ∀ v, v ∈ (r.filter f).members ↔ v ∈ r.members ∧ f v = true := by
  cases r with
  | plain p =>
    obtain ⟨w1, w2, _⟩ := Plain.filter_spec p h f hadm
    exact ⟨w1, w2⟩
  | union bs =>
    obtain ⟨w1, _, w3⟩ := unionFilterBuckets_spec f bs h.1 hadm
    refine ⟨fromBuckets_wf _ w1, ?_⟩
    intro v
    show v ∈ (fromBuckets _).members ↔ _
    rw [fromBuckets_members]
    exact w3 v
