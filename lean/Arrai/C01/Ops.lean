/-
  C01 helper lemmas, part 3: UnionSet contracts and the operators of rel/ops_set.go proved from the
  interface contracts (members / has / count / filter / with_ / without).
-/
import Arrai.C01.Contracts

namespace Arrai.C01
open Arrai Arrai.FinSet KSeq

/-! ## UnionSet well-formedness -/

/-- every bucket holds a well-formed, non-empty set of the bucket's own kind, keys are distinct -/
def BucketsWF (bs : List (Bucket × Plain)) : Prop :=
  (bs.map (·.1)).Nodup ∧ ∀ kp, kp ∈ bs → kp.2.WF ∧ kp.2.members ≠ [] ∧ kp.2.bucket = kp.1

def Rep.WF : Rep → Prop
  | .plain p => p.WF
  | .union bs => BucketsWF bs ∧ 2 ≤ bs.length

theorem mem_bucketsMembers (bs : List (Bucket × Plain)) (v : V) :
    v ∈ bucketsMembers bs ↔ ∃ k p, (k, p) ∈ bs ∧ v ∈ p.members := by
  induction bs with
  | nil => simp [bucketsMembers]
  | cons q r ih =>
    obtain ⟨k, p⟩ := q
    simp only [bucketsMembers, List.mem_append, ih, List.mem_cons, Prod.mk.injEq]
    constructor
    · rintro (h | ⟨k', p', hm, hv⟩)
      · exact ⟨k, p, Or.inl ⟨rfl, rfl⟩, h⟩
      · exact ⟨k', p', Or.inr hm, hv⟩
    · rintro ⟨k', p', (⟨rfl, rfl⟩ | hm), hv⟩
      · exact Or.inl hv
      · exact Or.inr ⟨k', p', hm, hv⟩

/-- under the invariant a member is found in the bucket of its own kind -/
theorem mem_bucketsMembers_get (bs : List (Bucket × Plain)) (h : BucketsWF bs) (v : V) :
    v ∈ bucketsMembers bs ↔ ∃ p, AL.get (bucketOf v) bs = some p ∧ v ∈ p.members := by
  rw [mem_bucketsMembers]
  constructor
  · rintro ⟨k, p, hm, hv⟩
    obtain ⟨hw, _, hb⟩ := h.2 (k, p) hm
    have : bucketOf v = k := by rw [Plain.members_bucket p hw v hv]; exact hb
    subst this
    exact ⟨p, (AL.get_eq_some_of_mem bs h.1 _ p).2 hm, hv⟩
  · rintro ⟨p, hg, hv⟩
    exact ⟨_, p, (AL.get_eq_some_of_mem bs h.1 _ p).1 hg, hv⟩

theorem fromBuckets_members (bs : List (Bucket × Plain)) : (fromBuckets bs).members = bucketsMembers bs := by
  unfold fromBuckets
  split
  · rfl
  · simp [Rep.members, bucketsMembers]
  · rfl

theorem fromBuckets_wf (bs : List (Bucket × Plain)) (h : BucketsWF bs) : (fromBuckets bs).WF := by
  unfold fromBuckets
  split
  · trivial
  · rename_i k p
    exact (h.2 (k, p) (by simp)).1
  · rename_i h1 h2
    refine ⟨h, ?_⟩
    cases bs with
    | nil => exact absurd rfl h1
    | cons a r =>
      cases r with
      | nil => obtain ⟨k, p⟩ := a; exact absurd rfl (h2 k p)
      | cons b t => simp

theorem BucketsWF.nil : BucketsWF [] := ⟨by simp, by simp⟩

/-! ## the interface contract on `Rep` -/

theorem Rep.members_bucket_plain (p : Plain) (h : p.WF) : ∀ x, x ∈ p.members → bucketOf x = p.bucket :=
  Plain.members_bucket p h

theorem nodup_bucketsMembers (bs : List (Bucket × Plain)) (h : BucketsWF bs) : (bucketsMembers bs).Nodup := by
  induction bs with
  | nil => simp [bucketsMembers]
  | cons q r ih =>
    obtain ⟨k, p⟩ := q
    have hk := h.1
    simp only [List.map_cons, List.nodup_cons] at hk
    have hr : BucketsWF r := ⟨hk.2, fun kp hm => h.2 kp (List.mem_cons_of_mem _ hm)⟩
    obtain ⟨hw, _, hb⟩ := h.2 (k, p) (by simp)
    simp only [bucketsMembers]
    rw [List.nodup_append]
    refine ⟨Plain.members_nodup p hw, ih hr, ?_⟩
    intro a ha b hb' hab
    subst hab
    obtain ⟨k', p', hm, hv⟩ := (mem_bucketsMembers r a).1 hb'
    obtain ⟨hw', _, hbk⟩ := hr.2 (k', p') hm
    have e1 := Plain.members_bucket p hw a ha
    have e2 := Plain.members_bucket p' hw' a hv
    have : k' = k := by
      have h1 : p'.bucket = k' := hbk
      have h2 : p.bucket = k := hb
      rw [← h1, ← e2, e1, h2]
    subst this
    exact hk.1 (List.mem_map.2 ⟨(k', p'), hm, rfl⟩)

theorem Rep.members_nodup (r : Rep) (h : r.WF) : r.members.Nodup := by
  cases r with
  | plain p => exact Plain.members_nodup p h
  | union bs => exact nodup_bucketsMembers bs h.1

theorem Rep.has_iff (r : Rep) (h : r.WF) (v : V) : r.has v = true ↔ v ∈ r.members := by
  cases r with
  | plain p => exact Plain.has_iff p h v
  | union bs =>
    simp only [Rep.has, Rep.members, unionHas]
    rw [mem_bucketsMembers_get bs h.1]
    cases hg : AL.get (bucketOf v) bs with
    | none => simp
    | some p =>
      have hm := (AL.get_eq_some_of_mem bs h.1.1 _ p).1 hg
      have hw := (h.1.2 _ hm).1
      simp only [Option.some.injEq, exists_eq_left']
      exact Plain.has_iff p hw v

theorem length_bucketsMembers (bs : List (Bucket × Plain)) (h : ∀ kp, kp ∈ bs → kp.2.WF) :
    (bucketsMembers bs).length = unionCount bs := by
  induction bs with
  | nil => rfl
  | cons q r ih =>
    obtain ⟨k, p⟩ := q
    simp only [bucketsMembers, unionCount, List.length_append]
    rw [ih (fun kp hm => h kp (List.mem_cons_of_mem _ hm)), Plain.count_eq p (h (k, p) (by simp))]

theorem Rep.count_eq (r : Rep) (h : r.WF) : r.count = r.members.length := by
  cases r with
  | plain p => exact Plain.count_eq p h
  | union bs =>
    simp only [Rep.count, Rep.members]
    exact (length_bucketsMembers bs (fun kp hm => (h.1.2 kp hm).1)).symm

/-- `count` is the number of distinct members: the cardinality of the denoted set -/
theorem Rep.count_eq_card (r : Rep) (h : r.WF) : r.count = FinSet.card r.den := by
  rw [Rep.count_eq r h]
  simp only [FinSet.card, Rep.den]
  exact (length_mk_of_nodup _ (Rep.members_nodup r h)).symm

theorem Rep.mem_den (r : Rep) (v : V) : v ∈ r.den ↔ v ∈ r.members := FinSet.mem_mk _ _

theorem Rep.has_iff_den (r : Rep) (h : r.WF) (v : V) : r.has v = true ↔ v ∈ r.den := by
  rw [Rep.has_iff r h, Rep.mem_den]

theorem Rep.isTrue_iff (r : Rep) (h : r.WF) : r.isTrue = true ↔ r.members ≠ [] := by
  cases r with
  | plain p => exact Plain.isTrue_iff p h
  | union bs =>
    simp only [Rep.isTrue, Rep.members]
    cases bs with
    | nil => have := h.2; simp at this
    | cons q r =>
      obtain ⟨k, p⟩ := q
      simp only [List.isEmpty_cons, Bool.not_false, true_iff, bucketsMembers]
      intro hc
      have := (h.1.2 (k, p) (by simp)).2.1
      exact this (List.append_eq_nil_iff.1 hc).1

/-! ## Intersect and Difference (default path: `a.Where(b.Has)`, proved from the contracts) -/

theorem interPP_spec (a b : Plain) (ha : a.WF) (hb : b.WF) (hadm : FilterAdm a b.has) :
    (interPP a b).WF ∧ (∀ v, v ∈ (interPP a b).members ↔ v ∈ a.members ∧ v ∈ b.members) ∧
    ((interPP a b).members ≠ [] → (interPP a b).bucket = a.bucket) := by
  unfold interPP
  split
  · exact ⟨trivial, by simp [Plain.members], by simp [Plain.members]⟩
  · exact ⟨trivial, by simp [Plain.members], by simp [Plain.members]⟩
  · rename_i xs ys
    refine ⟨fromFrozen_wf _ (FinSet.sorted_inter xs ys ha.1) ?_, ?_, fun _ => fromFrozen_bucket _⟩
    · intro x hx; exact ha.2.2.2 x ((FinSet.mem_inter xs ys x).1 hx).1
    · intro v; rw [fromFrozen_members]; exact FinSet.mem_inter xs ys v
  · obtain ⟨w1, w2, w3⟩ := Plain.filter_spec a ha b.has hadm
    refine ⟨w1, ?_, w3⟩
    intro v
    rw [w2, Plain.has_iff b hb]

theorem diffPP_spec (a b : Plain) (ha : a.WF) (hb : b.WF) (hadm : FilterAdm a (fun v => !b.has v)) :
    (diffPP a b).WF ∧ (∀ v, v ∈ (diffPP a b).members ↔ v ∈ a.members ∧ v ∉ b.members) ∧
    ((diffPP a b).members ≠ [] → (diffPP a b).bucket = a.bucket) := by
  unfold diffPP
  split
  · exact ⟨trivial, by simp [Plain.members], by simp [Plain.members]⟩
  · exact ⟨ha, by simp [Plain.members], fun _ => rfl⟩
  · rename_i xs ys
    refine ⟨fromFrozen_wf _ (FinSet.sorted_diff xs ys ha.1) ?_, ?_, fun _ => fromFrozen_bucket _⟩
    · intro x hx; exact ha.2.2.2 x ((FinSet.mem_diff xs ys x).1 hx).1
    · intro v; rw [fromFrozen_members]; exact FinSet.mem_diff xs ys v
  · obtain ⟨w1, w2, w3⟩ := Plain.filter_spec a ha _ hadm
    refine ⟨w1, ?_, w3⟩
    intro v
    rw [w2]
    have := Plain.has_iff b hb v
    constructor
    · rintro ⟨h1, h2⟩
      refine ⟨h1, ?_⟩
      intro hm
      rw [this.2 hm] at h2; simp at h2
    · rintro ⟨h1, h2⟩
      refine ⟨h1, ?_⟩
      cases hh : b.has v with
      | false => rfl
      | true => exact absurd (this.1 hh) h2

theorem getSubset_wf (bs : List (Bucket × Plain)) (h : BucketsWF bs) (k : Bucket) : (getSubset bs k).WF := by
  unfold getSubset
  cases hg : AL.get k bs with
  | none => trivial
  | some p => exact (h.2 (k, p) ((AL.get_eq_some_of_mem bs h.1 k p).1 hg)).1

/-- the members of a UnionSet that live in bucket `k` are the members of `getSubset k` -/
theorem mem_getSubset (bs : List (Bucket × Plain)) (h : BucketsWF bs) (k : Bucket) (v : V) :
    v ∈ (getSubset bs k).members ↔ v ∈ bucketsMembers bs ∧ bucketOf v = k := by
  unfold getSubset
  rw [mem_bucketsMembers_get bs h]
  cases hg : AL.get k bs with
  | none =>
    simp only [Option.getD_none, Plain.members, List.not_mem_nil, false_iff]
    rintro ⟨⟨p, hp, _⟩, hk⟩
    rw [hk, hg] at hp; cases hp
  | some p =>
    obtain ⟨hw, _, hb⟩ := h.2 (k, p) ((AL.get_eq_some_of_mem bs h.1 k p).1 hg)
    simp only [Option.getD_some]
    constructor
    · intro hv
      have hk : bucketOf v = k := by rw [Plain.members_bucket p hw v hv]; exact hb
      exact ⟨⟨p, by rw [hk]; exact hg, hv⟩, hk⟩
    · rintro ⟨⟨q, hq, hv⟩, hk⟩
      rw [hk, hg] at hq
      cases hq
      exact hv

/-- admissibility of `Intersect`/`Difference`: a filtered byte array must stay gap-free -/
def InterAdm : Rep → Rep → Prop
  | .plain a, .plain b => FilterAdm a b.has
  | .union au, .union bu => ∀ k p q, (k, p) ∈ au → AL.get k bu = some q → FilterAdm p q.has
  | .union au, .plain b => FilterAdm (getSubset au b.bucket) b.has
  | .plain a, .union bu => FilterAdm (getSubset bu a.bucket) a.has

theorem interBuckets_spec (bu : List (Bucket × Plain)) (hbu : BucketsWF bu) (au : List (Bucket × Plain))
    (hau : BucketsWF au) (hadm : ∀ k p q, (k, p) ∈ au → AL.get k bu = some q → FilterAdm p q.has) :
    BucketsWF (interBuckets bu au) ∧
    (∀ k, k ∈ (interBuckets bu au).map (·.1) → k ∈ au.map (·.1)) ∧
    ∀ v, v ∈ bucketsMembers (interBuckets bu au) ↔ v ∈ bucketsMembers au ∧ v ∈ bucketsMembers bu := by
  induction au with
  | nil => exact ⟨BucketsWF.nil, by simp [interBuckets], by simp [interBuckets, bucketsMembers]⟩
  | cons kp r ih =>
    obtain ⟨k, p⟩ := kp
    have hk := hau.1
    simp only [List.map_cons, List.nodup_cons] at hk
    have hr : BucketsWF r := ⟨hk.2, fun kp hm => hau.2 kp (List.mem_cons_of_mem _ hm)⟩
    obtain ⟨hw, hpne, hb⟩ := hau.2 (k, p) (by simp)
    obtain ⟨i1, i2, i3⟩ := ih hr (fun k' p' q' hm hg => hadm k' p' q' (List.mem_cons_of_mem _ hm) hg)
    have hvk : ∀ v, v ∈ p.members → bucketOf v = k := by
      intro v hv; rw [Plain.members_bucket p hw v hv]; exact hb
    simp only [interBuckets]
    cases hg : AL.get k bu with
    | none =>
      refine ⟨i1, fun k' hk' => List.mem_cons_of_mem _ (i2 k' hk'), ?_⟩
      intro v
      rw [i3]
      simp only [bucketsMembers, List.mem_append]
      constructor
      · rintro ⟨h1, h2⟩; exact ⟨Or.inr h1, h2⟩
      · rintro ⟨h1 | h1, h2⟩
        · obtain ⟨q, hq, _⟩ := (mem_bucketsMembers_get bu hbu v).1 h2
          rw [hvk v h1, hg] at hq; cases hq
        · exact ⟨h1, h2⟩
    | some q =>
      have hqm := (AL.get_eq_some_of_mem bu hbu.1 k q).1 hg
      obtain ⟨hqw, _, hqb⟩ := hbu.2 (k, q) hqm
      obtain ⟨s1, s2, s3⟩ := interPP_spec p q hw hqw (hadm k p q (by simp) hg)
      have hmem : ∀ v, v ∈ (interPP p q).members ∨ (v ∈ bucketsMembers r ∧ v ∈ bucketsMembers bu) ↔
          (v ∈ p.members ∨ v ∈ bucketsMembers r) ∧ v ∈ bucketsMembers bu := by
        intro v
        rw [s2]
        constructor
        · rintro (⟨h1, h2⟩ | ⟨h1, h2⟩)
          · exact ⟨Or.inl h1, (mem_bucketsMembers bu v).2 ⟨k, q, hqm, h2⟩⟩
          · exact ⟨Or.inr h1, h2⟩
        · rintro ⟨h1 | h1, h2⟩
          · obtain ⟨q', hq', hv'⟩ := (mem_bucketsMembers_get bu hbu v).1 h2
            rw [hvk v h1, hg] at hq'
            cases hq'
            exact Or.inl ⟨h1, hv'⟩
          · exact Or.inr ⟨h1, h2⟩
      by_cases ht : (interPP p q).isTrue = true
      · simp only [ht, if_true]
        have hne := (Plain.isTrue_iff _ s1).1 ht
        refine ⟨⟨?_, ?_⟩, ?_, ?_⟩
        · simp only [List.map_cons, List.nodup_cons]
          exact ⟨fun hc => hk.1 (i2 k hc), i1.1⟩
        · intro kp hm
          rcases List.mem_cons.1 hm with rfl | hm
          · exact ⟨s1, hne, by rw [s3 hne]; exact hb⟩
          · exact i1.2 kp hm
        · intro k' hk'
          simp only [List.map_cons, List.mem_cons] at hk' ⊢
          rcases hk' with h | h
          · exact Or.inl h
          · exact Or.inr (i2 k' h)
        · intro v
          simp only [bucketsMembers, List.mem_append, i3]
          exact hmem v
      · simp only [ht, Bool.false_eq_true, if_false]
        have hemp : (interPP p q).members = [] := by
          apply Classical.byContradiction
          intro hne
          exact ht ((Plain.isTrue_iff _ s1).2 hne)
        refine ⟨i1, fun k' hk' => List.mem_cons_of_mem _ (i2 k' hk'), ?_⟩
        intro v
        have := hmem v
        rw [hemp] at this
        simp only [List.not_mem_nil, false_or] at this
        simp only [bucketsMembers, List.mem_append, i3]
        exact this

theorem inter_spec (a b : Rep) (ha : a.WF) (hb : b.WF) (hadm : InterAdm a b) :
    (inter a b).WF ∧ ∀ v, v ∈ (inter a b).members ↔ v ∈ a.members ∧ v ∈ b.members := by
  cases a with
  | plain p =>
    cases b with
    | plain q =>
      obtain ⟨w1, w2, _⟩ := interPP_spec p q ha hb hadm
      exact ⟨w1, w2⟩
    | union bu =>
      simp only [inter]
      by_cases he : p = .empty
      · subst he
        simp only [if_true]
        exact ⟨trivial, by simp [Rep.members, Plain.members]⟩
      · simp only [he, if_false]
        obtain ⟨w1, w2, _⟩ := interPP_spec (getSubset bu p.bucket) p (getSubset_wf bu hb.1 _) ha hadm
        refine ⟨w1, ?_⟩
        intro v
        show v ∈ (interPP _ _).members ↔ v ∈ p.members ∧ v ∈ bucketsMembers bu
        rw [w2, mem_getSubset bu hb.1]
        constructor
        · rintro ⟨⟨h1, _⟩, h2⟩; exact ⟨h2, h1⟩
        · rintro ⟨h1, h2⟩; exact ⟨⟨h2, Plain.members_bucket p ha v h1⟩, h1⟩
  | union au =>
    cases b with
    | plain q =>
      simp only [inter]
      by_cases he : q = .empty
      · subst he
        simp only [if_true]
        exact ⟨trivial, by simp [Rep.members, Plain.members]⟩
      · simp only [he, if_false]
        obtain ⟨w1, w2, _⟩ := interPP_spec (getSubset au q.bucket) q (getSubset_wf au ha.1 _) hb hadm
        refine ⟨w1, ?_⟩
        intro v
        show v ∈ (interPP _ _).members ↔ v ∈ bucketsMembers au ∧ v ∈ q.members
        rw [w2, mem_getSubset au ha.1]
        constructor
        · rintro ⟨⟨h1, _⟩, h2⟩; exact ⟨h1, h2⟩
        · rintro ⟨h1, h2⟩; exact ⟨⟨h1, Plain.members_bucket q hb v h2⟩, h2⟩
    | union bu =>
      simp only [inter]
      obtain ⟨w1, _, w3⟩ := interBuckets_spec bu hb.1 au ha.1 hadm
      refine ⟨fromBuckets_wf _ w1, ?_⟩
      intro v
      rw [fromBuckets_members]
      exact w3 v

def DiffAdm : Rep → Rep → Prop
  | .plain a, .plain b => FilterAdm a (fun v => !b.has v)
  | .union au, .union bu => ∀ k p, (k, p) ∈ au → FilterAdm p (fun v => !(getSubset bu k).has v)
  | .union au, .plain b => FilterAdm (getSubset au b.bucket) (fun v => !b.has v)
  | .plain a, .union bu => FilterAdm a (fun v => !(getSubset bu a.bucket).has v)

theorem diffBuckets_spec (bu : List (Bucket × Plain)) (hbu : BucketsWF bu) (au : List (Bucket × Plain))
    (hau : BucketsWF au) (hadm : ∀ k p, (k, p) ∈ au → FilterAdm p (fun v => !(getSubset bu k).has v)) :
    BucketsWF (diffBuckets bu au) ∧
    (∀ k, k ∈ (diffBuckets bu au).map (·.1) → k ∈ au.map (·.1)) ∧
    ∀ v, v ∈ bucketsMembers (diffBuckets bu au) ↔ v ∈ bucketsMembers au ∧ v ∉ bucketsMembers bu := by
  induction au with
  | nil => exact ⟨BucketsWF.nil, by simp [diffBuckets], by simp [diffBuckets, bucketsMembers]⟩
  | cons kp r ih =>
    obtain ⟨k, p⟩ := kp
    have hk := hau.1
    simp only [List.map_cons, List.nodup_cons] at hk
    have hr : BucketsWF r := ⟨hk.2, fun kp hm => hau.2 kp (List.mem_cons_of_mem _ hm)⟩
    obtain ⟨hw, hpne, hb⟩ := hau.2 (k, p) (by simp)
    obtain ⟨i1, i2, i3⟩ := ih hr (fun k' p' hm => hadm k' p' (List.mem_cons_of_mem _ hm))
    have hvk : ∀ v, v ∈ p.members → bucketOf v = k := by
      intro v hv; rw [Plain.members_bucket p hw v hv]; exact hb
    obtain ⟨s1, s2, s3⟩ := diffPP_spec p (getSubset bu k) hw (getSubset_wf bu hbu k) (hadm k p (by simp))
    have hmem : ∀ v, v ∈ (diffPP p (getSubset bu k)).members ∨ (v ∈ bucketsMembers r ∧ v ∉ bucketsMembers bu) ↔
        (v ∈ p.members ∨ v ∈ bucketsMembers r) ∧ v ∉ bucketsMembers bu := by
      intro v
      rw [s2, mem_getSubset bu hbu]
      constructor
      · rintro (⟨h1, h2⟩ | ⟨h1, h2⟩)
        · exact ⟨Or.inl h1, fun hc => h2 ⟨hc, hvk v h1⟩⟩
        · exact ⟨Or.inr h1, h2⟩
      · rintro ⟨h1 | h1, h2⟩
        · exact Or.inl ⟨h1, fun hc => h2 hc.1⟩
        · exact Or.inr ⟨h1, h2⟩
    simp only [diffBuckets]
    by_cases ht : (diffPP p (getSubset bu k)).isTrue = true
    · simp only [ht, if_true]
      have hne := (Plain.isTrue_iff _ s1).1 ht
      refine ⟨⟨?_, ?_⟩, ?_, ?_⟩
      · simp only [List.map_cons, List.nodup_cons]
        exact ⟨fun hc => hk.1 (i2 k hc), i1.1⟩
      · intro kp hm
        rcases List.mem_cons.1 hm with rfl | hm
        · exact ⟨s1, hne, by rw [s3 hne]; exact hb⟩
        · exact i1.2 kp hm
      · intro k' hk'
        simp only [List.map_cons, List.mem_cons] at hk' ⊢
        rcases hk' with h | h
        · exact Or.inl h
        · exact Or.inr (i2 k' h)
      · intro v
        simp only [bucketsMembers, List.mem_append, i3]
        exact hmem v
    · simp only [ht, Bool.false_eq_true, if_false]
      have hemp : (diffPP p (getSubset bu k)).members = [] := by
        apply Classical.byContradiction
        intro hne
        exact ht ((Plain.isTrue_iff _ s1).2 hne)
      refine ⟨i1, fun k' hk' => List.mem_cons_of_mem _ (i2 k' hk'), ?_⟩
      intro v
      have := hmem v
      rw [hemp] at this
      simp only [List.not_mem_nil, false_or] at this
      simp only [bucketsMembers, List.mem_append, i3]
      exact this

/-- replacing the subset of bucket `k` by a well-formed non-empty set of the same kind -/
theorem BucketsWF.put {bs : List (Bucket × Plain)} (h : BucketsWF bs) (k : Bucket) (p : Plain)
    (hw : p.WF) (hne : p.members ≠ []) (hb : p.bucket = k) : BucketsWF (AL.put k p bs) := by
  refine ⟨AL.nodup_put bs k p h.1, ?_⟩
  intro kp hm
  rcases (AL.mem_put bs k p h.1 kp).1 hm with rfl | ⟨hm', _⟩
  · exact ⟨hw, hne, hb⟩
  · exact h.2 kp hm'

theorem BucketsWF.remove {bs : List (Bucket × Plain)} (h : BucketsWF bs) (k : Bucket) :
    BucketsWF (AL.remove k bs) := by
  refine ⟨AL.nodup_remove bs k h.1, ?_⟩
  intro kp hm
  exact h.2 kp ((AL.mem_remove bs k h.1 kp).1 hm).1

theorem mem_bucketsMembers_put (bs : List (Bucket × Plain)) (h : BucketsWF bs) (k : Bucket) (p : Plain)
    (hw : p.WF) (hb : p.members ≠ [] → p.bucket = k) (v : V) :
    v ∈ bucketsMembers (AL.put k p bs) ↔ v ∈ p.members ∨ (v ∈ bucketsMembers bs ∧ bucketOf v ≠ k) := by
  rw [mem_bucketsMembers]
  constructor
  · rintro ⟨k', p', hm, hv⟩
    rcases (AL.mem_put bs k p h.1 (k', p')).1 hm with he | ⟨hm', hne⟩
    · simp only [Prod.mk.injEq] at he
      obtain ⟨rfl, rfl⟩ := he
      exact Or.inl hv
    · obtain ⟨hw', _, hb'⟩ := h.2 (k', p') hm'
      refine Or.inr ⟨(mem_bucketsMembers bs v).2 ⟨k', p', hm', hv⟩, ?_⟩
      rw [Plain.members_bucket p' hw' v hv]
      exact fun hc => hne (by rw [← hc]; exact hb'.symm)
  · rintro (hv | ⟨hv, hne⟩)
    · exact ⟨k, p, (AL.mem_put bs k p h.1 (k, p)).2 (Or.inl rfl), hv⟩
    · obtain ⟨k', p', hm, hv'⟩ := (mem_bucketsMembers bs v).1 hv
      obtain ⟨hw', _, hb'⟩ := h.2 (k', p') hm
      refine ⟨k', p', (AL.mem_put bs k p h.1 (k', p')).2 (Or.inr ⟨hm, ?_⟩), hv'⟩
      intro hc
      apply hne
      rw [Plain.members_bucket p' hw' v hv']
      exact hb'.trans hc

theorem mem_bucketsMembers_remove (bs : List (Bucket × Plain)) (h : BucketsWF bs) (k : Bucket) (v : V) :
    v ∈ bucketsMembers (AL.remove k bs) ↔ v ∈ bucketsMembers bs ∧ bucketOf v ≠ k := by
  rw [mem_bucketsMembers, mem_bucketsMembers]
  constructor
  · rintro ⟨k', p', hm, hv⟩
    obtain ⟨hm', hne⟩ := (AL.mem_remove bs k h.1 (k', p')).1 hm
    obtain ⟨hw', _, hb'⟩ := h.2 (k', p') hm'
    refine ⟨⟨k', p', hm', hv⟩, ?_⟩
    rw [Plain.members_bucket p' hw' v hv]
    exact fun hc => hne (by rw [← hc]; exact hb'.symm)
  · rintro ⟨⟨k', p', hm, hv⟩, hne⟩
    obtain ⟨hw', _, hb'⟩ := h.2 (k', p') hm
    refine ⟨k', p', (AL.mem_remove bs k h.1 (k', p')).2 ⟨hm, ?_⟩, hv⟩
    intro hc
    apply hne
    rw [Plain.members_bucket p' hw' v hv]
    exact hb'.trans hc

theorem diff_spec (a b : Rep) (ha : a.WF) (hb : b.WF) (hadm : DiffAdm a b) :
    (diff a b).WF ∧ ∀ v, v ∈ (diff a b).members ↔ v ∈ a.members ∧ v ∉ b.members := by
  cases a with
  | plain p =>
    cases b with
    | plain q =>
      obtain ⟨w1, w2, _⟩ := diffPP_spec p q ha hb hadm
      exact ⟨w1, w2⟩
    | union bu =>
      simp only [diff]
      by_cases he : p = .empty
      · subst he
        simp only [if_true]
        exact ⟨trivial, by simp [Rep.members, Plain.members]⟩
      · simp only [he, if_false]
        obtain ⟨w1, w2, _⟩ := diffPP_spec p (getSubset bu p.bucket) ha (getSubset_wf bu hb.1 _) hadm
        refine ⟨w1, ?_⟩
        intro v
        show v ∈ (diffPP _ _).members ↔ v ∈ p.members ∧ v ∉ bucketsMembers bu
        rw [w2, mem_getSubset bu hb.1]
        constructor
        · rintro ⟨h1, h2⟩; exact ⟨h1, fun hc => h2 ⟨hc, Plain.members_bucket p ha v h1⟩⟩
        · rintro ⟨h1, h2⟩; exact ⟨h1, fun hc => h2 hc.1⟩
  | union au =>
    cases b with
    | plain q =>
      simp only [diff]
      by_cases he : q = .empty
      · subst he
        simp only [if_true]
        exact ⟨ha, by simp [Rep.members, Plain.members]⟩
      · simp only [he, if_false]
        obtain ⟨w1, w2, w3⟩ := diffPP_spec (getSubset au q.bucket) q (getSubset_wf au ha.1 _) hb hadm
        have hsub : ∀ v, v ∈ (getSubset au q.bucket).members → bucketOf v = q.bucket :=
          fun v hv => ((mem_getSubset au ha.1 _ v).1 hv).2
        have hbk : (diffPP (getSubset au q.bucket) q).members ≠ [] →
            (diffPP (getSubset au q.bucket) q).bucket = q.bucket := by
          intro hne
          cases hm : (diffPP (getSubset au q.bucket) q).members with
          | nil => exact absurd hm hne
          | cons x r =>
            have hx : x ∈ (diffPP (getSubset au q.bucket) q).members := by rw [hm]; simp
            rw [← Plain.members_bucket _ w1 x hx]
            exact hsub x ((w2 x).1 hx).1
        by_cases ht : (diffPP (getSubset au q.bucket) q).isTrue = true
        · simp only [ht, if_true]
          have hne := (Plain.isTrue_iff _ w1).1 ht
          refine ⟨fromBuckets_wf _ (ha.1.put _ _ w1 hne (hbk hne)), ?_⟩
          intro v
          rw [fromBuckets_members, mem_bucketsMembers_put au ha.1 _ _ w1 hbk, w2, mem_getSubset au ha.1]
          show _ ↔ v ∈ bucketsMembers au ∧ v ∉ q.members
          constructor
          · rintro (⟨⟨h1, _⟩, h2⟩ | ⟨h1, h2⟩)
            · exact ⟨h1, h2⟩
            · exact ⟨h1, fun hc => h2 (Plain.members_bucket q hb v hc)⟩
          · rintro ⟨h1, h2⟩
            by_cases hk : bucketOf v = q.bucket
            · exact Or.inl ⟨⟨h1, hk⟩, h2⟩
            · exact Or.inr ⟨h1, hk⟩
        · simp only [ht, Bool.false_eq_true, if_false]
          have hemp : (diffPP (getSubset au q.bucket) q).members = [] := by
            apply Classical.byContradiction
            intro hne
            exact ht ((Plain.isTrue_iff _ w1).2 hne)
          refine ⟨fromBuckets_wf _ (ha.1.remove _), ?_⟩
          intro v
          rw [fromBuckets_members, mem_bucketsMembers_remove au ha.1]
          show _ ↔ v ∈ bucketsMembers au ∧ v ∉ q.members
          constructor
          · rintro ⟨h1, h2⟩
            exact ⟨h1, fun hc => h2 (Plain.members_bucket q hb v hc)⟩
          · rintro ⟨h1, h2⟩
            refine ⟨h1, ?_⟩
            intro hk
            have : v ∈ (diffPP (getSubset au q.bucket) q).members :=
              (w2 v).2 ⟨(mem_getSubset au ha.1 _ v).2 ⟨h1, hk⟩, h2⟩
            rw [hemp] at this; cases this
    | union bu =>
      simp only [diff]
      obtain ⟨w1, _, w3⟩ := diffBuckets_spec bu hb.1 au ha.1 hadm
      refine ⟨fromBuckets_wf _ w1, ?_⟩
      intro v
      rw [fromBuckets_members]
      exact w3 v
