/-
  Helper lemmas for C14 (property theorems live in Arrai/Proofs/C14.lean).
-/
import Arrai.C14.Model

namespace Arrai.C14
variable {α : Type} [DecidableEq α]

namespace Spec

theorem hasPrefix_iff (p s : List α) : hasPrefix p s = true ↔ ∃ t, s = p ++ t := by
  induction p generalizing s with
  | nil => simp [hasPrefix]
  | cons a p ih =>
    cases s with
    | nil => simp [hasPrefix]
    | cons x xs =>
      simp only [hasPrefix, Bool.and_eq_true, decide_eq_true_eq, ih, List.cons_append, List.cons.injEq]
      constructor
      · rintro ⟨rfl, t, rfl⟩; exact ⟨t, rfl, rfl⟩
      · rintro ⟨t, rfl, rfl⟩; exact ⟨rfl, t, rfl⟩

theorem hasPrefix_append (p t : List α) : hasPrefix p (p ++ t) = true :=
  (hasPrefix_iff p _).2 ⟨t, rfl⟩

theorem hasPrefix_length (p s : List α) (h : hasPrefix p s = true) : p.length ≤ s.length := by
  obtain ⟨t, rfl⟩ := (hasPrefix_iff p s).1 h
  simp

theorem hasPrefix_eq_drop (p s : List α) (h : hasPrefix p s = true) : s = p ++ s.drop p.length := by
  obtain ⟨t, rfl⟩ := (hasPrefix_iff p s).1 h
  simp

theorem hasSuffix_iff (p s : List α) : hasSuffix p s = true ↔ ∃ t, s = t ++ p := by
  unfold hasSuffix
  rw [hasPrefix_iff]
  constructor
  · rintro ⟨t, h⟩
    refine ⟨t.reverse, ?_⟩
    have := congrArg List.reverse h
    simpa using this
  · rintro ⟨t, rfl⟩
    exact ⟨t.reverse, by simp⟩

theorem contains_iff (p s : List α) : contains p s = true ↔ ∃ a b, s = a ++ p ++ b := by
  induction s with
  | nil =>
    simp only [contains, List.isEmpty_iff]
    constructor
    · rintro rfl; exact ⟨[], [], rfl⟩
    · rintro ⟨a, b, h⟩
      have := congrArg List.length h
      simp at this
      exact List.length_eq_zero_iff.1 (by omega)
  | cons x xs ih =>
    simp only [contains, Bool.or_eq_true, ih, hasPrefix_iff]
    constructor
    · rintro (⟨t, h⟩ | ⟨a, b, h⟩)
      · exact ⟨[], t, by simpa using h⟩
      · exact ⟨x :: a, b, by simp [h]⟩
    · rintro ⟨a, b, h⟩
      cases a with
      | nil => exact Or.inl ⟨b, by simpa using h⟩
      | cons y a =>
        simp only [List.cons_append, List.cons.injEq] at h
        exact Or.inr ⟨a, b, h.2⟩

end Spec
end Arrai.C14

namespace Arrai.C14
variable {α : Type} [DecidableEq α]

namespace Spec

theorem splitGo_ne_nil (d : List α) (k : Nat) (acc s : List α) : splitGo d k acc s ≠ [] := by
  induction s generalizing k acc with
  | nil => simp [splitGo]
  | cons x xs ih =>
    cases k with
    | zero => simp only [splitGo]; split <;> simp [ih]
    | succ k => simp only [splitGo]; exact ih k acc

theorem join_cons (d a : List α) (r : List (List α)) (h : r ≠ []) : join d (a :: r) = a ++ d ++ join d r := by
  cases r with
  | nil => exact absurd rfl h
  | cons y r => simp [join]

theorem splitGo_skip (d : List α) (k : Nat) (acc s : List α) :
    splitGo d k acc s = splitGo d 0 acc (s.drop k) := by
  induction s generalizing k with
  | nil => simp [splitGo]
  | cons x xs ih =>
    cases k with
    | zero => simp
    | succ k => simp only [splitGo, List.drop_succ_cons]; exact ih k

theorem join_splitGo (d : List α) (hd : d ≠ []) (k : Nat) (acc s : List α) :
    join d (splitGo d k acc s) = acc.reverse ++ s.drop k := by
  induction s generalizing k acc with
  | nil => simp [splitGo, join]
  | cons x xs ih =>
    cases k with
    | succ k => simp only [splitGo, List.drop_succ_cons]; exact ih k acc
    | zero =>
      simp only [splitGo, List.drop_zero]
      split
      · rename_i h
        rw [join_cons _ _ _ (splitGo_ne_nil _ _ _ _), ih]
        have e := hasPrefix_eq_drop d (x :: xs) h
        have hl : d.length = (d.length - 1) + 1 := by
          have : 0 < d.length := List.length_pos_iff.2 hd
          omega
        rw [hl, List.drop_succ_cons] at e
        simp only [List.reverse_nil, List.nil_append, List.append_assoc]
        rw [← e]
      · rw [ih]; simp

/-- join inverts split (non-empty delimiter) -/
theorem join_split (d s : List α) (hd : d ≠ []) : join d (split d s) = s := by
  unfold split
  have : d.isEmpty = false := by cases d <;> simp_all
  simp [this, join_splitGo d hd]

end Spec

namespace Impl

theorem searchFrom_spec (d : List α) (hd : d ≠ []) (start : Nat) (acc s : List α) :
    match searchFrom d start s with
    | none => Spec.splitGo d 0 acc s = [acc.reverse ++ s]
    | some j => ∃ i, j = start + i ∧ i + d.length ≤ s.length ∧
        Spec.splitGo d 0 acc s = (acc.reverse ++ s.take i) :: Spec.splitGo d 0 [] (s.drop (i + d.length)) := by
  induction s generalizing start acc with
  | nil =>
    have : d.isEmpty = false := by cases d <;> simp_all
    simp [searchFrom, this, Spec.splitGo]
  | cons x xs ih =>
    unfold searchFrom
    by_cases h : Spec.hasPrefix d (x :: xs) = true
    · have hl := Spec.hasPrefix_length d (x :: xs) h
      have hl' : decide (d.length ≤ (x :: xs).length) = true := by simpa using hl
      simp only [hl', h, Bool.and_self, if_true]
      refine ⟨0, by simp, by simpa using hl, ?_⟩
      simp only [Spec.splitGo, h, if_true, List.take_zero, List.append_nil, Nat.zero_add]
      rw [Spec.splitGo_skip]
      have hp : 0 < d.length := List.length_pos_iff.2 hd
      have : d.length = (d.length - 1) + 1 := by omega
      rw [this, List.drop_succ_cons]
      simp
    · have hf : Spec.hasPrefix d (x :: xs) = false := by simpa using h
      simp only [hf, Bool.and_false, Bool.false_eq_true, if_false]
      have := ih (start + 1) (x :: acc)
      cases hs : searchFrom d (start + 1) xs with
      | none =>
        rw [hs] at this
        simp only at this ⊢
        simp [Spec.splitGo, hf, this]
      | some j =>
        rw [hs] at this
        simp only at this ⊢
        obtain ⟨i, hj, hlen, heq⟩ := this
        refine ⟨i + 1, by omega, by simp; omega, ?_⟩
        simp only [Spec.splitGo, hf, Bool.false_eq_true, if_false, heq]
        simp [Nat.add_right_comm i 1 d.length]

theorem arraySplitLoop_eq (d : List α) (hd : d ≠ []) (fuel : Nat) (s : List α) (hf : s.length < fuel) :
    arraySplitLoop d fuel s = Spec.splitGo d 0 [] s := by
  induction fuel generalizing s with
  | zero => omega
  | succ f ih =>
    unfold arraySplitLoop search
    have := searchFrom_spec d hd 0 [] s
    cases hs : searchFrom d 0 s with
    | none => rw [hs] at this; simpa using this.symm
    | some j =>
      rw [hs] at this
      obtain ⟨i, hj, hlen, heq⟩ := this
      simp only [Nat.zero_add] at hj
      subst hj
      simp only [heq, List.reverse_nil, List.nil_append]
      rw [ih]
      have hp : 0 < d.length := List.length_pos_iff.2 hd
      simp; omega

theorem arraySplit_eq (d s : List α) : arraySplit d s = Spec.split d s := by
  unfold arraySplit Spec.split
  by_cases h : d.isEmpty = true
  · simp [h]
  · have hd : d ≠ [] := by intro e; subst e; simp at h
    simp only [h, Bool.false_eq_true, if_false]
    exact arraySplitLoop_eq d hd _ s (by omega)

theorem arraySubLoop_eq (old new : List α) (hd : old ≠ []) (fuel : Nat) (s : List α) (hf : s.length < fuel) :
    arraySubLoop old new fuel s = Spec.join new (Spec.splitGo old 0 [] s) := by
  induction fuel generalizing s with
  | zero => omega
  | succ f ih =>
    unfold arraySubLoop search
    have := searchFrom_spec old hd 0 [] s
    cases hs : searchFrom old 0 s with
    | none => rw [hs] at this; simp only at this; simp [this, Spec.join]
    | some j =>
      rw [hs] at this
      obtain ⟨i, hj, hlen, heq⟩ := this
      simp only [Nat.zero_add] at hj
      subst hj
      simp only [heq, List.reverse_nil, List.nil_append]
      rw [Spec.join_cons _ _ _ (Spec.splitGo_ne_nil _ _ _ _), ih]
      have hp : 0 < old.length := List.length_pos_iff.2 hd
      simp; omega

theorem sub_empty_eq (new s : List α) :
    (s.map (fun e => new ++ [e])).flatten ++ new = new ++ (s.map (fun x => x :: new)).flatten := by
  induction s with
  | nil => simp
  | cons x xs ih => simp [ih]

theorem arraySub_eq (old new s : List α) : arraySub old new s = Spec.sub old new s := by
  unfold arraySub Spec.sub
  by_cases h : old.isEmpty = true
  · simp [h, sub_empty_eq]
  · have hd : old ≠ [] := by intro e; subst e; simp at h
    simp only [h, Bool.false_eq_true, if_false]
    exact arraySubLoop_eq old new hd _ s (by omega)

end Impl
end Arrai.C14

namespace Arrai.C14
variable {α : Type} [DecidableEq α]
namespace Impl

theorem searchFrom_isSome (sub : List α) (start : Nat) (s : List α) :
    (searchFrom sub start s).isSome = Spec.contains sub s := by
  induction s generalizing start with
  | nil => simp only [searchFrom, Spec.contains]; split <;> simp_all
  | cons x xs ih =>
    unfold searchFrom
    simp only [Spec.contains]
    by_cases h : Spec.hasPrefix sub (x :: xs) = true
    · have hl := Spec.hasPrefix_length sub (x :: xs) h
      have hl2 : sub.length ≤ xs.length + 1 := by simpa using hl
      simp [hl2, h]
    · have hf : Spec.hasPrefix sub (x :: xs) = false := by simpa using h
      simp [hf, ih]

theorem search_isSome (s sub : List α) : (search s sub).isSome = Spec.contains sub s :=
  searchFrom_isSome sub 0 s

theorem arrayHasPrefixLoop_eq (p s : List α) (h : p.length ≤ s.length) :
    arrayHasPrefixLoop p s = Spec.hasPrefix p s := by
  induction p generalizing s with
  | nil => simp [arrayHasPrefixLoop, Spec.hasPrefix]
  | cons a p ih =>
    cases s with
    | nil => simp at h
    | cons x xs =>
      simp only [arrayHasPrefixLoop, Spec.hasPrefix]
      by_cases e : x = a
      · subst e; simp [ih xs (by simpa using h)]
      · have : ¬ a = x := fun h' => e h'.symm
        simp [e, this]

theorem arrayHasPrefix_eq (p s : List α) : arrayHasPrefix p s = Spec.hasPrefix p s := by
  unfold arrayHasPrefix
  by_cases hp : p.isEmpty = true
  · have : p = [] := by simpa using hp
    subst this; simp [Spec.hasPrefix]
  · simp only [hp, Bool.false_eq_true, if_false]
    by_cases hl : s.length < p.length
    · simp only [hl, if_true]
      cases h : Spec.hasPrefix p s with
      | false => rfl
      | true => have := Spec.hasPrefix_length p s h; omega
    · simp only [hl, if_false]
      exact arrayHasPrefixLoop_eq p s (by omega)

theorem arrayHasSuffix_eq (p s : List α) : arrayHasSuffix p s = Spec.hasSuffix p s := by
  unfold arrayHasSuffix
  by_cases hp : p.isEmpty = true
  · have : p = [] := by simpa using hp
    subst this; simp [Spec.hasSuffix, Spec.hasPrefix]
  · simp only [hp, Bool.false_eq_true, if_false]
    by_cases hl : s.length < p.length
    · simp only [hl, if_true]
      cases h : Spec.hasSuffix p s with
      | false => rfl
      | true =>
        obtain ⟨t, rfl⟩ := (Spec.hasSuffix_iff p _).1 h
        simp at hl
        exact absurd hl (by omega)
    · simp only [hl, if_false]
      rw [Bool.eq_iff_iff]
      simp only [Bool.and_eq_true, decide_eq_true_eq, Spec.hasSuffix_iff, Spec.hasPrefix_iff]
      constructor
      · rintro ⟨⟨t, ht⟩, hlen⟩
        have : t = [] := by
          have h1 : (List.drop (s.length - p.length) s).length = (p ++ t).length := congrArg List.length ht
          rw [hlen, List.length_append] at h1
          exact List.length_eq_zero_iff.1 (by omega)
        subst this
        refine ⟨s.take (s.length - p.length), ?_⟩
        rw [List.append_nil] at ht
        have h2 := List.take_append_drop (s.length - p.length) s
        rw [ht] at h2
        exact h2.symm
      · rintro ⟨t, rfl⟩
        simp

theorem arrayJoin_eq (d : List α) (xss : List (List α)) : arrayJoin d xss = Spec.join d xss := by
  cases xss with
  | nil => rfl
  | cons x r =>
    simp only [arrayJoin]
    induction r generalizing x with
    | nil => simp [Spec.join]
    | cons y r ih =>
      simp only [List.map_cons, List.flatten_cons, Spec.join]
      rw [← ih y]
      simp

theorem indexed_append (k : Nat) (a b : List α) :
    indexed k (a ++ b) = indexed k a ++ indexed (k + a.length) b := by
  induction a generalizing k with
  | nil => simp [indexed]
  | cons x xs ih => simp [indexed, ih, Nat.add_assoc, Nat.add_comm 1]

theorem mem_indexed (k : Nat) (a : List α) (e : Nat × α) (h : e ∈ indexed k a) :
    k ≤ e.1 ∧ e.1 < k + a.length := by
  induction a generalizing k with
  | nil => simp [indexed] at h
  | cons x xs ih =>
    simp only [indexed, List.mem_cons] at h
    rcases h with rfl | h
    · simp
    · have := ih (k + 1) h
      simp; omega

theorem map_snd_indexed (k : Nat) (a : List α) : (indexed k a).map (·.2) = a := by
  induction a generalizing k with
  | nil => rfl
  | cons x xs ih => simp [indexed, ih]

theorem filter_all {β} (p : β → Bool) (l : List β) (h : ∀ x ∈ l, p x = true) : l.filter p = l :=
  List.filter_eq_self.2 h

theorem filter_none {β} (p : β → Bool) (l : List β) (h : ∀ x ∈ l, p x = false) : l.filter p = [] := by
  apply List.filter_eq_nil_iff.2
  intro x hx; simp [h x hx]

theorem arrayTrimPrefix_eq (p s : List α) : arrayTrimPrefix p s = Spec.trimPrefix p s := by
  unfold arrayTrimPrefix Spec.trimPrefix
  rw [arrayHasPrefix_eq]
  by_cases h : Spec.hasPrefix p s = true
  · obtain ⟨t, rfl⟩ := (Spec.hasPrefix_iff p s).1 h
    cases p with
    | nil => simp [Spec.hasPrefix]
    | cons a p =>
      simp only [h, List.isEmpty_cons, Bool.not_false, Bool.true_and, List.cons_append,
        Bool.and_self, if_true, List.length_cons]
      rw [← List.cons_append, indexed_append, List.filter_append, filter_none, filter_all]
      · simp [map_snd_indexed]
      · intro e he
        have h1 := mem_indexed _ _ _ he
        simp only [Bool.not_eq_true', decide_eq_false_iff_not]
        intro he'
        have h2 := mem_indexed _ _ _ he'
        simp at h1 h2; omega
      · intro e he
        simp [he]
  · have hf : Spec.hasPrefix p s = false := by simpa using h
    simp [hf]

theorem trimSuffix_core (t p : List α) :
    ((indexed 0 (t ++ p)).filter (fun e => !decide (e ∈ indexed ((t ++ p).length - p.length) p))).map (·.2) = t := by
  have hlen : (t ++ p).length - p.length = t.length := by simp
  simp only [hlen]
  rw [indexed_append, List.filter_append, filter_all, filter_none]
  · simp [map_snd_indexed]
  · intro e he
    simp at he ⊢
    simpa using he
  · intro e he
    have h1 := mem_indexed _ _ _ he
    simp only [Bool.not_eq_true', decide_eq_false_iff_not]
    intro he'
    have h2 := mem_indexed _ _ _ he'
    simp at h1 h2; omega

theorem arrayTrimSuffix_eq (p s : List α) : arrayTrimSuffix p s = Spec.trimSuffix p s := by
  unfold arrayTrimSuffix Spec.trimSuffix
  rw [arrayHasSuffix_eq]
  by_cases h : Spec.hasSuffix p s = true
  · obtain ⟨t, rfl⟩ := (Spec.hasSuffix_iff p s).1 h
    cases p with
    | nil => simp [Spec.hasSuffix, Spec.hasPrefix]
    | cons a p =>
      have hne : (t ++ a :: p).isEmpty = false := by cases t <;> simp
      simp only [h, List.isEmpty_cons, hne, Bool.not_false, Bool.and_self, if_true]
      rw [trimSuffix_core]
      simp
  · have hf : Spec.hasSuffix p s = false := by simpa using h
    simp [hf]

theorem repeatLoop_eq (s : List α) (n : Nat) : repeatLoop s n = Spec.repeat_ n s := by
  unfold Spec.repeat_
  induction n with
  | zero => rfl
  | succ n ih => simp [repeatLoop, ih, List.replicate_succ']

end Impl
end Arrai.C14
