/-
  C14 — //seq functions.  `Spec`: textbook list functions.  `Impl`: transliteration of
  syntax/std_seq.go + std_seq_array_helper.go + std_seq_bytes_helper.go (the array helpers
  literally; Go's `strings.*`/`bytes.*` by the textbook function — trusted, see DESIGN §7).
  Core-only.
-/
import Arrai.Core.Canon

namespace Arrai.C14

/-! ## Spec: textbook sequence functions -/
namespace Spec
variable {α : Type} [DecidableEq α]

def hasPrefix : List α → List α → Bool
  | [], _ => true
  | _ :: _, [] => false
  | p :: ps, x :: xs => p = x && hasPrefix ps xs

def hasSuffix (p s : List α) : Bool := hasPrefix p.reverse s.reverse

/-- some window of `s` equals `p` -/
def contains (p : List α) : List α → Bool
  | [] => p.isEmpty
  | x :: xs => hasPrefix p (x :: xs) || contains p xs

def join (d : List α) : List (List α) → List α
  | [] => []
  | [x] => x
  | x :: y :: r => x ++ d ++ join d (y :: r)

/-- leftmost, non-overlapping split by a non-empty delimiter (`skip` = delimiter elements
still to be consumed; `acc` = current segment, reversed) -/
def splitGo (d : List α) : Nat → List α → List α → List (List α)
  | _, acc, [] => [acc.reverse]
  | skip + 1, acc, _ :: xs => splitGo d skip acc xs
  | 0, acc, x :: xs =>
    if hasPrefix d (x :: xs) then acc.reverse :: splitGo d (d.length - 1) [] xs
    else splitGo d 0 (x :: acc) xs

/-- `split d s`; with an empty delimiter every element becomes its own segment
(Go `strings.Split(s, "")`, `arraySplit` with an empty delimiter) -/
def split (d s : List α) : List (List α) :=
  if d.isEmpty then s.map (fun x => [x]) else splitGo d 0 [] s

/-- replace every (leftmost, non-overlapping) occurrence of `old` by `new`; with an empty
`old`, `new` is inserted before every element and at the end (Go `strings.ReplaceAll`) -/
def sub (old new s : List α) : List α :=
  if old.isEmpty then new ++ (s.map (fun x => x :: new)).flatten
  else join new (splitGo old 0 [] s)

def repeat_ (n : Nat) (s : List α) : List α := (List.replicate n s).flatten

def trimPrefix (p s : List α) : List α := if hasPrefix p s then s.drop p.length else s
def trimSuffix (p s : List α) : List α := if hasSuffix p s then s.take (s.length - p.length) else s
def concat (xs : List (List α)) : List α := xs.flatten

end Spec

/-! ## Impl: the Go code -/
namespace Impl
variable {α : Type} [DecidableEq α]

/-- `search` (std_seq_array_helper.go): first index at which `sub` occurs in `subject`, or none.
The loop tries every start position `start` with `start + len(sub) <= len(subject)`. -/
def searchFrom (sub : List α) : Nat → List α → Option Nat
  | start, [] => if sub.isEmpty then some start else none
  | start, x :: xs =>
    if sub.length ≤ (x :: xs).length && Spec.hasPrefix sub (x :: xs) then some start
    else searchFrom sub (start + 1) xs

def search (subject sub : List α) : Option Nat := searchFrom sub 0 subject

/-- the `for { if i := search(...); i >= 0 {...} else {...; break} }` loop of `arraySplit` -/
def arraySplitLoop (d : List α) : Nat → List α → List (List α)
  | 0, s => [s]
  | fuel + 1, s =>
    match search s d with
    | some i => s.take i :: arraySplitLoop d fuel (s.drop (i + d.length))
    | none => [s]

def arraySplit (d s : List α) : List (List α) :=
  if d.isEmpty then s.map (fun x => [x]) else arraySplitLoop d (s.length + 1) s

def arraySubLoop (old new : List α) : Nat → List α → List α
  | 0, s => s
  | fuel + 1, s =>
    match search s old with
    | some i => s.take i ++ new ++ arraySubLoop old new fuel (s.drop (i + old.length))
    | none => s

def arraySub (old new s : List α) : List α :=
  if old.isEmpty then (s.map (fun e => new ++ [e])).flatten ++ new
  else arraySubLoop old new (s.length + 1) s

/-- `arrayHasPrefix`: walks the subject's enumerator while counting matched prefix elements -/
def arrayHasPrefixLoop : List α → List α → Bool
  | [], _ => true            -- prefixOffset == count: break
  | _ :: _, [] => true       -- enumerator exhausted: falls out of the loop (guarded by the count test)
  | p :: ps, x :: xs => if x = p then arrayHasPrefixLoop ps xs else false

def arrayHasPrefix (p s : List α) : Bool :=
  if p.isEmpty then true
  else if s.length < p.length then false
  else arrayHasPrefixLoop p s

/-- `arrayHasSuffix`: compares the last `len(suffix)` elements -/
def arrayHasSuffix (p s : List α) : Bool :=
  if p.isEmpty then true
  else if s.length < p.length then false
  else Spec.hasPrefix p (s.drop (s.length - p.length)) && (s.drop (s.length - p.length)).length = p.length

def arrayJoin (d : List α) : List (List α) → List α
  | [] => []
  | x :: r => x ++ (r.map (fun y => d ++ y)).flatten

/-- `arrayTrimPrefix`: `Difference(subject, prefix).Shift(-count)` on (index, item) pairs -/
def indexed (off : Nat) : List α → List (Nat × α)
  | [] => []
  | x :: xs => (off, x) :: indexed (off + 1) xs

def arrayTrimPrefix (p s : List α) : List α :=
  if !p.isEmpty && !s.isEmpty && arrayHasPrefix p s then
    ((indexed 0 s).filter (fun e => !decide (e ∈ indexed 0 p))).map (·.2)
  else s

def arrayTrimSuffix (p s : List α) : List α :=
  if !p.isEmpty && !s.isEmpty && arrayHasSuffix p s then
    ((indexed 0 s).filter (fun e => !decide (e ∈ indexed (s.length - p.length) p))).map (·.2)
  else s

def repeatLoop (s : List α) : Nat → List α
  | 0 => []
  | n + 1 => repeatLoop s n ++ s

end Impl

/-! ## The value-level dispatch of std_seq.go -/

inductive Kind | S | B | A
  deriving DecidableEq, Inhabited, Repr

/-- a sequence argument: `xs = []` is the one empty set whatever `kind` says -/
structure Sq where
  kind : Kind
  xs : List Nat
  deriving DecidableEq, Inhabited

inductive Res
  | bool (b : Bool)
  | seq (k : Kind) (xs : List Nat)
  | seqs (k : Kind) (xss : List (List Nat))
  | err
  | panic
  deriving DecidableEq, Inhabited

def Sq.isE (s : Sq) : Bool := s.xs.isEmpty
/-- `ValueAsString`/`ValueAsBytes`/`AsArray` succeed for the matching kind and for the empty set -/
def Sq.as (s : Sq) (k : Kind) : Bool := s.isE || s.kind = k

namespace Model

def contains (sub subject : Sq) : Res :=
  if subject.isE then .bool sub.isE
  else match subject.kind with
    | .S => if sub.as .S then .bool (Spec.contains sub.xs subject.xs) else .err
    | .B => if sub.as .B then .bool (Spec.contains sub.xs subject.xs) else .err
    | .A => if sub.as .A then .bool ((Impl.search subject.xs sub.xs).isSome) else .err

def hasPrefix (p subject : Sq) : Res :=
  if subject.isE then .bool p.isE
  else match subject.kind with
    | .S => if p.as .S then .bool (Spec.hasPrefix p.xs subject.xs) else .err
    | .B => if p.as .B then .bool (Spec.hasPrefix p.xs subject.xs) else .err
    | .A => if p.isE then .bool true else if p.as .A then .bool (Impl.arrayHasPrefix p.xs subject.xs) else .err

def hasSuffix (p subject : Sq) : Res :=
  if subject.isE then .bool p.isE
  else match subject.kind with
    | .S => if p.as .S then .bool (Spec.hasSuffix p.xs subject.xs) else .err
    | .B => if p.as .B then .bool (Spec.hasSuffix p.xs subject.xs) else .err
    | .A => if p.as .A then .bool (Impl.arrayHasSuffix p.xs subject.xs) else .err

def split (d subject : Sq) : Res :=
  if subject.isE then
    (if d.isE then .seq .A [] else .seqs .A [[]])
  else match subject.kind with
    | .S => if d.as .S then .seqs .S (Spec.split d.xs subject.xs) else .err
    | .B => if d.as .B then .seqs .B (Spec.split d.xs subject.xs) else .err
    | .A => if d.as .A then .seqs .A (Impl.arraySplit d.xs subject.xs) else .err

def sub (old new subject : Sq) : Res :=
  if subject.isE then (if old.isE then .seq new.kind new.xs else .seq .A [])
  else match subject.kind with
    | .S => if old.as .S && new.as .S then .seq .S (Spec.sub old.xs new.xs subject.xs) else .err
    | .B => if old.as .B && new.as .B then .seq .B (Spec.sub old.xs new.xs subject.xs) else .err
    | .A => if old.as .A && new.as .A then .seq .A (Impl.arraySub old.xs new.xs subject.xs) else .err

def trimPrefix (p subject : Sq) : Res :=
  match hasPrefix p subject with
  | .bool true =>
    if subject.isE then .seq subject.kind subject.xs
    else (match subject.kind with
      | .S => .seq .S (Spec.trimPrefix p.xs subject.xs)
      | .B => .seq .B (Spec.trimPrefix p.xs subject.xs)
      | .A => .seq .A (Impl.arrayTrimPrefix p.xs subject.xs))
  | .bool false => .seq subject.kind subject.xs
  | r => r

def trimSuffix (p subject : Sq) : Res :=
  if subject.isE then .seq subject.kind subject.xs
  else match subject.kind with
    | .S => if p.as .S then .seq .S (Spec.trimSuffix p.xs subject.xs) else .err
    | .B => if p.as .B then .seq .B (Spec.trimSuffix p.xs subject.xs) else .err
    | .A => if p.isE then .seq .A subject.xs
            else if p.as .A then .seq .A (Impl.arrayTrimSuffix p.xs subject.xs) else .err

/-- `//seq.repeat(n, seq)` for an integral `n ≥ 0`; byte arrays are rejected (KF-seq-bytes) -/
def repeat_ (n : Nat) (s : Sq) : Res :=
  if s.isE then .seq .A []
  else match s.kind with
    | .S => .seq .S (Spec.repeat_ n s.xs)
    | .A => .seq .A (Impl.repeatLoop s.xs n)
    | .B => .err

/-- `//seq.join(joiner, subject)` where `subject` is an array of sequences of kind `k` -/
def join (d : Sq) (k : Kind) (xss : List (List Nat)) : Res :=
  match xss with
  | [] => .seq .A []
  | x0 :: _ =>
    -- Values()[0] is a String iff k = S and x0 ≠ []
    if k = .S && !x0.isEmpty then
      (if d.as .S then .seq .S (Spec.join d.xs xss) else .err)
    else if !d.isE && d.kind = .S then
      (if k = .S || xss.all (·.isEmpty) then .seq .S (Spec.join d.xs xss) else .err)
    else if d.as .A then
      (if k = .A || xss.all (·.isEmpty) then .seq .A (Impl.arrayJoin d.xs xss) else .err)
    else .err

/-- `//seq.concat(array of sequences of kind k)` -/
def concat (k : Kind) (xss : List (List Nat)) : Res :=
  match xss with
  | [] => .seq .A []
  | _ :: _ => .seq k (Spec.concat xss)

end Model

/-! ## What the specification demands (kind-consistent arguments) -/
namespace SpecRes

def contains (sub subject : Sq) : Res := .bool (Spec.contains sub.xs subject.xs)
def hasPrefix (p subject : Sq) : Res := .bool (Spec.hasPrefix p.xs subject.xs)
def hasSuffix (p subject : Sq) : Res := .bool (Spec.hasSuffix p.xs subject.xs)
def split (d subject : Sq) : Res :=
  if subject.isE then (if d.isE then .seq .A [] else .seqs .A [[]])
  else .seqs subject.kind (Spec.split d.xs subject.xs)
def sub (old new subject : Sq) : Res :=
  if subject.isE then (if old.isE then .seq new.kind new.xs else .seq .A [])
  else .seq subject.kind (Spec.sub old.xs new.xs subject.xs)
def trimPrefix (p subject : Sq) : Res := .seq subject.kind (Spec.trimPrefix p.xs subject.xs)
def trimSuffix (p subject : Sq) : Res := .seq subject.kind (Spec.trimSuffix p.xs subject.xs)
def repeat_ (n : Nat) (s : Sq) : Res := .seq s.kind (Spec.repeat_ n s.xs)
def join (d : Sq) (k : Kind) (xss : List (List Nat)) : Res := .seq k (Spec.join d.xs xss)
def concat (k : Kind) (xss : List (List Nat)) : Res := .seq k (Spec.concat xss)

end SpecRes

/-! ## Rendering: source text and canonical observables -/

def elemV (k : Kind) (x : Nat) : V :=
  match k with
  | .A => .num x
  | _ => .num (97 + x)

def seqV (k : Kind) (xs : List Nat) : V :=
  match k with
  | .S => V.mkSeq "@char" 0 (xs.map (fun x => some (elemV .S x)))
  | .B => V.mkSeq "@byte" 0 (xs.map (fun x => some (elemV .B x)))
  | .A => V.mkSeq "@item" 0 (xs.map (fun x => some (elemV .A x)))

/-- all empty sequences are the one empty set: forget the kind tag of an empty result -/
def Res.norm : Res → Res
  | .seq _ [] => .seq .A []
  | r => r

def Res.render : Res → String
  | .bool b => (V.bool b).canon
  | .seq k xs => (seqV k xs).canon
  | .seqs k xss => (V.mkArr (xss.map (seqV k))).canon
  | .err => "error"
  | .panic => "panic"

def Res.obs (r : Res) : String := r.norm.render

/-- join: the classes on which today's code departs from the specification
(byte-array elements are rejected; an empty joiner with an empty first string element
is dispatched to the array path) -/
def joinGood (d : Sq) (k : Kind) (xss : List (List Nat)) : Bool :=
  (d.isE || d.kind = k) &&
  (match k with
   | .B => xss.all (·.isEmpty) && d.isE
   | .S => !(d.isE && (xss.head?.map (·.isEmpty)).getD false && !xss.all (·.isEmpty))
   | .A => true)

/-- kind-consistent arguments: the same kind, or one of them the empty set -/
def consistent (p subject : Sq) : Bool := p.isE || subject.isE || p.kind = subject.kind

def seqSrc (k : Kind) (xs : List Nat) : String :=
  match k with
  | .S => "'" ++ String.ofList (xs.map (fun x => Char.ofNat (97 + x))) ++ "'"
  | .B => "<<" ++ ", ".intercalate (xs.map (fun x => toString (97 + x))) ++ ">>"
  | .A => "[" ++ ", ".intercalate (xs.map toString) ++ "]"

def Sq.src (s : Sq) : String := seqSrc s.kind s.xs
def seqsSrc (k : Kind) (xss : List (List Nat)) : String :=
  "[" ++ ", ".intercalate (xss.map (seqSrc k)) ++ "]"

end Arrai.C14
